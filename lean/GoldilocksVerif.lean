import GoldilocksVerif.Isa.X86
import GoldilocksVerif.Model.Region
