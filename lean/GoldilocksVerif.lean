import GoldilocksVerif.Isa.X86
import GoldilocksVerif.Isa.Vec
import GoldilocksVerif.Isa.Avx2
import GoldilocksVerif.Isa.Avx512
import GoldilocksVerif.Model.Region
import GoldilocksVerif.Props.C01
