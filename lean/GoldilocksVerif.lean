import GoldilocksVerif.Props.C01
import GoldilocksVerif.Props.C02
import GoldilocksVerif.Props.C11
import GoldilocksVerif.Props.C13
import GoldilocksVerif.Props.C14
import GoldilocksVerif.Props.C10
import GoldilocksVerif.Props.C15
import GoldilocksVerif.Props.C09
