def hello := "world"
