/-
  Semantics of the AVX-512F intrinsics used by goldilocks_base_field_avx512.hpp.  Core-only.
-/
import GoldilocksVerif.Isa.Vec
import GoldilocksVerif.Model.Region
namespace GoldilocksVerif.Avx512
open GoldilocksVerif

@[inline] def add_epi64 (a b : V8) : V8 := V8.map2 (· + ·) a b
@[inline] def sub_epi64 (a b : V8) : V8 := V8.map2 (· - ·) a b
@[inline] def and_si512 (a b : V8) : V8 := V8.map2 (· &&& ·) a b
@[inline] def xor_si512 (a b : V8) : V8 := V8.map2 (· ^^^ ·) a b
/-- not used by the pinned source; present so that a rewrite using them stays translatable (validated when used) -/
@[inline] def or_si512 (a b : V8) : V8 := V8.map2 (· ||| ·) a b
@[inline] def andnot_si512 (a b : V8) : V8 := V8.map2 (fun x y => ~~~x &&& y) a b
@[inline] def srli_epi64 (a : V8) (k : Nat) : V8 := V8.map (· >>> k) a
@[inline] def slli_epi64 (a : V8) (k : Nat) : V8 := V8.map (· <<< k) a
@[inline] def mul_epu32 (a b : V8) : V8 := V8.map2 Lane.mul32 a b
@[inline] def movehdup_ps (a : V8) : V8 := V8.map Lane.hdup a
@[inline] def moveldup_ps (a : V8) : V8 := V8.map Lane.ldup a

@[inline] def bit (c : Bool) (i : Nat) : BitVec 8 := if c then BitVec.ofNat 8 (2 ^ i) else 0#8
/-- 8-bit lane mask from a lane predicate -/
@[inline] def mask8 (p : BitVec 64 → BitVec 64 → Bool) (a b : V8) : BitVec 8 :=
  bit (p a.l0 b.l0) 0 ||| bit (p a.l1 b.l1) 1 ||| bit (p a.l2 b.l2) 2 ||| bit (p a.l3 b.l3) 3 |||
  bit (p a.l4 b.l4) 4 ||| bit (p a.l5 b.l5) 5 ||| bit (p a.l6 b.l6) 6 ||| bit (p a.l7 b.l7) 7
@[inline] def cmpgt_epu64_mask (a b : V8) : BitVec 8 := mask8 (fun x y => decide (y < x)) a b
@[inline] def cmpge_epu64_mask (a b : V8) : BitVec 8 := mask8 (fun x y => decide (y ≤ x)) a b
/-- `vpcmpuq` with an immediate predicate and a write mask -/
@[inline] def ucmpq512_mask (a b : V8) (pred : Nat) (k : BitVec 8) : BitVec 8 :=
  let p : BitVec 64 → BitVec 64 → Bool := match pred % 8 with
    | 0 => fun x y => x == y
    | 1 => fun x y => decide (x < y)
    | 2 => fun x y => decide (x ≤ y)
    | 3 => fun _ _ => false
    | 4 => fun x y => x != y
    | 5 => fun x y => decide (y ≤ x)
    | 6 => fun x y => decide (y < x)
    | _ => fun _ _ => true
  mask8 p a b &&& k
@[inline] def sel (k : BitVec 8) (i : Nat) (x y : BitVec 64) : BitVec 64 := if k.getLsbD i then x else y
/-- lane i := k[i] ? a+b : src -/
@[inline] def mask_add_epi64 (src : V8) (k : BitVec 8) (a b : V8) : V8 :=
  ⟨sel k 0 (a.l0 + b.l0) src.l0, sel k 1 (a.l1 + b.l1) src.l1, sel k 2 (a.l2 + b.l2) src.l2,
   sel k 3 (a.l3 + b.l3) src.l3, sel k 4 (a.l4 + b.l4) src.l4, sel k 5 (a.l5 + b.l5) src.l5,
   sel k 6 (a.l6 + b.l6) src.l6, sel k 7 (a.l7 + b.l7) src.l7⟩
/-- lane i := k[i] ? a-b : src  (not used by the pinned source; present so that a rewrite using it stays translatable) -/
@[inline] def mask_sub_epi64 (src : V8) (k : BitVec 8) (a b : V8) : V8 :=
  ⟨sel k 0 (a.l0 - b.l0) src.l0, sel k 1 (a.l1 - b.l1) src.l1, sel k 2 (a.l2 - b.l2) src.l2,
   sel k 3 (a.l3 - b.l3) src.l3, sel k 4 (a.l4 - b.l4) src.l4, sel k 5 (a.l5 - b.l5) src.l5,
   sel k 6 (a.l6 - b.l6) src.l6, sel k 7 (a.l7 - b.l7) src.l7⟩
/-- further unsigned compares (clang expands the `_mm512_cmp*_epu64_mask` macros to `ucmpq512_mask`; these are
  the by-name forms, same lane predicates as the immediates 1 / 2 / 0 / 4) -/
@[inline] def cmplt_epu64_mask (a b : V8) : BitVec 8 := mask8 (fun x y => decide (x < y)) a b
@[inline] def cmple_epu64_mask (a b : V8) : BitVec 8 := mask8 (fun x y => decide (x ≤ y)) a b
@[inline] def cmpeq_epu64_mask (a b : V8) : BitVec 8 := mask8 (fun x y => x == y) a b
@[inline] def cmpneq_epu64_mask (a b : V8) : BitVec 8 := mask8 (fun x y => x != y) a b
/-- `vpblendmd`: 32-bit element i := k[i] ? b : a -/
@[inline] def mask_blend_epi32 (k : BitVec 16) (a b : V8) : V8 :=
  let s (j : Nat) : Nat := (k.toNat / 4 ^ j) % 4
  ⟨Lane.blend32 (s 0) a.l0 b.l0, Lane.blend32 (s 1) a.l1 b.l1, Lane.blend32 (s 2) a.l2 b.l2,
   Lane.blend32 (s 3) a.l3 b.l3, Lane.blend32 (s 4) a.l4 b.l4, Lane.blend32 (s 5) a.l5 b.l5,
   Lane.blend32 (s 6) a.l6 b.l6, Lane.blend32 (s 7) a.l7 b.l7⟩
/-- `vmovdqa32` with a merge mask: 32-bit element i := k[i] ? a : src, i.e. `mask_blend_epi32 k src a`
  (not used by the pinned source; present so that a rewrite using it stays translatable) -/
@[inline] def mask_mov_epi32 (src : V8) (k : BitVec 16) (a : V8) : V8 := mask_blend_epi32 k src a
@[inline] def pick (a b : V8) (idx : BitVec 64) : BitVec 64 :=
  let t := if idx.getLsbD 3 then b else a
  match idx.toNat % 8 with
  | 0 => t.l0 | 1 => t.l1 | 2 => t.l2 | 3 => t.l3 | 4 => t.l4 | 5 => t.l5 | 6 => t.l6 | _ => t.l7
/-- `vpermt2q/vpermi2q`: lane i := (idx[i] bit 3 ? b : a)[idx[i] bits 2:0] -/
@[inline] def permutex2var_epi64 (a idx b : V8) : V8 :=
  ⟨pick a b idx.l0, pick a b idx.l1, pick a b idx.l2, pick a b idx.l3,
   pick a b idx.l4, pick a b idx.l5, pick a b idx.l6, pick a b idx.l7⟩
@[inline] def unpacklo_pd (a b : V8) : V8 := ⟨a.l0, b.l0, a.l2, b.l2, a.l4, b.l4, a.l6, b.l6⟩
@[inline] def unpackhi_pd (a b : V8) : V8 := ⟨a.l1, b.l1, a.l3, b.l3, a.l5, b.l5, a.l7, b.l7⟩
/-- `vbroadcasti64x4`: the 256-bit source in both halves -/
@[inline] def broadcast_i64x4 (a : V4) : V8 := ⟨a.l0, a.l1, a.l2, a.l3, a.l0, a.l1, a.l2, a.l3⟩
@[inline] def set_epi64 (e7 e6 e5 e4 e3 e2 e1 e0 : BitVec 64) : V8 := ⟨e0, e1, e2, e3, e4, e5, e6, e7⟩
@[inline] def set4_epi64 (d c b a : BitVec 64) : V8 := ⟨a, b, c, d, a, b, c, d⟩
@[inline] def set1_epi64 (e : BitVec 64) : V8 := ⟨e, e, e, e, e, e, e, e⟩
def load (r : Region) : V8 := ⟨r 0, r 1, r 2, r 3, r 4, r 5, r 6, r 7⟩
def store (r : Region) (v : V8) : Region :=
  ⟨fun j => if j = 0 then v.l0 else if j = 1 then v.l1 else if j = 2 then v.l2 else if j = 3 then v.l3
    else if j = 4 then v.l4 else if j = 5 then v.l5 else if j = 6 then v.l6 else if j = 7 then v.l7 else r j⟩

end GoldilocksVerif.Avx512
