/-
  x86-64 instruction subset used by the GNU inline-asm blocks of
  `goldilocks_base_field_scalar.hpp` (AT&T operand order: `op src, dst`).
  Core-only (no Mathlib) so that the driver links as a `lean_exe`.

  Every instruction is a pure function returning the new destination value and,
  for flag-writing instructions, the new carry flag.  Only CF is modelled: it is
  the only flag any of the asm blocks consumes (`cmovc`, `jnc`, `adc`).
-/
namespace X86

abbrev W := BitVec 64

/-- `add src, dst` : dst := dst + src, CF := unsigned carry out. -/
@[inline] def add64 (dst src : W) : W × Bool :=
  (dst + src, decide (2 ^ 64 ≤ dst.toNat + src.toNat))

/-- `sub src, dst` : dst := dst - src, CF := unsigned borrow. -/
@[inline] def sub64 (dst src : W) : W × Bool :=
  (dst - src, decide (dst.toNat < src.toNat))

/-- `adc src, dst` : dst := dst + src + CF. -/
@[inline] def adc64 (dst src : W) (cf : Bool) : W × Bool :=
  (dst + src + (if cf then 1 else 0),
   decide (2 ^ 64 ≤ dst.toNat + src.toNat + (if cf then 1 else 0)))

/-- `xor src, dst` : CF := 0. -/
@[inline] def xor64 (dst src : W) : W × Bool := (dst ^^^ src, false)

/-- `cmovc src, dst`. -/
@[inline] def cmovc64 (cf : Bool) (dst src : W) : W := if cf then src else dst

/-- `mul src` : rdx:rax := rax * src (unsigned); CF := (rdx ≠ 0). Returns (rdx, rax, CF). -/
@[inline] def mul64 (rax src : W) : W × W × Bool :=
  let p := rax.toNat * src.toNat
  let hi : W := BitVec.ofNat 64 (p / 2 ^ 64)
  let lo : W := BitVec.ofNat 64 p
  (hi, lo, decide (hi ≠ 0))

/-- `mov %e_src, %e_dst` : 32-bit move, upper half of the 64-bit destination is zeroed. -/
@[inline] def mov32 (src : W) : W := src &&& 0xFFFFFFFF#64

/-- `rol $k, dst` : rotate left; CF := least significant bit of the result (k ≠ 0). -/
@[inline] def rol64 (dst : W) (k : Nat) (cf : Bool) : W × Bool :=
  let r := dst.rotateLeft k
  (r, if k % 64 = 0 then cf else r.getLsbD 0)

end X86
