/-
  Semantics of the AVX2 intrinsics used by goldilocks_base_field_avx.hpp (Intel SDM / intrinsics guide).
  Core-only.  Validated against this CPU by the correspondence run of C02.
-/
import GoldilocksVerif.Isa.Vec
import GoldilocksVerif.Model.Region
namespace GoldilocksVerif.Avx2
open GoldilocksVerif

@[inline] def add_epi64 (a b : V4) : V4 := V4.map2 (· + ·) a b
@[inline] def sub_epi64 (a b : V4) : V4 := V4.map2 (· - ·) a b
@[inline] def and_si256 (a b : V4) : V4 := V4.map2 (· &&& ·) a b
@[inline] def andnot_si256 (a b : V4) : V4 := V4.map2 (fun x y => ~~~x &&& y) a b
@[inline] def xor_si256 (a b : V4) : V4 := V4.map2 (· ^^^ ·) a b
/-- not used by the pinned source; present so that a rewrite using them stays translatable (validated when used) -/
@[inline] def or_si256 (a b : V4) : V4 := V4.map2 (· ||| ·) a b
@[inline] def cmpeq_epi64 (a b : V4) : V4 := V4.map2 (fun x y => Lane.mask (x == y)) a b
@[inline] def cmpeq_epi32 (a b : V4) : V4 :=
  V4.map2 (fun x y => (if x.extractLsb' 32 32 == y.extractLsb' 32 32 then 0xFFFFFFFF00000000#64 else 0#64) |||
                      (if x.extractLsb' 0 32 == y.extractLsb' 0 32 then 0x00000000FFFFFFFF#64 else 0#64)) a b
@[inline] def cmpgt_epi64 (a b : V4) : V4 := V4.map2 Lane.cmpgt64 a b
@[inline] def cmpgt_epi32 (a b : V4) : V4 := V4.map2 Lane.cmpgt32 a b
@[inline] def srli_epi64 (a : V4) (k : Nat) : V4 := V4.map (· >>> k) a
@[inline] def slli_epi64 (a : V4) (k : Nat) : V4 := V4.map (· <<< k) a
@[inline] def mul_epu32 (a b : V4) : V4 := V4.map2 Lane.mul32 a b
@[inline] def movehdup_ps (a : V4) : V4 := V4.map Lane.hdup a
@[inline] def moveldup_ps (a : V4) : V4 := V4.map Lane.ldup a
/-- `vpblendd`: imm8 bit i selects 32-bit element i from `b` -/
@[inline] def blend_epi32 (a b : V4) (imm : Nat) : V4 :=
  ⟨Lane.blend32 (imm % 4) a.l0 b.l0, Lane.blend32 (imm / 4 % 4) a.l1 b.l1,
   Lane.blend32 (imm / 16 % 4) a.l2 b.l2, Lane.blend32 (imm / 64 % 4) a.l3 b.l3⟩
/-- one 128-bit half selected by a 4-bit control of `vperm2f128/vperm2i128` -/
@[inline] def sel128 (a b : V4) (c : Nat) : BitVec 64 × BitVec 64 :=
  if c / 8 % 2 = 1 then (0, 0)
  else match c % 4 with
    | 0 => (a.l0, a.l1) | 1 => (a.l2, a.l3) | 2 => (b.l0, b.l1) | _ => (b.l2, b.l3)
@[inline] def permute2f128 (a b : V4) (imm : Nat) : V4 :=
  let lo := sel128 a b (imm % 16)
  let hi := sel128 a b (imm / 16 % 16)
  ⟨lo.1, lo.2, hi.1, hi.2⟩
@[inline] def unpacklo_pd (a b : V4) : V4 := ⟨a.l0, b.l0, a.l2, b.l2⟩
@[inline] def unpackhi_pd (a b : V4) : V4 := ⟨a.l1, b.l1, a.l3, b.l3⟩
@[inline] def set_epi64x (e3 e2 e1 e0 : BitVec 64) : V4 := ⟨e0, e1, e2, e3⟩
@[inline] def set1_epi64x (e : BitVec 64) : V4 := ⟨e, e, e, e⟩
/-- `_mm256_extract_epi64` (`__builtin_ia32_vec_ext_v4di`): the 64-bit element `k` (the immediate is taken mod 4).
  Not used by the pinned source; present so that a rewrite reading lanes straight from a register stays translatable. -/
@[inline] def extract_epi64 (a : V4) (k : Nat) : BitVec 64 :=
  match k % 4 with
  | 0 => a.l0 | 1 => a.l1 | 2 => a.l2 | _ => a.l3
def load (r : Region) : V4 := ⟨r 0, r 1, r 2, r 3⟩
def store (r : Region) (v : V4) : Region :=
  ⟨fun j => if j = 0 then v.l0 else if j = 1 then v.l1 else if j = 2 then v.l2 else if j = 3 then v.l3 else r j⟩

end GoldilocksVerif.Avx2
