/-
  PTX instruction subset used by the inline-asm blocks of `/repo/src/gl64_t.cuh`
  (sppark's `gl64_t` device field type), plus the handful of C++ integer operations that
  feed the asm operands (`(uint32_t)(val)`, `val >> 32`, `-carry`, `0 - MOD`, `(int)flag`, `val == 0`).
  Core-only (no Mathlib).

  Written from the PTX ISA manual ("Integer Arithmetic Instructions", "Extended-Precision
  Integer Arithmetic Instructions", "Comparison and Selection Instructions", "Data Movement"):

  * there is one condition-code register `CC` with a single carry flag `CC.CF`;
  * `add.cc d,a,b`      : `d = a + b`,            `CC.CF` := carry out of the addition;
  * `addc{.cc} d,a,b`   : `d = a + b + CC.CF`     (`.cc`: `CC.CF` := carry out);
  * `sub.cc d,a,b`      : `d = a - b`,            `CC.CF` := borrow out;
  * `subc{.cc} d,a,b`   : `d = a - (b + CC.CF)`   (`.cc`: `CC.CF` := borrow out);
  * `mul.lo/mul.hi`     : low / high half of the double-width product;
  * `mad.{lo,hi}{.cc}`  : `d = (a*b).{lo,hi} + c`  (`.cc`: `CC.CF` := carry out of the addition);
  * `madc.{lo,hi}{.cc}` : `d = (a*b).{lo,hi} + c + CC.CF`;
  * `setp.cmp p,a,b`    : `p = (a cmp b)`; `selp d,a,b,p` : `d = p ? a : b`;
  * `@p insn` / `@!p insn` : the instruction takes effect only when the guard holds;
  * `mov.b64 d,{lo,hi}` : `d = lo | hi << 32`;  `mov.b64 {lo,hi},a` : the inverse.

  Every instruction is a pure function; flag-writing ones return `(result, CF)` and flag-reading
  ones take `CF` as an explicit argument, so the translator threads `CC.CF` through the let-chain.
  These semantics are NOT validated against hardware (no GPU / nvcc in the sandbox).
-/
namespace Ptx

variable {w : Nat}

/-! ### add / addc -/

/-- `add.{u,s}w d, a, b` -/
@[inline] def add (a b : BitVec w) : BitVec w := a + b

/-- `add.cc d, a, b` : result and carry-out -/
@[inline] def add_cc (a b : BitVec w) : BitVec w × Bool :=
  (a + b, decide (2 ^ w ≤ a.toNat + b.toNat))

/-- `addc d, a, b` : `a + b + CC.CF` -/
@[inline] def addc (a b : BitVec w) (cf : Bool) : BitVec w :=
  a + b + BitVec.ofNat w cf.toNat

/-- `addc.cc d, a, b` -/
@[inline] def addc_cc (a b : BitVec w) (cf : Bool) : BitVec w × Bool :=
  (a + b + BitVec.ofNat w cf.toNat, decide (2 ^ w ≤ a.toNat + b.toNat + cf.toNat))

/-! ### sub / subc  (`CC.CF` = borrow) -/

/-- `sub d, a, b` -/
@[inline] def sub (a b : BitVec w) : BitVec w := a - b

/-- `sub.cc d, a, b` : result and borrow-out -/
@[inline] def sub_cc (a b : BitVec w) : BitVec w × Bool :=
  (a - b, decide (a.toNat < b.toNat))

/-- `subc d, a, b` : `a - (b + CC.CF)` -/
@[inline] def subc (a b : BitVec w) (cf : Bool) : BitVec w :=
  a - b - BitVec.ofNat w cf.toNat

/-- `subc.cc d, a, b` -/
@[inline] def subc_cc (a b : BitVec w) (cf : Bool) : BitVec w × Bool :=
  (a - b - BitVec.ofNat w cf.toNat, decide (a.toNat < b.toNat + cf.toNat))

/-! ### mul / mad / madc -/

/-- `mul.lo d, a, b` -/
@[inline] def mul_lo (a b : BitVec w) : BitVec w := BitVec.ofNat w (a.toNat * b.toNat)

/-- `mul.hi d, a, b` -/
@[inline] def mul_hi (a b : BitVec w) : BitVec w := BitVec.ofNat w (a.toNat * b.toNat / 2 ^ w)

/-- `mul.wide.u32 d, a, b` : full 64-bit product of two 32-bit operands -/
@[inline] def mul_wide_u32 (a b : BitVec 32) : BitVec 64 := BitVec.ofNat 64 (a.toNat * b.toNat)

/-- `mad.lo d, a, b, c` -/
@[inline] def mad_lo (a b c : BitVec w) : BitVec w := add (mul_lo a b) c
/-- `mad.hi d, a, b, c` -/
@[inline] def mad_hi (a b c : BitVec w) : BitVec w := add (mul_hi a b) c
/-- `mad.lo.cc d, a, b, c` -/
@[inline] def mad_lo_cc (a b c : BitVec w) : BitVec w × Bool := add_cc (mul_lo a b) c
/-- `mad.hi.cc d, a, b, c` -/
@[inline] def mad_hi_cc (a b c : BitVec w) : BitVec w × Bool := add_cc (mul_hi a b) c
/-- `madc.lo d, a, b, c` -/
@[inline] def madc_lo (a b c : BitVec w) (cf : Bool) : BitVec w := addc (mul_lo a b) c cf
/-- `madc.hi d, a, b, c` -/
@[inline] def madc_hi (a b c : BitVec w) (cf : Bool) : BitVec w := addc (mul_hi a b) c cf
/-- `madc.lo.cc d, a, b, c` -/
@[inline] def madc_lo_cc (a b c : BitVec w) (cf : Bool) : BitVec w × Bool := addc_cc (mul_lo a b) c cf
/-- `madc.hi.cc d, a, b, c` -/
@[inline] def madc_hi_cc (a b c : BitVec w) (cf : Bool) : BitVec w × Bool := addc_cc (mul_hi a b) c cf

/-! ### comparison, selection, predication -/

/-- `setp.eq` (any integer / bit type of width `w`) -/
@[inline] def setp_eq (a b : BitVec w) : Bool := decide (a.toNat = b.toNat)
/-- `setp.ne` -/
@[inline] def setp_ne (a b : BitVec w) : Bool := decide (a.toNat ≠ b.toNat)
/-- `setp.lt.u*` / `setp.lo` (unsigned) -/
@[inline] def setp_lt_u (a b : BitVec w) : Bool := decide (a.toNat < b.toNat)
/-- `setp.le.u*` / `setp.ls` -/
@[inline] def setp_le_u (a b : BitVec w) : Bool := decide (a.toNat ≤ b.toNat)
/-- `setp.gt.u*` / `setp.hi` -/
@[inline] def setp_gt_u (a b : BitVec w) : Bool := decide (b.toNat < a.toNat)
/-- `setp.ge.u*` / `setp.hs` -/
@[inline] def setp_ge_u (a b : BitVec w) : Bool := decide (b.toNat ≤ a.toNat)

/-- `selp d, a, b, p` : `p ? a : b` -/
@[inline] def selp (a b : BitVec w) (p : Bool) : BitVec w := bif p then a else b

/-- `@p insn` : destination gets the new value when the guard holds and keeps the old one otherwise
    (also used for a guarded `setp`, whose destination is a predicate) -/
@[inline] def guard {α : Type} (p : Bool) (new old : α) : α := bif p then new else old

/-! ### data movement, logic, shifts -/

/-- `mov.b64 d, {lo, hi}` -/
@[inline] def pack64 (lo hi : BitVec 32) : BitVec 64 := BitVec.ofNat 64 (lo.toNat + hi.toNat * 2 ^ 32)
/-- `mov.b64 {lo, hi}, a` : low word -/
@[inline] def unpack_lo (a : BitVec 64) : BitVec 32 := BitVec.ofNat 32 a.toNat
/-- `mov.b64 {lo, hi}, a` : high word -/
@[inline] def unpack_hi (a : BitVec 64) : BitVec 32 := BitVec.ofNat 32 (a.toNat / 2 ^ 32)

/-- `and.b*` -/
@[inline] def and_b (a b : BitVec w) : BitVec w := a &&& b
/-- `or.b*` -/
@[inline] def or_b (a b : BitVec w) : BitVec w := a ||| b
/-- `xor.b*` -/
@[inline] def xor_b (a b : BitVec w) : BitVec w := a ^^^ b
/-- `shl.b* d, a, n` (shift amounts ≥ width give 0, as PTX clamps) -/
@[inline] def shl_b (a : BitVec w) (n : BitVec 32) : BitVec w := a <<< n.toNat
/-- `shr.u* d, a, n` / `shr.b*` -/
@[inline] def shr_u (a : BitVec w) (n : BitVec 32) : BitVec w := a >>> n.toNat

end Ptx

/-! C++ integer operations on the operands of the asm blocks (unsigned, wrap-around) -/
namespace Cpp

/-- `(uint32_t)x` for a `uint64_t` -/
@[inline] def trunc32 (x : BitVec 64) : BitVec 32 := BitVec.ofNat 32 x.toNat
/-- `(uint64_t)x` for a `uint32_t` -/
@[inline] def zext64 (x : BitVec 32) : BitVec 64 := BitVec.ofNat 64 x.toNat
/-- `x >> n` on `uint64_t`, `n` a literal below 64 -/
@[inline] def shr64 (x : BitVec 64) (n : Nat) : BitVec 64 := BitVec.ofNat 64 (x.toNat / 2 ^ n)
/-- unary minus on an unsigned `w`-bit value -/
@[inline] def neg {w : Nat} (x : BitVec w) : BitVec w := BitVec.ofNat w (2 ^ w - x.toNat)
/-- `a - b` on unsigned `w`-bit values -/
@[inline] def sub {w : Nat} (a b : BitVec w) : BitVec w := a - b
/-- `a + b` on unsigned `w`-bit values -/
@[inline] def add {w : Nat} (a b : BitVec w) : BitVec w := a + b
/-- `(int)b` for a `bool` -/
@[inline] def ofBool32 (b : Bool) : BitVec 32 := BitVec.ofNat 32 b.toNat
/-- `a == b` -/
@[inline] def eq {w : Nat} (a b : BitVec w) : Bool := decide (a.toNat = b.toNat)
/-- `a != b` -/
@[inline] def ne {w : Nat} (a b : BitVec w) : Bool := decide (a.toNat ≠ b.toNat)

end Cpp
