/-
  256-bit and 512-bit registers as structures of 64-bit lanes (core-only).
-/
namespace GoldilocksVerif

structure V4 where
  l0 : BitVec 64
  l1 : BitVec 64
  l2 : BitVec 64
  l3 : BitVec 64
  deriving DecidableEq, Inhabited

namespace V4
def zero : V4 := ⟨0, 0, 0, 0⟩
@[inline] def map (f : BitVec 64 → BitVec 64) (a : V4) : V4 := ⟨f a.l0, f a.l1, f a.l2, f a.l3⟩
@[inline] def map2 (f : BitVec 64 → BitVec 64 → BitVec 64) (a b : V4) : V4 :=
  ⟨f a.l0 b.l0, f a.l1 b.l1, f a.l2 b.l2, f a.l3 b.l3⟩
def toList (a : V4) : List (BitVec 64) := [a.l0, a.l1, a.l2, a.l3]
def get (a : V4) (i : Fin 4) : BitVec 64 :=
  match i with
  | 0 => a.l0 | 1 => a.l1 | 2 => a.l2 | 3 => a.l3
def splat (x : BitVec 64) : V4 := ⟨x, x, x, x⟩
@[simp] theorem get_map (f) (a : V4) (i : Fin 4) : (map f a).get i = f (a.get i) := by
  match i with
  | 0 => rfl | 1 => rfl | 2 => rfl | 3 => rfl
@[simp] theorem get_map2 (f) (a b : V4) (i : Fin 4) : (map2 f a b).get i = f (a.get i) (b.get i) := by
  match i with
  | 0 => rfl | 1 => rfl | 2 => rfl | 3 => rfl
@[simp] theorem get_splat (x) (i : Fin 4) : (splat x).get i = x := by
  match i with
  | 0 => rfl | 1 => rfl | 2 => rfl | 3 => rfl
theorem ext_get (a b : V4) (h : ∀ i, a.get i = b.get i) : a = b := by
  cases a; cases b
  have h0 := h 0; have h1 := h 1; have h2 := h 2; have h3 := h 3
  simp only [get] at h0 h1 h2 h3
  subst h0 h1 h2 h3; rfl
end V4

structure V8 where
  l0 : BitVec 64
  l1 : BitVec 64
  l2 : BitVec 64
  l3 : BitVec 64
  l4 : BitVec 64
  l5 : BitVec 64
  l6 : BitVec 64
  l7 : BitVec 64
  deriving DecidableEq, Inhabited

namespace V8
def zero : V8 := ⟨0, 0, 0, 0, 0, 0, 0, 0⟩
@[inline] def map (f : BitVec 64 → BitVec 64) (a : V8) : V8 :=
  ⟨f a.l0, f a.l1, f a.l2, f a.l3, f a.l4, f a.l5, f a.l6, f a.l7⟩
@[inline] def map2 (f : BitVec 64 → BitVec 64 → BitVec 64) (a b : V8) : V8 :=
  ⟨f a.l0 b.l0, f a.l1 b.l1, f a.l2 b.l2, f a.l3 b.l3, f a.l4 b.l4, f a.l5 b.l5, f a.l6 b.l6, f a.l7 b.l7⟩
def toList (a : V8) : List (BitVec 64) := [a.l0, a.l1, a.l2, a.l3, a.l4, a.l5, a.l6, a.l7]
def get (a : V8) (i : Fin 8) : BitVec 64 :=
  match i with
  | 0 => a.l0 | 1 => a.l1 | 2 => a.l2 | 3 => a.l3 | 4 => a.l4 | 5 => a.l5 | 6 => a.l6 | 7 => a.l7
def splat (x : BitVec 64) : V8 := ⟨x, x, x, x, x, x, x, x⟩
@[simp] theorem get_map (f) (a : V8) (i : Fin 8) : (map f a).get i = f (a.get i) := by
  match i with
  | 0 => rfl | 1 => rfl | 2 => rfl | 3 => rfl | 4 => rfl | 5 => rfl | 6 => rfl | 7 => rfl
@[simp] theorem get_map2 (f) (a b : V8) (i : Fin 8) : (map2 f a b).get i = f (a.get i) (b.get i) := by
  match i with
  | 0 => rfl | 1 => rfl | 2 => rfl | 3 => rfl | 4 => rfl | 5 => rfl | 6 => rfl | 7 => rfl
@[simp] theorem get_splat (x) (i : Fin 8) : (splat x).get i = x := by
  match i with
  | 0 => rfl | 1 => rfl | 2 => rfl | 3 => rfl | 4 => rfl | 5 => rfl | 6 => rfl | 7 => rfl
end V8

/-! lane functions shared by the AVX2 and AVX512 models -/
namespace Lane

/-- all-ones / zero mask -/
@[inline] def mask (c : Bool) : BitVec 64 := if c then 0xFFFFFFFFFFFFFFFF#64 else 0#64
/-- `pcmpgtq`: signed 64-bit compare -/
@[inline] def cmpgt64 (a b : BitVec 64) : BitVec 64 := mask (b.slt a)
/-- `pcmpgtd` on the two 32-bit halves of a 64-bit lane -/
@[inline] def cmpgt32 (a b : BitVec 64) : BitVec 64 :=
  let alo := a.extractLsb' 0 32;  let blo := b.extractLsb' 0 32
  let ahi := a.extractLsb' 32 32; let bhi := b.extractLsb' 32 32
  let lo : BitVec 64 := if blo.slt alo then 0x00000000FFFFFFFF#64 else 0#64
  let hi : BitVec 64 := if bhi.slt ahi then 0xFFFFFFFF00000000#64 else 0#64
  hi ||| lo
/-- `pmuludq`: product of the low 32-bit halves -/
@[inline] def mul32 (a b : BitVec 64) : BitVec 64 := (a &&& 0xFFFFFFFF#64) * (b &&& 0xFFFFFFFF#64)
/-- `movshdup` within a 64-bit lane: both halves := high half -/
@[inline] def hdup (a : BitVec 64) : BitVec 64 := (a >>> 32) ||| (a &&& 0xFFFFFFFF00000000#64)
/-- `movsldup` within a 64-bit lane: both halves := low half -/
@[inline] def ldup (a : BitVec 64) : BitVec 64 := (a &&& 0xFFFFFFFF#64) ||| (a <<< 32)
/-- 32-bit blend of one 64-bit lane: bit 0 of `sel` picks the low half of `b`, bit 1 the high half -/
@[inline] def blend32 (sel : Nat) (a b : BitVec 64) : BitVec 64 :=
  let lo := if sel % 2 = 1 then b &&& 0xFFFFFFFF#64 else a &&& 0xFFFFFFFF#64
  let hi := if (sel / 2) % 2 = 1 then b &&& 0xFFFFFFFF00000000#64 else a &&& 0xFFFFFFFF00000000#64
  hi ||| lo
end Lane

end GoldilocksVerif
