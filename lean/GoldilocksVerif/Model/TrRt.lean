/-
  Run-time support of the EXTENDED translator (tools/tr_cxx.py, "ext" mode): loops whose trip count is not known before
  the loop, functions that can end the process, doubles that hold integers.  Core-only.

  A generated function is *partial* when it (transitively) contains a fuel-bounded loop or a call that ends the process
  (`exit`, `throw`).  A partial function takes `(fuel : Nat)` as its first parameter and returns `Option τ`:
    `none`   = the process was ended by the code (exit(-1) / throw)  OR  some loop ran out of fuel;
    `some r` = normal return with results r.
  `fuel` bounds the number of iterations of EVERY fuel-bounded loop separately (it is not a shared budget): each
  `while` / `for(;;)` / non-affine `for` runs at most `fuel - 1` iterations (one unit is used by the final evaluation of
  the loop condition).  The bridge theorems (Lemmas/Bridge*.lean) state from which fuel on `none` can only mean "ended
  by the code".
-/
import GoldilocksVerif.Model.Region

namespace GoldilocksVerif

namespace Loop

/-- `while (c) body` / `for (;;) body` with `break` / `continue`: `step s` evaluates the condition and one iteration:
    `some (false, s')` = the loop is left with state s' (condition false, or `break`),
    `some (true, s')`  = next iteration from s' (end of body, or `continue`),
    `none`             = the body ended the process (or an inner loop ran out of fuel). -/
def whileM {σ : Type} (step : σ → Option (Bool × σ)) : Nat → σ → Option σ
  | 0, _ => none
  | fuel + 1, s =>
    match step s with
    | none => none
    | some (false, s') => some s'
    | some (true, s') => whileM step fuel s'

theorem whileM_zero {σ : Type} (step : σ → Option (Bool × σ)) (s : σ) : whileM step 0 s = none := rfl

theorem whileM_succ {σ : Type} (step : σ → Option (Bool × σ)) (fuel : Nat) (s : σ) :
    whileM step (fuel + 1) s =
      match step s with
      | none => none
      | some (false, s') => some s'
      | some (true, s') => whileM step fuel s' := rfl

theorem whileM_stop {σ : Type} (step : σ → Option (Bool × σ)) (fuel : Nat) (s s' : σ) (h : step s = some (false, s')) :
    whileM step (fuel + 1) s = some s' := by rw [whileM_succ, h]

theorem whileM_next {σ : Type} (step : σ → Option (Bool × σ)) (fuel : Nat) (s s' : σ) (h : step s = some (true, s')) :
    whileM step (fuel + 1) s = whileM step fuel s' := by rw [whileM_succ, h]

theorem whileM_abort {σ : Type} (step : σ → Option (Bool × σ)) (fuel : Nat) (s : σ) (h : step s = none) :
    whileM step (fuel + 1) s = none := by rw [whileM_succ, h]

/-- more fuel never changes a result that was reached -/
theorem whileM_mono {σ : Type} (step : σ → Option (Bool × σ)) (f : Nat) :
    ∀ (s r : σ) (g : Nat), whileM step f s = some r → f ≤ g → whileM step g s = some r := by
  induction f with
  | zero => intro s r g h; simp [whileM] at h
  | succ f ih =>
    intro s r g h hg
    obtain ⟨g', rfl⟩ : ∃ g', g = g' + 1 := ⟨g - 1, by omega⟩
    rw [whileM_succ] at h ⊢
    cases hs : step s with
    | none => rw [hs] at h; cases h
    | some p =>
      obtain ⟨b, s'⟩ := p
      rw [hs] at h
      cases b with
      | false => exact h
      | true => exact ih s' r g' h (by omega)

/-- `for (i = lo; i < hi; i += step)` whose body may end the process / contains `continue` (fuel = iteration count,
    known before the loop as for `Loop.range`). -/
def rangeMAux {σ : Type} (step : Nat) (f : Nat → σ → Option σ) : Nat → Nat → σ → Option σ
  | 0, _, s => some s
  | n + 1, i, s =>
    match f i s with
    | none => none
    | some s' => rangeMAux step f n (i + step) s'

def rangeM {σ : Type} (lo hi step : Nat) (s : σ) (f : Nat → σ → Option σ) : Option σ :=
  rangeMAux step f ((hi - lo + step - 1) / step) lo s

theorem rangeMAux_zero {σ : Type} (step : Nat) (f : Nat → σ → Option σ) (i : Nat) (s : σ) :
    rangeMAux step f 0 i s = some s := rfl

theorem rangeMAux_succ {σ : Type} (step : Nat) (f : Nat → σ → Option σ) (n i : Nat) (s : σ) :
    rangeMAux step f (n + 1) i s = (f i s).bind (fun s' => rangeMAux step f n (i + step) s') := by
  show (match f i s with | none => none | some s' => rangeMAux step f n (i + step) s') = _
  cases f i s <;> rfl

/-- invariant rule for `whileM`: every step from a state satisfying `Inv` either leaves the loop in a state satisfying `Post`
    or continues in a state satisfying `Inv` with a smaller measure; then the loop returns for every fuel > measure -/
theorem whileM_inv {σ : Type} (step : σ → Option (Bool × σ)) (Inv Post : σ → Prop) (μ : σ → Nat)
    (hstep : ∀ s, Inv s → (∃ s', step s = some (false, s') ∧ Post s') ∨
      (∃ s', step s = some (true, s') ∧ Inv s' ∧ μ s' < μ s)) :
    ∀ (fuel : Nat) (s : σ), Inv s → μ s < fuel → ∃ s', whileM step fuel s = some s' ∧ Post s' := by
  intro fuel
  induction fuel with
  | zero => intro s _ h; omega
  | succ f ih =>
    intro s hi hm
    rcases hstep s hi with ⟨s', hs, hp⟩ | ⟨s', hs, hi', hlt⟩
    · exact ⟨s', whileM_stop _ _ _ _ hs, hp⟩
    · obtain ⟨s'', hw, hp⟩ := ih s' hi' (by omega)
      exact ⟨s'', by rw [whileM_next _ _ _ _ hs, hw], hp⟩

/-- invariant rule for counted loops with step 1 whose body may fail -/
theorem rangeMAux_inv {σ : Type} (f : Nat → σ → Option σ) (Inv : Nat → σ → Prop) (hi : Nat)
    (hstep : ∀ i s, i < hi → Inv i s → ∃ s', f i s = some s' ∧ Inv (i + 1) s') :
    ∀ (n i : Nat) (s : σ), i + n = hi → Inv i s → ∃ s', rangeMAux 1 f n i s = some s' ∧ Inv hi s' := by
  intro n
  induction n with
  | zero => intro i s h hinv; exact ⟨s, rfl, by rw [← h]; exact hinv⟩
  | succ n ih =>
    intro i s h hinv
    obtain ⟨s1, hf, h1⟩ := hstep i s (by omega) hinv
    obtain ⟨s2, hr, h2⟩ := ih (i + 1) s1 (by omega) h1
    exact ⟨s2, by rw [rangeMAux_succ, hf]; exact hr, h2⟩

theorem rangeM_inv {σ : Type} (f : Nat → σ → Option σ) (Inv : Nat → σ → Prop) (lo hi : Nat) (hle : lo ≤ hi)
    (hstep : ∀ i s, lo ≤ i → i < hi → Inv i s → ∃ s', f i s = some s' ∧ Inv (i + 1) s') (s : σ) (h0 : Inv lo s) :
    ∃ s', rangeM lo hi 1 s f = some s' ∧ Inv hi s' := by
  unfold rangeM
  have hn : (hi - lo + 1 - 1) / 1 = hi - lo := by simp
  rw [hn]
  have := rangeMAux_inv f (fun i s => lo ≤ i ∧ Inv i s) hi
    (fun i s hlt ⟨hl, hinv⟩ => by
      obtain ⟨s', hf, h'⟩ := hstep i s hl hlt hinv
      exact ⟨s', hf, by omega, h'⟩) (hi - lo) lo s (by omega) ⟨Nat.le_refl _, h0⟩
  obtain ⟨s', hr, _, h'⟩ := this
  exact ⟨s', hr, h'⟩

end Loop

/-- the sequential model has no OpenMP team: `omp_get_max_threads()` is only ever used in `num_threads(..)` clauses,
    which the translator drops together with the directive (the loop is translated sequentially; C12 is about the rest) -/
def Omp.maxThreads : Int := 1

/-! ### doubles holding unsigned integers
  `floor((pending - 1) / 2) + 1` in the Merkle builders: an unsigned 64-bit integer is converted to `double`, floored,
  one is added in `double`, the sum is converted back.  Every double that is the image of an unsigned 64-bit integer is
  an integer; it is modelled by that integer (a `Nat`).  Conversion and addition round to nearest, ties to even, to a
  53-bit significand (IEEE-754 binary64, the default rounding mode).  Below 2^53 everything is exact. -/
namespace F64

/-- round a natural number to the nearest one with at most 53 significant bits (ties to even) -/
def round (n : Nat) : Nat :=
  if n < 9007199254740992 then n
  else
    let e := Nat.log2 n - 52
    let q := n >>> e
    let rem := n % (2 ^ e)
    let half := 2 ^ (e - 1)
    let q' := if rem > half || (rem == half && q % 2 == 1) then q + 1 else q
    q' <<< e

theorem round_small (n : Nat) (h : n < 9007199254740992) : round n = n := by
  unfold round; rw [if_pos h]

/-- `(double) x` for an unsigned 64-bit x -/
def ofU64 (x : BitVec 64) : Nat := round x.toNat
/-- `(double) k` for a non-negative int literal -/
def ofNat (k : Nat) : Nat := round k
/-- `floor(d)`: the doubles modelled here are integers -/
def floor (d : Nat) : Nat := d
/-- `a + b` in double -/
def add (a b : Nat) : Nat := round (a + b)
/-- `(uint64_t) d`; out of range (d ≥ 2^64) is undefined behaviour in C++, modelled as truncation -/
def toU64 (d : Nat) : BitVec 64 := BitVec.ofNat 64 d

end F64
end GoldilocksVerif
