/-
  Hand model of `Goldilocks::parcpy` / `Goldilocks::parSetZero` (src/goldilocks_base_field.cpp):
    nt   := max(1, num_threads_copy)
    c    := (size + nt - 1) / nt                      -- components per chunk
    for (i = 0; i < size; i += c)   memcpy/memset of min(c, size - i) elements at offset i
  The loop iterations are the members of the parallel team's work list; the model exposes them as a list so that
  C12 can quantify over every execution order.  Core-only; tied to the code by the correspondence check of C17.
-/
import GoldilocksVerif.Model.Region

namespace GoldilocksVerif.ParCopy

/-- clamp of the `int` thread argument -/
def threads (nt : Int) : Nat := if nt < 1 then 1 else nt.toNat

def chunk (size : Nat) (nt : Int) : Nat := (size + threads nt - 1) / threads nt

/-- start offsets `0, c, 2c, … < size` (fuel = size: at most `size` iterations because c ≥ 1 when size > 0) -/
def startsAux (size c : Nat) : Nat → Nat → List Nat
  | 0, _ => []
  | fuel + 1, i => if i < size then i :: startsAux size c fuel (i + c) else []

def starts (size : Nat) (nt : Int) : List Nat := startsAux size (chunk size nt) size 0

/-- length of the chunk starting at `i` -/
def len (size : Nat) (nt : Int) (i : Nat) : Nat := if size - i < chunk size nt then size - i else chunk size nt

/-- one iteration of parcpy: `memcpy(&dst[i], &src[i], len)` -/
def cpyIter (src : Region) (size : Nat) (nt : Int) (dst : Region) (i : Nat) : Region :=
  ⟨fun j => if i ≤ j ∧ j < i + len size nt i then src j else dst j⟩

/-- one iteration of parSetZero -/
def zeroIter (size : Nat) (nt : Int) (dst : Region) (i : Nat) : Region :=
  ⟨fun j => if i ≤ j ∧ j < i + len size nt i then 0#64 else dst j⟩

/-- the iterations executed in the order `order` (sequential execution = `starts size nt`) -/
def parcpyIn (order : List Nat) (dst src : Region) (size : Nat) (nt : Int) : Region :=
  order.foldl (cpyIter src size nt) dst

def parSetZeroIn (order : List Nat) (dst : Region) (size : Nat) (nt : Int) : Region :=
  order.foldl (zeroIter size nt) dst

def parcpy (dst src : Region) (size : Nat) (nt : Int) : Region := parcpyIn (starts size nt) dst src size nt
def parSetZero (dst : Region) (size : Nat) (nt : Int) : Region := parSetZeroIn (starts size nt) dst size nt

end GoldilocksVerif.ParCopy
