/-
  Hand-written executable models of the conversions of goldilocks_base_field_tools.hpp (core-only).
  GMP is modelled, not verified: `mpz_class % ` is the truncated remainder (`Int.tmod`), `get_ui()` the low
  64 bits of the magnitude, `get_si()` the value when it fits, the mpz constructor "the integer a numeral denotes".
-/
import GoldilocksVerif.Lemmas.ScalarNat

namespace GoldilocksVerif.Model
open Gen.Scalar GoldilocksVerif

/-- `mpz_class::get_ui()` -/
def getUi (x : Int) : BitVec 64 := BitVec.ofNat 64 x.natAbs

/-- `fromS64`: `(in1 < 0) ? (uint64_t)in1 + p : (uint64_t)in1` -/
def fromS64 (x : BitVec 64) : BitVec 64 := if x.msb then x + 18446744069414584321#64 else x

/-- `fromS32`: sign extension to 64 bits, then as fromS64 -/
def fromS32 (x : BitVec 32) : BitVec 64 :=
  if x.msb then x.signExtend 64 + 18446744069414584321#64 else x.signExtend 64

/-- `fromScalar` / `fromString` after the numeral has been read:
    `aux = ((scalar % p) + p) % p; result = aux.get_ui()`  (all `%` truncated, as GMP's) -/
def fromScalar (x : Int) : BitVec 64 := getUi (((x.tmod P) + P).tmod P)

/-- value of a numeral in the given radix (2..36), digits case-insensitive, optional leading '-' -/
def digitVal (c : Char) : Option Nat :=
  if '0' ≤ c ∧ c ≤ '9' then some (c.toNat - '0'.toNat)
  else if 'a' ≤ c ∧ c ≤ 'z' then some (c.toNat - 'a'.toNat + 10)
  else if 'A' ≤ c ∧ c ≤ 'Z' then some (c.toNat - 'A'.toNat + 10)
  else none

def parseNat (radix : Nat) (cs : List Char) : Option Nat :=
  if cs.isEmpty then none else
  cs.foldl (fun acc c => match acc, digitVal c with
    | some a, some d => if d < radix then some (a * radix + d) else none
    | _, _ => none) (some 0)

def parseInt (radix : Nat) (s : String) : Option Int :=
  match s.toList with
  | '-' :: rest => (parseNat radix rest).map (fun n => - (n : Int))
  | cs => (parseNat radix cs).map (fun n => (n : Int))

def fromString (s : String) (radix : Nat) : Option (BitVec 64) := (parseInt radix s).map fromScalar

/-- `toS64`: centred lift -/
def toS64 (a : BitVec 64) : Int :=
  let out : Nat := (toU64__rE a).toNat
  if out > (P - 1) / 2 then - ((P - out : Nat) : Int) else (out : Int)

/-- `toS32`: (success flag, value when successful) -/
def toS32 (a : BitVec 64) : Bool × Int :=
  let out : Nat := (toU64__rE a).toNat
  if out > 2147483647 then
    if out ≥ P - 2147483648 then (true, - ((P - out : Nat) : Int)) else (false, 0)
  else (true, (out : Int))

/-- digit characters of `mpz_get_str` for bases 2..36: 0-9 then lower-case letters -/
def digitCharR (d : Nat) : Char := if d < 10 then Char.ofNat ('0'.toNat + d) else Char.ofNat ('a'.toNat + (d - 10))

def toDigitsR (radix : Nat) : Nat → Nat → List Char → List Char
  | 0, _, acc => acc
  | fuel + 1, n, acc =>
    let acc := digitCharR (n % radix) :: acc
    if n / radix = 0 then acc else toDigitsR radix fuel (n / radix) acc

/-- `toString(in1, radix)`: the numeral of the canonical value -/
def toStringR (a : BitVec 64) (radix : Nat) : String := String.ofList (toDigitsR radix 64 (toU64__rE a).toNat [])

end GoldilocksVerif.Model
