/-
  The specified Poseidon permutation of property C06, over the field F = ZMod p, on 12-element states.

  Written as the property words it:  add the first 12 round constants;  3 x [x^7, add the next 12 constants, multiply by M];
  x^7, add constants, multiply by P;  22 partial rounds;  3 x [x^7, add constants, multiply by M];  x^7, multiply by M.
  The constants are the field elements denoted (`den`) by the entries of the library's tables (Gen/PosConsts.lean, regenerated
  from poseidon_goldilocks_constants.hpp).  Matrix convention of the code: new[i] = Σ_j mat[j][i] · old[j].

  Specification only (Mathlib); not linked into the executable driver.
-/
import Mathlib.Data.ZMod.Basic
import Mathlib.Algebra.BigOperators.Fin
import GoldilocksVerif.Lemmas.Field
import GoldilocksVerif.Gen.PosConsts

namespace GoldilocksVerif.PoseidonSpec
open Gen.PosConsts

/-- a Poseidon state: twelve field elements -/
abbrev State := Fin 12 → F

/-- round constants `C[k]` (118 of them) and sparse-round constants `S[k]` (507) as field elements -/
def C (k : Nat) : F := den (c_Pos_C k)
def S (k : Nat) : F := den (c_Pos_S k)
/-- the dense matrices: `M[j][i]`, `P[j][i]` (row-major 12 x 12 tables) -/
def M (j i : Fin 12) : F := den (c_Pos_M (12 * j.val + i.val))
def Pm (j i : Fin 12) : F := den (c_Pos_P (12 * j.val + i.val))

/-- add the twelve constants `C[off .. off+11]` -/
def addC (off : Nat) (s : State) : State := fun i => s i + C (off + i.val)
/-- the S-box x ↦ x^7 on every element -/
def sbox (s : State) : State := fun i => s i ^ 7
/-- multiply by a matrix: new[i] = Σ_j mat[j][i] · old[j] -/
def mulMat (mat : Fin 12 → Fin 12 → F) (s : State) : State := fun i => ∑ j, mat j i * s j

/-- a full round: x^7 on all elements, add the constants `C[off ..]`, multiply by `mat` -/
def fullRound (mat : Fin 12 → Fin 12 → F) (off : Nat) (s : State) : State := mulMat mat (addC off (sbox s))

/-- partial round `r` (0 ≤ r < 22):  state[0] := state[0]^7 + C[60+r];  s0 := Σ_i state[i]·S[23r+i];
    state[i] += state[0]·S[23r+11+i] for all i;  state[0] := s0 -/
def partialRound (r : Nat) (s : State) : State :=
  let s1 : State := Function.update s 0 (s 0 ^ 7 + C (60 + r))
  let s0 : F := ∑ i, s1 i * S (23 * r + i.val)
  let s2 : State := fun i => s1 i + s1 0 * S (23 * r + 11 + i.val)
  Function.update s2 0 s0

/-- the first `n` partial rounds, in order r = 0, 1, …, n-1 -/
def partialRounds : Nat → State → State
  | 0, s => s
  | n + 1, s => partialRound n (partialRounds n s)

/-- the specified permutation: 4 full rounds, 22 partial rounds, 4 full rounds -/
def permutation (s : State) : State :=
  let s := addC 0 s
  let s := fullRound M 12 s
  let s := fullRound M 24 s
  let s := fullRound M 36 s
  let s := fullRound Pm 48 s
  let s := partialRounds 22 s
  let s := fullRound M 82 s
  let s := fullRound M 94 s
  let s := fullRound M 106 s
  mulMat M (sbox s)

end GoldilocksVerif.PoseidonSpec
