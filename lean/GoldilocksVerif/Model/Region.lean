/-
  Memory regions and loop combinators used by the generated models (core-only).
  A `Region` is the content of the memory a pointer designates, indexed in 64-bit elements.
-/
namespace GoldilocksVerif

abbrev Region := Nat → BitVec 64

namespace Region

def zero : Region := fun _ => 0#64

/-- the region seen through `p + k` -/
@[inline] def shift (r : Region) (k : Nat) : Region := fun i => r (k + i)

/-- `r[i] = v` -/
@[inline] def set (r : Region) (i : Nat) (v : BitVec 64) : Region :=
  fun j => if j = i then v else r j

/-- write back the region `s` that was handed out as `p + k` -/
@[inline] def unshift (r : Region) (k : Nat) (s : Region) : Region :=
  fun j => if k ≤ j then s (j - k) else r j

def ofList (l : List (BitVec 64)) : Region := fun i => l.getD i 0#64

def toList (r : Region) (n : Nat) : List (BitVec 64) := (List.range n).map r

@[simp] theorem set_same (r : Region) (i : Nat) (v : BitVec 64) : (set r i v) i = v := by simp [set]
theorem set_other (r : Region) (i j : Nat) (v : BitVec 64) (h : j ≠ i) : (set r i v) j = r j := by
  simp [set, h]
@[simp] theorem shift_apply (r : Region) (k i : Nat) : (shift r k) i = r (k + i) := rfl
@[simp] theorem shift_zero (r : Region) : shift r 0 = r := by funext i; simp [shift]

end Region

namespace Loop

/-- `for (i = lo; i < hi; i += step)` as a fold (fuel = number of iterations). -/
def rangeAux {σ : Type} (step : Nat) (f : Nat → σ → σ) : Nat → Nat → σ → σ
  | 0, _, s => s
  | n + 1, i, s => rangeAux step f n (i + step) (f i s)

def range {σ : Type} (lo hi step : Nat) (s : σ) (f : Nat → σ → σ) : σ :=
  rangeAux step f ((hi - lo + step - 1) / step) lo s

end Loop
end GoldilocksVerif
