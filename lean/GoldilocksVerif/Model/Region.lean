/-
  Memory regions and loop combinators used by the generated models (core-only).
  A `Region` is the content of the memory a pointer designates, indexed in 64-bit elements.

  It is a STRUCTURE around the lookup function, not a bare function type: Lean's compiler eta-expands definitions
  whose result type is a function, which would re-run a whole generated function body on every element read
  (measured: exponential slowdown of the executable model).  `r i` is `r.get i` through the coercion.
-/
namespace GoldilocksVerif

structure Region where
  get : Nat → BitVec 64

instance : CoeFun Region (fun _ => Nat → BitVec 64) := ⟨Region.get⟩

namespace Region

@[ext] theorem ext' (a b : Region) (h : ∀ i, a i = b i) : a = b := by
  cases a; cases b; congr; funext i; exact h i

def zero : Region := ⟨fun _ => 0#64⟩

/-- the region seen through `p + k` -/
def shift (r : Region) (k : Nat) : Region := ⟨fun i => r (k + i)⟩

/-- `r[i] = v` -/
def set (r : Region) (i : Nat) (v : BitVec 64) : Region :=
  ⟨fun j => if j = i then v else r j⟩

/-- write back the region `s` that was handed out as `p + k` -/
def unshift (r : Region) (k : Nat) (s : Region) : Region :=
  ⟨fun j => if k ≤ j then s (j - k) else r j⟩

/-- `memcpy(dst, src, n elements)` -/
def copyN (dst src : Region) (n : Nat) : Region := ⟨fun j => if j < n then src j else dst j⟩
/-- `memset(dst, 0, n elements)` -/
def zeroN (dst : Region) (n : Nat) : Region := ⟨fun j => if j < n then 0#64 else dst j⟩

def ofList (l : List (BitVec 64)) : Region := ⟨fun i => l.getD i 0#64⟩

def toList (r : Region) (n : Nat) : List (BitVec 64) := (List.range n).map r

@[simp] theorem mk_apply (f : Nat → BitVec 64) (i : Nat) : (Region.mk f) i = f i := rfl
theorem set_apply (r : Region) (i j : Nat) (v : BitVec 64) : (set r i v) j = if j = i then v else r j := rfl
@[simp] theorem set_same (r : Region) (i : Nat) (v : BitVec 64) : (set r i v) i = v := by simp [set]
theorem set_other (r : Region) (i j : Nat) (v : BitVec 64) (h : j ≠ i) : (set r i v) j = r j := by
  simp [set, h]
@[simp] theorem shift_apply (r : Region) (k i : Nat) : (shift r k) i = r (k + i) := rfl
@[simp] theorem shift_zero (r : Region) : shift r 0 = r := by ext i; simp [shift]
theorem copyN_apply (d s : Region) (n j : Nat) : (copyN d s n) j = if j < n then s j else d j := rfl
theorem zeroN_apply (d : Region) (n j : Nat) : (zeroN d n) j = if j < n then 0#64 else d j := rfl
theorem unshift_apply (r : Region) (k : Nat) (s : Region) (j : Nat) :
    (unshift r k s) j = if k ≤ j then s (j - k) else r j := rfl
theorem ofList_apply (l : List (BitVec 64)) (i : Nat) : (ofList l) i = l.getD i 0#64 := rfl

end Region

namespace Loop

/-- `for (i = lo; i < hi; i += step)` as a fold (fuel = number of iterations). -/
def rangeAux {σ : Type} (step : Nat) (f : Nat → σ → σ) : Nat → Nat → σ → σ
  | 0, _, s => s
  | n + 1, i, s => rangeAux step f n (i + step) (f i s)

def range {σ : Type} (lo hi step : Nat) (s : σ) (f : Nat → σ → σ) : σ :=
  rangeAux step f ((hi - lo + step - 1) / step) lo s

end Loop
end GoldilocksVerif
