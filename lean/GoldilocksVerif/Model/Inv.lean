/-
  Hand-written executable models of `Goldilocks::inv` (goldilocks_base_field.cpp), `Goldilocks::exp` and
  `Goldilocks::div` (goldilocks_base_field_scalar.hpp), written loop for loop over the GENERATED scalar
  operations (`Gen.Scalar.*`).  Core-only.  Tied to the code by the correspondence run of C10.
-/
import GoldilocksVerif.Lemmas.ScalarNat

namespace GoldilocksVerif.Model
open Gen.Scalar GoldilocksVerif

/-- one iteration's new remainder: `toU64(sub(fromU64 r, mul(fromU64 (r / newr), fromU64 newr)))` -/
def stepVal (x y q : BitVec 64) : BitVec 64 :=
  toU64__rE (sub__rEE (fromU64__rE x) (mul__rEE q (fromU64__rE y)))

theorem toU64_r_toNat (a : BitVec 64) : (toU64__rE a).toNat = a.toNat % P := toU64_toNat a

/-- the value the loop computes with field operations is the integer remainder (for 0 < newr < p) -/
theorem stepVal_rem (r newr : BitVec 64) (hn0 : 0 < newr.toNat) (hn : newr.toNat < P) :
    (stepVal r newr (fromU64__rE (r / newr))).toNat = r.toNat % newr.toNat := by
  unfold stepVal
  rw [toU64_r_toNat]
  have hq : (fromU64__rE (r / newr)) = r / newr := rfl
  have hx : fromU64__rE r = r := rfl
  have hy : fromU64__rE newr = newr := rfl
  rw [hq, hx, hy]
  have hs : sub__rEE r (mul__rEE (r / newr) newr) = sub__eEE r (mul__eEE (r / newr) newr) := rfl
  rw [hs]
  have h1 := sub_mod r (mul__eEE (r / newr) newr)
  have h2 := mul_mod (r / newr) newr
  have hdiv : (r / newr).toNat = r.toNat / newr.toNat := BitVec.toNat_udiv
  rw [hdiv] at h2
  generalize (sub__eEE r (mul__eEE (r / newr) newr)).toNat = s at *
  generalize (mul__eEE (r / newr) newr).toNat = m at *
  -- s + m ≡ r, m ≡ q*newr, r = q*newr + r % newr
  have hdm := Nat.div_add_mod r.toNat newr.toNat
  have hlt : r.toNat % newr.toNat < newr.toNat := Nat.mod_lt _ hn0
  have c1 := mod_eq_cert _ _ h1
  have c2 := mod_eq_cert _ _ h2
  rw [Nat.mul_comm newr.toNat] at hdm
  generalize r.toNat / newr.toNat * newr.toNat = qn at *
  generalize (s + m) / P = a1 at *
  generalize r.toNat / P = a2 at *
  generalize m / P = a3 at *
  generalize qn / P = a4 at *
  have e3 : s % P = (r.toNat % newr.toNat) % P := by
    apply mod_cert s _ (a3 + a2) (a1 + a4)
    unfold P at *
    omega
  rw [e3]
  exact Nat.mod_eq_of_lt (by omega)

/-- the Euclid loop on `(t, r, newt, newr)`; recursion on the remainder -/
def invLoop (t r newt newr : BitVec 64) (hn : newr.toNat < P) : BitVec 64 :=
  if h0 : newr = 0#64 then t
  else
    let q := fromU64__rE (r / newr)
    let t' := toU64__rE (fromU64__rE newt)
    let newt' := stepVal t newt q
    let r' := toU64__rE (fromU64__rE newr)
    let newr' := stepVal r newr q
    have hpos : 0 < newr.toNat := by
      have : newr.toNat ≠ 0 := fun h => h0 (BitVec.eq_of_toNat_eq (by simpa using h))
      omega
    have hn' : newr'.toNat < P := by
      show (stepVal r newr (fromU64__rE (r / newr))).toNat < P
      rw [stepVal_rem r newr hpos hn]
      have := Nat.mod_lt r.toNat hpos
      omega
    invLoop t' r' newt' newr' hn'
termination_by newr.toNat
decreasing_by
  show (stepVal r newr (fromU64__rE (r / newr))).toNat < newr.toNat
  have hpos : 0 < newr.toNat := by
    have : newr.toNat ≠ 0 := fun h => h0 (BitVec.eq_of_toNat_eq (by simpa using h))
    omega
  rw [stepVal_rem r newr hpos hn]
  exact Nat.mod_lt _ hpos

theorem stepVal_lt (r newr : BitVec 64) (h0 : newr ≠ 0#64) (hn : newr.toNat < P) :
    (stepVal r newr (fromU64__rE (r / newr))).toNat < P := by
  have hpos : 0 < newr.toNat := by
    have : newr.toNat ≠ 0 := fun h => h0 (BitVec.eq_of_toNat_eq (by simpa using h))
    omega
  rw [stepVal_rem r newr hpos hn]
  have := Nat.mod_lt r.toNat hpos
  omega

/-- unfolding lemmas of the loop (use these, not `unfold`: `simp` on the `dite` is very slow) -/
theorem invLoop_zero (t r newt : BitVec 64) (hn) : invLoop t r newt 0#64 hn = t := by
  rw [invLoop]; simp
theorem invLoop_succ (t r newt newr : BitVec 64) (hn : newr.toNat < P) (h0 : newr ≠ 0#64) :
    invLoop t r newt newr hn =
      invLoop (toU64__rE (fromU64__rE newt)) (toU64__rE (fromU64__rE newr))
        (stepVal t newt (fromU64__rE (r / newr))) (stepVal r newr (fromU64__rE (r / newr)))
        (stepVal_lt r newr h0 hn) := by
  rw [invLoop]
  rw [dif_neg h0]

/-- `Goldilocks::inv`: `none` = the process is ended (exit(-1)) because the operand is congruent to zero -/
def inv (a : BitVec 64) : Option (BitVec 64) :=
  if isZero a then none
  else
    some (fromU64__rE (invLoop 0#64 18446744069414584321#64 1#64 (toU64__rE a)
      (by rw [toU64_r_toNat]; exact Nat.mod_lt _ (by decide))))

/-- `Goldilocks::div(a, b) = mul(a, inv(b))` -/
def div (a b : BitVec 64) : Option (BitVec 64) :=
  match inv b with
  | none => none
  | some i => some (mul__rEE a i)

/-- `Goldilocks::exp`: right-to-left square and multiply; at most 64 iterations -/
def expLoop : Nat → BitVec 64 → BitVec 64 → BitVec 64 → BitVec 64
  | 0, result, _, _ => result
  | n + 1, result, base, e =>
    let result := if e &&& 1#64 != 0#64 then mul__eEE result base else result
    let e := e >>> 1
    if e == 0#64 then result else expLoop n result (mul__eEE base base) e

def exp (base e : BitVec 64) : BitVec 64 := expLoop 64 one__r base e

end GoldilocksVerif.Model
