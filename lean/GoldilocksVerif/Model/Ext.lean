/-
  Hand-written executable models of the cubic-extension operations that are not straight-line code:
  `Goldilocks3::inv`, `div`, `mulScalar(string)`, `batchInverse` (goldilocks_cubic_extension.hpp), written over the
  generated scalar / extension operations.  Core-only.  `none` = the base-field inversion inside ends the process.
-/
import GoldilocksVerif.Gen.Ext
import GoldilocksVerif.Model.Inv
import GoldilocksVerif.Model.Conv

namespace GoldilocksVerif.Model
open Gen.Scalar Gen.Ext GoldilocksVerif

/-- an extension element as its three coefficient words -/
structure E3 where
  c0 : BitVec 64
  c1 : BitVec 64
  c2 : BitVec 64
  deriving DecidableEq, Inhabited

def E3.toRegion (e : E3) : Region := Region.ofList [e.c0, e.c1, e.c2]
def E3.ofRegion (r : Region) : E3 := ⟨r 0, r 1, r 2⟩

/-- the quantity `t` of `Goldilocks3::inv(result, a)` (minus the norm), evaluated left to right as in the code -/
def g3t (a : E3) : BitVec 64 :=
  let a0 := a.c0; let a1 := a.c1; let a2 := a.c2
  let aa := mul__rEE a0 a0
  let ac := mul__rEE a0 a2
  let ba := mul__rEE a1 a0
  let bb := mul__rEE a1 a1
  let bc := mul__rEE a1 a2
  let cc := mul__rEE a2 a2
  let aaa := mul__rEE aa a0
  let aac := mul__rEE aa a2
  let abc := mul__rEE ba a2
  let abb := mul__rEE ba a1
  let acc := mul__rEE ac a2
  let bbb := mul__rEE bb a1
  let bcc := mul__rEE bc a2
  let ccc := mul__rEE cc a2
  -- t = abc + abc + abc + abb - aaa - aac - aac - acc - bbb + bcc - ccc   (left-associated)
  sub__rEE (add__rEE (sub__rEE (sub__rEE (sub__rEE (sub__rEE (sub__rEE (add__rEE (add__rEE (add__rEE abc abc) abc) abb) aaa) aac) aac) acc) bbb) bcc) ccc

/-- the three cofactors multiplied by `tinv` -/
def g3cof (a : E3) (tinv : BitVec 64) : E3 :=
  let a0 := a.c0; let a1 := a.c1; let a2 := a.c2
  let aa := mul__rEE a0 a0
  let ac := mul__rEE a0 a2
  let ba := mul__rEE a1 a0
  let bb := mul__rEE a1 a1
  let bc := mul__rEE a1 a2
  let cc := mul__rEE a2 a2
  let i1 := mul__rEE (sub__rEE (sub__rEE (sub__rEE (sub__rEE (add__rEE bc bb) aa) ac) ac) cc) tinv
  let i2 := mul__rEE (sub__rEE ba cc) tinv
  let i3 := mul__rEE (sub__rEE (add__rEE ac cc) bb) tinv
  ⟨i1, i2, i3⟩

/-- `Goldilocks3::inv(result, a)`: `tinv = Goldilocks::inv(t)` (ends the process when t ≡ 0), then the cofactors -/
def g3inv (a : E3) : Option E3 := (Model.inv (g3t a)).map (g3cof a)

/-- `Goldilocks3::div(result, a, b)` with a base-field divisor -/
def g3div (a : E3) (b : BitVec 64) : Option E3 :=
  match Model.inv b with
  | none => none
  | some bi => some ⟨mul__rEE a.c0 bi, mul__rEE a.c1 bi, mul__rEE a.c2 bi⟩

/-- `Goldilocks3::mulScalar(result, a, string)` (decimal numeral) -/
def g3mulScalar (a : E3) (s : String) : Option E3 :=
  match Model.fromString s 10 with
  | none => none
  | some k => some ⟨mul__rEE a.c0 k, mul__rEE a.c1 k, mul__rEE a.c2 k⟩

/-- the generated extension product on `E3` values -/
def g3mul (a b : E3) : E3 := E3.ofRegion (G3_mul__a3a3a3 Region.zero a.toRegion b.toRegion)

/-- `Goldilocks3::batchInverse(res, src, size)` for size ≥ 1: prefix products, one inversion, backward sweep -/
def prefixProds : E3 → List E3 → List E3
  | _, [] => []
  | acc, x :: xs => let p := g3mul acc x; p :: prefixProds p xs

def backSweep : E3 → List (E3 × E3) → List E3 → List E3
  -- z, reversed list of (tmp[i-1], src[i]) for i = size-1 … 1, accumulated aux (front = lower index)
  | z, [], acc => z :: acc
  | z, (tprev, s) :: rest, acc => backSweep (g3mul z s) rest (g3mul z tprev :: acc)

def g3batchInverse (src : List E3) : Option (List E3) :=
  match src with
  | [] => none            -- size 0 is outside the documented domain (tmp[size-1] is read)
  | s0 :: rest =>
    let tmp := s0 :: prefixProds s0 rest          -- tmp[i] = src[0]·…·src[i]
    match g3inv (tmp.getLast!) with
    | none => none
    | some z =>
      let pairs := (tmp.zip rest).reverse          -- (tmp[i-1], src[i]) for i = size-1 … 1
      some (backSweep z pairs [])

end GoldilocksVerif.Model
