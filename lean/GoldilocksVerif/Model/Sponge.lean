/-
  Hand-written executable models of the sponge (`linear_hash_seq`, `linear_hash`, `linear_hash_avx512`) and of the
  Merkle-tree builders of poseidon_goldilocks.cpp, generic in the permutation.  Core-only; lists of 64-bit words.
  Tied to the code by the correspondence runs of C07 / C08.
-/
namespace GoldilocksVerif.Model

abbrev Wd := BitVec 64
def zeros (n : Nat) : List Wd := List.replicate n 0#64

/-! ### linear_hash_seq / linear_hash (one input, 12-word state) -/

/-- the `while (remaining)` loop: capacity feedback, zero padding of the last block, one permutation per block -/
def lhLoop (perm : List Wd → List Wd) (input : List Wd) (size : Nat) : Nat → Nat → List Wd → List Wd
  | 0, _, state => state
  | fuel + 1, remaining, state =>
    if remaining = 0 then state
    else
      let cap := if remaining = size then zeros 4 else state.take 4
      let n := min remaining 8
      let blk := ((input.drop (size - remaining)).take n) ++ zeros (8 - n)
      lhLoop perm input size fuel (remaining - n) (perm (blk ++ cap))

/-- `linear_hash*(output, input, size)`: the 4-word digest -/
def linearHash (perm : List Wd → List Wd) (input : List Wd) : List Wd :=
  let size := input.length
  if size ≤ 4 then input ++ zeros (4 - size)
  else (lhLoop perm input size size size (zeros 12)).take 4

/-- one absorption step of the specification: the block is zero-padded to the rate, the previous four outputs are the
    capacity, the next capacity is the first four outputs of the permutation -/
def spongeStep (perm : List Wd → List Wd) (cap blk : List Wd) : List Wd :=
  (perm ((blk ++ zeros (8 - blk.length)) ++ cap)).take 4

/-- absorb the input eight elements at a time (fuel = any bound on the number of blocks) -/
def absorb (perm : List Wd → List Wd) : Nat → List Wd → List Wd → List Wd
  | 0, _, cap => cap
  | fuel + 1, l, cap => if l.isEmpty then cap else absorb perm fuel (l.drop 8) (spongeStep perm cap (l.take 8))

/-- the specification of the property: pass-through (zero padded) up to four elements, otherwise the sponge
    started from a zero capacity -/
def spongeSpec (perm : List Wd → List Wd) (input : List Wd) : List Wd :=
  if input.length ≤ 4 then input ++ zeros (4 - input.length)
  else absorb perm input.length input (zeros 4)

/-! ### linear_hash_avx512 (two consecutive inputs, interleaved 24-word state) -/

/-- interleaved layout of two 12-word states: [a0..3 b0..3 a4..7 b4..7 a8..11 b8..11] -/
def interleave (a b : List Wd) : List Wd :=
  a.take 4 ++ b.take 4 ++ (a.drop 4).take 4 ++ (b.drop 4).take 4 ++ (a.drop 8).take 4 ++ (b.drop 8).take 4
def deintA (s : List Wd) : List Wd := s.take 4 ++ (s.drop 8).take 4 ++ (s.drop 16).take 4
def deintB (s : List Wd) : List Wd := (s.drop 4).take 4 ++ (s.drop 12).take 4 ++ (s.drop 20).take 4

def lh512Loop (perm2 : List Wd → List Wd) (input : List Wd) (size : Nat) : Nat → Nat → List Wd → List Wd
  | 0, _, state => state
  | fuel + 1, remaining, state =>
    if remaining = 0 then state
    else
      let cap := if remaining = size then zeros 8 else state.take 8
      let n := min remaining 8
      let off := size - remaining
      let a := (input.drop off).take n
      let b := (input.drop (size + off)).take n
      -- memset(state, 0, 16 words) then the four memcpy's
      let lo := (a.take 4 ++ zeros (4 - min n 4)) ++ (b.take 4 ++ zeros (4 - min n 4))
      let hi := ((a.drop 4) ++ zeros (4 - (n - 4))) ++ ((b.drop 4) ++ zeros (4 - (n - 4)))
      lh512Loop perm2 input size fuel (remaining - n) (perm2 (lo ++ hi ++ cap))

/-- `linear_hash_avx512(output, input, size)`: input holds two inputs of `size` words back to back; 8-word output -/
def linearHash512 (perm2 : List Wd → List Wd) (input : List Wd) (size : Nat) : List Wd :=
  if size ≤ 4 then
    (input.take size ++ zeros (4 - size)) ++ ((input.drop size).take size ++ zeros (4 - size))
  else (lh512Loop perm2 input size size size (zeros 24)).take 8

/-! ### Merkle trees (number of rows a power of two) -/

/-- one level: hash adjacent pairs of 4-word digests (8 words, zero capacity) -/
def nextLevel (node : List Wd → List Wd) : Nat → List Wd → List Wd
  | 0, _ => []
  | k + 1, lvl => node (lvl.take 8) ++ nextLevel node k (lvl.drop 8)

/-- the `while (pending > 1)` loop: returns all levels above the leaves, concatenated -/
def upperLevels (node : List Wd → List Wd) : Nat → Nat → List Wd → List Wd
  | 0, _, _ => []
  | fuel + 1, pending, lvl =>
    if pending ≤ 1 then []
    else
      let nxt := nextLevel node (pending / 2) lvl
      nxt ++ upperLevels node fuel (pending / 2) nxt

/-- tree buffer = leaf digests followed level by level by the pair hashes -/
def merkleTree (leaf : List Wd → List Wd) (node : List Wd → List Wd) (rows : List (List Wd)) : List Wd :=
  let leaves := rows.flatMap leaf
  leaves ++ upperLevels node rows.length rows.length leaves

/-- batched leaf: digest of the concatenated digests of consecutive column batches -/
def batchLeaf (lh : List Wd → List Wd) (cols dim batch : Nat) (row : List Wd) : List Wd :=
  let nbatches := if cols > 0 then (cols + batch - 1) / batch else 1
  let nlastb := cols - (nbatches - 1) * batch
  let parts := (List.range nbatches).map (fun j =>
    let nn := if j = nbatches - 1 then nlastb else batch
    lh ((row.drop (j * batch * dim)).take (nn * dim)))
  lh parts.flatten

/-- `getTreeNumElements` -/
def treeNumElements (degree : Nat) : Nat := degree * 4 + (degree - 1) * 4

end GoldilocksVerif.Model
