/-
  Run-time support of the translator's "mpz mode" (tools/tr_cxx.py, module flag "mpz"; DESIGN.CONV.md).  Core-only.

  GMP's C++ class `mpz_class` (and every expression template `__gmp_expr<…>` of gmpxx.h) is a Lean `Int`: GMP integers are
  exact, so `+`, `-`, `*`, unary `-` and the comparisons are the `Int` operations and `%` is the TRUNCATED remainder
  `Int.tmod` (gmpxx.h evaluates `a % b` with `mpz_tdiv_r` / `mpz_tdiv_r_ui`: the result has the sign of the dividend).
  These are emitted directly by the translator.  This file holds what is not an `Int` operation:

    `Mpz.ofU64`     `mpz_class(unsigned long)`
    `Mpz.getUi`     `get_ui()` = `mpz_get_ui`: the least significant 64 bits of the MAGNITUDE (the sign is dropped)
    `Mpz.getSi`     `get_si()` = `mpz_get_si`: the value when it fits `long`; otherwise what GMP's code computes (sign and
                    least significant 63 bits of the magnitude — the manual calls that result "probably not very useful")
    `Mpz.ofString`  `mpz_class(const std::string &, int base)`: EXTERN.  GMP's numeral parser is not translated; it is
                    modelled by the hand model's `Model.parseInt` (base 2..36, case-insensitive digits, optional '-').
                    `none` = the constructor throws `std::invalid_argument` (nobody catches it: the process ends).
    `Mpz.getStr`    `get_str(base)`: EXTERN.  GMP's numeral printer is not translated; it is modelled by the hand model's
                    digit loop `Model.toDigitsR` (digits 0-9a-z, most significant first, '-' for negative values).

  `int64_t` / `int32_t` values are two's complement bit patterns `BitVec 64` / `BitVec 32`; the translator emits
  `BitVec.toInt` for comparisons and conversions to `mpz_class`, `BitVec.signExtend` / `BitVec.setWidth` for conversions
  between widths, and BitVec negation for unary minus (wraps on INT_MIN, where C++ has undefined behaviour).
-/
import GoldilocksVerif.Model.Conv

namespace GoldilocksVerif

namespace Mpz

/-- `mpz_class(unsigned long)` -/
def ofU64 (x : BitVec 64) : Int := (x.toNat : Int)

/-- `mpz_class::get_ui()`: least significant 64 bits of |x| -/
def getUi (x : Int) : BitVec 64 := BitVec.ofNat 64 x.natAbs

/-- `mpz_class::get_si()` (`mpz_get_si` of GMP 6):
      x > 0 :  low limb & LONG_MAX
      x < 0 :  -1 - ((low limb - 1) & LONG_MAX)     (limb arithmetic modulo 2^64)
      x = 0 :  0
    For -2^63 ≤ x < 2^63 this is x (`getSi_of_fits`). -/
def getSi (x : Int) : BitVec 64 :=
  if 0 < x then BitVec.ofNat 64 (x.natAbs % 18446744073709551616 % 9223372036854775808)
  else if x < 0 then
    BitVec.ofInt 64 (-1 - (((x.natAbs % 18446744073709551616 + 18446744073709551615) % 18446744073709551616
                            % 9223372036854775808 : Nat) : Int))
  else 0#64

/-- EXTERN: `mpz_class(const std::string &, int base)`; `none` = `std::invalid_argument` -/
def ofString (s : String) (radix : Int) : Option Int := Model.parseInt radix.toNat s

/-- EXTERN: `mpz_class::get_str(base)`.  The digit loop of the hand model with enough fuel for every digit
    (a number below 2^k has at most k digits in any base ≥ 2); at least 64, the fuel the hand model uses. -/
def getStr (x : Int) (radix : Int) : String :=
  (if x < 0 then "-" else "") ++
    String.ofList (Model.toDigitsR radix.toNat (max 64 (x.natAbs.log2 + 1)) x.natAbs [])

end Mpz

end GoldilocksVerif
