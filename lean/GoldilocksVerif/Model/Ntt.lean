/-
  Hand-written executable model of `NTT_Goldilocks` (ntt_goldilocks.hpp / ntt_goldilocks.cpp), function by function:
  constructor, computeR, BR, reversePermutation (three branches), NTT_iters (phase/batch schedule, twiddle index rotation,
  transposing copy, fused last inverse pass), NTT (column blocks, temporary destination), INTT, extendPol, and the
  object state (roots, powTwoInv, r/r_ cache).  Field operations are the GENERATED scalar operations.
  Core-only.  Tied to the code by the correspondence runs of C03/C04/C05/C19.

  Every C loop is a pure fold (`iter`, `List.foldl`) whose body is a named top-level function, one per loop of the C code:
    bflyStep / bfly (columns of one butterfly) ⊂ stageStep / stage (butterflies of one stage of one batch) ⊂ batchStages
    (stages of one pass on one batch) ⊂ passBatch (+ transposeCopy | inverseCopy/scaleRow) ⊂ pass (batches of one pass,
    pointer swap) ⊂ nttIters (reversePermutation, passes over `schedule`, final copy) ⊂ nttBlock / nttBlocks (column
    blocks, scatterBlock) ⊂ ntt.  This is the shape the proofs in Lemmas/Ntt*.lean follow (DESIGN.NTT.md).

  Buffers are row-major `Array (BitVec 64)`; the three pointer relations of a call (destination = source, destination
  distinct, destination NULL) are explicit; `Except` carries the aborts (`assert`).
  `int` / `u_int64_t` index arithmetic is on `Nat`: exact for log2 size ≤ 30 (DESIGN.md §6).
-/
import GoldilocksVerif.Gen.Scalar

namespace GoldilocksVerif.Model.Ntt
open Gen.Scalar GoldilocksVerif

abbrev W := BitVec 64
abbrev Buf := Array W

/-- `for (i = 0; i < n; i++)` -/
def iter {σ : Type} (n : Nat) (s : σ) (f : Nat → σ → σ) : σ := Loop.range 0 n 1 s f

def log2 (size : Nat) : Nat := Nat.log2 size

/-- `BR(x, domainPow)`: the five swap lines on a 64-bit word, then `>> (32 - domainPow)` -/
def br (x domainPow : Nat) : Nat :=
  let x : W := BitVec.ofNat 64 x
  let x := (x >>> 16) ||| (x <<< 16)
  let x := ((x &&& 0xFF00FF00#64) >>> 8) ||| ((x &&& 0x00FF00FF#64) <<< 8)
  let x := ((x &&& 0xF0F0F0F0#64) >>> 4) ||| ((x &&& 0x0F0F0F0F#64) <<< 4)
  let x := ((x &&& 0xCCCCCCCC#64) >>> 2) ||| ((x &&& 0x33333333#64) <<< 2)
  ((((x &&& 0xAAAAAAAA#64) >>> 1) ||| ((x &&& 0x55555555#64) <<< 1)) >>> (32 - domainPow)).toNat

/-- copy `n` words from `src[so..]` to `dst[d0..]` (memcpy) -/
def copyRow (dst : Buf) (d0 : Nat) (src : Buf) (so n : Nat) : Buf :=
  iter n dst (fun k d => d.setIfInBounds (d0 + k) (src.getD (so + k) 0#64))
def zeroRow (dst : Buf) (d0 n : Nat) : Buf :=
  iter n dst (fun k d => d.setIfInBounds (d0 + k) 0#64)

/-- the transform object -/
structure Obj where
  s : Nat
  roots : Array W
  powTwoInv : Array W
  extension : Nat
  /-- the shift-power cache of extendPol: (N it was built for, r, r_) -/
  rcache : Option (Nat × Array W × Array W)

/-- constructor `NTT_Goldilocks(maxDomainSize, nThreads, extension)`; `none` = "Domain size too big" is thrown -/
def mkObj (maxDomainSize : Nat) (extension : Nat) : Option Obj :=
  if maxDomainSize = 0 then some ⟨0, #[], #[], extension, none⟩ else
  let domainPow := log2 maxDomainSize
  -- s = 1; while (bit 0 of (p-1)/2 >> (s-1) is 0 && s < domainPow) s++   ((p-1)/2 has 31 trailing zero bits)
  let s := if domainPow ≤ 1 then 1 else min domainPow 32
  if s < domainPow then none else
  let nRoots := 2 ^ s
  let r1 := w__rE (BitVec.ofNat 64 domainPow)
  let roots := iter (nRoots - 2) (#[one__r, r1] : Array W) (fun i a => a.push (mul__rEE (a.getD (i + 1) 0#64) r1))
  let half : W := 9223372034707292161#64     -- mpz_invert(2, p) = (p + 1) / 2
  let pti := iter (s - 1) (#[one__r, half] : Array W) (fun i a => a.push (mul__rEE (a.getD (i + 1) 0#64) half))
  some ⟨s, roots, pti, extension, none⟩

/-- `root(domainPow, idx) = roots[idx << (s - domainPow)]` -/
def root (o : Obj) (domainPow idx : Nat) : W := o.roots.getD (idx * 2 ^ (o.s - domainPow)) 0#64

/-- `computeR(N)` : r[i] = shift^i, r_[i] = shift^i / N -/
def computeR (o : Obj) (N : Nat) : Nat × Array W × Array W :=
  let domainPow := log2 N
  let pinv := o.powTwoInv.getD domainPow 0#64
  let init : Array W × Array W := (#[one__r], #[pinv])
  let rr := iter (N - 1) init (fun i st =>
    let ri := mul__eEE (st.1.getD i 0#64) shift__r
    (st.1.push ri, st.2.push (mul__eEE ri pinv)))
  (N, rr.1, rr.2)

/-- `intt_idx(i, N)` -/
def inttIdx (i N : Nat) : Nat := if N - i = N then 0 else N - i

/-- `reversePermutation(dst, src, size, offset_cols, ncols, ncols_all)`.
    `inPlace` = (dst == src); returns the new destination buffer. -/
def reversePermutation (o : Obj) (dst src : Buf) (inPlace : Bool) (size offset_cols ncols ncols_all : Nat) :
    Except String Buf :=
  let domainSize := log2 size
  if !inPlace then
    if o.extension ≤ 1 then
      .ok (iter size dst (fun i d =>
        copyRow d (i * ncols) src (br i domainSize * ncols_all + offset_cols) ncols))
    else
      let ext_ := (size / o.extension) * ncols_all
      .ok (iter size dst (fun i d =>
        let offset_r1 := br i domainSize * ncols_all + offset_cols
        if offset_r1 < ext_ then copyRow d (i * ncols) src offset_r1 ncols else zeroRow d (i * ncols) ncols))
  else
    if !(offset_cols = 0 ∧ ncols = ncols_all) then .error "assert(offset_cols == 0 && ncols == ncols_all)"
    else if o.extension ≤ 1 then
      .ok (iter size src (fun i d =>
        let r := br i domainSize
        if r < i then
          let tmp := copyRow (Array.replicate ncols 0#64) 0 d (r * ncols) ncols
          let d := copyRow d (r * ncols) d (i * ncols) ncols
          copyRow d (i * ncols) tmp 0 ncols
        else d))
    else
      -- zero-extending bit reversal in place (rows ≥ size/extension count as zero)
      let nIn := size / o.extension
      .ok (iter size src (fun i d =>
        let r := br i domainSize
        if r < i then
          let tmp := if r < nIn then copyRow (Array.replicate ncols 0#64) 0 d (r * ncols) ncols else Array.replicate ncols 0#64
          let d := if i < nIn then copyRow d (r * ncols) d (i * ncols) ncols else zeroRow d (r * ncols) ncols
          copyRow d (i * ncols) tmp 0 ncols
        else if r = i ∧ nIn ≤ i then zeroRow d (i * ncols) ncols
        else d))

/-- the two field operations of one butterfly on column `k`:
    `t = w * a[offset1 + k]; u = a[offset2 + k]; a[offset2 + k] = t + u; a[offset1 + k] = u - t` -/
def bflyStep (w : W) (offset1 offset2 : Nat) (k : Nat) (a : Buf) : Buf :=
  let t := mul__rEE w (a.getD (offset1 + k) 0#64)
  let u := a.getD (offset2 + k) 0#64
  let a := a.setIfInBounds (offset2 + k) (add__eEE t u)
  a.setIfInBounds (offset1 + k) (sub__eEE u t)

/-- `for (k = 0; k < ncols; ++k)` of one butterfly (a pair of rows) -/
def bfly (a : Buf) (w : W) (offset1 offset2 ncols : Nat) : Buf :=
  iter ncols a (bflyStep w offset1 offset2)

/-- the twiddle index of butterfly `i` of batch `b`: `j = b*batchSize/2 + i; j = (j & rm)*rb + (j >> (re-rs)); j %= mdiv2`
    (`rm = 2^(re-rs) - 1`, so `j & rm = j % 2^(re-rs)`) -/
def twIdx (s si b batchSize rs re rb : Nat) (i : Nat) : Nat :=
  let j := b * batchSize / 2 + i
  let j := (j % 2 ^ (re - rs)) * rb + j / 2 ^ (re - rs)
  j % (2 ^ (s + si) / 2)

/-- body of `for (i = 0; i < (batchSize >> 1); i++)` -/
def stageStep (o : Obj) (s si b batchSize ncols rs re rb : Nat) (i : Nat) (a : Buf) : Buf :=
  let mdiv2i := 2 ^ si
  let mi := mdiv2i * 2
  let ki := b * batchSize + (i / mdiv2i) * mi
  let ji := i % mdiv2i
  let offset1 := (ki + ji + mdiv2i) * ncols
  let offset2 := (ki + ji) * ncols
  let w := root o (s + si) (twIdx s si b batchSize rs re rb i)
  bfly a w offset1 offset2 ncols

/-- one butterfly stage `si` of batch `b` on buffer `a` -/
def stage (o : Obj) (a : Buf) (s si b batchSize ncols rs re rb rm : Nat) : Buf :=
  let _ := rm
  iter (batchSize / 2) a (stageStep o s si b batchSize ncols rs re rb)

/-- the schedule of passes: list of (s, sInc) — `for (s = 1; s <= domainPow; s += maxBatchPow, ++count)` -/
def schedule (domainPow nphase : Nat) : List (Nat × Nat) :=
  let maxBatchPow0 := domainPow / nphase + (if domainPow % nphase > 0 then 1 else 0)
  let res := domainPow % nphase
  let rec go (fuel s count maxBatchPow : Nat) (acc : List (Nat × Nat)) : List (Nat × Nat) :=
    match fuel with
    | 0 => acc.reverse
    | fuel + 1 =>
      if s > domainPow then acc.reverse else
      let maxBatchPow := if res > 0 ∧ count = res + 1 ∧ maxBatchPow > 1 then maxBatchPow - 1 else maxBatchPow
      let sInc := if s + maxBatchPow ≤ domainPow then maxBatchPow else domainPow - s + 1
      if maxBatchPow = 0 then acc.reverse else       -- (cannot happen for domainPow ≥ 1: the C loop would not advance)
      go fuel (s + maxBatchPow) (count + 1) maxBatchPow ((s, sInc) :: acc)
  go (domainPow + 1) 1 1 maxBatchPow0 []

/-- `for (si = 0; si < sInc; si++)`: all stages of one pass on batch `b` -/
def batchStages (o : Obj) (a : Buf) (s sInc b batchSize ncols rs re rb rm : Nat) : Buf :=
  iter sInc a (fun si a => stage o a s si b batchSize ncols rs re rb rm)

/-- the transposing copy of batch `b`: `memcpy(&a2[(x*nBatches + b)*ncols], &a[(b*batchSize + x)*ncols], ncols)` for all x -/
def transposeCopy (a2 a : Buf) (b batchSize nBatches ncols : Nat) : Buf :=
  iter batchSize a2 (fun x a2 => copyRow a2 ((x * nBatches + b) * ncols) a ((b * batchSize + x) * ncols) ncols)

/-- the scaling factor of the fused last inverse pass: `r_[dsty]` (extend) or `powTwoInv[domainPow]` -/
def scaleFactor (o : Obj) (extend : Bool) (domainPow dsty : Nat) : W :=
  if extend then
    match o.rcache with
    | some (_, _, r_) => r_.getD dsty 0#64
    | none => 0#64
  else o.powTwoInv.getD domainPow 0#64

/-- `for (k = 0; k < ncols; k++) mul(a2[d0 + k], a[s0 + k], f)` -/
def scaleRow (a2 a : Buf) (d0 s0 ncols : Nat) (f : W) : Buf :=
  iter ncols a2 (fun k a2 => a2.setIfInBounds (d0 + k) (mul__eEE (a.getD (s0 + k) 0#64) f))

/-- the reflecting, scaling copy of batch `b` in the last pass of an inverse transform -/
def inverseCopy (o : Obj) (a2 a : Buf) (b batchSize nBatches ncols size domainPow : Nat) (extend : Bool) : Buf :=
  iter batchSize a2 (fun x a2 =>
    let dsty := inttIdx (x * nBatches + b) size
    scaleRow a2 a (dsty * ncols) ((b * batchSize + x) * ncols) ncols (scaleFactor o extend domainPow dsty))

/-- body of `for (b = 0; b < nBatches; b++)`; state = (a, a2) -/
def passBatch (o : Obj) (size domainPow ncols s sInc : Nat) (lastInv extend : Bool) (b : Nat) (st : Buf × Buf) : Buf × Buf :=
  let rs := s - 1
  let re := domainPow - 1
  let rb := 2 ^ rs
  let rm := 2 ^ (re - rs) - 1
  let batchSize := 2 ^ sInc
  let nBatches := size / batchSize
  let a' := batchStages o st.1 s sInc b batchSize ncols rs re rb rm
  let a2' := if lastInv then inverseCopy o st.2 a' b batchSize nBatches ncols size domainPow extend
             else transposeCopy st.2 a' b batchSize nBatches ncols
  (a', a2')

/-- one pass `(s, sInc)` of the `for (s = 1; s <= domainPow; ...)` loop, including the pointer swap at its end.
    state = (a, a2, does `a` designate dst_ ?) -/
def pass (o : Obj) (size domainPow ncols : Nat) (inverse extend : Bool) (st : Buf × Buf × Bool) (p : Nat × Nat) :
    Buf × Buf × Bool :=
  let s := p.1
  let sInc := p.2
  let nBatches := size / 2 ^ sInc
  let lastInv := !(s + sInc ≤ domainPow) && inverse   -- !(s + maxBatchPow <= domainPow || !inverse); sInc = maxBatchPow unless last
  let r := iter nBatches (st.1, st.2.1) (passBatch o size domainPow ncols s sInc lastInv extend)
  (r.2, r.1, !st.2.2)

/-- the clamp of `nphase` -/
def clampPhase (nphase domainPow : Nat) : Nat :=
  if nphase < 1 ∨ domainPow = 0 then 1 else if nphase > domainPow then domainPow else nphase

/-- `NTT_iters`.  Buffers: `dstB` (when the destination is distinct from the source), `srcB`, `auxB`.
    `dstIsSrc` covers both dst == src and dst == NULL.  Returns (destination content, source content). -/
def nttIters (o : Obj) (dstB srcB auxB : Buf) (dstIsSrc : Bool) (size offset_cols ncols ncols_all nphase : Nat)
    (inverse extend : Bool) : Except String (Buf × Buf) :=
  let domainPow := log2 size
  if 2 ^ domainPow ≠ size then .error "assert((1 << domainPow) == size)" else
  let nphase := clampPhase nphase domainPow
  let isOdd : Bool := nphase % 2 = 1
  -- a = dst_, a2 = aux; the bit reversal writes a2 when nphase is odd and a otherwise
  let a0 := if dstIsSrc then srcB else dstB
  -- after the (conditional) swap: (a, a2, does `a` designate dst_ ?)
  let st0 : Except String (Buf × Buf × Bool) :=
    if isOdd then
      match reversePermutation o auxB srcB false size offset_cols ncols ncols_all with
      | .error e => .error e
      | .ok t => .ok (t, a0, false)          -- a = aux (holding the permuted data), a2 = dst_
    else
      match reversePermutation o a0 srcB dstIsSrc size offset_cols ncols ncols_all with
      | .error e => .error e
      | .ok t => .ok (t, auxB, true)
  match st0 with
  | .error e => .error e
  | .ok st0 =>
    let st := (schedule domainPow nphase).foldl (pass o size domainPow ncols inverse extend) st0
    let a := st.1
    let a2 := st.2.1
    let aIsDst := st.2.2
    if !aIsDst then
      if size > 1 then .error "assert(0) // should never need this copy" else
      -- parcpy(dst_, a, size * ncols)
      let d := copyRow a2 0 a 0 (size * ncols)
      if dstIsSrc then .ok (d, d) else .ok (d, srcB)
    else
      if dstIsSrc then .ok (a, a) else .ok (a, srcB)

/-- where the destination of a call is -/
inductive DstMode where
  | same      -- dst == src
  | other     -- dst is a different buffer
  | null      -- dst == NULL
  deriving DecidableEq, Repr

/-- `memcpy(&dst[ie * ncols + offset_cols], &dst_[ie * aux_ncols], aux_ncols)` for all rows -/
def scatterBlock (dst d : Buf) (size ncols offset_cols aux_ncols : Nat) : Buf :=
  iter size dst (fun ie dst => copyRow dst (ie * ncols + offset_cols) d (ie * aux_ncols) aux_ncols)

/-- body of `for (ib = 0; ib < nblock; ++ib)` when `nblock > 1`; state = (dst, src, offset_cols) or the abort -/
def nttBlock (o : Obj) (aux : Buf) (dstIsSrc : Bool) (size ncols nphase ncols_block ncols_res ncols_alloc : Nat)
    (inverse extend : Bool) (ib : Nat) (st : Except String (Buf × Buf × Nat)) : Except String (Buf × Buf × Nat) :=
  match st with
  | .error e => .error e
  | .ok (dst, src, offset_cols) =>
    let aux_ncols := ncols_block + (if ib < ncols_res then 1 else 0)
    let tmpDst : Buf := Array.replicate (size * ncols_alloc) 0#64
    match nttIters o tmpDst src aux false size offset_cols aux_ncols ncols nphase inverse extend with
    | .error e => .error e
    | .ok (d, _) =>
      let dst := scatterBlock dst d size ncols offset_cols aux_ncols
      .ok (dst, if dstIsSrc then dst else src, offset_cols + aux_ncols)

/-- the clamp of `nblock` -/
def clampBlock (nblock ncols : Nat) : Nat :=
  if nblock < 1 then 1 else if nblock > ncols then ncols else nblock

/-- `NTT` after the early return, the clamp of `nblock` and `if (dst == NULL) dst = src;` -/
def nttBlocks (o : Obj) (dstIsSrc : Bool) (dstB srcB : Buf) (size ncols nphase nblock : Nat) (inverse extend : Bool) :
    Except String (Buf × Buf) :=
  let ncols_block := ncols / nblock
  let ncols_res := ncols % nblock
  let ncols_alloc := ncols_block + (if ncols_res > 0 then 1 else 0)
  let aux : Buf := Array.replicate (size * ncols_alloc) 0#64
  if nblock ≤ 1 then
    nttIters o dstB srcB aux dstIsSrc size 0 ncols ncols nphase inverse extend
  else
    -- temporary destination dst_, results scattered column block by column block into dst
    let dst0 := if dstIsSrc then srcB else dstB
    match iter nblock (.ok (dst0, srcB, 0))
        (nttBlock o aux dstIsSrc size ncols nphase ncols_block ncols_res ncols_alloc inverse extend) with
    | .error e => .error e
    | .ok (dst, src, _) => .ok (dst, src)

/-- `NTT(dst, src, size, ncols, buffer, nphase, nblock, inverse, extend)`; returns (dst content, src content).
    `dstB` is the initial content of the destination buffer when it is distinct from the source. -/
def ntt (o : Obj) (mode : DstMode) (dstB srcB : Buf) (size ncols nphase nblock : Nat) (inverse extend : Bool) :
    Except String (Buf × Buf) :=
  if ncols = 0 ∨ size = 0 then
    .ok (if mode = .other then dstB else srcB, srcB)
  else
    -- dstIsSrc: after `if (dst == NULL) dst = src;`
    nttBlocks o (mode ≠ .other) dstB srcB size ncols nphase (clampBlock nblock ncols) inverse extend

/-- `INTT(dst, src, size, ncols, buffer, nphase, nblock, extend)` -/
def intt (o : Obj) (mode : DstMode) (dstB srcB : Buf) (size ncols nphase nblock : Nat) (extend : Bool) :
    Except String (Buf × Buf) :=
  if ncols = 0 ∨ size = 0 then .ok (if mode = .other then dstB else srcB, srcB)
  else ntt o (if mode = .null then .same else mode) dstB srcB size ncols nphase nblock true extend

/-- `if (r == NULL || r_N != N) { ...; computeR(N); }` -/
def refreshCache (o : Obj) (n : Nat) : Obj :=
  match o.rcache with
  | some (n0, _, _) => if n0 = n then o else { o with rcache := some (computeR o n) }
  | none => { o with rcache := some (computeR o n) }

/-- `extendPol(output, input, N_Extended, N, ncols, buffer, nphase, nblock)`; the object's r cache is updated.
    `outB`: initial content of `output` (N_Extended rows) when distinct from `input`; when `same`, `inB` has N_Extended rows. -/
def extendPol (o : Obj) (same : Bool) (outB inB : Buf) (nExt n ncols nphase nblock : Nat) :
    Except String (Obj × Buf) :=
  match mkObj nExt (nExt / n) with
  | none => .error "range_error"
  | some oext =>
    let o := refreshCache o n
    match intt o (if same then .same else .other) outB inB n ncols nphase nblock true with
    | .error e => .error e
    | .ok (out1, _) =>
      match ntt oext .same #[] out1 nExt ncols nphase nblock false false with
      | .error e => .error e
      | .ok (out2, _) => .ok (o, out2)

end GoldilocksVerif.Model.Ntt
