/-
  Arrays of vector registers (core-only): `__m256i *`, `__m256i[3]`, `Goldilocks3::Element_avx`, `Element_avx &`
  (and the `__m512i` counterparts) in the generated models.  `VRegion4` / `VRegion8` are to `V4` / `V8` what `Region`
  is to 64-bit words: the content a pointer designates, indexed in registers, with functional update.
  Structures (not bare function types) for the same reason as `Region` (see Model/Region.lean).
-/
import GoldilocksVerif.Isa.Vec

namespace GoldilocksVerif

structure VRegion4 where
  get : Nat → V4

instance : CoeFun VRegion4 (fun _ => Nat → V4) := ⟨VRegion4.get⟩

namespace VRegion4
@[ext] theorem ext' (a b : VRegion4) (h : ∀ i, a i = b i) : a = b := by
  cases a; cases b; congr; funext i; exact h i
def zero : VRegion4 := ⟨fun _ => V4.zero⟩
/-- `r[i] = v` -/
def set (r : VRegion4) (i : Nat) (v : V4) : VRegion4 := ⟨fun j => if j = i then v else r j⟩
/-- the three registers of a planar cubic-extension operand (`Goldilocks3::Element_avx`) -/
def mk3 (r0 r1 r2 : V4) : VRegion4 := ⟨fun j => if j = 0 then r0 else if j = 1 then r1 else if j = 2 then r2 else V4.zero⟩
def toList3 (r : VRegion4) : List (BitVec 64) := (r 0).toList ++ (r 1).toList ++ (r 2).toList
@[simp] theorem mk_apply (f : Nat → V4) (i : Nat) : (VRegion4.mk f) i = f i := rfl
theorem set_apply (r : VRegion4) (i j : Nat) (v : V4) : (set r i v) j = if j = i then v else r j := rfl
@[simp] theorem set_same (r : VRegion4) (i : Nat) (v : V4) : (set r i v) i = v := by simp [set]
theorem set_other (r : VRegion4) (i j : Nat) (v : V4) (h : j ≠ i) : (set r i v) j = r j := by simp [set, h]
end VRegion4

structure VRegion8 where
  get : Nat → V8

instance : CoeFun VRegion8 (fun _ => Nat → V8) := ⟨VRegion8.get⟩

namespace VRegion8
@[ext] theorem ext' (a b : VRegion8) (h : ∀ i, a i = b i) : a = b := by
  cases a; cases b; congr; funext i; exact h i
def zero : VRegion8 := ⟨fun _ => V8.zero⟩
def set (r : VRegion8) (i : Nat) (v : V8) : VRegion8 := ⟨fun j => if j = i then v else r j⟩
/-- the three registers of a planar cubic-extension operand (`Goldilocks3::Element_avx512`) -/
def mk3 (r0 r1 r2 : V8) : VRegion8 := ⟨fun j => if j = 0 then r0 else if j = 1 then r1 else if j = 2 then r2 else V8.zero⟩
def toList3 (r : VRegion8) : List (BitVec 64) := (r 0).toList ++ (r 1).toList ++ (r 2).toList
@[simp] theorem mk_apply (f : Nat → V8) (i : Nat) : (VRegion8.mk f) i = f i := rfl
theorem set_apply (r : VRegion8) (i j : Nat) (v : V8) : (set r i v) j = if j = i then v else r j := rfl
@[simp] theorem set_same (r : VRegion8) (i : Nat) (v : V8) : (set r i v) i = v := by simp [set]
theorem set_other (r : VRegion8) (i j : Nat) (v : V8) (h : j ≠ i) : (set r i v) j = r j := by simp [set, h]
end VRegion8

end GoldilocksVerif
