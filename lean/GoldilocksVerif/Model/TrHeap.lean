/-
  Run-time support of the HEAP mode of the translator (tools/tr_heap.py; module flag "heap"): code whose pointers are
  VALUES (assigned, swapped, compared, tested against NULL, stored in object members) — `ntt_goldilocks.cpp/.hpp`.
  Core-only.

  Memory model (block based, as in CompCert):
    * a `Heap` is the list of the memory blocks that exist (caller buffers, `malloc` / `new[]` blocks, run-time sized stack
      arrays); a block is the array of its 64-bit words;
    * a pointer `Ptr` is a block number plus an offset in words; block 0 is the (empty) block of the NULL pointer;
    * `p[i]`           ↦ `Heap.get h p i`      (a read outside the block — undefined behaviour in C++ — gives 0),
      `p[i] = v`       ↦ `Heap.set h p i v`    (a write outside the block is dropped),
      `&p[i]`, `p + i` ↦ `Ptr.add p i`,  `p == q` ↦ equality of block and offset,
      `malloc(n * sizeof(Element))`, `new Element[n]`, `Element tmp[n]` ↦ `Heap.alloc h n` (a fresh block of n words, content
      unspecified in C++, modelled as zero like every uninitialised local), `free` / `delete[]` / end of scope ↦ `Heap.free`,
      `memcpy(d, s, n words)` ↦ `Heap.copy h d s n` (the source words are read before the destination is written: the two
      ranges must not overlap in C++), `memset(d, 0, n words)` ↦ `Heap.zero h d n`.
  Functions of a heap-mode module take the heap (`hp`) after `fuel` and return it when they write memory; methods take
  the object state (`self`, a generated structure with one field per data member) and return it when they assign members.

  Also here: 32-bit `int` values (`I32`: mathematical integers, exact as long as the C++ arithmetic does not overflow,
  which is undefined behaviour there; conversions wrap as the compiled code does) and the GMP functions the
  constructor of NTT_Goldilocks calls, by their documented results on non-negative integers (`Gmp`).
-/
import GoldilocksVerif.Model.TrRt

namespace GoldilocksVerif

/-- a pointer to 64-bit words: block number and offset (in words) -/
structure Ptr where
  blk : Nat
  off : Nat
  deriving DecidableEq

namespace Ptr
/-- `NULL` -/
def null : Ptr := ⟨0, 0⟩
/-- `p + k`, `&p[k]` -/
def add (p : Ptr) (k : Nat) : Ptr := ⟨p.blk, p.off + k⟩

@[simp] theorem add_blk (p : Ptr) (k : Nat) : (p.add k).blk = p.blk := rfl
@[simp] theorem add_off (p : Ptr) (k : Nat) : (p.add k).off = p.off + k := rfl
@[simp] theorem add_zero (p : Ptr) : p.add 0 = p := rfl
end Ptr

abbrev Block := Array (BitVec 64)

/-- `for (k = 0; k < n; k++) d[d0 + k] = s[s0 + k]` on block contents (`s` is the source block as it was before) -/
def Block.copyRow (d : Block) (d0 : Nat) (s : Block) (s0 n : Nat) : Block :=
  Loop.range 0 n 1 d (fun k d => d.setIfInBounds (d0 + k) (s.getD (s0 + k) 0#64))

/-- `for (k = 0; k < n; k++) d[d0 + k] = 0` -/
def Block.zeroRow (d : Block) (d0 n : Nat) : Block :=
  Loop.range 0 n 1 d (fun k d => d.setIfInBounds (d0 + k) 0#64)

structure Heap where
  blocks : Array Block

namespace Heap

/-- only the block of the NULL pointer -/
def empty : Heap := ⟨#[#[]]⟩

def block (h : Heap) (b : Nat) : Block := h.blocks.getD b #[]

def size (h : Heap) : Nat := h.blocks.size

/-- `p[i]` -/
def get (h : Heap) (p : Ptr) (i : Nat) : BitVec 64 := (h.block p.blk).getD (p.off + i) 0#64

/-- replace the content of block `b` -/
def setBlock (h : Heap) (b : Nat) (a : Block) : Heap := ⟨h.blocks.setIfInBounds b a⟩

/-- `p[i] = v` -/
def set (h : Heap) (p : Ptr) (i : Nat) (v : BitVec 64) : Heap :=
  ⟨h.blocks.modify p.blk (fun a => a.setIfInBounds (p.off + i) v)⟩

/-- a fresh block of `n` words (zero filled) -/
def alloc (h : Heap) (n : Nat) : Heap × Ptr :=
  (⟨h.blocks.push (Array.replicate n 0#64)⟩, ⟨h.blocks.size, 0⟩)

/-- a block with the given content (used by the driver for the caller's buffers) -/
def allocWith (h : Heap) (a : Block) : Heap × Ptr :=
  (⟨h.blocks.push a⟩, ⟨h.blocks.size, 0⟩)

/-- `free(p)` / `delete[] p` / end of the scope of a stack array: the block disappears (the last block is removed,
    another one is emptied, so that block numbers of live blocks never change); `free(NULL)` does nothing -/
def free (h : Heap) (p : Ptr) : Heap :=
  if p.blk = 0 then h
  else if p.blk + 1 = h.blocks.size then ⟨h.blocks.pop⟩
  else ⟨h.blocks.setIfInBounds p.blk #[]⟩

/-- `memcpy(dst, src, n words)` -/
def copy (h : Heap) (dst src : Ptr) (n : Nat) : Heap :=
  let s := h.block src.blk
  ⟨h.blocks.modify dst.blk (fun a => Block.copyRow a dst.off s src.off n)⟩

/-- `memset(dst, 0, n words)` -/
def zero (h : Heap) (dst : Ptr) (n : Nat) : Heap :=
  ⟨h.blocks.modify dst.blk (fun a => Block.zeroRow a dst.off n)⟩

end Heap

/-! ### 32-bit `int` -/
namespace I32

/-- the value a 32-bit two's complement register holds -/
def wrap (i : Int) : Int := Int.bmod i 4294967296

/-- `(int) x` for a 64-bit unsigned x (implementation defined before C++20: the low 32 bits, signed) -/
def ofU64 (x : BitVec 64) : Int := (x.setWidth 32).toInt
/-- `(int) x` for a 32-bit unsigned x -/
def ofU32 (x : BitVec 32) : Int := x.toInt
/-- `(u_int64_t) i` -/
def toU64 (i : Int) : BitVec 64 := BitVec.ofInt 64 i
/-- `(u_int32_t) i` -/
def toU32 (i : Int) : BitVec 32 := BitVec.ofInt 32 i
/-- `a << k` on `int` (k < 32; exact when the result is representable, else the wrapped value the hardware produces;
    undefined behaviour in C++ then) -/
def shl (a : Int) (k : Nat) : Int := wrap (a * 2 ^ k)
/-- `a >> k` on `int` (arithmetic shift) -/
def shr (a : Int) (k : Nat) : Int := a / 2 ^ k

end I32

/-! ### GMP integers (`mpz_t`), non-negative values only -/
namespace Gmp

def powmAux (m : Nat) : Nat → Nat → Nat → Nat → Nat
  | 0, _, _, acc => acc
  | f + 1, b, e, acc =>
    if e = 0 then acc else powmAux m f (b * b % m) (e / 2) (if e % 2 = 1 then acc * b % m else acc)

/-- `mpz_powm(rop, b, e, m)`: b^e mod m (square and multiply) -/
def powm (b e m : Nat) : Nat := powmAux m (Nat.log2 e + 1) (b % m) e (1 % m)

/-- extended Euclid on (r0, r1) with Bézout coefficients of `a`: returns (gcd, t) with t·a ≡ gcd (mod m) -/
def xgcd : Nat → Int → Int → Int → Int → Int × Int
  | 0, r0, _, t0, _ => (r0, t0)
  | f + 1, r0, r1, t0, t1 =>
    if r1 = 0 then (r0, t0) else xgcd f r1 (r0 % r1) t1 (t0 - (r0 / r1) * t1)

/-- `mpz_invert(rop, a, m)`: the inverse of a modulo m in [0, m) when it exists (then the C function returns non-zero);
    0 when it does not exist (the C function returns 0 and leaves rop undefined) -/
def invert (a m : Nat) : Nat :=
  let r := xgcd (2 * Nat.log2 (max a m) + 4) (a % m : Nat) m 1 0
  if r.1 = 1 then (r.2 % (m : Int)).toNat else 0

/-- `mpz_cmp_ui(a, k)` (sign of a − k) -/
def cmp_ui (a k : Nat) : Int := if a < k then -1 else if a = k then 0 else 1
/-- `mpz_tstbit(a, k)` -/
def tstbit (a k : Nat) : Int := if a.testBit k then 1 else 0
/-- `mpz_get_ui(a)`: the least significant 64 bits -/
def get_ui (a : Nat) : BitVec 64 := BitVec.ofNat 64 a
/-- `mpz_fdiv_q_2exp(q, a, k)` -/
def fdiv_q_2exp (a k : Nat) : Nat := a / 2 ^ k

end Gmp

end GoldilocksVerif
