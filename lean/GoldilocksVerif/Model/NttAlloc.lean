/-
  Allocation discipline of `NTT_Goldilocks` (src/ntt_goldilocks.hpp, ntt_goldilocks.cpp): the sequence of
  malloc / free / new[] / delete[] calls made by the constructor, by NTT / INTT / extendPol and by the destructor,
  as a function of the shapes only.  Hand model (core-only), tied to the code by the C18 correspondence: the harness
  records the real calls (linker-wrapped malloc/free, replaced operator new[]/delete[]/delete) and the two event
  sequences are compared word for word.

  Events are numbered: an allocation gets the next id; a release names the id it releases.
-/
namespace GoldilocksVerif.NttAlloc

/-- which allocator family a call belongs to -/
inductive Kind where
  | malloc   -- malloc / free
  | newArr   -- operator new[] / operator delete[]
  | scalar   -- operator delete (never correct for the blocks of this class; present so that a mismatch is expressible)
  deriving DecidableEq, Repr

inductive Ev where
  | alloc (k : Kind) (bytes : Nat)
  | free (k : Kind) (id : Nat)
  deriving DecidableEq, Repr

/-- one call on the object; `buf` = a caller scratch buffer is passed -/
inductive Call where
  | ntt (size ncols nblock : Nat) (buf : Bool)       -- NTT and INTT allocate identically
  | extendPol (nExt n ncols nblock : Nat) (buf : Bool)
  deriving Repr

/-- object state that matters for allocation: ids of roots / powTwoInv (absent for maxDomainSize = 0) and the
    extendPol cache (N, id of r, id of r_) -/
structure St where
  next : Nat
  tables : Option (Nat × Nat)
  cache : Option (Nat × Nat × Nat)
  deriving Repr

def log2 (n : Nat) : Nat := Nat.log2 n
/-- `s` of the constructor: starts at 1, raised up to domainPow (at most 32) -/
def sOf (maxDomain : Nat) : Nat := if log2 maxDomain ≤ 1 then 1 else min (log2 maxDomain) 32

/-- constructor -/
def ctor (c : Nat) (maxDomain : Nat) : List Ev × Nat × Option (Nat × Nat) :=
  if maxDomain = 0 then ([], c, none)
  else ([.alloc .malloc (2 ^ sOf maxDomain * 8), .alloc .malloc ((sOf maxDomain + 1) * 8)], c + 2, some (c, c + 1))

/-- destructor of an object whose tables are `t` and cache is `ch` -/
def dtor (t : Option (Nat × Nat)) (ch : Option (Nat × Nat × Nat)) : List Ev :=
  (match t with
   | some (a, b) => [.free .malloc a, .free .malloc b]
   | none => []) ++
  (match ch with
   | some (_, r, r') => [.free .newArr r, .free .newArr r']
   | none => [])

/-- `NTT(dst, src, size, ncols, buffer, nphase, nblock)` (also INTT): scratch `aux` unless a buffer is given, a
    block destination when the columns are processed in more than one block -/
def nttEv (c : Nat) (size ncols nblock : Nat) (buf : Bool) : List Ev × Nat :=
  if size = 0 ∨ ncols = 0 then ([], c) else
  let nb := if nblock < 1 then 1 else if nblock > ncols then ncols else nblock
  let ncolsAlloc := ncols / nb + (if ncols % nb > 0 then 1 else 0)
  let bytes := 8 * size * ncolsAlloc
  match buf, decide (nb > 1) with
  | false, false => ([.alloc .malloc bytes, .free .malloc c], c + 1)
  | false, true => ([.alloc .malloc bytes, .alloc .malloc bytes, .free .malloc (c + 1), .free .malloc c], c + 2)
  | true, false => ([], c)
  | true, true => ([.alloc .malloc bytes, .free .malloc c], c + 1)

/-- first part of `extendPol`: the local `ntt_extension` object, the temporary (unless a buffer is given), the
    refresh of the r / r_ cache.  Returns events, next id, ids of the local tables, id of the temporary, new cache. -/
def extPre (c : Nat) (ch : Option (Nat × Nat × Nat)) (nExt n ncols : Nat) (buf : Bool) :
    List Ev × Nat × Option (Nat × Nat) × Option Nat × Option (Nat × Nat × Nat) :=
  let (e1, c1, t1) := ctor c nExt                              -- the local ntt_extension object
  let (e2, c2, tmp) := if buf then (([] : List Ev), c1, (none : Option Nat))
                       else ([Ev.alloc .malloc (nExt * ncols * 8)], c1 + 1, some c1)
  let (e3, c3, ch3) :=
    match ch with
    | some (n', r, r') =>
        if n' = n then (([] : List Ev), c2, ch)
        else ([Ev.free .newArr r, .free .newArr r', .alloc .newArr (n * 8), .alloc .newArr (n * 8)], c2 + 2, some (n, c2, c2 + 1))
    | none => ([Ev.alloc .newArr (n * 8), .alloc .newArr (n * 8)], c2 + 2, some (n, c2, c2 + 1))
  (e1 ++ e2 ++ e3, c3, t1, tmp, ch3)

/-- the two transforms inside `extendPol`, both with the temporary as scratch buffer -/
def extMid (c : Nat) (nExt n ncols nblock : Nat) : List Ev × Nat :=
  let (e4, c4) := nttEv c n ncols nblock true                  -- INTT(output, input, N, ncols, tmp, …)
  let (e5, c5) := nttEv c4 nExt ncols nblock true              -- ntt_extension.NTT(output, output, N_Extended, ncols, tmp, …)
  (e4 ++ e5, c5)

/-- end of `extendPol`: the temporary, then the destructor of the local object -/
def extPost (t1 : Option (Nat × Nat)) (tmp : Option Nat) : List Ev :=
  (match tmp with
   | some t => [Ev.free .malloc t]
   | none => []) ++ dtor t1 none

/-- `extendPol(output, input, N_Extended, N, ncols, buffer, nphase, nblock)` on an object with cache `ch`
    (shapes with N ≥ 1, N_Extended ≥ 1) -/
def extendEv (c : Nat) (ch : Option (Nat × Nat × Nat)) (nExt n ncols nblock : Nat) (buf : Bool) :
    List Ev × Nat × Option (Nat × Nat × Nat) :=
  let pre := extPre c ch nExt n ncols buf
  let mid := extMid pre.2.1 nExt n ncols nblock
  (pre.1 ++ mid.1 ++ extPost pre.2.2.1 pre.2.2.2.1, mid.2, pre.2.2.2.2)

def callEv (s : St) (cl : Call) : List Ev × St :=
  match cl with
  | .ntt size ncols nblock buf =>
      let (e, c) := nttEv s.next size ncols nblock buf
      (e, { s with next := c })
  | .extendPol nExt n ncols nblock buf =>
      let (e, c, ch) := extendEv s.next s.cache nExt n ncols nblock buf
      (e, { s with next := c, cache := ch })

def callsEv : St → List Call → List Ev × St
  | s, [] => ([], s)
  | s, cl :: rest =>
      let (e, s1) := callEv s cl
      let (es, s2) := callsEv s1 rest
      (e ++ es, s2)

/-- the whole life of an object: construction, a history of calls, destruction -/
def lifeEv (maxDomain : Nat) (cs : List Call) : List Ev :=
  let (e0, c0, t) := ctor 0 maxDomain
  let (es, s) := callsEv ⟨c0, t, none⟩ cs
  e0 ++ es ++ dtor s.tables s.cache

/-! ### what a well-formed allocation trace is -/

/-- the heap as the list of live blocks (id, family) -/
abbrev Heap := List (Nat × Kind)

/-- run one event: allocation adds the next id; a release must name a live block of the SAME family -/
def step (h : Heap × Nat) : Ev → Option (Heap × Nat)
  | .alloc k _ => some ((h.2, k) :: h.1, h.2 + 1)
  | .free k id => if (id, k) ∈ h.1 then some (h.1.erase (id, k), h.2) else none

def run : Heap × Nat → List Ev → Option (Heap × Nat)
  | h, [] => some h
  | h, e :: es => match step h e with
      | some h' => run h' es
      | none => none

/-- no mismatched / double / wild release, and nothing leaked -/
def Clean (es : List Ev) : Prop := ∃ n, run ([], 0) es = some ([], n)

instance (es : List Ev) : Decidable (Clean es) :=
  match h : run ([], 0) es with
  | some ([], n) => isTrue ⟨n, h⟩
  | some (_ :: _, _) => isFalse (by rintro ⟨n, hn⟩; rw [h] at hn; cases hn)
  | none => isFalse (by rintro ⟨n, hn⟩; rw [h] at hn; cases hn)

end GoldilocksVerif.NttAlloc
