/-
  C05 — "For all power-of-two sizes N <= N_ext, all column counts, phase and block settings, thread counts and with or
  without scratch buffer, extendPol delivers out[k][c] = f_c(g*w_Next^k) for k < N_ext, where f_c is the unique polynomial
  of degree < N with f_c(w_N^j) = in[j][c] and g = 7 is the library's coset shift. Output and input may be the same buffer
  of N_ext rows."

  Statements about the hand model `Model/Ntt.lean` (see Props/C03.lean for the scope: all shapes, all inputs; thread count
  and caller scratch buffer are outside the sequential model; model = code for log2 n ≤ 30).
  A polynomial of degree < N is its coefficient vector `f : Nat → F`; its value at `z` is `∑ i < N, f i * z^i`.
-/
import GoldilocksVerif.Lemmas.NttTop
import GoldilocksVerif.Lemmas.BridgeNttComputeR
import GoldilocksVerif.Lemmas.BridgeNttExtend
import GoldilocksVerif.Lemmas.BridgeNttExtendEq
import GoldilocksVerif.Lemmas.BridgeNttExtendBuf
import GoldilocksVerif.Lemmas.BridgeNttHist

namespace GoldilocksVerif.C05
open GoldilocksVerif.Model.Ntt GoldilocksVerif.NttSpec Finset

/-- the library's coset shift is 7 -/
theorem C05_shift_is_seven : den Gen.Scalar.shift__r = 7 := den_shift

/-- C05 (uniqueness half): two polynomials of degree < N = 2^dn that agree on all N-th roots of unity `w_N^j` have the
    same coefficients — "the unique polynomial of degree < N with f(w_N^j) = in[j]" is well defined -/
theorem C05_interpolant_unique (dn : Nat) (hdn : dn ≤ 32) (f g : Nat → F)
    (h : ∀ j, j < 2 ^ dn → ∑ i ∈ range (2 ^ dn), f i * (omega dn ^ j) ^ i = ∑ i ∈ range (2 ^ dn), g i * (omega dn ^ j) ^ i) :
    ∀ i, i < 2 ^ dn → f i = g i := by
  intro i hi
  have h1 := (lde_welldef (omega_prim dn hdn) (two_pow_ne_zero dn) (fun j => evalPoly (2 ^ dn) g (omega dn ^ j)) f).mp
    (fun j hj => h j hj) i hi
  have h2 := (lde_welldef (omega_prim dn hdn) (two_pow_ne_zero dn) (fun j => evalPoly (2 ^ dn) g (omega dn ^ j)) g).mp
    (fun j _ => rfl) i hi
  rw [h1, h2]

/-- C05 (main statement): `extendPol` never aborts and, for every column `c`, there is a polynomial `f` of degree < N
    interpolating the input column on the N-th roots of unity such that the output column is `f` on the coset `7·w_Next^k`.
    `same = true`: output and input are the same buffer of N_ext rows. -/
theorem C05_extendPol (maxDomainSize extension : Nat) (o : Obj) (hobj : mkObj maxDomainSize extension = some o)
    (hext : extension ≤ 1) (dn de : Nat) (hn : 2 ^ dn ≤ maxDomainSize) (hne : dn ≤ de) (hde : de ≤ 32)
    (ncols nphase nblock : Nat) (hnc : 1 ≤ ncols) (same : Bool) (outB inB : Buf)
    (hin : inB.size = (if same then 2 ^ de else 2 ^ dn) * ncols) (hout : same = false → outB.size = 2 ^ de * ncols) :
    ∃ o' out, extendPol o same outB inB (2 ^ de) (2 ^ dn) ncols nphase nblock = .ok (o', out) ∧
      out.size = 2 ^ de * ncols ∧
      ∀ c, c < ncols → ∃ f : Nat → F,
        (∀ j, j < 2 ^ dn → ∑ i ∈ range (2 ^ dn), f i * (omega dn ^ j) ^ i = den (inB.getD (j * ncols + c) 0#64)) ∧
        (∀ k, k < 2 ^ de →
          den (out.getD (k * ncols + c) 0#64) = ∑ i ∈ range (2 ^ dn), f i * (7 * omega de ^ k) ^ i) := by
  have hm : maxDomainSize ≠ 0 := by have := Nat.two_pow_pos dn; omega
  have hO := mkObj_ok maxDomainSize extension o hm hext hobj
  have hd : dn ≤ log2 maxDomainSize := (Nat.le_log2 hm).mpr hn
  have hd32 : dn ≤ 32 := Nat.le_trans hd hO.dle
  have hsz : (if same then inB else outB).size = 2 ^ de * ncols := by
    cases same
    · exact hout rfl
    · simpa using hin
  obtain ⟨o', out, e, s, _, _, c⟩ := extendPol_spec o _ hO same outB inB dn de ncols nphase nblock hd hne hde hnc
    (by rw [hsz])
  refine ⟨o', out, e, by rw [s, hsz], ?_⟩
  intro col hcol
  refine ⟨idft (omega dn) (2 ^ dn) (fun j => cell inB ncols j col), ?_, ?_⟩
  · intro j hj
    have := (lde_welldef (omega_prim dn hd32) (two_pow_ne_zero dn) (fun j => cell inB ncols j col)
      (idft (omega dn) (2 ^ dn) (fun j => cell inB ncols j col))).mpr (fun _ _ => rfl) j hj
    exact this
  · intro k hk
    exact c k col hk hcol

/-- non-vacuity: the hypotheses are satisfiable (N = 4, N_ext = 16 on an object of size 8, in place on 16 rows) -/
example : ∃ o o' out, mkObj 8 1 = some o ∧
    extendPol o true #[] (Array.replicate (2 ^ 4 * 2) 3#64) (2 ^ 4) (2 ^ 2) 2 3 1 = .ok (o', out) := by
  obtain ⟨o, ho⟩ := mkObj_some 8 1 (by decide)
  obtain ⟨o', out, e, _⟩ := C05_extendPol 8 1 o ho (by omega) 2 4 (by omega) (by omega) (by omega) 2 3 1 (by omega) true #[]
    (Array.replicate (2 ^ 4 * 2) 3#64) (by simp) (by simp)
  exact ⟨o, o', out, ho, e⟩

/-! ### the model GENERATED from ntt_goldilocks.cpp / .hpp (see Props/C03.lean, DESIGN.NTTGEN.md) -/
section generated
open GoldilocksVerif.BridgeNtt Gen.NttGen

/-- generated `computeR(N)` (1 ≤ N < 2^31): the tables `r[i] = 7^i`, `r_[i] = 7^i / N` of the model's `computeR`, in two new
    blocks at the end of the heap, `r`, `r_`, `r_N` of the object pointing to them; nothing else changes -/
theorem C05_generated_computeR (fuel : Nat) (hf : 64 ≤ fuel) (hp : Heap) (self : NTT_Goldilocks) (o : Obj) (N : Nat)
    (hN : 1 ≤ N) (hN31 : N < 2 ^ 31)
    (hpti : hp.block self.powTwoInv.blk = o.powTwoInv) (hoff : self.powTwoInv.off = 0)
    (hblk : self.powTwoInv.blk < hp.size) :
    NTT_computeR fuel hp self (N : Int) =
      some ((hp.push (computeR o N).2.1).push (computeR o N).2.2,
            { self with r := ⟨hp.size, 0⟩, r_ := ⟨hp.size + 1, 0⟩, r_N := BitVec.ofNat 64 N }) :=
  computeR_gen fuel hf hp self o N hN hN31 hpti hoff hblk

/-- **the property on the generated function**: the TRANSLATED `extendPol` (no caller buffer, one column block,
    2 ≤ N = 2^dn ≤ N_ext = 2^de ≤ 2^30, output = input block or another block), called on ANY reachable object state
    (`o.base` constructed, the `r` / `r_` cache satisfying its invariant — absent, built for this N, or built for another N and
    then freed and rebuilt): it returns, and the output block holds for every column the values f(7·ω_de^k) of the
    interpolant f of the input column.  Covers the local transform object (constructed and destroyed inside), the scratch
    block shared by the two transforms, and the cache refresh.  Route: generated `NTT_iters` = the model's `nttIters` with the
    actual scratch content, whose field-level specification holds for every scratch content. -/
theorem C05_generated_extendPol (maxDomainSize extension : Nat) (o : Obj) (hbase : mkObj maxDomainSize extension = some o.base)
    (hwf : o.wf) (hext : extension ≤ 1) (dn de : Nat) (hdn1 : 1 ≤ dn) (hn : 2 ^ dn ≤ maxDomainSize) (hne : dn ≤ de) (hde : de ≤ 30)
    (fuel : Nat) (hf : 64 ≤ fuel) (hp : Heap) (self : NTT_Goldilocks) (hrep : ObjRep hp self o) (hin : ObjIn hp self)
    (hdisj : ObjDisj self)
    (Out In : Nat) (hOut : Out < hp.size) (hIn : In < hp.size) (hOut0 : Out ≠ 0)
    (hfrOut : ObjFrame self Out) (hfrIn : ObjFrame self In)
    (ncols : Nat) (nphase nblock : BitVec 64) (hnc : 1 ≤ ncols) (hbound : 2 ^ de * ncols * 8 < 2 ^ 64)
    (hnb : clampBlock nblock.toNat ncols = 1) (hout : 2 ^ de * ncols ≤ (hp.block Out).size) :
    ∃ hp' self', NTT_extendPol fuel hp self ⟨Out, 0⟩ ⟨In, 0⟩ (bv (2 ^ de)) (bv (2 ^ dn)) (bv ncols) Ptr.null nphase nblock =
        some (hp', self') ∧ (hp'.block Out).size = (hp.block Out).size ∧
      ∀ c, c < ncols → ∃ f : Nat → F,
        (∀ j, j < 2 ^ dn →
          ∑ i ∈ range (2 ^ dn), f i * (omega dn ^ j) ^ i = den ((hp.block In).getD (j * ncols + c) 0#64)) ∧
        (∀ k, k < 2 ^ de →
          den ((hp'.block Out).getD (k * ncols + c) 0#64) = ∑ i ∈ range (2 ^ dn), f i * (7 * omega de ^ k) ^ i) := by
  have hm : maxDomainSize ≠ 0 := by have := Nat.two_pow_pos dn; omega
  have hO0 := mkObj_ok maxDomainSize extension o.base hm hext hbase
  have ho : setCache o.base o.rcache = o := by cases o; rfl
  have hO : ObjOk o (log2 maxDomainSize) := by
    have := hO0.setCache o.rcache (by rw [ho]; exact hwf)
    rw [ho] at this; exact this
  obtain ⟨hs1, hs2, _⟩ := mkObj_s_val maxDomainSize extension o.base hm hbase
  have hsb : o.base.s = o.s := rfl
  rw [hsb] at hs1 hs2
  have hd : dn ≤ log2 maxDomainSize := (Nat.le_log2 hm).mpr hn
  have hd32 : dn ≤ 32 := Nat.le_trans hd hO.dle
  obtain ⟨hp', self', out, e, hb, hsz, _, c⟩ := extendPol_gen fuel hf hp self o _ hrep hin hdisj hO hs2 Out In hOut hIn hOut0
    hfrOut hfrIn dn de ncols hdn1 hne hde hd (by omega) hnc hbound nphase nblock hnb hout
  refine ⟨hp', self', e, by rw [hb, hsz], ?_⟩
  intro col hcol
  refine ⟨idft (omega dn) (2 ^ dn) (fun j => cell (hp.block In) ncols j col), ?_, ?_⟩
  · intro j hj
    have := (lde_welldef (omega_prim dn hd32) (two_pow_ne_zero dn) (fun j => cell (hp.block In) ncols j col)
      (idft (omega dn) (2 ^ dn) (fun j => cell (hp.block In) ncols j col))).mpr (fun _ _ => rfl) j hj
    exact this
  · intro k hk
    rw [hb]
    exact c k col hk hcol

end generated

/-! ### the generated model, EVERY `nblock`, sizes from 1, and EQUALITY with the hand model (Lemmas/BridgeNttExtendEq.lean)
  `C05_generated_extendPol` above covers one column block, N ≥ 2, and states the property.  Below: the TRANSLATED `extendPol`
  EQUALS the hand model's `extendPol` bit for bit (the generated code shares one dirty scratch block between its two transforms,
  the hand model takes fresh zero-filled ones: `Model.Ntt.nttIters_aux_irrelevant`), for every `nblock` and 1 ≤ N ≤ N_ext ≤ 2^30,
  and the object state it returns represents, with the final heap, the hand model's object after the call. -/
section generated_all
open GoldilocksVerif.BridgeNtt Gen.NttGen

/-- generated `extendPol` = the model's `extendPol`, bit for bit (no caller buffer, every `nblock`, 1 ≤ 2^dn ≤ 2^de ≤ 2^30, output =
    input block or another block, any cache state); afterwards the returned object state with the final heap represents the model's
    object `o'` (tables unchanged, the refreshed cache), the object owns existing and distinct blocks, the caller's blocks other than
    the output are unchanged and are not the object's.  Fuel: 64, and for N = 1 more than the column count -/
theorem C05_generated_extendPol_eq_model (fuel : Nat) (hf : 64 ≤ fuel) (hp : Heap) (self : NTT_Goldilocks) (o : Obj)
    (hrep : ObjRep hp self o) (hin : ObjIn hp self) (hdisj : ObjDisj self) (hos : o.s ≤ 32) (hext31 : o.extension < 2 ^ 31)
    (Out In : Nat) (hOut : Out < hp.size) (hIn : In < hp.size) (hOut0 : Out ≠ 0)
    (hfrOut : ObjFrame self Out) (hfrIn : ObjFrame self In)
    (dn de nc : Nat) (hde : dn ≤ de) (hde30 : de ≤ 30) (hdns : dn ≤ o.s) (hnc : 1 ≤ nc)
    (hbound : 2 ^ de * nc * 8 < 2 ^ 64) (nphase nblock : BitVec 64)
    (hout : 2 ^ de * nc ≤ (hp.block Out).size) (hf1 : dn = 0 → nc < fuel) :
    match extendPol o (decide (Out = In)) (hp.block Out) (hp.block In) (2 ^ de) (2 ^ dn) nc nphase.toNat nblock.toNat with
    | .ok (o', out) => ∃ hp' self',
        NTT_extendPol fuel hp self ⟨Out, 0⟩ ⟨In, 0⟩ (bv (2 ^ de)) (bv (2 ^ dn)) (bv nc) Ptr.null nphase nblock =
          some (hp', self') ∧
        hp'.block Out = out ∧ ObjRep hp' self' o' ∧ ObjIn hp' self' ∧ ObjDisj self' ∧ hp.size ≤ hp'.size ∧
        (∀ c, c < hp.size → c ≠ Out → ObjFrame self c → hp'.block c = hp.block c) ∧
        (∀ c, c < hp.size → ObjFrame self c → ObjFrame self' c)
    | .error _ =>
        NTT_extendPol fuel hp self ⟨Out, 0⟩ ⟨In, 0⟩ (bv (2 ^ de)) (bv (2 ^ dn)) (bv nc) Ptr.null nphase nblock = none :=
  extendPol_gen_eq fuel hf hp self o hrep hin hdisj hos hext31 Out In hOut hIn hOut0 hfrOut hfrIn dn de nc hde hde30 hdns hnc hbound
    nphase nblock hout hf1

/-- **the property on the generated function, every `nblock`, 1 ≤ N = 2^dn ≤ N_ext = 2^de ≤ 2^30**, on any reachable object state -/
theorem C05_generated_extendPol_all (maxDomainSize extension : Nat) (o : Obj) (hbase : mkObj maxDomainSize extension = some o.base)
    (hwf : o.wf) (hext : extension ≤ 1) (dn de : Nat) (hn : 2 ^ dn ≤ maxDomainSize) (hne : dn ≤ de) (hde : de ≤ 30)
    (fuel : Nat) (hf : 64 ≤ fuel) (hp : Heap) (self : NTT_Goldilocks) (hrep : ObjRep hp self o) (hin : ObjIn hp self)
    (hdisj : ObjDisj self)
    (Out In : Nat) (hOut : Out < hp.size) (hIn : In < hp.size) (hOut0 : Out ≠ 0)
    (hfrOut : ObjFrame self Out) (hfrIn : ObjFrame self In)
    (ncols : Nat) (nphase nblock : BitVec 64) (hnc : 1 ≤ ncols) (hbound : 2 ^ de * ncols * 8 < 2 ^ 64)
    (hout : 2 ^ de * ncols ≤ (hp.block Out).size) (hf1 : dn = 0 → ncols < fuel) :
    ∃ hp' self' o', NTT_extendPol fuel hp self ⟨Out, 0⟩ ⟨In, 0⟩ (bv (2 ^ de)) (bv (2 ^ dn)) (bv ncols) Ptr.null nphase nblock =
        some (hp', self') ∧ (hp'.block Out).size = (hp.block Out).size ∧
      ObjRep hp' self' o' ∧ o'.wf ∧ o'.base = o.base ∧
      ∀ c, c < ncols → ∃ f : Nat → F,
        (∀ j, j < 2 ^ dn →
          ∑ i ∈ range (2 ^ dn), f i * (omega dn ^ j) ^ i = den ((hp.block In).getD (j * ncols + c) 0#64)) ∧
        (∀ k, k < 2 ^ de →
          den ((hp'.block Out).getD (k * ncols + c) 0#64) = ∑ i ∈ range (2 ^ dn), f i * (7 * omega de ^ k) ^ i) := by
  have hm : maxDomainSize ≠ 0 := by have := Nat.two_pow_pos dn; omega
  have hO0 := mkObj_ok maxDomainSize extension o.base hm hext hbase
  have ho : setCache o.base o.rcache = o := by cases o; rfl
  have hO : ObjOk o (log2 maxDomainSize) := by
    have := hO0.setCache o.rcache (by rw [ho]; exact hwf)
    rw [ho] at this; exact this
  obtain ⟨hs1, hs2, hs3⟩ := mkObj_s_val maxDomainSize extension o.base hm hbase
  have hsb : o.base.s = o.s := rfl
  have hse : o.base.extension = o.extension := rfl
  rw [hsb] at hs1 hs2
  have hd : dn ≤ log2 maxDomainSize := (Nat.le_log2 hm).mpr hn
  have hd32 : dn ≤ 32 := Nat.le_trans hd hO.dle
  have hosize : 2 ^ de * ncols ≤ (if decide (Out = In) = true then hp.block In else hp.block Out).size := by
    by_cases h : Out = In
    · subst h; simp; omega
    · simp [h]; omega
  obtain ⟨o', out, e, hosz, hwf', hbase', c⟩ := extendPol_spec o _ hO (decide (Out = In)) (hp.block Out) (hp.block In) dn de ncols
    nphase.toNat nblock.toNat hd hne (by omega) hnc hosize
  have hg := extendPol_gen_eq fuel hf hp self o hrep hin hdisj hs2 (by rw [← hse, hs3]; omega) Out In hOut hIn hOut0 hfrOut hfrIn
    dn de ncols hne hde (by omega) hnc hbound nphase nblock hout hf1
  rw [e] at hg
  obtain ⟨hp', self', hrun, hblk, hrep', _⟩ := hg
  have hosz' : out.size = (hp.block Out).size := by
    rw [hosz]
    by_cases h : Out = In
    · subst h; simp
    · simp [h]
  refine ⟨hp', self', o', hrun, by rw [hblk, hosz'], hrep', hwf', hbase', ?_⟩
  intro col hcol
  refine ⟨idft (omega dn) (2 ^ dn) (fun j => cell (hp.block In) ncols j col), ?_, ?_⟩
  · intro j hj
    have := (lde_welldef (omega_prim dn hd32) (two_pow_ne_zero dn) (fun j => cell (hp.block In) ncols j col)
      (idft (omega dn) (2 ^ dn) (fun j => cell (hp.block In) ncols j col))).mpr (fun _ _ => rfl) j hj
    exact this
  · intro k hk
    rw [hblk]
    exact c k col hk hcol

end generated_all

/-! ### the generated model WITH A CALLER SCRATCH BUFFER (`buffer != NULL`; Lemmas/BridgeNttExtendBuf.lean)
  The C05 statement says "with or without scratch buffer".  The hand model has no caller buffer (it takes fresh zero-filled
  scratch per transform); the TRANSLATED `extendPol` passes the caller's block `B` — whatever it holds — to both transforms.
  Below: for every content of `B` the translated function EQUALS the hand model's `extendPol` bit for bit, under the documented
  preconditions on the buffer (an existing block other than the output's, the input's and the object's, at least N_ext·ncols
  words); the buffer block keeps its size. -/
section generated_buffer
open GoldilocksVerif.BridgeNtt Gen.NttGen

/-- generated `extendPol` with a caller buffer = the model's `extendPol`, bit for bit (every `nblock`, 1 ≤ 2^dn ≤ 2^de ≤ 2^30, output =
    input block or another block, any cache state, ANY buffer content); afterwards as in `C05_generated_extendPol_eq_model`, the
    buffer block has its size, the caller's blocks other than the output and the buffer are unchanged -/
theorem C05_generated_extendPol_buffer_eq_model (fuel : Nat) (hf : 64 ≤ fuel) (hp : Heap) (self : NTT_Goldilocks) (o : Obj)
    (hrep : ObjRep hp self o) (hin : ObjIn hp self) (hdisj : ObjDisj self) (hos : o.s ≤ 32) (hext31 : o.extension < 2 ^ 31)
    (Out In B : Nat) (hOut : Out < hp.size) (hIn : In < hp.size) (hB : B < hp.size) (hOut0 : Out ≠ 0) (hB0 : B ≠ 0)
    (hOB : Out ≠ B) (hIB : In ≠ B)
    (hfrOut : ObjFrame self Out) (hfrIn : ObjFrame self In) (hfrB : ObjFrame self B)
    (dn de nc : Nat) (hde : dn ≤ de) (hde30 : de ≤ 30) (hdns : dn ≤ o.s) (hnc : 1 ≤ nc)
    (hbound : 2 ^ de * nc * 8 < 2 ^ 64) (nphase nblock : BitVec 64)
    (hout : 2 ^ de * nc ≤ (hp.block Out).size) (hbuf : 2 ^ de * nc ≤ (hp.block B).size) (hf1 : dn = 0 → nc < fuel) :
    match extendPol o (decide (Out = In)) (hp.block Out) (hp.block In) (2 ^ de) (2 ^ dn) nc nphase.toNat nblock.toNat with
    | .ok (o', out) => ∃ hp' self',
        NTT_extendPol fuel hp self ⟨Out, 0⟩ ⟨In, 0⟩ (bv (2 ^ de)) (bv (2 ^ dn)) (bv nc) ⟨B, 0⟩ nphase nblock =
          some (hp', self') ∧
        hp'.block Out = out ∧ ObjRep hp' self' o' ∧ ObjIn hp' self' ∧ ObjDisj self' ∧ hp.size ≤ hp'.size ∧
        (hp'.block B).size = (hp.block B).size ∧
        (∀ c, c < hp.size → c ≠ Out → c ≠ B → ObjFrame self c → hp'.block c = hp.block c) ∧
        (∀ c, c < hp.size → ObjFrame self c → ObjFrame self' c)
    | .error _ =>
        NTT_extendPol fuel hp self ⟨Out, 0⟩ ⟨In, 0⟩ (bv (2 ^ de)) (bv (2 ^ dn)) (bv nc) ⟨B, 0⟩ nphase nblock = none :=
  extendPol_gen_buf_eq fuel hf hp self o hrep hin hdisj hos hext31 Out In B hOut hIn hB hOut0 hB0 hOB hIB hfrOut hfrIn hfrB dn de nc
    hde hde30 hdns hnc hbound nphase nblock hout hbuf hf1

/-- **the property on the generated function called with a caller scratch buffer, every `nblock`, 1 ≤ N = 2^dn ≤ N_ext = 2^de ≤ 2^30**,
    on any reachable object state, for ANY content of the buffer: it returns, and the output block holds for every column the
    values f(7·ω_de^k) of the interpolant f of the input column -/
theorem C05_generated_extendPol_buffer_all (maxDomainSize extension : Nat) (o : Obj)
    (hbase : mkObj maxDomainSize extension = some o.base)
    (hwf : o.wf) (hext : extension ≤ 1) (dn de : Nat) (hn : 2 ^ dn ≤ maxDomainSize) (hne : dn ≤ de) (hde : de ≤ 30)
    (fuel : Nat) (hf : 64 ≤ fuel) (hp : Heap) (self : NTT_Goldilocks) (hrep : ObjRep hp self o) (hin : ObjIn hp self)
    (hdisj : ObjDisj self)
    (Out In B : Nat) (hOut : Out < hp.size) (hIn : In < hp.size) (hB : B < hp.size) (hOut0 : Out ≠ 0) (hB0 : B ≠ 0)
    (hOB : Out ≠ B) (hIB : In ≠ B)
    (hfrOut : ObjFrame self Out) (hfrIn : ObjFrame self In) (hfrB : ObjFrame self B)
    (ncols : Nat) (nphase nblock : BitVec 64) (hnc : 1 ≤ ncols) (hbound : 2 ^ de * ncols * 8 < 2 ^ 64)
    (hout : 2 ^ de * ncols ≤ (hp.block Out).size) (hbuf : 2 ^ de * ncols ≤ (hp.block B).size) (hf1 : dn = 0 → ncols < fuel) :
    ∃ hp' self' o', NTT_extendPol fuel hp self ⟨Out, 0⟩ ⟨In, 0⟩ (bv (2 ^ de)) (bv (2 ^ dn)) (bv ncols) ⟨B, 0⟩ nphase nblock =
        some (hp', self') ∧ (hp'.block Out).size = (hp.block Out).size ∧ (hp'.block B).size = (hp.block B).size ∧
      ObjRep hp' self' o' ∧ o'.wf ∧ o'.base = o.base ∧
      ∀ c, c < ncols → ∃ f : Nat → F,
        (∀ j, j < 2 ^ dn →
          ∑ i ∈ range (2 ^ dn), f i * (omega dn ^ j) ^ i = den ((hp.block In).getD (j * ncols + c) 0#64)) ∧
        (∀ k, k < 2 ^ de →
          den ((hp'.block Out).getD (k * ncols + c) 0#64) = ∑ i ∈ range (2 ^ dn), f i * (7 * omega de ^ k) ^ i) := by
  have hm : maxDomainSize ≠ 0 := by have := Nat.two_pow_pos dn; omega
  have hO0 := mkObj_ok maxDomainSize extension o.base hm hext hbase
  have ho : setCache o.base o.rcache = o := by cases o; rfl
  have hO : ObjOk o (log2 maxDomainSize) := by
    have := hO0.setCache o.rcache (by rw [ho]; exact hwf)
    rw [ho] at this; exact this
  obtain ⟨hs1, hs2, hs3⟩ := mkObj_s_val maxDomainSize extension o.base hm hbase
  have hsb : o.base.s = o.s := rfl
  have hse : o.base.extension = o.extension := rfl
  rw [hsb] at hs1 hs2
  have hd : dn ≤ log2 maxDomainSize := (Nat.le_log2 hm).mpr hn
  have hd32 : dn ≤ 32 := Nat.le_trans hd hO.dle
  have hosize : 2 ^ de * ncols ≤ (if decide (Out = In) = true then hp.block In else hp.block Out).size := by
    by_cases h : Out = In
    · subst h; simp; omega
    · simp [h]; omega
  obtain ⟨o', out, e, hosz, hwf', hbase', c⟩ := extendPol_spec o _ hO (decide (Out = In)) (hp.block Out) (hp.block In) dn de ncols
    nphase.toNat nblock.toNat hd hne (by omega) hnc hosize
  have hg := extendPol_gen_buf_eq fuel hf hp self o hrep hin hdisj hs2 (by rw [← hse, hs3]; omega) Out In B hOut hIn hB hOut0 hB0
    hOB hIB hfrOut hfrIn hfrB dn de ncols hne hde (by omega) hnc hbound nphase nblock hout hbuf hf1
  rw [e] at hg
  obtain ⟨hp', self', hrun, hblk, hrep', _, _, _, hbsz, _⟩ := hg
  have hosz' : out.size = (hp.block Out).size := by
    rw [hosz]
    by_cases h : Out = In
    · subst h; simp
    · simp [h]
  refine ⟨hp', self', o', hrun, by rw [hblk, hosz'], hbsz, hrep', hwf', hbase', ?_⟩
  intro col hcol
  refine ⟨idft (omega dn) (2 ^ dn) (fun j => cell (hp.block In) ncols j col), ?_, ?_⟩
  · intro j hj
    have := (lde_welldef (omega_prim dn hd32) (two_pow_ne_zero dn) (fun j => cell (hp.block In) ncols j col)
      (idft (omega dn) (2 ^ dn) (fun j => cell (hp.block In) ncols j col))).mpr (fun _ _ => rfl) j hj
    exact this
  · intro k hk
    rw [hblk]
    exact c k col hk hcol

/-- non-vacuity: the hypotheses are satisfiable — the TRANSLATED constructor on a heap with three caller blocks (input: 4 rows of 2
    columns; output: 8 rows; scratch buffer: 16 words of junk), then the translated `extendPol` 4 → 8 with the buffer, two column
    blocks: both return -/
example : ∃ st0 hp' self',
    NTT_ctor 64 ⟨#[#[], Array.replicate 8 5#64, Array.replicate 16 0#64, Array.replicate 16 9#64]⟩ NTT_Goldilocks.init 8#64 1#32
      ((1 : Nat) : Int) = some st0 ∧
    NTT_extendPol 64 st0.1 st0.2 ⟨2, 0⟩ ⟨1, 0⟩ (bv (2 ^ 3)) (bv (2 ^ 2)) (bv 2) ⟨3, 0⟩ 3#64 2#64 = some (hp', self') := by
  obtain ⟨o0, ho0⟩ := mkObj_some 8 1 (by decide)
  obtain ⟨st0, hc, hinv, hblk⟩ := ctor_inv 64 (by omega)
    ⟨#[#[], Array.replicate 8 5#64, Array.replicate 16 0#64, Array.replicate 16 9#64]⟩ (by decide) NTT_Goldilocks.init 8#64 1#32 1
    (by decide) o0 ho0
  obtain ⟨⟨o, hbase, hwf, hrep⟩, hin, hdisj, hsize, huser⟩ := hinv
  have hsz : 4 ≤ st0.1.size := hsize
  obtain ⟨_, _, f1, s1⟩ := huser 1 ⟨by decide, by decide⟩
  obtain ⟨_, _, f2, s2⟩ := huser 2 ⟨by decide, by decide⟩
  obtain ⟨_, _, f3, s3⟩ := huser 3 ⟨by decide, by decide⟩
  obtain ⟨hp', self', _, hrun, _⟩ := C05_generated_extendPol_buffer_all 8 1 o (by rw [hbase]; exact ho0) hwf (by omega) 2 3
    (by omega) (by omega) (by omega) 64 (by omega) st0.1 st0.2 hrep hin hdisj 2 1 3 (by omega) (by omega) (by omega) (by omega)
    (by omega) (by omega) (by omega) f2 f1 f3 2 3#64 2#64 (by omega) (by omega) (by rw [s2]; decide) (by rw [s3]; decide)
    (by omega)
  exact ⟨st0, hp', self', hc, hrun⟩

end generated_buffer

end GoldilocksVerif.C05
