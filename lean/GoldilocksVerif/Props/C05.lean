import GoldilocksVerif.Model.Ntt
namespace GoldilocksVerif.C05
end GoldilocksVerif.C05
