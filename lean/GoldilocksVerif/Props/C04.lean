/-
  C04 — "Over the same configuration space as the forward transform, the inverse transform delivers
  out[k][c] = n^-1 * sum_j in[j][c]*w_n^(-j*k), so that INTT(NTT(x)) and NTT(INTT(x)) both return x as field elements
  for every x. A null destination means in place."

  Statements about the hand model `Model/Ntt.lean` (see Props/C03.lean for the scope: all shapes, all inputs; thread count
  and caller scratch buffer are outside the sequential model; model = code for log2 n ≤ 30).
-/
import GoldilocksVerif.Lemmas.NttTop
import GoldilocksVerif.Lemmas.BridgeNttTop
import GoldilocksVerif.Lemmas.BridgeNttBuf
import GoldilocksVerif.Lemmas.BridgeNttBlocks
import GoldilocksVerif.Lemmas.BridgeNttBufEq

namespace GoldilocksVerif.C04
open GoldilocksVerif.Model.Ntt GoldilocksVerif.NttSpec Finset

/-- C04 (main statement): the inverse transform never aborts and delivers the inverse DFT of every column;
    the source is returned unchanged when the destination is another buffer, a null destination behaves as in place. -/
theorem C04_inverse_transform (maxDomainSize extension : Nat) (o : Obj) (hobj : mkObj maxDomainSize extension = some o)
    (hext : extension ≤ 1) (d : Nat) (hn : 2 ^ d ≤ maxDomainSize)
    (ncols nphase nblock : Nat) (hnc : 1 ≤ ncols) (mode : DstMode) (dstB srcB : Buf)
    (hsrc : srcB.size = 2 ^ d * ncols) (hdst : mode = .other → dstB.size = 2 ^ d * ncols) :
    ∃ out, intt o mode dstB srcB (2 ^ d) ncols nphase nblock false
        = .ok (out, if mode = .other then srcB else out) ∧
      out.size = 2 ^ d * ncols ∧
      ∀ k c, k < 2 ^ d → c < ncols →
        den (out.getD (k * ncols + c) 0#64)
          = ((2 ^ d : Nat) : F)⁻¹ * ∑ j ∈ range (2 ^ d), den (srcB.getD (j * ncols + c) 0#64) * (omega d)⁻¹ ^ (j * k) := by
  have hm : maxDomainSize ≠ 0 := by have := Nat.two_pow_pos d; omega
  have hO := mkObj_ok maxDomainSize extension o hm hext hobj
  have hd : d ≤ log2 maxDomainSize := (Nat.le_log2 hm).mpr hn
  have hsz : (if mode = .other then dstB else srcB).size = 2 ^ d * ncols := by
    by_cases h : mode = .other
    · rw [if_pos h]; exact hdst h
    · rw [if_neg h]; exact hsrc
  obtain ⟨out, e, s, c⟩ := intt_inverse o _ hO mode dstB srcB d ncols nphase nblock hd hnc (by rw [hsz])
  exact ⟨out, e, by rw [s, hsz], c⟩

/-- C04: INTT(NTT(x)) = x as field elements — any two configurations (phase, block, destination mode) of the two calls -/
theorem C04_intt_of_ntt (maxDomainSize extension : Nat) (o : Obj) (hobj : mkObj maxDomainSize extension = some o)
    (hext : extension ≤ 1) (d : Nat) (hn : 2 ^ d ≤ maxDomainSize) (ncols : Nat) (hnc : 1 ≤ ncols)
    (nphase1 nblock1 nphase2 nblock2 : Nat) (mode1 mode2 : DstMode) (dst1 dst2 x : Buf)
    (hx : x.size = 2 ^ d * ncols) (hd1 : mode1 = .other → dst1.size = 2 ^ d * ncols)
    (hd2 : mode2 = .other → dst2.size = 2 ^ d * ncols) :
    ∃ y z, ntt o mode1 dst1 x (2 ^ d) ncols nphase1 nblock1 false false = .ok (y, if mode1 = .other then x else y) ∧
      intt o mode2 dst2 y (2 ^ d) ncols nphase2 nblock2 false = .ok (z, if mode2 = .other then y else z) ∧
      ∀ k c, k < 2 ^ d → c < ncols → den (z.getD (k * ncols + c) 0#64) = den (x.getD (k * ncols + c) 0#64) := by
  have hm : maxDomainSize ≠ 0 := by have := Nat.two_pow_pos d; omega
  have hO := mkObj_ok maxDomainSize extension o hm hext hobj
  have hd : d ≤ log2 maxDomainSize := (Nat.le_log2 hm).mpr hn
  have hd32 : d ≤ 32 := Nat.le_trans hd hO.dle
  have hsz1 : (if mode1 = .other then dst1 else x).size = 2 ^ d * ncols := by
    by_cases h : mode1 = .other
    · rw [if_pos h]; exact hd1 h
    · rw [if_neg h]; exact hx
  obtain ⟨y, e1, s1, c1⟩ := ntt_forward o _ hO mode1 dst1 x d ncols nphase1 nblock1 hd hnc (by rw [hsz1])
  have hy : y.size = 2 ^ d * ncols := by rw [s1, hsz1]
  have hsz2 : (if mode2 = .other then dst2 else y).size = 2 ^ d * ncols := by
    by_cases h : mode2 = .other
    · rw [if_pos h]; exact hd2 h
    · rw [if_neg h]; exact hy
  obtain ⟨z, e2, _, c2⟩ := intt_inverse o _ hO mode2 dst2 y d ncols nphase2 nblock2 hd hnc (by rw [hsz2])
  refine ⟨y, z, e1, e2, ?_⟩
  intro k c hk hc
  have h2 := c2 k c hk hc
  show cell z ncols k c = cell x ncols k c
  rw [h2, idft_congr _ _ _ (dft (omega d) (2 ^ d) (fun j => cell x ncols j c)) k (fun j hj => c1 j c hj hc),
    idft_dft (omega_prim d hd32) (two_pow_ne_zero d) _ hk]

/-- C04: NTT(INTT(x)) = x as field elements -/
theorem C04_ntt_of_intt (maxDomainSize extension : Nat) (o : Obj) (hobj : mkObj maxDomainSize extension = some o)
    (hext : extension ≤ 1) (d : Nat) (hn : 2 ^ d ≤ maxDomainSize) (ncols : Nat) (hnc : 1 ≤ ncols)
    (nphase1 nblock1 nphase2 nblock2 : Nat) (mode1 mode2 : DstMode) (dst1 dst2 x : Buf)
    (hx : x.size = 2 ^ d * ncols) (hd1 : mode1 = .other → dst1.size = 2 ^ d * ncols)
    (hd2 : mode2 = .other → dst2.size = 2 ^ d * ncols) :
    ∃ y z, intt o mode1 dst1 x (2 ^ d) ncols nphase1 nblock1 false = .ok (y, if mode1 = .other then x else y) ∧
      ntt o mode2 dst2 y (2 ^ d) ncols nphase2 nblock2 false false = .ok (z, if mode2 = .other then y else z) ∧
      ∀ k c, k < 2 ^ d → c < ncols → den (z.getD (k * ncols + c) 0#64) = den (x.getD (k * ncols + c) 0#64) := by
  have hm : maxDomainSize ≠ 0 := by have := Nat.two_pow_pos d; omega
  have hO := mkObj_ok maxDomainSize extension o hm hext hobj
  have hd : d ≤ log2 maxDomainSize := (Nat.le_log2 hm).mpr hn
  have hd32 : d ≤ 32 := Nat.le_trans hd hO.dle
  have hsz1 : (if mode1 = .other then dst1 else x).size = 2 ^ d * ncols := by
    by_cases h : mode1 = .other
    · rw [if_pos h]; exact hd1 h
    · rw [if_neg h]; exact hx
  obtain ⟨y, e1, s1, c1⟩ := intt_inverse o _ hO mode1 dst1 x d ncols nphase1 nblock1 hd hnc (by rw [hsz1])
  have hy : y.size = 2 ^ d * ncols := by rw [s1, hsz1]
  have hsz2 : (if mode2 = .other then dst2 else y).size = 2 ^ d * ncols := by
    by_cases h : mode2 = .other
    · rw [if_pos h]; exact hd2 h
    · rw [if_neg h]; exact hy
  obtain ⟨z, e2, _, c2⟩ := ntt_forward o _ hO mode2 dst2 y d ncols nphase2 nblock2 hd hnc (by rw [hsz2])
  refine ⟨y, z, e1, e2, ?_⟩
  intro k c hk hc
  have h2 := c2 k c hk hc
  show cell z ncols k c = cell x ncols k c
  rw [h2, dft_congr _ _ _ (idft (omega d) (2 ^ d) (fun j => cell x ncols j c)) k (fun j hj => c1 j c hj hc),
    dft_idft (omega_prim d hd32) (two_pow_ne_zero d) _ hk]

/-- C04: a null destination means in place — for ALL arguments -/
theorem C04_null_means_in_place (o : Obj) (dstB srcB : Buf) (size ncols nphase nblock : Nat) (extend : Bool) :
    intt o .null dstB srcB size ncols nphase nblock extend = intt o .same dstB srcB size ncols nphase nblock extend :=
  intt_null o dstB srcB size ncols nphase nblock extend

/-- C04: when the destination is a different buffer the source is left unchanged — for ALL arguments -/
theorem C04_source_unchanged (o : Obj) (dstB srcB : Buf) (size ncols nphase nblock : Nat) (d s' : Buf)
    (h : intt o .other dstB srcB size ncols nphase nblock false = .ok (d, s')) : s' = srcB :=
  intt_other_src o dstB srcB size ncols nphase nblock false d s' h

/-- C04: size 0 or zero columns is a no-op -/
theorem C04_noop (o : Obj) (mode : DstMode) (dstB srcB : Buf) (size ncols nphase nblock : Nat)
    (h : ncols = 0 ∨ size = 0) :
    intt o mode dstB srcB size ncols nphase nblock false = .ok (if mode = .other then dstB else srcB, srcB) :=
  intt_noop o mode dstB srcB size ncols nphase nblock false h

/-- non-vacuity: the hypotheses of the round-trip statement are satisfiable (size 8 in an object of size 8, 2 columns,
    forward into another buffer with 3 phases / 2 blocks, inverse in place through a null destination) -/
example : ∃ o y z, mkObj 8 1 = some o ∧
    ntt o .other (Array.replicate (2 ^ 3 * 2) 0#64) (Array.replicate (2 ^ 3 * 2) 5#64) (2 ^ 3) 2 3 2 false false
      = .ok (y, Array.replicate (2 ^ 3 * 2) 5#64) ∧
    intt o .null #[] y (2 ^ 3) 2 1 1 false = .ok (z, z) := by
  obtain ⟨o, ho⟩ := mkObj_some 8 1 (by decide)
  obtain ⟨y, z, e1, e2, _⟩ := C04_intt_of_ntt 8 1 o ho (by omega) 3 (by omega) 2 (by omega) 3 2 1 1 .other .null
    (Array.replicate (2 ^ 3 * 2) 0#64) #[] (Array.replicate (2 ^ 3 * 2) 5#64) (by simp) (by simp) (by simp)
  exact ⟨o, y, z, ho, e1, e2⟩

/-! ### the model GENERATED from ntt_goldilocks.cpp / .hpp (see Props/C03.lean, DESIGN.NTTGEN.md) -/
section generated
open GoldilocksVerif.BridgeNtt Gen.NttGen

/-- generated `INTT` = the model's `intt` (default call shape: no caller scratch buffer, one column block,
    2 ≤ size = 2^K ≤ 2^30) -/
theorem C04_generated_INTT_eq_model (fuel : Nat) (hf : 64 ≤ fuel) (hp : Heap) (self : NTT_Goldilocks) (o : Obj)
    (hrep : ObjRep hp self o) (hin : ObjIn hp self) (D Sx : Nat) (hD : D < hp.size) (hSx : Sx < hp.size) (hD0 : D ≠ 0)
    (hfrD : ObjFrame self D) (mode : DstMode) (hmode : mode = .other ↔ D ≠ Sx)
    (dst : Ptr) (hdst : (if (dst == Ptr.null) = true then (⟨Sx, 0⟩ : Ptr) else dst) = ⟨D, 0⟩)
    (K N NC : Nat) (nphase nblock : BitVec 64) (extend : Bool)
    (hK1 : 1 ≤ K) (hK : K ≤ 30) (hN : N = 2 ^ K) (hKs : K ≤ o.s) (hos : o.s ≤ 32) (hNC1 : 1 ≤ NC)
    (hNNC8 : N * NC * 8 < 2 ^ 64) (hext31 : o.extension < 2 ^ 31) (hcache : extend = true → o.rcache ≠ none)
    (hnb : clampBlock nblock.toNat NC = 1) :
    match intt o mode (hp.block D) (hp.block Sx) N NC nphase.toNat nblock.toNat extend with
    | .ok (d, _) => NTT_INTT fuel hp self dst ⟨Sx, 0⟩ (bv N) (bv NC) Ptr.null nphase nblock extend = some (hp.setBlock D d)
    | .error _ => NTT_INTT fuel hp self dst ⟨Sx, 0⟩ (bv N) (bv NC) Ptr.null nphase nblock extend = none :=
  INTT_gen fuel hf hp self o hrep hin D Sx hD hSx hD0 hfrD mode hmode dst hdst K N NC nphase nblock extend hK1 hK hN hKs hos hNC1
    hNNC8 hext31 hcache hnb

/-- **the property on the generated function**: the TRANSLATED `INTT` returns, changes only the destination block, and
    that block holds the inverse DFT of every column -/
theorem C04_generated_inverse_transform (maxDomainSize extension : Nat) (o : Obj) (hobj : mkObj maxDomainSize extension = some o)
    (hext : extension ≤ 1) (d : Nat) (hd1 : 1 ≤ d) (hd30 : d ≤ 30) (hn : 2 ^ d ≤ maxDomainSize)
    (fuel : Nat) (hf : 64 ≤ fuel) (hp : Heap) (self : NTT_Goldilocks) (hrep : ObjRep hp self o) (hin : ObjIn hp self)
    (D Sx : Nat) (hD : D < hp.size) (hSx : Sx < hp.size) (hD0 : D ≠ 0) (hfrD : ObjFrame self D)
    (mode : DstMode) (hmode : mode = .other ↔ D ≠ Sx)
    (dst : Ptr) (hdst : (if (dst == Ptr.null) = true then (⟨Sx, 0⟩ : Ptr) else dst) = ⟨D, 0⟩)
    (ncols : Nat) (nphase nblock : BitVec 64) (hnc : 1 ≤ ncols) (hbound : 2 ^ d * ncols * 8 < 2 ^ 64)
    (hnb : clampBlock nblock.toNat ncols = 1)
    (hsrc : (hp.block Sx).size = 2 ^ d * ncols) (hdsts : mode = .other → (hp.block D).size = 2 ^ d * ncols) :
    ∃ out, NTT_INTT fuel hp self dst ⟨Sx, 0⟩ (bv (2 ^ d)) (bv ncols) Ptr.null nphase nblock false = some (hp.setBlock D out) ∧
      out.size = 2 ^ d * ncols ∧
      ∀ k c, k < 2 ^ d → c < ncols →
        den (out.getD (k * ncols + c) 0#64)
          = ((2 ^ d : Nat) : F)⁻¹ * ∑ j ∈ range (2 ^ d), den ((hp.block Sx).getD (j * ncols + c) 0#64) * (omega d)⁻¹ ^ (j * k) := by
  have hm : maxDomainSize ≠ 0 := by have := Nat.two_pow_pos d; omega
  obtain ⟨hs1, hs2, hs3⟩ := mkObj_s_val maxDomainSize extension o hm hobj
  have hdl : d ≤ log2 maxDomainSize := (Nat.le_log2 hm).mpr hn
  obtain ⟨out, e, hsz, hdft⟩ := C04_inverse_transform maxDomainSize extension o hobj hext d hn ncols nphase.toNat nblock.toNat
    hnc mode (hp.block D) (hp.block Sx) hsrc hdsts
  have hg := INTT_gen fuel hf hp self o hrep hin D Sx hD hSx hD0 hfrD mode hmode dst hdst d (2 ^ d) ncols nphase nblock false
    hd1 hd30 rfl (by omega) hs2 hnc hbound (by omega) (by intro h; cases h) hnb
  rw [e] at hg
  exact ⟨out, hg, hsz, hdft⟩

/-- **the property on the generated function, caller scratch buffer**: the TRANSLATED `INTT` with a buffer block of at least
    size·ncols words and ANY content returns, changes only the destination and the buffer block, and the destination block
    holds the inverse DFT of every column -/
theorem C04_generated_inverse_transform_buffer (maxDomainSize extension : Nat) (o : Obj)
    (hobj : mkObj maxDomainSize extension = some o) (hext : extension ≤ 1) (d : Nat) (hd1 : 1 ≤ d) (hd30 : d ≤ 30)
    (hn : 2 ^ d ≤ maxDomainSize)
    (fuel : Nat) (hf : 64 ≤ fuel) (hp : Heap) (self : NTT_Goldilocks) (hrep : ObjRep hp self o)
    (D Sx B : Nat) (hD : D < hp.size) (hB : B < hp.size) (hD0 : D ≠ 0) (hB0 : B ≠ 0) (hDB : D ≠ B) (hSB : Sx ≠ B)
    (hfrD : ObjFrame self D) (hfrB : ObjFrame self B)
    (dst : Ptr) (hdst : (if (dst == Ptr.null) = true then (⟨Sx, 0⟩ : Ptr) else dst) = ⟨D, 0⟩)
    (ncols : Nat) (nphase nblock : BitVec 64) (hnc : 1 ≤ ncols) (hbound : 2 ^ d * ncols * 8 < 2 ^ 64)
    (hnb : clampBlock nblock.toNat ncols = 1)
    (hsrc : (hp.block Sx).size = 2 ^ d * ncols) (hdsts : (hp.block D).size = 2 ^ d * ncols)
    (hbuf : 2 ^ d * ncols ≤ (hp.block B).size) :
    ∃ out X', NTT_INTT fuel hp self dst ⟨Sx, 0⟩ (bv (2 ^ d)) (bv ncols) ⟨B, 0⟩ nphase nblock false =
        some ((hp.setBlock D out).setBlock B X') ∧
      out.size = 2 ^ d * ncols ∧
      ∀ k c, k < 2 ^ d → c < ncols →
        den (out.getD (k * ncols + c) 0#64)
          = ((2 ^ d : Nat) : F)⁻¹ * ∑ j ∈ range (2 ^ d), den ((hp.block Sx).getD (j * ncols + c) 0#64) * (omega d)⁻¹ ^ (j * k) := by
  have hm : maxDomainSize ≠ 0 := by have := Nat.two_pow_pos d; omega
  obtain ⟨hs1, hs2, hs3⟩ := mkObj_s_val maxDomainSize extension o hm hobj
  have hdl : d ≤ log2 maxDomainSize := (Nat.le_log2 hm).mpr hn
  have hO := mkObj_ok maxDomainSize extension o hm hext hobj
  obtain ⟨out, e, hsz, hdft⟩ := nttIters_inverse o _ hO (hp.block D) (hp.block Sx) (hp.block B) (decide (D = Sx)) d ncols
    nphase.toNat hdl (by by_cases h : D = Sx <;> simp [h, hsrc, hdsts]) hbuf
  have hg := INTT_gen_buf fuel hf hp self o hrep D Sx B hD hB hD0 hB0 hDB hSB hfrD hfrB dst hdst d (2 ^ d) ncols nphase nblock
    false hd1 hd30 rfl (by omega) hs2 hnc hbound (by omega) (by intro h; cases h) hnb
  rw [e] at hg
  obtain ⟨X', hX, _⟩ := hg
  refine ⟨out, X', hX, ?_, hdft⟩
  rw [hsz]; by_cases h : D = Sx <;> simp [h, hsrc, hdsts]

end generated

/-! ### the generated model, EVERY `nblock` and size 1 (see the section of the same name in Props/C03.lean) -/
section generated_all
open GoldilocksVerif.BridgeNtt Gen.NttGen

/-- generated `INTT` = the model's `intt`, every `nblock`, every size 1 ≤ 2^K ≤ 2^30, bit for bit; nothing but the destination
    block changes.  Fuel: `itersFuel` (64 for K ≥ 1; Props/C03.lean `C03_generated_fuel`) -/
theorem C04_generated_INTT_eq_model_all (fuel : Nat) (hp : Heap) (self : NTT_Goldilocks) (o : Obj)
    (hrep : ObjRep hp self o) (hin : ObjIn hp self) (D Sx : Nat) (hD : D < hp.size) (hSx : Sx < hp.size) (hD0 : D ≠ 0)
    (hfrD : ObjFrame self D) (mode : DstMode) (hmode : mode = .other ↔ D ≠ Sx)
    (dst : Ptr) (hdst : (if (dst == Ptr.null) = true then (⟨Sx, 0⟩ : Ptr) else dst) = ⟨D, 0⟩)
    (K N NC : Nat) (nphase nblock : BitVec 64) (extend : Bool)
    (hK : K ≤ 30) (hN : N = 2 ^ K) (hKs : K ≤ o.s) (hos : o.s ≤ 32) (hNC1 : 1 ≤ NC)
    (hNNC8 : N * NC * 8 < 2 ^ 64) (hext31 : o.extension < 2 ^ 31) (hcache : extend = true → o.rcache ≠ none)
    (hf : itersFuel self K NC ≤ fuel) :
    match intt o mode (hp.block D) (hp.block Sx) N NC nphase.toNat nblock.toNat extend with
    | .ok (d, _) => NTT_INTT fuel hp self dst ⟨Sx, 0⟩ (bv N) (bv NC) Ptr.null nphase nblock extend = some (hp.setBlock D d)
    | .error _ => NTT_INTT fuel hp self dst ⟨Sx, 0⟩ (bv N) (bv NC) Ptr.null nphase nblock extend = none :=
  INTT_gen_all fuel hp self o hrep hin D Sx hD hSx hD0 hfrD mode hmode dst hdst K N NC nphase nblock extend hK hN hKs hos hNC1
    hNNC8 hext31 hcache hf

/-- **the property on the generated function, every `nblock`, every size 1 ≤ 2^d ≤ min(maxDomainSize, 2^30)**: the TRANSLATED
    `INTT` returns, changes only the destination block, and that block holds the inverse DFT of every column -/
theorem C04_generated_inverse_transform_all (maxDomainSize extension : Nat) (o : Obj)
    (hobj : mkObj maxDomainSize extension = some o) (hext : extension ≤ 1) (d : Nat) (hd30 : d ≤ 30) (hn : 2 ^ d ≤ maxDomainSize)
    (fuel : Nat) (hp : Heap) (self : NTT_Goldilocks) (hrep : ObjRep hp self o) (hin : ObjIn hp self)
    (D Sx : Nat) (hD : D < hp.size) (hSx : Sx < hp.size) (hD0 : D ≠ 0) (hfrD : ObjFrame self D)
    (mode : DstMode) (hmode : mode = .other ↔ D ≠ Sx)
    (dst : Ptr) (hdst : (if (dst == Ptr.null) = true then (⟨Sx, 0⟩ : Ptr) else dst) = ⟨D, 0⟩)
    (ncols : Nat) (nphase nblock : BitVec 64) (hnc : 1 ≤ ncols) (hbound : 2 ^ d * ncols * 8 < 2 ^ 64)
    (hsrc : (hp.block Sx).size = 2 ^ d * ncols) (hdsts : mode = .other → (hp.block D).size = 2 ^ d * ncols)
    (hf : itersFuel self d ncols ≤ fuel) :
    ∃ out, NTT_INTT fuel hp self dst ⟨Sx, 0⟩ (bv (2 ^ d)) (bv ncols) Ptr.null nphase nblock false = some (hp.setBlock D out) ∧
      out.size = 2 ^ d * ncols ∧
      ∀ k c, k < 2 ^ d → c < ncols →
        den (out.getD (k * ncols + c) 0#64)
          = ((2 ^ d : Nat) : F)⁻¹ * ∑ j ∈ range (2 ^ d), den ((hp.block Sx).getD (j * ncols + c) 0#64) * (omega d)⁻¹ ^ (j * k) := by
  have hm : maxDomainSize ≠ 0 := by have := Nat.two_pow_pos d; omega
  obtain ⟨hs1, hs2, hs3⟩ := mkObj_s_val maxDomainSize extension o hm hobj
  have hdl : d ≤ log2 maxDomainSize := (Nat.le_log2 hm).mpr hn
  obtain ⟨out, e, hsz, hdft⟩ := C04_inverse_transform maxDomainSize extension o hobj hext d hn ncols nphase.toNat nblock.toNat
    hnc mode (hp.block D) (hp.block Sx) hsrc hdsts
  have hg := INTT_gen_all fuel hp self o hrep hin D Sx hD hSx hD0 hfrD mode hmode dst hdst d (2 ^ d) ncols nphase nblock false
    hd30 rfl (by omega) hs2 hnc hbound (by omega) (by intro h; cases h) hf
  rw [e] at hg
  exact ⟨out, hg, hsz, hdft⟩

/-- generated `INTT` WITH a caller scratch buffer (any content) = the model's `intt`, bit for bit, every `nblock`, every size -/
theorem C04_generated_INTT_buffer_eq_model (fuel : Nat) (hp : Heap) (self : NTT_Goldilocks) (o : Obj)
    (hrep : ObjRep hp self o) (hin : ObjIn hp self) (D Sx B : Nat) (hD : D < hp.size) (hSx : Sx < hp.size) (hB : B < hp.size)
    (hD0 : D ≠ 0) (hB0 : B ≠ 0) (hDB : D ≠ B) (hSB : Sx ≠ B) (hfrD : ObjFrame self D) (hfrB : ObjFrame self B)
    (mode : DstMode) (hmode : mode = .other ↔ D ≠ Sx)
    (dst : Ptr) (hdst : (if (dst == Ptr.null) = true then (⟨Sx, 0⟩ : Ptr) else dst) = ⟨D, 0⟩)
    (K N NC : Nat) (nphase nblock : BitVec 64) (extend : Bool)
    (hK : K ≤ 30) (hN : N = 2 ^ K) (hKs : K ≤ o.s) (hos : o.s ≤ 32) (hNC1 : 1 ≤ NC)
    (hNNC8 : N * NC * 8 < 2 ^ 64) (hext31 : o.extension < 2 ^ 31) (hcache : extend = true → o.rcache ≠ none)
    (hf : itersFuel self K NC ≤ fuel) (hdsz : N * NC ≤ (hp.block D).size) (hbuf : N * NC ≤ (hp.block B).size) :
    match intt o mode (hp.block D) (hp.block Sx) N NC nphase.toNat nblock.toNat extend with
    | .ok (d, _) => ∃ X', NTT_INTT fuel hp self dst ⟨Sx, 0⟩ (bv N) (bv NC) ⟨B, 0⟩ nphase nblock extend =
        some ((hp.setBlock D d).setBlock B X') ∧ X'.size = (hp.block B).size
    | .error _ => NTT_INTT fuel hp self dst ⟨Sx, 0⟩ (bv N) (bv NC) ⟨B, 0⟩ nphase nblock extend = none :=
  INTT_gen_buf_all fuel hp self o hrep hin D Sx B hD hSx hB hD0 hB0 hDB hSB hfrD hfrB mode hmode dst hdst K N NC nphase nblock
    extend hK hN hKs hos hNC1 hNNC8 hext31 hcache hf hdsz hbuf

/-- **the property on the generated function, caller scratch buffer, every `nblock`, every size 1 ≤ 2^d** -/
theorem C04_generated_inverse_transform_buffer_all (maxDomainSize extension : Nat) (o : Obj)
    (hobj : mkObj maxDomainSize extension = some o) (hext : extension ≤ 1) (d : Nat) (hd30 : d ≤ 30)
    (hn : 2 ^ d ≤ maxDomainSize)
    (fuel : Nat) (hp : Heap) (self : NTT_Goldilocks) (hrep : ObjRep hp self o) (hin : ObjIn hp self)
    (D Sx B : Nat) (hD : D < hp.size) (hSx : Sx < hp.size) (hB : B < hp.size) (hD0 : D ≠ 0) (hB0 : B ≠ 0) (hDB : D ≠ B)
    (hSB : Sx ≠ B) (hfrD : ObjFrame self D) (hfrB : ObjFrame self B)
    (mode : DstMode) (hmode : mode = .other ↔ D ≠ Sx)
    (dst : Ptr) (hdst : (if (dst == Ptr.null) = true then (⟨Sx, 0⟩ : Ptr) else dst) = ⟨D, 0⟩)
    (ncols : Nat) (nphase nblock : BitVec 64) (hnc : 1 ≤ ncols) (hbound : 2 ^ d * ncols * 8 < 2 ^ 64)
    (hsrc : (hp.block Sx).size = 2 ^ d * ncols) (hdsts : (hp.block D).size = 2 ^ d * ncols)
    (hbuf : 2 ^ d * ncols ≤ (hp.block B).size) (hf : itersFuel self d ncols ≤ fuel) :
    ∃ out X', NTT_INTT fuel hp self dst ⟨Sx, 0⟩ (bv (2 ^ d)) (bv ncols) ⟨B, 0⟩ nphase nblock false =
        some ((hp.setBlock D out).setBlock B X') ∧
      out.size = 2 ^ d * ncols ∧ X'.size = (hp.block B).size ∧
      ∀ k c, k < 2 ^ d → c < ncols →
        den (out.getD (k * ncols + c) 0#64)
          = ((2 ^ d : Nat) : F)⁻¹ * ∑ j ∈ range (2 ^ d), den ((hp.block Sx).getD (j * ncols + c) 0#64) * (omega d)⁻¹ ^ (j * k) := by
  have hm : maxDomainSize ≠ 0 := by have := Nat.two_pow_pos d; omega
  obtain ⟨hs1, hs2, hs3⟩ := mkObj_s_val maxDomainSize extension o hm hobj
  have hdl : d ≤ log2 maxDomainSize := (Nat.le_log2 hm).mpr hn
  obtain ⟨out, e, hsz, hdft⟩ := C04_inverse_transform maxDomainSize extension o hobj hext d hn ncols nphase.toNat nblock.toNat
    hnc mode (hp.block D) (hp.block Sx) hsrc (fun _ => hdsts)
  have hg := INTT_gen_buf_all fuel hp self o hrep hin D Sx B hD hSx hB hD0 hB0 hDB hSB hfrD hfrB mode hmode dst hdst d (2 ^ d) ncols
    nphase nblock false hd30 rfl (by omega) hs2 hnc hbound (by omega) (by intro h; cases h) hf (by omega) hbuf
  rw [e] at hg
  obtain ⟨X', hX, hXs⟩ := hg
  exact ⟨out, X', hX, hsz, hXs, hdft⟩

end generated_all

end GoldilocksVerif.C04
