import GoldilocksVerif.Model.Ntt
namespace GoldilocksVerif.C04
end GoldilocksVerif.C04
