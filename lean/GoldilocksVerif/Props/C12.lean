/-
  C12 — parallel regions are race-free; results independent of threads and schedule.     LEVEL: PARTIAL BY NATURE.

  What is proved here (all sizes, all team sizes, all orders):
  * `C12_order_independent` (generic, Lemmas/Bernstein.lean): iterations whose footprints satisfy Bernstein's conditions
    pairwise can be executed in ANY order — hence under any assignment to team members, any team size (fewer, equal or
    more members than iterations) and any order of the members — with the same final memory, whatever the loop bodies
    compute inside their footprints.
  * Bernstein's conditions for the footprint of every family of `#pragma omp parallel for` loops of the library
    (20 loops: parcpy/parSetZero; NTT butterfly batches with the transposing / reflecting copy; block scatter; the four
    bit-reversal loops; Merkle leaf and level loops of the six tree builders), for all shapes.
  * parcpy / parSetZero end to end (Props/C17.lean: C17_parcpy for every order of the chunks).
  What is NOT a theorem: that the compiled loop bodies access exactly these footprints (the footprints are hand-written
  from the loops).  That tie is OBSERVED by the C12 check: ThreadSanitizer over a pthread stand-in for the OpenMP runtime
  (real accesses, real happens-before), controlled sequential execution of the team members in permuted orders and team
  sizes (outputs bit-identical to the single-member run), and real libgomp teams of 1,2,3,5,16 threads.
-/
import GoldilocksVerif.Lemmas.Bernstein
import GoldilocksVerif.Lemmas.NttBr
import GoldilocksVerif.Lemmas.ParCopyL

namespace GoldilocksVerif.C12
open GoldilocksVerif GoldilocksVerif.Par

/-- a location: (buffer, index).  Indices are ROWS for the transform loops (a row = `ncols` consecutive words; distinct
    rows are disjoint memory, `C12_rows_disjoint`) and WORDS for the tree builders and the copies. -/
abbrev Loc := Nat × Nat

/-- re-export: any order of pairwise independent iterations gives the same memory -/
theorem C12_order_independent {V : Type} (its its' : List (Iter Loc V)) (hp : its.Perm its')
    (hind : ∀ f ∈ its, ∀ g ∈ its, f ≠ g → Indep f g) (m : Loc → V) : exec its m = exec its' m :=
  order_independent its its' hp hind m

/-- distinct rows of a row-major matrix do not share a word -/
theorem C12_rows_disjoint (ncols r r' x : Nat) (h1 : r * ncols ≤ x) (h2 : x < (r + 1) * ncols)
    (h1' : r' * ncols ≤ x) (h2' : x < (r' + 1) * ncols) : r = r' := by
  rcases Nat.lt_trichotomy r r' with h | h | h
  · have : (r + 1) * ncols ≤ r' * ncols := Nat.mul_le_mul_right _ h
    omega
  · exact h
  · have : (r' + 1) * ncols ≤ r * ncols := Nat.mul_le_mul_right _ h
    omega

/-! ### NTT_iters: butterfly batches (ntt_goldilocks.cpp:81) -/

/-- iteration `b` of a pass with batch size `B`, `nB` batches (size = B·nB): butterflies read and write rows
    `[b·B, (b+1)·B)` of the current buffer `A`; the copy writes rows `σ (x·nB + b)`, `x < B`, of the other buffer `A2`
    (σ = identity: transposing copy; σ = intt_idx: reflecting, scaling copy of the last inverse pass); tables are read-only. -/
def batchR (A : Nat) (tables : Nat → Prop) (B b : Nat) : Loc → Prop :=
  fun l => (l.1 = A ∧ b * B ≤ l.2 ∧ l.2 < (b + 1) * B) ∨ tables l.1
def batchW (A A2 : Nat) (σ : Nat → Nat) (B nB b : Nat) : Loc → Prop :=
  fun l => (l.1 = A ∧ b * B ≤ l.2 ∧ l.2 < (b + 1) * B) ∨ (l.1 = A2 ∧ ∃ x, x < B ∧ l.2 = σ (x * nB + b))

theorem C12_ntt_batches (A A2 : Nat) (tables : Nat → Prop) (σ : Nat → Nat) (B nB : Nat) (hA : A ≠ A2)
    (hT : ¬ tables A ∧ ¬ tables A2)
    (hσ : ∀ i j, i < B * nB → j < B * nB → σ i = σ j → i = j)
    (b b' : Nat) (hb : b < nB) (hb' : b' < nB) (hne : b ≠ b') :
    FootIndep (batchR A tables B b) (batchW A A2 σ B nB b) (batchR A tables B b') (batchW A A2 σ B nB b') := by
  have rows : ∀ r, ¬ ((b * B ≤ r ∧ r < (b + 1) * B) ∧ (b' * B ≤ r ∧ r < (b' + 1) * B)) := by
    rintro r ⟨⟨h1, h2⟩, ⟨h3, h4⟩⟩
    exact hne (C12_rows_disjoint B b b' r h1 h2 h3 h4)
  have idx : ∀ x x', x < B → x' < B → σ (x * nB + b) = σ (x' * nB + b') → False := by
    intro x x' hx hx' e
    have bound : ∀ y c, y < B → c < nB → y * nB + c < B * nB := by
      intro y c hy hc
      have : (y + 1) * nB ≤ B * nB := Nat.mul_le_mul_right _ hy
      rw [Nat.add_mul] at this; omega
    have := hσ _ _ (bound x b hx hb) (bound x' b' hx' hb') e
    have m1 : (x * nB + b) % nB = b := by rw [Nat.mul_comm, Nat.mul_add_mod]; exact Nat.mod_eq_of_lt hb
    have m2 : (x' * nB + b') % nB = b' := by rw [Nat.mul_comm, Nat.mul_add_mod]; exact Nat.mod_eq_of_lt hb'
    rw [this, m2] at m1
    exact hne m1.symm
  refine ⟨?_, ?_, ?_⟩
  · rintro ⟨buf, r⟩ ⟨h1 | h1, h2 | h2⟩
    · exact rows r ⟨h1.2, h2.2⟩
    · exact hA (h1.1.symm.trans h2.1)
    · exact hA (h2.1.symm.trans h1.1)
    · obtain ⟨x, hx, e⟩ := h1.2
      obtain ⟨x', hx', e'⟩ := h2.2
      exact idx x x' hx hx' (e.symm.trans e')
  · rintro ⟨buf, r⟩ ⟨h1 | h1, h2 | h2⟩
    · exact rows r ⟨h1.2, h2.2⟩
    · simp only at h1 h2; rw [h1.1] at h2; exact hT.1 h2
    · exact hA (h2.1.symm.trans h1.1)
    · simp only at h1 h2; rw [h1.1] at h2; exact hT.2 h2
  · rintro ⟨buf, r⟩ ⟨h1 | h1, h2 | h2⟩
    · exact rows r ⟨h2.2, h1.2⟩
    · simp only at h1 h2; rw [h1.1] at h2; exact hT.1 h2
    · exact hA (h2.1.symm.trans h1.1)
    · simp only at h1 h2; rw [h1.1] at h2; exact hT.2 h2

/-- `intt_idx(i, N) = (N − i) mod N` is injective on `[0, N)`: the reflecting copy of the last inverse pass writes
    distinct rows -/
def inttIdx (i N : Nat) : Nat := if N - i = N then 0 else N - i

theorem C12_inttIdx_inj (N i j : Nat) (hi : i < N) (hj : j < N) (h : inttIdx i N = inttIdx j N) : i = j := by
  unfold inttIdx at h
  split at h <;> split at h <;> omega

/-! ### block scatter (ntt_goldilocks.cpp:219), out-of-place bit reversal (254, 267) -/

/-- iteration `i` reads row `ρ i` of `S` and writes row `i` of `D`, `S ≠ D` (scatter: ρ = id; reversal: ρ = BR) -/
theorem C12_row_to_row (S D : Nat) (ρ : Nat → Nat) (hSD : S ≠ D) (i i' : Nat) (hne : i ≠ i') :
    FootIndep (fun l : Loc => l = (S, ρ i)) (fun l : Loc => l = (D, i))
              (fun l : Loc => l = (S, ρ i')) (fun l : Loc => l = (D, i')) := by
  refine ⟨?_, ?_, ?_⟩
  · rintro l ⟨h1, h2⟩; rw [h1] at h2; exact hne (Prod.mk.inj h2).2
  · rintro l ⟨h1, h2⟩; rw [h1] at h2; exact hSD (Prod.mk.inj h2).1.symm
  · rintro l ⟨h1, h2⟩; rw [h1] at h2; exact hSD (Prod.mk.inj h2).1.symm

/-! ### in-place bit reversal (ntt_goldilocks.cpp:289, 311): swaps only when `r < i` -/

/-- iteration `i` of the in-place loops on `2^d` rows: with `r = bitrev d i` it touches rows `i` and `r` when `r < i`,
    row `i` alone when `r = i` (the zero-extending variant clears it), nothing when `r > i` -/
def swapFoot (D d i : Nat) : Loc → Prop :=
  fun l => l.1 = D ∧ ((Model.Ntt.bitrev d i < i ∧ (l.2 = i ∨ l.2 = Model.Ntt.bitrev d i)) ∨ (Model.Ntt.bitrev d i = i ∧ l.2 = i))

theorem C12_inplace_reversal (D d i i' : Nat) (hi : i < 2 ^ d) (hi' : i' < 2 ^ d) (hne : i ≠ i') :
    FootIndep (swapFoot D d i) (swapFoot D d i) (swapFoot D d i') (swapFoot D d i') := by
  have key : ∀ l, ¬ (swapFoot D d i l ∧ swapFoot D d i' l) := by
    rintro ⟨buf, x⟩ ⟨⟨_, h1⟩, ⟨_, h2⟩⟩
    have bb := Model.Ntt.bitrev_bitrev d i hi
    have bb' := Model.Ntt.bitrev_bitrev d i' hi'
    simp only at h1 h2
    rcases h1 with ⟨hlt, rfl | rfl⟩ | ⟨heq, rfl⟩
    · rcases h2 with ⟨hlt', e | e⟩ | ⟨heq', e⟩
      · exact hne e
      · -- i = bitrev i'  ⇒  bitrev i = i'
        rw [e, bb'] at hlt; rw [← e] at hlt'; omega
      · exact hne e
    · rcases h2 with ⟨hlt', e | e⟩ | ⟨heq', e⟩
      · -- bitrev i = i'
        rw [← e, bb] at hlt'; rw [e] at hlt; omega
      · exact hne (Model.Ntt.bitrev_inj d i i' hi hi' e)
      · rw [← e, bb] at heq'; rw [heq'] at hlt; omega
    · rcases h2 with ⟨hlt', e | e⟩ | ⟨heq', e⟩
      · exact hne e
      · rw [e, bb'] at heq; rw [← heq] at hlt'; omega
      · exact hne e
  exact ⟨key, key, fun l h => key l ⟨h.2, h.1⟩⟩

/-- the loop's `BR(i, domainPow)` IS `bitrev` for every domain up to 2^32 -/
theorem C12_BR_is_bitrev (d i : Nat) (hd : d ≤ 32) (hi : i < 2 ^ d) : Model.Ntt.br i d = Model.Ntt.bitrev d i :=
  Model.Ntt.br_eq_bitrev d i hd hi

/-! ### Merkle builders (poseidon_goldilocks.cpp:87-163, 277-351, 495-587): leaves, then level by level -/

/-- leaf loop, `k` rows per iteration (1; 2 for the AVX512 builders): iteration `i` reads its `k` input rows and writes
    the `4k` words `[4k·i, 4k·(i+1))` of the tree; per-iteration stack buffers are private -/
theorem C12_merkle_leaves (T I k w i i' : Nat) (hTI : T ≠ I) (hne : i ≠ i') :
    FootIndep (fun l : Loc => l.1 = I ∧ i * (k * w) ≤ l.2 ∧ l.2 < (i + 1) * (k * w))
              (fun l : Loc => l.1 = T ∧ i * (4 * k) ≤ l.2 ∧ l.2 < (i + 1) * (4 * k))
              (fun l : Loc => l.1 = I ∧ i' * (k * w) ≤ l.2 ∧ l.2 < (i' + 1) * (k * w))
              (fun l : Loc => l.1 = T ∧ i' * (4 * k) ≤ l.2 ∧ l.2 < (i' + 1) * (4 * k)) := by
  refine ⟨?_, ?_, ?_⟩
  · rintro ⟨b, x⟩ ⟨⟨_, h1, h2⟩, ⟨_, h3, h4⟩⟩
    exact hne (C12_rows_disjoint (4 * k) i i' x h1 h2 h3 h4)
  · rintro ⟨b, x⟩ ⟨⟨h1, _⟩, ⟨h2, _⟩⟩; exact hTI (h1.symm.trans h2)
  · rintro ⟨b, x⟩ ⟨⟨h1, _⟩, ⟨h2, _⟩⟩; exact hTI (h1.symm.trans h2)

/-- level loop on a level of `p` nodes stored from word `base`, `k` parent nodes per iteration, `n` iterations with
    `2·k·n ≤ p`: iteration `i` reads the `8k` words `[base + 8k·i, base + 8k·(i+1))` of level L and writes the `4k` words
    `[base + 4p + 4k·i, base + 4p + 4k·(i+1))` of level L+1 — the write region starts where the read region ends -/
theorem C12_merkle_level (T base p k n i i' : Nat) (hn : 2 * k * n ≤ p) (hi : i < n) (hi' : i' < n) (hne : i ≠ i') :
    FootIndep (fun l : Loc => l.1 = T ∧ base + i * (8 * k) ≤ l.2 ∧ l.2 < base + (i + 1) * (8 * k))
              (fun l : Loc => l.1 = T ∧ base + 4 * p + i * (4 * k) ≤ l.2 ∧ l.2 < base + 4 * p + (i + 1) * (4 * k))
              (fun l : Loc => l.1 = T ∧ base + i' * (8 * k) ≤ l.2 ∧ l.2 < base + (i' + 1) * (8 * k))
              (fun l : Loc => l.1 = T ∧ base + 4 * p + i' * (4 * k) ≤ l.2 ∧ l.2 < base + 4 * p + (i' + 1) * (4 * k)) := by
  have rd_end : ∀ j, j < n → (j + 1) * (8 * k) ≤ 4 * p := by
    intro j hj
    have h1 : (j + 1) * (8 * k) ≤ n * (8 * k) := Nat.mul_le_mul_right _ hj
    have h2 : n * (8 * k) = 4 * (2 * k * n) := by
      rw [Nat.mul_comm n (8 * k), show 8 * k = 4 * (2 * k) by omega, Nat.mul_assoc]
    omega
  refine ⟨?_, ?_, ?_⟩
  · rintro ⟨b, x⟩ ⟨⟨_, h1, h2⟩, ⟨_, h3, h4⟩⟩
    simp only at h1 h2 h3 h4
    exact hne (C12_rows_disjoint (4 * k) i i' (x - (base + 4 * p)) (by omega) (by omega) (by omega) (by omega))
  · rintro ⟨b, x⟩ ⟨⟨_, h1, _⟩, ⟨_, _, h4⟩⟩
    simp only at h1 h4
    have := rd_end i' hi'
    omega
  · rintro ⟨b, x⟩ ⟨⟨_, h1, _⟩, ⟨_, _, h4⟩⟩
    simp only at h1 h4
    have := rd_end i hi
    omega

/-! ### parcpy / parSetZero (goldilocks_base_field.cpp:72, 93) -/

open ParCopy in
/-- two different chunk iterations touch disjoint parts of `dst` (and read `src ≠ dst`) -/
theorem C12_parcpy_chunks (Dst Src size : Nat) (nt : Int) (i i' : Nat) (hSD : Src ≠ Dst)
    (hi : i ∈ starts size nt) (hi' : i' ∈ starts size nt) (hne : i ≠ i') :
    FootIndep (fun l : Loc => l.1 = Src ∧ i ≤ l.2 ∧ l.2 < i + len size nt i)
              (fun l : Loc => l.1 = Dst ∧ i ≤ l.2 ∧ l.2 < i + len size nt i)
              (fun l : Loc => l.1 = Src ∧ i' ≤ l.2 ∧ l.2 < i' + len size nt i')
              (fun l : Loc => l.1 = Dst ∧ i' ≤ l.2 ∧ l.2 < i' + len size nt i') := by
  refine ⟨?_, ?_, ?_⟩
  · rintro ⟨b, x⟩ ⟨⟨_, h1⟩, ⟨_, h2⟩⟩
    exact chunks_disjoint size nt i i' hi hi' hne x ⟨h1, h2⟩
  · rintro ⟨b, x⟩ ⟨⟨h1, _⟩, ⟨h2, _⟩⟩; exact hSD (h2.symm.trans h1)
  · rintro ⟨b, x⟩ ⟨⟨h1, _⟩, ⟨h2, _⟩⟩; exact hSD (h2.symm.trans h1)

-- the hypotheses are satisfiable: two batches of a pass on 8 rows, B = 4, nB = 2, identity copy
example : FootIndep (batchR 0 (· = 9) 4 0) (batchW 0 1 id 4 2 0) (batchR 0 (· = 9) 4 1) (batchW 0 1 id 4 2 1) :=
  C12_ntt_batches 0 1 (· = 9) id 4 2 (by decide) (by decide) (fun _ _ _ _ h => h) 0 1 (by decide) (by decide) (by decide)

end GoldilocksVerif.C12
