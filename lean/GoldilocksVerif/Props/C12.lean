/-
  C12 — parallel regions are race-free; results independent of threads and schedule.     LEVEL: PARTIAL BY NATURE.

  What is proved here (all sizes, all team sizes, all orders):
  * `C12_order_independent` (generic, Lemmas/Bernstein.lean): iterations whose footprints satisfy Bernstein's conditions
    pairwise can be executed in ANY order — hence under any assignment to team members, any team size (fewer, equal or
    more members than iterations) and any order of the members — with the same final memory, whatever the loop bodies
    compute inside their footprints.
  * Bernstein's conditions for the footprint of every family of `#pragma omp parallel for` loops of the library
    (20 loops: parcpy/parSetZero; NTT butterfly batches with the transposing / reflecting copy; block scatter; the four
    bit-reversal loops; Merkle leaf and level loops of the six tree builders), for all shapes.
  * parcpy / parSetZero end to end (Props/C17.lean: C17_parcpy for every order of the chunks).
  * THE EXECUTABLE MODEL'S LOOPS HAVE THESE FOOTPRINTS (`C12_model_…`, second half of the file).  The hand model of the
    transforms (Model/Ntt.lean, tied to the C++ by the differential campaigns of C03/C04/C05/C19) runs every parallel
    loop as a sequential fold of a named body.  For these bodies, derived from the model's definitions with NO
    hypothesis on the buffers (Lemmas/NttPar*.lean):
      - butterfly batches: `passBatch … b` changes only the rows `[b·B,(b+1)·B)` of `a` and the rows `σ(x·nB+b)` of `a2`,
        and what it leaves there depends only on the rows `[b·B,(b+1)·B)` of `a` (`C12_model_batch_frame/_dep`); its
        footprints are, word for word, `batchR`/`batchW` (`C12_model_batch_footprint`), hence by `C12_ntt_batches`
        two batches are independent (`C12_model_batches_indep`) and the batches of a pass can be folded in ANY order
        (`C12_model_batches_any_order`, no side condition; `C12_model_pass_any_order`);
      - block scatter, out-of-place bit reversal (both variants), in-place bit reversal (both variants, 2^d rows, d ≤ 32):
        rows in any order (`C12_model_scatter_any_order` [column block inside a row], `C12_model_reversal_out_any_order`,
        `C12_model_reversal_inplace_any_order`), through `C12_row_to_row` / `C12_inplace_reversal`;
      - whole calls: `NTT_iters`, `NTT`, `INTT`, `extendPol` with EVERY parallel loop of every column block in an
        arbitrary order give the model's result, aborts included (`C12_model_nttIters_any_order`, `C12_model_ntt_any_order`,
        `C12_model_intt_any_order`, `C12_model_extendPol_any_order`; log2 size ≤ 32).  The order-parametrised texts
        (`nttItersIn`, `nttIn`, …, Lemmas/NttParIters.lean) are copies of the model's functions with folds over given
        lists; `nttIters_eq_with` shows by `rfl` that the model's `nttIters` is the same text.
      - Merkle: the model (Model/Sponge.lean) is purely functional (no indexed writes), so: (i) each word of a level is a
        function of the two children of its node only (`C12_model_merkle_dependency`); (ii) an imperative rendering of
        the leaf / level loops on one tree buffer (Lemmas/MerklePar.lean, hand-written, not executed against the C++) has
        the footprints of `C12_merkle_leaves` / `C12_merkle_level`, runs in any order, and fills the buffer with the
        model's `merkleTree` (`C12_model_merkle_leaves_any_order`, `_level_any_order`, `_tree_any_order`).
    Order independence is at ITERATION granularity (any assignment of iterations to members, any order); interleavings of
    individual accesses follow from the disjointness of the footprints, as before.
  * THE GENERATED LOOP BODIES (`C12_generated_…`, last part of the file).  The NTT source (Gen/NttGen.lean, heap mode) and
    the Merkle builders (Gen/MerkleGen.lean) are TRANSLATED from the C++ on every run; an `omp parallel for` loop becomes
    `Loop.rangeM 0 n 1 s body`, `body` = the lifted loop body `<fn>_loopK`.  `ParGen.inOrder body l s` (Lemmas/ParGen.lean)
    runs that same body over the index list `l`; `ParGen.rangeM_eq_inOrder`: the generated loop is `inOrder body (range n)`.
    Proved, each in the form  `l.Perm (range n) → inOrder body l s = Loop.rangeM 0 n 1 s body  ∧  the loop returns`,
    for EVERY state `s` (heap / tree buffer) the loop is entered with:
      - NTT_iters butterfly batches `NTT_NTT_iters_loop9` (`C12_generated_batches_any_order`, `_value`), through the
        per-iteration bridge `passBatch_gen` + `C12_model_batches_any_order`; parameters as the generated pass loop passes
        them (`BridgeNtt.pass_step`), N = 2^K ≤ 2^30 rows, object tables represented in the heap;
        `C12_generated_pass_any_order`: one iteration of the generated pass loop `NTT_NTT_iters_loop10` (schedule arithmetic,
        batch loop, pointer swap) continues with the heap that the batch body, with the arguments the pass computes, run
        over ANY permutation of the batches returns;
      - block scatter `NTT_NTT_loop1` (`C12_generated_scatter_any_order`; per-iteration bridge new, the scatter loop is not
        bridged elsewhere), the four `reversePermutation` loops `NTT_reversePermutation_loop1…4`
        (`C12_generated_reversal_out/_out_ext/_inplace/_inplace_ext_any_order`; the in-place ones allocate and free their
        temporary row block inside the iteration), size = 2^k, k ≤ 32, index products below 2^64;
        `C12_generated_reversePermutation_any_order`: the translated FUNCTION `NTT_reversePermutation` (when its assert holds)
        returns what its own loop body — the loop and the arguments it selects, `revLoopBody` — run over ANY permutation
        of the rows returns;
      - `parcpy` (`C12_generated_parcpy_any_order`): the chunk loop is a `Loop.whileM` on `(heap, i)`; the lifted body run for
        the chunk starting at `i` (`ParGen.chunkBody`) over any permutation of `ParCopy.starts` = the generated `parcpy`
        (which `ParGen.parcpy_seq` shows to visit exactly these starts); uses `C12_parcpy_chunks`; `parSetZero`
        (`C12_generated_parSetZero_any_order`, Gen/ParZeroGen.lean, Lemmas/ParGenZero.lean): the same for the chunked `memset`;
      - Merkle: leaf loops and level loops of all six translated builders (`C12_generated_merkletree_*`), by frame +
        dependency of the generated bodies on the ONE tree `Region` (Lemmas/ParGenMerkle.lean) and `C12_merkle_leaves` /
        `C12_merkle_level`; the hypotheses on the hashes are discharged by the bridge (`C12_linear_hash_*`, `hash_*_node`).
        No shape hypothesis for the leaf loops of seq / avx / avx512; `merkletree_batch_avx512` leaf loop for 2^(k+1) rows.
    So the order theorems are re-checked against what the loop bodies say NOW: a change of a loop body changes Gen/*.lean and
    breaks the per-iteration lemma of that loop (Lemmas/BridgeNtt*.lean, ParGen*.lean) or the `rfl` instance.
    Granularity: one loop at a time, from an arbitrary state (hence every dynamic instance of the loop inside the translated
    function, when the side conditions hold there); no order-parametrised copy of the generated functions is made (it
    would not be regenerated): whole calls with every loop permuted are `C12_model_ntt_any_order` etc. for the hand model,
    to which the bridge (`NTT_gen`, `nttIters_gen`) ties the translated functions.
  What is NOT a theorem: (a) that the COMPILED code is the translated code (translator + clang AST are trusted for that; tied
  by the differential campaigns of C03/C04/C05/C08/C19, which execute the generated model against the binary); (b) freedom
  from data races at ACCESS granularity for the generated bodies: the translated bodies are functions on the memory state,
  so the theorems are about results at iteration granularity (a read whose value never influences the result is invisible
  to them); the explicit read/write footprints are proved for the hand model's bodies and, for Merkle / parcpy, for the
  generated ones (frame + dependency), and interleavings follow from their disjointness.
  The compiled accesses themselves are therefore still OBSERVED by the C12 check: ThreadSanitizer over a pthread stand-in for the
  OpenMP runtime (real accesses, real happens-before), controlled sequential execution of the team members in permuted
  orders and team sizes (outputs bit-identical to the single-member run), and real libgomp teams of 1,2,3,5,16 threads.
-/
import GoldilocksVerif.Lemmas.Bernstein
import GoldilocksVerif.Lemmas.NttBr
import GoldilocksVerif.Lemmas.ParCopyL
import GoldilocksVerif.Lemmas.NttParBatch
import GoldilocksVerif.Lemmas.NttParRev
import GoldilocksVerif.Lemmas.NttParIters
import GoldilocksVerif.Lemmas.NttTop
import GoldilocksVerif.Lemmas.MerklePar
import GoldilocksVerif.Lemmas.BridgeNttIters
import GoldilocksVerif.Lemmas.ParGenNtt
import GoldilocksVerif.Lemmas.ParGenCopy
import GoldilocksVerif.Lemmas.ParGenZero
import GoldilocksVerif.Lemmas.ParGenMerkle
import GoldilocksVerif.Lemmas.BridgePerm
import GoldilocksVerif.Lemmas.BridgeMerkleAvx
import GoldilocksVerif.Lemmas.BridgeMerkle512

namespace GoldilocksVerif.C12
open GoldilocksVerif GoldilocksVerif.Par

/-- a location: (buffer, index).  Indices are ROWS for the transform loops (a row = `ncols` consecutive words; distinct
    rows are disjoint memory, `C12_rows_disjoint`) and WORDS for the tree builders and the copies. -/
abbrev Loc := Nat × Nat

/-- re-export: any order of pairwise independent iterations gives the same memory -/
theorem C12_order_independent {V : Type} (its its' : List (Iter Loc V)) (hp : its.Perm its')
    (hind : ∀ f ∈ its, ∀ g ∈ its, f ≠ g → Indep f g) (m : Loc → V) : exec its m = exec its' m :=
  order_independent its its' hp hind m

/-- distinct rows of a row-major matrix do not share a word -/
theorem C12_rows_disjoint (ncols r r' x : Nat) (h1 : r * ncols ≤ x) (h2 : x < (r + 1) * ncols)
    (h1' : r' * ncols ≤ x) (h2' : x < (r' + 1) * ncols) : r = r' := by
  rcases Nat.lt_trichotomy r r' with h | h | h
  · have : (r + 1) * ncols ≤ r' * ncols := Nat.mul_le_mul_right _ h
    omega
  · exact h
  · have : (r' + 1) * ncols ≤ r * ncols := Nat.mul_le_mul_right _ h
    omega

/-! ### NTT_iters: butterfly batches (ntt_goldilocks.cpp:81) -/

/-- iteration `b` of a pass with batch size `B`, `nB` batches (size = B·nB): butterflies read and write rows
    `[b·B, (b+1)·B)` of the current buffer `A`; the copy writes rows `σ (x·nB + b)`, `x < B`, of the other buffer `A2`
    (σ = identity: transposing copy; σ = intt_idx: reflecting, scaling copy of the last inverse pass); tables are read-only. -/
def batchR (A : Nat) (tables : Nat → Prop) (B b : Nat) : Loc → Prop :=
  fun l => (l.1 = A ∧ b * B ≤ l.2 ∧ l.2 < (b + 1) * B) ∨ tables l.1
def batchW (A A2 : Nat) (σ : Nat → Nat) (B nB b : Nat) : Loc → Prop :=
  fun l => (l.1 = A ∧ b * B ≤ l.2 ∧ l.2 < (b + 1) * B) ∨ (l.1 = A2 ∧ ∃ x, x < B ∧ l.2 = σ (x * nB + b))

theorem C12_ntt_batches (A A2 : Nat) (tables : Nat → Prop) (σ : Nat → Nat) (B nB : Nat) (hA : A ≠ A2)
    (hT : ¬ tables A ∧ ¬ tables A2)
    (hσ : ∀ i j, i < B * nB → j < B * nB → σ i = σ j → i = j)
    (b b' : Nat) (hb : b < nB) (hb' : b' < nB) (hne : b ≠ b') :
    FootIndep (batchR A tables B b) (batchW A A2 σ B nB b) (batchR A tables B b') (batchW A A2 σ B nB b') := by
  have rows : ∀ r, ¬ ((b * B ≤ r ∧ r < (b + 1) * B) ∧ (b' * B ≤ r ∧ r < (b' + 1) * B)) := by
    rintro r ⟨⟨h1, h2⟩, ⟨h3, h4⟩⟩
    exact hne (C12_rows_disjoint B b b' r h1 h2 h3 h4)
  have idx : ∀ x x', x < B → x' < B → σ (x * nB + b) = σ (x' * nB + b') → False := by
    intro x x' hx hx' e
    have bound : ∀ y c, y < B → c < nB → y * nB + c < B * nB := by
      intro y c hy hc
      have : (y + 1) * nB ≤ B * nB := Nat.mul_le_mul_right _ hy
      rw [Nat.add_mul] at this; omega
    have := hσ _ _ (bound x b hx hb) (bound x' b' hx' hb') e
    have m1 : (x * nB + b) % nB = b := by rw [Nat.mul_comm, Nat.mul_add_mod]; exact Nat.mod_eq_of_lt hb
    have m2 : (x' * nB + b') % nB = b' := by rw [Nat.mul_comm, Nat.mul_add_mod]; exact Nat.mod_eq_of_lt hb'
    rw [this, m2] at m1
    exact hne m1.symm
  refine ⟨?_, ?_, ?_⟩
  · rintro ⟨buf, r⟩ ⟨h1 | h1, h2 | h2⟩
    · exact rows r ⟨h1.2, h2.2⟩
    · exact hA (h1.1.symm.trans h2.1)
    · exact hA (h2.1.symm.trans h1.1)
    · obtain ⟨x, hx, e⟩ := h1.2
      obtain ⟨x', hx', e'⟩ := h2.2
      exact idx x x' hx hx' (e.symm.trans e')
  · rintro ⟨buf, r⟩ ⟨h1 | h1, h2 | h2⟩
    · exact rows r ⟨h1.2, h2.2⟩
    · simp only at h1 h2; rw [h1.1] at h2; exact hT.1 h2
    · exact hA (h2.1.symm.trans h1.1)
    · simp only at h1 h2; rw [h1.1] at h2; exact hT.2 h2
  · rintro ⟨buf, r⟩ ⟨h1 | h1, h2 | h2⟩
    · exact rows r ⟨h2.2, h1.2⟩
    · simp only at h1 h2; rw [h1.1] at h2; exact hT.1 h2
    · exact hA (h2.1.symm.trans h1.1)
    · simp only at h1 h2; rw [h1.1] at h2; exact hT.2 h2

/-- `intt_idx(i, N) = (N − i) mod N` is injective on `[0, N)`: the reflecting copy of the last inverse pass writes
    distinct rows -/
def inttIdx (i N : Nat) : Nat := if N - i = N then 0 else N - i

theorem C12_inttIdx_inj (N i j : Nat) (hi : i < N) (hj : j < N) (h : inttIdx i N = inttIdx j N) : i = j := by
  unfold inttIdx at h
  split at h <;> split at h <;> omega

/-! ### block scatter (ntt_goldilocks.cpp:219), out-of-place bit reversal (254, 267) -/

/-- iteration `i` reads row `ρ i` of `S` and writes row `i` of `D`, `S ≠ D` (scatter: ρ = id; reversal: ρ = BR) -/
theorem C12_row_to_row (S D : Nat) (ρ : Nat → Nat) (hSD : S ≠ D) (i i' : Nat) (hne : i ≠ i') :
    FootIndep (fun l : Loc => l = (S, ρ i)) (fun l : Loc => l = (D, i))
              (fun l : Loc => l = (S, ρ i')) (fun l : Loc => l = (D, i')) := by
  refine ⟨?_, ?_, ?_⟩
  · rintro l ⟨h1, h2⟩; rw [h1] at h2; exact hne (Prod.mk.inj h2).2
  · rintro l ⟨h1, h2⟩; rw [h1] at h2; exact hSD (Prod.mk.inj h2).1.symm
  · rintro l ⟨h1, h2⟩; rw [h1] at h2; exact hSD (Prod.mk.inj h2).1.symm

/-! ### in-place bit reversal (ntt_goldilocks.cpp:289, 311): swaps only when `r < i` -/

/-- iteration `i` of the in-place loops on `2^d` rows: with `r = bitrev d i` it touches rows `i` and `r` when `r < i`,
    row `i` alone when `r = i` (the zero-extending variant clears it), nothing when `r > i` -/
def swapFoot (D d i : Nat) : Loc → Prop :=
  fun l => l.1 = D ∧ ((Model.Ntt.bitrev d i < i ∧ (l.2 = i ∨ l.2 = Model.Ntt.bitrev d i)) ∨ (Model.Ntt.bitrev d i = i ∧ l.2 = i))

theorem C12_inplace_reversal (D d i i' : Nat) (hi : i < 2 ^ d) (hi' : i' < 2 ^ d) (hne : i ≠ i') :
    FootIndep (swapFoot D d i) (swapFoot D d i) (swapFoot D d i') (swapFoot D d i') := by
  have key : ∀ l, ¬ (swapFoot D d i l ∧ swapFoot D d i' l) := by
    rintro ⟨buf, x⟩ ⟨⟨_, h1⟩, ⟨_, h2⟩⟩
    have bb := Model.Ntt.bitrev_bitrev d i hi
    have bb' := Model.Ntt.bitrev_bitrev d i' hi'
    simp only at h1 h2
    rcases h1 with ⟨hlt, rfl | rfl⟩ | ⟨heq, rfl⟩
    · rcases h2 with ⟨hlt', e | e⟩ | ⟨heq', e⟩
      · exact hne e
      · -- i = bitrev i'  ⇒  bitrev i = i'
        rw [e, bb'] at hlt; rw [← e] at hlt'; omega
      · exact hne e
    · rcases h2 with ⟨hlt', e | e⟩ | ⟨heq', e⟩
      · -- bitrev i = i'
        rw [← e, bb] at hlt'; rw [e] at hlt; omega
      · exact hne (Model.Ntt.bitrev_inj d i i' hi hi' e)
      · rw [← e, bb] at heq'; rw [heq'] at hlt; omega
    · rcases h2 with ⟨hlt', e | e⟩ | ⟨heq', e⟩
      · exact hne e
      · rw [e, bb'] at heq; rw [← heq] at hlt'; omega
      · exact hne e
  exact ⟨key, key, fun l h => key l ⟨h.2, h.1⟩⟩

/-- the loop's `BR(i, domainPow)` IS `bitrev` for every domain up to 2^32 -/
theorem C12_BR_is_bitrev (d i : Nat) (hd : d ≤ 32) (hi : i < 2 ^ d) : Model.Ntt.br i d = Model.Ntt.bitrev d i :=
  Model.Ntt.br_eq_bitrev d i hd hi

/-! ### Merkle builders (poseidon_goldilocks.cpp:87-163, 277-351, 495-587): leaves, then level by level -/

/-- leaf loop, `k` rows per iteration (1; 2 for the AVX512 builders): iteration `i` reads its `k` input rows and writes
    the `4k` words `[4k·i, 4k·(i+1))` of the tree; per-iteration stack buffers are private -/
theorem C12_merkle_leaves (T I k w i i' : Nat) (hTI : T ≠ I) (hne : i ≠ i') :
    FootIndep (fun l : Loc => l.1 = I ∧ i * (k * w) ≤ l.2 ∧ l.2 < (i + 1) * (k * w))
              (fun l : Loc => l.1 = T ∧ i * (4 * k) ≤ l.2 ∧ l.2 < (i + 1) * (4 * k))
              (fun l : Loc => l.1 = I ∧ i' * (k * w) ≤ l.2 ∧ l.2 < (i' + 1) * (k * w))
              (fun l : Loc => l.1 = T ∧ i' * (4 * k) ≤ l.2 ∧ l.2 < (i' + 1) * (4 * k)) := by
  refine ⟨?_, ?_, ?_⟩
  · rintro ⟨b, x⟩ ⟨⟨_, h1, h2⟩, ⟨_, h3, h4⟩⟩
    exact hne (C12_rows_disjoint (4 * k) i i' x h1 h2 h3 h4)
  · rintro ⟨b, x⟩ ⟨⟨h1, _⟩, ⟨h2, _⟩⟩; exact hTI (h1.symm.trans h2)
  · rintro ⟨b, x⟩ ⟨⟨h1, _⟩, ⟨h2, _⟩⟩; exact hTI (h1.symm.trans h2)

/-- level loop on a level of `p` nodes stored from word `base`, `k` parent nodes per iteration, `n` iterations with
    `2·k·n ≤ p`: iteration `i` reads the `8k` words `[base + 8k·i, base + 8k·(i+1))` of level L and writes the `4k` words
    `[base + 4p + 4k·i, base + 4p + 4k·(i+1))` of level L+1 — the write region starts where the read region ends -/
theorem C12_merkle_level (T base p k n i i' : Nat) (hn : 2 * k * n ≤ p) (hi : i < n) (hi' : i' < n) (hne : i ≠ i') :
    FootIndep (fun l : Loc => l.1 = T ∧ base + i * (8 * k) ≤ l.2 ∧ l.2 < base + (i + 1) * (8 * k))
              (fun l : Loc => l.1 = T ∧ base + 4 * p + i * (4 * k) ≤ l.2 ∧ l.2 < base + 4 * p + (i + 1) * (4 * k))
              (fun l : Loc => l.1 = T ∧ base + i' * (8 * k) ≤ l.2 ∧ l.2 < base + (i' + 1) * (8 * k))
              (fun l : Loc => l.1 = T ∧ base + 4 * p + i' * (4 * k) ≤ l.2 ∧ l.2 < base + 4 * p + (i' + 1) * (4 * k)) := by
  have rd_end : ∀ j, j < n → (j + 1) * (8 * k) ≤ 4 * p := by
    intro j hj
    have h1 : (j + 1) * (8 * k) ≤ n * (8 * k) := Nat.mul_le_mul_right _ hj
    have h2 : n * (8 * k) = 4 * (2 * k * n) := by
      rw [Nat.mul_comm n (8 * k), show 8 * k = 4 * (2 * k) by omega, Nat.mul_assoc]
    omega
  refine ⟨?_, ?_, ?_⟩
  · rintro ⟨b, x⟩ ⟨⟨_, h1, h2⟩, ⟨_, h3, h4⟩⟩
    simp only at h1 h2 h3 h4
    exact hne (C12_rows_disjoint (4 * k) i i' (x - (base + 4 * p)) (by omega) (by omega) (by omega) (by omega))
  · rintro ⟨b, x⟩ ⟨⟨_, h1, _⟩, ⟨_, _, h4⟩⟩
    simp only at h1 h4
    have := rd_end i' hi'
    omega
  · rintro ⟨b, x⟩ ⟨⟨_, h1, _⟩, ⟨_, _, h4⟩⟩
    simp only at h1 h4
    have := rd_end i hi
    omega

/-! ### parcpy / parSetZero (goldilocks_base_field.cpp:72, 93) -/

open ParCopy in
/-- two different chunk iterations touch disjoint parts of `dst` (and read `src ≠ dst`) -/
theorem C12_parcpy_chunks (Dst Src size : Nat) (nt : Int) (i i' : Nat) (hSD : Src ≠ Dst)
    (hi : i ∈ starts size nt) (hi' : i' ∈ starts size nt) (hne : i ≠ i') :
    FootIndep (fun l : Loc => l.1 = Src ∧ i ≤ l.2 ∧ l.2 < i + len size nt i)
              (fun l : Loc => l.1 = Dst ∧ i ≤ l.2 ∧ l.2 < i + len size nt i)
              (fun l : Loc => l.1 = Src ∧ i' ≤ l.2 ∧ l.2 < i' + len size nt i')
              (fun l : Loc => l.1 = Dst ∧ i' ≤ l.2 ∧ l.2 < i' + len size nt i') := by
  refine ⟨?_, ?_, ?_⟩
  · rintro ⟨b, x⟩ ⟨⟨_, h1⟩, ⟨_, h2⟩⟩
    exact chunks_disjoint size nt i i' hi hi' hne x ⟨h1, h2⟩
  · rintro ⟨b, x⟩ ⟨⟨h1, _⟩, ⟨h2, _⟩⟩; exact hSD (h2.symm.trans h1)
  · rintro ⟨b, x⟩ ⟨⟨h1, _⟩, ⟨h2, _⟩⟩; exact hSD (h2.symm.trans h1)

-- the hypotheses are satisfiable: two batches of a pass on 8 rows, B = 4, nB = 2, identity copy
example : FootIndep (batchR 0 (· = 9) 4 0) (batchW 0 1 id 4 2 0) (batchR 0 (· = 9) 4 1) (batchW 0 1 id 4 2 1) :=
  C12_ntt_batches 0 1 (· = 9) id 4 2 (by decide) (by decide) (fun _ _ _ _ h => h) 0 1 (by decide) (by decide) (by decide)

/-! ## The loops of the executable model (Model/Ntt.lean) really have these footprints

  The model executes every `omp parallel for` loop as a sequential fold of a named body.  Below, the bodies are shown to
  have the footprints of the theorems above (frame + dependency, derived from the model's definitions, no hypothesis on
  the buffers), and therefore — through `C12_ntt_batches`, `C12_row_to_row`, `C12_inplace_reversal` and the order
  theorem on buffer states (`Par.any_order`, Lemmas/NttPar.lean) — folding them in ANY order gives the model's result. -/

section Model
open GoldilocksVerif.Model.Ntt hiding inttIdx

/-! ### butterfly batches: `passBatch` (ntt_goldilocks.cpp:81) -/

/-- (a) `passBatch … b` keeps the sizes and changes only the rows `[b·B, (b+1)·B)` of the first buffer (B = 2^sInc) and
    the rows `σ (x·nB + b)`, `x < B`, of the second (nB = size / B; σ = identity, or `inttIdx · size` in the last pass of an
    inverse transform: `passSigma`) -/
theorem C12_model_batch_frame (o : Obj) (size domainPow ncols s sInc : Nat) (lastInv extend : Bool) (b : Nat) (st : Buf × Buf) :
    (passBatch o size domainPow ncols s sInc lastInv extend b st).1.size = st.1.size ∧
    (passBatch o size domainPow ncols s sInc lastInv extend b st).2.size = st.2.size ∧
    (∀ j, ¬ rowsW ncols (batchRows (2 ^ sInc) b) j →
      (passBatch o size domainPow ncols s sInc lastInv extend b st).1.getD j 0#64 = st.1.getD j 0#64) ∧
    (∀ j, ¬ rowsW ncols (copyRows (passSigma size lastInv) (2 ^ sInc) (size / 2 ^ sInc) b) j →
      (passBatch o size domainPow ncols s sInc lastInv extend b st).2.getD j 0#64 = st.2.getD j 0#64) := by
  have hF := Model.Ntt.batchF_local o domainPow ncols s sInc b
  have hG := Model.Ntt.batchG_writer o size domainPow ncols sInc lastInv extend b
  rw [Model.Ntt.passBatch_split]
  exact ⟨hF.size _, hG.size _ _, fun j hj => hF.frame _ j hj, fun j hj => hG.frame _ _ j hj⟩

/-- (b) what `passBatch … b` leaves in the rows it writes depends only on the rows `[b·B, (b+1)·B)` of the first buffer
    (and on the sizes; the tables are in the object `o`, which is not part of the state) -/
theorem C12_model_batch_dep (o : Obj) (size domainPow ncols s sInc : Nat) (lastInv extend : Bool) (b : Nat) (st st' : Buf × Buf)
    (hs1 : st.1.size = st'.1.size) (hs2 : st.2.size = st'.2.size)
    (h : ∀ j, rowsW ncols (batchRows (2 ^ sInc) b) j → st.1.getD j 0#64 = st'.1.getD j 0#64) :
    (∀ j, rowsW ncols (batchRows (2 ^ sInc) b) j →
      (passBatch o size domainPow ncols s sInc lastInv extend b st).1.getD j 0#64
        = (passBatch o size domainPow ncols s sInc lastInv extend b st').1.getD j 0#64) ∧
    (∀ j, rowsW ncols (copyRows (passSigma size lastInv) (2 ^ sInc) (size / 2 ^ sInc) b) j →
      (passBatch o size domainPow ncols s sInc lastInv extend b st).2.getD j 0#64
        = (passBatch o size domainPow ncols s sInc lastInv extend b st').2.getD j 0#64) := by
  have hF := Model.Ntt.batchF_local o domainPow ncols s sInc b
  have hG := Model.Ntt.batchG_writer o size domainPow ncols sInc lastInv extend b
  rw [Model.Ntt.passBatch_split, Model.Ntt.passBatch_split]
  have hd := hF.dep _ _ hs1 h
  exact ⟨hd, hG.dep _ _ _ _ hs2 hd⟩

/-- the iteration `batchIter … b` (Lemmas/NttParBatch.lean) runs `passBatch … b`, and its footprints are, word for word,
    the footprints `batchR` / `batchW` of `C12_ntt_batches` (buffer 0 = `a`, buffer 1 = `a2`, no table in the state) -/
theorem C12_model_batch_footprint (o : Obj) (size domainPow ncols s sInc : Nat) (lastInv extend : Bool) (b : Nat) :
    (∀ st, (batchIter o size domainPow ncols s sInc lastInv extend b).run st
        = passBatch o size domainPow ncols s sInc lastInv extend b st) ∧
    (∀ l, (batchIter o size domainPow ncols s sInc lastInv extend b).R l
        ↔ wordsOf ncols (batchR 0 (fun _ => False) (2 ^ sInc) b) l) ∧
    (∀ l, (batchIter o size domainPow ncols s sInc lastInv extend b).W l
        ↔ wordsOf ncols (batchW 0 1 (passSigma size lastInv) (2 ^ sInc) (size / 2 ^ sInc) b) l) := by
  refine ⟨Model.Ntt.batchIter_run o size domainPow ncols s sInc lastInv extend b, ?_, ?_⟩
  · rintro ⟨buf, j⟩
    rw [Model.Ntt.batchIter_R]
    unfold wordsOf batchR batchRows
    simp only [or_false]
  · rintro ⟨buf, j⟩
    rw [Model.Ntt.batchIter_W]
    unfold wordsOf batchW batchRows copyRows
    exact Iff.rfl

theorem C12_model_sigma_inj (size : Nat) (lastInv : Bool) (i j : Nat) (hi : i < size) (hj : j < size)
    (h : passSigma size lastInv i = passSigma size lastInv j) : i = j := by
  unfold passSigma at h
  cases lastInv with
  | false => simpa using h
  | true =>
    simp only [if_true] at h
    unfold Model.Ntt.inttIdx at h
    split at h <;> split at h <;> omega

/-- two different batches of a pass are independent iterations of the model -/
theorem C12_model_batches_indep (o : Obj) (size domainPow ncols s sInc : Nat) (lastInv extend : Bool) (b b' : Nat)
    (hb : b < size / 2 ^ sInc) (hb' : b' < size / 2 ^ sInc) (hne : b ≠ b') :
    FootIndep (batchIter o size domainPow ncols s sInc lastInv extend b).R
      (batchIter o size domainPow ncols s sInc lastInv extend b).W
      (batchIter o size domainPow ncols s sInc lastInv extend b').R
      (batchIter o size domainPow ncols s sInc lastInv extend b').W := by
  have hle : 2 ^ sInc * (size / 2 ^ sInc) ≤ size := Nat.mul_div_le size (2 ^ sInc)
  have h := C12_ntt_batches 0 1 (fun _ => False) (passSigma size lastInv) (2 ^ sInc) (size / 2 ^ sInc) (by decide)
    ⟨fun h => h, fun h => h⟩
    (fun i j hi hj e => C12_model_sigma_inj size lastInv i j (by omega) (by omega) e) b b' hb hb' hne
  obtain ⟨_, r1, w1⟩ := C12_model_batch_footprint o size domainPow ncols s sInc lastInv extend b
  obtain ⟨_, r2, w2⟩ := C12_model_batch_footprint o size domainPow ncols s sInc lastInv extend b'
  exact (h.words ncols).congr (fun l => (r1 l).1) (fun l => (w1 l).1) (fun l => (r2 l).1) (fun l => (w2 l).1)

/-- **the batches of a pass in any order**: for every pass `(s, sInc)`, every buffer state and every permutation `bs'` of
    the batch indices `0 … nBatches-1` (nBatches = size / 2^sInc as in the model), executing the batches in the order `bs'`
    gives the same two buffers as the model's sequential loop.  No side condition. -/
theorem C12_model_batches_any_order (o : Obj) (size domainPow ncols s sInc : Nat) (lastInv extend : Bool) (st0 : Buf × Buf)
    (bs' : List Nat) (hp : bs'.Perm (List.range (size / 2 ^ sInc))) :
    bs'.foldl (fun st b => passBatch o size domainPow ncols s sInc lastInv extend b st) st0
      = (List.range (size / 2 ^ sInc)).foldl (fun st b => passBatch o size domainPow ncols s sInc lastInv extend b st) st0 := by
  have e : (fun (st : Buf × Buf) b => passBatch o size domainPow ncols s sInc lastInv extend b st)
      = (fun st b => (batchIter o size domainPow ncols s sInc lastInv extend b).run st) := by
    funext st b; exact (Model.Ntt.batchIter_run o size domainPow ncols s sInc lastInv extend b st).symm
  rw [e]
  refine (any_order (batchIter o size domainPow ncols s sInc lastInv extend) _ _ hp.symm ?_ st0).symm
  intro b hb b' hb' hne
  exact C12_model_batches_indep o size domainPow ncols s sInc lastInv extend b b' (List.mem_range.1 hb) (List.mem_range.1 hb') hne

/-- a whole pass of `NTT_iters` (the model's `pass`: batch loop + pointer swap) with its batches in any order -/
theorem C12_model_pass_any_order (o : Obj) (size domainPow ncols : Nat) (inverse extend : Bool) (st : Buf × Buf × Bool)
    (p : Nat × Nat) (bs' : List Nat) (hp : bs'.Perm (List.range (size / 2 ^ p.2))) :
    pass o size domainPow ncols inverse extend st p =
      ((bs'.foldl (fun st b => passBatch o size domainPow ncols p.1 p.2 (!(p.1 + p.2 ≤ domainPow) && inverse) extend b st)
          (st.1, st.2.1)).2,
       (bs'.foldl (fun st b => passBatch o size domainPow ncols p.1 p.2 (!(p.1 + p.2 ≤ domainPow) && inverse) extend b st)
          (st.1, st.2.1)).1, !st.2.2) := by
  rw [C12_model_batches_any_order o size domainPow ncols p.1 p.2 _ extend (st.1, st.2.1) bs' hp]
  unfold pass
  simp only
  rw [iter_eq_foldl]

/-! ### block scatter: `scatterBlock` (ntt_goldilocks.cpp:219) -/

/-- the rows of the scatter loop in any order.  `oc + aux ≤ ncols`: the column block lies inside a row of `dst`
    (without it two iterations could write the same word). -/
theorem C12_model_scatter_any_order (dst d : Buf) (size ncols oc aux : Nat) (hoc : oc + aux ≤ ncols)
    (is' : List Nat) (hp : is'.Perm (List.range size)) :
    is'.foldl (fun dst ie => copyRow dst (ie * ncols + oc) d (ie * aux) aux) dst = scatterBlock dst d size ncols oc aux := by
  rw [Model.Ntt.scatterBlock_eq, iter_eq_foldl]
  refine writers_any_order (fun ie => Model.Ntt.scatterBody ncols oc aux ie) _ _
    (fun ie => Model.Ntt.scatterBody_writer ncols oc aux ie) _ _ hp ?_ d dst
  intro i _ i' _ hne
  -- cells: row `r` of buffer 0 (`dst_`) = `aux` words from `r·aux`; row `r` of buffer 1 (`dst`) = `aux` words from `r·ncols + oc`
  have h := (C12_row_to_row 0 1 (fun i => i) (by decide) i i' hne).lift
    (fun c j => if c.1 = 1 then c.2 * ncols + oc ≤ j ∧ j < c.2 * ncols + oc + aux else c.2 * aux ≤ j ∧ j < c.2 * aux + aux)
    (by
      rintro b r r' j hw c c'
      have hb : b = 1 := by
        rcases hw with hw | hw <;> exact (Prod.mk.inj hw).1
      subst hb
      simp only [if_true] at c c'
      exact row_unique ncols r r' j (by omega) (by omega) (by omega) (by omega))
  refine h.congr ?_ ?_ ?_ ?_
  all_goals
    rintro ⟨b, j⟩ ⟨hb, hj⟩
    simp only at hb hj
    subst hb
    exact ⟨_, rfl, by simpa using hj⟩

/-! ### bit reversal, destination distinct from the source (ntt_goldilocks.cpp:254, 267) -/

/-- both out-of-place loops (plain, and zero-extending when `extension > 1`): the rows in any order.  `revOutBody` is the
    loop body (Lemmas/NttParRev.lean); for `is' = List.range size` this is the model's own loop. -/
theorem C12_model_reversal_out_any_order (o : Obj) (dst src : Buf) (size oc nc nca : Nat)
    (is' : List Nat) (hp : is'.Perm (List.range size)) :
    reversePermutation o dst src false size oc nc nca
      = .ok (is'.foldl (fun d i => revOutBody o size oc nc nca i src d) dst) := by
  rw [Model.Ntt.reversePermutation_out_eq, iter_eq_foldl]
  congr 1
  refine (writers_any_order (fun i => revOutBody o size oc nc nca i) _ _
    (fun i => Model.Ntt.revOutBody_writer o size oc nc nca i) _ _ hp ?_ src dst).symm
  intro i _ i' _ hne
  have h := (C12_row_to_row 0 1 (fun i => br i (log2 size)) (by decide) i i' hne).lift
    (fun c j => if c.1 = 1 then c.2 * nc ≤ j ∧ j < c.2 * nc + nc else c.2 * nca + oc ≤ j ∧ j < c.2 * nca + oc + nc)
    (by
      rintro b r r' j hw c c'
      have hb : b = 1 := by
        rcases hw with hw | hw <;> exact (Prod.mk.inj hw).1
      subst hb
      simp only [if_true] at c c'
      exact row_unique nc r r' j c.1 c.2 c'.1 c'.2)
  refine h.congr ?_ ?_ ?_ ?_
  all_goals
    rintro ⟨b, j⟩ ⟨hb, hj⟩
    simp only at hb hj
    subst hb
    exact ⟨_, rfl, by simpa using hj⟩

/-! ### bit reversal in place (ntt_goldilocks.cpp:289, 311) -/

/-- iteration `i` of the in-place loops keeps the size, changes only the rows `swapRows (BR i) i` (rows `i` and `BR i` when
    `BR i < i`, row `i` when `BR i = i`, none otherwise) and its result there depends only on these rows -/
theorem C12_model_inplace_body (o : Obj) (size nc i : Nat) :
    Local (revInBody o size nc i) (rowsW nc (swapRows (br i (log2 size)) i)) :=
  Model.Ntt.revInBody_local o size nc i

/-- both in-place loops (swap when `BR i < i`; the zero-extending variant when `extension > 1`) on `2^d` rows, `d ≤ 32`:
    the rows in any order.  `revInBody` is the loop body (Lemmas/NttParRev.lean); for `is' = List.range (2^d)` this is the
    model's own loop.  (With `offset_cols ≠ 0` or `ncols ≠ ncols_all` the model aborts before the loop.) -/
theorem C12_model_reversal_inplace_any_order (o : Obj) (dst src : Buf) (d nc : Nat) (hd : d ≤ 32)
    (is' : List Nat) (hp : is'.Perm (List.range (2 ^ d))) :
    reversePermutation o dst src true (2 ^ d) 0 nc nc = .ok (is'.foldl (fun a i => revInBody o (2 ^ d) nc i a) src) := by
  rw [Model.Ntt.reversePermutation_in_eq, iter_eq_foldl]
  congr 1
  refine (locals_any_order (fun i => revInBody o (2 ^ d) nc i) _
    (fun i => Model.Ntt.revInBody_local o (2 ^ d) nc i) _ _ hp ?_ src).symm
  intro i hi i' hi' hne
  have hlog : log2 (2 ^ d) = d := Nat.log2_two_pow
  have hi := List.mem_range.1 ((hp.mem_iff).1 hi)
  have hi' := List.mem_range.1 ((hp.mem_iff).1 hi')
  have key : ∀ i, i < 2 ^ d → ∀ l : Nat × Nat, (l.1 = 0 ∧ rowsW nc (swapRows (br i (log2 (2 ^ d))) i) l.2)
      → wordsOf nc (swapFoot 0 d i) l := by
    rintro i hi ⟨b, j⟩ ⟨hb, r, hr, h1, h2⟩
    rw [hlog, Model.Ntt.br_eq_bitrev d i hd hi] at hr
    exact ⟨r, ⟨hb, hr⟩, h1, h2⟩
  exact ((C12_inplace_reversal 0 d i i' hi hi' hne).words nc).congr (key i hi) (key i hi) (key i' hi') (key i' hi')

/-! ### a whole `NTT_iters` call -/

/-- `nttItersIn ordR ordB` (Lemmas/NttParIters.lean) is the text of the model's `nttIters` with the row loop of the bit
    reversal executed in the order `ordR` and the batch loop of every pass `p = (s, sInc)` in the order `ordB p`.
    Whatever these orders, the result (buffers or abort) is that of the model's `nttIters`, for every `size` with
    `log2 size ≤ 32` (sizes that are not a power of two abort before any loop), every pointer relation, column window,
    `nphase`, direction. -/
theorem C12_model_nttIters_any_order (o : Obj) (dstB srcB auxB : Buf) (dstIsSrc : Bool) (size oc nc nca nphase : Nat)
    (inverse extend : Bool) (hd : log2 size ≤ 32)
    (ordR : List Nat) (hR : ordR.Perm (List.range size))
    (ordB : Nat × Nat → List Nat) (hB : ∀ p, (ordB p).Perm (List.range (size / 2 ^ p.2))) :
    nttItersIn ordR ordB o dstB srcB auxB dstIsSrc size oc nc nca nphase inverse extend
      = nttIters o dstB srcB auxB dstIsSrc size oc nc nca nphase inverse extend := by
  rw [nttIters_eq_with]
  unfold nttItersIn
  apply nttItersWith_congr
  · intro hsz dst src ip
    cases ip with
    | false =>
      unfold reversePermutationIn
      simp only [Bool.not_false, if_true]
      exact (C12_model_reversal_out_any_order o dst src size oc nc nca ordR hR).symm
    | true =>
      unfold reversePermutationIn
      simp only [Bool.not_true, Bool.false_eq_true, if_false]
      by_cases hc : oc = 0 ∧ nc = nca
      · obtain ⟨rfl, rfl⟩ := hc
        obtain ⟨d, rfl, hd'⟩ : ∃ d, size = 2 ^ d ∧ d ≤ 32 := ⟨log2 size, hsz.symm, hd⟩
        have hc' : (!decide (0 = 0 ∧ nc = nc)) = false := by simp
        rw [if_neg (by rw [hc']; simp)]
        exact (C12_model_reversal_inplace_any_order o dst src d nc hd' ordR hR).symm
      · have hc' : (!decide (oc = 0 ∧ nc = nca)) = true := by rw [decide_eq_false hc]; rfl
        rw [if_pos hc', Model.Ntt.reversePermutation_in_assert o dst src size oc nc nca hc]
  · intro st p
    unfold passIn
    exact (C12_model_pass_any_order o size (log2 size) nc inverse extend st p (ordB p) (hB p)).symm

/-! ### whole `NTT` / `INTT` / `extendPol` calls

  `nttIn ord`, `inttIn ord`, `extendPolIn ordI ordN` (Lemmas/NttParIters.lean) are the texts of the model's `ntt`, `intt`,
  `extendPol` with EVERY parallel loop (bit reversal rows, batches of every pass, scatter rows, of every column block)
  folded over the lists of `ord : Orders size` — arbitrary permutations of the index ranges. -/

/-- the column-block loop: same state after `m` blocks, and the column offset is `blkOff … m` (so that every scatter
    stays inside a row) -/
theorem C12_model_blockLoop_any_order {size : Nat} (ord : Orders size) (o : Obj) (aux : Buf) (dstIsSrc : Bool) (dst0 srcB : Buf)
    (ncols nphase nblock ncols_alloc : Nat) (inverse extend : Bool) (hd : log2 size ≤ 32) (h1 : 1 ≤ nblock) :
    ∀ m, m ≤ nblock →
      iter m (.ok (dst0, srcB, 0)) (fun ib st => nttBlockIn (ord.rev ib) (ord.batch ib) (ord.scat ib) o aux dstIsSrc size ncols
          nphase (ncols / nblock) (ncols % nblock) ncols_alloc inverse extend ib st)
        = iter m (.ok (dst0, srcB, 0)) (nttBlock o aux dstIsSrc size ncols nphase (ncols / nblock) (ncols % nblock) ncols_alloc
            inverse extend) ∧
      ∀ dst src oc, iter m (.ok (dst0, srcB, 0)) (nttBlock o aux dstIsSrc size ncols nphase (ncols / nblock) (ncols % nblock)
          ncols_alloc inverse extend) = .ok (dst, src, oc) → oc = blkOff (ncols / nblock) (ncols % nblock) m := by
  intro m
  induction m with
  | zero =>
    intro _
    refine ⟨rfl, ?_⟩
    intro dst src oc h
    rw [iter_zero] at h
    injection h with h
    rw [(Prod.mk.inj (Prod.mk.inj h).2).2.symm]
    simp [blkOff]
  | succ m ih =>
    intro hm
    obtain ⟨i1, i2⟩ := ih (by omega)
    rw [iter_succ, iter_succ, i1]
    generalize iter m (.ok (dst0, srcB, 0)) (nttBlock o aux dstIsSrc size ncols nphase (ncols / nblock) (ncols % nblock)
      ncols_alloc inverse extend) = S at i2
    have htot : blkOff (ncols / nblock) (ncols % nblock) nblock = ncols := blkOff_total ncols nblock (by omega)
    cases S with
    | error e => exact ⟨rfl, fun dst src oc h => by simp [nttBlock] at h⟩
    | ok r =>
      obtain ⟨dst, src, oc⟩ := r
      have hoc := i2 dst src oc rfl
      have hfit : oc + (ncols / nblock + (if m < ncols % nblock then 1 else 0)) ≤ ncols := by
        have := blkOff_mono (ncols / nblock) (ncols % nblock) (m + 1) nblock hm
        rw [blkOff_succ, htot, ← hoc] at this
        exact this
      unfold nttBlockIn nttBlock
      simp only
      rw [C12_model_nttIters_any_order o _ src aux false size oc _ ncols nphase inverse extend hd _ (ord.rev_perm m) _
        (ord.batch_perm m)]
      cases hres : nttIters o (Array.replicate (size * ncols_alloc) 0#64) src aux false size oc
          (ncols / nblock + (if m < ncols % nblock then 1 else 0)) ncols nphase inverse extend with
      | error e => exact ⟨rfl, fun dst src oc h => by simp at h⟩
      | ok r =>
        obtain ⟨d, x⟩ := r
        simp only
        rw [C12_model_scatter_any_order dst d size ncols oc _ hfit _ (ord.scat_perm m)]
        refine ⟨rfl, ?_⟩
        intro dst' src' oc' h
        injection h with h
        rw [← (Prod.mk.inj (Prod.mk.inj h).2).2, blkOff_succ, hoc]
        rfl

theorem C12_model_ntt_any_order {size : Nat} (ord : Orders size) (o : Obj) (mode : DstMode) (dstB srcB : Buf)
    (ncols nphase nblock : Nat) (inverse extend : Bool) (hd : log2 size ≤ 32) :
    nttIn ord o mode dstB srcB ncols nphase nblock inverse extend
      = ntt o mode dstB srcB size ncols nphase nblock inverse extend := by
  unfold nttIn ntt
  by_cases h0 : ncols = 0 ∨ size = 0
  · rw [if_pos h0, if_pos h0]
  · rw [if_neg h0, if_neg h0]
    obtain ⟨b1, b2⟩ := clampBlock_range nblock ncols (by omega)
    generalize clampBlock nblock ncols = nb at b1 b2
    unfold nttBlocksIn nttBlocks
    simp only
    by_cases hnb : nb ≤ 1
    · rw [if_pos hnb, if_pos hnb]
      exact C12_model_nttIters_any_order o dstB srcB _ _ size 0 ncols ncols nphase inverse extend hd _ (ord.rev_perm 0) _
        (ord.batch_perm 0)
    · rw [if_neg hnb, if_neg hnb]
      rw [(C12_model_blockLoop_any_order ord o _ _ _ srcB ncols nphase nb _ inverse extend hd b1 nb (Nat.le_refl _)).1]
      rfl

theorem C12_model_intt_any_order {size : Nat} (ord : Orders size) (o : Obj) (mode : DstMode) (dstB srcB : Buf)
    (ncols nphase nblock : Nat) (extend : Bool) (hd : log2 size ≤ 32) :
    inttIn ord o mode dstB srcB ncols nphase nblock extend = intt o mode dstB srcB size ncols nphase nblock extend := by
  unfold inttIn intt
  rw [C12_model_ntt_any_order ord o _ dstB srcB ncols nphase nblock true extend hd]

/-- `extendPol`: both transforms with all their parallel loops in arbitrary orders -/
theorem C12_model_extendPol_any_order {n nExt : Nat} (ordI : Orders n) (ordN : Orders nExt) (o : Obj) (same : Bool)
    (outB inB : Buf) (ncols nphase nblock : Nat) (hn : log2 n ≤ 32) (hne : log2 nExt ≤ 32) :
    extendPolIn ordI ordN o same outB inB ncols nphase nblock = extendPol o same outB inB nExt n ncols nphase nblock := by
  unfold extendPolIn extendPol
  cases mkObj nExt (nExt / n) with
  | none => rfl
  | some oext =>
    simp only
    rw [C12_model_intt_any_order ordI _ _ outB inB ncols nphase nblock true hn]
    cases intt (refreshCache o n) (if same = true then DstMode.same else DstMode.other) outB inB n ncols nphase nblock true with
    | error e => rfl
    | ok r =>
      obtain ⟨out1, x⟩ := r
      simp only
      rw [C12_model_ntt_any_order ordN oext .same #[] out1 ncols nphase nblock false false hne]
      rfl

end Model

/-! ### Merkle builders (Model/Sponge.lean)

  The model of the tree builders is purely functional (`rows.flatMap leaf`, `nextLevel`, `upperLevels`): it has no
  indexed writes whose order could be permuted.  Two kinds of statements: (i) about the model itself — each word of a
  level is a function of the two children of its node only; (ii) about an imperative rendering of the C loops on one
  tree buffer (`leafStep`, `nodeStep`, `merkleTreeIn` of Lemmas/MerklePar.lean, written by hand from the loops, NOT
  executed against the C++): its iterations have the footprints of `C12_merkle_leaves` / `C12_merkle_level`, can be
  executed in any order, and fill the buffer with exactly the model's `merkleTree`. -/

section Merkle
open GoldilocksVerif.Model

/-- (i) the model: word `j` of the leaf level depends on row `j / 4` only; word `j` of a level on the children words
    `[8·(j/4), 8·(j/4) + 8)` of the previous level only -/
theorem C12_model_merkle_dependency (leaf node : List Wd → List Wd) (hl : ∀ x, (leaf x).length = 4)
    (hn : ∀ x, (node x).length = 4) :
    (∀ (rows : List (List Wd)) (j : Nat), j < 4 * rows.length →
      (rows.flatMap leaf).getD j 0#64 = (leaf (rows.getD (j / 4) [])).getD (j % 4) 0#64) ∧
    (∀ (k : Nat) (lvl : List Wd) (j : Nat), j < 4 * k →
      (nextLevel node k lvl).getD j 0#64 = (node ((lvl.drop (8 * (j / 4))).take 8)).getD (j % 4) 0#64) := by
  refine ⟨fun rows j hj => ?_, fun k lvl j hj => ?_⟩
  · rw [leaves_getD leaf hl, if_pos hj]
  · rw [nextLevel_getD node hn, if_pos hj]

/-- (ii) leaf loop on the tree buffer `t` (`leafStep … i` = `linear_hash(&tree[4i], row i)`), rows in any order: the
    leaf digests of the model, the rest of the buffer untouched -/
theorem C12_model_merkle_leaves_any_order (leaf : List Wd → List Wd) (hl : ∀ x, (leaf x).length = 4)
    (rows : List (List Wd)) (t : List Wd) (ht : 4 * rows.length ≤ t.length)
    (is' : List Nat) (hp : is'.Perm (List.range rows.length)) :
    is'.foldl (fun t i => leafStep leaf rows i t) t = rows.flatMap leaf ++ t.drop (4 * rows.length) := by
  rw [← leafLoop_seq_eq leaf hl rows t ht]
  refine any_order (fun i => hashIter (fun _ => leaf (rows.getD i [])) (fun _ => hl _) 0 0 (4 * i)) _ _ hp ?_ t
  intro i _ i' _ hne
  refine (C12_merkle_leaves 0 1 1 0 i i' (by decide) hne).congr ?_ ?_ ?_ ?_
  all_goals
    rintro ⟨b, j⟩ ⟨hb, h1, h2⟩
    simp only at hb h1 h2
    omega

/-- (ii) level loop on the tree buffer `t` (`nodeStep … i` = `hash(&tree[off + 4p + 4i], &tree[off + 8i])`: the level of
    `p` nodes starts at `off`, the next one right behind it), `n ≤ p/2` nodes in any order: the model's `nextLevel` -/
theorem C12_model_merkle_level_any_order (node : List Wd → List Wd) (hn : ∀ x, (node x).length = 4)
    (t : List Wd) (off p n : Nat) (hnp : 2 * n ≤ p) (hfit : off + 4 * p + 4 * n ≤ t.length)
    (is' : List Nat) (hp : is'.Perm (List.range n)) :
    is'.foldl (fun t i => nodeStep node off p i t) t
      = t.take (off + 4 * p) ++ nextLevel node n (t.drop off) ++ t.drop (off + 4 * p + 4 * n) := by
  rw [← levelLoop_seq_eq node hn t off p n hnp hfit]
  refine any_order (fun i => hashIter node hn (off + 8 * i) 8 (off + 4 * p + 4 * i)) _ _ hp ?_ t
  intro i hi i' hi' hne
  have hi := List.mem_range.1 ((hp.mem_iff).1 hi)
  have hi' := List.mem_range.1 ((hp.mem_iff).1 hi')
  refine (C12_merkle_level 0 off p 1 n i i' (by omega) hi hi' hne).congr ?_ ?_ ?_ ?_
  all_goals
    rintro ⟨b, j⟩ ⟨hb, h1, h2⟩
    simp only at hb h1 h2
    exact ⟨hb, by omega, by omega⟩

/-- (ii) the whole builder on a tree buffer `t0` of the right length: leaf loop in the order `ordLeaf`, the level loop of
    `n` iterations in the order `ords n` — whatever these orders, the buffer ends up as the model's `merkleTree` -/
theorem C12_model_merkle_tree_any_order (leaf node : List Wd → List Wd) (hl : ∀ x, (leaf x).length = 4)
    (hn : ∀ x, (node x).length = 4) (rows : List (List Wd)) (ordLeaf : List Nat) (ords : Nat → List Nat)
    (hpl : ordLeaf.Perm (List.range rows.length)) (hpo : ∀ n, (ords n).Perm (List.range n))
    (t0 : List Wd) (ht0 : t0.length = (merkleTree leaf node rows).length) :
    merkleTreeIn leaf node rows ordLeaf ords t0 = merkleTree leaf node rows := by
  have hlen : 4 * rows.length ≤ t0.length := by
    rw [ht0]; unfold merkleTree; simp only [List.length_append, leaves_length leaf hl rows]; omega
  apply merkleTreeIn_eq leaf node hl hn rows ordLeaf ords t0
  · rw [C12_model_merkle_leaves_any_order leaf hl rows t0 hlen ordLeaf hpl,
      C12_model_merkle_leaves_any_order leaf hl rows t0 hlen _ (List.Perm.refl _)]
  · intro off p n t hnp
    unfold levelLoop
    exact any_order (fun i => hashIter node hn (off + 8 * i) 8 (off + 4 * p + 4 * i)) _ _ (hpo n) (by
      intro i hi i' hi' hne
      have hi := List.mem_range.1 (((hpo n).mem_iff).1 hi)
      have hi' := List.mem_range.1 (((hpo n).mem_iff).1 hi')
      refine (C12_merkle_level 0 off p 1 n i i' (by omega) hi hi' hne).congr ?_ ?_ ?_ ?_
      all_goals
        rintro ⟨b, j⟩ ⟨hb, h1, h2⟩
        simp only at hb h1 h2
        exact ⟨hb, by omega, by omega⟩) t
  · exact ht0

end Merkle

-- the any-order theorem is not vacuous: an explicit non-sequential order of the 4 batches of a pass on 16 rows, B = 4
example (o : Model.Ntt.Obj) (st : Model.Ntt.Buf × Model.Ntt.Buf) :
    [3, 1, 0, 2].foldl (fun st b => Model.Ntt.passBatch o 16 4 3 1 2 false false b st) st
      = (List.range (16 / 2 ^ 2)).foldl (fun st b => Model.Ntt.passBatch o 16 4 3 1 2 false false b st) st :=
  C12_model_batches_any_order o 16 4 3 1 2 false false st [3, 1, 0, 2] (by decide)

/-! ## The GENERATED loop bodies (Gen/NttGen.lean, Gen/MerkleGen.lean: translated from the source on every run)

  The translator renders an `omp parallel for` loop as `Loop.rangeM 0 n 1 s (body …)`, `body …` being the lifted loop body
  (`<function>_loopK`, `Option`-valued).  `ParGen.inOrder body l s` (Lemmas/ParGen.lean) runs that SAME body over the index
  list `l` in the order of `l`; `ParGen.rangeM_eq_inOrder` shows, without hypothesis, that the generated loop is
  `inOrder body (List.range n)`.  Each theorem below states: for every permutation `l` of the iteration indices,
  `inOrder body l s = Loop.rangeM 0 n 1 s body` — the generated body folded in any order gives what the translated function
  computes (both sides `none` is excluded by the `_value` / bridge statements: under the hypotheses the loops return). -/

section Generated
open GoldilocksVerif.ParGen GoldilocksVerif.BridgeNtt Gen.NttGen

/-! ### NTT_iters: the butterfly-batch loop (the loop over `b`, body `NTT_NTT_iters_loop9`) -/

/-- **generated batches in any order.**  The parameters of the body are those the generated pass loop
    (`NTT_NTT_iters_loop10`, see `BridgeNtt.pass_step`) passes for the pass starting at stage `S` of width `sInc` on
    `N = 2^K` rows of `NC` columns; `a`, `a2` are two distinct blocks that are not the object's tables; `hp` is ANY heap
    representing the object.  Proof: per-iteration bridge `passBatch_gen` (generated body = the model's `passBatch` on the
    two blocks) + `C12_model_batches_any_order` (footprints of `passBatch`, Bernstein's conditions `C12_ntt_batches`). -/
theorem C12_generated_batches_any_order (hp : Heap) (A A2 : Nat) (hne : A ≠ A2) (hA : A < hp.size) (hA2 : A2 < hp.size)
    (self : NTT_Goldilocks) (o : Model.Ntt.Obj) (hrep : ObjRep hp self o) (hfr : ObjFrame self A) (hfr2 : ObjFrame self A2)
    (N NC K MBP S sInc : Nat) (inverse extend : Bool)
    (hK : K ≤ 30) (hN : N = 2 ^ K) (hS1 : 1 ≤ S) (hSleK : S ≤ K) (hSK : S + sInc ≤ K + 1) (hKs : K ≤ o.s) (hos : o.s ≤ 32)
    (hNNC : N * NC < 2 ^ 64) (hNC8 : NC * 8 < 2 ^ 64) (hMBP : MBP < 2 ^ 63) (hcache : extend = true → o.rcache ≠ none)
    (bs' : List Nat) (hp' : bs'.Perm (List.range (N / 2 ^ sInc))) :
    inOrder (NTT_NTT_iters_loop9 (bv N) (bv NC) inverse extend self ⟨A, 0⟩ ⟨A2, 0⟩ (bv K) (bv MBP) (bv S) (bv sInc)
        (bv (S - 1)) (bv (K - 1)) (bv (2 ^ (S - 1))) (bv (2 ^ (K - S) - 1)) (bv (2 ^ sInc)) (bv (N / 2 ^ sInc))) bs' hp
      = Loop.rangeM 0 (bv (N / 2 ^ sInc)).toNat 1 hp
          (NTT_NTT_iters_loop9 (bv N) (bv NC) inverse extend self ⟨A, 0⟩ ⟨A2, 0⟩ (bv K) (bv MBP) (bv S) (bv sInc)
            (bv (S - 1)) (bv (K - 1)) (bv (2 ^ (S - 1))) (bv (2 ^ (K - S) - 1)) (bv (2 ^ sInc)) (bv (N / 2 ^ sInc))) := by
  have hN30 : N ≤ 2 ^ 30 := by rw [hN]; exact Nat.pow_le_pow_right (by omega) hK
  have hnb : (bv (N / 2 ^ sInc)).toNat = N / 2 ^ sInc :=
    bv_toNat _ (Nat.lt_of_le_of_lt (Nat.div_le_self _ _) (by omega))
  rw [hnb]
  have key := inOrder_any_order (Heap.R2 hp A A2)
    (Model.Ntt.passBatch o N K NC S sInc (!(decide (S + MBP ≤ K) || !inverse)) extend) _ (N / 2 ^ sInc)
    (fun b hb s => passBatch_gen hp A A2 hne hA hA2 self o hrep hfr hfr2 N NC K MBP S sInc (N / 2 ^ sInc) b inverse extend
      hK hN hS1 hSleK hSK hKs hos rfl hb hNNC hNC8 hMBP hcache s)
    (fun l hl st => C12_model_batches_any_order o N K NC S sInc _ extend st l hl) bs' hp' (hp.block A, hp.block A2)
  rw [R2_self] at key
  exact key.1

/-- … and the common result: the heap with the two blocks replaced by the model's `passBatch` folded over the batches
    (in particular the generated batch loop returns, in every order) -/
theorem C12_generated_batches_value (hp : Heap) (A A2 : Nat) (hne : A ≠ A2) (hA : A < hp.size) (hA2 : A2 < hp.size)
    (self : NTT_Goldilocks) (o : Model.Ntt.Obj) (hrep : ObjRep hp self o) (hfr : ObjFrame self A) (hfr2 : ObjFrame self A2)
    (N NC K MBP S sInc : Nat) (inverse extend : Bool)
    (hK : K ≤ 30) (hN : N = 2 ^ K) (hS1 : 1 ≤ S) (hSleK : S ≤ K) (hSK : S + sInc ≤ K + 1) (hKs : K ≤ o.s) (hos : o.s ≤ 32)
    (hNNC : N * NC < 2 ^ 64) (hNC8 : NC * 8 < 2 ^ 64) (hMBP : MBP < 2 ^ 63) (hcache : extend = true → o.rcache ≠ none)
    (bs' : List Nat) (hp' : bs'.Perm (List.range (N / 2 ^ sInc))) :
    inOrder (NTT_NTT_iters_loop9 (bv N) (bv NC) inverse extend self ⟨A, 0⟩ ⟨A2, 0⟩ (bv K) (bv MBP) (bv S) (bv sInc)
        (bv (S - 1)) (bv (K - 1)) (bv (2 ^ (S - 1))) (bv (2 ^ (K - S) - 1)) (bv (2 ^ sInc)) (bv (N / 2 ^ sInc))) bs' hp
      = some (Heap.R2 hp A A2 ((List.range (N / 2 ^ sInc)).foldl
          (fun st b => Model.Ntt.passBatch o N K NC S sInc (!(decide (S + MBP ≤ K) || !inverse)) extend b st)
          (hp.block A, hp.block A2))) := by
  have key := inOrder_rep (Heap.R2 hp A A2)
    (Model.Ntt.passBatch o N K NC S sInc (!(decide (S + MBP ≤ K) || !inverse)) extend) _ bs'
    (fun b hb s => passBatch_gen hp A A2 hne hA hA2 self o hrep hfr hfr2 N NC K MBP S sInc (N / 2 ^ sInc) b inverse extend
      hK hN hS1 hSleK hSK hKs hos rfl (List.mem_range.1 ((hp'.mem_iff).1 hb)) hNNC hNC8 hMBP hcache s)
    (hp.block A, hp.block A2)
  rw [R2_self, C12_model_batches_any_order o N K NC S sInc _ extend _ bs' hp'] at key
  exact key

/-- **one iteration of the generated pass loop, batches in any order.**  From ANY heap `hp` representing the object, with
    `a`, `a2` two distinct blocks outside the object's tables, the lifted body of `for (s = 1; s <= domainPow; …)`
    (`NTT_NTT_iters_loop10`: schedule arithmetic, batch loop, pointer swap) continues with a heap `hp'` — and `hp'` is what
    running the lifted batch body `NTT_NTT_iters_loop9`, with the arguments the pass computes (`mbp'`, `sInc`, masks, batch
    size and count below), over ANY permutation of the batch indices returns.  (`pass_step` + `C12_generated_batches_value`.) -/
theorem C12_generated_pass_any_order (hp : Heap) (A A2 : Nat) (hne : A ≠ A2) (hA : A < hp.size) (hA2 : A2 < hp.size)
    (self : NTT_Goldilocks) (o : Model.Ntt.Obj) (hrep : ObjRep hp self o) (hfr : ObjFrame self A) (hfr2 : ObjFrame self A2)
    (N NC K res : Nat) (inverse extend : Bool) (hK : K ≤ 30) (hN : N = 2 ^ K) (hKs : K ≤ o.s) (hos : o.s ≤ 32)
    (hNNC : N * NC < 2 ^ 64) (hNC8 : NC * 8 < 2 ^ 64) (hcache : extend = true → o.rcache ≠ none)
    (mbp s count : Nat) (hs1 : 1 ≤ s) (hsK : s ≤ K) (hm1 : 1 ≤ mbp) (hm : mbp ≤ 64) (hres : res ≤ 64) (hcount : count ≤ 128)
    (tmp : Ptr) (bs' : List Nat)
    (hp' : bs'.Perm (List.range (N / 2 ^ stepInc K s (stepMbp res count mbp)))) :
    ∃ hq, NTT_NTT_iters_loop10 (bv N) (bv NC) inverse extend self (bv K) (bv res)
        (bv mbp, hp, tmp, ⟨A2, 0⟩, ⟨A, 0⟩, bv s, bv count) =
      some (true, (bv (stepMbp res count mbp), hq, ⟨A2, 0⟩, ⟨A, 0⟩, ⟨A2, 0⟩, bv (s + stepMbp res count mbp), bv (count + 1))) ∧
    inOrder (NTT_NTT_iters_loop9 (bv N) (bv NC) inverse extend self ⟨A, 0⟩ ⟨A2, 0⟩ (bv K) (bv (stepMbp res count mbp)) (bv s)
        (bv (stepInc K s (stepMbp res count mbp))) (bv (s - 1)) (bv (K - 1)) (bv (2 ^ (s - 1))) (bv (2 ^ (K - s) - 1))
        (bv (2 ^ stepInc K s (stepMbp res count mbp))) (bv (N / 2 ^ stepInc K s (stepMbp res count mbp)))) bs' hp = some hq := by
  have hmb : 1 ≤ stepMbp res count mbp ∧ stepMbp res count mbp ≤ 64 := by
    unfold stepMbp
    by_cases h : res > 0 ∧ count = res + 1 ∧ mbp > 1
    · rw [if_pos h]; omega
    · rw [if_neg h]; omega
  have hstep := pass_step hp self o hrep N NC K res inverse extend hK hN hKs hos hNNC hNC8 hcache A A2 hne hA hA2 hfr hfr2
    mbp s count hs1 hsK hm1 hm hres hcount tmp (hp.block A, hp.block A2)
  rw [R2_self] at hstep
  generalize stepMbp res count mbp = mbp' at hstep hp' hmb ⊢
  have hsi : s + stepInc K s mbp' ≤ K + 1 := by
    unfold stepInc
    by_cases h : s + mbp' ≤ K
    · rw [if_pos h]; omega
    · rw [if_neg h]; omega
  have hval := C12_generated_batches_value hp A A2 hne hA hA2 self o hrep hfr hfr2 N NC K mbp' s (stepInc K s mbp') inverse
    extend hK hN hs1 hsK hsi hKs hos hNNC hNC8 (by omega) hcache bs' hp'
  refine ⟨_, hstep, ?_⟩
  rw [hval, iter_eq_foldl]

/-! ### NTT: the block scatter loop (body `NTT_NTT_loop1`) -/

/-- the rows of the generated scatter loop in any order.  `dst` = block `D`, `dst_` = block `T ≠ D` (allocated by `NTT`
    itself when `nblock > 1`); `oc + aux ≤ ncols`: the column block lies inside a row (as in `C12_model_scatter_any_order`);
    the index products do not wrap.  Per-iteration bridge `ParGen.scatter_rep` (new: this loop is not bridged elsewhere). -/
theorem C12_generated_scatter_any_order (hp : Heap) (D T : Nat) (hD : D < hp.size) (hne : D ≠ T) (ncols oc aux : BitVec 64)
    (size : Nat) (hfit : oc.toNat + aux.toNat ≤ ncols.toNat) (hb1 : size * ncols.toNat < 2 ^ 64)
    (hb3 : aux.toNat * 8 < 2 ^ 64) (hsz : size < 2 ^ 64) (is' : List Nat) (hp' : is'.Perm (List.range size)) :
    inOrder (NTT_NTT_loop1 ⟨D, 0⟩ ncols oc ⟨T, 0⟩ aux) is' hp
      = Loop.rangeM 0 size 1 hp (NTT_NTT_loop1 ⟨D, 0⟩ ncols oc ⟨T, 0⟩ aux)
    ∧ ∃ hp', Loop.rangeM 0 size 1 hp (NTT_NTT_loop1 ⟨D, 0⟩ ncols oc ⟨T, 0⟩ aux) = some hp' := by
  have key := inOrder_any_order (hp.setBlock D)
    (fun ie B => Model.Ntt.scatterBody ncols.toNat oc.toNat aux.toNat ie (hp.block T) B) _ size
    (scatter_rep hp D T hD hne ncols oc aux size hfit hb1 hb3 hsz)
    (fun l hl t => (C12_model_scatter_any_order t (hp.block T) size ncols.toNat oc.toNat aux.toNat hfit l hl).trans
      (C12_model_scatter_any_order t (hp.block T) size ncols.toNat oc.toNat aux.toNat hfit _ (List.Perm.refl _)).symm)
    is' hp' (hp.block D)
  rw [Heap.setBlock_block] at key
  exact key

/-! ### reversePermutation: the four loops (bodies `NTT_reversePermutation_loop1 … loop4`) -/

section rev
variable (hp : Heap) (d s : Nat) (oc nc nca : BitVec 64) (ds : BitVec 32) (k size : Nat)
variable (hk : k ≤ 32) (hds : ds.toNat = k) (hsz : size = 2 ^ k) (hd : d < hp.size)
variable (hb1 : size * nca.toNat + oc.toNat < 2 ^ 64) (hb2 : size * nc.toNat < 2 ^ 64) (hb3 : nc.toNat * 8 < 2 ^ 64)

theorem revOut_model_order (o : Model.Ntt.Obj) (src : Model.Ntt.Buf) (size oc nc nca : Nat) (l : List Nat)
    (hl : l.Perm (List.range size)) (t : Model.Ntt.Buf) :
    l.foldl (fun t i => Model.Ntt.revOutBody o size oc nc nca i src t) t
      = (List.range size).foldl (fun t i => Model.Ntt.revOutBody o size oc nc nca i src t) t :=
  Except.ok.inj ((C12_model_reversal_out_any_order o t src size oc nc nca l hl).symm.trans
    (C12_model_reversal_out_any_order o t src size oc nc nca _ (List.Perm.refl _)))

theorem revIn_model_order (o : Model.Ntt.Obj) (k nc : Nat) (hk : k ≤ 32) (l : List Nat)
    (hl : l.Perm (List.range (2 ^ k))) (t : Model.Ntt.Buf) :
    l.foldl (fun t i => Model.Ntt.revInBody o (2 ^ k) nc i t) t
      = (List.range (2 ^ k)).foldl (fun t i => Model.Ntt.revInBody o (2 ^ k) nc i t) t :=
  Except.ok.inj ((C12_model_reversal_inplace_any_order o t t k nc hk l hl).symm.trans
    (C12_model_reversal_inplace_any_order o t t k nc hk _ (List.Perm.refl _)))

include hk hds hsz hd hb1 hb2 hb3 in
/-- out of place (`dst ≠ src`: blocks `d ≠ s`), `extension ≤ 1` (ntt_goldilocks.cpp:254): rows in any order.
    `size = 2^k` rows, `k ≤ 32`, `ds` = `log2 size` as the function computes it; the index products do not wrap. -/
theorem C12_generated_reversal_out_any_order (hne : d ≠ s) (is' : List Nat) (hp' : is'.Perm (List.range size)) :
    inOrder (NTT_reversePermutation_loop1 ⟨d, 0⟩ ⟨s, 0⟩ oc nc nca ds) is' hp
      = Loop.rangeM 0 size 1 hp (NTT_reversePermutation_loop1 ⟨d, 0⟩ ⟨s, 0⟩ oc nc nca ds)
    ∧ ∃ hp', Loop.rangeM 0 size 1 hp (NTT_reversePermutation_loop1 ⟨d, 0⟩ ⟨s, 0⟩ oc nc nca ds) = some hp' := by
  have key := inOrder_any_order (hp.setBlock d)
    (fun i D => Model.Ntt.revOutBody (extObj 1) size oc.toNat nc.toNat nca.toNat i (hp.block s) D) _ size
    (rev1_rep hp d s oc nc nca ds k size hk hds hsz hd hb1 hb2 hb3 hne)
    (fun l hl t => revOut_model_order (extObj 1) (hp.block s) size oc.toNat nc.toNat nca.toNat l hl t)
    is' hp' (hp.block d)
  rw [Heap.setBlock_block] at key
  exact key

include hk hds hsz hd hb1 hb2 hb3 in
/-- out of place, `extension = e > 1` (zero-extending, :267); `ext_` as the function computes it: `(size / e) · ncols_all` -/
theorem C12_generated_reversal_out_ext_any_order (hne : d ≠ s) (ext_ : BitVec 64) (e : Nat) (he : ¬ e ≤ 1)
    (hE : ext_.toNat = size / e * nca.toNat) (is' : List Nat) (hp' : is'.Perm (List.range size)) :
    inOrder (NTT_reversePermutation_loop2 ⟨d, 0⟩ ⟨s, 0⟩ oc nc nca ds ext_) is' hp
      = Loop.rangeM 0 size 1 hp (NTT_reversePermutation_loop2 ⟨d, 0⟩ ⟨s, 0⟩ oc nc nca ds ext_)
    ∧ ∃ hp', Loop.rangeM 0 size 1 hp (NTT_reversePermutation_loop2 ⟨d, 0⟩ ⟨s, 0⟩ oc nc nca ds ext_) = some hp' := by
  have key := inOrder_any_order (hp.setBlock d)
    (fun i D => Model.Ntt.revOutBody (extObj e) size oc.toNat nc.toNat nca.toNat i (hp.block s) D) _ size
    (rev2_rep hp d s oc nc nca ds k size hk hds hsz hd hb1 hb2 hb3 hne ext_ e he hE)
    (fun l hl t => revOut_model_order (extObj e) (hp.block s) size oc.toNat nc.toNat nca.toNat l hl t)
    is' hp' (hp.block d)
  rw [Heap.setBlock_block] at key
  exact key

include hk hds hsz hd hb2 hb3 in
/-- in place (`dst == src`: one block `d`), `extension ≤ 1` (:289): every iteration allocates its temporary row block,
    swaps rows `i` and `BR(i)` when `BR(i) < i`, frees the block; iterations in any order -/
theorem C12_generated_reversal_inplace_any_order (is' : List Nat) (hp' : is'.Perm (List.range size)) :
    inOrder (NTT_reversePermutation_loop3 ⟨d, 0⟩ ⟨d, 0⟩ nc ds) is' hp
      = Loop.rangeM 0 size 1 hp (NTT_reversePermutation_loop3 ⟨d, 0⟩ ⟨d, 0⟩ nc ds)
    ∧ ∃ hp', Loop.rangeM 0 size 1 hp (NTT_reversePermutation_loop3 ⟨d, 0⟩ ⟨d, 0⟩ nc ds) = some hp' := by
  have key := inOrder_any_order (hp.setBlock d)
    (fun i D => Model.Ntt.revInBody (extObj 1) size nc.toNat i D) _ size
    (rev3_rep hp d nc ds k size hk hds hsz hd hb2 hb3)
    (fun l hl t => by subst hsz; exact revIn_model_order (extObj 1) k nc.toNat hk l hl t)
    is' hp' (hp.block d)
  rw [Heap.setBlock_block] at key
  exact key

include hk hds hsz hd hb2 hb3 in
/-- in place, `extension = e > 1` (:311); `nIn` = `nrows_in` as the function computes it: `size / e` -/
theorem C12_generated_reversal_inplace_ext_any_order (nIn : BitVec 64) (e : Nat) (he : ¬ e ≤ 1) (hN : nIn.toNat = size / e)
    (is' : List Nat) (hp' : is'.Perm (List.range size)) :
    inOrder (NTT_reversePermutation_loop4 ⟨d, 0⟩ ⟨d, 0⟩ nc ds nIn) is' hp
      = Loop.rangeM 0 size 1 hp (NTT_reversePermutation_loop4 ⟨d, 0⟩ ⟨d, 0⟩ nc ds nIn)
    ∧ ∃ hp', Loop.rangeM 0 size 1 hp (NTT_reversePermutation_loop4 ⟨d, 0⟩ ⟨d, 0⟩ nc ds nIn) = some hp' := by
  have key := inOrder_any_order (hp.setBlock d)
    (fun i D => Model.Ntt.revInBody (extObj e) size nc.toNat i D) _ size
    (rev4_rep hp d nc ds k size hk hds hsz hd hb2 hb3 nIn e he hN)
    (fun l hl t => by subst hsz; exact revIn_model_order (extObj e) k nc.toNat hk l hl t)
    is' hp' (hp.block d)
  rw [Heap.setBlock_block] at key
  exact key

end rev

/-- the lifted loop body the translated `reversePermutation` runs, with the arguments it computes: which of the four loops is
    selected by `dst == src` and `extension ≤ 1`; `domainSize = log2 size = k`, `ext_ = (size / extension) · ncols_all`,
    `nrows_in = size / extension` -/
def revLoopBody (self : NTT_Goldilocks) (d s : Nat) (size oc nc nca : BitVec 64) (k : Nat) : Nat → Heap → Option Heap :=
  if d = s then
    (if self.extension ≤ 1 then NTT_reversePermutation_loop3 ⟨d, 0⟩ ⟨s, 0⟩ nc (BitVec.ofNat 32 k)
     else NTT_reversePermutation_loop4 ⟨d, 0⟩ ⟨s, 0⟩ nc (BitVec.ofNat 32 k) (size / (I32.toU64 self.extension)))
  else
    (if self.extension ≤ 1 then NTT_reversePermutation_loop1 ⟨d, 0⟩ ⟨s, 0⟩ oc nc nca (BitVec.ofNat 32 k)
     else NTT_reversePermutation_loop2 ⟨d, 0⟩ ⟨s, 0⟩ oc nc nca (BitVec.ofNat 32 k) ((size / (I32.toU64 self.extension)) * nca))

/-- **the translated `reversePermutation`, rows in any order**: whenever its `assert` holds (in place: one column block), the
    function returns, and what it returns is its lifted loop body (`revLoopBody`: the loop and the arguments the function
    selects) run over ANY permutation of the row indices.  size = 2^k, k ≤ 32, index products below 2^64, 0 ≤ extension < 2^31. -/
theorem C12_generated_reversePermutation_any_order (fuel : Nat) (hf : log2Fuel ≤ fuel) (hp : Heap) (self : NTT_Goldilocks)
    (e : Nat) (d s : Nat) (size oc nc nca : BitVec 64) (k : Nat) (hk : k ≤ 32) (hsize : size.toNat = 2 ^ k) (hd : d < hp.size)
    (hext : self.extension = (e : Int)) (hext31 : e < 2 ^ 31)
    (hb1 : size.toNat * nca.toNat + oc.toNat < 2 ^ 64) (hb2 : size.toNat * nc.toNat < 2 ^ 64) (hb3 : nc.toNat * 8 < 2 ^ 64)
    (hassert : d = s → oc = 0#64 ∧ nc = nca) (is' : List Nat) (hp' : is'.Perm (List.range size.toNat)) :
    NTT_reversePermutation fuel hp self ⟨d, 0⟩ ⟨s, 0⟩ size oc nc nca = inOrder (revLoopBody self d s size oc nc nca k) is' hp
    ∧ ∃ hq, NTT_reversePermutation fuel hp self ⟨d, 0⟩ ⟨s, 0⟩ size oc nc nca = some hq := by
  have hne0 : size ≠ 0#64 := by
    intro h
    have h1 := congrArg BitVec.toNat h
    rw [hsize] at h1
    have h2 : 0 < 2 ^ k := Nat.pow_pos (by omega)
    have h3 : (0#64 : BitVec 64).toNat = 0 := rfl
    omega
  have hlogk : Model.Ntt.log2 size.toNat = k := by rw [hsize]; exact Nat.log2_two_pow
  have hlog := log2_gen_eq fuel hf size hne0
  rw [hlogk] at hlog
  have hds : (BitVec.ofNat 32 k).toNat = k := by
    rw [BitVec.toNat_ofNat]; exact Nat.mod_eq_of_lt (by omega)
  have hextu : I32.toU64 self.extension = BitVec.ofNat 64 e := by
    rw [hext]; simp only [I32.toU64, BitVec.ofInt_natCast]
  have hextn : (BitVec.ofNat 64 e).toNat = e := ofNat_toNat_lt _ (by omega)
  have hnin : (size / BitVec.ofNat 64 e).toNat = size.toNat / e := by rw [BitVec.toNat_udiv, hextn]
  have hextd : self.extension ≤ 1 ↔ e ≤ 1 := by rw [hext]; omega
  unfold NTT_reversePermutation revLoopBody
  simp only [hlog, Option.bind_some, ptr_ne, bind_some_id, hextu]
  by_cases hds' : d = s
  · subst hds'
    obtain ⟨rfl, rfl⟩ := hassert rfl
    simp only [decide_true, Bool.not_true, Bool.false_eq_true, if_false, if_true, beq_self_eq_true, Bool.and_self]
    by_cases he : e ≤ 1
    · have he' : self.extension ≤ 1 := hextd.2 he
      simp only [he', decide_true, if_true]
      have key := C12_generated_reversal_inplace_any_order hp d nc (BitVec.ofNat 32 k) k size.toNat hk hds hsize hd hb2 hb3
        is' hp'
      exact ⟨key.1.symm, key.2⟩
    · have he' : ¬ self.extension ≤ 1 := fun h => he (hextd.1 h)
      simp only [he', decide_false, if_false, Bool.false_eq_true]
      have key := C12_generated_reversal_inplace_ext_any_order hp d nc (BitVec.ofNat 32 k) k size.toNat hk hds hsize hd hb2 hb3
        (size / BitVec.ofNat 64 e) e he hnin is' hp'
      exact ⟨key.1.symm, key.2⟩
  · simp only [hds', decide_false, Bool.not_false, if_true, if_false]
    by_cases he : e ≤ 1
    · have he' : self.extension ≤ 1 := hextd.2 he
      simp only [he', decide_true, if_true]
      have key := C12_generated_reversal_out_any_order hp d s oc nc nca (BitVec.ofNat 32 k) k size.toNat hk hds hsize hd hb1 hb2
        hb3 hds' is' hp'
      exact ⟨key.1.symm, key.2⟩
    · have he' : ¬ self.extension ≤ 1 := fun h => he (hextd.1 h)
      have hE : (size / BitVec.ofNat 64 e * nca).toNat = size.toNat / e * nca.toNat := by
        have hle : size.toNat / e * nca.toNat ≤ size.toNat * nca.toNat :=
          Nat.mul_le_mul_right _ (Nat.div_le_self _ _)
        rw [BridgeNtt.mul_toNat _ _ (by rw [hnin]; omega), hnin]
      simp only [he', decide_false, if_false, Bool.false_eq_true]
      have key := C12_generated_reversal_out_ext_any_order hp d s oc nc nca (BitVec.ofNat 32 k) k size.toNat hk hds hsize hd hb1
        hb2 hb3 hds' _ e he hE is' hp'
      exact ⟨key.1.symm, key.2⟩

/-! ### parcpy: the chunk loop (goldilocks_base_field.cpp:72; body `parcpy_loop1`, a `Loop.whileM` on `(heap, i)`) -/

open GoldilocksVerif.ParCopy in
/-- **generated parcpy, chunks in any order.**  `chunkBody … i` (Lemmas/ParGenCopy.lean) is the lifted body `parcpy_loop1` run
    for the chunk that starts at `i`.  For every permutation `order` of the hand model's chunk starts
    (`ParCopy.starts`, which `ParGen.parcpy_seq` shows to be the starts the generated loop visits), running the generated
    body over `order` gives what the generated `parcpy` returns.  `dst`, `src` = distinct blocks; `size·8` bytes fit in 64
    bits; any `int` thread count (zero and negative included); fuel > number of chunks.
    Proof: per-chunk bridge `ParGen.chunk_rep` + `C12_parcpy_chunks` (Bernstein's conditions for the chunks). -/
theorem C12_generated_parcpy_any_order (fuel : Nat) (hp : Heap) (D S : Nat) (hD : D < hp.size) (hne : D ≠ S)
    (size : BitVec 64) (nt : Int) (hnt : nt < 2 ^ 31) (hs8 : size.toNat * 8 < 2 ^ 64)
    (hfuel : (starts size.toNat nt).length < fuel) (order : List Nat) (hperm : order.Perm (starts size.toNat nt)) :
    inOrder (chunkBody ⟨D, 0⟩ ⟨S, 0⟩ size (genChunk size nt)) order hp = parcpy fuel hp ⟨D, 0⟩ ⟨S, 0⟩ size nt
    ∧ ∃ hp', parcpy fuel hp ⟨D, 0⟩ ⟨S, 0⟩ size nt = some hp' := by
  have key := inOrder_rep (hp.setBlock D) (fun i B => cpyChunk size.toNat nt i (hp.block S) B)
    (chunkBody ⟨D, 0⟩ ⟨S, 0⟩ size (genChunk size nt)) order
    (fun i hi B => chunk_rep hp D S hD hne size nt hnt hs8 i ((hperm.mem_iff).1 hi) B) (hp.block D)
  rw [Heap.setBlock_block] at key
  have hord : order.foldl (fun B i => cpyChunk size.toNat nt i (hp.block S) B) (hp.block D)
      = (starts size.toNat nt).foldl (fun B i => cpyChunk size.toNat nt i (hp.block S) B) (hp.block D) := by
    refine writers_any_order (fun i => cpyChunk size.toNat nt i) _ _ (fun i => cpyChunk_writer size.toNat nt i) _ _ hperm ?_
      (hp.block S) (hp.block D)
    intro i hi i' hi' hne'
    refine (C12_parcpy_chunks 1 0 size.toNat nt i i' (by decide) ((hperm.mem_iff).1 hi) ((hperm.mem_iff).1 hi') hne').congr
      ?_ ?_ ?_ ?_
    all_goals
      rintro ⟨b, j⟩ ⟨hb, h1, h2⟩
      exact ⟨hb, h1, h2⟩
  rw [key, hord, parcpy_seq hp D S hD hne size nt hnt hs8 fuel hfuel]
  exact ⟨rfl, _, rfl⟩

/-! ### parSetZero: the chunk loop (goldilocks_base_field.cpp:93; body `parSetZero_loop1` of Gen/ParZeroGen.lean) -/

open GoldilocksVerif.ParCopy in
/-- **generated parSetZero, chunks in any order.**  `zChunkBody … i` (Lemmas/ParGenZero.lean) is the lifted body
    `Gen.ParZeroGen.parSetZero_loop1` run for the chunk that starts at `i`.  For every permutation `order` of the hand model's chunk
    starts (`ParCopy.starts`, which `ParGen.parSetZero_seq` shows to be the starts the generated loop visits), running the generated
    body over `order` gives what the generated `parSetZero` returns.  `size·8` bytes fit in 64 bits; any `int` thread count (zero
    and negative included); fuel > number of chunks.
    Proof: per-chunk bridge `ParGen.zchunk_rep` + `C12_parcpy_chunks` (Bernstein's conditions for the chunks; nothing is read). -/
theorem C12_generated_parSetZero_any_order (fuel : Nat) (hp : Heap) (D : Nat) (hD : D < hp.size)
    (size : BitVec 64) (nt : Int) (hnt : nt < 2 ^ 31) (hs8 : size.toNat * 8 < 2 ^ 64)
    (hfuel : (starts size.toNat nt).length < fuel) (order : List Nat) (hperm : order.Perm (starts size.toNat nt)) :
    inOrder (zChunkBody ⟨D, 0⟩ size (genChunk size nt)) order hp = Gen.ParZeroGen.parSetZero fuel hp ⟨D, 0⟩ size nt
    ∧ ∃ hp', Gen.ParZeroGen.parSetZero fuel hp ⟨D, 0⟩ size nt = some hp' := by
  have key := inOrder_rep (hp.setBlock D) (fun i B => zeroChunk size.toNat nt i #[] B)
    (zChunkBody ⟨D, 0⟩ size (genChunk size nt)) order
    (fun i hi B => zchunk_rep hp D hD size nt hnt hs8 #[] i ((hperm.mem_iff).1 hi) B) (hp.block D)
  rw [Heap.setBlock_block] at key
  have hord : order.foldl (fun B i => zeroChunk size.toNat nt i #[] B) (hp.block D)
      = (starts size.toNat nt).foldl (fun B i => zeroChunk size.toNat nt i #[] B) (hp.block D) := by
    refine writers_any_order (fun i => zeroChunk size.toNat nt i) _ _ (fun i => zeroChunk_writer size.toNat nt i) _ _ hperm ?_
      #[] (hp.block D)
    intro i hi i' hi' hne'
    refine (C12_parcpy_chunks 1 0 size.toNat nt i i' (by decide) ((hperm.mem_iff).1 hi) ((hperm.mem_iff).1 hi') hne').congr
      ?_ ?_ ?_ ?_
    · rintro ⟨b, j⟩ ⟨_, hf⟩; exact hf.elim
    · rintro ⟨b, j⟩ ⟨hb, h1, h2⟩; exact ⟨hb, h1, h2⟩
    · rintro ⟨b, j⟩ ⟨_, hf⟩; exact hf.elim
    · rintro ⟨b, j⟩ ⟨hb, h1, h2⟩; exact ⟨hb, h1, h2⟩
  rw [key, hord, parSetZero_seq hp D hD size nt hnt hs8 #[] fuel hfuel]
  exact ⟨rfl, _, rfl⟩

/-! ### Merkle builders: leaf loops and level loops of the generated builders

  The generated bodies work on ONE tree buffer (a `Region`).  `mtLeafG LH`, `mtbLeafG LH`, `mt512LeafG LH2 LH1`, `mtNodeG H`
  (Lemmas/BridgeMerkle*.lean) are the generated text with the hash calls as parameters — the lifted bodies
  `Pos_merkletree_*_loopK` are instances BY UNFOLDING (`rfl`), so a change of a loop body breaks its instance theorem below.
  Frame and dependency of the bodies (Lemmas/ParGenMerkle.lean: `fillIter`, `nodeIter`) are derived from that text and from
  what the bridge proves of the hashes (`LeafHash`, `PairHash`: the digest words are written, nothing else, and they do
  not depend on the output buffer; `NodeHash`: 4 words, a function of the 12 input words); their footprints are, up to
  presentation, those of `C12_merkle_leaves` / `C12_merkle_level`.  Unlike `C12_model_merkle_*` (a hand-written imperative
  rendering), these are statements about the translated loop bodies themselves.
  Covered: leaf + level loop of all six builders (`merkletree_seq`, `_avx`, `_avx512`, `_batch_seq`, `_batch_avx`,
  `_batch_avx512`; the last one's leaf loop for an even number 2^(k+1) of rows only). -/

section GenMerkle
open Gen.MerkleGen

/-- a counted loop that hands iteration `m` the buffer at `4k·m` and lets it write at most `4k` digest words there (the form
    of every leaf loop, `fill_spec`): the iterations in any order give the generated loop's buffer -/
theorem C12_generated_merkle_fill_any_order (k : Nat) (w : Nat → Nat) (f G : Nat → Region → Option Region)
    (D : Nat → List Model.Wd) (N : Nat)
    (hf : ∀ m, m < N → ∀ t, f m t = (G m (Region.shift t (4 * k * m))).bind fun r => some (Region.unshift t (4 * k * m) r))
    (hG : ∀ m, m < N → DigestWriter (w m) (G m) (D m)) (hw : ∀ m, w m ≤ 4 * k) (tree : Region)
    (is' : List Nat) (hp : is'.Perm (List.range N)) :
    inOrder f is' tree = Loop.rangeM 0 N 1 tree f ∧ ∃ t', Loop.rangeM 0 N 1 tree f = some t' := by
  refine inOrder_any_order id (fun m => (fillIter (4 * k) w f G D N hf hG m).run) _ N
    (fun m hm t => (fill_step_spec (4 * k) w f G D N hf hG m hm t).1)
    (fun l hl t => any_order (fillIter (4 * k) w f G D N hf hG) l _ hl ?_ t) is' hp tree
  intro i _ i' _ hne
  have e1 : ∀ i : Nat, i * (4 * k) = 4 * k * i := fun i => Nat.mul_comm _ _
  have e2 : ∀ i : Nat, (i + 1) * (4 * k) = 4 * k * i + 4 * k := fun i => by rw [Nat.add_mul, Nat.one_mul, Nat.mul_comm]
  refine (C12_merkle_leaves 0 1 k 0 i i' (by decide) hne).congr ?_ ?_ ?_ ?_
  · rintro ⟨b, j⟩ ⟨_, h⟩; exact h.elim
  · rintro ⟨b, j⟩ ⟨hb, _, h1, h2⟩
    have := hw i
    exact ⟨hb, by rw [e1]; exact h1, by rw [e2]; omega⟩
  · rintro ⟨b, j⟩ ⟨_, h⟩; exact h.elim
  · rintro ⟨b, j⟩ ⟨hb, _, h1, h2⟩
    have := hw i'
    exact ⟨hb, by rw [e1]; exact h1, by rw [e2]; omega⟩

/-- leaf loop of `merkletree_seq` / `merkletree_avx`, generic in the linear hash: the rows in any order.
    No hypothesis on shapes: the tree words are addressed by `4·i` (no 64-bit arithmetic), the input is another buffer. -/
theorem C12_generated_merkle_leaves_any_order (LH : Nat → Region → Region → BitVec 64 → Option Region)
    (leaf : List Model.Wd → List Model.Wd) (hLH : LeafHash LH leaf) (fuel : Nat) (input tree : Region)
    (num_cols dim : BitVec 64) (hf : (num_cols * dim).toNat < fuel) (R : Nat)
    (is' : List Nat) (hp : is'.Perm (List.range R)) :
    inOrder (mtLeafG LH fuel input num_cols dim) is' tree = Loop.rangeM 0 R 1 tree (mtLeafG LH fuel input num_cols dim)
    ∧ ∃ t', Loop.rangeM 0 R 1 tree (mtLeafG LH fuel input num_cols dim) = some t' :=
  C12_generated_merkle_fill_any_order 1 (fun _ => 4) (mtLeafG LH fuel input num_cols dim) _ _ R
    (fun m _ t => mtLeafG_fill LH fuel input num_cols dim m t)
    (fun m _ => mtLeafG_writer LH leaf hLH fuel input num_cols dim hf m) (fun _ => Nat.le_refl _) tree is' hp

/-- leaf loop of the batched builders, generic in the linear hash (`buff0` is private to the iteration).
    Shape hypotheses as in the bridge (`mtb_leaves`): they make the inner loop over the column batches return. -/
theorem C12_generated_merkle_batch_leaves_any_order (LH : Nat → Region → Region → BitVec 64 → Option Region)
    (leaf : List Model.Wd → List Model.Wd) (hLH : LeafHash LH leaf) (fuel : Nat) (input tree : Region)
    (num_cols batch_size dim nbatches nlastb : BitVec 64) (c b d R : Nat) (hc : num_cols.toNat = c)
    (hbv : batch_size.toNat = b) (hd : dim.toNat = d) (hb : 1 ≤ b) (hprod : R * (c * d) < 2 ^ 64) (hcb : c + b < 2 ^ 62)
    (hnb : nbatches.toNat = nbOf c b) (hnl : nlastb.toNat = nlastOf c b) (hf1 : c * d < fuel) (hf3 : 4 * (c + 1) < fuel)
    (is' : List Nat) (hp : is'.Perm (List.range R)) :
    inOrder (mtbLeafG LH fuel input num_cols batch_size dim nbatches nlastb) is' tree
      = Loop.rangeM 0 R 1 tree (mtbLeafG LH fuel input num_cols batch_size dim nbatches nlastb)
    ∧ ∃ t', Loop.rangeM 0 R 1 tree (mtbLeafG LH fuel input num_cols batch_size dim nbatches nlastb) = some t' :=
  C12_generated_merkle_fill_any_order 1 (fun _ => 4) (mtbLeafG LH fuel input num_cols batch_size dim nbatches nlastb) _ _ R
    (fun i _ t => mtbLeafG_fill LH fuel input num_cols batch_size dim nbatches nlastb i t)
    (fun i hi => mtbLeafG_writer LH leaf hLH fuel input num_cols batch_size dim nbatches nlastb c b d R hc hbv hd hb hprod hcb
      hnb hnl hf1 hf3 i hi) (fun _ => Nat.le_refl _) tree is' hp

/-- leaf loop of `merkletree_avx512` (`for (i = 0; i < num_rows; i += 2)`: iteration `m` handles rows `2m`, `2m+1` through the
    two-state hash, an odd last row through the one-state hash), generic in the two hashes: the pairs in any order.
    No shape hypothesis. -/
theorem C12_generated_merkle_pair_leaves_any_order (LH2 LH1 : Nat → Region → Region → BitVec 64 → Option Region)
    (leaf1 : List Model.Wd → List Model.Wd) (leaf2 : List Model.Wd → Nat → List Model.Wd) (hLH1 : LeafHash LH1 leaf1)
    (hLH2 : PairHash LH2 leaf2) (fuel : Nat) (input tree : Region) (num_cols num_rows dim : BitVec 64)
    (hf : (num_cols * dim).toNat < fuel) (n : Nat) (is' : List Nat) (hp : is'.Perm (List.range ((n + 1) / 2))) :
    inOrder (fun m => mt512LeafG LH2 LH1 fuel input num_cols num_rows dim (2 * m)) is' tree
      = Loop.rangeM 0 n 2 tree (mt512LeafG LH2 LH1 fuel input num_cols num_rows dim)
    ∧ ∃ t', Loop.rangeM 0 n 2 tree (mt512LeafG LH2 LH1 fuel input num_cols num_rows dim) = some t' := by
  rw [rangeM_zero_two, ← rangeM_zero_one]
  exact C12_generated_merkle_fill_any_order 2 (pairW num_rows)
    (fun m => mt512LeafG LH2 LH1 fuel input num_cols num_rows dim (2 * m)) _ _ ((n + 1) / 2)
    (fun m _ t => mt512LeafG_fill LH2 LH1 fuel input num_cols num_rows dim m t)
    (fun m _ => mt512LeafG_writer LH2 LH1 fuel input num_cols num_rows dim leaf1 leaf2 hLH1 hLH2 hf m)
    (pairW_le num_rows) tree is' hp

/-- leaf loop of `merkletree_batch_avx512` for `num_rows = 2^(k+1)` rows (every iteration hashes two rows through the
    two-state hash; both `buff0` halves are private to the iteration), generic in the two hashes: the pairs in any order.
    Shape hypotheses as in the bridge (`mtb512_leaves`). -/
theorem C12_generated_merkle_batch_pair_leaves_any_order (LH2 LH1 : Nat → Region → Region → BitVec 64 → Option Region)
    (leaf2 : List Model.Wd → Nat → List Model.Wd) (hLH2 : PairHash LH2 leaf2) (fuel : Nat) (input tree : Region)
    (num_cols num_rows batch_size dim nbatches nlastb : BitVec 64) (c b d k : Nat) (hR : num_rows.toNat = 2 ^ (k + 1))
    (hc : num_cols.toNat = c) (hbv : batch_size.toNat = b) (hd : dim.toNat = d) (hb : 1 ≤ b)
    (hprod : 2 ^ (k + 1) * (c * d) < 2 ^ 64) (h61 : c * d < 2 ^ 61) (hcb : c + b < 2 ^ 61)
    (hnb : nbatches.toNat = nbOf c b) (hnl : nlastb.toNat = nlastOf c b) (hf1 : c * d < fuel) (hf3 : 4 * (c + 1) < fuel)
    (is' : List Nat) (hp : is'.Perm (List.range (2 ^ k))) :
    inOrder (fun m => mtb512LeafG LH2 LH1 fuel input num_cols num_rows batch_size dim nbatches nlastb (2 * m)) is' tree
      = Loop.rangeM 0 (2 ^ (k + 1)) 2 tree (mtb512LeafG LH2 LH1 fuel input num_cols num_rows batch_size dim nbatches nlastb)
    ∧ ∃ t', Loop.rangeM 0 (2 ^ (k + 1)) 2 tree
        (mtb512LeafG LH2 LH1 fuel input num_cols num_rows batch_size dim nbatches nlastb) = some t' := by
  have hN : (2 ^ (k + 1) + 1) / 2 = 2 ^ k := by
    have h2p : (2 : Nat) ^ (k + 1) = 2 * 2 ^ k := by rw [Nat.pow_succ]; omega
    omega
  rw [rangeM_zero_two, hN, ← rangeM_zero_one]
  exact C12_generated_merkle_fill_any_order 2 (fun _ => 8)
    (fun m => mtb512LeafG LH2 LH1 fuel input num_cols num_rows batch_size dim nbatches nlastb (2 * m)) _ _ (2 ^ k)
    (fun m hm t => mtb512LeafG_fill LH2 LH1 fuel input num_cols num_rows batch_size dim nbatches nlastb k hR m hm t)
    (fun m hm => mtb512LeafG_writer LH2 fuel input num_cols batch_size dim nbatches nlastb leaf2 hLH2 c b d k hc hbv hd hb
      hprod h61 hcb hnb hnl hf1 hf3 m hm)
    (fun _ => Nat.le_refl _) tree is' hp

/-- level loop, generic in the capacity hash: level of `p` nodes stored from word `ni`, `m ≤ p/2` parent nodes, offsets
    below 2^60 (no wrap of the 64-bit index arithmetic): the nodes in any order give the generated loop's tree buffer -/
theorem C12_generated_merkle_level_any_order (H : Region → Region → Region) (nodeF : List Model.Wd → List Model.Wd)
    (hH : NodeHash H nodeF) (pending nextIndex : BitVec 64) (ni p m : Nat) (hni : nextIndex.toNat = ni)
    (hpe : pending.toNat = p) (hm : 2 * m ≤ p) (hsmall : ni + 8 * p < 2 ^ 60) (tree : Region)
    (is' : List Nat) (hp : is'.Perm (List.range m)) :
    inOrder (mtNodeG H pending nextIndex) is' tree = Loop.rangeM 0 m 1 tree (mtNodeG H pending nextIndex)
    ∧ ∃ t', Loop.rangeM 0 m 1 tree (mtNodeG H pending nextIndex) = some t' := by
  refine inOrder_any_order id (fun i => (nodeIter H nodeF hH ni p i).run) _ m
    (fun i hi t => node_some H pending nextIndex ni p m hni hpe hm hsmall i hi t)
    (fun l hl t => any_order (nodeIter H nodeF hH ni p) l _ hl ?_ t) is' hp tree
  intro i hi i' hi' hne
  have hi := List.mem_range.1 ((hl.mem_iff).1 hi)
  have hi' := List.mem_range.1 ((hl.mem_iff).1 hi')
  refine (C12_merkle_level 0 ni p 1 m i i' (by omega) hi hi' hne).congr ?_ ?_ ?_ ?_
  all_goals
    rintro ⟨b, j⟩ ⟨hb, h1, h2⟩
    exact ⟨hb, by omega, by omega⟩

/-! #### the hypotheses on the hashes, discharged by the bridge -/

theorem C12_linear_hash_seq_leaf : LeafHash Gen.LinearHashGen.Pos_linear_hash_seq (Model.linearHash permSeqList) := by
  intro fuel out inp size hf
  rw [lh_seq_generic]
  exact lhGenG_spec _ permSeqList perm_seq_hP fuel out inp size hf

theorem C12_linear_hash_avx_leaf : LeafHash Gen.LinearHashGen.Pos_linear_hash (Model.linearHash permAvxList) := by
  intro fuel out inp size hf
  rw [lh_avx_generic]
  exact lhGenG_spec _ permAvxList perm_avx_hP fuel out inp size hf

theorem C12_linear_hash_avx512_pair :
    PairHash Gen.LinearHashGen.Pos_linear_hash_avx512 (Model.linearHash512 perm512List) := by
  intro fuel out inp size hf
  rw [lh512_generic]
  exact lh512GenG_spec _ perm512List perm512_hP fuel out inp size hf

/-! #### the six builders (NO hypothesis on the hashes) -/

/-- `merkletree_seq`, leaf loop (poseidon_goldilocks.cpp:87) -/
theorem C12_generated_merkletree_seq_leaves_any_order (fuel : Nat) (input tree : Region) (num_cols dim : BitVec 64)
    (hf : (num_cols * dim).toNat < fuel) (R : Nat) (is' : List Nat) (hp : is'.Perm (List.range R)) :
    inOrder (Pos_merkletree_seq_loop1 fuel input num_cols dim) is' tree
      = Loop.rangeM 0 R 1 tree (Pos_merkletree_seq_loop1 fuel input num_cols dim)
    ∧ ∃ t', Loop.rangeM 0 R 1 tree (Pos_merkletree_seq_loop1 fuel input num_cols dim) = some t' := by
  have e : Pos_merkletree_seq_loop1 fuel input num_cols dim = mtLeafG Gen.LinearHashGen.Pos_linear_hash_seq fuel input num_cols dim := by
    funext i st; rfl
  rw [e]
  exact C12_generated_merkle_leaves_any_order _ _ C12_linear_hash_seq_leaf fuel input tree num_cols dim hf R is' hp

/-- `merkletree_avx`, leaf loop -/
theorem C12_generated_merkletree_avx_leaves_any_order (fuel : Nat) (input tree : Region) (num_cols dim : BitVec 64)
    (hf : (num_cols * dim).toNat < fuel) (R : Nat) (is' : List Nat) (hp : is'.Perm (List.range R)) :
    inOrder (Pos_merkletree_avx_loop1 fuel input num_cols dim) is' tree
      = Loop.rangeM 0 R 1 tree (Pos_merkletree_avx_loop1 fuel input num_cols dim)
    ∧ ∃ t', Loop.rangeM 0 R 1 tree (Pos_merkletree_avx_loop1 fuel input num_cols dim) = some t' := by
  have e : Pos_merkletree_avx_loop1 fuel input num_cols dim = mtLeafG Gen.LinearHashGen.Pos_linear_hash fuel input num_cols dim := by
    funext i st; rfl
  rw [e]
  exact C12_generated_merkle_leaves_any_order _ _ C12_linear_hash_avx_leaf fuel input tree num_cols dim hf R is' hp

/-- `merkletree_avx512`, leaf loop (step 2: the pairs of rows in any order) -/
theorem C12_generated_merkletree_avx512_leaves_any_order (fuel : Nat) (input tree : Region) (num_cols num_rows dim : BitVec 64)
    (hf : (num_cols * dim).toNat < fuel) (n : Nat) (is' : List Nat) (hp : is'.Perm (List.range ((n + 1) / 2))) :
    inOrder (fun m => Pos_merkletree_avx512_loop1 fuel input num_cols num_rows dim (2 * m)) is' tree
      = Loop.rangeM 0 n 2 tree (Pos_merkletree_avx512_loop1 fuel input num_cols num_rows dim)
    ∧ ∃ t', Loop.rangeM 0 n 2 tree (Pos_merkletree_avx512_loop1 fuel input num_cols num_rows dim) = some t' := by
  have e : Pos_merkletree_avx512_loop1 fuel input num_cols num_rows dim =
      mt512LeafG Gen.LinearHashGen.Pos_linear_hash_avx512 Gen.LinearHashGen.Pos_linear_hash fuel input num_cols num_rows dim := by
    funext i st; rfl
  rw [e]
  exact C12_generated_merkle_pair_leaves_any_order _ _ _ _ C12_linear_hash_avx_leaf C12_linear_hash_avx512_pair fuel input tree
    num_cols num_rows dim hf n is' hp

/-- `merkletree_batch_seq`, leaf loop -/
theorem C12_generated_merkletree_batch_seq_leaves_any_order (fuel : Nat) (input tree : Region)
    (num_cols batch_size dim nbatches nlastb : BitVec 64) (c b d R : Nat) (hc : num_cols.toNat = c)
    (hbv : batch_size.toNat = b) (hd : dim.toNat = d) (hb : 1 ≤ b) (hprod : R * (c * d) < 2 ^ 64) (hcb : c + b < 2 ^ 62)
    (hnb : nbatches.toNat = nbOf c b) (hnl : nlastb.toNat = nlastOf c b) (hf1 : c * d < fuel) (hf3 : 4 * (c + 1) < fuel)
    (is' : List Nat) (hp : is'.Perm (List.range R)) :
    inOrder (Pos_merkletree_batch_seq_loop2 fuel input num_cols batch_size dim nbatches nlastb) is' tree
      = Loop.rangeM 0 R 1 tree (Pos_merkletree_batch_seq_loop2 fuel input num_cols batch_size dim nbatches nlastb)
    ∧ ∃ t', Loop.rangeM 0 R 1 tree (Pos_merkletree_batch_seq_loop2 fuel input num_cols batch_size dim nbatches nlastb) = some t' := by
  have e1 : Pos_merkletree_batch_seq_loop1 = mtbInnerG Gen.LinearHashGen.Pos_linear_hash_seq := by
    funext fuel input nc bs dim nb nl i j st; rfl
  have e : Pos_merkletree_batch_seq_loop2 fuel input num_cols batch_size dim nbatches nlastb =
      mtbLeafG Gen.LinearHashGen.Pos_linear_hash_seq fuel input num_cols batch_size dim nbatches nlastb := by
    funext i st; unfold Pos_merkletree_batch_seq_loop2 mtbLeafG; rw [e1]
  rw [e]
  exact C12_generated_merkle_batch_leaves_any_order _ _ C12_linear_hash_seq_leaf fuel input tree num_cols batch_size dim nbatches
    nlastb c b d R hc hbv hd hb hprod hcb hnb hnl hf1 hf3 is' hp

/-- `merkletree_batch_avx`, leaf loop -/
theorem C12_generated_merkletree_batch_avx_leaves_any_order (fuel : Nat) (input tree : Region)
    (num_cols batch_size dim nbatches nlastb : BitVec 64) (c b d R : Nat) (hc : num_cols.toNat = c)
    (hbv : batch_size.toNat = b) (hd : dim.toNat = d) (hb : 1 ≤ b) (hprod : R * (c * d) < 2 ^ 64) (hcb : c + b < 2 ^ 62)
    (hnb : nbatches.toNat = nbOf c b) (hnl : nlastb.toNat = nlastOf c b) (hf1 : c * d < fuel) (hf3 : 4 * (c + 1) < fuel)
    (is' : List Nat) (hp : is'.Perm (List.range R)) :
    inOrder (Pos_merkletree_batch_avx_loop2 fuel input num_cols batch_size dim nbatches nlastb) is' tree
      = Loop.rangeM 0 R 1 tree (Pos_merkletree_batch_avx_loop2 fuel input num_cols batch_size dim nbatches nlastb)
    ∧ ∃ t', Loop.rangeM 0 R 1 tree (Pos_merkletree_batch_avx_loop2 fuel input num_cols batch_size dim nbatches nlastb) = some t' := by
  have e1 : Pos_merkletree_batch_avx_loop1 = mtbInnerG Gen.LinearHashGen.Pos_linear_hash := by
    funext fuel input nc bs dim nb nl i j st; rfl
  have e : Pos_merkletree_batch_avx_loop2 fuel input num_cols batch_size dim nbatches nlastb =
      mtbLeafG Gen.LinearHashGen.Pos_linear_hash fuel input num_cols batch_size dim nbatches nlastb := by
    funext i st; unfold Pos_merkletree_batch_avx_loop2 mtbLeafG; rw [e1]
  rw [e]
  exact C12_generated_merkle_batch_leaves_any_order _ _ C12_linear_hash_avx_leaf fuel input tree num_cols batch_size dim nbatches
    nlastb c b d R hc hbv hd hb hprod hcb hnb hnl hf1 hf3 is' hp

/-- `merkletree_batch_avx512`, leaf loop, `num_rows = 2^(k+1)` -/
theorem C12_generated_merkletree_batch_avx512_leaves_any_order (fuel : Nat) (input tree : Region)
    (num_cols num_rows batch_size dim nbatches nlastb : BitVec 64) (c b d k : Nat) (hR : num_rows.toNat = 2 ^ (k + 1))
    (hc : num_cols.toNat = c) (hbv : batch_size.toNat = b) (hd : dim.toNat = d) (hb : 1 ≤ b)
    (hprod : 2 ^ (k + 1) * (c * d) < 2 ^ 64) (h61 : c * d < 2 ^ 61) (hcb : c + b < 2 ^ 61)
    (hnb : nbatches.toNat = nbOf c b) (hnl : nlastb.toNat = nlastOf c b) (hf1 : c * d < fuel) (hf3 : 4 * (c + 1) < fuel)
    (is' : List Nat) (hp : is'.Perm (List.range (2 ^ k))) :
    inOrder (fun m => Pos_merkletree_batch_avx512_loop3 fuel input num_cols num_rows batch_size dim nbatches nlastb (2 * m)) is' tree
      = Loop.rangeM 0 (2 ^ (k + 1)) 2 tree
          (Pos_merkletree_batch_avx512_loop3 fuel input num_cols num_rows batch_size dim nbatches nlastb)
    ∧ ∃ t', Loop.rangeM 0 (2 ^ (k + 1)) 2 tree
        (Pos_merkletree_batch_avx512_loop3 fuel input num_cols num_rows batch_size dim nbatches nlastb) = some t' := by
  have e1 : Pos_merkletree_batch_avx512_loop1 = mtbInnerG Gen.LinearHashGen.Pos_linear_hash := by
    funext fuel input nc bs dim nb nl i j st; rfl
  have e2 : Pos_merkletree_batch_avx512_loop2 = mtb512InnerG Gen.LinearHashGen.Pos_linear_hash_avx512 := by
    funext fuel input nc bs dim nb nl i j st; rfl
  have e : Pos_merkletree_batch_avx512_loop3 fuel input num_cols num_rows batch_size dim nbatches nlastb =
      mtb512LeafG Gen.LinearHashGen.Pos_linear_hash_avx512 Gen.LinearHashGen.Pos_linear_hash fuel input num_cols num_rows
        batch_size dim nbatches nlastb := by
    funext i st; unfold Pos_merkletree_batch_avx512_loop3 mtb512LeafG; rw [e1, e2]
  rw [e]
  exact C12_generated_merkle_batch_pair_leaves_any_order _ _ _ C12_linear_hash_avx512_pair fuel input tree num_cols num_rows
    batch_size dim nbatches nlastb c b d k hR hc hbv hd hb hprod h61 hcb hnb hnl hf1 hf3 is' hp

/-- the level loops of the six builders: `merkletree_seq`, `merkletree_batch_seq` call the scalar `hash_seq`; `merkletree_avx`,
    `merkletree_avx512`, `merkletree_batch_avx`, `merkletree_batch_avx512` the AVX2 `hash` — six lifted bodies, each an instance
    of `mtNodeG` by unfolding -/
theorem C12_generated_merkletree_level_loops_any_order (pending nextIndex : BitVec 64) (ni p m : Nat)
    (hni : nextIndex.toNat = ni) (hpe : pending.toNat = p) (hm : 2 * m ≤ p) (hsmall : ni + 8 * p < 2 ^ 60) (tree : Region)
    (is' : List Nat) (hp : is'.Perm (List.range m)) :
    ∀ body ∈ [Pos_merkletree_seq_loop2 pending nextIndex, Pos_merkletree_avx_loop2 pending nextIndex,
        Pos_merkletree_avx512_loop2 pending nextIndex, Pos_merkletree_batch_seq_loop3 pending nextIndex,
        Pos_merkletree_batch_avx_loop3 pending nextIndex, Pos_merkletree_batch_avx512_loop4 pending nextIndex],
      inOrder body is' tree = Loop.rangeM 0 m 1 tree body ∧ ∃ t', Loop.rangeM 0 m 1 tree body = some t' := by
  have hs := C12_generated_merkle_level_any_order _ nodeSeqList hash_seq_node pending nextIndex ni p m hni hpe hm hsmall tree is' hp
  have ha := C12_generated_merkle_level_any_order _ nodeAvxList hash_avx_node pending nextIndex ni p m hni hpe hm hsmall tree is' hp
  have e1 : Pos_merkletree_seq_loop2 pending nextIndex = mtNodeG Gen.PosScalar.Pos_hash_seq pending nextIndex := by
    funext i st; rfl
  have e2 : Pos_merkletree_avx_loop2 pending nextIndex = mtNodeG Gen.PosAvx2.Pos_hash pending nextIndex := by
    funext i st; rfl
  have e3 : Pos_merkletree_avx512_loop2 pending nextIndex = mtNodeG Gen.PosAvx2.Pos_hash pending nextIndex := by
    funext i st; rfl
  have e4 : Pos_merkletree_batch_seq_loop3 pending nextIndex = mtNodeG Gen.PosScalar.Pos_hash_seq pending nextIndex := by
    funext i st; rfl
  have e5 : Pos_merkletree_batch_avx_loop3 pending nextIndex = mtNodeG Gen.PosAvx2.Pos_hash pending nextIndex := by
    funext i st; rfl
  have e6 : Pos_merkletree_batch_avx512_loop4 pending nextIndex = mtNodeG Gen.PosAvx2.Pos_hash pending nextIndex := by
    funext i st; rfl
  intro body hb
  simp only [List.mem_cons, List.not_mem_nil, or_false] at hb
  rcases hb with rfl | rfl | rfl | rfl | rfl | rfl
  · rw [e1]; exact hs
  · rw [e2]; exact ha
  · rw [e3]; exact ha
  · rw [e4]; exact hs
  · rw [e5]; exact ha
  · rw [e6]; exact ha

-- not vacuous: an explicit non-sequential order of the four leaf iterations of the translated `merkletree_seq`, from any tree
-- buffer, any input, any shape; and of the two pair iterations of the translated `merkletree_avx512` on four rows
example (fuel : Nat) (input tree : Region) (num_cols dim : BitVec 64) (hf : (num_cols * dim).toNat < fuel) :
    inOrder (Pos_merkletree_seq_loop1 fuel input num_cols dim) [2, 0, 3, 1] tree
      = Loop.rangeM 0 4 1 tree (Pos_merkletree_seq_loop1 fuel input num_cols dim) :=
  (C12_generated_merkletree_seq_leaves_any_order fuel input tree num_cols dim hf 4 [2, 0, 3, 1] (by decide)).1

example (fuel : Nat) (input tree : Region) (num_cols dim : BitVec 64) (hf : (num_cols * dim).toNat < fuel) :
    inOrder (fun m => Pos_merkletree_avx512_loop1 fuel input num_cols 4#64 dim (2 * m)) [1, 0] tree
      = Loop.rangeM 0 4 2 tree (Pos_merkletree_avx512_loop1 fuel input num_cols 4#64 dim) :=
  (C12_generated_merkletree_avx512_leaves_any_order fuel input tree num_cols 4#64 dim hf 4 [1, 0] (by decide)).1

end GenMerkle

end Generated

end GoldilocksVerif.C12
