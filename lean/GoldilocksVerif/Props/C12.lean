/-
  C12 — parallel regions are race-free; results independent of threads and schedule.     LEVEL: PARTIAL BY NATURE.

  What is proved here (all sizes, all team sizes, all orders):
  * `C12_order_independent` (generic, Lemmas/Bernstein.lean): iterations whose footprints satisfy Bernstein's conditions
    pairwise can be executed in ANY order — hence under any assignment to team members, any team size (fewer, equal or
    more members than iterations) and any order of the members — with the same final memory, whatever the loop bodies
    compute inside their footprints.
  * Bernstein's conditions for the footprint of every family of `#pragma omp parallel for` loops of the library
    (20 loops: parcpy/parSetZero; NTT butterfly batches with the transposing / reflecting copy; block scatter; the four
    bit-reversal loops; Merkle leaf and level loops of the six tree builders), for all shapes.
  * parcpy / parSetZero end to end (Props/C17.lean: C17_parcpy for every order of the chunks).
  * THE EXECUTABLE MODEL'S LOOPS HAVE THESE FOOTPRINTS (`C12_model_…`, second half of the file).  The hand model of the
    transforms (Model/Ntt.lean, tied to the C++ by the differential campaigns of C03/C04/C05/C19) runs every parallel
    loop as a sequential fold of a named body.  For these bodies, derived from the model's definitions with NO
    hypothesis on the buffers (Lemmas/NttPar*.lean):
      - butterfly batches: `passBatch … b` changes only the rows `[b·B,(b+1)·B)` of `a` and the rows `σ(x·nB+b)` of `a2`,
        and what it leaves there depends only on the rows `[b·B,(b+1)·B)` of `a` (`C12_model_batch_frame/_dep`); its
        footprints are, word for word, `batchR`/`batchW` (`C12_model_batch_footprint`), hence by `C12_ntt_batches`
        two batches are independent (`C12_model_batches_indep`) and the batches of a pass can be folded in ANY order
        (`C12_model_batches_any_order`, no side condition; `C12_model_pass_any_order`);
      - block scatter, out-of-place bit reversal (both variants), in-place bit reversal (both variants, 2^d rows, d ≤ 32):
        rows in any order (`C12_model_scatter_any_order` [column block inside a row], `C12_model_reversal_out_any_order`,
        `C12_model_reversal_inplace_any_order`), through `C12_row_to_row` / `C12_inplace_reversal`;
      - whole calls: `NTT_iters`, `NTT`, `INTT`, `extendPol` with EVERY parallel loop of every column block in an
        arbitrary order give the model's result, aborts included (`C12_model_nttIters_any_order`, `C12_model_ntt_any_order`,
        `C12_model_intt_any_order`, `C12_model_extendPol_any_order`; log2 size ≤ 32).  The order-parametrised texts
        (`nttItersIn`, `nttIn`, …, Lemmas/NttParIters.lean) are copies of the model's functions with folds over given
        lists; `nttIters_eq_with` shows by `rfl` that the model's `nttIters` is the same text.
      - Merkle: the model (Model/Sponge.lean) is purely functional (no indexed writes), so: (i) each word of a level is a
        function of the two children of its node only (`C12_model_merkle_dependency`); (ii) an imperative rendering of
        the leaf / level loops on one tree buffer (Lemmas/MerklePar.lean, hand-written, not executed against the C++) has
        the footprints of `C12_merkle_leaves` / `C12_merkle_level`, runs in any order, and fills the buffer with the
        model's `merkleTree` (`C12_model_merkle_leaves_any_order`, `_level_any_order`, `_tree_any_order`).
    Order independence is at ITERATION granularity (any assignment of iterations to members, any order); interleavings of
    individual accesses follow from the disjointness of the footprints, as before.
  What is NOT a theorem: that the COMPILED loop bodies access exactly these footprints.  The link is now: compiled code
  ≈ model (differential campaigns, sequential) and model loop bodies ⊨ footprints (theorems above); the compiled accesses
  themselves are OBSERVED by the C12 check: ThreadSanitizer over a pthread stand-in for the OpenMP runtime
  (real accesses, real happens-before), controlled sequential execution of the team members in permuted orders and team
  sizes (outputs bit-identical to the single-member run), and real libgomp teams of 1,2,3,5,16 threads.
-/
import GoldilocksVerif.Lemmas.Bernstein
import GoldilocksVerif.Lemmas.NttBr
import GoldilocksVerif.Lemmas.ParCopyL
import GoldilocksVerif.Lemmas.NttParBatch
import GoldilocksVerif.Lemmas.NttParRev
import GoldilocksVerif.Lemmas.NttParIters
import GoldilocksVerif.Lemmas.NttTop
import GoldilocksVerif.Lemmas.MerklePar

namespace GoldilocksVerif.C12
open GoldilocksVerif GoldilocksVerif.Par

/-- a location: (buffer, index).  Indices are ROWS for the transform loops (a row = `ncols` consecutive words; distinct
    rows are disjoint memory, `C12_rows_disjoint`) and WORDS for the tree builders and the copies. -/
abbrev Loc := Nat × Nat

/-- re-export: any order of pairwise independent iterations gives the same memory -/
theorem C12_order_independent {V : Type} (its its' : List (Iter Loc V)) (hp : its.Perm its')
    (hind : ∀ f ∈ its, ∀ g ∈ its, f ≠ g → Indep f g) (m : Loc → V) : exec its m = exec its' m :=
  order_independent its its' hp hind m

/-- distinct rows of a row-major matrix do not share a word -/
theorem C12_rows_disjoint (ncols r r' x : Nat) (h1 : r * ncols ≤ x) (h2 : x < (r + 1) * ncols)
    (h1' : r' * ncols ≤ x) (h2' : x < (r' + 1) * ncols) : r = r' := by
  rcases Nat.lt_trichotomy r r' with h | h | h
  · have : (r + 1) * ncols ≤ r' * ncols := Nat.mul_le_mul_right _ h
    omega
  · exact h
  · have : (r' + 1) * ncols ≤ r * ncols := Nat.mul_le_mul_right _ h
    omega

/-! ### NTT_iters: butterfly batches (ntt_goldilocks.cpp:81) -/

/-- iteration `b` of a pass with batch size `B`, `nB` batches (size = B·nB): butterflies read and write rows
    `[b·B, (b+1)·B)` of the current buffer `A`; the copy writes rows `σ (x·nB + b)`, `x < B`, of the other buffer `A2`
    (σ = identity: transposing copy; σ = intt_idx: reflecting, scaling copy of the last inverse pass); tables are read-only. -/
def batchR (A : Nat) (tables : Nat → Prop) (B b : Nat) : Loc → Prop :=
  fun l => (l.1 = A ∧ b * B ≤ l.2 ∧ l.2 < (b + 1) * B) ∨ tables l.1
def batchW (A A2 : Nat) (σ : Nat → Nat) (B nB b : Nat) : Loc → Prop :=
  fun l => (l.1 = A ∧ b * B ≤ l.2 ∧ l.2 < (b + 1) * B) ∨ (l.1 = A2 ∧ ∃ x, x < B ∧ l.2 = σ (x * nB + b))

theorem C12_ntt_batches (A A2 : Nat) (tables : Nat → Prop) (σ : Nat → Nat) (B nB : Nat) (hA : A ≠ A2)
    (hT : ¬ tables A ∧ ¬ tables A2)
    (hσ : ∀ i j, i < B * nB → j < B * nB → σ i = σ j → i = j)
    (b b' : Nat) (hb : b < nB) (hb' : b' < nB) (hne : b ≠ b') :
    FootIndep (batchR A tables B b) (batchW A A2 σ B nB b) (batchR A tables B b') (batchW A A2 σ B nB b') := by
  have rows : ∀ r, ¬ ((b * B ≤ r ∧ r < (b + 1) * B) ∧ (b' * B ≤ r ∧ r < (b' + 1) * B)) := by
    rintro r ⟨⟨h1, h2⟩, ⟨h3, h4⟩⟩
    exact hne (C12_rows_disjoint B b b' r h1 h2 h3 h4)
  have idx : ∀ x x', x < B → x' < B → σ (x * nB + b) = σ (x' * nB + b') → False := by
    intro x x' hx hx' e
    have bound : ∀ y c, y < B → c < nB → y * nB + c < B * nB := by
      intro y c hy hc
      have : (y + 1) * nB ≤ B * nB := Nat.mul_le_mul_right _ hy
      rw [Nat.add_mul] at this; omega
    have := hσ _ _ (bound x b hx hb) (bound x' b' hx' hb') e
    have m1 : (x * nB + b) % nB = b := by rw [Nat.mul_comm, Nat.mul_add_mod]; exact Nat.mod_eq_of_lt hb
    have m2 : (x' * nB + b') % nB = b' := by rw [Nat.mul_comm, Nat.mul_add_mod]; exact Nat.mod_eq_of_lt hb'
    rw [this, m2] at m1
    exact hne m1.symm
  refine ⟨?_, ?_, ?_⟩
  · rintro ⟨buf, r⟩ ⟨h1 | h1, h2 | h2⟩
    · exact rows r ⟨h1.2, h2.2⟩
    · exact hA (h1.1.symm.trans h2.1)
    · exact hA (h2.1.symm.trans h1.1)
    · obtain ⟨x, hx, e⟩ := h1.2
      obtain ⟨x', hx', e'⟩ := h2.2
      exact idx x x' hx hx' (e.symm.trans e')
  · rintro ⟨buf, r⟩ ⟨h1 | h1, h2 | h2⟩
    · exact rows r ⟨h1.2, h2.2⟩
    · simp only at h1 h2; rw [h1.1] at h2; exact hT.1 h2
    · exact hA (h2.1.symm.trans h1.1)
    · simp only at h1 h2; rw [h1.1] at h2; exact hT.2 h2
  · rintro ⟨buf, r⟩ ⟨h1 | h1, h2 | h2⟩
    · exact rows r ⟨h2.2, h1.2⟩
    · simp only at h1 h2; rw [h1.1] at h2; exact hT.1 h2
    · exact hA (h2.1.symm.trans h1.1)
    · simp only at h1 h2; rw [h1.1] at h2; exact hT.2 h2

/-- `intt_idx(i, N) = (N − i) mod N` is injective on `[0, N)`: the reflecting copy of the last inverse pass writes
    distinct rows -/
def inttIdx (i N : Nat) : Nat := if N - i = N then 0 else N - i

theorem C12_inttIdx_inj (N i j : Nat) (hi : i < N) (hj : j < N) (h : inttIdx i N = inttIdx j N) : i = j := by
  unfold inttIdx at h
  split at h <;> split at h <;> omega

/-! ### block scatter (ntt_goldilocks.cpp:219), out-of-place bit reversal (254, 267) -/

/-- iteration `i` reads row `ρ i` of `S` and writes row `i` of `D`, `S ≠ D` (scatter: ρ = id; reversal: ρ = BR) -/
theorem C12_row_to_row (S D : Nat) (ρ : Nat → Nat) (hSD : S ≠ D) (i i' : Nat) (hne : i ≠ i') :
    FootIndep (fun l : Loc => l = (S, ρ i)) (fun l : Loc => l = (D, i))
              (fun l : Loc => l = (S, ρ i')) (fun l : Loc => l = (D, i')) := by
  refine ⟨?_, ?_, ?_⟩
  · rintro l ⟨h1, h2⟩; rw [h1] at h2; exact hne (Prod.mk.inj h2).2
  · rintro l ⟨h1, h2⟩; rw [h1] at h2; exact hSD (Prod.mk.inj h2).1.symm
  · rintro l ⟨h1, h2⟩; rw [h1] at h2; exact hSD (Prod.mk.inj h2).1.symm

/-! ### in-place bit reversal (ntt_goldilocks.cpp:289, 311): swaps only when `r < i` -/

/-- iteration `i` of the in-place loops on `2^d` rows: with `r = bitrev d i` it touches rows `i` and `r` when `r < i`,
    row `i` alone when `r = i` (the zero-extending variant clears it), nothing when `r > i` -/
def swapFoot (D d i : Nat) : Loc → Prop :=
  fun l => l.1 = D ∧ ((Model.Ntt.bitrev d i < i ∧ (l.2 = i ∨ l.2 = Model.Ntt.bitrev d i)) ∨ (Model.Ntt.bitrev d i = i ∧ l.2 = i))

theorem C12_inplace_reversal (D d i i' : Nat) (hi : i < 2 ^ d) (hi' : i' < 2 ^ d) (hne : i ≠ i') :
    FootIndep (swapFoot D d i) (swapFoot D d i) (swapFoot D d i') (swapFoot D d i') := by
  have key : ∀ l, ¬ (swapFoot D d i l ∧ swapFoot D d i' l) := by
    rintro ⟨buf, x⟩ ⟨⟨_, h1⟩, ⟨_, h2⟩⟩
    have bb := Model.Ntt.bitrev_bitrev d i hi
    have bb' := Model.Ntt.bitrev_bitrev d i' hi'
    simp only at h1 h2
    rcases h1 with ⟨hlt, rfl | rfl⟩ | ⟨heq, rfl⟩
    · rcases h2 with ⟨hlt', e | e⟩ | ⟨heq', e⟩
      · exact hne e
      · -- i = bitrev i'  ⇒  bitrev i = i'
        rw [e, bb'] at hlt; rw [← e] at hlt'; omega
      · exact hne e
    · rcases h2 with ⟨hlt', e | e⟩ | ⟨heq', e⟩
      · -- bitrev i = i'
        rw [← e, bb] at hlt'; rw [e] at hlt; omega
      · exact hne (Model.Ntt.bitrev_inj d i i' hi hi' e)
      · rw [← e, bb] at heq'; rw [heq'] at hlt; omega
    · rcases h2 with ⟨hlt', e | e⟩ | ⟨heq', e⟩
      · exact hne e
      · rw [e, bb'] at heq; rw [← heq] at hlt'; omega
      · exact hne e
  exact ⟨key, key, fun l h => key l ⟨h.2, h.1⟩⟩

/-- the loop's `BR(i, domainPow)` IS `bitrev` for every domain up to 2^32 -/
theorem C12_BR_is_bitrev (d i : Nat) (hd : d ≤ 32) (hi : i < 2 ^ d) : Model.Ntt.br i d = Model.Ntt.bitrev d i :=
  Model.Ntt.br_eq_bitrev d i hd hi

/-! ### Merkle builders (poseidon_goldilocks.cpp:87-163, 277-351, 495-587): leaves, then level by level -/

/-- leaf loop, `k` rows per iteration (1; 2 for the AVX512 builders): iteration `i` reads its `k` input rows and writes
    the `4k` words `[4k·i, 4k·(i+1))` of the tree; per-iteration stack buffers are private -/
theorem C12_merkle_leaves (T I k w i i' : Nat) (hTI : T ≠ I) (hne : i ≠ i') :
    FootIndep (fun l : Loc => l.1 = I ∧ i * (k * w) ≤ l.2 ∧ l.2 < (i + 1) * (k * w))
              (fun l : Loc => l.1 = T ∧ i * (4 * k) ≤ l.2 ∧ l.2 < (i + 1) * (4 * k))
              (fun l : Loc => l.1 = I ∧ i' * (k * w) ≤ l.2 ∧ l.2 < (i' + 1) * (k * w))
              (fun l : Loc => l.1 = T ∧ i' * (4 * k) ≤ l.2 ∧ l.2 < (i' + 1) * (4 * k)) := by
  refine ⟨?_, ?_, ?_⟩
  · rintro ⟨b, x⟩ ⟨⟨_, h1, h2⟩, ⟨_, h3, h4⟩⟩
    exact hne (C12_rows_disjoint (4 * k) i i' x h1 h2 h3 h4)
  · rintro ⟨b, x⟩ ⟨⟨h1, _⟩, ⟨h2, _⟩⟩; exact hTI (h1.symm.trans h2)
  · rintro ⟨b, x⟩ ⟨⟨h1, _⟩, ⟨h2, _⟩⟩; exact hTI (h1.symm.trans h2)

/-- level loop on a level of `p` nodes stored from word `base`, `k` parent nodes per iteration, `n` iterations with
    `2·k·n ≤ p`: iteration `i` reads the `8k` words `[base + 8k·i, base + 8k·(i+1))` of level L and writes the `4k` words
    `[base + 4p + 4k·i, base + 4p + 4k·(i+1))` of level L+1 — the write region starts where the read region ends -/
theorem C12_merkle_level (T base p k n i i' : Nat) (hn : 2 * k * n ≤ p) (hi : i < n) (hi' : i' < n) (hne : i ≠ i') :
    FootIndep (fun l : Loc => l.1 = T ∧ base + i * (8 * k) ≤ l.2 ∧ l.2 < base + (i + 1) * (8 * k))
              (fun l : Loc => l.1 = T ∧ base + 4 * p + i * (4 * k) ≤ l.2 ∧ l.2 < base + 4 * p + (i + 1) * (4 * k))
              (fun l : Loc => l.1 = T ∧ base + i' * (8 * k) ≤ l.2 ∧ l.2 < base + (i' + 1) * (8 * k))
              (fun l : Loc => l.1 = T ∧ base + 4 * p + i' * (4 * k) ≤ l.2 ∧ l.2 < base + 4 * p + (i' + 1) * (4 * k)) := by
  have rd_end : ∀ j, j < n → (j + 1) * (8 * k) ≤ 4 * p := by
    intro j hj
    have h1 : (j + 1) * (8 * k) ≤ n * (8 * k) := Nat.mul_le_mul_right _ hj
    have h2 : n * (8 * k) = 4 * (2 * k * n) := by
      rw [Nat.mul_comm n (8 * k), show 8 * k = 4 * (2 * k) by omega, Nat.mul_assoc]
    omega
  refine ⟨?_, ?_, ?_⟩
  · rintro ⟨b, x⟩ ⟨⟨_, h1, h2⟩, ⟨_, h3, h4⟩⟩
    simp only at h1 h2 h3 h4
    exact hne (C12_rows_disjoint (4 * k) i i' (x - (base + 4 * p)) (by omega) (by omega) (by omega) (by omega))
  · rintro ⟨b, x⟩ ⟨⟨_, h1, _⟩, ⟨_, _, h4⟩⟩
    simp only at h1 h4
    have := rd_end i' hi'
    omega
  · rintro ⟨b, x⟩ ⟨⟨_, h1, _⟩, ⟨_, _, h4⟩⟩
    simp only at h1 h4
    have := rd_end i hi
    omega

/-! ### parcpy / parSetZero (goldilocks_base_field.cpp:72, 93) -/

open ParCopy in
/-- two different chunk iterations touch disjoint parts of `dst` (and read `src ≠ dst`) -/
theorem C12_parcpy_chunks (Dst Src size : Nat) (nt : Int) (i i' : Nat) (hSD : Src ≠ Dst)
    (hi : i ∈ starts size nt) (hi' : i' ∈ starts size nt) (hne : i ≠ i') :
    FootIndep (fun l : Loc => l.1 = Src ∧ i ≤ l.2 ∧ l.2 < i + len size nt i)
              (fun l : Loc => l.1 = Dst ∧ i ≤ l.2 ∧ l.2 < i + len size nt i)
              (fun l : Loc => l.1 = Src ∧ i' ≤ l.2 ∧ l.2 < i' + len size nt i')
              (fun l : Loc => l.1 = Dst ∧ i' ≤ l.2 ∧ l.2 < i' + len size nt i') := by
  refine ⟨?_, ?_, ?_⟩
  · rintro ⟨b, x⟩ ⟨⟨_, h1⟩, ⟨_, h2⟩⟩
    exact chunks_disjoint size nt i i' hi hi' hne x ⟨h1, h2⟩
  · rintro ⟨b, x⟩ ⟨⟨h1, _⟩, ⟨h2, _⟩⟩; exact hSD (h2.symm.trans h1)
  · rintro ⟨b, x⟩ ⟨⟨h1, _⟩, ⟨h2, _⟩⟩; exact hSD (h2.symm.trans h1)

-- the hypotheses are satisfiable: two batches of a pass on 8 rows, B = 4, nB = 2, identity copy
example : FootIndep (batchR 0 (· = 9) 4 0) (batchW 0 1 id 4 2 0) (batchR 0 (· = 9) 4 1) (batchW 0 1 id 4 2 1) :=
  C12_ntt_batches 0 1 (· = 9) id 4 2 (by decide) (by decide) (fun _ _ _ _ h => h) 0 1 (by decide) (by decide) (by decide)

/-! ## The loops of the executable model (Model/Ntt.lean) really have these footprints

  The model executes every `omp parallel for` loop as a sequential fold of a named body.  Below, the bodies are shown to
  have the footprints of the theorems above (frame + dependency, derived from the model's definitions, no hypothesis on
  the buffers), and therefore — through `C12_ntt_batches`, `C12_row_to_row`, `C12_inplace_reversal` and the order
  theorem on buffer states (`Par.any_order`, Lemmas/NttPar.lean) — folding them in ANY order gives the model's result. -/

section Model
open GoldilocksVerif.Model.Ntt hiding inttIdx

/-! ### butterfly batches: `passBatch` (ntt_goldilocks.cpp:81) -/

/-- (a) `passBatch … b` keeps the sizes and changes only the rows `[b·B, (b+1)·B)` of the first buffer (B = 2^sInc) and
    the rows `σ (x·nB + b)`, `x < B`, of the second (nB = size / B; σ = identity, or `inttIdx · size` in the last pass of an
    inverse transform: `passSigma`) -/
theorem C12_model_batch_frame (o : Obj) (size domainPow ncols s sInc : Nat) (lastInv extend : Bool) (b : Nat) (st : Buf × Buf) :
    (passBatch o size domainPow ncols s sInc lastInv extend b st).1.size = st.1.size ∧
    (passBatch o size domainPow ncols s sInc lastInv extend b st).2.size = st.2.size ∧
    (∀ j, ¬ rowsW ncols (batchRows (2 ^ sInc) b) j →
      (passBatch o size domainPow ncols s sInc lastInv extend b st).1.getD j 0#64 = st.1.getD j 0#64) ∧
    (∀ j, ¬ rowsW ncols (copyRows (passSigma size lastInv) (2 ^ sInc) (size / 2 ^ sInc) b) j →
      (passBatch o size domainPow ncols s sInc lastInv extend b st).2.getD j 0#64 = st.2.getD j 0#64) := by
  have hF := Model.Ntt.batchF_local o domainPow ncols s sInc b
  have hG := Model.Ntt.batchG_writer o size domainPow ncols sInc lastInv extend b
  rw [Model.Ntt.passBatch_split]
  exact ⟨hF.size _, hG.size _ _, fun j hj => hF.frame _ j hj, fun j hj => hG.frame _ _ j hj⟩

/-- (b) what `passBatch … b` leaves in the rows it writes depends only on the rows `[b·B, (b+1)·B)` of the first buffer
    (and on the sizes; the tables are in the object `o`, which is not part of the state) -/
theorem C12_model_batch_dep (o : Obj) (size domainPow ncols s sInc : Nat) (lastInv extend : Bool) (b : Nat) (st st' : Buf × Buf)
    (hs1 : st.1.size = st'.1.size) (hs2 : st.2.size = st'.2.size)
    (h : ∀ j, rowsW ncols (batchRows (2 ^ sInc) b) j → st.1.getD j 0#64 = st'.1.getD j 0#64) :
    (∀ j, rowsW ncols (batchRows (2 ^ sInc) b) j →
      (passBatch o size domainPow ncols s sInc lastInv extend b st).1.getD j 0#64
        = (passBatch o size domainPow ncols s sInc lastInv extend b st').1.getD j 0#64) ∧
    (∀ j, rowsW ncols (copyRows (passSigma size lastInv) (2 ^ sInc) (size / 2 ^ sInc) b) j →
      (passBatch o size domainPow ncols s sInc lastInv extend b st).2.getD j 0#64
        = (passBatch o size domainPow ncols s sInc lastInv extend b st').2.getD j 0#64) := by
  have hF := Model.Ntt.batchF_local o domainPow ncols s sInc b
  have hG := Model.Ntt.batchG_writer o size domainPow ncols sInc lastInv extend b
  rw [Model.Ntt.passBatch_split, Model.Ntt.passBatch_split]
  have hd := hF.dep _ _ hs1 h
  exact ⟨hd, hG.dep _ _ _ _ hs2 hd⟩

/-- the iteration `batchIter … b` (Lemmas/NttParBatch.lean) runs `passBatch … b`, and its footprints are, word for word,
    the footprints `batchR` / `batchW` of `C12_ntt_batches` (buffer 0 = `a`, buffer 1 = `a2`, no table in the state) -/
theorem C12_model_batch_footprint (o : Obj) (size domainPow ncols s sInc : Nat) (lastInv extend : Bool) (b : Nat) :
    (∀ st, (batchIter o size domainPow ncols s sInc lastInv extend b).run st
        = passBatch o size domainPow ncols s sInc lastInv extend b st) ∧
    (∀ l, (batchIter o size domainPow ncols s sInc lastInv extend b).R l
        ↔ wordsOf ncols (batchR 0 (fun _ => False) (2 ^ sInc) b) l) ∧
    (∀ l, (batchIter o size domainPow ncols s sInc lastInv extend b).W l
        ↔ wordsOf ncols (batchW 0 1 (passSigma size lastInv) (2 ^ sInc) (size / 2 ^ sInc) b) l) := by
  refine ⟨Model.Ntt.batchIter_run o size domainPow ncols s sInc lastInv extend b, ?_, ?_⟩
  · rintro ⟨buf, j⟩
    rw [Model.Ntt.batchIter_R]
    unfold wordsOf batchR batchRows
    simp only [or_false]
  · rintro ⟨buf, j⟩
    rw [Model.Ntt.batchIter_W]
    unfold wordsOf batchW batchRows copyRows
    exact Iff.rfl

theorem C12_model_sigma_inj (size : Nat) (lastInv : Bool) (i j : Nat) (hi : i < size) (hj : j < size)
    (h : passSigma size lastInv i = passSigma size lastInv j) : i = j := by
  unfold passSigma at h
  cases lastInv with
  | false => simpa using h
  | true =>
    simp only [if_true] at h
    unfold Model.Ntt.inttIdx at h
    split at h <;> split at h <;> omega

/-- two different batches of a pass are independent iterations of the model -/
theorem C12_model_batches_indep (o : Obj) (size domainPow ncols s sInc : Nat) (lastInv extend : Bool) (b b' : Nat)
    (hb : b < size / 2 ^ sInc) (hb' : b' < size / 2 ^ sInc) (hne : b ≠ b') :
    FootIndep (batchIter o size domainPow ncols s sInc lastInv extend b).R
      (batchIter o size domainPow ncols s sInc lastInv extend b).W
      (batchIter o size domainPow ncols s sInc lastInv extend b').R
      (batchIter o size domainPow ncols s sInc lastInv extend b').W := by
  have hle : 2 ^ sInc * (size / 2 ^ sInc) ≤ size := Nat.mul_div_le size (2 ^ sInc)
  have h := C12_ntt_batches 0 1 (fun _ => False) (passSigma size lastInv) (2 ^ sInc) (size / 2 ^ sInc) (by decide)
    ⟨fun h => h, fun h => h⟩
    (fun i j hi hj e => C12_model_sigma_inj size lastInv i j (by omega) (by omega) e) b b' hb hb' hne
  obtain ⟨_, r1, w1⟩ := C12_model_batch_footprint o size domainPow ncols s sInc lastInv extend b
  obtain ⟨_, r2, w2⟩ := C12_model_batch_footprint o size domainPow ncols s sInc lastInv extend b'
  exact (h.words ncols).congr (fun l => (r1 l).1) (fun l => (w1 l).1) (fun l => (r2 l).1) (fun l => (w2 l).1)

/-- **the batches of a pass in any order**: for every pass `(s, sInc)`, every buffer state and every permutation `bs'` of
    the batch indices `0 … nBatches-1` (nBatches = size / 2^sInc as in the model), executing the batches in the order `bs'`
    gives the same two buffers as the model's sequential loop.  No side condition. -/
theorem C12_model_batches_any_order (o : Obj) (size domainPow ncols s sInc : Nat) (lastInv extend : Bool) (st0 : Buf × Buf)
    (bs' : List Nat) (hp : bs'.Perm (List.range (size / 2 ^ sInc))) :
    bs'.foldl (fun st b => passBatch o size domainPow ncols s sInc lastInv extend b st) st0
      = (List.range (size / 2 ^ sInc)).foldl (fun st b => passBatch o size domainPow ncols s sInc lastInv extend b st) st0 := by
  have e : (fun (st : Buf × Buf) b => passBatch o size domainPow ncols s sInc lastInv extend b st)
      = (fun st b => (batchIter o size domainPow ncols s sInc lastInv extend b).run st) := by
    funext st b; exact (Model.Ntt.batchIter_run o size domainPow ncols s sInc lastInv extend b st).symm
  rw [e]
  refine (any_order (batchIter o size domainPow ncols s sInc lastInv extend) _ _ hp.symm ?_ st0).symm
  intro b hb b' hb' hne
  exact C12_model_batches_indep o size domainPow ncols s sInc lastInv extend b b' (List.mem_range.1 hb) (List.mem_range.1 hb') hne

/-- a whole pass of `NTT_iters` (the model's `pass`: batch loop + pointer swap) with its batches in any order -/
theorem C12_model_pass_any_order (o : Obj) (size domainPow ncols : Nat) (inverse extend : Bool) (st : Buf × Buf × Bool)
    (p : Nat × Nat) (bs' : List Nat) (hp : bs'.Perm (List.range (size / 2 ^ p.2))) :
    pass o size domainPow ncols inverse extend st p =
      ((bs'.foldl (fun st b => passBatch o size domainPow ncols p.1 p.2 (!(p.1 + p.2 ≤ domainPow) && inverse) extend b st)
          (st.1, st.2.1)).2,
       (bs'.foldl (fun st b => passBatch o size domainPow ncols p.1 p.2 (!(p.1 + p.2 ≤ domainPow) && inverse) extend b st)
          (st.1, st.2.1)).1, !st.2.2) := by
  rw [C12_model_batches_any_order o size domainPow ncols p.1 p.2 _ extend (st.1, st.2.1) bs' hp]
  unfold pass
  simp only
  rw [iter_eq_foldl]

/-! ### block scatter: `scatterBlock` (ntt_goldilocks.cpp:219) -/

/-- the rows of the scatter loop in any order.  `oc + aux ≤ ncols`: the column block lies inside a row of `dst`
    (without it two iterations could write the same word). -/
theorem C12_model_scatter_any_order (dst d : Buf) (size ncols oc aux : Nat) (hoc : oc + aux ≤ ncols)
    (is' : List Nat) (hp : is'.Perm (List.range size)) :
    is'.foldl (fun dst ie => copyRow dst (ie * ncols + oc) d (ie * aux) aux) dst = scatterBlock dst d size ncols oc aux := by
  rw [Model.Ntt.scatterBlock_eq, iter_eq_foldl]
  refine writers_any_order (fun ie => Model.Ntt.scatterBody ncols oc aux ie) _ _
    (fun ie => Model.Ntt.scatterBody_writer ncols oc aux ie) _ _ hp ?_ d dst
  intro i _ i' _ hne
  -- cells: row `r` of buffer 0 (`dst_`) = `aux` words from `r·aux`; row `r` of buffer 1 (`dst`) = `aux` words from `r·ncols + oc`
  have h := (C12_row_to_row 0 1 (fun i => i) (by decide) i i' hne).lift
    (fun c j => if c.1 = 1 then c.2 * ncols + oc ≤ j ∧ j < c.2 * ncols + oc + aux else c.2 * aux ≤ j ∧ j < c.2 * aux + aux)
    (by
      rintro b r r' j hw c c'
      have hb : b = 1 := by
        rcases hw with hw | hw <;> exact (Prod.mk.inj hw).1
      subst hb
      simp only [if_true] at c c'
      exact row_unique ncols r r' j (by omega) (by omega) (by omega) (by omega))
  refine h.congr ?_ ?_ ?_ ?_
  all_goals
    rintro ⟨b, j⟩ ⟨hb, hj⟩
    simp only at hb hj
    subst hb
    exact ⟨_, rfl, by simpa using hj⟩

/-! ### bit reversal, destination distinct from the source (ntt_goldilocks.cpp:254, 267) -/

/-- both out-of-place loops (plain, and zero-extending when `extension > 1`): the rows in any order.  `revOutBody` is the
    loop body (Lemmas/NttParRev.lean); for `is' = List.range size` this is the model's own loop. -/
theorem C12_model_reversal_out_any_order (o : Obj) (dst src : Buf) (size oc nc nca : Nat)
    (is' : List Nat) (hp : is'.Perm (List.range size)) :
    reversePermutation o dst src false size oc nc nca
      = .ok (is'.foldl (fun d i => revOutBody o size oc nc nca i src d) dst) := by
  rw [Model.Ntt.reversePermutation_out_eq, iter_eq_foldl]
  congr 1
  refine (writers_any_order (fun i => revOutBody o size oc nc nca i) _ _
    (fun i => Model.Ntt.revOutBody_writer o size oc nc nca i) _ _ hp ?_ src dst).symm
  intro i _ i' _ hne
  have h := (C12_row_to_row 0 1 (fun i => br i (log2 size)) (by decide) i i' hne).lift
    (fun c j => if c.1 = 1 then c.2 * nc ≤ j ∧ j < c.2 * nc + nc else c.2 * nca + oc ≤ j ∧ j < c.2 * nca + oc + nc)
    (by
      rintro b r r' j hw c c'
      have hb : b = 1 := by
        rcases hw with hw | hw <;> exact (Prod.mk.inj hw).1
      subst hb
      simp only [if_true] at c c'
      exact row_unique nc r r' j c.1 c.2 c'.1 c'.2)
  refine h.congr ?_ ?_ ?_ ?_
  all_goals
    rintro ⟨b, j⟩ ⟨hb, hj⟩
    simp only at hb hj
    subst hb
    exact ⟨_, rfl, by simpa using hj⟩

/-! ### bit reversal in place (ntt_goldilocks.cpp:289, 311) -/

/-- iteration `i` of the in-place loops keeps the size, changes only the rows `swapRows (BR i) i` (rows `i` and `BR i` when
    `BR i < i`, row `i` when `BR i = i`, none otherwise) and its result there depends only on these rows -/
theorem C12_model_inplace_body (o : Obj) (size nc i : Nat) :
    Local (revInBody o size nc i) (rowsW nc (swapRows (br i (log2 size)) i)) :=
  Model.Ntt.revInBody_local o size nc i

/-- both in-place loops (swap when `BR i < i`; the zero-extending variant when `extension > 1`) on `2^d` rows, `d ≤ 32`:
    the rows in any order.  `revInBody` is the loop body (Lemmas/NttParRev.lean); for `is' = List.range (2^d)` this is the
    model's own loop.  (With `offset_cols ≠ 0` or `ncols ≠ ncols_all` the model aborts before the loop.) -/
theorem C12_model_reversal_inplace_any_order (o : Obj) (dst src : Buf) (d nc : Nat) (hd : d ≤ 32)
    (is' : List Nat) (hp : is'.Perm (List.range (2 ^ d))) :
    reversePermutation o dst src true (2 ^ d) 0 nc nc = .ok (is'.foldl (fun a i => revInBody o (2 ^ d) nc i a) src) := by
  rw [Model.Ntt.reversePermutation_in_eq, iter_eq_foldl]
  congr 1
  refine (locals_any_order (fun i => revInBody o (2 ^ d) nc i) _
    (fun i => Model.Ntt.revInBody_local o (2 ^ d) nc i) _ _ hp ?_ src).symm
  intro i hi i' hi' hne
  have hlog : log2 (2 ^ d) = d := Nat.log2_two_pow
  have hi := List.mem_range.1 ((hp.mem_iff).1 hi)
  have hi' := List.mem_range.1 ((hp.mem_iff).1 hi')
  have key : ∀ i, i < 2 ^ d → ∀ l : Nat × Nat, (l.1 = 0 ∧ rowsW nc (swapRows (br i (log2 (2 ^ d))) i) l.2)
      → wordsOf nc (swapFoot 0 d i) l := by
    rintro i hi ⟨b, j⟩ ⟨hb, r, hr, h1, h2⟩
    rw [hlog, Model.Ntt.br_eq_bitrev d i hd hi] at hr
    exact ⟨r, ⟨hb, hr⟩, h1, h2⟩
  exact ((C12_inplace_reversal 0 d i i' hi hi' hne).words nc).congr (key i hi) (key i hi) (key i' hi') (key i' hi')

/-! ### a whole `NTT_iters` call -/

/-- `nttItersIn ordR ordB` (Lemmas/NttParIters.lean) is the text of the model's `nttIters` with the row loop of the bit
    reversal executed in the order `ordR` and the batch loop of every pass `p = (s, sInc)` in the order `ordB p`.
    Whatever these orders, the result (buffers or abort) is that of the model's `nttIters`, for every `size` with
    `log2 size ≤ 32` (sizes that are not a power of two abort before any loop), every pointer relation, column window,
    `nphase`, direction. -/
theorem C12_model_nttIters_any_order (o : Obj) (dstB srcB auxB : Buf) (dstIsSrc : Bool) (size oc nc nca nphase : Nat)
    (inverse extend : Bool) (hd : log2 size ≤ 32)
    (ordR : List Nat) (hR : ordR.Perm (List.range size))
    (ordB : Nat × Nat → List Nat) (hB : ∀ p, (ordB p).Perm (List.range (size / 2 ^ p.2))) :
    nttItersIn ordR ordB o dstB srcB auxB dstIsSrc size oc nc nca nphase inverse extend
      = nttIters o dstB srcB auxB dstIsSrc size oc nc nca nphase inverse extend := by
  rw [nttIters_eq_with]
  unfold nttItersIn
  apply nttItersWith_congr
  · intro hsz dst src ip
    cases ip with
    | false =>
      unfold reversePermutationIn
      simp only [Bool.not_false, if_true]
      exact (C12_model_reversal_out_any_order o dst src size oc nc nca ordR hR).symm
    | true =>
      unfold reversePermutationIn
      simp only [Bool.not_true, Bool.false_eq_true, if_false]
      by_cases hc : oc = 0 ∧ nc = nca
      · obtain ⟨rfl, rfl⟩ := hc
        obtain ⟨d, rfl, hd'⟩ : ∃ d, size = 2 ^ d ∧ d ≤ 32 := ⟨log2 size, hsz.symm, hd⟩
        have hc' : (!decide (0 = 0 ∧ nc = nc)) = false := by simp
        rw [if_neg (by rw [hc']; simp)]
        exact (C12_model_reversal_inplace_any_order o dst src d nc hd' ordR hR).symm
      · have hc' : (!decide (oc = 0 ∧ nc = nca)) = true := by rw [decide_eq_false hc]; rfl
        rw [if_pos hc', Model.Ntt.reversePermutation_in_assert o dst src size oc nc nca hc]
  · intro st p
    unfold passIn
    exact (C12_model_pass_any_order o size (log2 size) nc inverse extend st p (ordB p) (hB p)).symm

/-! ### whole `NTT` / `INTT` / `extendPol` calls

  `nttIn ord`, `inttIn ord`, `extendPolIn ordI ordN` (Lemmas/NttParIters.lean) are the texts of the model's `ntt`, `intt`,
  `extendPol` with EVERY parallel loop (bit reversal rows, batches of every pass, scatter rows, of every column block)
  folded over the lists of `ord : Orders size` — arbitrary permutations of the index ranges. -/

/-- the column-block loop: same state after `m` blocks, and the column offset is `blkOff … m` (so that every scatter
    stays inside a row) -/
theorem C12_model_blockLoop_any_order {size : Nat} (ord : Orders size) (o : Obj) (aux : Buf) (dstIsSrc : Bool) (dst0 srcB : Buf)
    (ncols nphase nblock ncols_alloc : Nat) (inverse extend : Bool) (hd : log2 size ≤ 32) (h1 : 1 ≤ nblock) :
    ∀ m, m ≤ nblock →
      iter m (.ok (dst0, srcB, 0)) (fun ib st => nttBlockIn (ord.rev ib) (ord.batch ib) (ord.scat ib) o aux dstIsSrc size ncols
          nphase (ncols / nblock) (ncols % nblock) ncols_alloc inverse extend ib st)
        = iter m (.ok (dst0, srcB, 0)) (nttBlock o aux dstIsSrc size ncols nphase (ncols / nblock) (ncols % nblock) ncols_alloc
            inverse extend) ∧
      ∀ dst src oc, iter m (.ok (dst0, srcB, 0)) (nttBlock o aux dstIsSrc size ncols nphase (ncols / nblock) (ncols % nblock)
          ncols_alloc inverse extend) = .ok (dst, src, oc) → oc = blkOff (ncols / nblock) (ncols % nblock) m := by
  intro m
  induction m with
  | zero =>
    intro _
    refine ⟨rfl, ?_⟩
    intro dst src oc h
    rw [iter_zero] at h
    injection h with h
    rw [(Prod.mk.inj (Prod.mk.inj h).2).2.symm]
    simp [blkOff]
  | succ m ih =>
    intro hm
    obtain ⟨i1, i2⟩ := ih (by omega)
    rw [iter_succ, iter_succ, i1]
    generalize iter m (.ok (dst0, srcB, 0)) (nttBlock o aux dstIsSrc size ncols nphase (ncols / nblock) (ncols % nblock)
      ncols_alloc inverse extend) = S at i2
    have htot : blkOff (ncols / nblock) (ncols % nblock) nblock = ncols := blkOff_total ncols nblock (by omega)
    cases S with
    | error e => exact ⟨rfl, fun dst src oc h => by simp [nttBlock] at h⟩
    | ok r =>
      obtain ⟨dst, src, oc⟩ := r
      have hoc := i2 dst src oc rfl
      have hfit : oc + (ncols / nblock + (if m < ncols % nblock then 1 else 0)) ≤ ncols := by
        have := blkOff_mono (ncols / nblock) (ncols % nblock) (m + 1) nblock hm
        rw [blkOff_succ, htot, ← hoc] at this
        exact this
      unfold nttBlockIn nttBlock
      simp only
      rw [C12_model_nttIters_any_order o _ src aux false size oc _ ncols nphase inverse extend hd _ (ord.rev_perm m) _
        (ord.batch_perm m)]
      cases hres : nttIters o (Array.replicate (size * ncols_alloc) 0#64) src aux false size oc
          (ncols / nblock + (if m < ncols % nblock then 1 else 0)) ncols nphase inverse extend with
      | error e => exact ⟨rfl, fun dst src oc h => by simp at h⟩
      | ok r =>
        obtain ⟨d, x⟩ := r
        simp only
        rw [C12_model_scatter_any_order dst d size ncols oc _ hfit _ (ord.scat_perm m)]
        refine ⟨rfl, ?_⟩
        intro dst' src' oc' h
        injection h with h
        rw [← (Prod.mk.inj (Prod.mk.inj h).2).2, blkOff_succ, hoc]
        rfl

theorem C12_model_ntt_any_order {size : Nat} (ord : Orders size) (o : Obj) (mode : DstMode) (dstB srcB : Buf)
    (ncols nphase nblock : Nat) (inverse extend : Bool) (hd : log2 size ≤ 32) :
    nttIn ord o mode dstB srcB ncols nphase nblock inverse extend
      = ntt o mode dstB srcB size ncols nphase nblock inverse extend := by
  unfold nttIn ntt
  by_cases h0 : ncols = 0 ∨ size = 0
  · rw [if_pos h0, if_pos h0]
  · rw [if_neg h0, if_neg h0]
    obtain ⟨b1, b2⟩ := clampBlock_range nblock ncols (by omega)
    generalize clampBlock nblock ncols = nb at b1 b2
    unfold nttBlocksIn nttBlocks
    simp only
    by_cases hnb : nb ≤ 1
    · rw [if_pos hnb, if_pos hnb]
      exact C12_model_nttIters_any_order o dstB srcB _ _ size 0 ncols ncols nphase inverse extend hd _ (ord.rev_perm 0) _
        (ord.batch_perm 0)
    · rw [if_neg hnb, if_neg hnb]
      rw [(C12_model_blockLoop_any_order ord o _ _ _ srcB ncols nphase nb _ inverse extend hd b1 nb (Nat.le_refl _)).1]
      rfl

theorem C12_model_intt_any_order {size : Nat} (ord : Orders size) (o : Obj) (mode : DstMode) (dstB srcB : Buf)
    (ncols nphase nblock : Nat) (extend : Bool) (hd : log2 size ≤ 32) :
    inttIn ord o mode dstB srcB ncols nphase nblock extend = intt o mode dstB srcB size ncols nphase nblock extend := by
  unfold inttIn intt
  rw [C12_model_ntt_any_order ord o _ dstB srcB ncols nphase nblock true extend hd]

/-- `extendPol`: both transforms with all their parallel loops in arbitrary orders -/
theorem C12_model_extendPol_any_order {n nExt : Nat} (ordI : Orders n) (ordN : Orders nExt) (o : Obj) (same : Bool)
    (outB inB : Buf) (ncols nphase nblock : Nat) (hn : log2 n ≤ 32) (hne : log2 nExt ≤ 32) :
    extendPolIn ordI ordN o same outB inB ncols nphase nblock = extendPol o same outB inB nExt n ncols nphase nblock := by
  unfold extendPolIn extendPol
  cases mkObj nExt (nExt / n) with
  | none => rfl
  | some oext =>
    simp only
    rw [C12_model_intt_any_order ordI _ _ outB inB ncols nphase nblock true hn]
    cases intt (refreshCache o n) (if same = true then DstMode.same else DstMode.other) outB inB n ncols nphase nblock true with
    | error e => rfl
    | ok r =>
      obtain ⟨out1, x⟩ := r
      simp only
      rw [C12_model_ntt_any_order ordN oext .same #[] out1 ncols nphase nblock false false hne]
      rfl

end Model

/-! ### Merkle builders (Model/Sponge.lean)

  The model of the tree builders is purely functional (`rows.flatMap leaf`, `nextLevel`, `upperLevels`): it has no
  indexed writes whose order could be permuted.  Two kinds of statements: (i) about the model itself — each word of a
  level is a function of the two children of its node only; (ii) about an imperative rendering of the C loops on one
  tree buffer (`leafStep`, `nodeStep`, `merkleTreeIn` of Lemmas/MerklePar.lean, written by hand from the loops, NOT
  executed against the C++): its iterations have the footprints of `C12_merkle_leaves` / `C12_merkle_level`, can be
  executed in any order, and fill the buffer with exactly the model's `merkleTree`. -/

section Merkle
open GoldilocksVerif.Model

/-- (i) the model: word `j` of the leaf level depends on row `j / 4` only; word `j` of a level on the children words
    `[8·(j/4), 8·(j/4) + 8)` of the previous level only -/
theorem C12_model_merkle_dependency (leaf node : List Wd → List Wd) (hl : ∀ x, (leaf x).length = 4)
    (hn : ∀ x, (node x).length = 4) :
    (∀ (rows : List (List Wd)) (j : Nat), j < 4 * rows.length →
      (rows.flatMap leaf).getD j 0#64 = (leaf (rows.getD (j / 4) [])).getD (j % 4) 0#64) ∧
    (∀ (k : Nat) (lvl : List Wd) (j : Nat), j < 4 * k →
      (nextLevel node k lvl).getD j 0#64 = (node ((lvl.drop (8 * (j / 4))).take 8)).getD (j % 4) 0#64) := by
  refine ⟨fun rows j hj => ?_, fun k lvl j hj => ?_⟩
  · rw [leaves_getD leaf hl, if_pos hj]
  · rw [nextLevel_getD node hn, if_pos hj]

/-- (ii) leaf loop on the tree buffer `t` (`leafStep … i` = `linear_hash(&tree[4i], row i)`), rows in any order: the
    leaf digests of the model, the rest of the buffer untouched -/
theorem C12_model_merkle_leaves_any_order (leaf : List Wd → List Wd) (hl : ∀ x, (leaf x).length = 4)
    (rows : List (List Wd)) (t : List Wd) (ht : 4 * rows.length ≤ t.length)
    (is' : List Nat) (hp : is'.Perm (List.range rows.length)) :
    is'.foldl (fun t i => leafStep leaf rows i t) t = rows.flatMap leaf ++ t.drop (4 * rows.length) := by
  rw [← leafLoop_seq_eq leaf hl rows t ht]
  refine any_order (fun i => hashIter (fun _ => leaf (rows.getD i [])) (fun _ => hl _) 0 0 (4 * i)) _ _ hp ?_ t
  intro i _ i' _ hne
  refine (C12_merkle_leaves 0 1 1 0 i i' (by decide) hne).congr ?_ ?_ ?_ ?_
  all_goals
    rintro ⟨b, j⟩ ⟨hb, h1, h2⟩
    simp only at hb h1 h2
    omega

/-- (ii) level loop on the tree buffer `t` (`nodeStep … i` = `hash(&tree[off + 4p + 4i], &tree[off + 8i])`: the level of
    `p` nodes starts at `off`, the next one right behind it), `n ≤ p/2` nodes in any order: the model's `nextLevel` -/
theorem C12_model_merkle_level_any_order (node : List Wd → List Wd) (hn : ∀ x, (node x).length = 4)
    (t : List Wd) (off p n : Nat) (hnp : 2 * n ≤ p) (hfit : off + 4 * p + 4 * n ≤ t.length)
    (is' : List Nat) (hp : is'.Perm (List.range n)) :
    is'.foldl (fun t i => nodeStep node off p i t) t
      = t.take (off + 4 * p) ++ nextLevel node n (t.drop off) ++ t.drop (off + 4 * p + 4 * n) := by
  rw [← levelLoop_seq_eq node hn t off p n hnp hfit]
  refine any_order (fun i => hashIter node hn (off + 8 * i) 8 (off + 4 * p + 4 * i)) _ _ hp ?_ t
  intro i hi i' hi' hne
  have hi := List.mem_range.1 ((hp.mem_iff).1 hi)
  have hi' := List.mem_range.1 ((hp.mem_iff).1 hi')
  refine (C12_merkle_level 0 off p 1 n i i' (by omega) hi hi' hne).congr ?_ ?_ ?_ ?_
  all_goals
    rintro ⟨b, j⟩ ⟨hb, h1, h2⟩
    simp only at hb h1 h2
    exact ⟨hb, by omega, by omega⟩

/-- (ii) the whole builder on a tree buffer `t0` of the right length: leaf loop in the order `ordLeaf`, the level loop of
    `n` iterations in the order `ords n` — whatever these orders, the buffer ends up as the model's `merkleTree` -/
theorem C12_model_merkle_tree_any_order (leaf node : List Wd → List Wd) (hl : ∀ x, (leaf x).length = 4)
    (hn : ∀ x, (node x).length = 4) (rows : List (List Wd)) (ordLeaf : List Nat) (ords : Nat → List Nat)
    (hpl : ordLeaf.Perm (List.range rows.length)) (hpo : ∀ n, (ords n).Perm (List.range n))
    (t0 : List Wd) (ht0 : t0.length = (merkleTree leaf node rows).length) :
    merkleTreeIn leaf node rows ordLeaf ords t0 = merkleTree leaf node rows := by
  have hlen : 4 * rows.length ≤ t0.length := by
    rw [ht0]; unfold merkleTree; simp only [List.length_append, leaves_length leaf hl rows]; omega
  apply merkleTreeIn_eq leaf node hl hn rows ordLeaf ords t0
  · rw [C12_model_merkle_leaves_any_order leaf hl rows t0 hlen ordLeaf hpl,
      C12_model_merkle_leaves_any_order leaf hl rows t0 hlen _ (List.Perm.refl _)]
  · intro off p n t hnp
    unfold levelLoop
    exact any_order (fun i => hashIter node hn (off + 8 * i) 8 (off + 4 * p + 4 * i)) _ _ (hpo n) (by
      intro i hi i' hi' hne
      have hi := List.mem_range.1 (((hpo n).mem_iff).1 hi)
      have hi' := List.mem_range.1 (((hpo n).mem_iff).1 hi')
      refine (C12_merkle_level 0 off p 1 n i i' (by omega) hi hi' hne).congr ?_ ?_ ?_ ?_
      all_goals
        rintro ⟨b, j⟩ ⟨hb, h1, h2⟩
        simp only at hb h1 h2
        exact ⟨hb, by omega, by omega⟩) t
  · exact ht0

end Merkle

-- the any-order theorem is not vacuous: an explicit non-sequential order of the 4 batches of a pass on 16 rows, B = 4
example (o : Model.Ntt.Obj) (st : Model.Ntt.Buf × Model.Ntt.Buf) :
    [3, 1, 0, 2].foldl (fun st b => Model.Ntt.passBatch o 16 4 3 1 2 false false b st) st
      = (List.range (16 / 2 ^ 2)).foldl (fun st b => Model.Ntt.passBatch o 16 4 3 1 2 false false b st) st :=
  C12_model_batches_any_order o 16 4 3 1 2 false false st [3, 1, 0, 2] (by decide)

end GoldilocksVerif.C12
