/-
  C15 — Conversions are total, canonical, round-trip; predicates ignore representation.

  About the hand models of Model/Conv.lean (tied to goldilocks_base_field_tools.hpp by the correspondence run,
  GMP included) and the generated `toU64`, `equal`, `isZero`, `isOne`, `isNegone` of Gen/Scalar.lean.
  `den x : ZMod p` is the field element a representation denotes; integers are cast into ZMod p.

  History: on the pinned tree `fromScalar/fromString` returned the wrong residue for integers below -p (D1) and
  `toS32` rejected -2^31 (D2); both were shown with replays by this check and repaired by fix: commits in /repo.
  The models below are those of the repaired code.
-/
import GoldilocksVerif.Lemmas.ConvF

namespace GoldilocksVerif.C15
open GoldilocksVerif Model Gen.Scalar

/-- every integer, of any sign and magnitude, converts to its residue; the result is canonical -/
theorem C15_fromScalar (x : Int) : den (fromScalar x) = (x : F) ∧ (fromScalar x).toNat < P ∧
    (fromScalar x).toNat = (x % (P : Int)).toNat :=
  ⟨fromScalar_den x, fromScalar_lt x, fromScalar_toNat x⟩

/-- strings: whatever integer the numeral denotes (any radix 2..36, any sign), the result is its residue -/
theorem C15_fromString (s : String) (radix : Nat) (x : Int) (h : parseInt radix s = some x) :
    fromString s radix = some (fromScalar x) ∧ den (fromScalar x) = (x : F) := by
  refine ⟨?_, fromScalar_den x⟩
  unfold fromString; rw [h]; rfl

/-- signed 64-bit and 32-bit integers (two's complement) convert to their residue -/
theorem C15_fromS64 (x : BitVec 64) : den (fromS64 x) = ((x.toInt : Int) : F) := fromS64_den x
theorem C15_fromS32 (x : BitVec 32) : den (fromS32 x) = ((x.toInt : Int) : F) := fromS32_den x

/-- unsigned 64-bit: stored raw, denotes its residue -/
theorem C15_fromU64 (x : BitVec 64) : den (fromU64__rE x) = ((x.toNat : Nat) : F) := by
  rw [den_fromU64]; rfl

/-- toU64: the canonical value in [0,p) of the same field element -/
theorem C15_toU64 (a : BitVec 64) : (toU64__rE a).toNat < P ∧ den (toU64__rE a) = den a ∧
    (toU64__rE a).toNat = a.toNat % P :=
  ⟨by rw [Model.toU64_r_toNat]; exact Nat.mod_lt _ (by decide), den_toU64 a, Model.toU64_r_toNat a⟩

/-- toS64: the centred value in [-(p-1)/2, (p-1)/2] of the same field element -/
theorem C15_toS64 (a : BitVec 64) :
    -(((P - 1) / 2 : Nat) : Int) ≤ toS64 a ∧ toS64 a ≤ (((P - 1) / 2 : Nat) : Int) ∧ ((toS64 a : Int) : F) = den a :=
  ⟨(toS64_range a).1, (toS64_range a).2, toS64_den a⟩

/-- toS32: success exactly when the centred value lies in [-2^31, 2^31), and then it is that value -/
theorem C15_toS32 (a : BitVec 64) :
    ((toS32 a).1 = true ↔ (-2^31 ≤ toS64 a ∧ toS64 a < 2^31)) ∧ ((toS32 a).1 = true → (toS32 a).2 = toS64 a) :=
  toS32_spec a

/-- round trips -/
theorem C15_roundtrip_u64 (x : BitVec 64) (h : x.toNat < P) : toU64__rE (fromU64__rE x) = x := rt_u64 x h
theorem C15_roundtrip_s64 (x : BitVec 64) (h : -(((P - 1) / 2 : Nat) : Int) ≤ x.toInt ∧ x.toInt ≤ (((P - 1) / 2 : Nat) : Int)) :
    toS64 (fromS64 x) = x.toInt := by
  have hh : (((P - 1) / 2 : Nat) : Int) = 9223372034707292160 := by decide
  rw [hh] at h
  exact rt_s64 x h
/-- every signed 32-bit value, including INT32_MIN, survives the round trip -/
theorem C15_roundtrip_s32 (x : BitVec 32) : toS32 (fromS32 x) = (true, x.toInt) := rt_s32 x

/-- equality and the predicates depend only on residue classes -/
theorem C15_predicates (a b : BitVec 64) :
    (equal a b = true ↔ den a = den b) ∧ (isZero a = true ↔ den a = 0) ∧
    (isOne a = true ↔ den a = 1) ∧ (isNegone a = true ↔ den a = -1) :=
  ⟨equal_iff a b, (predicates a).1, (predicates a).2.1, (predicates a).2.2⟩

/-- toString prints the numeral of the canonical value, so it depends only on the residue class -/
theorem C15_toString_class (a b : BitVec 64) (radix : Nat) (h : den a = den b) : toStringR a radix = toStringR b radix := by
  unfold toStringR
  have := (den_eq_iff a b).mp h
  rw [Model.toU64_r_toNat, Model.toU64_r_toNat, this]

/-- non-vacuity: the witness of the former defect D1 (x = -p-1) is now covered -/
example : (fromScalar (-(P : Int) - 1)).toNat = P - 1 := by
  rw [fromScalar_toNat]; decide

end GoldilocksVerif.C15
