/-
  C15 — Conversions are total, canonical, round-trip; predicates ignore representation.

  About the hand models of Model/Conv.lean (tied to goldilocks_base_field_tools.hpp by the correspondence run,
  GMP included) and the generated `toU64`, `equal`, `isZero`, `isOne`, `isNegone` of Gen/Scalar.lean.
  `den x : ZMod p` is the field element a representation denotes; integers are cast into ZMod p.

  History: on the pinned tree `fromScalar/fromString` returned the wrong residue for integers below -p (D1) and
  `toS32` rejected -2^31 (D2); both were shown with replays by this check and repaired by fix: commits in /repo.
  The models below are those of the repaired code.
-/
import GoldilocksVerif.Lemmas.ConvF
import GoldilocksVerif.Lemmas.BridgeConv

namespace GoldilocksVerif.C15
open GoldilocksVerif Model Gen.Scalar

/-- every integer, of any sign and magnitude, converts to its residue; the result is canonical -/
theorem C15_fromScalar (x : Int) : den (fromScalar x) = (x : F) ∧ (fromScalar x).toNat < P ∧
    (fromScalar x).toNat = (x % (P : Int)).toNat :=
  ⟨fromScalar_den x, fromScalar_lt x, fromScalar_toNat x⟩

/-- strings: whatever integer the numeral denotes (any radix 2..36, any sign), the result is its residue -/
theorem C15_fromString (s : String) (radix : Nat) (x : Int) (h : parseInt radix s = some x) :
    fromString s radix = some (fromScalar x) ∧ den (fromScalar x) = (x : F) := by
  refine ⟨?_, fromScalar_den x⟩
  unfold fromString; rw [h]; rfl

/-- signed 64-bit and 32-bit integers (two's complement) convert to their residue -/
theorem C15_fromS64 (x : BitVec 64) : den (fromS64 x) = ((x.toInt : Int) : F) := fromS64_den x
theorem C15_fromS32 (x : BitVec 32) : den (fromS32 x) = ((x.toInt : Int) : F) := fromS32_den x

/-- unsigned 64-bit: stored raw, denotes its residue -/
theorem C15_fromU64 (x : BitVec 64) : den (fromU64__rE x) = ((x.toNat : Nat) : F) := by
  rw [den_fromU64]; rfl

/-- toU64: the canonical value in [0,p) of the same field element -/
theorem C15_toU64 (a : BitVec 64) : (toU64__rE a).toNat < P ∧ den (toU64__rE a) = den a ∧
    (toU64__rE a).toNat = a.toNat % P :=
  ⟨by rw [Model.toU64_r_toNat]; exact Nat.mod_lt _ (by decide), den_toU64 a, Model.toU64_r_toNat a⟩

/-- toS64: the centred value in [-(p-1)/2, (p-1)/2] of the same field element -/
theorem C15_toS64 (a : BitVec 64) :
    -(((P - 1) / 2 : Nat) : Int) ≤ toS64 a ∧ toS64 a ≤ (((P - 1) / 2 : Nat) : Int) ∧ ((toS64 a : Int) : F) = den a :=
  ⟨(toS64_range a).1, (toS64_range a).2, toS64_den a⟩

/-- toS32: success exactly when the centred value lies in [-2^31, 2^31), and then it is that value -/
theorem C15_toS32 (a : BitVec 64) :
    ((toS32 a).1 = true ↔ (-2^31 ≤ toS64 a ∧ toS64 a < 2^31)) ∧ ((toS32 a).1 = true → (toS32 a).2 = toS64 a) :=
  toS32_spec a

/-- round trips -/
theorem C15_roundtrip_u64 (x : BitVec 64) (h : x.toNat < P) : toU64__rE (fromU64__rE x) = x := rt_u64 x h
theorem C15_roundtrip_s64 (x : BitVec 64) (h : -(((P - 1) / 2 : Nat) : Int) ≤ x.toInt ∧ x.toInt ≤ (((P - 1) / 2 : Nat) : Int)) :
    toS64 (fromS64 x) = x.toInt := by
  have hh : (((P - 1) / 2 : Nat) : Int) = 9223372034707292160 := by decide
  rw [hh] at h
  exact rt_s64 x h
/-- every signed 32-bit value, including INT32_MIN, survives the round trip -/
theorem C15_roundtrip_s32 (x : BitVec 32) : toS32 (fromS32 x) = (true, x.toInt) := rt_s32 x

/-- equality and the predicates depend only on residue classes -/
theorem C15_predicates (a b : BitVec 64) :
    (equal a b = true ↔ den a = den b) ∧ (isZero a = true ↔ den a = 0) ∧
    (isOne a = true ↔ den a = 1) ∧ (isNegone a = true ↔ den a = -1) :=
  ⟨equal_iff a b, (predicates a).1, (predicates a).2.1, (predicates a).2.2⟩

/-- toString prints the numeral of the canonical value, so it depends only on the residue class -/
theorem C15_toString_class (a b : BitVec 64) (radix : Nat) (h : den a = den b) : toStringR a radix = toStringR b radix := by
  unfold toStringR
  have := (den_eq_iff a b).mp h
  rw [Model.toU64_r_toNat, Model.toU64_r_toNat, this]

/-- non-vacuity: the witness of the former defect D1 (x = -p-1) is now covered -/
example : (fromScalar (-(P : Int) - 1)).toNat = P - 1 := by
  rw [fromScalar_toNat]; decide

/-! ## The conversions as TRANSLATED from goldilocks_base_field_tools.hpp (Gen/ConvGen.lean, regenerated on every run)

  `mpz_class` arithmetic is translated to `Int` (`%` = `Int.tmod`); GMP's numeral parser / printer stay modelled (externs
  `Mpz.ofString` = `parseInt`, `Mpz.getStr` = the digit loop `toDigitsR`); `int64_t` / `int32_t` are two's complement bit
  vectors.  Bridge theorems: Lemmas/BridgeConv.lean.  See DESIGN.CONV.md. -/
section generated
open Gen.ConvGen BridgeConv

/-- every translated conversion IS the hand model's function (for every fuel; `result` parameters: every previous value) -/
theorem C15_generated_eq_model :
    (∀ x, fromS64__ei x = fromS64 x) ∧ (∀ x, fromS64__ri x = fromS64 x) ∧
    (∀ x, fromS32__ei x = fromS32 x) ∧ (∀ x, fromS32__ri x = fromS32 x) ∧
    (∀ x, fromScalar__eZ x = fromScalar x) ∧ (∀ x, fromScalar__rZ x = fromScalar x) ∧
    (∀ fuel s radix, fromString__eSi fuel s radix = fromString s radix.toNat) ∧
    (∀ fuel s radix, fromString__rSi fuel s radix = fromString s radix.toNat) ∧
    (∀ r a, toS64__iE r a = BitVec.ofInt 64 (toS64 a)) ∧ (∀ a, toS64__rE a = BitVec.ofInt 64 (toS64 a)) ∧
    (∀ r a, Gen.ConvGen.toS32 r a = if (toS32 a).1 then (true, BitVec.ofInt 32 (toS32 a).2) else (false, r)) ∧
    (∀ a radix, toString__sEi a radix = toStringR a radix.toNat) ∧
    (∀ a radix, toString__rEi a radix = toStringR a radix.toNat) :=
  ⟨fromS64_e_gen_eq, fromS64_r_gen_eq, fromS32_e_gen_eq, fromS32_r_gen_eq, fromScalar_e_gen_eq, fromScalar_r_gen_eq,
   fromString_e_gen_eq, fromString_r_gen_eq, toS64_i_gen_eq, toS64_r_gen_eq, toS32_gen_eq, toString_s_gen_eq,
   toString_r_gen_eq⟩

/-- translated `fromScalar`: every integer, of any sign and magnitude, converts to its canonical residue -/
theorem C15_generated_fromScalar (x : Int) :
    den (fromScalar__rZ x) = (x : F) ∧ (fromScalar__rZ x).toNat < P ∧ (fromScalar__rZ x).toNat = (x % (P : Int)).toNat ∧
    fromScalar__eZ x = fromScalar__rZ x := by
  rw [fromScalar_r_gen_eq, fromScalar_e_gen_eq]
  exact ⟨fromScalar_den x, fromScalar_lt x, fromScalar_toNat x, rfl⟩

/-- translated `fromString`: it returns exactly when the (modelled) parser accepts the numeral, and then the result is the
    residue of the integer the numeral denotes; a refused numeral (C++: `std::invalid_argument`) is `none` -/
theorem C15_generated_fromString (fuel : Nat) (s : String) (radix : Int) :
    (∀ x, parseInt radix.toNat s = some x →
        fromString__rSi fuel s radix = some (fromScalar x) ∧ fromString__eSi fuel s radix = some (fromScalar x) ∧
        den (fromScalar x) = (x : F) ∧ (fromScalar x).toNat < P) ∧
    (parseInt radix.toNat s = none → fromString__rSi fuel s radix = none ∧ fromString__eSi fuel s radix = none) := by
  rw [fromString_r_gen_eq, fromString_e_gen_eq]
  unfold fromString
  constructor
  · intro x h
    rw [h]
    exact ⟨rfl, rfl, fromScalar_den x, fromScalar_lt x⟩
  · intro h
    rw [h]
    exact ⟨rfl, rfl⟩

/-- translated `fromS64` / `fromS32`: the two's complement value converts to its residue -/
theorem C15_generated_fromS64 (x : BitVec 64) :
    den (fromS64__ri x) = ((x.toInt : Int) : F) ∧ fromS64__ei x = fromS64__ri x := by
  rw [fromS64_r_gen_eq, fromS64_e_gen_eq]
  exact ⟨fromS64_den x, rfl⟩

theorem C15_generated_fromS32 (x : BitVec 32) :
    den (fromS32__ri x) = ((x.toInt : Int) : F) ∧ fromS32__ei x = fromS32__ri x := by
  rw [fromS32_r_gen_eq, fromS32_e_gen_eq]
  exact ⟨fromS32_den x, rfl⟩

/-- translated `toS64`: the signed value of the result is the centred representative of the same field element, whatever
    `result` held before -/
theorem C15_generated_toS64 (r a : BitVec 64) :
    -(((P - 1) / 2 : Nat) : Int) ≤ (toS64__iE r a).toInt ∧ (toS64__iE r a).toInt ≤ (((P - 1) / 2 : Nat) : Int) ∧
    (((toS64__iE r a).toInt : Int) : F) = den a ∧ toS64__rE a = toS64__iE r a := by
  rw [toS64_i_gen_toInt, toS64_r_gen_eq, toS64_i_gen_eq]
  exact ⟨(toS64_range a).1, (toS64_range a).2, toS64_den a, rfl⟩

/-- translated `toS32`: success exactly when the centred value lies in [-2^31, 2^31); then `result` is that value (two's
    complement); on failure `result` is left as it was -/
theorem C15_generated_toS32 (r : BitVec 32) (a : BitVec 64) :
    ((Gen.ConvGen.toS32 r a).1 = true ↔ (-2^31 ≤ (toS64__rE a).toInt ∧ (toS64__rE a).toInt < 2^31)) ∧
    ((Gen.ConvGen.toS32 r a).1 = true → ((Gen.ConvGen.toS32 r a).2.toInt : Int) = (toS64__rE a).toInt) ∧
    ((Gen.ConvGen.toS32 r a).1 = false → (Gen.ConvGen.toS32 r a).2 = r) := by
  rw [toS32_gen_eq, toS64_r_gen_toInt]
  obtain ⟨s1, s2⟩ := toS32_spec a
  by_cases h : (toS32 a).1 = true
  · rw [if_pos h]
    have hr := s1.mp h
    refine ⟨⟨fun _ => hr, fun _ => rfl⟩, fun _ => ?_, fun hf => by simp at hf⟩
    show (BitVec.ofInt 32 (toS32 a).2).toInt = toS64 a
    rw [s2 h]
    exact toInt_ofInt32_of_fits _ (by omega)
  · rw [if_neg h]
    refine ⟨⟨fun hf => by simp at hf, fun hr => absurd (s1.mpr hr) h⟩, fun hf => by simp at hf, fun _ => rfl⟩

/-- round trips through the translated functions -/
theorem C15_generated_roundtrip_s64 (x r : BitVec 64)
    (h : -(((P - 1) / 2 : Nat) : Int) ≤ x.toInt ∧ x.toInt ≤ (((P - 1) / 2 : Nat) : Int)) :
    toS64__iE r (fromS64__ri x) = x := by
  apply BitVec.eq_of_toInt_eq
  rw [toS64_i_gen_toInt, fromS64_r_gen_eq]
  exact C15_roundtrip_s64 x h

/-- every `int32_t`, including INT32_MIN, survives `fromS32` then `toS32` -/
theorem C15_generated_roundtrip_s32 (x r : BitVec 32) : Gen.ConvGen.toS32 r (fromS32__ri x) = (true, x) := by
  rw [toS32_gen_eq, fromS32_r_gen_eq, rt_s32 x]
  show (true, BitVec.ofInt 32 x.toInt) = (true, x)
  rw [BitVec.ofInt_toInt]

/-- translated `toString` depends only on the residue class -/
theorem C15_generated_toString_class (a b : BitVec 64) (radix : Int) (h : den a = den b) :
    toString__rEi a radix = toString__rEi b radix ∧ toString__sEi a radix = toString__rEi a radix := by
  rw [toString_r_gen_eq, toString_r_gen_eq, toString_s_gen_eq]
  exact ⟨C15_toString_class a b radix.toNat h, rfl⟩

/-- non-vacuity: the witness of the former defect D1 (x = -p-1) through the translated function -/
example : (fromScalar__rZ (-(P : Int) - 1)).toNat = P - 1 := by
  rw [fromScalar_r_gen_eq, fromScalar_toNat]; decide

end generated

end GoldilocksVerif.C15
