/-
  C17 — strided / offset / broadcast base-field wrappers and the bulk copies move the right data.

  Three layers:
  (1) Props/C17Gen.lean (GENERATED from the C++ signatures on every run): for each of the copy/add/sub/mul `_batch`,
      `_avx`, `_avx512` overloads, the translated body EQUALS "lane kernel applied to the operands the parameters
      designate, written lane 0 first to the positions the output parameters designate" (`writeSeq`).
  (2) This file: what such an equality means — frame condition (nothing else written), value of every designated
      position (field-level, through the kernel theorems of C01/C02/C11), for EVERY stride / index array, including
      0 and colliding positions (the value of a position designated several times is that of one of the lanes
      designated for it; of the last one, as the code stands).
  (3) parcpy / parSetZero: exactly `size` elements for every size and every `int` thread count (≤ 0 included),
      in every execution order of the chunks.
  Only property theorems here; helpers are in Lemmas/WrapL.lean, Lemmas/ParCopyL.lean.
-/
import GoldilocksVerif.Props.C17Gen
import GoldilocksVerif.Lemmas.ParCopyL
import GoldilocksVerif.Props.C02
import GoldilocksVerif.Props.C11
import GoldilocksVerif.Lemmas.BridgeParcpy
import GoldilocksVerif.Lemmas.BridgeParcpyZero

namespace GoldilocksVerif.C17
open GoldilocksVerif

/-! ### (2) meaning of the generated equalities -/

/-- array result: positions not designated by the output parameters keep their content (no stray write) -/
theorem C17_frame (res c : Region) (pos : Nat → Nat) (v : Nat → BitVec 64) (W : Nat)
    (h : res = writeSeq c pos v W) (j : Nat) (hj : ∀ k, k < W → j ≠ pos k) : res j = c j := by
  subst h; exact writeSeq_frame c pos v W j hj

/-- array result: position `pos k` holds lane `k`'s value when no later lane designates the same position -/
theorem C17_lane (res c : Region) (pos : Nat → Nat) (v : Nat → BitVec 64) (W : Nat)
    (h : res = writeSeq c pos v W) (k : Nat) (hk : k < W) (hl : ∀ k', k < k' → k' < W → pos k' ≠ pos k) :
    res (pos k) = v k := by
  subst h; exact writeSeq_last c pos v W k hk hl

/-- array result, order-agnostic: every designated position holds the value of a lane designated for it -/
theorem C17_lane_any (res c : Region) (pos : Nat → Nat) (v : Nat → BitVec 64) (W : Nat)
    (h : res = writeSeq c pos v W) (k : Nat) (hk : k < W) :
    ∃ k', k' < W ∧ pos k' = pos k ∧ res (pos k) = v k' := by
  subst h; exact writeSeq_mem c pos v W k hk

/-- AVX2 lane kernels used by the wrappers, lane by number: the field operation on that lane's operands -/
theorem C17_kernel_avx (A B : V4) (k : Nat) (hk : k < 4) :
    ((Gen.Avx2.add_avx__vVV A B).getN k).toNat % P = ((A.getN k).toNat + (B.getN k).toNat) % P ∧
    (((Gen.Avx2.sub_avx__vVV A B).getN k).toNat + (B.getN k).toNat) % P = (A.getN k).toNat % P ∧
    ((Gen.Avx2.mult_avx A B).getN k).toNat % P = ((A.getN k).toNat * (B.getN k).toNat) % P := by
  have e := fun (X : V4) => V4.getN_eq_get X ⟨k, hk⟩
  simp only at e
  rw [e, e, e, e, e]
  exact ⟨C02.C02_add_avx A B _, C02.C02_sub_avx A B _, C02.C02_mult_avx A B _⟩

/-- AVX512 lane kernels used by the wrappers -/
theorem C17_kernel_avx512 (A B : V8) (k : Nat) (hk : k < 8) :
    ((Gen.Avx512.add_avx512__wWW A B).getN k).toNat % P = ((A.getN k).toNat + (B.getN k).toNat) % P ∧
    (((Gen.Avx512.sub_avx512__wWW A B).getN k).toNat + (B.getN k).toNat) % P = (A.getN k).toNat % P ∧
    ((Gen.Avx512.mult_avx512 A B).getN k).toNat % P = ((A.getN k).toNat * (B.getN k).toNat) % P := by
  have e := fun (X : V8) => V8.getN_eq_get X ⟨k, hk⟩
  simp only at e
  rw [e, e, e, e, e]
  exact ⟨C11.C11_add_avx512 A B _, C11.C11_sub_avx512 A B _, C11.C11_mult_avx512 A B _⟩

/-- scalar kernels used by the `_batch` helpers -/
theorem C17_kernel_batch (a b : BitVec 64) :
    (Gen.Scalar.add__eEE a b).toNat % P = (a.toNat + b.toNat) % P ∧
    ((Gen.Scalar.sub__eEE a b).toNat + b.toNat) % P = a.toNat % P ∧
    (Gen.Scalar.mul__eEE a b).toNat % P = (a.toNat * b.toNat) % P :=
  ⟨add_mod a b, sub_mod a b, mul_mod a b⟩

/-- gathered operand register: lane `k` is the designated word -/
theorem C17_gather4 (f : Nat → BitVec 64) (k : Nat) (hk : k < 4) : (V4.ofFn f).getN k = f k := by
  have h : k = 0 ∨ k = 1 ∨ k = 2 ∨ k = 3 := by omega
  rcases h with h | h | h | h <;> subst h <;> rfl

theorem C17_gather8 (f : Nat → BitVec 64) (k : Nat) (hk : k < 8) : (V8.ofFn f).getN k = f k := by
  have h : k = 0 ∨ k = 1 ∨ k = 2 ∨ k = 3 ∨ k = 4 ∨ k = 5 ∨ k = 6 ∨ k = 7 := by omega
  rcases h with h | h | h | h | h | h | h | h <;> subst h <;> rfl

/-- A fully spelled-out instance (the shape of every generated equality once (2) is applied):
    `mul_avx(Element *c, uint64_t offset_c[4], const Element *a, const Element *b, const uint64_t offset_a[4],
    const uint64_t offset_b[4])` writes `a[offset_a[k]] * b[offset_b[k]]` to `c[offset_c[k]]` and nothing else. -/
theorem C17_mul_avx_indexed (c offset_c a b offset_a offset_b : Region) :
    let res := Gen.WrapAvx2.mul_avx__ppPPPP c offset_c a b offset_a offset_b
    (∀ j, (∀ k, k < 4 → j ≠ (offset_c k).toNat) → res j = c j) ∧
    (∀ k, k < 4 → (∀ k', k < k' → k' < 4 → (offset_c k').toNat ≠ (offset_c k).toNat) →
      (res (offset_c k).toNat).toNat % P = ((a (offset_a k).toNat).toNat * (b (offset_b k).toNat).toNat) % P) := by
  intro res
  have h := C17Gen.mul_avx__ppPPPP_spec c offset_c a b offset_a offset_b
  refine ⟨fun j hj => C17_frame _ _ _ _ _ h j hj, fun k hk hl => ?_⟩
  have h1 := C17_lane _ _ (fun k => (offset_c k).toNat) _ _ h k hk hl
  simp only at h1
  rw [show res = Gen.WrapAvx2.mul_avx__ppPPPP c offset_c a b offset_a offset_b from rfl, h1,
    (C17_kernel_avx _ _ k hk).2.2, C17_gather4 _ k hk, C17_gather4 _ k hk]

/-- strided instance with possibly colliding output positions (stride 0 allowed) -/
theorem C17_add_avx512_strided (c : Region) (offset_c : BitVec 64) (a_ : V8) (b : Region) (offset_b : BitVec 64) :
    let res := Gen.WrapAvx512.add_avx512__pEWPE c offset_c a_ b offset_b
    let pos := fun k => (BitVec.ofNat 64 k * offset_c).toNat
    (∀ j, (∀ k, k < 8 → j ≠ pos k) → res j = c j) ∧
    (∀ k, k < 8 → ∃ k', k' < 8 ∧ pos k' = pos k ∧
      (res (pos k)).toNat % P = ((a_.getN k').toNat + (b (BitVec.ofNat 64 k' * offset_b).toNat).toNat) % P) := by
  intro res pos
  have h := C17Gen.add_avx512__pEWPE_spec c offset_c a_ b offset_b
  refine ⟨fun j hj => C17_frame _ _ _ _ _ h j hj, fun k hk => ?_⟩
  obtain ⟨k', h1, h2, h3⟩ := C17_lane_any _ _ pos _ _ h k hk
  refine ⟨k', h1, h2, ?_⟩
  rw [show res = Gen.WrapAvx512.add_avx512__pEWPE c offset_c a_ b offset_b from rfl, h3,
    (C17_kernel_avx512 _ _ k' h1).1, C17_gather8 _ k' h1]

/-! ### register construction, loads and stores -/

theorem C17_set_load_store (a0 a1 a2 a3 : BitVec 64) (r : Region) (v : V4) (w : V8) :
    Gen.WrapAvx2.set_avx a0 a1 a2 a3 = ⟨a0, a1, a2, a3⟩ ∧
    Gen.Avx2Mat.load_avx r = V4.ofFn r.get ∧ Gen.Avx2Mat.load_avx_a r = V4.ofFn r.get ∧
    Gen.Avx2Mat.store_avx r v = writeSeq r (fun k => k) v.getN 4 ∧
    Gen.Avx2Mat.store_avx_a r v = writeSeq r (fun k => k) v.getN 4 ∧
    Gen.PosAvx512.load_avx512 r = V8.ofFn r.get ∧ Gen.WrapAvx512.load_avx512_a r = V8.ofFn r.get ∧
    Gen.Avx512Mat.store_avx512 r w = writeSeq r (fun k => k) w.getN 8 ∧
    Gen.WrapAvx512.store_avx512_a r w = writeSeq r (fun k => k) w.getN 8 := by
  refine ⟨rfl, rfl, rfl, ?_, ?_, rfl, rfl, ?_, ?_⟩
  · exact Avx2.store_eq r v
  · exact Avx2.store_eq r v
  · exact Avx512.store_eq r w
  · exact Avx512.store_eq r w

/-! ### (3) parcpy / parSetZero -/

open ParCopy in
/-- parcpy transfers exactly `size` elements, for every size (0 included), every `int` thread count
    (zero and negative included) and every order in which the chunk iterations are executed -/
theorem C17_parcpy (dst src : Region) (size : Nat) (nt : Int) (order : List Nat)
    (hperm : ∀ i, i ∈ order ↔ i ∈ starts size nt) (j : Nat) :
    (parcpyIn order dst src size nt) j = if j < size then src j else dst j := by
  rw [parcpyIn_apply]
  have : (∃ i, i ∈ order ∧ i ≤ j ∧ j < i + len size nt i) ↔ j < size := by
    rw [← covered_iff size nt j]
    constructor
    · rintro ⟨i, hi, hh⟩; exact ⟨i, (hperm i).mp hi, hh⟩
    · rintro ⟨i, hi, hh⟩; exact ⟨i, (hperm i).mpr hi, hh⟩
  by_cases h : j < size
  · rw [if_pos (this.mpr h), if_pos h]
  · rw [if_neg (fun hh => h (this.mp hh)), if_neg h]

open ParCopy in
theorem C17_parSetZero (dst : Region) (size : Nat) (nt : Int) (order : List Nat)
    (hperm : ∀ i, i ∈ order ↔ i ∈ starts size nt) (j : Nat) :
    (parSetZeroIn order dst size nt) j = if j < size then 0#64 else dst j := by
  rw [parSetZeroIn_apply]
  have : (∃ i, i ∈ order ∧ i ≤ j ∧ j < i + len size nt i) ↔ j < size := by
    rw [← covered_iff size nt j]
    constructor
    · rintro ⟨i, hi, hh⟩; exact ⟨i, (hperm i).mp hi, hh⟩
    · rintro ⟨i, hi, hh⟩; exact ⟨i, (hperm i).mpr hi, hh⟩
  by_cases h : j < size
  · rw [if_pos (this.mpr h), if_pos h]
  · rw [if_neg (fun hh => h (this.mp hh)), if_neg h]

open ParCopy in
/-- the sequential execution is one of those orders -/
theorem C17_parcpy_seq (dst src : Region) (size : Nat) (nt : Int) (j : Nat) :
    (parcpy dst src size nt) j = if j < size then src j else dst j :=
  C17_parcpy dst src size nt _ (fun _ => Iff.rfl) j

open ParCopy in
theorem C17_parSetZero_seq (dst : Region) (size : Nat) (nt : Int) (j : Nat) :
    (parSetZero dst size nt) j = if j < size then 0#64 else dst j :=
  C17_parSetZero dst size nt _ (fun _ => Iff.rfl) j

-- premises are satisfiable / definitions are not degenerate
example : ParCopy.starts 10 3 = [0, 4, 8] ∧ ParCopy.starts 10 (-5) = [0] ∧ ParCopy.starts 0 4 = [] ∧
    ParCopy.len 10 3 8 = 2 := by decide

/-! ### (3') the TRANSLATED `Goldilocks::parcpy` (Gen/NttGen.lean) and `Goldilocks::parSetZero` (Gen/ParZeroGen.lean), heap mode
  of the translator: pointers are block + offset.
  `parcpy` is translated from the C++ text on every run because `NTT_iters` calls it (size 1); `parSetZero` as a module of its own.  Heap view: `hp` is the list of
  memory blocks, `⟨D, od⟩` / `⟨S, os⟩` the destination / source pointers (block number, word offset), `bv n = BitVec.ofNat 64 n`. -/
section generated
open GoldilocksVerif.BridgeNtt Gen.NttGen

/-- **generated `parcpy`**: for every size `n` (0 included; `8·n < 2^64`), every `int` thread count `nt` (zero and negative
    included) and every fuel above the number of chunks (`parFuel n nt = min(n, max(1, nt)) + 1`), the translated function returns;
    the heap differs from the one before in the destination block only; that block keeps its size, the words `od … od+n-1` that
    lie inside it hold the source words `os … os+n-1`, every other word is unchanged: exactly `n` words are transferred.  When the
    destination range lies inside the block, the region the destination pointer designates is `ParCopy.parcpy` of the two regions
    (the hand model of (3)). -/
theorem C17_generated_parcpy (fuel : Nat) (hp : Heap) (D S od os n : Nat) (nt : Int) (hD : D < hp.size) (hDS : D ≠ S)
    (hn8 : n * 8 < 2 ^ 64) (hnt : nt < 2 ^ 63) (hf : parFuel n nt ≤ fuel) :
    ∃ B', parcpy fuel hp ⟨D, od⟩ ⟨S, os⟩ (bv n) nt = some (hp.setBlock D B') ∧ B'.size = (hp.block D).size ∧
      (∀ j, B'.getD j 0#64 = if od ≤ j ∧ j < od + n ∧ j < (hp.block D).size then (hp.block S).getD (os + (j - od)) 0#64
        else (hp.block D).getD j 0#64) ∧
      (od + n ≤ (hp.block D).size → ∀ j, B'.getD (od + j) 0#64 =
        (ParCopy.parcpy ⟨fun j => (hp.block D).getD (od + j) 0#64⟩ ⟨fun j => (hp.block S).getD (os + j) 0#64⟩ n nt) j) :=
  ⟨_, parcpy_gen fuel hp D S od os n nt hD hDS hn8 hnt hf, Model.Ntt.copyRow_size _ _ _ _ _,
    fun j => Model.Ntt.copyRow_getD _ _ _ _ _ j, fun hfit j => parcpy_gen_region hp D S od os n nt hfit j⟩

/-- the fuel bound, spelled out -/
theorem C17_generated_parcpy_fuel (n : Nat) (nt : Int) :
    parFuel n nt = min n (if nt < 1 then 1 else nt.toNat) + 1 := rfl

/-- **generated `parSetZero`** (Gen/ParZeroGen.lean, translated from the current text of `Goldilocks::parSetZero`; Lemmas/BridgeParcpyZero.lean):
    for every size `n` (0 included; `8·n < 2^64`), every `int` thread count `nt` (zero and negative included) and every fuel above
    the number of chunks (`parFuel n nt`), the translated function returns; the heap differs from the one before in the destination
    block only; that block keeps its size, the words `od … od+n-1` that lie inside it are zero, every other word is unchanged:
    exactly `n` words are zeroed.  When the destination range lies inside the block, the region the destination pointer designates
    is `ParCopy.parSetZero` of the region before (the hand model of (3)). -/
theorem C17_generated_parSetZero (fuel : Nat) (hp : Heap) (D od n : Nat) (nt : Int) (hD : D < hp.size)
    (hn8 : n * 8 < 2 ^ 64) (hnt : nt < 2 ^ 63) (hf : parFuel n nt ≤ fuel) :
    ∃ B', Gen.ParZeroGen.parSetZero fuel hp ⟨D, od⟩ (bv n) nt = some (hp.setBlock D B') ∧ B'.size = (hp.block D).size ∧
      (∀ j, B'.getD j 0#64 = if od ≤ j ∧ j < od + n ∧ j < (hp.block D).size then 0#64 else (hp.block D).getD j 0#64) ∧
      (od + n ≤ (hp.block D).size → ∀ j, B'.getD (od + j) 0#64 =
        (ParCopy.parSetZero ⟨fun j => (hp.block D).getD (od + j) 0#64⟩ n nt) j) :=
  ⟨_, parSetZero_gen fuel hp D od n nt hD hn8 hnt hf, Model.Ntt.zeroRow_size _ _ _,
    fun j => Model.Ntt.zeroRow_getD _ _ _ j, fun hfit j => parSetZero_gen_region hp D od n nt hfit j⟩

end generated

end GoldilocksVerif.C17
