/-
  C09 — Cubic extension arithmetic is exact in F_p[x]/(x^3 - x - 1).

  `K3` is the coefficient-triple representation of F_p[x]/(x^3-x-1) with the schoolbook product reduced by x^3 = x+1
  (Lemmas/ExtF.lean); `den3 r : K3` is the element a 3-word region denotes, in any representation of its coefficients.
  The statements are about `Gen.Ext.*`, regenerated from goldilocks_cubic_extension.hpp INCLUDING one generated model
  per aliased call pattern (out==a, out==b, a==b, all three: in those the aliased parameters share one variable, so a
  read after a write sees the written value), and about the hand models of inv/div/mulScalar/batchInverse.

  History: `isOne` was wrong on the pinned tree (D3: result[0] tested three times); found with a replay by this
  check, repaired by a fix: commit in /repo.
-/
import GoldilocksVerif.Lemmas.ExtF
import GoldilocksVerif.Lemmas.ExtIrred
import GoldilocksVerif.Lemmas.ExtBatch
import GoldilocksVerif.Lemmas.BridgeExt
import GoldilocksVerif.Lemmas.BridgeExtBatch
import GoldilocksVerif.Lemmas.BridgeExtScalar

namespace GoldilocksVerif.C09
open GoldilocksVerif Gen.Ext Model

/-- add, all operand forms; outputs may alias inputs -/
theorem C09_add (result a b : Region) (s : BitVec 64) :
    den3 (G3_add__a3A3A3 result a b) = K3.add (den3 a) (den3 b) ∧
    den3 (G3_add__a3A3E result a s) = K3.add (den3 a) (K3.ofBase (den s)) ∧
    den3 (G3_add__a3EA3 result s b) = K3.add (K3.ofBase (den s)) (den3 b) ∧
    den3 (G3_add__a3A3U result a s) = K3.add (den3 a) (K3.ofBase (den s)) :=
  ⟨add_den _ _ _, add_base_den _ _ _, add_base_l_den _ _ _, add_int_den _ _ _⟩

theorem C09_add_aliased (x y : Region) (s : BitVec 64) :
    den3 (G3_add__a3A3A3_al_result_a x y) = K3.add (den3 x) (den3 y) ∧
    den3 (G3_add__a3A3A3_al_result_b x y) = K3.add (den3 y) (den3 x) ∧
    den3 (G3_add__a3A3A3_al_a_b x y) = K3.add (den3 y) (den3 y) ∧
    den3 (G3_add__a3A3A3_al_result_a_al_result_b x) = K3.add (den3 x) (den3 x) ∧
    den3 (G3_add__a3A3E_al_result_a x s) = K3.add (den3 x) (K3.ofBase (den s)) ∧
    den3 (G3_add__a3EA3_al_result_b x s) = K3.add (K3.ofBase (den s)) (den3 x) ∧
    den3 (G3_add__a3A3U_al_result_a x s) = K3.add (den3 x) (K3.ofBase (den s)) :=
  ⟨add_den_oa _ _, add_den_ob _ _, add_den_ab _ _, add_den_oab _, add_base_den_oa _ _, add_base_l_den_ob _ _,
   add_int_den_oa _ _⟩

/-- sub and neg -/
theorem C09_sub (result a b : Region) (s : BitVec 64) :
    den3 (G3_sub__a3a3a3 result a b) = K3.sub (den3 a) (den3 b) ∧
    den3 (G3_sub__a3a3E result a s) = K3.sub (den3 a) (K3.ofBase (den s)) ∧
    den3 (G3_sub__a3Ea3 result s b) = K3.sub (K3.ofBase (den s)) (den3 b) ∧
    den3 (G3_sub__a3a3e result a s) = K3.sub (den3 a) (K3.ofBase (den s)) ∧
    den3 (G3_neg result a) = K3.neg (den3 a) :=
  ⟨sub_den _ _ _, sub_base_den _ _ _, sub_base_l_den _ _ _, sub_int_den _ _ _, neg_den _ _⟩

theorem C09_sub_aliased (x y : Region) (s : BitVec 64) :
    den3 (G3_sub__a3a3a3_al_result_a x y) = K3.sub (den3 x) (den3 y) ∧
    den3 (G3_sub__a3a3a3_al_result_b x y) = K3.sub (den3 y) (den3 x) ∧
    den3 (G3_sub__a3a3a3_al_a_b x y) = K3.sub (den3 y) (den3 y) ∧
    den3 (G3_sub__a3a3a3_al_result_a_al_result_b x) = K3.sub (den3 x) (den3 x) ∧
    den3 (G3_sub__a3a3E_al_result_a x s) = K3.sub (den3 x) (K3.ofBase (den s)) ∧
    den3 (G3_sub__a3Ea3_al_result_b x s) = K3.sub (K3.ofBase (den s)) (den3 x) ∧
    den3 (G3_sub__a3a3e_al_result_a x s) = K3.sub (den3 x) (K3.ofBase (den s)) ∧
    den3 (G3_neg_al_result_a x) = K3.neg (den3 x) :=
  ⟨sub_den_oa _ _, sub_den_ob _ _, sub_den_ab _ _, sub_den_oab _, sub_base_den_oa _ _, sub_base_l_den_ob _ _,
   sub_int_den_oa _ _, neg_den_oa _⟩

/-- mul (six base products recombined with x^3 = x+1) and square, all operand forms -/
theorem C09_mul (result a b : Region) (s : BitVec 64) :
    den3 (G3_mul__a3a3a3 result a b) = K3.mul (den3 a) (den3 b) ∧
    den3 (G3_mul__ppp result a b) = K3.mul (den3 a) (den3 b) ∧
    den3 (G3_mul__a3a3e result a s) = K3.mul (den3 a) (K3.ofBase (den s)) ∧
    den3 (G3_mul__a3Ea3 result s b) = K3.mul (K3.ofBase (den s)) (den3 b) ∧
    den3 (G3_mul__a3a3E result a s) = K3.mul (den3 a) (K3.ofBase (den s)) ∧
    den3 (G3_square result a) = K3.mul (den3 a) (den3 a) :=
  ⟨mul_den _ _ _, (mul_ptr_den _ _ _).1, mul_base_den _ _ _, mul_base_l_den _ _ _, mul_int_den _ _ _, square_den _ _⟩

theorem C09_mul_aliased (x y : Region) (s : BitVec 64) :
    den3 (G3_mul__a3a3a3_al_result_a x y) = K3.mul (den3 x) (den3 y) ∧
    den3 (G3_mul__a3a3a3_al_result_b x y) = K3.mul (den3 y) (den3 x) ∧
    den3 (G3_mul__a3a3a3_al_a_b x y) = K3.mul (den3 y) (den3 y) ∧
    den3 (G3_mul__a3a3a3_al_result_a_al_result_b x) = K3.mul (den3 x) (den3 x) ∧
    den3 (G3_mul__ppp_al_result_a x y) = K3.mul (den3 x) (den3 y) ∧
    den3 (G3_mul__ppp_al_result_b x y) = K3.mul (den3 y) (den3 x) ∧
    den3 (G3_mul__ppp_al_result_a_al_result_b x) = K3.mul (den3 x) (den3 x) ∧
    den3 (G3_mul__a3a3e_al_result_a x s) = K3.mul (den3 x) (K3.ofBase (den s)) ∧
    den3 (G3_mul__a3Ea3_al_result_b x s) = K3.mul (K3.ofBase (den s)) (den3 x) ∧
    den3 (G3_mul__a3a3E_al_result_a x s) = K3.mul (den3 x) (K3.ofBase (den s)) ∧
    den3 (G3_square_al_result_a x) = K3.mul (den3 x) (den3 x) :=
  ⟨mul_den_oa _ _, mul_den_ob _ _, mul_den_ab _ _, mul_den_oab _, (mul_ptr_den x x y).2.1, (mul_ptr_den x y y).2.2.1,
   (mul_ptr_den x x x).2.2.2.2, mul_base_den_oa _ _, mul_base_l_den_ob _ _, mul_int_den_oa _ _, square_den_oa _⟩

/-- zero / one / copy -/
theorem C09_constants (result src : Region) :
    den3 G3_zero__r = K3.zero ∧ den3 G3_one__r = K3.one ∧ den3 (G3_zero__a3 result) = K3.zero ∧
    den3 (G3_one__a3 result) = K3.one ∧ den3 (G3_copy__a3A3 result src) = den3 src :=
  ⟨den3_zero_r, den3_one_r, zero_a3_den _, one_a3_den _, (copy_den _ _).1⟩

/-- the is-one predicate holds exactly for the element (1,0,0), in every representation of the coefficients -/
theorem C09_isOne (r : Region) : G3_isOne r = true ↔ den3 r = K3.one := isOne_den r

/-- division by a base element: refused exactly on the zero class, otherwise result · b = a -/
theorem C09_div (a : E3) (b : BitVec 64) :
    (g3div a b = none ↔ den b = 0) ∧ (∀ r, g3div a b = some r → K3.mul (denE r) (K3.ofBase (den b)) = denE a) :=
  g3div_den a b

/-- multiplication by a decimal string: by the residue of the integer the numeral denotes (any sign, any size) -/
theorem C09_mulScalar (a : E3) (s : String) (x : Int) (h : parseInt 10 s = some x) :
    ∃ r, g3mulScalar a s = some r ∧ denE r = K3.mul (denE a) (K3.ofBase (x : F)) := g3mulScalar_den a s x h

/-- x³ − x − 1 has no root in F_p, so F_p[x]/(x³ − x − 1) is a field: the quantity t of `Goldilocks3::inv` (minus the norm)
    vanishes only at the zero element (Lemmas/ExtIrred.lean: x^p computed in the kernel, Fermat, an explicit Bézout identity) -/
theorem C09_irreducible : (∀ r : F, r ^ 3 ≠ r + 1) ∧ (∀ a : K3, K3.tval a = 0 ↔ a = K3.zero) :=
  ⟨cubic_no_root, K3.tval_eq_zero_iff⟩

/-- inversion of every non-zero element (any representation of the coefficients) returns, and result · a = 1 -/
theorem C09_inv (a : E3) (h : denE a ≠ K3.zero) : ∃ r, g3inv a = some r ∧ K3.mul (denE r) (denE a) = K3.one := by
  cases hi : g3inv a with
  | none => exact absurd ((g3inv_none_iff a).mp hi) h
  | some r => exact ⟨r, rfl, (g3inv_den a).2 r hi⟩

/-- inversion is refused exactly on the zero class (every representation of 0) -/
theorem C09_inv_refusal (a : E3) : g3inv a = none ↔ denE a = K3.zero := g3inv_none_iff a

/- The earlier, weaker form (kept: it does not depend on the irreducibility argument). -/
theorem C09_inv_partial (a : E3) :
    (g3inv a = none ↔ K3.tval (denE a) = 0) ∧
    (∀ r, g3inv a = some r → K3.mul (denE r) (denE a) = K3.one) ∧
    (K3.tval (denE a) ≠ 0 → ∃ r, g3inv a = some r ∧ K3.mul (denE r) (denE a) = K3.one) := by
  obtain ⟨h1, h2⟩ := g3inv_den a
  refine ⟨h1, h2, fun ht => ?_⟩
  cases hi : g3inv a with
  | none => exact absurd (h1.mp hi) ht
  | some r => exact ⟨r, rfl, h2 r hi⟩

/-- batch inversion (prefix products, one inversion, backward sweep) equals element-wise inversion for every array
    length ≥ 1: it is refused exactly for the empty array or when some element is zero, and whenever it returns, the result
    has the length of the input and res[i] · src[i] = 1 for every i.  The model `Model.g3batchInverse` is tied to the code by
    the correspondence run (lengths 1..66, every output element compared). -/
theorem C09_batchInverse (src : List E3) :
    (g3batchInverse src = none ↔ src = [] ∨ ∃ x ∈ src, denE x = K3.zero) ∧
    (∀ res, g3batchInverse src = some res →
      res.length = src.length ∧
      ∀ (i : Nat) (h1 : i < res.length) (h2 : i < src.length), K3.mul (denE res[i]) (denE src[i]) = K3.one) ∧
    ((∀ x ∈ src, denE x ≠ K3.zero) → src ≠ [] →
      ∃ res, g3batchInverse src = some res ∧ res.length = src.length ∧
        ∀ (i : Nat) (h1 : i < res.length) (h2 : i < src.length), K3.mul (denE res[i]) (denE src[i]) = K3.one) := by
  have hsome : ∀ res, g3batchInverse src = some res →
      res.length = src.length ∧
      ∀ (i : Nat) (h1 : i < res.length) (h2 : i < src.length), K3.mul (denE res[i]) (denE src[i]) = K3.one := by
    intro res h
    have hf := g3batchInverse_forall2 src res h
    exact ⟨hf.length_eq, fun i h1 h2 => List.Forall₂.get hf h1 h2⟩
  refine ⟨g3batchInverse_none_iff src, hsome, fun hnz hne => ?_⟩
  cases hb : g3batchInverse src with
  | none =>
    rcases (g3batchInverse_none_iff src).mp hb with h | ⟨x, hx, h0⟩
    · exact absurd h hne
    · exact absurd h0 (hnz x hx)
  | some res => exact ⟨res, rfl, hsome res hb⟩

/-- the inverse is unique, so `inv` and `batchInverse` agree element-wise as field elements -/
theorem C09_batchInverse_eq_inv (src res : List E3) (h : g3batchInverse src = some res) (i : Nat)
    (h1 : i < res.length) (h2 : i < src.length) (r : E3) (hr : g3inv src[i] = some r) : denE res[i] = denE r := by
  have hf := g3batchInverse_forall2 src res h
  exact K3.inv_unique _ _ _ (List.Forall₂.get hf h1 h2) ((g3inv_den _).2 r hr)

/-! ## The same statements about the TRANSLATED inversion and division

  `Gen.ExtInvGen.G3_inv___a3a3 / G3_inv___pp / G3_div` are regenerated from the C++ text of `Goldilocks3::inv` (both
  overloads) and `Goldilocks3::div` on every run; they call the translated `Goldilocks::inv` (`none` = exit(-1), Euclid loop
  bounded by `fuel`).  The statements hold for every fuel ≥ `invFuel` = 129.  An added special case in the C++ (a "fast
  path") changes the generated definition and `G3_inv_gen_unfold` (Lemmas/BridgeExt.lean) no longer checks. -/

/-- the translated inversion IS the hand model `g3inv` on the three coefficient words, written to result[0..2] -/
theorem C09_generated_inv_eq_model (fuel : Nat) (hf : invFuel ≤ fuel) (result a : Region) :
    Gen.ExtInvGen.G3_inv___a3a3 fuel result a = (g3inv (E3.ofRegion a)).map (put3 result) ∧
    Gen.ExtInvGen.G3_inv___pp fuel result a = (g3inv (E3.ofRegion a)).map (put3 result) :=
  ⟨G3_inv_gen_eq fuel hf result a, G3_inv_pp_gen_eq fuel hf result a⟩

/-- translated inv: every non-zero element (any representation of the coefficients) is inverted, result · a = 1, and only
    words 0,1,2 of the result region are written -/
theorem C09_generated_inv (fuel : Nat) (hf : invFuel ≤ fuel) (result a : Region) (h : den3 a ≠ K3.zero) :
    ∃ r, Gen.ExtInvGen.G3_inv___a3a3 fuel result a = some r ∧ Gen.ExtInvGen.G3_inv___pp fuel result a = some r ∧
      K3.mul (den3 r) (den3 a) = K3.one ∧ ∀ k, 3 ≤ k → r k = result k := by
  obtain ⟨h1, h2⟩ := G3_inv_gen_spec fuel hf result a
  cases hi : Gen.ExtInvGen.G3_inv___a3a3 fuel result a with
  | none => exact absurd (h1.mp hi) h
  | some r =>
    refine ⟨r, rfl, ?_, (h2 r hi).1, (h2 r hi).2⟩
    rw [G3_inv_pp_gen_eq fuel hf, ← G3_inv_gen_eq fuel hf, hi]

/-- translated inv: the process is ended exactly on the zero class -/
theorem C09_generated_inv_refusal (fuel : Nat) (hf : invFuel ≤ fuel) (result a : Region) :
    Gen.ExtInvGen.G3_inv___a3a3 fuel result a = none ↔ den3 a = K3.zero := (G3_inv_gen_spec fuel hf result a).1

/-- translated div by a base element: refused exactly on the zero class of the divisor, otherwise result · b = a -/
theorem C09_generated_div (fuel : Nat) (hf : invFuel ≤ fuel) (result a : Region) (b : BitVec 64) :
    (Gen.ExtInvGen.G3_div fuel result a b = none ↔ den b = 0) ∧
    (∀ r, Gen.ExtInvGen.G3_div fuel result a b = some r → K3.mul (den3 r) (K3.ofBase (den b)) = den3 a) :=
  G3_div_gen_spec fuel hf result a b

/-- translated `batchInverse(res, src, size)` (prefix products in a run-time sized stack array, one inversion, the descending
    loop as a fuel-bounded fold, memcpy of `size` rows), proved DIRECTLY on the generated function: for every array length
    1 ≤ size < 2^59, all regions, and every fuel ≥ 129 that exceeds size, the process is ended exactly when some src[i] is the
    zero element (any representation of its coefficients); otherwise res[i] · src[i] = 1 for every i < size and nothing
    beyond row size−1 of `res` is written.  Row i of a region = words 3i, 3i+1, 3i+2. -/
theorem C09_generated_batchInverse (fuel : Nat) (res src : Region) (size : BitVec 64)
    (h1 : 1 ≤ size.toNat) (hsz : size.toNat < 2 ^ 59) (hf : invFuel ≤ fuel) (hf2 : size.toNat < fuel) :
    (Gen.ExtInvGen.G3_batchInverse fuel res src size = none ↔
      ∃ i, i < size.toNat ∧ den3 (Region.shift src (3 * i)) = K3.zero) ∧
    (∀ r, Gen.ExtInvGen.G3_batchInverse fuel res src size = some r →
      (∀ i, i < size.toNat → K3.mul (den3 (Region.shift r (3 * i))) (den3 (Region.shift src (3 * i))) = K3.one) ∧
      ∀ k, 3 * size.toNat ≤ k → r k = res k) :=
  G3_batchInverse_gen_spec fuel res src size h1 hsz hf hf2

/-- hence the translated batch inversion agrees element-wise, as field elements, with the translated single inversion -/
theorem C09_generated_batchInverse_eq_inv (fuel : Nat) (res src r out a' : Region) (size : BitVec 64)
    (h1 : 1 ≤ size.toNat) (hsz : size.toNat < 2 ^ 59) (hf : invFuel ≤ fuel) (hf2 : size.toNat < fuel)
    (h : Gen.ExtInvGen.G3_batchInverse fuel res src size = some r) (i : Nat) (hi : i < size.toNat)
    (hinv : Gen.ExtInvGen.G3_inv___a3a3 fuel out (Region.shift src (3 * i)) = some a') :
    den3 (Region.shift r (3 * i)) = den3 a' :=
  K3.inv_unique _ _ _ (((G3_batchInverse_gen_spec fuel res src size h1 hsz hf hf2).2 r h).1 i hi)
    ((G3_inv_gen_spec fuel hf out _).2 a' hinv).1

/-- translated `mulScalar(result, a, decimal string)` (Gen/ExtScalarGen.lean: three calls of the translated `fromString` with
    the default radix 10): for every numeral denoting the integer x (any sign, any size) it returns a·x in K3, writes only
    words 0,1,2 of the result, and equals the hand model; a string GMP rejects ends the call (`none`) -/
theorem C09_generated_mulScalar (fuel : Nat) (result a : Region) (s : String) :
    Gen.ExtScalarGen.G3_mulScalar fuel result a s = (g3mulScalar (E3.ofRegion a) s).map (put3 result) ∧
    (∀ x : Int, parseInt 10 s = some x →
      ∃ r, Gen.ExtScalarGen.G3_mulScalar fuel result a s = some r ∧
        den3 r = K3.mul (den3 a) (K3.ofBase (x : F)) ∧ ∀ k, 3 ≤ k → r k = result k) := by
  refine ⟨G3_mulScalar_gen_eq fuel result a s, fun x hx => ?_⟩
  obtain ⟨e, he, hd⟩ := g3mulScalar_den (E3.ofRegion a) s x hx
  refine ⟨put3 result e, ?_, ?_, fun k hk => put3_frame result e k hk⟩
  · rw [G3_mulScalar_gen_eq, he]; rfl
  · rw [den3_put3, hd]; rfl

/-- non-vacuity: an element with non-canonical coefficients that is one -/
example : den3 (Region.ofList [18446744069414584322#64, 18446744069414584321#64, 0#64]) = K3.one := by
  rw [← C09_isOne]; decide

end GoldilocksVerif.C09
