/-
  C08 — Merkle tree buffer and root are the binary Poseidon tree over row digests.

  About `Model.merkleTree` (leaf digests followed level by level by the hashes of adjacent digest pairs) and
  `Model.batchLeaf`, the models of the six builders of poseidon_goldilocks.cpp, generic in the leaf and node hash and tied
  to the code by the correspondence run over the shape grid (every element of every tree buffer compared).
  History: the AVX512 builders were out of bounds for a single row (D5) and had a zero-length array for zero columns (D11);
  found by this check with replays, repaired by a fix: commit.
-/
import GoldilocksVerif.Lemmas.MerkleL
import GoldilocksVerif.Lemmas.BridgeMerkle
import GoldilocksVerif.Lemmas.BridgePerm
import GoldilocksVerif.Lemmas.BridgeMerkleAvx

namespace GoldilocksVerif.C08
open GoldilocksVerif.Model

/-- for every power-of-two number of rows (including one): the buffer has exactly the size reported by the element-count
    helper, which is 4·(2·rows − 1) -/
theorem C08_buffer_size (leaf node : List Wd → List Wd) (hl : ∀ x, (leaf x).length = 4) (hn : ∀ x, (node x).length = 4)
    (rows : List (List Wd)) (k : Nat) (hr : rows.length = 2 ^ k) :
    (merkleTree leaf node rows).length = treeNumElements rows.length ∧
    treeNumElements rows.length = 4 * (2 * rows.length - 1) := merkleTree_length leaf node hl hn rows k hr

/-- the buffer starts with the row digests in order -/
theorem C08_leaves_first (leaf node : List Wd → List Wd) (rows : List (List Wd)) :
    (merkleTree leaf node rows).take (rows.flatMap leaf).length = rows.flatMap leaf := by
  unfold merkleTree
  simp

/-- the root is the last four elements of the buffer and equals the recursive pairwise hash of the digests -/
theorem C08_root_is_last_four (leaf node : List Wd → List Wd) (hl : ∀ x, (leaf x).length = 4) (hn : ∀ x, (node x).length = 4)
    (rows : List (List Wd)) (k : Nat) (hr : rows.length = 2 ^ k) :
    (merkleTree leaf node rows).drop ((merkleTree leaf node rows).length - 4) = rootOf node k (rows.flatMap leaf) := by
  have hk : k ≤ rows.length := by rw [hr]; exact Nat.le_of_lt Nat.lt_two_pow_self
  have hleaves : (rows.flatMap leaf).length = 4 * 2 ^ k := by
    rw [← hr]
    clear hr hk
    induction rows with
    | nil => rfl
    | cons r rs ih => rw [List.flatMap_cons, List.length_append, hl, ih, List.length_cons]; omega
  unfold merkleTree
  rw [hr]
  exact upperLevels_last node hn k (2 ^ k) _ (by rw [← hr]; exact hk) hleaves

/-- every backend produces the same tree when its leaf and node hashes agree (C06/C07 give that agreement) -/
theorem C08_backends_agree (l1 l2 n1 n2 : List Wd → List Wd) (hl : ∀ x, l1 x = l2 x) (hn : ∀ x, n1 x = n2 x)
    (rows : List (List Wd)) : merkleTree l1 n1 rows = merkleTree l2 n2 rows := by
  have e1 : l1 = l2 := funext hl
  have e2 : n1 = n2 := funext hn
  rw [e1, e2]

/-- the batched builder's leaf: digest of the concatenated digests of consecutive column batches; with one batch covering
    all columns it is the digest of the digest of the row -/
theorem C08_batch_leaf_single_batch (lh : List Wd → List Wd) (cols dim batch : Nat) (row : List Wd)
    (hc : 0 < cols) (hb : cols ≤ batch) (hrow : row.length = cols * dim) :
    batchLeaf lh cols dim batch row = lh (lh row) := by
  unfold batchLeaf
  have hnb : (cols + batch - 1) / batch = 1 := by
    have h1 : batch ≤ cols + batch - 1 := by omega
    have h2 : cols + batch - 1 < 2 * batch := by omega
    have hbp : 0 < batch := by omega
    exact Nat.div_eq_of_lt_le (by omega) (by omega)
  simp only [hc, if_true, hnb]
  simp only [List.range_one, List.map_cons, List.map_nil, Nat.sub_self, Nat.zero_mul, Nat.sub_zero, if_true, List.drop_zero,
    List.flatten_cons, List.flatten_nil, List.append_nil]
  rw [← hrow, List.take_of_length_le (Nat.le_refl _)]

/-! ## The same statement about the TRANSLATED builders `merkletree_seq` and `merkletree_avx`

  `Gen.MerkleGen.Pos_merkletree_seq / Pos_merkletree_avx` are regenerated from poseidon_goldilocks.cpp on every run (the two
  `#pragma omp parallel for` loops sequentially, `while (pending > 1)` as a fuel-bounded fold, `floor((pending - 1) / 2) + 1`
  through doubles holding integers).  For rows = 2^k (k ≤ 48), rows·cols·dim < 2^64, every tree / input region, every
  `nThreads`, every fuel > rows and > cols·dim: the builder returns, the first 4·(2·rows − 1) words of the tree buffer are
  `Model.merkleTree` of the rows (row i = input words i·cols·dim … (i+1)·cols·dim − 1), nothing beyond them is written.
  Hence C08_buffer_size / C08_leaves_first / C08_root_is_last_four apply to what the translated code builds.
  Proofs: Lemmas/BridgeMerkle.lean (generic in the two hashes), Lemmas/BridgeSponge.lean, Lemmas/BridgePerm.lean. -/

/-- translated `merkletree_seq`, no hypothesis on the hashes: leaf = sponge with the translated scalar permutation,
    node = translated `hash_seq` of the eight words zero-padded to twelve -/
theorem C08_generated_merkletree_seq (fuel : Nat) (tree input : GoldilocksVerif.Region) (num_cols num_rows : BitVec 64)
    (nThreads : Int) (dim : BitVec 64) (k : Nat)
    (hR : num_rows.toNat = 2 ^ k) (hk : k ≤ 48) (hprod : 2 ^ k * (num_cols.toNat * dim.toNat) < 2 ^ 64)
    (hf1 : num_cols.toNat * dim.toNat < fuel) (hf2 : 2 ^ k < fuel) :
    ∃ t, Gen.MerkleGen.Pos_merkletree_seq fuel tree input num_cols num_rows nThreads dim = some t ∧
      GoldilocksVerif.Region.toList t (4 * (2 * 2 ^ k - 1)) =
        merkleTree (linearHash GoldilocksVerif.permSeqList) (fun x => GoldilocksVerif.nodeSeqList (x ++ zeros 4))
          (GoldilocksVerif.rowsOf input (num_cols.toNat * dim.toNat) (2 ^ k)) ∧
      ∀ i, 4 * (2 * 2 ^ k - 1) ≤ i → t i = tree i := by
  rw [GoldilocksVerif.mt_seq_generic]
  refine GoldilocksVerif.mtGenG_spec _ (linearHash GoldilocksVerif.permSeqList) ?_ _ GoldilocksVerif.nodeSeqList
    GoldilocksVerif.hash_seq_node fuel tree input num_cols num_rows nThreads dim k hR hk hprod hf1 hf2
  intro fuel out inp size hf
  rw [GoldilocksVerif.lh_seq_generic]
  exact GoldilocksVerif.lhGenG_spec _ GoldilocksVerif.permSeqList GoldilocksVerif.perm_seq_hP fuel out inp size hf

/-- translated `merkletree_avx`: the same statement for every list function `perm` describing the translated AVX2
    permutation on its first twelve words (`hP`) and every `nodeF` describing the translated `hash` (`hH`) -/
theorem C08_generated_merkletree_avx (perm nodeF : List Wd → List Wd)
    (hP : ∀ s, GoldilocksVerif.Region.toList (Gen.LinearHashGen.Pos_hash_full_result_al_state_input s) 12 =
      perm (GoldilocksVerif.Region.toList s 12))
    (hH : GoldilocksVerif.NodeHash Gen.PosAvx2.Pos_hash nodeF)
    (fuel : Nat) (tree input : GoldilocksVerif.Region) (num_cols num_rows : BitVec 64)
    (nThreads : Int) (dim : BitVec 64) (k : Nat)
    (hR : num_rows.toNat = 2 ^ k) (hk : k ≤ 48) (hprod : 2 ^ k * (num_cols.toNat * dim.toNat) < 2 ^ 64)
    (hf1 : num_cols.toNat * dim.toNat < fuel) (hf2 : 2 ^ k < fuel) :
    ∃ t, Gen.MerkleGen.Pos_merkletree_avx fuel tree input num_cols num_rows nThreads dim = some t ∧
      GoldilocksVerif.Region.toList t (4 * (2 * 2 ^ k - 1)) =
        merkleTree (linearHash perm) (fun x => nodeF (x ++ zeros 4))
          (GoldilocksVerif.rowsOf input (num_cols.toNat * dim.toNat) (2 ^ k)) ∧
      ∀ i, 4 * (2 * 2 ^ k - 1) ≤ i → t i = tree i := by
  rw [GoldilocksVerif.mt_avx_generic]
  refine GoldilocksVerif.mtGenG_spec _ (linearHash perm) ?_ _ nodeF hH fuel tree input num_cols num_rows nThreads dim k
    hR hk hprod hf1 hf2
  intro fuel out inp size hf
  rw [GoldilocksVerif.lh_avx_generic]
  exact GoldilocksVerif.lhGenG_spec _ perm hP fuel out inp size hf

/-- translated `merkletree_avx`, WITHOUT hypotheses on the hashes: leaf = sponge over the translated AVX2 permutation
    (`permAvxList`), node = translated AVX2 `hash` of the eight words zero-padded to twelve (`nodeAvxList`) -/
theorem C08_generated_merkletree_avx_is_tree (fuel : Nat) (tree input : GoldilocksVerif.Region) (num_cols num_rows : BitVec 64)
    (nThreads : Int) (dim : BitVec 64) (k : Nat)
    (hR : num_rows.toNat = 2 ^ k) (hk : k ≤ 48) (hprod : 2 ^ k * (num_cols.toNat * dim.toNat) < 2 ^ 64)
    (hf1 : num_cols.toNat * dim.toNat < fuel) (hf2 : 2 ^ k < fuel) :
    ∃ t, Gen.MerkleGen.Pos_merkletree_avx fuel tree input num_cols num_rows nThreads dim = some t ∧
      GoldilocksVerif.Region.toList t (4 * (2 * 2 ^ k - 1)) =
        merkleTree (linearHash GoldilocksVerif.permAvxList) (fun x => GoldilocksVerif.nodeAvxList (x ++ zeros 4))
          (GoldilocksVerif.rowsOf input (num_cols.toNat * dim.toNat) (2 ^ k)) ∧
      ∀ i, 4 * (2 * 2 ^ k - 1) ≤ i → t i = tree i :=
  C08_generated_merkletree_avx GoldilocksVerif.permAvxList GoldilocksVerif.nodeAvxList GoldilocksVerif.perm_avx_hP
    GoldilocksVerif.hash_avx_node fuel tree input num_cols num_rows nThreads dim k hR hk hprod hf1 hf2

/-- so the root the translated scalar builder leaves in the last four words of the buffer is the recursive pairwise hash of the
    row digests (C08_root_is_last_four on what the translated code builds) -/
theorem C08_generated_merkletree_seq_root (fuel : Nat) (tree input t : GoldilocksVerif.Region) (num_cols num_rows : BitVec 64)
    (nThreads : Int) (dim : BitVec 64) (k : Nat)
    (hR : num_rows.toNat = 2 ^ k) (hk : k ≤ 48) (hprod : 2 ^ k * (num_cols.toNat * dim.toNat) < 2 ^ 64)
    (hf1 : num_cols.toNat * dim.toNat < fuel) (hf2 : 2 ^ k < fuel)
    (ht : Gen.MerkleGen.Pos_merkletree_seq fuel tree input num_cols num_rows nThreads dim = some t) :
    (GoldilocksVerif.Region.toList t (4 * (2 * 2 ^ k - 1))).drop (4 * (2 * 2 ^ k - 1) - 4) =
      rootOf (fun x => GoldilocksVerif.nodeSeqList (x ++ zeros 4)) k
        ((GoldilocksVerif.rowsOf input (num_cols.toNat * dim.toNat) (2 ^ k)).flatMap (linearHash GoldilocksVerif.permSeqList)) := by
  obtain ⟨t', ht', hM, _⟩ := C08_generated_merkletree_seq fuel tree input num_cols num_rows nThreads dim k hR hk hprod hf1 hf2
  rw [ht] at ht'
  cases ht'
  have hlen : (GoldilocksVerif.rowsOf input (num_cols.toNat * dim.toNat) (2 ^ k)).length = 2 ^ k := by
    simp [GoldilocksVerif.rowsOf]
  have hroot := C08_root_is_last_four (linearHash GoldilocksVerif.permSeqList)
    (fun x => GoldilocksVerif.nodeSeqList (x ++ zeros 4))
    (GoldilocksVerif.linearHash_length _ (fun s => by rw [GoldilocksVerif.permSeqList_length]; omega))
    (fun x => GoldilocksVerif.nodeSeqList_length _) _ k hlen
  rw [← hM] at hroot
  rw [GoldilocksVerif.Region.length_toList] at hroot
  exact hroot

/-- non-vacuity: four rows give a 28-element buffer -/
example : (merkleTree (fun r => r.take 4) (fun x => x.take 4) [[1,2,3,4],[5,6,7,8],[9,10,11,12],[13,14,15,16]]).length = 28 := by
  decide

end GoldilocksVerif.C08
