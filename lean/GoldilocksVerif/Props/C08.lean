/-
  C08 — Merkle tree buffer and root are the binary Poseidon tree over row digests.

  About `Model.merkleTree` (leaf digests followed level by level by the hashes of adjacent digest pairs) and
  `Model.batchLeaf`, the models of the six builders of poseidon_goldilocks.cpp, generic in the leaf and node hash and tied
  to the code by the correspondence run over the shape grid (every element of every tree buffer compared).
  History: the AVX512 builders were out of bounds for a single row (D5) and had a zero-length array for zero columns (D11);
  found by this check with replays, repaired by a fix: commit.
-/
import GoldilocksVerif.Lemmas.MerkleL

namespace GoldilocksVerif.C08
open GoldilocksVerif.Model

/-- for every power-of-two number of rows (including one): the buffer has exactly the size reported by the element-count
    helper, which is 4·(2·rows − 1) -/
theorem C08_buffer_size (leaf node : List Wd → List Wd) (hl : ∀ x, (leaf x).length = 4) (hn : ∀ x, (node x).length = 4)
    (rows : List (List Wd)) (k : Nat) (hr : rows.length = 2 ^ k) :
    (merkleTree leaf node rows).length = treeNumElements rows.length ∧
    treeNumElements rows.length = 4 * (2 * rows.length - 1) := merkleTree_length leaf node hl hn rows k hr

/-- the buffer starts with the row digests in order -/
theorem C08_leaves_first (leaf node : List Wd → List Wd) (rows : List (List Wd)) :
    (merkleTree leaf node rows).take (rows.flatMap leaf).length = rows.flatMap leaf := by
  unfold merkleTree
  simp

/-- the root is the last four elements of the buffer and equals the recursive pairwise hash of the digests -/
theorem C08_root_is_last_four (leaf node : List Wd → List Wd) (hl : ∀ x, (leaf x).length = 4) (hn : ∀ x, (node x).length = 4)
    (rows : List (List Wd)) (k : Nat) (hr : rows.length = 2 ^ k) :
    (merkleTree leaf node rows).drop ((merkleTree leaf node rows).length - 4) = rootOf node k (rows.flatMap leaf) := by
  have hk : k ≤ rows.length := by rw [hr]; exact Nat.le_of_lt Nat.lt_two_pow_self
  have hleaves : (rows.flatMap leaf).length = 4 * 2 ^ k := by
    rw [← hr]
    clear hr hk
    induction rows with
    | nil => rfl
    | cons r rs ih => rw [List.flatMap_cons, List.length_append, hl, ih, List.length_cons]; omega
  unfold merkleTree
  rw [hr]
  exact upperLevels_last node hn k (2 ^ k) _ (by rw [← hr]; exact hk) hleaves

/-- every backend produces the same tree when its leaf and node hashes agree (C06/C07 give that agreement) -/
theorem C08_backends_agree (l1 l2 n1 n2 : List Wd → List Wd) (hl : ∀ x, l1 x = l2 x) (hn : ∀ x, n1 x = n2 x)
    (rows : List (List Wd)) : merkleTree l1 n1 rows = merkleTree l2 n2 rows := by
  have e1 : l1 = l2 := funext hl
  have e2 : n1 = n2 := funext hn
  rw [e1, e2]

/-- the batched builder's leaf: digest of the concatenated digests of consecutive column batches; with one batch covering
    all columns it is the digest of the digest of the row -/
theorem C08_batch_leaf_single_batch (lh : List Wd → List Wd) (cols dim batch : Nat) (row : List Wd)
    (hc : 0 < cols) (hb : cols ≤ batch) (hrow : row.length = cols * dim) :
    batchLeaf lh cols dim batch row = lh (lh row) := by
  unfold batchLeaf
  have hnb : (cols + batch - 1) / batch = 1 := by
    have h1 : batch ≤ cols + batch - 1 := by omega
    have h2 : cols + batch - 1 < 2 * batch := by omega
    have hbp : 0 < batch := by omega
    exact Nat.div_eq_of_lt_le (by omega) (by omega)
  simp only [hc, if_true, hnb]
  simp only [List.range_one, List.map_cons, List.map_nil, Nat.sub_self, Nat.zero_mul, Nat.sub_zero, if_true, List.drop_zero,
    List.flatten_cons, List.flatten_nil, List.append_nil]
  rw [← hrow, List.take_of_length_le (Nat.le_refl _)]

/-- non-vacuity: four rows give a 28-element buffer -/
example : (merkleTree (fun r => r.take 4) (fun x => x.take 4) [[1,2,3,4],[5,6,7,8],[9,10,11,12],[13,14,15,16]]).length = 28 := by
  decide

end GoldilocksVerif.C08
