/-
  C08 — Merkle tree buffer and root are the binary Poseidon tree over row digests.

  About `Model.merkleTree` (leaf digests followed level by level by the hashes of adjacent digest pairs) and
  `Model.batchLeaf`, the models of the six builders of poseidon_goldilocks.cpp, generic in the leaf and node hash and tied
  to the code by the correspondence run over the shape grid (every element of every tree buffer compared).
  History: the AVX512 builders were out of bounds for a single row (D5) and had a zero-length array for zero columns (D11);
  found by this check with replays, repaired by a fix: commit.
-/
import GoldilocksVerif.Lemmas.MerkleL
import GoldilocksVerif.Lemmas.BridgeMerkle
import GoldilocksVerif.Lemmas.BridgePerm
import GoldilocksVerif.Lemmas.BridgeMerkleAvx
import GoldilocksVerif.Lemmas.BridgeMerkleBatch
import GoldilocksVerif.Lemmas.BridgeMerkle512
import GoldilocksVerif.Gen.MerkleSizeGen

namespace GoldilocksVerif.C08
open GoldilocksVerif.Model

/-- for every power-of-two number of rows (including one): the buffer has exactly the size reported by the element-count
    helper, which is 4·(2·rows − 1) -/
theorem C08_buffer_size (leaf node : List Wd → List Wd) (hl : ∀ x, (leaf x).length = 4) (hn : ∀ x, (node x).length = 4)
    (rows : List (List Wd)) (k : Nat) (hr : rows.length = 2 ^ k) :
    (merkleTree leaf node rows).length = treeNumElements rows.length ∧
    treeNumElements rows.length = 4 * (2 * rows.length - 1) := merkleTree_length leaf node hl hn rows k hr

/-- the buffer starts with the row digests in order -/
theorem C08_leaves_first (leaf node : List Wd → List Wd) (rows : List (List Wd)) :
    (merkleTree leaf node rows).take (rows.flatMap leaf).length = rows.flatMap leaf := by
  unfold merkleTree
  simp

/-- the root is the last four elements of the buffer and equals the recursive pairwise hash of the digests -/
theorem C08_root_is_last_four (leaf node : List Wd → List Wd) (hl : ∀ x, (leaf x).length = 4) (hn : ∀ x, (node x).length = 4)
    (rows : List (List Wd)) (k : Nat) (hr : rows.length = 2 ^ k) :
    (merkleTree leaf node rows).drop ((merkleTree leaf node rows).length - 4) = rootOf node k (rows.flatMap leaf) := by
  have hk : k ≤ rows.length := by rw [hr]; exact Nat.le_of_lt Nat.lt_two_pow_self
  have hleaves : (rows.flatMap leaf).length = 4 * 2 ^ k := by
    rw [← hr]
    clear hr hk
    induction rows with
    | nil => rfl
    | cons r rs ih => rw [List.flatMap_cons, List.length_append, hl, ih, List.length_cons]; omega
  unfold merkleTree
  rw [hr]
  exact upperLevels_last node hn k (2 ^ k) _ (by rw [← hr]; exact hk) hleaves

/-- every backend produces the same tree when its leaf and node hashes agree (C06/C07 give that agreement) -/
theorem C08_backends_agree (l1 l2 n1 n2 : List Wd → List Wd) (hl : ∀ x, l1 x = l2 x) (hn : ∀ x, n1 x = n2 x)
    (rows : List (List Wd)) : merkleTree l1 n1 rows = merkleTree l2 n2 rows := by
  have e1 : l1 = l2 := funext hl
  have e2 : n1 = n2 := funext hn
  rw [e1, e2]

/-- the batched builder's leaf: digest of the concatenated digests of consecutive column batches; with one batch covering
    all columns it is the digest of the digest of the row -/
theorem C08_batch_leaf_single_batch (lh : List Wd → List Wd) (cols dim batch : Nat) (row : List Wd)
    (hc : 0 < cols) (hb : cols ≤ batch) (hrow : row.length = cols * dim) :
    batchLeaf lh cols dim batch row = lh (lh row) := by
  unfold batchLeaf
  have hnb : (cols + batch - 1) / batch = 1 := by
    have h1 : batch ≤ cols + batch - 1 := by omega
    have h2 : cols + batch - 1 < 2 * batch := by omega
    have hbp : 0 < batch := by omega
    exact Nat.div_eq_of_lt_le (by omega) (by omega)
  simp only [hc, if_true, hnb]
  simp only [List.range_one, List.map_cons, List.map_nil, Nat.sub_self, Nat.zero_mul, Nat.sub_zero, if_true, List.drop_zero,
    List.flatten_cons, List.flatten_nil, List.append_nil]
  rw [← hrow, List.take_of_length_le (Nat.le_refl _)]

/-! ## The same statement about the TRANSLATED builders `merkletree_seq` and `merkletree_avx`

  `Gen.MerkleGen.Pos_merkletree_seq / Pos_merkletree_avx` are regenerated from poseidon_goldilocks.cpp on every run (the two
  `#pragma omp parallel for` loops sequentially, `while (pending > 1)` as a fuel-bounded fold, `floor((pending - 1) / 2) + 1`
  through doubles holding integers).  For rows = 2^k (k ≤ 48), rows·cols·dim < 2^64, every tree / input region, every
  `nThreads`, every fuel > rows and > cols·dim: the builder returns, the first 4·(2·rows − 1) words of the tree buffer are
  `Model.merkleTree` of the rows (row i = input words i·cols·dim … (i+1)·cols·dim − 1), nothing beyond them is written.
  Hence C08_buffer_size / C08_leaves_first / C08_root_is_last_four apply to what the translated code builds.
  Proofs: Lemmas/BridgeMerkle.lean (generic in the two hashes), Lemmas/BridgeSponge.lean, Lemmas/BridgePerm.lean. -/

/-- translated `merkletree_seq`, no hypothesis on the hashes: leaf = sponge with the translated scalar permutation,
    node = translated `hash_seq` of the eight words zero-padded to twelve -/
theorem C08_generated_merkletree_seq (fuel : Nat) (tree input : GoldilocksVerif.Region) (num_cols num_rows : BitVec 64)
    (nThreads : Int) (dim : BitVec 64) (k : Nat)
    (hR : num_rows.toNat = 2 ^ k) (hk : k ≤ 48) (hprod : 2 ^ k * (num_cols.toNat * dim.toNat) < 2 ^ 64)
    (hf1 : num_cols.toNat * dim.toNat < fuel) (hf2 : 2 ^ k < fuel) :
    ∃ t, Gen.MerkleGen.Pos_merkletree_seq fuel tree input num_cols num_rows nThreads dim = some t ∧
      GoldilocksVerif.Region.toList t (4 * (2 * 2 ^ k - 1)) =
        merkleTree (linearHash GoldilocksVerif.permSeqList) (fun x => GoldilocksVerif.nodeSeqList (x ++ zeros 4))
          (GoldilocksVerif.rowsOf input (num_cols.toNat * dim.toNat) (2 ^ k)) ∧
      ∀ i, 4 * (2 * 2 ^ k - 1) ≤ i → t i = tree i := by
  rw [GoldilocksVerif.mt_seq_generic]
  refine GoldilocksVerif.mtGenG_spec _ (linearHash GoldilocksVerif.permSeqList) ?_ _ GoldilocksVerif.nodeSeqList
    GoldilocksVerif.hash_seq_node fuel tree input num_cols num_rows nThreads dim k hR hk hprod hf1 hf2
  intro fuel out inp size hf
  rw [GoldilocksVerif.lh_seq_generic]
  exact GoldilocksVerif.lhGenG_spec _ GoldilocksVerif.permSeqList GoldilocksVerif.perm_seq_hP fuel out inp size hf

/-- translated `merkletree_avx`: the same statement for every list function `perm` describing the translated AVX2
    permutation on its first twelve words (`hP`) and every `nodeF` describing the translated `hash` (`hH`) -/
theorem C08_generated_merkletree_avx (perm nodeF : List Wd → List Wd)
    (hP : ∀ s, GoldilocksVerif.Region.toList (Gen.LinearHashGen.Pos_hash_full_result_al_state_input s) 12 =
      perm (GoldilocksVerif.Region.toList s 12))
    (hH : GoldilocksVerif.NodeHash Gen.PosAvx2.Pos_hash nodeF)
    (fuel : Nat) (tree input : GoldilocksVerif.Region) (num_cols num_rows : BitVec 64)
    (nThreads : Int) (dim : BitVec 64) (k : Nat)
    (hR : num_rows.toNat = 2 ^ k) (hk : k ≤ 48) (hprod : 2 ^ k * (num_cols.toNat * dim.toNat) < 2 ^ 64)
    (hf1 : num_cols.toNat * dim.toNat < fuel) (hf2 : 2 ^ k < fuel) :
    ∃ t, Gen.MerkleGen.Pos_merkletree_avx fuel tree input num_cols num_rows nThreads dim = some t ∧
      GoldilocksVerif.Region.toList t (4 * (2 * 2 ^ k - 1)) =
        merkleTree (linearHash perm) (fun x => nodeF (x ++ zeros 4))
          (GoldilocksVerif.rowsOf input (num_cols.toNat * dim.toNat) (2 ^ k)) ∧
      ∀ i, 4 * (2 * 2 ^ k - 1) ≤ i → t i = tree i := by
  rw [GoldilocksVerif.mt_avx_generic]
  refine GoldilocksVerif.mtGenG_spec _ (linearHash perm) ?_ _ nodeF hH fuel tree input num_cols num_rows nThreads dim k
    hR hk hprod hf1 hf2
  intro fuel out inp size hf
  rw [GoldilocksVerif.lh_avx_generic]
  exact GoldilocksVerif.lhGenG_spec _ perm hP fuel out inp size hf

/-- translated `merkletree_avx`, WITHOUT hypotheses on the hashes: leaf = sponge over the translated AVX2 permutation
    (`permAvxList`), node = translated AVX2 `hash` of the eight words zero-padded to twelve (`nodeAvxList`) -/
theorem C08_generated_merkletree_avx_is_tree (fuel : Nat) (tree input : GoldilocksVerif.Region) (num_cols num_rows : BitVec 64)
    (nThreads : Int) (dim : BitVec 64) (k : Nat)
    (hR : num_rows.toNat = 2 ^ k) (hk : k ≤ 48) (hprod : 2 ^ k * (num_cols.toNat * dim.toNat) < 2 ^ 64)
    (hf1 : num_cols.toNat * dim.toNat < fuel) (hf2 : 2 ^ k < fuel) :
    ∃ t, Gen.MerkleGen.Pos_merkletree_avx fuel tree input num_cols num_rows nThreads dim = some t ∧
      GoldilocksVerif.Region.toList t (4 * (2 * 2 ^ k - 1)) =
        merkleTree (linearHash GoldilocksVerif.permAvxList) (fun x => GoldilocksVerif.nodeAvxList (x ++ zeros 4))
          (GoldilocksVerif.rowsOf input (num_cols.toNat * dim.toNat) (2 ^ k)) ∧
      ∀ i, 4 * (2 * 2 ^ k - 1) ≤ i → t i = tree i :=
  C08_generated_merkletree_avx GoldilocksVerif.permAvxList GoldilocksVerif.nodeAvxList GoldilocksVerif.perm_avx_hP
    GoldilocksVerif.hash_avx_node fuel tree input num_cols num_rows nThreads dim k hR hk hprod hf1 hf2

/-- so the root the translated scalar builder leaves in the last four words of the buffer is the recursive pairwise hash of the
    row digests (C08_root_is_last_four on what the translated code builds) -/
theorem C08_generated_merkletree_seq_root (fuel : Nat) (tree input t : GoldilocksVerif.Region) (num_cols num_rows : BitVec 64)
    (nThreads : Int) (dim : BitVec 64) (k : Nat)
    (hR : num_rows.toNat = 2 ^ k) (hk : k ≤ 48) (hprod : 2 ^ k * (num_cols.toNat * dim.toNat) < 2 ^ 64)
    (hf1 : num_cols.toNat * dim.toNat < fuel) (hf2 : 2 ^ k < fuel)
    (ht : Gen.MerkleGen.Pos_merkletree_seq fuel tree input num_cols num_rows nThreads dim = some t) :
    (GoldilocksVerif.Region.toList t (4 * (2 * 2 ^ k - 1))).drop (4 * (2 * 2 ^ k - 1) - 4) =
      rootOf (fun x => GoldilocksVerif.nodeSeqList (x ++ zeros 4)) k
        ((GoldilocksVerif.rowsOf input (num_cols.toNat * dim.toNat) (2 ^ k)).flatMap (linearHash GoldilocksVerif.permSeqList)) := by
  obtain ⟨t', ht', hM, _⟩ := C08_generated_merkletree_seq fuel tree input num_cols num_rows nThreads dim k hR hk hprod hf1 hf2
  rw [ht] at ht'
  cases ht'
  have hlen : (GoldilocksVerif.rowsOf input (num_cols.toNat * dim.toNat) (2 ^ k)).length = 2 ^ k := by
    simp [GoldilocksVerif.rowsOf]
  have hroot := C08_root_is_last_four (linearHash GoldilocksVerif.permSeqList)
    (fun x => GoldilocksVerif.nodeSeqList (x ++ zeros 4))
    (GoldilocksVerif.linearHash_length _ (fun s => by rw [GoldilocksVerif.permSeqList_length]; omega))
    (fun x => GoldilocksVerif.nodeSeqList_length _) _ k hlen
  rw [← hM] at hroot
  rw [GoldilocksVerif.Region.length_toList] at hroot
  exact hroot

/-- non-vacuity: four rows give a 28-element buffer -/
example : (merkleTree (fun r => r.take 4) (fun x => x.take 4) [[1,2,3,4],[5,6,7,8],[9,10,11,12],[13,14,15,16]]).length = 28 := by
  decide

/-! ## The TRANSLATED batched builders `merkletree_batch_seq` and `merkletree_batch_avx`

  For rows = 2^k (k ≤ 48), rows·cols·dim < 2^64, batch_size ≥ 1, cols + batch_size < 2^62 (so `num_cols + batch_size - 1` and
  `nbatches * CAPACITY` do not wrap), every tree / input region, every `nThreads`, every fuel > rows, > cols·dim and
  > 4·(cols + 1) (the linear hash of `buff0`, nbatches ≤ max cols 1): the builder returns, the first 4·(2·rows − 1) words of
  the tree buffer are `Model.merkleTree (Model.batchLeaf lh cols dim batch)` of the rows, nothing beyond them is written.
  num_cols = 0 is covered (nbatches = 1, nlastb = 0: the leaf is lh (lh [])).
  Proofs: Lemmas/BridgeMerkleBatch.lean (generic in the two hashes). -/

/-- translated `merkletree_batch_seq`, no hypothesis on the hashes -/
theorem C08_generated_merkletree_batch_seq (fuel : Nat) (tree input : GoldilocksVerif.Region)
    (num_cols num_rows batch_size : BitVec 64) (nThreads : Int) (dim : BitVec 64) (k : Nat)
    (hR : num_rows.toNat = 2 ^ k) (hk : k ≤ 48) (hprod : 2 ^ k * (num_cols.toNat * dim.toNat) < 2 ^ 64)
    (hb : 1 ≤ batch_size.toNat) (hcb : num_cols.toNat + batch_size.toNat < 2 ^ 62)
    (hf1 : num_cols.toNat * dim.toNat < fuel) (hf2 : 2 ^ k < fuel) (hf3 : 4 * (num_cols.toNat + 1) < fuel) :
    ∃ t, Gen.MerkleGen.Pos_merkletree_batch_seq fuel tree input num_cols num_rows batch_size nThreads dim = some t ∧
      GoldilocksVerif.Region.toList t (4 * (2 * 2 ^ k - 1)) =
        merkleTree (batchLeaf (linearHash GoldilocksVerif.permSeqList) num_cols.toNat dim.toNat batch_size.toNat)
          (fun x => GoldilocksVerif.nodeSeqList (x ++ zeros 4))
          (GoldilocksVerif.rowsOf input (num_cols.toNat * dim.toNat) (2 ^ k)) ∧
      ∀ i, 4 * (2 * 2 ^ k - 1) ≤ i → t i = tree i := by
  rw [GoldilocksVerif.mtb_seq_generic]
  refine GoldilocksVerif.mtbGenG_spec _ (linearHash GoldilocksVerif.permSeqList) ?_ _ GoldilocksVerif.nodeSeqList
    GoldilocksVerif.hash_seq_node fuel tree input num_cols num_rows batch_size dim k hR hk hprod hb hcb hf1 hf2 hf3
  intro fuel out inp size hf
  rw [GoldilocksVerif.lh_seq_generic]
  exact GoldilocksVerif.lhGenG_spec _ GoldilocksVerif.permSeqList GoldilocksVerif.perm_seq_hP fuel out inp size hf

/-- translated `merkletree_batch_avx`, no hypothesis on the hashes: leaf = batched sponge over the translated AVX2 permutation,
    node = translated AVX2 `hash` -/
theorem C08_generated_merkletree_batch_avx (fuel : Nat) (tree input : GoldilocksVerif.Region)
    (num_cols num_rows batch_size : BitVec 64) (nThreads : Int) (dim : BitVec 64) (k : Nat)
    (hR : num_rows.toNat = 2 ^ k) (hk : k ≤ 48) (hprod : 2 ^ k * (num_cols.toNat * dim.toNat) < 2 ^ 64)
    (hb : 1 ≤ batch_size.toNat) (hcb : num_cols.toNat + batch_size.toNat < 2 ^ 62)
    (hf1 : num_cols.toNat * dim.toNat < fuel) (hf2 : 2 ^ k < fuel) (hf3 : 4 * (num_cols.toNat + 1) < fuel) :
    ∃ t, Gen.MerkleGen.Pos_merkletree_batch_avx fuel tree input num_cols num_rows batch_size nThreads dim = some t ∧
      GoldilocksVerif.Region.toList t (4 * (2 * 2 ^ k - 1)) =
        merkleTree (batchLeaf (linearHash GoldilocksVerif.permAvxList) num_cols.toNat dim.toNat batch_size.toNat)
          (fun x => GoldilocksVerif.nodeAvxList (x ++ zeros 4))
          (GoldilocksVerif.rowsOf input (num_cols.toNat * dim.toNat) (2 ^ k)) ∧
      ∀ i, 4 * (2 * 2 ^ k - 1) ≤ i → t i = tree i := by
  rw [GoldilocksVerif.mtb_avx_generic]
  refine GoldilocksVerif.mtbGenG_spec _ (linearHash GoldilocksVerif.permAvxList) ?_ _ GoldilocksVerif.nodeAvxList
    GoldilocksVerif.hash_avx_node fuel tree input num_cols num_rows batch_size dim k hR hk hprod hb hcb hf1 hf2 hf3
  intro fuel out inp size hf
  rw [GoldilocksVerif.lh_avx_generic]
  exact GoldilocksVerif.lhGenG_spec _ GoldilocksVerif.permAvxList GoldilocksVerif.perm_avx_hP fuel out inp size hf

/-! ## The TRANSLATED AVX512 builder `merkletree_avx512` and the default wrapper `merkletree`

  The leaf loop hashes two rows per iteration through the translated `linear_hash_avx512` (8 words = two digests written at
  tree + 4·i); for rows = 2^k the odd-last-row branch (one-state `linear_hash`) is taken exactly when rows = 1.  The level loop
  calls the AVX2 `hash`.  Unconditionally (`C08_generated_merkletree_avx512`): the leaf level is `leaves512` = the pair digests
  `linearHash512 perm512List (row_2m ++ row_2m+1)` in order (first half = digest slot of row 2m, second half = slot of row
  2m+1), followed by the pairwise levels (`treeOfLeaves` = `Model.merkleTree` with the leaf level given).  That the two halves
  are the one-row sponges needs C06's interleaving statement about the two-state permutation BIT FOR BIT (C06 has it at field
  level only): with it as hypothesis (`C08_generated_merkletree_avx512_is_tree`) the buffer is
  `Model.merkleTree (linearHash permAvxList) node rows`, the tree `C08_generated_merkletree_avx_is_tree` gives for the AVX2 builder.
  Proofs: Lemmas/BridgeMerkle512.lean. -/

/-- translated `merkletree_avx512`, no hypothesis on the hashes -/
theorem C08_generated_merkletree_avx512 (fuel : Nat) (tree input : GoldilocksVerif.Region) (num_cols num_rows : BitVec 64)
    (nThreads : Int) (dim : BitVec 64) (k : Nat)
    (hR : num_rows.toNat = 2 ^ k) (hk : k ≤ 48) (hprod : 2 ^ k * (num_cols.toNat * dim.toNat) < 2 ^ 64)
    (hf1 : num_cols.toNat * dim.toNat < fuel) (hf2 : 2 ^ k < fuel) :
    ∃ t, Gen.MerkleGen.Pos_merkletree_avx512 fuel tree input num_cols num_rows nThreads dim = some t ∧
      GoldilocksVerif.Region.toList t (4 * (2 * 2 ^ k - 1)) =
        GoldilocksVerif.treeOfLeaves (fun x => GoldilocksVerif.nodeAvxList (x ++ zeros 4)) (2 ^ k)
          (GoldilocksVerif.leaves512 (linearHash GoldilocksVerif.permAvxList) (linearHash512 GoldilocksVerif.perm512List)
            input (num_cols.toNat * dim.toNat) k) ∧
      ∀ i, 4 * (2 * 2 ^ k - 1) ≤ i → t i = tree i := by
  rw [GoldilocksVerif.mt512_generic]
  refine GoldilocksVerif.mt512GenG_spec _ _ (linearHash GoldilocksVerif.permAvxList)
    (linearHash512 GoldilocksVerif.perm512List) ?_ ?_ _ GoldilocksVerif.nodeAvxList GoldilocksVerif.hash_avx_node
    fuel tree input num_cols num_rows dim k hR hk hprod hf1 hf2
  · intro fuel out inp size hf
    rw [GoldilocksVerif.lh_avx_generic]
    exact GoldilocksVerif.lhGenG_spec _ GoldilocksVerif.permAvxList GoldilocksVerif.perm_avx_hP fuel out inp size hf
  · intro fuel out inp size hf
    rw [GoldilocksVerif.lh512_generic]
    exact GoldilocksVerif.lh512GenG_spec _ GoldilocksVerif.perm512List GoldilocksVerif.perm512_hP fuel out inp size hf

/-- two equally long inputs through `linearHash512 perm512List` = the two `linearHash permAvxList` digests, under the
    interleaving hypothesis (C07_avx512) -/
theorem C08_pair_digests
    (h : ∀ a b, a.length = 12 → b.length = 12 →
      GoldilocksVerif.perm512List (interleave a b) = interleave (GoldilocksVerif.permAvxList a) (GoldilocksVerif.permAvxList b))
    (a b : List Wd) (hl : a.length = b.length) :
    linearHash512 GoldilocksVerif.perm512List (a ++ b) a.length =
      linearHash GoldilocksVerif.permAvxList a ++ linearHash GoldilocksVerif.permAvxList b :=
  linearHash512_eq GoldilocksVerif.permAvxList GoldilocksVerif.perm512List h
    (fun s _ => GoldilocksVerif.permAvxList_length s) a b hl

/-- translated `merkletree_avx512` builds the SAME tree as the translated AVX2 builder, the one remaining hypothesis being the
    interleaving statement about the translated two-state permutation (bit for bit) -/
theorem C08_generated_merkletree_avx512_is_tree
    (h : ∀ a b, a.length = 12 → b.length = 12 →
      GoldilocksVerif.perm512List (interleave a b) = interleave (GoldilocksVerif.permAvxList a) (GoldilocksVerif.permAvxList b))
    (fuel : Nat) (tree input : GoldilocksVerif.Region) (num_cols num_rows : BitVec 64)
    (nThreads : Int) (dim : BitVec 64) (k : Nat)
    (hR : num_rows.toNat = 2 ^ k) (hk : k ≤ 48) (hprod : 2 ^ k * (num_cols.toNat * dim.toNat) < 2 ^ 64)
    (hf1 : num_cols.toNat * dim.toNat < fuel) (hf2 : 2 ^ k < fuel) :
    ∃ t, Gen.MerkleGen.Pos_merkletree_avx512 fuel tree input num_cols num_rows nThreads dim = some t ∧
      GoldilocksVerif.Region.toList t (4 * (2 * 2 ^ k - 1)) =
        merkleTree (linearHash GoldilocksVerif.permAvxList) (fun x => GoldilocksVerif.nodeAvxList (x ++ zeros 4))
          (GoldilocksVerif.rowsOf input (num_cols.toNat * dim.toNat) (2 ^ k)) ∧
      ∀ i, 4 * (2 * 2 ^ k - 1) ≤ i → t i = tree i := by
  obtain ⟨t, h1, h2, h3⟩ := C08_generated_merkletree_avx512 fuel tree input num_cols num_rows nThreads dim k hR hk hprod hf1 hf2
  refine ⟨t, h1, ?_, h3⟩
  rw [h2, GoldilocksVerif.merkleTree_eq_treeOfLeaves, GoldilocksVerif.leaves512_rows _ _ (C08_pair_digests h)]

/-- the default wrapper `merkletree` (this build: it calls `merkletree_avx512`): the same two statements -/
theorem C08_generated_merkletree_default (fuel : Nat) (tree input : GoldilocksVerif.Region) (num_cols num_rows : BitVec 64)
    (nThreads : Int) (dim : BitVec 64) (k : Nat)
    (hR : num_rows.toNat = 2 ^ k) (hk : k ≤ 48) (hprod : 2 ^ k * (num_cols.toNat * dim.toNat) < 2 ^ 64)
    (hf1 : num_cols.toNat * dim.toNat < fuel) (hf2 : 2 ^ k < fuel) :
    ∃ t, Gen.MerkleGen.Pos_merkletree fuel tree input num_cols num_rows nThreads dim = some t ∧
      GoldilocksVerif.Region.toList t (4 * (2 * 2 ^ k - 1)) =
        GoldilocksVerif.treeOfLeaves (fun x => GoldilocksVerif.nodeAvxList (x ++ zeros 4)) (2 ^ k)
          (GoldilocksVerif.leaves512 (linearHash GoldilocksVerif.permAvxList) (linearHash512 GoldilocksVerif.perm512List)
            input (num_cols.toNat * dim.toNat) k) ∧
      (∀ i, 4 * (2 * 2 ^ k - 1) ≤ i → t i = tree i) ∧
      ((∀ a b, a.length = 12 → b.length = 12 → GoldilocksVerif.perm512List (interleave a b) =
          interleave (GoldilocksVerif.permAvxList a) (GoldilocksVerif.permAvxList b)) →
        GoldilocksVerif.Region.toList t (4 * (2 * 2 ^ k - 1)) =
          merkleTree (linearHash GoldilocksVerif.permAvxList) (fun x => GoldilocksVerif.nodeAvxList (x ++ zeros 4))
            (GoldilocksVerif.rowsOf input (num_cols.toNat * dim.toNat) (2 ^ k))) := by
  rw [GoldilocksVerif.mt_default_generic]
  obtain ⟨t, h1, h2, h3⟩ := C08_generated_merkletree_avx512 fuel tree input num_cols num_rows nThreads dim k hR hk hprod hf1 hf2
  refine ⟨t, h1, h2, h3, fun h => ?_⟩
  rw [h2, GoldilocksVerif.merkleTree_eq_treeOfLeaves, GoldilocksVerif.leaves512_rows _ _ (C08_pair_digests h)]

/-! ## The TRANSLATED `merkletree_batch_avx512` and the default wrapper `merkletree_batch`

  Two rows per iteration: per column batch one `linear_hash_avx512` of the two row slices copied back to back into `buff1`
  (`memcpy` of dim·nn·8 bytes: cols·dim < 2^61 so the byte count does not wrap), first digest halves to buff0[0 .. 4·nbatches),
  second halves to buff0[4·nbatches .. 8·nbatches), then one `linear_hash_avx512` of the two halves of buff0
  (`GoldilocksVerif.batchLeaf512`); rows = 1 goes through the one-state branch (= the AVX2 batched leaf).  cols + batch_size < 2^61
  (buff0 has 8·nbatches words).  As for `merkletree_avx512`: unconditional statement with the pair digests
  (`leavesB512`), and `Model.merkleTree (Model.batchLeaf (linearHash permAvxList) ..)` under the bit-for-bit interleaving
  hypothesis.  Proofs: Lemmas/BridgeMerkle512.lean. -/

/-- translated `merkletree_batch_avx512`, no hypothesis on the hashes -/
theorem C08_generated_merkletree_batch_avx512 (fuel : Nat) (tree input : GoldilocksVerif.Region)
    (num_cols num_rows batch_size : BitVec 64) (nThreads : Int) (dim : BitVec 64) (k : Nat)
    (hR : num_rows.toNat = 2 ^ k) (hk : k ≤ 48) (hprod : 2 ^ k * (num_cols.toNat * dim.toNat) < 2 ^ 64)
    (h61 : num_cols.toNat * dim.toNat < 2 ^ 61)
    (hb : 1 ≤ batch_size.toNat) (hcb : num_cols.toNat + batch_size.toNat < 2 ^ 61)
    (hf1 : num_cols.toNat * dim.toNat < fuel) (hf2 : 2 ^ k < fuel) (hf3 : 4 * (num_cols.toNat + 1) < fuel) :
    ∃ t, Gen.MerkleGen.Pos_merkletree_batch_avx512 fuel tree input num_cols num_rows batch_size nThreads dim = some t ∧
      GoldilocksVerif.Region.toList t (4 * (2 * 2 ^ k - 1)) =
        GoldilocksVerif.treeOfLeaves (fun x => GoldilocksVerif.nodeAvxList (x ++ zeros 4)) (2 ^ k)
          (GoldilocksVerif.leavesB512 (linearHash GoldilocksVerif.permAvxList) (linearHash512 GoldilocksVerif.perm512List)
            input num_cols.toNat dim.toNat batch_size.toNat k) ∧
      ∀ i, 4 * (2 * 2 ^ k - 1) ≤ i → t i = tree i := by
  rw [GoldilocksVerif.mtb512_generic fuel tree input num_cols num_rows batch_size nThreads dim hb hcb]
  refine GoldilocksVerif.mtb512GenG_spec _ _ (linearHash GoldilocksVerif.permAvxList)
    (linearHash512 GoldilocksVerif.perm512List) ?_ ?_ _ GoldilocksVerif.nodeAvxList GoldilocksVerif.hash_avx_node
    fuel tree input num_cols num_rows batch_size dim k hR hk hprod h61 hb hcb hf1 hf2 hf3
  · intro fuel out inp size hf
    rw [GoldilocksVerif.lh_avx_generic]
    exact GoldilocksVerif.lhGenG_spec _ GoldilocksVerif.permAvxList GoldilocksVerif.perm_avx_hP fuel out inp size hf
  · intro fuel out inp size hf
    rw [GoldilocksVerif.lh512_generic]
    exact GoldilocksVerif.lh512GenG_spec _ GoldilocksVerif.perm512List GoldilocksVerif.perm512_hP fuel out inp size hf

/-- translated `merkletree_batch_avx512` builds the SAME tree as the translated AVX2 batched builder, under the interleaving
    hypothesis about the translated two-state permutation (bit for bit) -/
theorem C08_generated_merkletree_batch_avx512_is_tree
    (h : ∀ a b, a.length = 12 → b.length = 12 →
      GoldilocksVerif.perm512List (interleave a b) = interleave (GoldilocksVerif.permAvxList a) (GoldilocksVerif.permAvxList b))
    (fuel : Nat) (tree input : GoldilocksVerif.Region)
    (num_cols num_rows batch_size : BitVec 64) (nThreads : Int) (dim : BitVec 64) (k : Nat)
    (hR : num_rows.toNat = 2 ^ k) (hk : k ≤ 48) (hprod : 2 ^ k * (num_cols.toNat * dim.toNat) < 2 ^ 64)
    (h61 : num_cols.toNat * dim.toNat < 2 ^ 61)
    (hb : 1 ≤ batch_size.toNat) (hcb : num_cols.toNat + batch_size.toNat < 2 ^ 61)
    (hf1 : num_cols.toNat * dim.toNat < fuel) (hf2 : 2 ^ k < fuel) (hf3 : 4 * (num_cols.toNat + 1) < fuel) :
    ∃ t, Gen.MerkleGen.Pos_merkletree_batch_avx512 fuel tree input num_cols num_rows batch_size nThreads dim = some t ∧
      GoldilocksVerif.Region.toList t (4 * (2 * 2 ^ k - 1)) =
        merkleTree (batchLeaf (linearHash GoldilocksVerif.permAvxList) num_cols.toNat dim.toNat batch_size.toNat)
          (fun x => GoldilocksVerif.nodeAvxList (x ++ zeros 4))
          (GoldilocksVerif.rowsOf input (num_cols.toNat * dim.toNat) (2 ^ k)) ∧
      ∀ i, 4 * (2 * 2 ^ k - 1) ≤ i → t i = tree i := by
  obtain ⟨t, h1, h2, h3⟩ := C08_generated_merkletree_batch_avx512 fuel tree input num_cols num_rows batch_size nThreads dim k
    hR hk hprod h61 hb hcb hf1 hf2 hf3
  refine ⟨t, h1, ?_, h3⟩
  rw [h2, GoldilocksVerif.merkleTree_eq_treeOfLeaves,
    GoldilocksVerif.leavesB512_rows _ _ (C08_pair_digests h)
      (GoldilocksVerif.linearHash_length _ (fun s => by rw [GoldilocksVerif.permAvxList_length]; omega)) _ _ _ _ _ hb]

/-- the default wrapper `merkletree_batch` (this build: it calls `merkletree_batch_avx512`): the same two statements -/
theorem C08_generated_merkletree_batch_default (fuel : Nat) (tree input : GoldilocksVerif.Region)
    (num_cols num_rows batch_size : BitVec 64) (nThreads : Int) (dim : BitVec 64) (k : Nat)
    (hR : num_rows.toNat = 2 ^ k) (hk : k ≤ 48) (hprod : 2 ^ k * (num_cols.toNat * dim.toNat) < 2 ^ 64)
    (h61 : num_cols.toNat * dim.toNat < 2 ^ 61)
    (hb : 1 ≤ batch_size.toNat) (hcb : num_cols.toNat + batch_size.toNat < 2 ^ 61)
    (hf1 : num_cols.toNat * dim.toNat < fuel) (hf2 : 2 ^ k < fuel) (hf3 : 4 * (num_cols.toNat + 1) < fuel) :
    ∃ t, Gen.MerkleGen.Pos_merkletree_batch fuel tree input num_cols num_rows batch_size nThreads dim = some t ∧
      GoldilocksVerif.Region.toList t (4 * (2 * 2 ^ k - 1)) =
        GoldilocksVerif.treeOfLeaves (fun x => GoldilocksVerif.nodeAvxList (x ++ zeros 4)) (2 ^ k)
          (GoldilocksVerif.leavesB512 (linearHash GoldilocksVerif.permAvxList) (linearHash512 GoldilocksVerif.perm512List)
            input num_cols.toNat dim.toNat batch_size.toNat k) ∧
      (∀ i, 4 * (2 * 2 ^ k - 1) ≤ i → t i = tree i) ∧
      ((∀ a b, a.length = 12 → b.length = 12 → GoldilocksVerif.perm512List (interleave a b) =
          interleave (GoldilocksVerif.permAvxList a) (GoldilocksVerif.permAvxList b)) →
        GoldilocksVerif.Region.toList t (4 * (2 * 2 ^ k - 1)) =
          merkleTree (batchLeaf (linearHash GoldilocksVerif.permAvxList) num_cols.toNat dim.toNat batch_size.toNat)
            (fun x => GoldilocksVerif.nodeAvxList (x ++ zeros 4))
            (GoldilocksVerif.rowsOf input (num_cols.toNat * dim.toNat) (2 ^ k))) := by
  rw [GoldilocksVerif.mtb_default_generic]
  obtain ⟨t, h1, h2, h3⟩ := C08_generated_merkletree_batch_avx512 fuel tree input num_cols num_rows batch_size nThreads dim k
    hR hk hprod h61 hb hcb hf1 hf2 hf3
  refine ⟨t, h1, h2, h3, fun h => ?_⟩
  rw [h2, GoldilocksVerif.merkleTree_eq_treeOfLeaves,
    GoldilocksVerif.leavesB512_rows _ _ (C08_pair_digests h)
      (GoldilocksVerif.linearHash_length _ (fun s => by rw [GoldilocksVerif.permAvxList_length]; omega)) _ _ _ _ _ hb]

/-- non-vacuity of the pair leaf level: with `leaf2` = "hash both halves separately" the AVX512 leaf level of four rows is
    the level of the four row digests -/
example : GoldilocksVerif.leaves512 (fun r => r.take 4) (fun l n => (l.take n).take 4 ++ (l.drop n).take 4)
    (GoldilocksVerif.Region.ofList [1,2,3,4,5,6,7,8,9,10,11,12,13,14,15,16,17,18,19,20]) 5 2 =
    [1,2,3,4, 6,7,8,9, 11,12,13,14, 16,17,18,19] := by decide

/-- the TRANSLATED `MerklehashGoldilocks::getTreeNumElements` (Gen/MerkleSizeGen.lean, regenerated from
    merklehash_goldilocks.hpp on every run) is the hand model `treeNumElements` for every degree ≥ 1: as a 64-bit word without
    any bound, and as a number (no wrap-around, = 4·(2·degree − 1), the buffer size of `C08_buffer_size`) below 2^61.
    degree = 0 is outside the property (a tree has at least one row): the C++ expression wraps to 2^64 − 4 there, the hand
    model over the naturals says 0.  Proved over `Nat` (`omega`), whatever way the expression is factored. -/
theorem C08_generated_getTreeNumElements (degree : BitVec 64) (h : 1 ≤ degree.toNat) :
    Gen.MerkleSizeGen.MerklehashGoldilocks_getTreeNumElements degree = BitVec.ofNat 64 (treeNumElements degree.toNat) ∧
    (degree.toNat < 2 ^ 61 →
      (Gen.MerkleSizeGen.MerklehashGoldilocks_getTreeNumElements degree).toNat = treeNumElements degree.toNat ∧
      treeNumElements degree.toNat = 4 * (2 * degree.toNat - 1)) := by
  have e : (Gen.MerkleSizeGen.MerklehashGoldilocks_getTreeNumElements degree).toNat =
      treeNumElements degree.toNat % 2 ^ 64 := by
    unfold Gen.MerkleSizeGen.MerklehashGoldilocks_getTreeNumElements treeNumElements
    bv_omega
  refine ⟨BitVec.eq_of_toNat_eq (by rw [e, BitVec.toNat_ofNat]), fun hlt => ?_⟩
  have h2 : treeNumElements degree.toNat = 4 * (2 * degree.toNat - 1) := by unfold treeNumElements; omega
  refine ⟨?_, h2⟩
  rw [e, h2]
  omega

end GoldilocksVerif.C08
