/-
  C13 — AVX2 dot / sparse / dense 12-wide matrix kernels equal the product mod p.

  About `Gen.Avx2Mat.*` (regenerated from goldilocks_base_field_avx.hpp).  `den x` is the field element a
  64-bit representation denotes (any representation, canonical or not); `dot12 a0 a1 a2 M off` is
  Σ_{j<3,k<4} a_j[k]·M[off+4j+k], the inner product of the 12-element state held in (a0,a1,a2) with
  twelve consecutive coefficients.  Matrices are arbitrary memory regions.
-/
import GoldilocksVerif.Lemmas.Avx2MatF

namespace GoldilocksVerif.C13
open Gen.Avx2Mat GoldilocksVerif

/-- spmv_avx_4x12: c[i] = Σ_j a_j[i]·b[4j+i], every state, every coefficient array -/
theorem C13_spmv_avx_4x12 (a0 a1 a2 : V4) (b : Region) (i : Fin 4) :
    den ((spmv_avx_4x12 a0 a1 a2 b).get i) =
      den (a0.get i) * den (b i.val) + den (a1.get i) * den (b (4 + i.val)) + den (a2.get i) * den (b (8 + i.val)) :=
  spmv_den a0 a1 a2 b i

/-- aligned variants compute the same function (alignment itself is a C18 matter) -/
theorem C13_aligned_variants (a0 a1 a2 : V4) (b : Region) :
    spmv_avx_4x12_a a0 a1 a2 b = spmv_avx_4x12 a0 a1 a2 b ∧
    mmult_avx_4x12_a a0 a1 a2 b = mmult_avx_4x12 a0 a1 a2 b ∧
    mmult_avx_a a0 a1 a2 b = mmult_avx a0 a1 a2 b ∧
    dot_avx_a a0 a1 a2 b = dot_avx a0 a1 a2 b :=
  ⟨spmv_a_eq _ _ _ _, mmult_4x12_a_eq _ _ _ _, mmult_a_eq _ _ _ _, dot_a_eq _ _ _ _⟩

/-- dot_avx: the horizontal sum = inner product of the state with b[0..12) -/
theorem C13_dot_avx (a0 a1 a2 : V4) (b : Region) : den (dot_avx a0 a1 a2 b) = dot12 a0 a1 a2 b 0 :=
  dot_den a0 a1 a2 b

/-- mmult_avx_4x12: lane i = row i of the 4x12 block times the state -/
theorem C13_mmult_avx_4x12 (a0 a1 a2 : V4) (M : Region) (i : Fin 4) :
    den ((mmult_avx_4x12 a0 a1 a2 M).get i) = dot12 a0 a1 a2 M (12 * i.val) :=
  mmult_4x12_den a0 a1 a2 M i

/-- mmult_avx: the full 12x12 matrix-vector product (row-major M), result element 4r+i in lane i of register r -/
theorem C13_mmult_avx (a0 a1 a2 : V4) (M : Region) (i : Fin 4) :
    den ((mmult_avx a0 a1 a2 M).1.get i) = dot12 a0 a1 a2 M (12 * i.val) ∧
    den ((mmult_avx a0 a1 a2 M).2.1.get i) = dot12 a0 a1 a2 M (48 + 12 * i.val) ∧
    den ((mmult_avx a0 a1 a2 M).2.2.get i) = dot12 a0 a1 a2 M (96 + 12 * i.val) :=
  mmult_den a0 a1 a2 M i

/-- spmv_avx_4x12_8: every state, whenever the twelve coefficients are below 2^8 -/
theorem C13_spmv_avx_4x12_8 (a0 a1 a2 : V4) (b : Region) (i : Fin 4) (hb : ∀ k, k < 12 → (b k).toNat < 2^8) :
    den ((spmv_avx_4x12_8 a0 a1 a2 b).get i) =
      den (a0.get i) * den (b i.val) + den (a1.get i) * den (b (4 + i.val)) + den (a2.get i) * den (b (8 + i.val)) :=
  spmv_8_den a0 a1 a2 b i hb

/-- mmult_avx_4x12_8 -/
theorem C13_mmult_avx_4x12_8 (a0 a1 a2 : V4) (M : Region) (i : Fin 4) (hb : ∀ k, k < 48 → (M k).toNat < 2^8) :
    den ((mmult_avx_4x12_8 a0 a1 a2 M).get i) = dot12 a0 a1 a2 M (12 * i.val) :=
  mmult_4x12_8_den a0 a1 a2 M i hb

/-- mmult_avx_8: full 12x12 product with 8-bit coefficients -/
theorem C13_mmult_avx_8 (a0 a1 a2 : V4) (M : Region) (i : Fin 4) (hb : ∀ k, k < 144 → (M k).toNat < 2^8) :
    den ((mmult_avx_8 a0 a1 a2 M).1.get i) = dot12 a0 a1 a2 M (12 * i.val) ∧
    den ((mmult_avx_8 a0 a1 a2 M).2.1.get i) = dot12 a0 a1 a2 M (48 + 12 * i.val) ∧
    den ((mmult_avx_8 a0 a1 a2 M).2.2.get i) = dot12 a0 a1 a2 M (96 + 12 * i.val) :=
  mmult_8_den a0 a1 a2 M i hb

/-- non-vacuity of the 8-bit hypothesis -/
example : ∃ M : Region, (∀ k, k < 144 → (M k).toNat < 2^8) ∧ (M 5).toNat = 255 :=
  ⟨⟨fun _ => 255#64⟩, fun _ _ => by show (255#64 : BitVec 64).toNat < 2^8; decide, by decide⟩

end GoldilocksVerif.C13
