/-
  C06 — Poseidon permutation: scalar, AVX2, AVX512 agree with the spec on all states.

  About `Gen.PosScalar.Pos_hash_full_result_seq`, `Gen.PosAvx2.Pos_hash_full_result`,
  `Gen.PosAvx512.Pos_hash_full_result_avx512` (regenerated from poseidon_goldilocks.cpp and its headers, the 22 partial
  rounds as a fold over a lifted loop body) and the constant tables of `Gen.PosConsts` (regenerated from
  poseidon_goldilocks_constants.hpp).

  PROVED HERE (for all inputs / all table rows, kernel-checked):
    * the capacity-sized hash is the first four elements of the full result, in all three backends;
    * the table side conditions the vector backends rely on: every round constant is canonical (needed by
      add_avx_b_small / add_avx512_b_c, C02/C11), every entry of M_ is below 2^8 (needed by the _8 kernels, C13/C14),
      M_ and P_ are the transposes of M and P (so that mmult_avx(_8) computes what mvp_ computes), S is large enough for
      every index the partial rounds use (23·21+22 < 507).
  NOT YET PROVED (full statements, see DESIGN.md §4 C06): den ∘ seq = spec ∘ den, den ∘ avx2 = spec ∘ den and, per
  interleaved state, den ∘ avx512 = spec ∘ den for all 2^768 states.  These three equalities are currently established by
  the correspondence run only (every generated model is executed against the compiled function AND against an independent
  reference permutation on boundary-valued states); the lane-level ingredients are theorems (C01, C02, C11, C13, C14).
-/
import GoldilocksVerif.Gen.PosScalar
import GoldilocksVerif.Gen.PosAvx2
import GoldilocksVerif.Gen.PosAvx512
import GoldilocksVerif.Lemmas.ScalarNat

namespace GoldilocksVerif.C06
open GoldilocksVerif Gen.PosConsts

/-- the capacity-sized hash is the first four elements of the full-result permutation (scalar, AVX2), the first eight of the
    two-state AVX512 result; nothing else of the output buffer is touched -/
theorem C06_hash_is_first_four_partial (state input : Region) :
    (∀ i, i < 4 → (Gen.PosScalar.Pos_hash_seq state input) i = (Gen.PosScalar.Pos_hash_full_result_seq Region.zero input) i) ∧
    (∀ i, 4 ≤ i → (Gen.PosScalar.Pos_hash_seq state input) i = state i) ∧
    (∀ i, i < 4 → (Gen.PosAvx2.Pos_hash state input) i = (Gen.PosAvx2.Pos_hash_full_result Region.zero input) i) ∧
    (∀ i, 4 ≤ i → (Gen.PosAvx2.Pos_hash state input) i = state i) ∧
    (∀ i, i < 8 → (Gen.PosAvx512.Pos_hash_avx512 state input) i = (Gen.PosAvx512.Pos_hash_full_result_avx512 Region.zero input) i) ∧
    (∀ i, 8 ≤ i → (Gen.PosAvx512.Pos_hash_avx512 state input) i = state i) := by
  refine ⟨?_, ?_, ?_, ?_, ?_, ?_⟩ <;> intro i hi
  · simp only [Gen.PosScalar.Pos_hash_seq, Region.copyN_apply, hi, if_true]
  · simp only [Gen.PosScalar.Pos_hash_seq, Region.copyN_apply, show ¬ i < 4 from by omega, if_false]
  · simp only [Gen.PosAvx2.Pos_hash, Region.copyN_apply, hi, if_true]
  · simp only [Gen.PosAvx2.Pos_hash, Region.copyN_apply, show ¬ i < 4 from by omega, if_false]
  · simp only [Gen.PosAvx512.Pos_hash_avx512, Region.copyN_apply, hi, if_true]
  · simp only [Gen.PosAvx512.Pos_hash_avx512, Region.copyN_apply, show ¬ i < 8 from by omega, if_false]

/-- all 118 round constants and all 507 sparse-round constants are canonical; the tables have their declared sizes -/
theorem C06_tables_canonical_partial :
    c_Pos_C_list.length = 118 ∧ c_Pos_S_list.length = 507 ∧ c_Pos_M_list.length = 144 ∧ c_Pos_P_list.length = 144 ∧
    c_Pos_M__list.length = 144 ∧ c_Pos_P__list.length = 144 ∧
    (c_Pos_C_list.all (fun x => decide (x.toNat < P))) = true ∧
    (c_Pos_S_list.all (fun x => decide (x.toNat < P))) = true ∧
    (c_Pos_P_list.all (fun x => decide (x.toNat < P))) = true := by
  decide +kernel

/-- every entry of M and of M_ is below 2^8 (the documented requirement of the _8 kernels) -/
theorem C06_tables_M_8bit_partial :
    (c_Pos_M__list.all (fun x => decide (x.toNat < 256))) = true ∧
    (c_Pos_M_list.all (fun x => decide (x.toNat < 256))) = true := by
  decide +kernel

/-- M_ and P_ are the transposes of M and P: M_[12·i + j] = M[j][i] and P_[12·i + j] = P[j][i] -/
theorem C06_tables_transposed_partial :
    (List.range 144).all (fun k => c_Pos_M__list.getD k 0 == c_Pos_M_list.getD (12 * (k % 12) + k / 12) 0) = true ∧
    (List.range 144).all (fun k => c_Pos_P__list.getD k 0 == c_Pos_P_list.getD (12 * (k % 12) + k / 12) 0) = true := by
  decide +kernel

/-- the largest S index used by the 22 partial rounds (23·r + 11 + 11 for r = 21) is inside the 507-element table, and the
    largest C index (60 + 21, 106 + 11) inside the 118-element table -/
theorem C06_table_indices_in_range_partial :
    23 * 21 + 11 + 11 < c_Pos_S_list.length ∧ 60 + 21 < c_Pos_C_list.length ∧ 106 + 11 < c_Pos_C_list.length := by
  decide +kernel

end GoldilocksVerif.C06
