/-
  C06 — Poseidon permutation: scalar, AVX2, AVX512 agree with the spec on all states.

  About `Gen.PosScalar.Pos_hash_full_result_seq`, `Gen.PosAvx2.Pos_hash_full_result`,
  `Gen.PosAvx512.Pos_hash_full_result_avx512` (regenerated from poseidon_goldilocks.cpp and its headers, the 22 partial
  rounds as a fold over a lifted loop body) and the constant tables of `Gen.PosConsts` (regenerated from
  poseidon_goldilocks_constants.hpp).  The specification is `PoseidonSpec.permutation` (Model/PoseidonSpec.lean): over
  F = ZMod p, 4 full rounds, 22 partial rounds, 4 full rounds with the x^7 S-box and `den` of the library's tables.

  PROVED HERE (for ALL 64-bit contents of the input and output buffers, kernel-checked):
    * `C06_seq_eq_spec`, `C06_avx2_eq_spec`: the twelve output words denote `permutation (den ∘ input)`; no word beyond the
      twelve is written;
    * `C06_avx512_eq_spec`: on 24 words in the interleaved layout [a0..3 b0..3 a4..7 b4..7 a8..11 b8..11] both states are
      mapped by `permutation`; no word beyond the 24 is written;
    * `C06_backends_agree`: the three backends return the same twelve field elements;
    * `C06_hash_eq_spec`: the capacity-sized hashes (hash_seq, hash, hash_avx512) are the first four elements of the spec;
    * the capacity-sized hash is the first four elements of the full result, in all three backends;
    * the table side conditions the vector backends rely on: every round constant is canonical (needed by
      add_avx_b_small / add_avx512_b_c, C02/C11), every entry of M_ is below 2^8 (needed by the _8 kernels, C13/C14),
      M_ and P_ are the transposes of M and P (so that mmult_avx(_8) computes what mvp_ computes), S is large enough for
      every index the partial rounds use (23·21+22 < 507).
  Proof structure: Lemmas/PosSpecL.lean (normal forms of the spec, loop induction), PosScalarF.lean, PosTables.lean,
  PosAvx2F.lean, PosAvx512F.lean (one lemma per translated helper in the field view, the partial-round invariant
  "state[0] lives in the scalar, lane 0 of st0 is dead", then composition).
-/
import GoldilocksVerif.Gen.PosScalar
import GoldilocksVerif.Gen.PosAvx2
import GoldilocksVerif.Gen.PosAvx512
import GoldilocksVerif.Lemmas.ScalarNat
import GoldilocksVerif.Lemmas.PosScalarF
import GoldilocksVerif.Lemmas.PosAvx2F
import GoldilocksVerif.Lemmas.PosAvx512F

namespace GoldilocksVerif.C06
open GoldilocksVerif Gen.PosConsts

/-- the capacity-sized hash is the first four elements of the full-result permutation (scalar, AVX2), the first eight of the
    two-state AVX512 result; nothing else of the output buffer is touched -/
theorem C06_hash_is_first_four_partial (state input : Region) :
    (∀ i, i < 4 → (Gen.PosScalar.Pos_hash_seq state input) i = (Gen.PosScalar.Pos_hash_full_result_seq Region.zero input) i) ∧
    (∀ i, 4 ≤ i → (Gen.PosScalar.Pos_hash_seq state input) i = state i) ∧
    (∀ i, i < 4 → (Gen.PosAvx2.Pos_hash state input) i = (Gen.PosAvx2.Pos_hash_full_result Region.zero input) i) ∧
    (∀ i, 4 ≤ i → (Gen.PosAvx2.Pos_hash state input) i = state i) ∧
    (∀ i, i < 8 → (Gen.PosAvx512.Pos_hash_avx512 state input) i = (Gen.PosAvx512.Pos_hash_full_result_avx512 Region.zero input) i) ∧
    (∀ i, 8 ≤ i → (Gen.PosAvx512.Pos_hash_avx512 state input) i = state i) := by
  refine ⟨?_, ?_, ?_, ?_, ?_, ?_⟩ <;> intro i hi
  · simp only [Gen.PosScalar.Pos_hash_seq, Region.copyN_apply, hi, if_true]
  · simp only [Gen.PosScalar.Pos_hash_seq, Region.copyN_apply, show ¬ i < 4 from by omega, if_false]
  · simp only [Gen.PosAvx2.Pos_hash, Region.copyN_apply, hi, if_true]
  · simp only [Gen.PosAvx2.Pos_hash, Region.copyN_apply, show ¬ i < 4 from by omega, if_false]
  · simp only [Gen.PosAvx512.Pos_hash_avx512, Region.copyN_apply, hi, if_true]
  · simp only [Gen.PosAvx512.Pos_hash_avx512, Region.copyN_apply, show ¬ i < 8 from by omega, if_false]

/-- all 118 round constants and all 507 sparse-round constants are canonical; the tables have their declared sizes -/
theorem C06_tables_canonical_partial :
    c_Pos_C_list.length = 118 ∧ c_Pos_S_list.length = 507 ∧ c_Pos_M_list.length = 144 ∧ c_Pos_P_list.length = 144 ∧
    c_Pos_M__list.length = 144 ∧ c_Pos_P__list.length = 144 ∧
    (c_Pos_C_list.all (fun x => decide (x.toNat < P))) = true ∧
    (c_Pos_S_list.all (fun x => decide (x.toNat < P))) = true ∧
    (c_Pos_P_list.all (fun x => decide (x.toNat < P))) = true := by
  decide +kernel

/-- every entry of M and of M_ is below 2^8 (the documented requirement of the _8 kernels) -/
theorem C06_tables_M_8bit_partial :
    (c_Pos_M__list.all (fun x => decide (x.toNat < 256))) = true ∧
    (c_Pos_M_list.all (fun x => decide (x.toNat < 256))) = true := by
  decide +kernel

/-- M_ and P_ are the transposes of M and P: M_[12·i + j] = M[j][i] and P_[12·i + j] = P[j][i] -/
theorem C06_tables_transposed_partial :
    (List.range 144).all (fun k => c_Pos_M__list.getD k 0 == c_Pos_M_list.getD (12 * (k % 12) + k / 12) 0) = true ∧
    (List.range 144).all (fun k => c_Pos_P__list.getD k 0 == c_Pos_P_list.getD (12 * (k % 12) + k / 12) 0) = true := by
  decide +kernel

/-- the largest S index used by the 22 partial rounds (23·r + 11 + 11 for r = 21) is inside the 507-element table, and the
    largest C index (60 + 21, 106 + 11) inside the 118-element table -/
theorem C06_table_indices_in_range_partial :
    23 * 21 + 11 + 11 < c_Pos_S_list.length ∧ 60 + 21 < c_Pos_C_list.length ∧ 106 + 11 < c_Pos_C_list.length := by
  decide +kernel


/-! ### the three backends compute the specified permutation -/

/-- scalar backend: for every output buffer and every 12-word input (any representation), the twelve result words denote
    the specified permutation of the denoted input state; words beyond the twelve are untouched -/
theorem C06_seq_eq_spec (state input : Region) :
    (∀ i : Fin 12, den ((Gen.PosScalar.Pos_hash_full_result_seq state input) i.val) =
      PoseidonSpec.permutation (fun j => den (input j.val)) i) ∧
    (∀ i, 12 ≤ i → (Gen.PosScalar.Pos_hash_full_result_seq state input) i = state i) :=
  ⟨fun i => congrFun (seq_spec state input).1 i, (seq_spec state input).2⟩

/-- AVX2 backend: same statement -/
theorem C06_avx2_eq_spec (state input : Region) :
    (∀ i : Fin 12, den ((Gen.PosAvx2.Pos_hash_full_result state input) i.val) =
      PoseidonSpec.permutation (fun j => den (input j.val)) i) ∧
    (∀ i, 12 ≤ i → (Gen.PosAvx2.Pos_hash_full_result state input) i = state i) :=
  ⟨fun i => congrFun (avx2_spec state input).1 i, (avx2_spec state input).2⟩

/-- AVX512 backend, two states in the interleaved layout [a0..3 b0..3 a4..7 b4..7 a8..11 b8..11]: element k of state A is
    word 8·(k/4) + k%4, of state B word 8·(k/4) + 4 + k%4; both states are mapped by the specified permutation; words beyond
    the 24 are untouched -/
theorem C06_avx512_eq_spec (state input : Region) :
    (∀ i : Fin 12, den ((Gen.PosAvx512.Pos_hash_full_result_avx512 state input) (8 * (i.val / 4) + i.val % 4)) =
      PoseidonSpec.permutation (fun j => den (input (8 * (j.val / 4) + j.val % 4))) i) ∧
    (∀ i : Fin 12, den ((Gen.PosAvx512.Pos_hash_full_result_avx512 state input) (8 * (i.val / 4) + 4 + i.val % 4)) =
      PoseidonSpec.permutation (fun j => den (input (8 * (j.val / 4) + 4 + j.val % 4))) i) ∧
    (∀ i, 24 ≤ i → (Gen.PosAvx512.Pos_hash_full_result_avx512 state input) i = state i) :=
  ⟨fun i => congrFun (avx512_spec state input).1 i, fun i => congrFun (avx512_spec state input).2.1 i,
    (avx512_spec state input).2.2⟩

/-- the three backends return the same twelve field elements: scalar = AVX2 on every input, and each of the two
    interleaved AVX512 states = scalar on the de-interleaved input -/
theorem C06_backends_agree (s1 s2 s3 input a b in2 : Region)
    (hA : ∀ j : Fin 12, in2 (8 * (j.val / 4) + j.val % 4) = a j.val)
    (hB : ∀ j : Fin 12, in2 (8 * (j.val / 4) + 4 + j.val % 4) = b j.val) :
    (∀ i : Fin 12, den ((Gen.PosScalar.Pos_hash_full_result_seq s1 input) i.val) =
      den ((Gen.PosAvx2.Pos_hash_full_result s2 input) i.val)) ∧
    (∀ i : Fin 12, den ((Gen.PosAvx512.Pos_hash_full_result_avx512 s3 in2) (8 * (i.val / 4) + i.val % 4)) =
      den ((Gen.PosScalar.Pos_hash_full_result_seq s1 a) i.val)) ∧
    (∀ i : Fin 12, den ((Gen.PosAvx512.Pos_hash_full_result_avx512 s3 in2) (8 * (i.val / 4) + 4 + i.val % 4)) =
      den ((Gen.PosScalar.Pos_hash_full_result_seq s1 b) i.val)) := by
  refine ⟨fun i => ?_, fun i => ?_, fun i => ?_⟩
  · rw [(C06_seq_eq_spec s1 input).1 i, (C06_avx2_eq_spec s2 input).1 i]
  · rw [(C06_avx512_eq_spec s3 in2).1 i, (C06_seq_eq_spec s1 a).1 i]
    have : (fun j : Fin 12 => den (in2 (8 * (j.val / 4) + j.val % 4))) = (fun j : Fin 12 => den (a j.val)) := by
      funext j; rw [hA j]
    rw [this]
  · rw [(C06_avx512_eq_spec s3 in2).2.1 i, (C06_seq_eq_spec s1 b).1 i]
    have : (fun j : Fin 12 => den (in2 (8 * (j.val / 4) + 4 + j.val % 4))) = (fun j : Fin 12 => den (b j.val)) := by
      funext j; rw [hB j]
    rw [this]

/-- the capacity-sized hashes are the first four elements of the specified permutation: hash_seq and hash on a 12-word
    input, hash_avx512 (eight output words: four per state) on two interleaved inputs -/
theorem C06_hash_eq_spec (state input : Region) :
    (∀ i : Fin 4, den ((Gen.PosScalar.Pos_hash_seq state input) i.val) =
      PoseidonSpec.permutation (fun j => den (input j.val)) ⟨i.val, by omega⟩) ∧
    (∀ i : Fin 4, den ((Gen.PosAvx2.Pos_hash state input) i.val) =
      PoseidonSpec.permutation (fun j => den (input j.val)) ⟨i.val, by omega⟩) ∧
    (∀ i : Fin 4, den ((Gen.PosAvx512.Pos_hash_avx512 state input) i.val) =
      PoseidonSpec.permutation (fun j => den (input (8 * (j.val / 4) + j.val % 4))) ⟨i.val, by omega⟩) ∧
    (∀ i : Fin 4, den ((Gen.PosAvx512.Pos_hash_avx512 state input) (4 + i.val)) =
      PoseidonSpec.permutation (fun j => den (input (8 * (j.val / 4) + 4 + j.val % 4))) ⟨i.val, by omega⟩) := by
  obtain ⟨h1, _, h2, _, h3, _⟩ := C06_hash_is_first_four_partial state input
  refine ⟨fun i => ?_, fun i => ?_, fun i => ?_, fun i => ?_⟩
  · have := (C06_seq_eq_spec Region.zero input).1 ⟨i.val, by omega⟩
    simp only at this
    rw [h1 i.val i.isLt, this]
  · have := (C06_avx2_eq_spec Region.zero input).1 ⟨i.val, by omega⟩
    simp only at this
    rw [h2 i.val i.isLt, this]
  · rw [h3 i.val (by omega)]
    have := (C06_avx512_eq_spec Region.zero input).1 ⟨i.val, by omega⟩
    have e : 8 * (i.val / 4) + i.val % 4 = i.val := by omega
    simp only [e] at this
    rw [this]
  · rw [h3 (4 + i.val) (by omega)]
    have := (C06_avx512_eq_spec Region.zero input).2.1 ⟨i.val, by omega⟩
    have e : 8 * (i.val / 4) + 4 + i.val % 4 = 4 + i.val := by omega
    simp only [e] at this
    rw [this]

end GoldilocksVerif.C06
