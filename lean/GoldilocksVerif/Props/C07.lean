/-
  C07 — linear_hash is the rate-8 capacity-4 sponge for every input length.

  About `Model.linearHash` / `Model.linearHash512` (Model/Sponge.lean), the loop-for-loop models of linear_hash_seq,
  linear_hash and linear_hash_avx512, tied to the code by the correspondence run for every length 0..40 and more.
  The theorems hold for EVERY permutation `perm`; the check instantiates it with the translated permutations of C06.
-/
import GoldilocksVerif.Lemmas.SpongeL
import GoldilocksVerif.Lemmas.BridgeSponge
import GoldilocksVerif.Lemmas.BridgePerm
import GoldilocksVerif.Lemmas.BridgePermAvx

namespace GoldilocksVerif.C07
open GoldilocksVerif.Model

/-- a sequence of at most four elements is returned unchanged, zero-padded to four -/
theorem C07_passthrough (perm : List Wd → List Wd) (input : List Wd) (h : input.length ≤ 4) :
    linearHash perm input = input ++ zeros (4 - input.length) := by
  unfold linearHash; simp only [h, if_true]

/-- for every input length and every permutation, the loop (remaining counter, capacity feedback, zero padding) is the
    sponge: zero initial capacity, eight elements absorbed at a time with zero padding of the last block, the first four
    outputs fed back, the digest = first four outputs of the last permutation -/
theorem C07_linear_hash_is_sponge (perm : List Wd → List Wd) (input : List Wd) :
    linearHash perm input = spongeSpec perm input := linearHash_eq_spec perm input

/-- the scalar and AVX2 variants run the same loop: equal digests whenever the two permutations agree on the states
    the sponge visits (C06 gives agreement on all states) -/
theorem C07_variants_agree (p1 p2 : List Wd → List Wd) (h : ∀ s, p1 s = p2 s) (input : List Wd) :
    linearHash p1 input = linearHash p2 input := by
  have : p1 = p2 := funext h
  rw [this]

/-- the digest has four elements (for permutations returning at least four) -/
theorem C07_digest_length (perm : List Wd → List Wd) (hp : ∀ s, 4 ≤ (perm s).length) (input : List Wd) :
    (linearHash perm input).length = 4 := by
  unfold linearHash
  by_cases h : input.length ≤ 4
  · simp only [h, if_true, List.length_append, zeros, List.length_replicate]; omega
  · simp only [h, if_false]
    have : ∀ fuel r st, 4 ≤ st.length → 4 ≤ (lhLoop perm input input.length fuel r st).length := by
      intro fuel
      induction fuel with
      | zero => intro r st hs; simpa [lhLoop] using hs
      | succ f ih =>
        intro r st hs
        unfold lhLoop
        by_cases hr : r = 0
        · simp only [hr, if_true]; exact hs
        · simp only [hr, if_false]; exact ih _ _ (hp _)
    have h12 := this input.length input.length (zeros 12) (by simp [zeros])
    rw [List.length_take]; omega

/-- the two-at-a-time AVX512 variant, pass-through case: two inputs of at most four elements are returned unchanged,
    each zero-padded to four -/
theorem C07_avx512_passthrough (perm2 : List Wd → List Wd) (in1 in2 : List Wd) (hl : in1.length = in2.length)
    (h : in1.length ≤ 4) :
    linearHash512 perm2 (in1 ++ in2) in1.length = (in1 ++ zeros (4 - in1.length)) ++ (in2 ++ zeros (4 - in2.length)) := by
  unfold linearHash512
  simp only [h, if_true]
  rw [List.take_left', List.drop_left', hl, List.take_of_length_le (Nat.le_refl _)] <;> first | rfl | exact hl.symm ▸ rfl

/-- the two-at-a-time AVX512 variant, every length: if the two-state permutation acts on the interleaved layout
    [a0..3 b0..3 a4..7 b4..7 a8..11 b8..11] as the one-state permutation on each state (C06_avx512_eq_spec), and the
    one-state permutation returns twelve elements, then hashing two equally long inputs side by side gives exactly the two
    one-input digests, i.e. (by `C07_linear_hash_is_sponge`) two sponges.  `Model.linearHash512` mirrors the
    interleaved-state loop (memset + four memcpy's per block, eight-word capacity feedback). -/
theorem C07_avx512 (perm perm2 : List Wd → List Wd)
    (h : ∀ a b, a.length = 12 → b.length = 12 → perm2 (interleave a b) = interleave (perm a) (perm b))
    (hp : ∀ s, s.length = 12 → (perm s).length = 12)
    (in1 in2 : List Wd) (hl : in1.length = in2.length) :
    linearHash512 perm2 (in1 ++ in2) in1.length = linearHash perm in1 ++ linearHash perm in2 :=
  linearHash512_eq perm perm2 h hp in1 in2 hl

/-- hence both AVX512 digests are the specification sponge of their input -/
theorem C07_avx512_is_sponge (perm perm2 : List Wd → List Wd)
    (h : ∀ a b, a.length = 12 → b.length = 12 → perm2 (interleave a b) = interleave (perm a) (perm b))
    (hp : ∀ s, s.length = 12 → (perm s).length = 12)
    (in1 in2 : List Wd) (hl : in1.length = in2.length) :
    linearHash512 perm2 (in1 ++ in2) in1.length = spongeSpec perm in1 ++ spongeSpec perm in2 := by
  rw [C07_avx512 perm perm2 h hp in1 in2 hl, linearHash_eq_spec, linearHash_eq_spec]

/-! ## The same statement about the TRANSLATED `linear_hash_seq` and `linear_hash`

  `Gen.LinearHashGen.Pos_linear_hash_seq / Pos_linear_hash` are regenerated from poseidon_goldilocks.cpp on every run (the
  `while (remaining)` loop as a fuel-bounded fold over its lifted body, `memcpy` / `memset` with run-time sizes as region
  copies, the early `return` of the pass-through case as a branch).  The statements hold for every 64-bit `size`, every
  input / output region and every fuel > size.  They are generic in the permutation in the same way as the statements above:
  `perm` is any list function that describes what the translated permutation the loop calls does on its first twelve words
  (hypothesis `hP`; C06 proves what these permutations compute).  Proofs: Lemmas/BridgeSponge.lean. -/

/-- translated `linear_hash_seq`: returns, the four output words are the sponge of the first `size` input words (pass-through
    below five elements), nothing beyond output[3] is written -/
theorem C07_generated_linear_hash_seq (perm : List Wd → List Wd)
    (hP : ∀ s, GoldilocksVerif.Region.toList (Gen.LinearHashGen.Pos_hash_full_result_seq_al_state_input s) 12 =
      perm (GoldilocksVerif.Region.toList s 12))
    (fuel : Nat) (output input : GoldilocksVerif.Region) (size : BitVec 64) (hf : size.toNat < fuel) :
    ∃ out', Gen.LinearHashGen.Pos_linear_hash_seq fuel output input size = some out' ∧
      GoldilocksVerif.Region.toList out' 4 = spongeSpec perm (GoldilocksVerif.Region.toList input size.toNat) ∧
      ∀ k, 4 ≤ k → out' k = output k := by
  rw [GoldilocksVerif.lh_seq_generic, ← linearHash_eq_spec]
  exact GoldilocksVerif.lhGenG_spec _ perm hP fuel output input size hf

/-- translated `linear_hash` (AVX2 permutation): the same statement -/
theorem C07_generated_linear_hash_avx2 (perm : List Wd → List Wd)
    (hP : ∀ s, GoldilocksVerif.Region.toList (Gen.LinearHashGen.Pos_hash_full_result_al_state_input s) 12 =
      perm (GoldilocksVerif.Region.toList s 12))
    (fuel : Nat) (output input : GoldilocksVerif.Region) (size : BitVec 64) (hf : size.toNat < fuel) :
    ∃ out', Gen.LinearHashGen.Pos_linear_hash fuel output input size = some out' ∧
      GoldilocksVerif.Region.toList out' 4 = spongeSpec perm (GoldilocksVerif.Region.toList input size.toNat) ∧
      ∀ k, 4 ≤ k → out' k = output k := by
  rw [GoldilocksVerif.lh_avx_generic, ← linearHash_eq_spec]
  exact GoldilocksVerif.lhGenG_spec _ perm hP fuel output input size hf

/-- the translated functions equal the hand model `Model.linearHash` (which is thereby no longer tied to the code by
    testing only) -/
theorem C07_generated_linear_hash_eq_model (perm : List Wd → List Wd) (P : GoldilocksVerif.Region → GoldilocksVerif.Region)
    (hP : ∀ s, GoldilocksVerif.Region.toList (P s) 12 = perm (GoldilocksVerif.Region.toList s 12))
    (fuel : Nat) (output input : GoldilocksVerif.Region) (size : BitVec 64) (hf : size.toNat < fuel) :
    ∃ out', GoldilocksVerif.lhGenG P fuel output input size = some out' ∧
      GoldilocksVerif.Region.toList out' 4 = linearHash perm (GoldilocksVerif.Region.toList input size.toNat) ∧
      ∀ k, 4 ≤ k → out' k = output k := GoldilocksVerif.lhGenG_spec P perm hP fuel output input size hf

/-- translated `linear_hash_seq`, WITHOUT the hypothesis on the permutation: the translated scalar permutation's first twelve
    output words are a function of its first twelve input words (Lemmas/BridgePerm.lean), namely `permSeqList`; so for every
    input region, every 64-bit size and every fuel > size the translated function returns the sponge built on the translated
    permutation (whose field-level meaning is C06's) -/
theorem C07_generated_linear_hash_seq_is_sponge (fuel : Nat) (output input : GoldilocksVerif.Region) (size : BitVec 64)
    (hf : size.toNat < fuel) :
    ∃ out', Gen.LinearHashGen.Pos_linear_hash_seq fuel output input size = some out' ∧
      GoldilocksVerif.Region.toList out' 4 =
        spongeSpec GoldilocksVerif.permSeqList (GoldilocksVerif.Region.toList input size.toNat) ∧
      ∀ k, 4 ≤ k → out' k = output k :=
  C07_generated_linear_hash_seq GoldilocksVerif.permSeqList GoldilocksVerif.perm_seq_hP fuel output input size hf

/-- translated `linear_hash_avx512` (two inputs of `size` words back to back, eight output words): if the translated two-state
    permutation acts on its first 24 words as `perm2` (`hP2`) and `perm2` acts on the interleaved layout as `perm` on each
    state (`h`, the conclusion of C06_avx512_eq_spec), then for every fuel > size both digests are the sponges of their input
    and nothing beyond output[7] is written -/
theorem C07_generated_linear_hash_avx512 (perm perm2 : List Wd → List Wd)
    (h : ∀ a b, a.length = 12 → b.length = 12 → perm2 (interleave a b) = interleave (perm a) (perm b))
    (hp : ∀ s, s.length = 12 → (perm s).length = 12)
    (hP2 : ∀ s, GoldilocksVerif.Region.toList (Gen.LinearHashGen.Pos_hash_full_result_avx512_al_state_input s) 24 =
      perm2 (GoldilocksVerif.Region.toList s 24))
    (fuel : Nat) (output input : GoldilocksVerif.Region) (size : BitVec 64) (hf : size.toNat < fuel) :
    ∃ out', Gen.LinearHashGen.Pos_linear_hash_avx512 fuel output input size = some out' ∧
      GoldilocksVerif.Region.toList out' 8 =
        spongeSpec perm (GoldilocksVerif.Region.toList input size.toNat) ++
        spongeSpec perm (GoldilocksVerif.Region.toList (GoldilocksVerif.Region.shift input size.toNat) size.toNat) ∧
      ∀ k, 8 ≤ k → out' k = output k := by
  rw [GoldilocksVerif.lh512_generic]
  obtain ⟨out', h1, h2, h3⟩ := GoldilocksVerif.lh512GenG_spec _ perm2 hP2 fuel output input size hf
  refine ⟨out', h1, ?_, h3⟩
  rw [h2, GoldilocksVerif.toList_two_inputs]
  have hl : (GoldilocksVerif.Region.toList input size.toNat).length =
      (GoldilocksVerif.Region.toList (GoldilocksVerif.Region.shift input size.toNat) size.toNat).length := by
    rw [GoldilocksVerif.Region.length_toList, GoldilocksVerif.Region.length_toList]
  have := C07_avx512_is_sponge perm perm2 h hp _ _ hl
  rw [GoldilocksVerif.Region.length_toList] at this
  exact this

/-- translated `linear_hash` (AVX2), WITHOUT the hypothesis on the permutation: `perm := permAvxList`, the translated AVX2
    permutation run on a 12-element list (its locality is proved in Lemmas/BridgePermAvx.lean) -/
theorem C07_generated_linear_hash_avx2_is_sponge (fuel : Nat) (output input : GoldilocksVerif.Region) (size : BitVec 64)
    (hf : size.toNat < fuel) :
    ∃ out', Gen.LinearHashGen.Pos_linear_hash fuel output input size = some out' ∧
      GoldilocksVerif.Region.toList out' 4 =
        spongeSpec GoldilocksVerif.permAvxList (GoldilocksVerif.Region.toList input size.toNat) ∧
      ∀ k, 4 ≤ k → out' k = output k :=
  C07_generated_linear_hash_avx2 GoldilocksVerif.permAvxList GoldilocksVerif.perm_avx_hP fuel output input size hf

/-- translated `linear_hash_avx512`, WITHOUT hypotheses: it equals the hand model `Model.linearHash512` instantiated with the
    translated two-state permutation run on a 24-element list (`perm512List`; locality proved in Lemmas/BridgePermAvx.lean),
    for every input region, every 64-bit size and every fuel > size; nothing beyond output[7] is written.  (That the two
    digests are two sponges needs, in addition, C06's statement that the two-state permutation acts on the interleaved layout as
    the one-state permutation on each state: `C07_generated_linear_hash_avx512` with `hP2 := perm512_hP`.) -/
theorem C07_generated_linear_hash_avx512_eq_model (fuel : Nat) (output input : GoldilocksVerif.Region) (size : BitVec 64)
    (hf : size.toNat < fuel) :
    ∃ out', Gen.LinearHashGen.Pos_linear_hash_avx512 fuel output input size = some out' ∧
      GoldilocksVerif.Region.toList out' 8 =
        linearHash512 GoldilocksVerif.perm512List (GoldilocksVerif.Region.toList input (2 * size.toNat)) size.toNat ∧
      ∀ k, 8 ≤ k → out' k = output k := by
  rw [GoldilocksVerif.lh512_generic]
  exact GoldilocksVerif.lh512GenG_spec _ GoldilocksVerif.perm512List GoldilocksVerif.perm512_hP fuel output input size hf

/-- both digests of the translated `linear_hash_avx512` are sponges, the only remaining hypothesis being C06's interleaving
    statement about the two-state permutation -/
theorem C07_generated_linear_hash_avx512_is_sponge (perm : List Wd → List Wd)
    (h : ∀ a b, a.length = 12 → b.length = 12 →
      GoldilocksVerif.perm512List (interleave a b) = interleave (perm a) (perm b))
    (hp : ∀ s, s.length = 12 → (perm s).length = 12)
    (fuel : Nat) (output input : GoldilocksVerif.Region) (size : BitVec 64) (hf : size.toNat < fuel) :
    ∃ out', Gen.LinearHashGen.Pos_linear_hash_avx512 fuel output input size = some out' ∧
      GoldilocksVerif.Region.toList out' 8 =
        spongeSpec perm (GoldilocksVerif.Region.toList input size.toNat) ++
        spongeSpec perm (GoldilocksVerif.Region.toList (GoldilocksVerif.Region.shift input size.toNat) size.toNat) ∧
      ∀ k, 8 ≤ k → out' k = output k :=
  C07_generated_linear_hash_avx512 perm GoldilocksVerif.perm512List h hp GoldilocksVerif.perm512_hP fuel output input size hf

/-- non-vacuity: a 13-element input exercises two full-rate blocks with padding -/
example : (spongeSpec (fun s => s) (List.replicate 13 1#64)).length = 4 := by decide

end GoldilocksVerif.C07
