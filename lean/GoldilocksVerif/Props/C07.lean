/-
  C07 — linear_hash is the rate-8 capacity-4 sponge for every input length.

  About `Model.linearHash` / `Model.linearHash512` (Model/Sponge.lean), the loop-for-loop models of linear_hash_seq,
  linear_hash and linear_hash_avx512, tied to the code by the correspondence run for every length 0..40 and more.
  The theorems hold for EVERY permutation `perm`; the check instantiates it with the translated permutations of C06.
-/
import GoldilocksVerif.Lemmas.SpongeL

namespace GoldilocksVerif.C07
open GoldilocksVerif.Model

/-- a sequence of at most four elements is returned unchanged, zero-padded to four -/
theorem C07_passthrough (perm : List Wd → List Wd) (input : List Wd) (h : input.length ≤ 4) :
    linearHash perm input = input ++ zeros (4 - input.length) := by
  unfold linearHash; simp only [h, if_true]

/-- for every input length and every permutation, the loop (remaining counter, capacity feedback, zero padding) is the
    sponge: zero initial capacity, eight elements absorbed at a time with zero padding of the last block, the first four
    outputs fed back, the digest = first four outputs of the last permutation -/
theorem C07_linear_hash_is_sponge (perm : List Wd → List Wd) (input : List Wd) :
    linearHash perm input = spongeSpec perm input := linearHash_eq_spec perm input

/-- the scalar and AVX2 variants run the same loop: equal digests whenever the two permutations agree on the states
    the sponge visits (C06 gives agreement on all states) -/
theorem C07_variants_agree (p1 p2 : List Wd → List Wd) (h : ∀ s, p1 s = p2 s) (input : List Wd) :
    linearHash p1 input = linearHash p2 input := by
  have : p1 = p2 := funext h
  rw [this]

/-- the digest has four elements (for permutations returning at least four) -/
theorem C07_digest_length (perm : List Wd → List Wd) (hp : ∀ s, 4 ≤ (perm s).length) (input : List Wd) :
    (linearHash perm input).length = 4 := by
  unfold linearHash
  by_cases h : input.length ≤ 4
  · simp only [h, if_true, List.length_append, zeros, List.length_replicate]; omega
  · simp only [h, if_false]
    have : ∀ fuel r st, 4 ≤ st.length → 4 ≤ (lhLoop perm input input.length fuel r st).length := by
      intro fuel
      induction fuel with
      | zero => intro r st hs; simpa [lhLoop] using hs
      | succ f ih =>
        intro r st hs
        unfold lhLoop
        by_cases hr : r = 0
        · simp only [hr, if_true]; exact hs
        · simp only [hr, if_false]; exact ih _ _ (hp _)
    have h12 := this input.length input.length (zeros 12) (by simp [zeros])
    rw [List.length_take]; omega

/-- the two-at-a-time AVX512 variant, pass-through case: two inputs of at most four elements are returned unchanged,
    each zero-padded to four -/
theorem C07_avx512_passthrough (perm2 : List Wd → List Wd) (in1 in2 : List Wd) (hl : in1.length = in2.length)
    (h : in1.length ≤ 4) :
    linearHash512 perm2 (in1 ++ in2) in1.length = (in1 ++ zeros (4 - in1.length)) ++ (in2 ++ zeros (4 - in2.length)) := by
  unfold linearHash512
  simp only [h, if_true]
  rw [List.take_left', List.drop_left', hl, List.take_of_length_le (Nat.le_refl _)] <;> first | rfl | exact hl.symm ▸ rfl

/-- the two-at-a-time AVX512 variant, every length: if the two-state permutation acts on the interleaved layout
    [a0..3 b0..3 a4..7 b4..7 a8..11 b8..11] as the one-state permutation on each state (C06_avx512_eq_spec), and the
    one-state permutation returns twelve elements, then hashing two equally long inputs side by side gives exactly the two
    one-input digests, i.e. (by `C07_linear_hash_is_sponge`) two sponges.  `Model.linearHash512` mirrors the
    interleaved-state loop (memset + four memcpy's per block, eight-word capacity feedback). -/
theorem C07_avx512 (perm perm2 : List Wd → List Wd)
    (h : ∀ a b, a.length = 12 → b.length = 12 → perm2 (interleave a b) = interleave (perm a) (perm b))
    (hp : ∀ s, s.length = 12 → (perm s).length = 12)
    (in1 in2 : List Wd) (hl : in1.length = in2.length) :
    linearHash512 perm2 (in1 ++ in2) in1.length = linearHash perm in1 ++ linearHash perm in2 :=
  linearHash512_eq perm perm2 h hp in1 in2 hl

/-- hence both AVX512 digests are the specification sponge of their input -/
theorem C07_avx512_is_sponge (perm perm2 : List Wd → List Wd)
    (h : ∀ a b, a.length = 12 → b.length = 12 → perm2 (interleave a b) = interleave (perm a) (perm b))
    (hp : ∀ s, s.length = 12 → (perm s).length = 12)
    (in1 in2 : List Wd) (hl : in1.length = in2.length) :
    linearHash512 perm2 (in1 ++ in2) in1.length = spongeSpec perm in1 ++ spongeSpec perm in2 := by
  rw [C07_avx512 perm perm2 h hp in1 in2 hl, linearHash_eq_spec, linearHash_eq_spec]

/-- non-vacuity: a 13-element input exercises two full-rate blocks with padding -/
example : (spongeSpec (fun s => s) (List.replicate 13 1#64)).length = 4 := by decide

end GoldilocksVerif.C07
