/-
  C20 — GPU field arithmetic (`gl64_t`, PTX inline asm) and the device root tables.

  All statements are about `Gen.Ptx.*`, the definitions regenerated on every run by `tools/tr_ptx.py`
  from the PTX `asm` blocks (and the C++ that feeds them) of `/repo/src/gl64_t.cuh`, over the PTX
  semantics of `Isa/Ptx.lean`, and about `Gen.PtxTables.*`, the literals of `/repo/src/ntt_goldilocks.cuh`
  and `Goldilocks::W` of `/repo/src/goldilocks_base_field.cpp`.
  Configuration: `GL64_PARTIALLY_REDUCED` undefined (this repository's), so `to()` is the final
  reduction and `from()` is empty.  `_sm70` = `__CUDA_ARCH__ >= 700`, `_pre70` = `__CUDA_ARCH__ < 700`.

  Addition / subtraction / negation require canonical operands (`toNat < P`), as the header does in
  this configuration.  Multiplication (by element and by 32-bit word), squaring and the final
  reduction are proved for ALL 64-bit operands: that is the header's documented tolerance
  ("either multiplication variant can handle partially reduced inputs"), which `operator^=` relies on.

  The translator emits a function twice (`_sm70` / `_pre70`) exactly when its translation, or that of
  anything it calls, differs between the two architectures; `add_assign`, `sub_assign`, `cneg`, `neg`,
  `final_reduce` carry no suffix because their code is the same for both, so their theorems cover both.

  Only property theorems live here; helper lemmas are in `Lemmas/PtxNat.lean`, `Lemmas/PtxArith.lean`.
  There is no GPU / nvcc in the sandbox: the tie to the source is regeneration only.
-/
import GoldilocksVerif.Lemmas.PtxArith

namespace GoldilocksVerif.C20
open Gen.Ptx Gen.PtxTables GoldilocksVerif GoldilocksVerif.PtxN

theorem P_pos : 0 < P := by decide

/-! ### addition, subtraction, conditional negation (canonical operands) -/

/-- `a += b` and `a + b` -/
theorem C20_add (a b : BitVec 64) (ha : a.toNat < P) (hb : b.toNat < P) :
    (add_assign a b).toNat = (a.toNat + b.toNat) % P ∧ (add_assign a b).toNat < P ∧
    plus a b = add_assign a b := by
  have h : (add_assign a b).toNat = (a.toNat + b.toNat) % P := by
    exact add_assign_spec a b ha hb
  exact ⟨h, by rw [h]; exact Nat.mod_lt _ P_pos, rfl⟩

/-- `a -= b` and `a - b` -/
theorem C20_sub (a b : BitVec 64) (ha : a.toNat < P) (hb : b.toNat < P) :
    (sub_assign a b).toNat = (a.toNat + (P - b.toNat)) % P ∧ (sub_assign a b).toNat < P ∧
    ((sub_assign a b).toNat + b.toNat) % P = a.toNat % P ∧
    minus a b = sub_assign a b := by
  have h : (sub_assign a b).toNat = (a.toNat + (P - b.toNat)) % P := by
    exact sub_assign_spec a b ha hb
  refine ⟨h, by rw [h]; exact Nat.mod_lt _ P_pos, ?_, rfl⟩
  rw [h, Nat.mod_add_mod]
  have e : a.toNat + (P - b.toNat) + b.toNat = a.toNat + P := by omega
  rw [e, Nat.add_mod_right]

/-- `a.cneg(flag)` and the friend `cneg(a, flag)` -/
theorem C20_cneg (a : BitVec 64) (flag : Bool) (ha : a.toNat < P) :
    (cneg a flag).toNat = (if flag = true then (P - a.toNat) % P else a.toNat) ∧ (cneg a flag).toNat < P ∧
    cneg_f a flag = cneg a flag := by
  have h : (cneg a flag).toNat = (if flag = true then (P - a.toNat) % P else a.toNat) := by
    exact cneg_spec a flag ha
  refine ⟨h, ?_, rfl⟩
  rw [h]
  split
  · exact Nat.mod_lt _ P_pos
  · exact ha

/-- unary minus -/
theorem C20_neg (a : BitVec 64) (ha : a.toNat < P) :
    (neg a).toNat = (P - a.toNat) % P ∧ ((neg a).toNat + a.toNat) % P = 0 := by
  have h0 : neg a = cneg a true := rfl
  have h : (neg a).toNat = (P - a.toNat) % P := by
    rw [h0, (C20_cneg a true ha).1]; rfl
  refine ⟨h, ?_⟩
  rw [h, Nat.mod_add_mod]
  have e : P - a.toNat + a.toNat = P := by omega
  rw [e, Nat.mod_self]

/-! ### final reduction (every 64-bit value) -/

/-- `reduce()` = `to()`; the constructor from `uint64_t`; the conversion back -/
theorem C20_final_reduce (a : BitVec 64) :
    (final_reduce a).toNat = a.toNat % P ∧ (final_reduce a).toNat < P ∧
    to_ a = final_reduce a ∧ of_u64 a = final_reduce a ∧ to_u64 a = a := by
  have h : (final_reduce a).toNat = a.toNat % P := by
    exact final_reduce_spec a
  exact ⟨h, by rw [h]; exact Nat.mod_lt _ P_pos, rfl, rfl, rfl⟩

/-! ### multiplication, squaring, multiplication by a 32-bit word: ALL 64-bit operands, both variants -/

/-- `reduce(uint32_t temp[4])`: folds ANY four 32-bit words (2^64 ≡ 2^32 - 1, 2^96 ≡ -1) into a 64-bit value
    congruent to the 128-bit number they denote; both variants; the incoming `val` is irrelevant -/
theorem C20_reduce4 (v : BitVec 64) (t0 t1 t2 t3 : BitVec 32) :
    (reduce4_sm70 v t0 t1 t2 t3).toNat % P =
      (t0.toNat + t1.toNat * 2 ^ 32 + t2.toNat * 2 ^ 64 + t3.toNat * 2 ^ 96) % P ∧
    (reduce4_pre70 v t0 t1 t2 t3).toNat % P =
      (t0.toNat + t1.toNat * 2 ^ 32 + t2.toNat * 2 ^ 64 + t3.toNat * 2 ^ 96) % P :=
  ⟨reduce4_sm70_mod v t0 t1 t2 t3, reduce4_pre70_mod v t0 t1 t2 t3⟩

/-- the un-reduced product `mul(b)` (what `operator^=` chains): congruent to the exact product and a
    64-bit value, for partially reduced operands too -/
theorem C20_mul_raw (a b : BitVec 64) :
    (mul_raw_sm70 a b).toNat % P = (a.toNat * b.toNat) % P ∧
    (mul_raw_pre70 a b).toNat % P = (a.toNat * b.toNat) % P :=
  ⟨mul_raw_sm70_mod a b, mul_raw_pre70_mod a b⟩

/-- `a * b`, `a *= b`, `__CUDA_ARCH__ >= 700` -/
theorem C20_mul_sm70 (a b : BitVec 64) :
    (mul_sm70 a b).toNat = (a.toNat * b.toNat) % P ∧ (mul_sm70 a b).toNat < P ∧
    mul_assign_sm70 a b = mul_sm70 a b := by
  have h : (mul_sm70 a b).toNat = (a.toNat * b.toNat) % P := by
    have e : mul_sm70 a b = to_ (mul_raw_sm70 a b) := rfl
    rw [e, to_toNat, mul_raw_sm70_mod]
  exact ⟨h, by rw [h]; exact Nat.mod_lt _ P_pos, rfl⟩

/-- `a * b`, `a *= b`, `__CUDA_ARCH__ < 700` -/
theorem C20_mul_pre70 (a b : BitVec 64) :
    (mul_pre70 a b).toNat = (a.toNat * b.toNat) % P ∧ (mul_pre70 a b).toNat < P ∧
    mul_assign_pre70 a b = mul_pre70 a b := by
  have h : (mul_pre70 a b).toNat = (a.toNat * b.toNat) % P := by
    have e : mul_pre70 a b = to_ (mul_raw_pre70 a b) := rfl
    rw [e, to_toNat, mul_raw_pre70_mod]
  exact ⟨h, by rw [h]; exact Nat.mod_lt _ P_pos, rfl⟩

/-- `a.sqr()`, `sqr(a)`, `__CUDA_ARCH__ >= 700` -/
theorem C20_sqr_sm70 (a : BitVec 64) :
    (sqr_sm70 a).toNat = (a.toNat * a.toNat) % P ∧ (sqr_sm70 a).toNat < P ∧ sqr_f_sm70 a = sqr_sm70 a := by
  have e : sqr_sm70 a = mul_sm70 a a := rfl
  rw [e]
  exact ⟨(C20_mul_sm70 a a).1, (C20_mul_sm70 a a).2.1, rfl⟩

/-- `a.sqr()`, `sqr(a)`, `__CUDA_ARCH__ < 700` -/
theorem C20_sqr_pre70 (a : BitVec 64) :
    (sqr_pre70 a).toNat = (a.toNat * a.toNat) % P ∧ (sqr_pre70 a).toNat < P ∧ sqr_f_pre70 a = sqr_pre70 a := by
  have e : sqr_pre70 a = mul_pre70 a a := rfl
  rw [e]
  exact ⟨(C20_mul_pre70 a a).1, (C20_mul_pre70 a a).2.1, rfl⟩

/-- `a * w`, `a *= w` for a 32-bit word, `__CUDA_ARCH__ >= 700` -/
theorem C20_mul_u32_sm70 (a : BitVec 64) (w : BitVec 32) :
    (mul_u32_sm70 a w).toNat = (a.toNat * w.toNat) % P ∧ (mul_u32_sm70 a w).toNat < P ∧
    mul_u32_assign_sm70 a w = mul_u32_sm70 a w := by
  have h : (mul_u32_sm70 a w).toNat = (a.toNat * w.toNat) % P := by
    have e : mul_u32_sm70 a w = to_ (mul_u32_raw_sm70 a w) := rfl
    rw [e, to_toNat, mul_u32_raw_sm70_mod]
  exact ⟨h, by rw [h]; exact Nat.mod_lt _ P_pos, rfl⟩

/-- `a * w`, `a *= w` for a 32-bit word, `__CUDA_ARCH__ < 700` -/
theorem C20_mul_u32_pre70 (a : BitVec 64) (w : BitVec 32) :
    (mul_u32_pre70 a w).toNat = (a.toNat * w.toNat) % P ∧ (mul_u32_pre70 a w).toNat < P ∧
    mul_u32_assign_pre70 a w = mul_u32_pre70 a w := by
  have h : (mul_u32_pre70 a w).toNat = (a.toNat * w.toNat) % P := by
    have e : mul_u32_pre70 a w = to_ (mul_u32_raw_pre70 a w) := rfl
    rw [e, to_toNat, mul_u32_raw_pre70_mod]
  exact ⟨h, by rw [h]; exact Nat.mod_lt _ P_pos, rfl⟩

/-- the two instruction variants return the same words -/
theorem C20_arch_variants_agree (a b : BitVec 64) (w : BitVec 32) :
    mul_sm70 a b = mul_pre70 a b ∧ sqr_sm70 a = sqr_pre70 a ∧ mul_u32_sm70 a w = mul_u32_pre70 a w := by
  refine ⟨?_, ?_, ?_⟩
  · apply BitVec.eq_of_toNat_eq; rw [(C20_mul_sm70 a b).1, (C20_mul_pre70 a b).1]
  · apply BitVec.eq_of_toNat_eq; rw [(C20_sqr_sm70 a).1, (C20_sqr_pre70 a).1]
  · apply BitVec.eq_of_toNat_eq; rw [(C20_mul_u32_sm70 a w).1, (C20_mul_u32_pre70 a w).1]

/-- non-vacuity of the canonicity hypotheses: a small value, and the largest canonical one -/
example : (5#64).toNat < P ∧ (18446744069414584320#64).toNat < P ∧
    (add_assign 18446744069414584320#64 18446744069414584320#64).toNat = 18446744069414584319 := by
  refine ⟨by decide, by decide, ?_⟩
  rw [(C20_add _ _ (by decide) (by decide)).1]
  decide

/-! ### the device tables (all 33 rows), evaluated in the kernel -/

/-- every table has 33 rows -/
theorem C20_tables_length :
    omegas.length = 33 ∧ omegas_inv.length = 33 ∧ domain_size_inverse.length = 33 ∧ cpuW.length = 33 := by
  decide +kernel

/-- the device roots are the CPU roots `Goldilocks::W` -/
theorem C20_tables_omegas_eq_cpu : omegas = cpuW := by
  decide +kernel

/-- row by row: canonical entries, same root as the CPU table, `omegas_inv[i]` is its modular inverse,
    `domain_size_inverse[i]` is the inverse of `2^i` -/
theorem C20_tables_rows : ∀ i, i < 33 →
    omegas.getD i 0 < P ∧ omegas_inv.getD i 0 < P ∧ domain_size_inverse.getD i 0 < P ∧
    omegas.getD i 0 = cpuW.getD i 0 ∧
    (omegas.getD i 0 * omegas_inv.getD i 0) % P = 1 ∧
    (domain_size_inverse.getD i 0 * 2 ^ i) % P = 1 := by
  decide +kernel

/-- the roots really are the principal `2^i`-th roots: `ω₀ = 1`, `ω₁ = -1`, `ω_{i+1}² = ω_i` -/
theorem C20_tables_root_chain :
    omegas.getD 0 0 = 1 ∧ omegas.getD 1 0 = P - 1 ∧
    ∀ i, i < 32 → (omegas.getD (i + 1) 0 * omegas.getD (i + 1) 0) % P = omegas.getD i 0 := by
  decide +kernel

end GoldilocksVerif.C20
