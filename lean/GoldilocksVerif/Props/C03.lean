import GoldilocksVerif.Model.Ntt
namespace GoldilocksVerif.C03
end GoldilocksVerif.C03
