/-
  C03 — "For every power-of-two size n up to the transform object's maximum domain size, every column count, every phase
  and block setting (out-of-range values are clamped), every thread count, with or without a caller scratch buffer, and
  with the destination equal to, distinct from, or null instead of the source, the forward transform delivers
  out[k][c] = sum_j in[j][c]*w_n^(j*k) for all k and c, where w_n is the library's primitive n-th root of unity. When the
  destination is a different buffer the source is left unchanged, and size 0 or zero columns is a no-op."

  Statements about the hand model `Model/Ntt.lean` (a function-by-function transcription of ntt_goldilocks.{hpp,cpp},
  tied to the code by the correspondence campaign of `./check C03`); the field operations inside the model are the
  GENERATED scalar operations, whose correctness is C01.  `den : BitVec 64 → ZMod P` is the field view.
  * all shapes: every d with 2^d ≤ maxDomainSize (the constructor exists iff log2 maxDomainSize ≤ 32), every ncols ≥ 1,
    every nphase, nblock : Nat (clamped by the model as by the code), every destination mode, every input.
  * thread count and caller scratch buffer do not exist in the sequential functional model (the scratch buffer is
    the model's `aux`, whose initial content is irrelevant); they are covered by the correspondence campaign only.
  * the model does index arithmetic on `Nat`; it mirrors the code's `int` / `u_int64_t` arithmetic for log2 n ≤ 30
    (DESIGN.md §6, D12) — the theorems hold for the model up to 2^32.
-/
import GoldilocksVerif.Lemmas.NttTop
import GoldilocksVerif.Lemmas.BridgeNttTop
import GoldilocksVerif.Lemmas.BridgeNttCtor
import GoldilocksVerif.Lemmas.BridgeNttBuf
import GoldilocksVerif.Lemmas.BridgeNttBlocks
import GoldilocksVerif.Lemmas.BridgeNttBufEq

namespace GoldilocksVerif.C03
open GoldilocksVerif.Model.Ntt GoldilocksVerif.NttSpec Finset

/-- `w_n` (n = 2^d) is the entry `W[d]` of the library's table, read through `Goldilocks::w(d)` -/
theorem C03_omega_is_library_root (d : Nat) (hd : d ≤ 32) :
    omega d = den (Gen.Scalar.w__rE (BitVec.ofNat 64 d)) := (mkObj_aux_den_w d hd).symm

/-- `w_n` is a primitive n-th root of unity: `w_n^n = 1` and `w_n^m ≠ 1` for `0 < m < n` (n = 2^d, d ≤ 32) -/
theorem C03_omega_primitive (d : Nat) (hd : d ≤ 32) :
    omega d ^ (2 ^ d) = 1 ∧ ∀ m, 0 < m → m < 2 ^ d → omega d ^ m ≠ 1 :=
  ⟨(omega_prim d hd).pow_n, (omega_prim d hd).ne_one⟩

/-- C03 (main statement): the forward transform never aborts, returns the source unchanged when the destination is
    another buffer (and the result in the source when it is the same or null), and delivers the DFT of every column. -/
theorem C03_forward_transform (maxDomainSize extension : Nat) (o : Obj) (hobj : mkObj maxDomainSize extension = some o)
    (hext : extension ≤ 1) (d : Nat) (hn : 2 ^ d ≤ maxDomainSize)
    (ncols nphase nblock : Nat) (hnc : 1 ≤ ncols) (mode : DstMode) (dstB srcB : Buf)
    (hsrc : srcB.size = 2 ^ d * ncols) (hdst : mode = .other → dstB.size = 2 ^ d * ncols) :
    ∃ out, ntt o mode dstB srcB (2 ^ d) ncols nphase nblock false false
        = .ok (out, if mode = .other then srcB else out) ∧
      out.size = 2 ^ d * ncols ∧
      ∀ k c, k < 2 ^ d → c < ncols →
        den (out.getD (k * ncols + c) 0#64)
          = ∑ j ∈ range (2 ^ d), den (srcB.getD (j * ncols + c) 0#64) * omega d ^ (j * k) := by
  have hm : maxDomainSize ≠ 0 := by have := Nat.two_pow_pos d; omega
  have hO := mkObj_ok maxDomainSize extension o hm hext hobj
  have hd : d ≤ log2 maxDomainSize := (Nat.le_log2 hm).mpr hn
  have hsz : (if mode = .other then dstB else srcB).size = 2 ^ d * ncols := by
    by_cases h : mode = .other
    · rw [if_pos h]; exact hdst h
    · rw [if_neg h]; exact hsrc
  obtain ⟨out, e, s, c⟩ := ntt_forward o _ hO mode dstB srcB d ncols nphase nblock hd hnc (by rw [hsz])
  exact ⟨out, e, by rw [s, hsz], c⟩

/-- C03: when the destination is a different buffer the source is left unchanged — for ALL arguments (any size, also
    sizes that are not powers of two or exceed the domain: if the call returns at all, the source is unchanged) -/
theorem C03_source_unchanged (o : Obj) (dstB srcB : Buf) (size ncols nphase nblock : Nat) (d s' : Buf)
    (h : ntt o .other dstB srcB size ncols nphase nblock false false = .ok (d, s')) : s' = srcB :=
  ntt_other_src o dstB srcB size ncols nphase nblock false false d s' h

/-- C03: size 0 or zero columns is a no-op (every buffer keeps its content) -/
theorem C03_noop (o : Obj) (mode : DstMode) (dstB srcB : Buf) (size ncols nphase nblock : Nat)
    (h : ncols = 0 ∨ size = 0) :
    ntt o mode dstB srcB size ncols nphase nblock false false = .ok (if mode = .other then dstB else srcB, srcB) :=
  ntt_noop o mode dstB srcB size ncols nphase nblock false false h

/-- non-vacuity: a constructed object exists for every maximum domain size up to 2^32, and the hypotheses of the main
    statement are satisfiable (size 4 inside an object of size 8, 3 columns, in place) -/
example : ∀ m, m ≤ 2 ^ 32 → ∃ o, mkObj m 1 = some o := by
  intro m hm
  apply mkObj_some
  by_cases h0 : m = 0
  · subst h0; decide
  · have : ¬ (32 < Nat.log2 m) := by
      intro h
      have := (Nat.le_log2 h0).mp (show 33 ≤ Nat.log2 m from h)
      omega
    show Nat.log2 m ≤ 32
    omega
example : ∃ o out, mkObj 8 1 = some o ∧
    ntt o .same #[] (Array.replicate (2 ^ 2 * 3) 1#64) (2 ^ 2) 3 3 2 false false = .ok (out, out) := by
  obtain ⟨o, ho⟩ := mkObj_some 8 1 (by decide)
  obtain ⟨out, e, _⟩ := C03_forward_transform 8 1 o ho (by omega) 2 (by omega) 3 3 2 (by omega) .same #[]
    (Array.replicate (2 ^ 2 * 3) 1#64) (by simp) (by simp)
  exact ⟨o, out, ho, e⟩

/-! ### the model GENERATED from ntt_goldilocks.cpp / .hpp (Gen/NttGen.lean, heap mode of the translator; DESIGN.NTTGEN.md)
  The statements above are about the hand model.  The functions below are translated from the C++ text on every run,
  executed against the compiled code by the campaign of this check (`nttseqg`), and PROVED equal to the hand model
  piece by piece (Lemmas/BridgeNtt*.lean): a change of the source that the test generators do not reach breaks these proofs.
  `hp` is the heap (list of memory blocks), `self` the generated object state, `ObjRep hp self o` says that they represent
  the hand model's object `o`; `bv n = BitVec.ofNat 64 n`. -/
section generated
open GoldilocksVerif.BridgeNtt Gen.NttGen

/-- generated `NTT_Goldilocks::log2` = `Nat.log2` for every non-zero 64-bit size and every fuel ≥ 64; `log2(0)` is the
    failed assert -/
theorem C03_generated_log2 (fuel : Nat) (hf : 64 ≤ fuel) (size : BitVec 64) :
    NTT_log2 fuel size = if size = 0#64 then none else some (BitVec.ofNat 32 (log2 size.toNat)) := by
  by_cases h : size = 0#64
  · subst h; rw [if_pos rfl]; exact log2_gen_zero fuel
  · rw [if_neg h]; exact log2_gen_eq fuel hf size h

/-- generated `intt_idx` (on `int`) = the model's `inttIdx` -/
theorem C03_generated_intt_idx (i N : Nat) (h : i ≤ N) : NTT_intt_idx (i : Int) (N : Int) = ((inttIdx i N : Nat) : Int) :=
  intt_idx_gen i N h

/-- generated `BR` = the model's `br`, hence the bit reversal of the low `d` bits -/
theorem C03_generated_BR (d i : Nat) (hd : d ≤ 32) (hi : i < 2 ^ d) :
    (BR (BitVec.ofNat 64 i) (BitVec.ofNat 64 d)).toNat = bitrev d i := by
  have h64 : (2 : Nat) ^ d < 2 ^ 64 := Nat.pow_lt_pow_right (by omega) (by omega)
  have e1 : (BitVec.ofNat 64 i).toNat = i := by rw [BitVec.toNat_ofNat]; exact Nat.mod_eq_of_lt (by omega)
  have e2 : (BitVec.ofNat 64 d).toNat = d := by rw [BitVec.toNat_ofNat]; exact Nat.mod_eq_of_lt (by omega)
  rw [BR_gen _ _ (by rw [e2]; exact hd), e1, e2, br_eq_bitrev d i hd hi]

/-- generated `root` reads the model's twiddle table -/
theorem C03_generated_root (hp : Heap) (self : NTT_Goldilocks) (o : Obj) (h : ObjRep hp self o) (dp : BitVec 32)
    (idx : BitVec 64) (hdp : dp.toNat ≤ o.s) (hidx : idx.toNat * 2 ^ (o.s - dp.toNat) < 2 ^ 64) :
    NTT_root hp self dp idx = root o dp.toNat idx.toNat :=
  root_gen hp self o dp idx h.roots h.roots_off h.hs hdp hidx

/-- generated `reversePermutation` (all four branches) changes the destination block exactly as the model changes its
    buffer; the failed assert is the model's error -/
theorem C03_generated_reversePermutation (fuel : Nat) (hf : 64 ≤ fuel) (hp : Heap) (self : NTT_Goldilocks) (o : Obj)
    (d s : Nat) (size oc nc nca : BitVec 64) (k : Nat) (hk : k ≤ 32) (hsize : size.toNat = 2 ^ k) (hd : d < hp.size)
    (hext : self.extension = (o.extension : Int)) (hext31 : o.extension < 2 ^ 31)
    (hb1 : size.toNat * nca.toNat + oc.toNat < 2 ^ 64) (hb2 : size.toNat * nc.toNat < 2 ^ 64) (hb3 : nc.toNat * 8 < 2 ^ 64) :
    NTT_reversePermutation fuel hp self ⟨d, 0⟩ ⟨s, 0⟩ size oc nc nca =
      match reversePermutation o (hp.block d) (hp.block s) (decide (d = s)) size.toNat oc.toNat nc.toNat nca.toNat with
      | .ok D => some (hp.setBlock d D)
      | .error _ => none :=
  reversePermutation_gen fuel hf hp self o d s size oc nc nca k hk hsize hd hext hext31 hb1 hb2 hb3

/-- generated `NTT_iters` (2 ≤ size = 2^K ≤ 2^30: schedule, butterflies, twiddle index, transposing / reflecting copies,
    pointer ping-pong, never-needed copy) returns iff the model's `nttIters` does, with the model's result in the
    destination block -/
theorem C03_generated_NTT_iters (fuel : Nat) (hf : 64 ≤ fuel) (hp : Heap) (self : NTT_Goldilocks) (o : Obj)
    (hrep : ObjRep hp self o) (D Sx Ax : Nat) (hD : D < hp.size) (hAx : Ax < hp.size) (hDA : D ≠ Ax) (hSA : Sx ≠ Ax)
    (hfrD : ObjFrame self D) (hfrA : ObjFrame self Ax)
    (dst : Ptr) (hdst : (if (dst != Ptr.null) = true then dst else (⟨Sx, 0⟩ : Ptr)) = ⟨D, 0⟩)
    (K N oc NC NCA : Nat) (nphase : BitVec 64) (inverse extend : Bool)
    (hK1 : 1 ≤ K) (hK : K ≤ 30) (hN : N = 2 ^ K) (hKs : K ≤ o.s) (hos : o.s ≤ 32)
    (hb1 : N * NCA + oc < 2 ^ 64) (hNNC : N * NC < 2 ^ 64) (hNC8 : NC * 8 < 2 ^ 64) (hext31 : o.extension < 2 ^ 31)
    (hcache : extend = true → o.rcache ≠ none) :
    match nttIters o (hp.block D) (hp.block Sx) (hp.block Ax) (decide (D = Sx)) N oc NC NCA nphase.toNat inverse extend with
    | .ok (d, _) => ∃ X', NTT_NTT_iters fuel hp self dst ⟨Sx, 0⟩ (bv N) (bv oc) (bv NC) (bv NCA) nphase ⟨Ax, 0⟩ inverse extend =
        some ((hp.setBlock D d).setBlock Ax X') ∧ X'.size = (hp.block Ax).size
    | .error _ => NTT_NTT_iters fuel hp self dst ⟨Sx, 0⟩ (bv N) (bv oc) (bv NC) (bv NCA) nphase ⟨Ax, 0⟩ inverse extend = none :=
  nttIters_gen fuel hf hp self o hrep D Sx Ax hD hAx hDA hSA hfrD hfrA dst hdst K N oc NC NCA nphase inverse extend hK1 hK hN
    hKs hos hb1 hNNC hNC8 hext31 hcache

/-- generated `NTT` = the model's `ntt` (default call shape: no caller scratch buffer, one column block) -/
theorem C03_generated_NTT_eq_model (fuel : Nat) (hf : 64 ≤ fuel) (hp : Heap) (self : NTT_Goldilocks) (o : Obj)
    (hrep : ObjRep hp self o) (hin : ObjIn hp self) (D Sx : Nat) (hD : D < hp.size) (hSx : Sx < hp.size) (hD0 : D ≠ 0)
    (hfrD : ObjFrame self D) (mode : DstMode) (hmode : mode = .other ↔ D ≠ Sx)
    (dst : Ptr) (hdst : (if (dst == Ptr.null) = true then (⟨Sx, 0⟩ : Ptr) else dst) = ⟨D, 0⟩)
    (K N NC : Nat) (nphase nblock : BitVec 64) (inverse extend : Bool)
    (hK1 : 1 ≤ K) (hK : K ≤ 30) (hN : N = 2 ^ K) (hKs : K ≤ o.s) (hos : o.s ≤ 32) (hNC1 : 1 ≤ NC)
    (hNNC8 : N * NC * 8 < 2 ^ 64) (hext31 : o.extension < 2 ^ 31) (hcache : extend = true → o.rcache ≠ none)
    (hnb : clampBlock nblock.toNat NC = 1) :
    match ntt o mode (hp.block D) (hp.block Sx) N NC nphase.toNat nblock.toNat inverse extend with
    | .ok (d, _) => NTT_NTT fuel hp self dst ⟨Sx, 0⟩ (bv N) (bv NC) Ptr.null nphase nblock inverse extend =
        some (hp.setBlock D d)
    | .error _ => NTT_NTT fuel hp self dst ⟨Sx, 0⟩ (bv N) (bv NC) Ptr.null nphase nblock inverse extend = none :=
  NTT_gen fuel hf hp self o hrep hin D Sx hD hSx hD0 hfrD mode hmode dst hdst K N NC nphase nblock inverse extend hK1 hK hN hKs
    hos hNC1 hNNC8 hext31 hcache hnb

/-- generated constructor `NTT_Goldilocks(maxDomainSize ≠ 0, nThreads, extension)` (GMP calls by their results): it throws
    iff the model's `mkObj` returns `none`; otherwise it appends the model's `roots` and `powTwoInv` tables as two new
    blocks, the assert `roots[nRoots-1]·roots[1] == 1` passes, and the new object state represents the model's object -/
theorem C03_generated_constructor (fuel : Nat) (hf : 64 ≤ fuel) (hp : Heap) (hpos : 0 < hp.size) (self0 : NTT_Goldilocks)
    (m : BitVec 64) (thr : BitVec 32) (e : Nat) (hm0 : m ≠ 0#64) :
    match mkObj m.toNat e with
    | none => NTT_ctor fuel hp self0 m thr (e : Int) = none
    | some o => ∃ self', NTT_ctor fuel hp self0 m thr (e : Int) = some ((hp.push o.roots).push o.powTwoInv, self') ∧
        ObjRep ((hp.push o.roots).push o.powTwoInv) self' o ∧ ObjIn ((hp.push o.roots).push o.powTwoInv) self' := by
  cases hobj : mkObj m.toNat e with
  | none =>
    have h := ctor_gen fuel hf hp hpos self0 m thr e hm0
    rw [hobj] at h
    exact h
  | some o =>
    obtain ⟨self', h1, h2, h3, _⟩ := ctor_rep fuel hf hp hpos self0 m thr e hm0 o hobj
    exact ⟨self', h1, h2, h3⟩

/-- **the property on the generated function**: for an object state representing a constructed object, sizes
    2 ≤ 2^d ≤ min(maxDomainSize, 2^30), every nphase, nblock clamping to one block, no caller buffer, every destination
    mode: the TRANSLATED `NTT` returns, changes only the destination block, and that block holds the DFT of every column -/
theorem C03_generated_forward_transform (maxDomainSize extension : Nat) (o : Obj) (hobj : mkObj maxDomainSize extension = some o)
    (hext : extension ≤ 1) (d : Nat) (hd1 : 1 ≤ d) (hd30 : d ≤ 30) (hn : 2 ^ d ≤ maxDomainSize)
    (fuel : Nat) (hf : 64 ≤ fuel) (hp : Heap) (self : NTT_Goldilocks) (hrep : ObjRep hp self o) (hin : ObjIn hp self)
    (D Sx : Nat) (hD : D < hp.size) (hSx : Sx < hp.size) (hD0 : D ≠ 0) (hfrD : ObjFrame self D)
    (mode : DstMode) (hmode : mode = .other ↔ D ≠ Sx)
    (dst : Ptr) (hdst : (if (dst == Ptr.null) = true then (⟨Sx, 0⟩ : Ptr) else dst) = ⟨D, 0⟩)
    (ncols : Nat) (nphase nblock : BitVec 64) (hnc : 1 ≤ ncols) (hbound : 2 ^ d * ncols * 8 < 2 ^ 64)
    (hnb : clampBlock nblock.toNat ncols = 1)
    (hsrc : (hp.block Sx).size = 2 ^ d * ncols) (hdsts : mode = .other → (hp.block D).size = 2 ^ d * ncols) :
    ∃ out, NTT_NTT fuel hp self dst ⟨Sx, 0⟩ (bv (2 ^ d)) (bv ncols) Ptr.null nphase nblock false false = some (hp.setBlock D out) ∧
      out.size = 2 ^ d * ncols ∧
      ∀ k c, k < 2 ^ d → c < ncols →
        den (out.getD (k * ncols + c) 0#64)
          = ∑ j ∈ range (2 ^ d), den ((hp.block Sx).getD (j * ncols + c) 0#64) * omega d ^ (j * k) := by
  have hm : maxDomainSize ≠ 0 := by have := Nat.two_pow_pos d; omega
  obtain ⟨hs1, hs2, hs3⟩ := mkObj_s_val maxDomainSize extension o hm hobj
  have hdl : d ≤ log2 maxDomainSize := (Nat.le_log2 hm).mpr hn
  obtain ⟨out, e, hsz, hdft⟩ := C03_forward_transform maxDomainSize extension o hobj hext d hn ncols nphase.toNat nblock.toNat
    hnc mode (hp.block D) (hp.block Sx) hsrc hdsts
  have hg := NTT_gen fuel hf hp self o hrep hin D Sx hD hSx hD0 hfrD mode hmode dst hdst d (2 ^ d) ncols nphase nblock false false
    hd1 hd30 rfl (by omega) hs2 hnc hbound (by omega) (by intro h; cases h) hnb
  rw [e] at hg
  exact ⟨out, hg, hsz, hdft⟩

/-- **end to end on the generated functions, no hypothesis about the object**: on any heap, the TRANSLATED constructor for
    `maxDomainSize ≤ 2^32` followed by the TRANSLATED `NTT` of a size 2 ≤ 2^d ≤ min(maxDomainSize, 2^30) returns, and the
    destination block holds the DFT of every column of the source block (this is what the request `nttseqg` of the
    correspondence campaign executes) -/
theorem C03_generated_construct_and_transform (fuel : Nat) (hf : 64 ≤ fuel) (hp : Heap) (self0 : NTT_Goldilocks)
    (m : BitVec 64) (thr : BitVec 32) (e : Nat) (he : e ≤ 1) (hm32 : m.toNat ≤ 2 ^ 32)
    (d : Nat) (hd1 : 1 ≤ d) (hd30 : d ≤ 30) (hn : 2 ^ d ≤ m.toNat)
    (D Sx : Nat) (hD : D < hp.size) (hSx : Sx < hp.size) (hD0 : D ≠ 0)
    (mode : DstMode) (hmode : mode = .other ↔ D ≠ Sx)
    (dst : Ptr) (hdst : (if (dst == Ptr.null) = true then (⟨Sx, 0⟩ : Ptr) else dst) = ⟨D, 0⟩)
    (ncols : Nat) (nphase nblock : BitVec 64) (hnc : 1 ≤ ncols) (hbound : 2 ^ d * ncols * 8 < 2 ^ 64)
    (hnb : clampBlock nblock.toNat ncols = 1)
    (hsrc : (hp.block Sx).size = 2 ^ d * ncols) (hdsts : mode = .other → (hp.block D).size = 2 ^ d * ncols) :
    ∃ hp1 self out, NTT_ctor fuel hp self0 m thr (e : Int) = some (hp1, self) ∧
      NTT_NTT fuel hp1 self dst ⟨Sx, 0⟩ (bv (2 ^ d)) (bv ncols) Ptr.null nphase nblock false false = some (hp1.setBlock D out) ∧
      out.size = 2 ^ d * ncols ∧
      ∀ k c, k < 2 ^ d → c < ncols →
        den (out.getD (k * ncols + c) 0#64)
          = ∑ j ∈ range (2 ^ d), den ((hp.block Sx).getD (j * ncols + c) 0#64) * omega d ^ (j * k) := by
  have hmn : m.toNat ≠ 0 := by have := Nat.two_pow_pos d; omega
  have hm0 : m ≠ 0#64 := by intro h; rw [h] at hmn; exact hmn rfl
  obtain ⟨o, hobj⟩ := mkObj_some m.toNat e (by
    show Nat.log2 m.toNat ≤ 32
    by_contra h
    have := (Nat.le_log2 hmn).mp (show 33 ≤ Nat.log2 m.toNat by omega)
    omega)
  obtain ⟨self, hc, hrep, hin, _⟩ := ctor_rep fuel hf hp (by omega) self0 m thr e hm0 o hobj
  have hb1 : ∀ c, c < hp.size → ((hp.push o.roots).push o.powTwoInv).block c = hp.block c := by
    intro c hc'
    rw [Heap.block_push_lt _ _ _ (by simp; omega), Heap.block_push_lt _ _ _ hc']
  have hfr : ObjFrame self D := by
    have h := ctor_gen fuel hf hp (by omega) self0 m thr e hm0
    rw [hobj] at h
    obtain ⟨self', h1, _, h3, h4, h5, h6, _, _⟩ := h
    have : self' = self := by
      rw [hc] at h1; injection h1 with h1; injection h1 with _ h1; exact h1.symm
    subst this
    refine ⟨?_, ?_, ?_, ?_⟩
    · rw [h3]; show D ≠ hp.size; omega
    · rw [h4]; show D ≠ hp.size + 1; omega
    · rw [h5]; exact hD0
    · rw [h6]; exact hD0
  obtain ⟨out, hntt, hsz, hdft⟩ := C03_generated_forward_transform m.toNat e o hobj he d hd1 hd30 hn fuel hf
    ((hp.push o.roots).push o.powTwoInv) self hrep hin D Sx (by simp; omega) (by simp; omega) hD0 hfr mode hmode dst hdst ncols
    nphase nblock hnc hbound hnb (by rw [hb1 _ hSx]; exact hsrc) (by intro h; rw [hb1 _ hD]; exact hdsts h)
  refine ⟨_, self, out, hc, hntt, hsz, ?_⟩
  intro k c hk hc'
  rw [hdft k c hk hc', hb1 _ hSx]

/-- **the property on the generated function, caller scratch buffer**: `NTT(dst, src, size, ncols, buffer, …)` with a buffer
    block of at least size·ncols words and ANY content: the TRANSLATED function returns, changes only the destination and the
    buffer block, and the destination block holds the DFT of every column.  (Route: generated `NTT_iters` = the model's
    `nttIters` run with that buffer as `aux`; the model's field-level specification holds for every `aux`.) -/
theorem C03_generated_forward_transform_buffer (maxDomainSize extension : Nat) (o : Obj)
    (hobj : mkObj maxDomainSize extension = some o) (hext : extension ≤ 1) (d : Nat) (hd1 : 1 ≤ d) (hd30 : d ≤ 30)
    (hn : 2 ^ d ≤ maxDomainSize)
    (fuel : Nat) (hf : 64 ≤ fuel) (hp : Heap) (self : NTT_Goldilocks) (hrep : ObjRep hp self o)
    (D Sx B : Nat) (hD : D < hp.size) (hB : B < hp.size) (hD0 : D ≠ 0) (hB0 : B ≠ 0) (hDB : D ≠ B) (hSB : Sx ≠ B)
    (hfrD : ObjFrame self D) (hfrB : ObjFrame self B)
    (dst : Ptr) (hdst : (if (dst == Ptr.null) = true then (⟨Sx, 0⟩ : Ptr) else dst) = ⟨D, 0⟩)
    (ncols : Nat) (nphase nblock : BitVec 64) (hnc : 1 ≤ ncols) (hbound : 2 ^ d * ncols * 8 < 2 ^ 64)
    (hnb : clampBlock nblock.toNat ncols = 1)
    (hsrc : (hp.block Sx).size = 2 ^ d * ncols) (hdsts : (hp.block D).size = 2 ^ d * ncols)
    (hbuf : 2 ^ d * ncols ≤ (hp.block B).size) :
    ∃ out X', NTT_NTT fuel hp self dst ⟨Sx, 0⟩ (bv (2 ^ d)) (bv ncols) ⟨B, 0⟩ nphase nblock false false =
        some ((hp.setBlock D out).setBlock B X') ∧
      out.size = 2 ^ d * ncols ∧
      ∀ k c, k < 2 ^ d → c < ncols →
        den (out.getD (k * ncols + c) 0#64)
          = ∑ j ∈ range (2 ^ d), den ((hp.block Sx).getD (j * ncols + c) 0#64) * omega d ^ (j * k) := by
  have hm : maxDomainSize ≠ 0 := by have := Nat.two_pow_pos d; omega
  obtain ⟨hs1, hs2, hs3⟩ := mkObj_s_val maxDomainSize extension o hm hobj
  have hdl : d ≤ log2 maxDomainSize := (Nat.le_log2 hm).mpr hn
  have hO := mkObj_ok maxDomainSize extension o hm hext hobj
  obtain ⟨out, e, hsz, hdft⟩ := nttIters_forward o _ hO (hp.block D) (hp.block Sx) (hp.block B) (decide (D = Sx)) d ncols
    nphase.toNat hdl (by by_cases h : D = Sx <;> simp [h, hsrc, hdsts]) hbuf
  have hg := NTT_gen_buf fuel hf hp self o hrep D Sx B hD hB hD0 hB0 hDB hSB hfrD hfrB dst hdst d (2 ^ d) ncols nphase nblock
    false false hd1 hd30 rfl (by omega) hs2 hnc hbound (by omega) (by intro h; cases h) hnb
  rw [e] at hg
  obtain ⟨X', hX, _⟩ := hg
  refine ⟨out, X', hX, ?_, hdft⟩
  rw [hsz]; by_cases h : D = Sx <;> simp [h, hsrc, hdsts]

end generated

/-! ### the generated model, EVERY `nblock` and size 1 (Lemmas/NttIndep.lean, BridgeParcpy.lean, BridgeNttSize1.lean, BridgeNttBlocks.lean)
  The theorems above cover the call shape "`nblock` clamps to 1, size ≥ 2".  Below: every `nblock : u_int64_t` (clamped by the
  translated code to `1 … ncols`; for more than one block the translated code allocates the temporary destination `dst_`, runs
  `NTT_iters` per column block into it — reusing the scratch block and `dst_` the previous block dirtied —, scatters the block
  into the destination, frees both), and every size `1 ≤ 2^d ≤ 2^30` (size 1 goes through the translated `Goldilocks::parcpy`).
  FUEL: `itersFuel self d ncols` = 64 for d ≥ 1; for d = 0 it is `max 64 (min(ncols, max(1, (int) nThreads)) + 1)` because the
  chunk loop of `parcpy` is a `while` loop of the generated model (`C03_generated_fuel`). -/
section generated_all
open GoldilocksVerif.BridgeNtt Gen.NttGen

/-- the fuel bound of the theorems below is met by every `fuel ≥ 64` that, for size 1 only, also exceeds the column count or
    the thread count of the object -/
theorem C03_generated_fuel (self : NTT_Goldilocks) (d ncols fuel : Nat) (h64 : 64 ≤ fuel)
    (h1 : d = 0 → ncols < fuel ∨ self.nThreads.toNat < fuel) : itersFuel self d ncols ≤ fuel := by
  unfold itersFuel
  by_cases hd : d = 0
  · rw [if_pos hd]
    unfold parFuel ParCopy.threads I32.ofU32
    have ht : (if self.nThreads.toInt < 1 then 1 else self.nThreads.toInt.toNat) ≤ max 1 self.nThreads.toNat := by
      rw [BitVec.toInt_eq_toNat_cond]
      split <;> split <;> omega
    rcases h1 hd with h | h <;> omega
  · rw [if_neg hd]; exact h64

/-- generated `NTT` = the model's `ntt`, every `nblock`, every size 1 ≤ 2^K ≤ 2^30, bit for bit: the heap ends with the
    destination block holding the model's result and nothing else changed -/
theorem C03_generated_NTT_eq_model_all (fuel : Nat) (hp : Heap) (self : NTT_Goldilocks) (o : Obj)
    (hrep : ObjRep hp self o) (hin : ObjIn hp self) (D Sx : Nat) (hD : D < hp.size) (hSx : Sx < hp.size) (hD0 : D ≠ 0)
    (hfrD : ObjFrame self D) (mode : DstMode) (hmode : mode = .other ↔ D ≠ Sx)
    (dst : Ptr) (hdst : (if (dst == Ptr.null) = true then (⟨Sx, 0⟩ : Ptr) else dst) = ⟨D, 0⟩)
    (K N NC : Nat) (nphase nblock : BitVec 64) (inverse extend : Bool)
    (hK : K ≤ 30) (hN : N = 2 ^ K) (hKs : K ≤ o.s) (hos : o.s ≤ 32) (hNC1 : 1 ≤ NC)
    (hNNC8 : N * NC * 8 < 2 ^ 64) (hext31 : o.extension < 2 ^ 31) (hcache : extend = true → o.rcache ≠ none)
    (hf : itersFuel self K NC ≤ fuel) :
    match ntt o mode (hp.block D) (hp.block Sx) N NC nphase.toNat nblock.toNat inverse extend with
    | .ok (d, _) => NTT_NTT fuel hp self dst ⟨Sx, 0⟩ (bv N) (bv NC) Ptr.null nphase nblock inverse extend =
        some (hp.setBlock D d)
    | .error _ => NTT_NTT fuel hp self dst ⟨Sx, 0⟩ (bv N) (bv NC) Ptr.null nphase nblock inverse extend = none :=
  NTT_gen_all fuel hp self o hrep hin D Sx hD hSx hD0 hfrD mode hmode dst hdst K N NC nphase nblock inverse extend hK hN hKs hos
    hNC1 hNNC8 hext31 hcache hf

/-- the bit-level fact behind it (hand model only): `nttIters` does not depend on the initial content of the scratch buffer nor,
    on the first size·ncols words, on the initial content of a destination buffer distinct from the source -/
theorem C03_nttIters_ignores_scratch (o : Obj) (dstB dstB' srcB auxB auxB' : Buf) (d oc nc nca nphase : Nat)
    (inverse extend : Bool) (hd : 2 ^ d * nc ≤ dstB.size) (hd' : 2 ^ d * nc ≤ dstB'.size)
    (haux : 2 ^ d * nc ≤ auxB.size) (haux' : 2 ^ d * nc ≤ auxB'.size) :
    (∃ r r', nttIters o dstB srcB auxB false (2 ^ d) oc nc nca nphase inverse extend = .ok (r, srcB) ∧
        nttIters o dstB' srcB auxB' false (2 ^ d) oc nc nca nphase inverse extend = .ok (r', srcB) ∧
        ∀ i, i < 2 ^ d * nc → r.getD i 0#64 = r'.getD i 0#64) ∨
    (∃ e, nttIters o dstB srcB auxB false (2 ^ d) oc nc nca nphase inverse extend = .error e ∧
        nttIters o dstB' srcB auxB' false (2 ^ d) oc nc nca nphase inverse extend = .error e) := by
  rcases nttIters_indep o dstB dstB' srcB auxB auxB' false d oc nc nca nphase inverse extend (fun _ => False)
    ⟨hd, hd', fun i hi => absurd hi id⟩ haux haux' with ⟨r, r', e, e', hag⟩ | ⟨er, e, e'⟩
  · exact Or.inl ⟨r, r', e, e', fun i hi => hag.eq i (Or.inr hi)⟩
  · exact Or.inr ⟨er, e, e'⟩

/-- **the property on the generated function, every `nblock`, every size 1 ≤ 2^d ≤ min(maxDomainSize, 2^30)**: for an object
    state representing a constructed object, every nphase, every nblock, no caller buffer, every destination mode: the TRANSLATED
    `NTT` returns, changes only the destination block, and that block holds the DFT of every column -/
theorem C03_generated_forward_transform_all (maxDomainSize extension : Nat) (o : Obj)
    (hobj : mkObj maxDomainSize extension = some o) (hext : extension ≤ 1) (d : Nat) (hd30 : d ≤ 30) (hn : 2 ^ d ≤ maxDomainSize)
    (fuel : Nat) (hp : Heap) (self : NTT_Goldilocks) (hrep : ObjRep hp self o) (hin : ObjIn hp self)
    (D Sx : Nat) (hD : D < hp.size) (hSx : Sx < hp.size) (hD0 : D ≠ 0) (hfrD : ObjFrame self D)
    (mode : DstMode) (hmode : mode = .other ↔ D ≠ Sx)
    (dst : Ptr) (hdst : (if (dst == Ptr.null) = true then (⟨Sx, 0⟩ : Ptr) else dst) = ⟨D, 0⟩)
    (ncols : Nat) (nphase nblock : BitVec 64) (hnc : 1 ≤ ncols) (hbound : 2 ^ d * ncols * 8 < 2 ^ 64)
    (hsrc : (hp.block Sx).size = 2 ^ d * ncols) (hdsts : mode = .other → (hp.block D).size = 2 ^ d * ncols)
    (hf : itersFuel self d ncols ≤ fuel) :
    ∃ out, NTT_NTT fuel hp self dst ⟨Sx, 0⟩ (bv (2 ^ d)) (bv ncols) Ptr.null nphase nblock false false = some (hp.setBlock D out) ∧
      out.size = 2 ^ d * ncols ∧
      ∀ k c, k < 2 ^ d → c < ncols →
        den (out.getD (k * ncols + c) 0#64)
          = ∑ j ∈ range (2 ^ d), den ((hp.block Sx).getD (j * ncols + c) 0#64) * omega d ^ (j * k) := by
  have hm : maxDomainSize ≠ 0 := by have := Nat.two_pow_pos d; omega
  obtain ⟨hs1, hs2, hs3⟩ := mkObj_s_val maxDomainSize extension o hm hobj
  have hdl : d ≤ log2 maxDomainSize := (Nat.le_log2 hm).mpr hn
  obtain ⟨out, e, hsz, hdft⟩ := C03_forward_transform maxDomainSize extension o hobj hext d hn ncols nphase.toNat nblock.toNat
    hnc mode (hp.block D) (hp.block Sx) hsrc hdsts
  have hg := NTT_gen_all fuel hp self o hrep hin D Sx hD hSx hD0 hfrD mode hmode dst hdst d (2 ^ d) ncols nphase nblock false false
    hd30 rfl (by omega) hs2 hnc hbound (by omega) (by intro h; cases h) hf
  rw [e] at hg
  exact ⟨out, hg, hsz, hdft⟩

/-- **end to end, every `nblock`, every size 1 ≤ 2^d**: translated constructor, then translated `NTT`, on any heap.  Fuel: 64, and
    for size 1 more than the column count -/
theorem C03_generated_construct_and_transform_all (fuel : Nat) (hf : 64 ≤ fuel) (hp : Heap) (self0 : NTT_Goldilocks)
    (m : BitVec 64) (thr : BitVec 32) (e : Nat) (he : e ≤ 1) (hm32 : m.toNat ≤ 2 ^ 32)
    (d : Nat) (hd30 : d ≤ 30) (hn : 2 ^ d ≤ m.toNat)
    (D Sx : Nat) (hD : D < hp.size) (hSx : Sx < hp.size) (hD0 : D ≠ 0)
    (mode : DstMode) (hmode : mode = .other ↔ D ≠ Sx)
    (dst : Ptr) (hdst : (if (dst == Ptr.null) = true then (⟨Sx, 0⟩ : Ptr) else dst) = ⟨D, 0⟩)
    (ncols : Nat) (nphase nblock : BitVec 64) (hnc : 1 ≤ ncols) (hbound : 2 ^ d * ncols * 8 < 2 ^ 64)
    (hf1 : d = 0 → ncols < fuel)
    (hsrc : (hp.block Sx).size = 2 ^ d * ncols) (hdsts : mode = .other → (hp.block D).size = 2 ^ d * ncols) :
    ∃ hp1 self out, NTT_ctor fuel hp self0 m thr (e : Int) = some (hp1, self) ∧
      NTT_NTT fuel hp1 self dst ⟨Sx, 0⟩ (bv (2 ^ d)) (bv ncols) Ptr.null nphase nblock false false = some (hp1.setBlock D out) ∧
      out.size = 2 ^ d * ncols ∧
      ∀ k c, k < 2 ^ d → c < ncols →
        den (out.getD (k * ncols + c) 0#64)
          = ∑ j ∈ range (2 ^ d), den ((hp.block Sx).getD (j * ncols + c) 0#64) * omega d ^ (j * k) := by
  have hmn : m.toNat ≠ 0 := by have := Nat.two_pow_pos d; omega
  have hm0 : m ≠ 0#64 := by intro h; rw [h] at hmn; exact hmn rfl
  obtain ⟨o, hobj⟩ := mkObj_some m.toNat e (by
    show Nat.log2 m.toNat ≤ 32
    by_contra h
    have := (Nat.le_log2 hmn).mp (show 33 ≤ Nat.log2 m.toNat by omega)
    omega)
  obtain ⟨self, hc, hrep, hin, _⟩ := ctor_rep fuel hf hp (by omega) self0 m thr e hm0 o hobj
  have hb1 : ∀ c, c < hp.size → ((hp.push o.roots).push o.powTwoInv).block c = hp.block c := by
    intro c hc'
    rw [Heap.block_push_lt _ _ _ (by simp; omega), Heap.block_push_lt _ _ _ hc']
  have hfr : ObjFrame self D := by
    have h := ctor_gen fuel hf hp (by omega) self0 m thr e hm0
    rw [hobj] at h
    obtain ⟨self', h1, _, h3, h4, h5, h6, _, _⟩ := h
    have : self' = self := by
      rw [hc] at h1; injection h1 with h1; injection h1 with _ h1; exact h1.symm
    subst this
    refine ⟨?_, ?_, ?_, ?_⟩
    · rw [h3]; show D ≠ hp.size; omega
    · rw [h4]; show D ≠ hp.size + 1; omega
    · rw [h5]; exact hD0
    · rw [h6]; exact hD0
  obtain ⟨out, hntt, hsz, hdft⟩ := C03_generated_forward_transform_all m.toNat e o hobj he d hd30 hn fuel
    ((hp.push o.roots).push o.powTwoInv) self hrep hin D Sx (by simp; omega) (by simp; omega) hD0 hfr mode hmode dst hdst ncols
    nphase nblock hnc hbound (by rw [hb1 _ hSx]; exact hsrc) (by intro h; rw [hb1 _ hD]; exact hdsts h)
    (C03_generated_fuel self d ncols fuel hf (fun h => Or.inl (hf1 h)))
  refine ⟨_, self, out, hc, hntt, hsz, ?_⟩
  intro k c hk hc'
  rw [hdft k c hk hc', hb1 _ hSx]

/-- generated `NTT` WITH a caller scratch buffer (block `B`, ANY content, at least size·ncols words) = the model's `ntt` (which
    takes a zero-filled scratch buffer of its own), bit for bit, every `nblock`, every size 1 ≤ 2^K ≤ 2^30: the destination block
    holds the model's result, the buffer block keeps its size, nothing else changes -/
theorem C03_generated_NTT_buffer_eq_model (fuel : Nat) (hp : Heap) (self : NTT_Goldilocks) (o : Obj)
    (hrep : ObjRep hp self o) (hin : ObjIn hp self) (D Sx B : Nat) (hD : D < hp.size) (hSx : Sx < hp.size) (hB : B < hp.size)
    (hD0 : D ≠ 0) (hB0 : B ≠ 0) (hDB : D ≠ B) (hSB : Sx ≠ B) (hfrD : ObjFrame self D) (hfrB : ObjFrame self B)
    (mode : DstMode) (hmode : mode = .other ↔ D ≠ Sx)
    (dst : Ptr) (hdst : (if (dst == Ptr.null) = true then (⟨Sx, 0⟩ : Ptr) else dst) = ⟨D, 0⟩)
    (K N NC : Nat) (nphase nblock : BitVec 64) (inverse extend : Bool)
    (hK : K ≤ 30) (hN : N = 2 ^ K) (hKs : K ≤ o.s) (hos : o.s ≤ 32) (hNC1 : 1 ≤ NC)
    (hNNC8 : N * NC * 8 < 2 ^ 64) (hext31 : o.extension < 2 ^ 31) (hcache : extend = true → o.rcache ≠ none)
    (hf : itersFuel self K NC ≤ fuel) (hdsz : N * NC ≤ (hp.block D).size) (hbuf : N * NC ≤ (hp.block B).size) :
    match ntt o mode (hp.block D) (hp.block Sx) N NC nphase.toNat nblock.toNat inverse extend with
    | .ok (d, _) => ∃ X', NTT_NTT fuel hp self dst ⟨Sx, 0⟩ (bv N) (bv NC) ⟨B, 0⟩ nphase nblock inverse extend =
        some ((hp.setBlock D d).setBlock B X') ∧ X'.size = (hp.block B).size
    | .error _ => NTT_NTT fuel hp self dst ⟨Sx, 0⟩ (bv N) (bv NC) ⟨B, 0⟩ nphase nblock inverse extend = none :=
  NTT_gen_buf_all fuel hp self o hrep hin D Sx B hD hSx hB hD0 hB0 hDB hSB hfrD hfrB mode hmode dst hdst K N NC nphase nblock
    inverse extend hK hN hKs hos hNC1 hNNC8 hext31 hcache hf hdsz hbuf

/-- **the property on the generated function, caller scratch buffer, every `nblock`, every size 1 ≤ 2^d** -/
theorem C03_generated_forward_transform_buffer_all (maxDomainSize extension : Nat) (o : Obj)
    (hobj : mkObj maxDomainSize extension = some o) (hext : extension ≤ 1) (d : Nat) (hd30 : d ≤ 30)
    (hn : 2 ^ d ≤ maxDomainSize)
    (fuel : Nat) (hp : Heap) (self : NTT_Goldilocks) (hrep : ObjRep hp self o) (hin : ObjIn hp self)
    (D Sx B : Nat) (hD : D < hp.size) (hSx : Sx < hp.size) (hB : B < hp.size) (hD0 : D ≠ 0) (hB0 : B ≠ 0) (hDB : D ≠ B)
    (hSB : Sx ≠ B) (hfrD : ObjFrame self D) (hfrB : ObjFrame self B)
    (mode : DstMode) (hmode : mode = .other ↔ D ≠ Sx)
    (dst : Ptr) (hdst : (if (dst == Ptr.null) = true then (⟨Sx, 0⟩ : Ptr) else dst) = ⟨D, 0⟩)
    (ncols : Nat) (nphase nblock : BitVec 64) (hnc : 1 ≤ ncols) (hbound : 2 ^ d * ncols * 8 < 2 ^ 64)
    (hsrc : (hp.block Sx).size = 2 ^ d * ncols) (hdsts : (hp.block D).size = 2 ^ d * ncols)
    (hbuf : 2 ^ d * ncols ≤ (hp.block B).size) (hf : itersFuel self d ncols ≤ fuel) :
    ∃ out X', NTT_NTT fuel hp self dst ⟨Sx, 0⟩ (bv (2 ^ d)) (bv ncols) ⟨B, 0⟩ nphase nblock false false =
        some ((hp.setBlock D out).setBlock B X') ∧
      out.size = 2 ^ d * ncols ∧ X'.size = (hp.block B).size ∧
      ∀ k c, k < 2 ^ d → c < ncols →
        den (out.getD (k * ncols + c) 0#64)
          = ∑ j ∈ range (2 ^ d), den ((hp.block Sx).getD (j * ncols + c) 0#64) * omega d ^ (j * k) := by
  have hm : maxDomainSize ≠ 0 := by have := Nat.two_pow_pos d; omega
  obtain ⟨hs1, hs2, hs3⟩ := mkObj_s_val maxDomainSize extension o hm hobj
  have hdl : d ≤ log2 maxDomainSize := (Nat.le_log2 hm).mpr hn
  obtain ⟨out, e, hsz, hdft⟩ := C03_forward_transform maxDomainSize extension o hobj hext d hn ncols nphase.toNat nblock.toNat
    hnc mode (hp.block D) (hp.block Sx) hsrc (fun _ => hdsts)
  have hg := NTT_gen_buf_all fuel hp self o hrep hin D Sx B hD hSx hB hD0 hB0 hDB hSB hfrD hfrB mode hmode dst hdst d (2 ^ d) ncols
    nphase nblock false false hd30 rfl (by omega) hs2 hnc hbound (by omega) (by intro h; cases h) hf (by omega) hbuf
  rw [e] at hg
  obtain ⟨X', hX, hXs⟩ := hg
  exact ⟨out, X', hX, hsz, hXs, hdft⟩

end generated_all

end GoldilocksVerif.C03
