/-
  C03 — "For every power-of-two size n up to the transform object's maximum domain size, every column count, every phase
  and block setting (out-of-range values are clamped), every thread count, with or without a caller scratch buffer, and
  with the destination equal to, distinct from, or null instead of the source, the forward transform delivers
  out[k][c] = sum_j in[j][c]*w_n^(j*k) for all k and c, where w_n is the library's primitive n-th root of unity. When the
  destination is a different buffer the source is left unchanged, and size 0 or zero columns is a no-op."

  Statements about the hand model `Model/Ntt.lean` (a function-by-function transcription of ntt_goldilocks.{hpp,cpp},
  tied to the code by the correspondence campaign of `./check C03`); the field operations inside the model are the
  GENERATED scalar operations, whose correctness is C01.  `den : BitVec 64 → ZMod P` is the field view.
  * all shapes: every d with 2^d ≤ maxDomainSize (the constructor exists iff log2 maxDomainSize ≤ 32), every ncols ≥ 1,
    every nphase, nblock : Nat (clamped by the model as by the code), every destination mode, every input.
  * thread count and caller scratch buffer do not exist in the sequential functional model (the scratch buffer is
    the model's `aux`, whose initial content is irrelevant); they are covered by the correspondence campaign only.
  * the model does index arithmetic on `Nat`; it mirrors the code's `int` / `u_int64_t` arithmetic for log2 n ≤ 30
    (DESIGN.md §6, D12) — the theorems hold for the model up to 2^32.
-/
import GoldilocksVerif.Lemmas.NttTop

namespace GoldilocksVerif.C03
open GoldilocksVerif.Model.Ntt GoldilocksVerif.NttSpec Finset

/-- `w_n` (n = 2^d) is the entry `W[d]` of the library's table, read through `Goldilocks::w(d)` -/
theorem C03_omega_is_library_root (d : Nat) (hd : d ≤ 32) :
    omega d = den (Gen.Scalar.w__rE (BitVec.ofNat 64 d)) := (mkObj_aux_den_w d hd).symm

/-- `w_n` is a primitive n-th root of unity: `w_n^n = 1` and `w_n^m ≠ 1` for `0 < m < n` (n = 2^d, d ≤ 32) -/
theorem C03_omega_primitive (d : Nat) (hd : d ≤ 32) :
    omega d ^ (2 ^ d) = 1 ∧ ∀ m, 0 < m → m < 2 ^ d → omega d ^ m ≠ 1 :=
  ⟨(omega_prim d hd).pow_n, (omega_prim d hd).ne_one⟩

/-- C03 (main statement): the forward transform never aborts, returns the source unchanged when the destination is
    another buffer (and the result in the source when it is the same or null), and delivers the DFT of every column. -/
theorem C03_forward_transform (maxDomainSize extension : Nat) (o : Obj) (hobj : mkObj maxDomainSize extension = some o)
    (hext : extension ≤ 1) (d : Nat) (hn : 2 ^ d ≤ maxDomainSize)
    (ncols nphase nblock : Nat) (hnc : 1 ≤ ncols) (mode : DstMode) (dstB srcB : Buf)
    (hsrc : srcB.size = 2 ^ d * ncols) (hdst : mode = .other → dstB.size = 2 ^ d * ncols) :
    ∃ out, ntt o mode dstB srcB (2 ^ d) ncols nphase nblock false false
        = .ok (out, if mode = .other then srcB else out) ∧
      out.size = 2 ^ d * ncols ∧
      ∀ k c, k < 2 ^ d → c < ncols →
        den (out.getD (k * ncols + c) 0#64)
          = ∑ j ∈ range (2 ^ d), den (srcB.getD (j * ncols + c) 0#64) * omega d ^ (j * k) := by
  have hm : maxDomainSize ≠ 0 := by have := Nat.two_pow_pos d; omega
  have hO := mkObj_ok maxDomainSize extension o hm hext hobj
  have hd : d ≤ log2 maxDomainSize := (Nat.le_log2 hm).mpr hn
  have hsz : (if mode = .other then dstB else srcB).size = 2 ^ d * ncols := by
    by_cases h : mode = .other
    · rw [if_pos h]; exact hdst h
    · rw [if_neg h]; exact hsrc
  obtain ⟨out, e, s, c⟩ := ntt_forward o _ hO mode dstB srcB d ncols nphase nblock hd hnc (by rw [hsz])
  exact ⟨out, e, by rw [s, hsz], c⟩

/-- C03: when the destination is a different buffer the source is left unchanged — for ALL arguments (any size, also
    sizes that are not powers of two or exceed the domain: if the call returns at all, the source is unchanged) -/
theorem C03_source_unchanged (o : Obj) (dstB srcB : Buf) (size ncols nphase nblock : Nat) (d s' : Buf)
    (h : ntt o .other dstB srcB size ncols nphase nblock false false = .ok (d, s')) : s' = srcB :=
  ntt_other_src o dstB srcB size ncols nphase nblock false false d s' h

/-- C03: size 0 or zero columns is a no-op (every buffer keeps its content) -/
theorem C03_noop (o : Obj) (mode : DstMode) (dstB srcB : Buf) (size ncols nphase nblock : Nat)
    (h : ncols = 0 ∨ size = 0) :
    ntt o mode dstB srcB size ncols nphase nblock false false = .ok (if mode = .other then dstB else srcB, srcB) :=
  ntt_noop o mode dstB srcB size ncols nphase nblock false false h

/-- non-vacuity: a constructed object exists for every maximum domain size up to 2^32, and the hypotheses of the main
    statement are satisfiable (size 4 inside an object of size 8, 3 columns, in place) -/
example : ∀ m, m ≤ 2 ^ 32 → ∃ o, mkObj m 1 = some o := by
  intro m hm
  apply mkObj_some
  by_cases h0 : m = 0
  · subst h0; decide
  · have : ¬ (32 < Nat.log2 m) := by
      intro h
      have := (Nat.le_log2 h0).mp (show 33 ≤ Nat.log2 m from h)
      omega
    show Nat.log2 m ≤ 32
    omega
example : ∃ o out, mkObj 8 1 = some o ∧
    ntt o .same #[] (Array.replicate (2 ^ 2 * 3) 1#64) (2 ^ 2) 3 3 2 false false = .ok (out, out) := by
  obtain ⟨o, ho⟩ := mkObj_some 8 1 (by decide)
  obtain ⟨out, e, _⟩ := C03_forward_transform 8 1 o ho (by omega) 2 (by omega) 3 3 2 (by omega) .same #[]
    (Array.replicate (2 ^ 2 * 3) 1#64) (by simp) (by simp)
  exact ⟨o, out, ho, e⟩

end GoldilocksVerif.C03
