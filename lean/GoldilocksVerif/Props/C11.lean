/-
  C11 — AVX512 lane kernels equal the scalar field op in every lane, every input.

  Statements are about `Gen.Avx512.*`, regenerated on every run from
  `/repo/src/goldilocks_base_field_avx512.hpp` (built with -D__AVX512__, which the shipped test build never
  selects) over the intrinsic semantics of `Isa/Avx512.lean`.  Only property theorems here.
-/
import GoldilocksVerif.Lemmas.Avx512Nat
import GoldilocksVerif.Props.C01

namespace GoldilocksVerif.C11
open Gen.Avx512 GoldilocksVerif

/-- toCanonical_avx512 -/
theorem C11_toCanonical_avx512 (a : V8) (i : Fin 8) :
    ((toCanonical_avx512 a).get i).toNat = (a.get i).toNat % P := canon512_spec a i

/-- add_avx512: general-purpose -/
theorem C11_add_avx512 (a b : V8) (i : Fin 8) :
    ((add_avx512__wWW a b).get i).toNat % P = ((a.get i).toNat + (b.get i).toNat) % P := add512_spec a b i

/-- add_avx512_b_c: documented requirement = canonical second operand -/
theorem C11_add_avx512_b_c (a b_c : V8) (i : Fin 8) (h : (b_c.get i).toNat < P) :
    ((add_avx512_b_c a b_c).get i).toNat % P = ((a.get i).toNat + (b_c.get i).toNat) % P :=
  add512_b_c_spec a b_c i (by have := (a.get i).isLt; omega)

/-- add_avx512_b_c: what the proof actually needs (a + b < 2^64 + p); fails beyond it, see C14 -/
theorem C11_add_avx512_b_c_weak (a b : V8) (i : Fin 8) (h : (a.get i).toNat + (b.get i).toNat < 2^64 + P) :
    ((add_avx512_b_c a b).get i).toNat % P = ((a.get i).toNat + (b.get i).toNat) % P :=
  add512_b_c_spec a b i h

/-- sub_avx512: general-purpose -/
theorem C11_sub_avx512 (a b : V8) (i : Fin 8) :
    (((sub_avx512__wWW a b).get i).toNat + (b.get i).toNat) % P = (a.get i).toNat % P := sub512_spec a b i

/-- sub_avx512_b_c: canonical second operand -/
theorem C11_sub_avx512_b_c (a b_c : V8) (i : Fin 8) (h : (b_c.get i).toNat < P) :
    (((sub_avx512_b_c a b_c).get i).toNat + (b_c.get i).toNat) % P = (a.get i).toNat % P :=
  sub512_b_c_spec a b_c i h

/-- mult_avx512_128: exact 128-bit product -/
theorem C11_mult_avx512_128 (a b : V8) (i : Fin 8) :
    ((mult_avx512_128 a b).1.get i).toNat * 2^64 + ((mult_avx512_128 a b).2.get i).toNat =
      (a.get i).toNat * (b.get i).toNat := by
  rw [(mult512_128_get a b i).1, (mult512_128_get a b i).2]; exact m128_spec _ _

/-- reduce_avx512_128_64 -/
theorem C11_reduce_avx512_128_64 (c_h c_l : V8) (i : Fin 8) :
    ((reduce_avx512_128_64 c_h c_l).get i).toNat % P = ((c_h.get i).toNat * 2^64 + (c_l.get i).toNat) % P :=
  reduce512_128_spec c_h c_l i

/-- mult_avx512: general-purpose product -/
theorem C11_mult_avx512 (a b : V8) (i : Fin 8) :
    ((mult_avx512 a b).get i).toNat % P = ((a.get i).toNat * (b.get i).toNat) % P := mult512_spec a b i

/-- mult_avx512_72: multiplier below 2^32 -/
theorem C11_mult_avx512_72 (a b : V8) (i : Fin 8) (h : (b.get i).toNat < 2^32) :
    ((mult_avx512_72 a b).1.get i).toNat * 2^64 + ((mult_avx512_72 a b).2.get i).toNat =
      (a.get i).toNat * (b.get i).toNat ∧ ((mult_avx512_72 a b).1.get i).toNat < 2^32 := by
  rw [(mult512_72_get a b i).1, (mult512_72_get a b i).2]
  have := m72_spec (a.get i) (b.get i)
  have e : (b.get i).toNat % 4294967296 = (b.get i).toNat := Nat.mod_eq_of_lt h
  rw [e] at this
  exact this

/-- reduce_avx512_96_64 -/
theorem C11_reduce_avx512_96_64 (c_h c_l : V8) (i : Fin 8) (h : (c_h.get i).toNat < 2^32) :
    ((reduce_avx512_96_64 c_h c_l).get i).toNat % P = ((c_h.get i).toNat * 2^64 + (c_l.get i).toNat) % P := by
  have := reduce512_96_spec c_h c_l i
  have e : (c_h.get i).toNat % 4294967296 = (c_h.get i).toNat := Nat.mod_eq_of_lt h
  rw [e] at this
  exact this

/-- mult_avx512_8: documented for multipliers below 2^8 -/
theorem C11_mult_avx512_8 (a b : V8) (i : Fin 8) (h : (b.get i).toNat < 2^8) :
    ((mult_avx512_8 a b).get i).toNat % P = ((a.get i).toNat * (b.get i).toNat) % P :=
  mult512_8_spec a b i (by have : (2:Nat)^8 < 4294967296 := by decide
                           omega)

/-- square_avx512_128 -/
theorem C11_square_avx512_128 (a : V8) (i : Fin 8) :
    ((square_avx512_128 a).1.get i).toNat * 2^64 + ((square_avx512_128 a).2.get i).toNat =
      (a.get i).toNat * (a.get i).toNat := by
  rw [(square512_128_get a i).1, (square512_128_get a i).2]; exact s128_spec _

/-- square_avx512 -/
theorem C11_square_avx512 (a : V8) (i : Fin 8) :
    ((square_avx512 a).get i).toNat % P = ((a.get i).toNat * (a.get i).toNat) % P := square512_spec a i

/-- the general-purpose kernels yield the field element the scalar op yields on the lane's operands -/
theorem C11_agrees_with_scalar (a b : V8) (i : Fin 8) :
    ((add_avx512__wWW a b).get i).toNat % P = C01.rd (Gen.Scalar.add__eEE (a.get i) (b.get i)) ∧
    ((mult_avx512 a b).get i).toNat % P = C01.rd (Gen.Scalar.mul__eEE (a.get i) (b.get i)) ∧
    ((square_avx512 a).get i).toNat % P = C01.rd (Gen.Scalar.square__rE (a.get i)) ∧
    ((toCanonical_avx512 a).get i) = Gen.Scalar.toU64__rE (a.get i) := by
  refine ⟨?_, ?_, ?_, ?_⟩
  · rw [C11_add_avx512, (C01.C01_add _ _).1]
  · rw [C11_mult_avx512, (C01.C01_mul _ _).1]
  · rw [C11_square_avx512, (C01.C01_square _).1]
  · apply BitVec.eq_of_toNat_eq
    rw [C11_toCanonical_avx512]
    exact (C01.rd_eq _).symm

/-- non-vacuity -/
example : ∃ b : V8, ∀ i, (b.get i).toNat < P ∧ 0 < (b.get i).toNat :=
  ⟨V8.splat 0xFFFFFFFF00000000#64, fun i => by simp [P]⟩

end GoldilocksVerif.C11
