/-
  C18 — no out-of-bounds, uninitialised, mismatched-free or undefined behaviour.   LEVEL: PARTIAL BY NATURE.

  Memory safety lives partly in the runtime; what is logic is modelled and proved here, the rest is observed by the
  C18 check (guard-page / redzone / sanitizer campaigns over the shapes of C03–C09, C13, C14, C17) and is NOT a theorem:
  * allocation discipline of `NTT_Goldilocks` for EVERY history of calls on an object (Model/NttAlloc.lean, tied to the
    code by comparing the model's event sequence with the recorded malloc/free/new[]/delete[]/delete calls);
  * extents of the transform's scratch memory: one block of `ceil(ncols / nblock)` columns always fits the documented
    `size * ncols` caller buffer, the blocks tile the columns exactly;
  * the wrappers write only the positions their parameters designate (C17_frame, re-exported), the Merkle buffer has
    exactly `getTreeNumElements` elements (C08_buffer_size), parcpy touches exactly `size` elements (C17_parcpy).
  Not expressible in these models: uninitialised reads, alignment, signed-overflow / shift UB inside the C++ (D12),
  stack VLAs; see DESIGN.md §C18.

  THE GENERATED HEAP MODEL (second half of this file, theorems `C18_generated_*`).  The whole NTT source is translated on
  every run into Gen/NttGen.lean (heap mode: `Heap.alloc` for malloc / new[] / run-time sized stack arrays, `Heap.free`
  for free / delete[] / scope end, `Heap.get/set/copy/zero` for the accesses), so statements about ITS heap are re-checked
  against what the code says now:
  * ALLOCATION BALANCE (Lemmas/HeapSafe.lean, HeapSafeBal.lean, HeapSafeOwn.lean).  `Heap.ext h b` = addressable words of
    block b (0 = NULL / released / never allocated), `Heap.live h b` = `0 < ext`.  For EVERY argument value:
    `NTT`, `INTT`, `NTT_iters`, `reversePermutation` return a heap with the same number of blocks and the same extent of
    every block (`C18_generated_NTT_alloc_balance`, …); the constructor allocates exactly the two tables it stores
    (`…_ctor_allocates_tables`); the destructor releases exactly the blocks the object owns (`…_dtor_frees_owned`);
    `extendPol` changes only the cache blocks, releases the replaced ones (`…_extendPol_alloc_balance`); for every history
    constructor → calls → destructor the live blocks at the end are the live blocks at the start
    (`C18_generated_alloc_balance`).
    NOT expressible there: `free` versus `delete[]` (both are `Heap.free`: the family of a block stays with
    `C18_alloc_discipline` + the recorded allocator calls); a block of zero words is not distinguished from a released
    one; releasing a block that is already dead is a no-op of the model (the balance statements do not see a double
    release — the `FreeOK` conditions of the in-bounds part do).
  * IN-BOUNDS ACCESSES (Lemmas/HeapSafeVC.lean ff.).  `Heap.get` outside a block gives 0 and `Heap.set` outside is dropped,
    which HIDES an overrun.  `derive_safe f` (a command, Lemmas/HeapSafeVC.lean) computes from the generated DEFINITION of
    `f` the proposition `f.Safe args` = "every get / set is inside its block, every memcpy / memset range is inside its
    block and memcpy ranges do not overlap, every free gets NULL or the start of a live block", along all paths, loops
    and callees (Lemmas/HeapSafeDefs.lean: nothing hand-written).  Proved under the documented extents: `reversePermutation`
    (all four branches), one batch of butterflies, `NTT_iters` (any `nphase`), `NTT` and `INTT` (ANY `nblock`, with or
    without caller buffer, in place or not), the destructor, and constructor + `NTT` without any hypothesis about the object
    (`C18_generated_inbounds_*`).  Second round (Lemmas/HeapSafeComputeR / CtorLoops / Size1 / NttAll / Extend / Hist.lean):
    the constructor's own table loops for EVERY argument and heap (`…_inbounds_ctor`: no hypothesis; 1 ≤ s ≤ 32 is an
    invariant of the translated loop that counts `s`), `computeR` (`…_inbounds_computeR`), `parcpy` and size 1 of
    `NTT_iters` / `NTT` / `INTT` (`…_inbounds_parcpy`, `…_NTT_iters_all`, `…_NTT_all`, `…_INTT_all`), `extendPol` in all three
    cache states, with or without caller buffer, in place or not (`…_inbounds_extendPol`, `…_extendPol_state`), and whole
    histories constructor → any documented calls → destructor (`…_inbounds_history`).
    NOT proved: log2 n > 30; direct `NTT` / `INTT` calls with `extend = true` inside a history (the flag is internal to
    `extendPol`); buffers that are distinct ranges of ONE block; pointer arithmetic that leaves a block without an access
    (`&buffer[k]` alone) is not a condition.
-/
import GoldilocksVerif.Lemmas.NttAllocL
import GoldilocksVerif.Props.C17
import GoldilocksVerif.Props.C08
import GoldilocksVerif.Lemmas.HeapSafeOwn
import GoldilocksVerif.Lemmas.HeapSafeCtor
import GoldilocksVerif.Lemmas.HeapSafeDtor
import GoldilocksVerif.Lemmas.HeapSafeHist

namespace GoldilocksVerif.C18
open GoldilocksVerif GoldilocksVerif.NttAlloc

/-- For every constructor argument and every history of NTT / INTT / extendPol calls (any shapes, with or without a
    caller buffer, any block count), construction + the calls + destruction release every block exactly once, with the
    deallocator of the family it was allocated with, and never release anything else. -/
theorem C18_alloc_discipline (maxDomain : Nat) (cs : List Call) : Clean (lifeEv maxDomain cs) := by
  unfold Clean lifeEv
  simp only
  have h0 := run_ctor [] 0 maxDomain
  have ht := ctor_tablesOk 0 maxDomain
  obtain ⟨h1, h2, h3⟩ := run_calls (tablesL (ctor 0 maxDomain).2.2 ++ []) cs ⟨(ctor 0 maxDomain).2.1, (ctor 0 maxDomain).2.2, none⟩ trivial
  refine ⟨(callsEv ⟨(ctor 0 maxDomain).2.1, (ctor 0 maxDomain).2.2, none⟩ cs).2.next, ?_⟩
  rw [List.append_assoc, run_append_some _ _ _ _ h0]
  have h1' : run (tablesL (ctor 0 maxDomain).2.2 ++ [], (ctor 0 maxDomain).2.1)
      (callsEv ⟨(ctor 0 maxDomain).2.1, (ctor 0 maxDomain).2.2, none⟩ cs).1 = _ := h1
  rw [run_append_some _ _ _ _ h1', h3]
  have := run_dtor [] (ctor 0 maxDomain).2.2 (callsEv ⟨(ctor 0 maxDomain).2.1, (ctor 0 maxDomain).2.2, none⟩ cs).2.cache
    (callsEv ⟨(ctor 0 maxDomain).2.1, (ctor 0 maxDomain).2.2, none⟩ cs).2.next h2 ht
  simpa [List.append_assoc] using this

/-- a mismatched release is NOT clean: `delete r` on a `new[]` block (the pinned tree's destructor, D10) -/
example : ¬ Clean [.alloc .newArr 64, .free .scalar 0] := by decide
/-- nor is a leak, nor a double release -/
example : ¬ Clean [.alloc .malloc 64] ∧ ¬ Clean [.alloc .malloc 64, .free .malloc 0, .free .malloc 0] := by decide
/-- a concrete history: an extendPol that builds the cache, one that replaces it, a blocked NTT without buffer -/
example : Clean (lifeEv 16 [.extendPol 32 16 3 2 false, .extendPol 16 8 3 1 true, .ntt 16 5 2 false]) := by decide

/-- scratch extents of `NTT()`: with `nb` the clamped block count, a block holds `ncolsAlloc = ceil(ncols/nb)` columns;
    it never exceeds the caller's `size * ncols` buffer, every block has at most `ncolsAlloc` columns, and the blocks
    tile the `ncols` columns exactly (block `ib` has `ncols / nb + (ib < ncols % nb)` columns) -/
theorem C18_ntt_scratch_extents (size ncols nblock : Nat) (hc : 0 < ncols) :
    let nb := if nblock < 1 then 1 else if nblock > ncols then ncols else nblock
    let ncolsAlloc := ncols / nb + (if ncols % nb > 0 then 1 else 0)
    0 < nb ∧ nb ≤ ncols ∧ size * ncolsAlloc ≤ size * ncols ∧
    (∀ ib, ib < nb → ncols / nb + (if ib < ncols % nb then 1 else 0) ≤ ncolsAlloc) ∧
    nb * (ncols / nb) + ncols % nb = ncols := by
  intro nb ncolsAlloc
  have hnb : 0 < nb ∧ nb ≤ ncols := by
    by_cases h1 : nblock < 1
    · have e : nb = 1 := if_pos h1
      rw [e]; exact ⟨Nat.one_pos, hc⟩
    · by_cases h2 : nblock > ncols
      · have e : nb = ncols := by show (if nblock < 1 then 1 else if nblock > ncols then ncols else nblock) = ncols
                                  rw [if_neg h1, if_pos h2]
        rw [e]; exact ⟨hc, Nat.le_refl _⟩
      · have e : nb = nblock := by show (if nblock < 1 then 1 else if nblock > ncols then ncols else nblock) = nblock
                                   rw [if_neg h1, if_neg h2]
        rw [e]; omega
  have hdm := Nat.div_add_mod ncols nb
  have hml := Nat.mod_lt ncols hnb.1
  have hle : ncolsAlloc ≤ ncols := by
    show ncols / nb + (if ncols % nb > 0 then 1 else 0) ≤ ncols
    have h1 : ncols / nb ≤ ncols := Nat.div_le_self _ _
    split
    · rename_i hpos
      -- remainder > 0 forces nb ≥ 2, hence ncols / nb < ncols
      have : ncols / nb < ncols := by
        apply Nat.div_lt_self hc
        rcases Nat.lt_or_ge 1 nb with h | h
        · exact h
        · have : nb = 1 := by omega
          rw [this, Nat.mod_one] at hpos
          exact absurd hpos (Nat.lt_irrefl 0)
      omega
    · omega
  refine ⟨hnb.1, hnb.2, Nat.mul_le_mul_left _ hle, ?_, hdm⟩
  intro ib _
  show ncols / nb + (if ib < ncols % nb then 1 else 0) ≤ ncols / nb + (if ncols % nb > 0 then 1 else 0)
  split
  · rename_i h; rw [if_pos (by omega)]
    all_goals exact Nat.le_refl _   -- (with more of Mathlib imported `rw` closes `a ≤ a` itself)
  · omega

/-- wrappers: nothing outside the designated output positions is written (C17), parcpy writes exactly [0, size) -/
theorem C18_wrappers_frame (res c : Region) (pos : Nat → Nat) (v : Nat → BitVec 64) (W : Nat)
    (h : res = writeSeq c pos v W) (j : Nat) (hj : ∀ k, k < W → j ≠ pos k) : res j = c j :=
  C17.C17_frame res c pos v W h j hj

theorem C18_parcpy_extent (dst src : Region) (size : Nat) (nt : Int) (j : Nat) (hj : size ≤ j) :
    (ParCopy.parcpy dst src size nt) j = dst j := by
  rw [C17.C17_parcpy_seq, if_neg (by omega)]

/-! ## The GENERATED heap model (Gen/NttGen.lean, re-translated from ntt_goldilocks.cpp/.hpp on every run)

`Heap.ext h b` = number of addressable words of block `b` (0 = NULL / released / never allocated), `Heap.live h b` =
`0 < Heap.ext h b` (Lemmas/HeapSafe.lean).  The statements hold for EVERY value of every argument (pointers, sizes,
column and block counts, fuel) whenever the generated function returns; the only hypothesis is that the heap has its
NULL block (`0 < hp.size`, otherwise `Heap.alloc` would hand out NULL). -/
section generated
open Gen.NttGen GoldilocksVerif.HeapSafe

/-- `NTT` (any `nblock`, with or without caller buffer, forward or inverse): same number of blocks, every block has the
    extent it had — `aux` and the block destination `dst_` are released, the row temporaries of `reversePermutation` are
    released in every iteration, nothing else is released -/
theorem C18_generated_NTT_alloc_balance (fuel : Nat) (hp hp' : Heap) (self : NTT_Goldilocks) (dst src : Ptr)
    (size ncols : BitVec 64) (buffer : Ptr) (nphase nblock : BitVec 64) (inverse extend : Bool) (hs : 0 < hp.size)
    (h : NTT_NTT fuel hp self dst src size ncols buffer nphase nblock inverse extend = some hp') :
    hp'.size = hp.size ∧ ∀ b, hp'.ext b = hp.ext b :=
  NTT_same fuel hp self dst src size ncols buffer nphase nblock inverse extend hs hp' h

theorem C18_generated_INTT_alloc_balance (fuel : Nat) (hp hp' : Heap) (self : NTT_Goldilocks) (dst src : Ptr)
    (size ncols : BitVec 64) (buffer : Ptr) (nphase nblock : BitVec 64) (extend : Bool) (hs : 0 < hp.size)
    (h : NTT_INTT fuel hp self dst src size ncols buffer nphase nblock extend = some hp') :
    hp'.size = hp.size ∧ ∀ b, hp'.ext b = hp.ext b :=
  INTT_same fuel hp self dst src size ncols buffer nphase nblock extend hs hp' h

/-- the pieces: `reversePermutation` (all four branches) and `NTT_iters` -/
theorem C18_generated_reversePermutation_alloc_balance (fuel : Nat) (hp hp' : Heap) (self : NTT_Goldilocks) (dst src : Ptr)
    (size offset_cols ncols ncols_all : BitVec 64) (hs : 0 < hp.size)
    (h : NTT_reversePermutation fuel hp self dst src size offset_cols ncols ncols_all = some hp') :
    hp'.size = hp.size ∧ ∀ b, hp'.ext b = hp.ext b :=
  reversePermutation_same fuel hp self dst src size offset_cols ncols ncols_all hs hp' h

theorem C18_generated_NTT_iters_alloc_balance (fuel : Nat) (hp hp' : Heap) (self : NTT_Goldilocks) (dst src : Ptr)
    (size offset_cols ncols ncols_all nphase : BitVec 64) (aux : Ptr) (inverse extend : Bool) (hs : 0 < hp.size)
    (h : NTT_NTT_iters fuel hp self dst src size offset_cols ncols ncols_all nphase aux inverse extend = some hp') :
    hp'.size = hp.size ∧ ∀ b, hp'.ext b = hp.ext b :=
  NTT_iters_same fuel hp self dst src size offset_cols ncols ncols_all nphase aux inverse extend hs hp' h

/-- the constructor allocates exactly the two tables it stores in the object (none for `maxDomainSize == 0`): they are the
    two new last blocks, every other block keeps its extent, the cache pointers are NULL, `s != 0` (so the destructor will
    release the tables) -/
theorem C18_generated_ctor_allocates_tables (fuel : Nat) (hp hp' : Heap) (self self' : NTT_Goldilocks) (m : BitVec 64)
    (thr : BitVec 32) (e : Int) (h : NTT_ctor fuel hp self m thr e = some (hp', self')) :
    self'.r = Ptr.null ∧ self'.r_ = Ptr.null ∧
    ((m = 0#64 ∧ hp' = hp ∧ self'.s = self.s) ∨
     (m ≠ 0#64 ∧ self'.s ≠ 0#32 ∧ self'.roots = ⟨hp.size, 0⟩ ∧ self'.powTwoInv = ⟨hp.size + 1, 0⟩ ∧ hp'.size = hp.size + 2 ∧
      ∃ n1 n2, ∀ b, hp'.ext b = if b = hp.size then n1 else if b = hp.size + 1 then n2 else hp.ext b)) := by
  have hpost := ctor_shape fuel hp self m thr e (hp', self') h
  rcases hpost with ⟨e0, e1, e2, e3, e4⟩ | ⟨e0, hinv, n1, n2, e1, e2, hsame⟩
  · exact ⟨e3, e4, Or.inl ⟨e0, e1, e2⟩⟩
  · refine ⟨hinv.2.1, hinv.2.2, Or.inr ⟨e0, hinv.1, e1, ?_, ?_, n1, n2, fun b => ?_⟩⟩
    · rw [e2, Heap.alloc_snd, Heap.size_alloc]
    · rw [hsame.1, Heap.size_alloc, Heap.size_alloc]
    · rw [hsame.2 b, Heap.ext_alloc, Heap.ext_alloc, Heap.size_alloc]
      by_cases h1 : b = hp.size
      · rw [if_pos h1, if_neg (by omega), if_pos h1]
      · rw [if_neg h1, if_neg h1]

/-- the destructor releases exactly the blocks the object owns (`roots`, `powTwoInv` when `s != 0`; `r`, `r_` when not NULL) -/
theorem C18_generated_dtor_frees_owned (hp : Heap) (self : NTT_Goldilocks) (hs : 0 < hp.size) (b : Nat) :
    (Owned self b → (NTT_dtor hp self).ext b = 0) ∧ (¬ Owned self b → (NTT_dtor hp self).ext b = hp.ext b) := by
  classical
  have f : Fr (fun b => if Owned self b then 0 else hp.ext b) (Owned self) hp :=
    ⟨hs, fun b hb => if_pos hb, fun b hb => (if_neg hb).symm⟩
  have fd := dtor_own self f (fun b hb => if_pos hb)
  have := Fr.done (fd.iff (fun b => ⟨fun x => x.elim, fun x => x.2 x.1⟩)) b
  exact ⟨fun ho => by rw [this, if_pos ho], fun ho => by rw [this, if_neg ho]⟩

/-- `extendPol` (any arguments, with or without caller buffer, every state of the cache): the local transform object's
    tables and the scratch buffer are allocated and released; of the object only the cache `r`, `r_` may change;
    every block that is neither an old nor a new cache block keeps its extent; an old cache block that is not a new one is
    released; a new cache block that is not an old one was not live before -/
theorem C18_generated_extendPol_alloc_balance (fuel : Nat) (hp hp' : Heap) (self self' : NTT_Goldilocks) (output input : Ptr)
    (N_Extended N ncols : BitVec 64) (buffer : Ptr) (nphase nblock : BitVec 64) (hs : 0 < hp.size)
    (hc : self.r = Ptr.null → self.r_ = Ptr.null)
    (h : NTT_extendPol fuel hp self output input N_Extended N ncols buffer nphase nblock = some (hp', self')) :
    self'.s = self.s ∧ self'.roots = self.roots ∧ self'.powTwoInv = self.powTwoInv ∧ (self'.r = Ptr.null → self'.r_ = Ptr.null) ∧
    (∀ b, ¬ Cache self b → ¬ Cache self' b → hp'.ext b = hp.ext b) ∧
    (∀ b, Cache self b → ¬ Cache self' b → hp'.ext b = 0) ∧
    (∀ b, Cache self' b → ¬ Cache self b → hp.ext b = 0) := by
  classical
  have f : Fr (fun b => if Cache self b then 0 else hp.ext b) (fun b => False ∨ Cache self b) hp :=
    ⟨hs, fun b hb => if_pos (hb.resolve_left id), fun b hb => (if_neg (fun x => hb (Or.inr x))).symm⟩
  obtain ⟨f', hc', e1, e2, e3⟩ := extendPol_own fuel hp self output input N_Extended N ncols buffer nphase nblock f hc (hp', self') h
  refine ⟨e1, e2, e3, hc', fun b h1 h2 => ?_, fun b h1 h2 => ?_, fun b h1 h2 => ?_⟩
  · have := f'.frame b (fun x => h2 (x.resolve_left id))
    rw [this, if_neg h1]
  · have := f'.frame b (fun x => h2 (x.resolve_left id))
    rw [this, if_pos h1]
  · have := f'.dead b (Or.inr h1)
    rw [if_neg h2] at this
    exact this

/-- ALLOCATION BALANCE OF THE GENERATED MODEL.  For every constructor argument and every list of `NTT` / `INTT` /
    `extendPol` calls with any arguments: generated constructor on the default-initialised members, the calls, generated
    destructor — when the history returns, every block of the heap has the extent it had at the start: the set of live
    blocks at the end equals the set at the start (every allocated block was released, nothing else was released) -/
theorem C18_generated_alloc_balance (fuel : Nat) (h0 h' : Heap) (maxDomainSize : BitVec 64) (nThreads : BitVec 32)
    (extension : Int) (cs : List HeapSafe.Call) (hs : 0 < h0.size) (h : life fuel h0 maxDomainSize nThreads extension cs = some h') :
    (∀ b, h'.ext b = h0.ext b) ∧ (∀ b, Heap.live h' b ↔ Heap.live h0 b) := by
  have := life_balance fuel h0 maxDomainSize nThreads extension cs hs h' h
  exact ⟨this, fun b => by unfold Heap.live; rw [this b]⟩

/-! ### in-bounds accesses: the predicates `f.Safe` are derived from the generated definitions (`derive_safe`) -/

/-- `reversePermutation`, all four branches (destination distinct / in place × extension ≤ 1 / > 1): every `memcpy` /
    `memset` range is inside the destination (size rows of ncols words), the source (the first `srcRows` rows of ncols_all
    words: all of them, or size / extension) or the row temporary; source and destination of a `memcpy` do not overlap; the
    temporary is released while live -/
theorem C18_generated_inbounds_reversePermutation (fuel : Nat) (hf : 64 ≤ fuel) (hp : Heap) (self : NTT_Goldilocks)
    (dst src : Ptr) (size offset_cols ncols ncols_all : BitVec 64) (k : Nat) (hs : 0 < hp.size)
    (sh : RPShape hp self dst src size offset_cols ncols ncols_all k) :
    NTT_reversePermutation.Safe fuel hp self dst src size offset_cols ncols ncols_all :=
  reversePermutation_safe fuel hf hp self dst src size offset_cols ncols ncols_all k hs sh

/-- one batch of one pass (the body of the OpenMP batch loop): all butterfly stages of the batch — rows
    `b·2^sInc + …` of `a`, twiddle factors `roots[j << (s − stage)]` — and the copy into the other buffer (transposing, or
    reflecting and scaling with `r_[dsty]` / `powTwoInv[domainPow]`) -/
theorem C18_generated_inbounds_butterfly_batch (st : Heap) (self : NTT_Goldilocks) (a a2 : Ptr)
    (N NC K MBP S sInc nB b : Nat) (inverse extend : Bool) (sh : IShape st self a a2 N NC K extend) (hS1 : 1 ≤ S) (hSK : S ≤ K)
    (hSI : S + sInc ≤ K + 1) (hnB : nB = N / 2 ^ sInc) (hb : b < nB) :
    NTT_NTT_iters_loop9.Safe (BridgeNtt.bv N) (BridgeNtt.bv NC) inverse extend self a a2 (BridgeNtt.bv K) (BridgeNtt.bv MBP)
      (BridgeNtt.bv S) (BridgeNtt.bv sInc) (BridgeNtt.bv (S - 1)) (BridgeNtt.bv (K - 1)) (BridgeNtt.bv (2 ^ (S - 1)))
      (BridgeNtt.bv (2 ^ (K - S) - 1)) (BridgeNtt.bv (2 ^ sInc)) (BridgeNtt.bv nB) b st :=
  passBatch_safe st self a a2 N NC K MBP S sInc nB b inverse extend sh hS1 hSK hSI hnB hb

/-- `NTT_iters` (2 ≤ size = 2^K ≤ 2^30, any `nphase`, forward / inverse / extend): `reversePermutation` into the buffer the
    parity of the phase count selects and every access of every pass of the ping-pong between destination and `aux` -/
theorem C18_generated_inbounds_NTT_iters (fuel : Nat) (hf : 64 ≤ fuel) (hp : Heap) (self : NTT_Goldilocks) (dst src aux : Ptr)
    (N NC K : Nat) (offset_cols ncols_all nphase : BitVec 64) (inverse extend : Bool) (hK1 : 1 ≤ K) (hs : 0 < hp.size)
    (sh : IShape hp self (if (dst != Ptr.null) = true then dst else src) aux N NC K extend)
    (hNC : 0 < NC) (hcols : offset_cols.toNat + NC ≤ ncols_all.toNat) (hbytes : N * ncols_all.toNat * 8 < 2 ^ 64)
    (hsrc : src.off + srcRows self (BridgeNtt.bv N) * ncols_all.toNat ≤ hp.ext src.blk)
    (hd1 : (if (dst != Ptr.null) = true then dst else src) ≠ src →
      (if (dst != Ptr.null) = true then dst else src).blk ≠ src.blk)
    (hd2 : aux.blk ≠ src.blk) :
    NTT_NTT_iters.Safe fuel hp self dst src (BridgeNtt.bv N) offset_cols (BridgeNtt.bv NC) ncols_all nphase aux inverse extend :=
  NTT_iters_safe fuel hf hp self dst src aux N NC K offset_cols ncols_all nphase inverse extend hK1 hs sh hNC hcols hbytes hsrc
    hd1 hd2

/-- **`NTT`** on buffers of the documented extents (`NTTShape`: destination and caller buffer of size·ncols words, source
    of srcRows·ncols words, the constructor's tables), for EVERY `nblock`, with or without caller buffer, in place or
    not: every access of the call tree (scratch allocation, block loop, `NTT_iters`, scatter, the two `free`s) is in bounds -/
theorem C18_generated_inbounds_NTT (fuel : Nat) (hf : 64 ≤ fuel) (hp : Heap) (self : NTT_Goldilocks) (dst src buffer : Ptr)
    (N NC K : Nat) (nphase nblock : BitVec 64) (inverse extend : Bool) (sh : NTTShape hp self dst src buffer N NC K extend) :
    NTT_NTT.Safe fuel hp self dst src (BridgeNtt.bv N) (BridgeNtt.bv NC) buffer nphase nblock inverse extend :=
  NTT_safe fuel hf hp self dst src buffer N NC K nphase nblock inverse extend sh

theorem C18_generated_inbounds_INTT (fuel : Nat) (hf : 64 ≤ fuel) (hp : Heap) (self : NTT_Goldilocks) (dst src buffer : Ptr)
    (N NC K : Nat) (nphase nblock : BitVec 64) (extend : Bool) (sh : NTTShape hp self dst src buffer N NC K extend) :
    NTT_INTT.Safe fuel hp self dst src (BridgeNtt.bv N) (BridgeNtt.bv NC) buffer nphase nblock extend :=
  INTT_safe fuel hf hp self dst src buffer N NC K nphase nblock extend sh

/-- no hypothesis about the object: the generated constructor on any heap, then the generated `NTT` of a size up to
    `maxDomainSize` on caller buffers of the documented extents (`CallerShape`) -/
theorem C18_generated_inbounds_construct_and_transform (fuel : Nat) (hf : 64 ≤ fuel) (hp hp' : Heap) (hpos : 0 < hp.size)
    (self' : NTT_Goldilocks) (maxDomainSize : BitVec 64) (nThreads : BitVec 32) (extension : Nat) (hm0 : maxDomainSize ≠ 0#64)
    (hctor : NTT_ctor fuel hp NTT_Goldilocks.init maxDomainSize nThreads (extension : Int) = some (hp', self'))
    (dst src buffer : Ptr) (N NC K : Nat) (nphase nblock : BitVec 64) (inverse : Bool)
    (hKm : K ≤ Model.Ntt.log2 maxDomainSize.toNat) (sh : CallerShape hp (extension : Int) dst src buffer N NC K) :
    NTT_NTT.Safe fuel hp' self' dst src (BridgeNtt.bv N) (BridgeNtt.bv NC) buffer nphase nblock inverse false :=
  construct_transform_safe fuel hf hp hp' hpos self' maxDomainSize nThreads extension hm0 hctor dst src buffer N NC K nphase
    nblock inverse hKm sh

/-- the destructor of an object that owns distinct live blocks releases only starts of live blocks -/
theorem C18_generated_inbounds_dtor (hp : Heap) (self : NTT_Goldilocks) (h : OwnsLive hp self) : NTT_dtor.Safe hp self :=
  dtor_safe hp self h

instance (h : Heap) (p : Ptr) (i : Nat) : Decidable (Heap.InB h p i) := by unfold Heap.InB; infer_instance

/-- the predicate sees an overrun that the computed values hide: in a block of 4 words, the butterfly of the rows at
    offsets 0 and 2 is in bounds for column 1 and NOT for column 2 (the model's read of `a[2 + 2]` silently gives 0) -/
example : NTT_NTT_iters_loop1.Safe ⟨1, 0⟩ 0#64 2#64 1#64 1 ⟨#[#[], Array.replicate 4 0#64]⟩ ∧
    ¬ NTT_NTT_iters_loop1.Safe ⟨1, 0⟩ 0#64 2#64 1#64 2 ⟨#[#[], Array.replicate 4 0#64]⟩ := by
  unfold NTT_NTT_iters_loop1.Safe
  constructor <;> decide   -- (the whole conjunction is decided: no dependence on the order of the accesses in the source)


/-! ### in-bounds accesses, second round: the constructor itself, `computeR`, size 1, `extendPol`, whole histories -/

/-- **the constructor**: `roots = malloc(nRoots·8)`, `powTwoInv = malloc((s+1)·8)`, the stores `roots[0]`, `powTwoInv[0]`,
    `roots[1]`, `powTwoInv[1]`, the loop `roots[i] = roots[i-1]·roots[1]` (2 ≤ i < nRoots), the read `roots[nRoots-1]` of the
    assert, the loop `powTwoInv[i] = powTwoInv[i-1]·powTwoInv[1]` (2 ≤ i ≤ s; every state the `while` reaches) — for EVERY heap,
    member state, `maxDomainSize`, thread count, extension and fuel.  No hypothesis: that 1 ≤ s ≤ 32 (so `1 << s` does not
    wrap and `powTwoInv` has two words) is proved as an invariant of the translated loop that counts `s` -/
theorem C18_generated_inbounds_ctor (fuel : Nat) (hp : Heap) (self : NTT_Goldilocks) (maxDomainSize : BitVec 64)
    (nThreads : BitVec 32) (extension : Int) : NTT_ctor.Safe fuel hp self maxDomainSize nThreads extension :=
  ctor_safe fuel hp self maxDomainSize nThreads extension

/-- the derived predicate of the table loop is not trivially true: with `roots` a block of 4 words, iteration 3 is in
    bounds and iteration 4 (one past `nRoots`) is not -/
example : NTT_ctor_loop3.Safe { NTT_Goldilocks.init with roots := ⟨1, 0⟩ } 3 ⟨#[#[], Array.replicate 4 0#64]⟩ ∧
    ¬ NTT_ctor_loop3.Safe { NTT_Goldilocks.init with roots := ⟨1, 0⟩ } 4 ⟨#[#[], Array.replicate 4 0#64]⟩ := by
  unfold NTT_ctor_loop3.Safe
  constructor
  · decide
  · intro h
    exact absurd h.2 (by decide)

/-- **`computeR(N)`**, 1 ≤ N < 2^31 (an `int`), on an object whose `powTwoInv` table has the s + 1 words the constructor gave
    it and that was built for a domain of at least N points (log2 N ≤ s): `r = new Element[N]`, `r_ = new Element[N]`,
    `r[0]`, `r_[0] = powTwoInv[log2 N]`, the loop `r[i] = r[i-1]·shift; r_[i] = r[i]·powTwoInv[log2 N]` (1 ≤ i < N) -/
theorem C18_generated_inbounds_computeR (fuel : Nat) (hf : 64 ≤ fuel) (hp : Heap) (self : NTT_Goldilocks) (N : Nat)
    (hN1 : 1 ≤ N) (hN31 : N < 2 ^ 31) (hlog : Model.Ntt.log2 N ≤ self.s.toNat)
    (hpti : self.powTwoInv.off + self.s.toNat + 1 ≤ hp.ext self.powTwoInv.blk) :
    NTT_computeR.Safe fuel hp self (N : Int) :=
  computeR_safe fuel hf hp self N hN1 hN31 hlog hpti

/-- the hypotheses hold on a concrete state: s = 2, `powTwoInv` a block of 3 words, N = 4 -/
example : NTT_computeR.Safe 64 ⟨#[#[], Array.replicate 3 0#64]⟩ { NTT_Goldilocks.init with s := 2#32, powTwoInv := ⟨1, 0⟩ }
    ((4 : Nat) : Int) :=
  C18_generated_inbounds_computeR 64 (by decide) _ _ 4 (by decide) (by decide) (by decide) (by decide)

/-- `Goldilocks::parcpy(dst, src, n, nt)` (called by `NTT_iters` for size 1): two distinct blocks with n words from the
    pointers, any `int` thread count (≤ 0 included): every chunk `memcpy` of every state the `while` loop reaches -/
theorem C18_generated_inbounds_parcpy (fuel : Nat) (hp : Heap) (dst src : Ptr) (n : Nat) (nt : Int) (hn8 : n * 8 < 2 ^ 64)
    (hnt : nt < 2 ^ 63) (hd : dst.off + n ≤ hp.ext dst.blk) (hsr : src.off + n ≤ hp.ext src.blk) (hne : dst.blk ≠ src.blk) :
    parcpy.Safe fuel hp dst src (BridgeNtt.bv n) nt :=
  parcpy_safe fuel hp dst src n nt hn8 hnt hd hsr hne

example : parcpy.Safe 64 ⟨#[#[], Array.replicate 5 0#64, Array.replicate 5 0#64]⟩ ⟨1, 0⟩ ⟨2, 0⟩ (BridgeNtt.bv 5) 2 :=
  C18_generated_inbounds_parcpy 64 _ _ _ 5 2 (by decide) (by decide) (by decide) (by decide) (by decide)

/-- `NTT_iters` for EVERY size 1 ≤ 2^K ≤ 2^30 (size 1: one phase, `reversePermutation` into `aux`, the pass loop is not
    entered, `parcpy(dst_, aux, ncols, nThreads)`) -/
theorem C18_generated_inbounds_NTT_iters_all (fuel : Nat) (hf : 64 ≤ fuel) (hp : Heap) (self : NTT_Goldilocks) (dst src aux : Ptr)
    (N NC K : Nat) (offset_cols ncols_all nphase : BitVec 64) (inverse extend : Bool) (hs : 0 < hp.size)
    (sh : IShape hp self (if (dst != Ptr.null) = true then dst else src) aux N NC K extend)
    (hNC : 0 < NC) (hcols : offset_cols.toNat + NC ≤ ncols_all.toNat) (hbytes : N * ncols_all.toNat * 8 < 2 ^ 64)
    (hsrc : src.off + srcRows self (BridgeNtt.bv N) * ncols_all.toNat ≤ hp.ext src.blk)
    (hd1 : (if (dst != Ptr.null) = true then dst else src) ≠ src →
      (if (dst != Ptr.null) = true then dst else src).blk ≠ src.blk)
    (hd2 : aux.blk ≠ src.blk) :
    NTT_NTT_iters.Safe fuel hp self dst src (BridgeNtt.bv N) offset_cols (BridgeNtt.bv NC) ncols_all nphase aux inverse extend :=
  NTT_iters_safe_all fuel hf hp self dst src aux N NC K offset_cols ncols_all nphase inverse extend hs sh hNC hcols hbytes hsrc
    hd1 hd2

/-- the extents of a size-1 `NTT_iters`: destination and `aux` two blocks of one row of 3 words, s = 1 -/
example : IShape ⟨#[#[], Array.replicate 3 0#64, Array.replicate 3 0#64, Array.replicate 2 0#64, Array.replicate 2 0#64]⟩
    { NTT_Goldilocks.init with s := 1#32, roots := ⟨3, 0⟩, powTwoInv := ⟨4, 0⟩ } ⟨1, 0⟩ ⟨2, 0⟩ 1 3 0 false := by
  constructor <;> decide

/-- **`NTT` / `INTT`, every size 1 ≤ 2^K ≤ 2^30** (`NTTShape0` = `NTTShape` without `1 ≤ K`), every `nblock`, with or without
    caller buffer, in place or not -/
theorem C18_generated_inbounds_NTT_all (fuel : Nat) (hf : 64 ≤ fuel) (hp : Heap) (self : NTT_Goldilocks) (dst src buffer : Ptr)
    (N NC K : Nat) (nphase nblock : BitVec 64) (inverse extend : Bool) (sh : NTTShape0 hp self dst src buffer N NC K extend) :
    NTT_NTT.Safe fuel hp self dst src (BridgeNtt.bv N) (BridgeNtt.bv NC) buffer nphase nblock inverse extend :=
  NTT_safe_all fuel hf hp self dst src buffer N NC K nphase nblock inverse extend sh

theorem C18_generated_inbounds_INTT_all (fuel : Nat) (hf : 64 ≤ fuel) (hp : Heap) (self : NTT_Goldilocks) (dst src buffer : Ptr)
    (N NC K : Nat) (nphase nblock : BitVec 64) (extend : Bool) (sh : NTTShape0 hp self dst src buffer N NC K extend) :
    NTT_INTT.Safe fuel hp self dst src (BridgeNtt.bv N) (BridgeNtt.bv NC) buffer nphase nblock extend :=
  INTT_safe_all fuel hf hp self dst src buffer N NC K nphase nblock extend sh

/-- a size-1 call shape: one row of 3 words transformed in place (`dst == NULL`), no caller buffer, s = 1 -/
example : NTTShape0 ⟨#[#[], Array.replicate 3 0#64, Array.replicate 2 0#64, Array.replicate 2 0#64]⟩
    { NTT_Goldilocks.init with s := 1#32, roots := ⟨2, 0⟩, powTwoInv := ⟨3, 0⟩ } Ptr.null ⟨1, 0⟩ Ptr.null 1 3 0 false := by
  constructor <;> decide

/-- **`extendPol`** on buffers of the documented extents (`EPShape`: `N = 2^dn ≤ N_Extended = 2^de ≤ 2^30`, `output` of
    N_Extended·ncols words, `input` of N·ncols words — the same pointer or another block —, a caller buffer of
    N_Extended·ncols words in a third block, an object built for at least N points, its cache absent or two live blocks
    of its own with `r_` of `r_N` words): the constructor of the local object, the scratch allocation, the cache refresh
    (both `delete[]`s, `computeR`) in all three cache states, `INTT(…, extend = true)` (reads `r_[0 … N)`), the in-place `NTT` of
    the local object (zero fill of the extension), `free(tmp)`, the destructor of the local object — every `nblock` -/
theorem C18_generated_inbounds_extendPol (fuel : Nat) (hf : 64 ≤ fuel) (hp : Heap) (self : NTT_Goldilocks)
    (output input buffer : Ptr) (N N_Extended NC dn de : Nat) (nphase nblock : BitVec 64)
    (sh : EPShape hp self output input buffer N N_Extended NC dn de) :
    NTT_extendPol.Safe fuel hp self output input (BridgeNtt.bv N_Extended) (BridgeNtt.bv N) (BridgeNtt.bv NC) buffer nphase nblock :=
  extendPol_safe fuel hf hp self output input buffer N N_Extended NC dn de nphase nblock sh

/-- the shape holds on a concrete state, cache absent: N = 2, N_Extended = 4, 2 columns, `output` (8 words) and `input`
    (4 words) two blocks, no caller buffer, the object's tables for s = 2 -/
example : EPShape ⟨#[#[], Array.replicate 8 0#64, Array.replicate 4 0#64, Array.replicate 4 0#64, Array.replicate 3 0#64]⟩
    { NTT_Goldilocks.init with s := 2#32, roots := ⟨3, 0⟩, powTwoInv := ⟨4, 0⟩ } ⟨1, 0⟩ ⟨2, 0⟩ Ptr.null 2 4 2 1 2 := by
  refine ⟨by decide, by decide, by decide, by decide, by decide, by decide, by decide, by decide, by decide, by decide, by decide,
    by decide, by decide, by decide, by decide, fun h => absurd rfl h⟩

/-- … and with a cache that is present and valid (`r`, `r_`: blocks 5 and 6 of 2 words, `r_N = 2`), a caller buffer (block 7) -/
example : EPShape ⟨#[#[], Array.replicate 8 0#64, Array.replicate 4 0#64, Array.replicate 4 0#64, Array.replicate 3 0#64,
      Array.replicate 2 0#64, Array.replicate 2 0#64, Array.replicate 8 0#64]⟩
    { NTT_Goldilocks.init with s := 2#32, roots := ⟨3, 0⟩, powTwoInv := ⟨4, 0⟩, r := ⟨5, 0⟩, r_ := ⟨6, 0⟩, r_N := 2#64 }
    ⟨1, 0⟩ ⟨2, 0⟩ ⟨7, 0⟩ 2 4 2 1 2 := by
  refine ⟨by decide, by decide, by decide, by decide, by decide, by decide, by decide, by decide, by decide, by decide, by decide,
    by decide, by decide, by decide, by decide, fun _ => ⟨by decide, by decide, by decide, by decide, by decide, ?_, by decide⟩⟩
  rintro b (rfl | rfl | ⟨_, rfl⟩ | rfl | rfl) <;> decide

/-- **the state `extendPol` leaves** (what makes the next call's hypotheses available): every block that was live and is
    not a block of the old cache keeps its extent (the local object's tables and the scratch buffer are released), the
    object's tables are the same, its cache is present, valid for `N` (`r_N = N`, `r_` of `N` words) and consists of two
    live blocks of its own -/
theorem C18_generated_extendPol_state (fuel : Nat) (hf : 64 ≤ fuel) (hp : Heap) (self : NTT_Goldilocks) (output input buffer : Ptr)
    (N N_Extended NC dn de : Nat) (nphase nblock : BitVec 64) (sh : EPShape hp self output input buffer N N_Extended NC dn de)
    (r : Heap × NTT_Goldilocks)
    (h : NTT_extendPol fuel hp self output input (BridgeNtt.bv N_Extended) (BridgeNtt.bv N) (BridgeNtt.bv NC) buffer nphase nblock
      = some r) :
    (∀ b, EPOld hp self b → r.1.ext b = hp.ext b) ∧
    (r.2.s = self.s ∧ r.2.roots = self.roots ∧ r.2.powTwoInv = self.powTwoInv ∧ r.2.extension = self.extension ∧
      r.2.nThreads = self.nThreads) ∧
    CacheInv r.1 r.2 (EPOld hp self) ∧ r.2.r ≠ Ptr.null ∧ r.2.r_N = BridgeNtt.bv N :=
  extendPol_post fuel hf hp self output input buffer N N_Extended NC dn de nphase nblock sh r h

/-- **IN-BOUNDS ACCESSES OF A WHOLE OBJECT LIFE** (`life.Safe`: the derived predicates along the history, each on the state
    the history has reached).  The generated constructor (`maxDomainSize ≠ 0`) on the default-initialised members in any
    heap that has its NULL block, any list of `NTT` / `INTT` / `extendPol` calls whose arguments satisfy the documented
    preconditions (`CallOK`: power-of-two sizes up to the domain the object was built for and 2^30, the caller's buffers
    are blocks that exist before the construction and have the documented extents — `BufOK`, `EPBuf` —, `extend = false`
    in direct transforms), the generated destructor: every get / set, every `memcpy` / `memset` range, every release of the
    whole history is in bounds — the extents of the tables and of the cache at each call come from the invariant `HS`
    (constructor: `ctor_tables`; `NTT` / `INTT`: allocation balance; `extendPol`: `C18_generated_extendPol_state`) -/
theorem C18_generated_inbounds_history (fuel : Nat) (hf : 64 ≤ fuel) (h0 : Heap) (hpos : 0 < h0.size) (maxDomainSize : BitVec 64)
    (nThreads : BitVec 32) (extension : Nat) (hm0 : maxDomainSize ≠ 0#64) (cs : List HeapSafe.Call)
    (hok : ∀ c, c ∈ cs → CallOK h0 (Model.Ntt.log2 maxDomainSize.toNat) c) :
    life.Safe fuel h0 maxDomainSize nThreads (extension : Int) cs :=
  life_safe fuel hf h0 hpos maxDomainSize nThreads extension hm0 cs hok

/-- a concrete history with documented arguments: an object for 4 points; `extendPol` 2 → 4 (builds the cache), `extendPol`
    1 → 2 in place with the third block as caller buffer (replaces the cache), a size-1 `NTT`, an in-place `INTT` of size 4 -/
example : ∀ c, c ∈ [HeapSafe.Call.extendPol ⟨1, 0⟩ ⟨2, 0⟩ (BridgeNtt.bv 4) (BridgeNtt.bv 2) (BridgeNtt.bv 2) Ptr.null 3#64 1#64,
      HeapSafe.Call.extendPol ⟨1, 0⟩ ⟨1, 0⟩ (BridgeNtt.bv 2) (BridgeNtt.bv 1) (BridgeNtt.bv 2) ⟨3, 0⟩ 0#64 2#64,
      HeapSafe.Call.ntt ⟨1, 0⟩ ⟨2, 0⟩ (BridgeNtt.bv 1) (BridgeNtt.bv 4) Ptr.null 3#64 1#64 false false,
      HeapSafe.Call.intt Ptr.null ⟨1, 0⟩ (BridgeNtt.bv 4) (BridgeNtt.bv 2) ⟨3, 0⟩ 3#64 5#64 false] →
    CallOK ⟨#[#[], Array.replicate 8 0#64, Array.replicate 4 0#64, Array.replicate 8 0#64]⟩
      (Model.Ntt.log2 (4#64 : BitVec 64).toNat) c := by
  intro c hc
  simp only [List.mem_cons, List.not_mem_nil, or_false] at hc
  rcases hc with rfl | rfl | rfl | rfl
  · exact ⟨2, 4, 2, 1, 2, rfl, rfl, rfl, by decide, by constructor <;> decide⟩
  · exact ⟨1, 2, 2, 0, 1, rfl, rfl, rfl, by decide, by constructor <;> decide⟩
  · exact ⟨rfl, 1, 4, 0, rfl, rfl, by decide, by constructor <;> decide⟩
  · exact ⟨rfl, 4, 2, 2, rfl, rfl, by decide, by constructor <;> decide⟩

end generated

end GoldilocksVerif.C18
