/-
  C18 — no out-of-bounds, uninitialised, mismatched-free or undefined behaviour.   LEVEL: PARTIAL BY NATURE.

  Memory safety lives partly in the runtime; what is logic is modelled and proved here, the rest is observed by the
  C18 check (guard-page / redzone / sanitizer campaigns over the shapes of C03–C09, C13, C14, C17) and is NOT a theorem:
  * allocation discipline of `NTT_Goldilocks` for EVERY history of calls on an object (Model/NttAlloc.lean, tied to the
    code by comparing the model's event sequence with the recorded malloc/free/new[]/delete[]/delete calls);
  * extents of the transform's scratch memory: one block of `ceil(ncols / nblock)` columns always fits the documented
    `size * ncols` caller buffer, the blocks tile the columns exactly;
  * the wrappers write only the positions their parameters designate (C17_frame, re-exported), the Merkle buffer has
    exactly `getTreeNumElements` elements (C08_buffer_size), parcpy touches exactly `size` elements (C17_parcpy).
  Not expressible in these models: uninitialised reads, alignment, signed-overflow / shift UB inside the C++ (D12),
  stack VLAs; see DESIGN.md §C18.
-/
import GoldilocksVerif.Lemmas.NttAllocL
import GoldilocksVerif.Props.C17
import GoldilocksVerif.Props.C08

namespace GoldilocksVerif.C18
open GoldilocksVerif GoldilocksVerif.NttAlloc

/-- For every constructor argument and every history of NTT / INTT / extendPol calls (any shapes, with or without a
    caller buffer, any block count), construction + the calls + destruction release every block exactly once, with the
    deallocator of the family it was allocated with, and never release anything else. -/
theorem C18_alloc_discipline (maxDomain : Nat) (cs : List Call) : Clean (lifeEv maxDomain cs) := by
  unfold Clean lifeEv
  simp only
  have h0 := run_ctor [] 0 maxDomain
  have ht := ctor_tablesOk 0 maxDomain
  obtain ⟨h1, h2, h3⟩ := run_calls (tablesL (ctor 0 maxDomain).2.2 ++ []) cs ⟨(ctor 0 maxDomain).2.1, (ctor 0 maxDomain).2.2, none⟩ trivial
  refine ⟨(callsEv ⟨(ctor 0 maxDomain).2.1, (ctor 0 maxDomain).2.2, none⟩ cs).2.next, ?_⟩
  rw [List.append_assoc, run_append_some _ _ _ _ h0]
  have h1' : run (tablesL (ctor 0 maxDomain).2.2 ++ [], (ctor 0 maxDomain).2.1)
      (callsEv ⟨(ctor 0 maxDomain).2.1, (ctor 0 maxDomain).2.2, none⟩ cs).1 = _ := h1
  rw [run_append_some _ _ _ _ h1', h3]
  have := run_dtor [] (ctor 0 maxDomain).2.2 (callsEv ⟨(ctor 0 maxDomain).2.1, (ctor 0 maxDomain).2.2, none⟩ cs).2.cache
    (callsEv ⟨(ctor 0 maxDomain).2.1, (ctor 0 maxDomain).2.2, none⟩ cs).2.next h2 ht
  simpa [List.append_assoc] using this

/-- a mismatched release is NOT clean: `delete r` on a `new[]` block (the pinned tree's destructor, D10) -/
example : ¬ Clean [.alloc .newArr 64, .free .scalar 0] := by decide
/-- nor is a leak, nor a double release -/
example : ¬ Clean [.alloc .malloc 64] ∧ ¬ Clean [.alloc .malloc 64, .free .malloc 0, .free .malloc 0] := by decide
/-- a concrete history: an extendPol that builds the cache, one that replaces it, a blocked NTT without buffer -/
example : Clean (lifeEv 16 [.extendPol 32 16 3 2 false, .extendPol 16 8 3 1 true, .ntt 16 5 2 false]) := by decide

/-- scratch extents of `NTT()`: with `nb` the clamped block count, a block holds `ncolsAlloc = ceil(ncols/nb)` columns;
    it never exceeds the caller's `size * ncols` buffer, every block has at most `ncolsAlloc` columns, and the blocks
    tile the `ncols` columns exactly (block `ib` has `ncols / nb + (ib < ncols % nb)` columns) -/
theorem C18_ntt_scratch_extents (size ncols nblock : Nat) (hc : 0 < ncols) :
    let nb := if nblock < 1 then 1 else if nblock > ncols then ncols else nblock
    let ncolsAlloc := ncols / nb + (if ncols % nb > 0 then 1 else 0)
    0 < nb ∧ nb ≤ ncols ∧ size * ncolsAlloc ≤ size * ncols ∧
    (∀ ib, ib < nb → ncols / nb + (if ib < ncols % nb then 1 else 0) ≤ ncolsAlloc) ∧
    nb * (ncols / nb) + ncols % nb = ncols := by
  intro nb ncolsAlloc
  have hnb : 0 < nb ∧ nb ≤ ncols := by
    by_cases h1 : nblock < 1
    · have e : nb = 1 := if_pos h1
      rw [e]; exact ⟨Nat.one_pos, hc⟩
    · by_cases h2 : nblock > ncols
      · have e : nb = ncols := by show (if nblock < 1 then 1 else if nblock > ncols then ncols else nblock) = ncols
                                  rw [if_neg h1, if_pos h2]
        rw [e]; exact ⟨hc, Nat.le_refl _⟩
      · have e : nb = nblock := by show (if nblock < 1 then 1 else if nblock > ncols then ncols else nblock) = nblock
                                   rw [if_neg h1, if_neg h2]
        rw [e]; omega
  have hdm := Nat.div_add_mod ncols nb
  have hml := Nat.mod_lt ncols hnb.1
  have hle : ncolsAlloc ≤ ncols := by
    show ncols / nb + (if ncols % nb > 0 then 1 else 0) ≤ ncols
    have h1 : ncols / nb ≤ ncols := Nat.div_le_self _ _
    split
    · rename_i hpos
      -- remainder > 0 forces nb ≥ 2, hence ncols / nb < ncols
      have : ncols / nb < ncols := by
        apply Nat.div_lt_self hc
        rcases Nat.lt_or_ge 1 nb with h | h
        · exact h
        · have : nb = 1 := by omega
          rw [this, Nat.mod_one] at hpos
          exact absurd hpos (Nat.lt_irrefl 0)
      omega
    · omega
  refine ⟨hnb.1, hnb.2, Nat.mul_le_mul_left _ hle, ?_, hdm⟩
  intro ib _
  show ncols / nb + (if ib < ncols % nb then 1 else 0) ≤ ncols / nb + (if ncols % nb > 0 then 1 else 0)
  split
  · rename_i h; rw [if_pos (by omega)]
    all_goals exact Nat.le_refl _   -- (with more of Mathlib imported `rw` closes `a ≤ a` itself)
  · omega

/-- wrappers: nothing outside the designated output positions is written (C17), parcpy writes exactly [0, size) -/
theorem C18_wrappers_frame (res c : Region) (pos : Nat → Nat) (v : Nat → BitVec 64) (W : Nat)
    (h : res = writeSeq c pos v W) (j : Nat) (hj : ∀ k, k < W → j ≠ pos k) : res j = c j :=
  C17.C17_frame res c pos v W h j hj

theorem C18_parcpy_extent (dst src : Region) (size : Nat) (nt : Int) (j : Nat) (hj : size ≤ j) :
    (ParCopy.parcpy dst src size nt) j = dst j := by
  rw [C17.C17_parcpy_seq, if_neg (by omega)]

end GoldilocksVerif.C18
