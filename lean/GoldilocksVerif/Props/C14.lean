/-
  C14 — AVX512 dot / sparse / dense matrix kernels equal the product mod p, for both interleaved states.

  About `Gen.Avx512Mat.*` (regenerated from goldilocks_base_field_avx512.hpp, -D__AVX512__).
  `a.lo`, `a.hi` are the two 4-lane halves (= the two interleaved states) of an 8-lane register;
  `dot12` is the 12-term inner product of C13.

  History: on the pinned tree these theorems did NOT hold — spmv_avx512_4x12 and mmult_avx512_4x12(_8) chained
  possibly non-canonical sums through add_avx512_b_c (defect D4, repaired by /repo commit "fix: AVX512 spmv/mmult
  chained non-canonical sums through add_avx512_b_c").  `C14_b_c_chain_is_wrong` keeps the witness: it is a
  theorem about the lane kernel itself and explains why the general adder is required at those call sites.
-/
import GoldilocksVerif.Lemmas.Avx512MatF

namespace GoldilocksVerif.C14
open Gen.Avx512Mat GoldilocksVerif

/-- spmv_avx512_4x12, per interleaved state -/
theorem C14_spmv_avx512_4x12 (a0 a1 a2 : V8) (b : Region) (i : Fin 4) :
    den ((spmv_avx512_4x12 a0 a1 a2 b).lo.get i) =
      den (a0.lo.get i) * den (b i.val) + den (a1.lo.get i) * den (b (4 + i.val)) + den (a2.lo.get i) * den (b (8 + i.val)) ∧
    den ((spmv_avx512_4x12 a0 a1 a2 b).hi.get i) =
      den (a0.hi.get i) * den (b i.val) + den (a1.hi.get i) * den (b (4 + i.val)) + den (a2.hi.get i) * den (b (8 + i.val)) :=
  spmv512_den a0 a1 a2 b i

/-- dot_avx512: c[0], c[1] are the inner products of the two states with b[0..12); nothing else of c is written -/
theorem C14_dot_avx512 (c : Region) (a0 a1 a2 : V8) (b : Region) :
    den ((dot_avx512 c a0 a1 a2 b) 0) = dot12 a0.lo a1.lo a2.lo b 0 ∧
    den ((dot_avx512 c a0 a1 a2 b) 1) = dot12 a0.hi a1.hi a2.hi b 0 ∧
    ∀ k, 2 ≤ k → (dot_avx512 c a0 a1 a2 b) k = c k :=
  dot512_den c a0 a1 a2 b

/-- mmult_avx512_4x12 -/
theorem C14_mmult_avx512_4x12 (a0 a1 a2 : V8) (M : Region) (i : Fin 4) :
    den ((mmult_avx512_4x12 a0 a1 a2 M).lo.get i) = dot12 a0.lo a1.lo a2.lo M (12 * i.val) ∧
    den ((mmult_avx512_4x12 a0 a1 a2 M).hi.get i) = dot12 a0.hi a1.hi a2.hi M (12 * i.val) :=
  mmult512_4x12_den a0 a1 a2 M i

/-- mmult_avx512: the 12x12 matrix-vector product for each of the two states -/
theorem C14_mmult_avx512 (a0 a1 a2 : V8) (M : Region) (i : Fin 4) :
    (den ((mmult_avx512 a0 a1 a2 M).1.lo.get i) = dot12 a0.lo a1.lo a2.lo M (12 * i.val) ∧
     den ((mmult_avx512 a0 a1 a2 M).1.hi.get i) = dot12 a0.hi a1.hi a2.hi M (12 * i.val)) ∧
    (den ((mmult_avx512 a0 a1 a2 M).2.1.lo.get i) = dot12 a0.lo a1.lo a2.lo M (48 + 12 * i.val) ∧
     den ((mmult_avx512 a0 a1 a2 M).2.1.hi.get i) = dot12 a0.hi a1.hi a2.hi M (48 + 12 * i.val)) ∧
    (den ((mmult_avx512 a0 a1 a2 M).2.2.lo.get i) = dot12 a0.lo a1.lo a2.lo M (96 + 12 * i.val) ∧
     den ((mmult_avx512 a0 a1 a2 M).2.2.hi.get i) = dot12 a0.hi a1.hi a2.hi M (96 + 12 * i.val)) :=
  mmult512_den a0 a1 a2 M i

/-- spmv_avx512_4x12_8: coefficients below 2^8 -/
theorem C14_spmv_avx512_4x12_8 (a0 a1 a2 : V8) (b : Region) (i : Fin 4) (hb : ∀ k, k < 12 → (b k).toNat < 2^8) :
    den ((spmv_avx512_4x12_8 a0 a1 a2 b).lo.get i) =
      den (a0.lo.get i) * den (b i.val) + den (a1.lo.get i) * den (b (4 + i.val)) + den (a2.lo.get i) * den (b (8 + i.val)) ∧
    den ((spmv_avx512_4x12_8 a0 a1 a2 b).hi.get i) =
      den (a0.hi.get i) * den (b i.val) + den (a1.hi.get i) * den (b (4 + i.val)) + den (a2.hi.get i) * den (b (8 + i.val)) :=
  spmv512_8_den a0 a1 a2 b i hb

/-- mmult_avx512_4x12_8 -/
theorem C14_mmult_avx512_4x12_8 (a0 a1 a2 : V8) (M : Region) (i : Fin 4) (hb : ∀ k, k < 48 → (M k).toNat < 2^8) :
    den ((mmult_avx512_4x12_8 a0 a1 a2 M).lo.get i) = dot12 a0.lo a1.lo a2.lo M (12 * i.val) ∧
    den ((mmult_avx512_4x12_8 a0 a1 a2 M).hi.get i) = dot12 a0.hi a1.hi a2.hi M (12 * i.val) :=
  mmult512_4x12_8_den a0 a1 a2 M i hb

/-- mmult_avx512_8 -/
theorem C14_mmult_avx512_8 (a0 a1 a2 : V8) (M : Region) (i : Fin 4) (hb : ∀ k, k < 144 → (M k).toNat < 2^8) :
    (den ((mmult_avx512_8 a0 a1 a2 M).1.lo.get i) = dot12 a0.lo a1.lo a2.lo M (12 * i.val) ∧
     den ((mmult_avx512_8 a0 a1 a2 M).1.hi.get i) = dot12 a0.hi a1.hi a2.hi M (12 * i.val)) ∧
    (den ((mmult_avx512_8 a0 a1 a2 M).2.1.lo.get i) = dot12 a0.lo a1.lo a2.lo M (48 + 12 * i.val) ∧
     den ((mmult_avx512_8 a0 a1 a2 M).2.1.hi.get i) = dot12 a0.hi a1.hi a2.hi M (48 + 12 * i.val)) ∧
    (den ((mmult_avx512_8 a0 a1 a2 M).2.2.lo.get i) = dot12 a0.lo a1.lo a2.lo M (96 + 12 * i.val) ∧
     den ((mmult_avx512_8 a0 a1 a2 M).2.2.hi.get i) = dot12 a0.hi a1.hi a2.hi M (96 + 12 * i.val)) :=
  mmult512_8_den a0 a1 a2 M i hb

/-- the defect D4, as a theorem about the lane kernel: adding two lane values 2^64-1 (each a legitimate output of
    mult_avx512, e.g. 0x5555555555555555·3) with add_avx512_b_c gives 2^32-3, not the sum 2^33-4 -/
theorem C14_b_c_chain_is_wrong :
    let x : V8 := V8.splat 0xFFFFFFFFFFFFFFFF#64
    ((Gen.Avx512.add_avx512_b_c x x).get 0).toNat % P = 4294967293 ∧
    ((x.get 0).toNat + (x.get 0).toNat) % P = 8589934588 := by
  intro x
  rw [add512_b_c_get]
  decide

end GoldilocksVerif.C14
