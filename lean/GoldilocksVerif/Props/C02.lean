/-
  C02 — AVX2 lane kernels equal the scalar field op in every lane, every input.

  Statements are about `Gen.Avx2.*`, regenerated on every run from the intrinsics code of
  `/repo/src/goldilocks_base_field_avx.hpp` (tools/tr_cxx.py), over the intrinsic semantics of `Isa/Avx2.lean`.
  `a.get i` is lane i of a 256-bit register; `unsh n = (n + 2^63) mod 2^64` is the value a "shifted"
  representation stands for.  Only property theorems here; helper lemmas are in Lemmas/Avx2Nat.lean, Avx2Mul.lean.
-/
import GoldilocksVerif.Lemmas.Avx2Mul
import GoldilocksVerif.Props.C01

namespace GoldilocksVerif.C02
open Gen.Avx2 GoldilocksVerif

/-- shift_avx adds 2^63 (mod 2^64) in every lane -/
theorem C02_shift_avx (a : V4) (i : Fin 4) : ((shift_avx a).get i).toNat = unsh (a.get i).toNat := by
  rw [shift_get, shift_spec]

/-- toCanonical_avx: canonical representative in every lane, for all inputs -/
theorem C02_toCanonical_avx (a : V4) (i : Fin 4) :
    ((toCanonical_avx a).get i).toNat = (a.get i).toNat % P := by
  rw [toCanonical_get, canon_spec]

/-- toCanonical_avx_s on shifted representations -/
theorem C02_toCanonical_avx_s (a_s : V4) (i : Fin 4) :
    unsh ((toCanonical_avx_s a_s).get i).toNat = unsh (a_s.get i).toNat % P := by
  rw [toCanonical_s_get]; exact (canon_s_spec _).1

/-- add_avx: general-purpose, all 2^64 x 2^64 values per lane -/
theorem C02_add_avx (a b : V4) (i : Fin 4) :
    ((add_avx__vVV a b).get i).toNat % P = ((a.get i).toNat + (b.get i).toNat) % P := by
  rw [add_get, add_spec]

/-- add_avx_a_sc: first operand documented as shifted canonical -/
theorem C02_add_avx_a_sc (a_sc b : V4) (i : Fin 4) (h : unsh (a_sc.get i).toNat < P) :
    ((add_avx_a_sc a_sc b).get i).toNat % P = (unsh (a_sc.get i).toNat + (b.get i).toNat) % P := by
  rw [add_a_sc_get, add_a_sc_spec _ _ h]

/-- add_avx_s_b_small: shifted first operand, second operand ≤ 0xFFFFFFFF00000000, shifted result
    (overflow detected with a 32-bit compare of the high halves) -/
theorem C02_add_avx_s_b_small (a_s b : V4) (i : Fin 4) (h : (b.get i).toNat ≤ 0xFFFFFFFF00000000) :
    unsh ((add_avx_s_b_small a_s b).get i).toNat % P = (unsh (a_s.get i).toNat + (b.get i).toNat) % P := by
  rw [add_s_b_small_get, add_s_b_small_spec _ _ h]

/-- add_avx_b_small: second operand ≤ 0xFFFFFFFF00000000 -/
theorem C02_add_avx_b_small (a b : V4) (i : Fin 4) (h : (b.get i).toNat ≤ 0xFFFFFFFF00000000) :
    ((add_avx_b_small a b).get i).toNat % P = ((a.get i).toNat + (b.get i).toNat) % P := by
  rw [add_b_small_get, add_b_small_spec _ _ h]

/-- sub_avx: general-purpose -/
theorem C02_sub_avx (a b : V4) (i : Fin 4) :
    (((sub_avx__vVV a b).get i).toNat + (b.get i).toNat) % P = (a.get i).toNat % P := by
  rw [sub_get, sub_spec]

/-- sub_avx_s_b_small: shifted minuend, subtrahend ≤ 0xFFFFFFFF00000000, shifted result -/
theorem C02_sub_avx_s_b_small (a_s b : V4) (i : Fin 4) (h : (b.get i).toNat ≤ 0xFFFFFFFF00000000) :
    (unsh ((sub_avx_s_b_small a_s b).get i).toNat + (b.get i).toNat) % P = unsh (a_s.get i).toNat % P := by
  rw [sub_s_b_small_get, sub_s_b_small_spec _ _ h]

/-- mult_avx_128: the exact 128-bit product in (c_h, c_l) -/
theorem C02_mult_avx_128 (a b : V4) (i : Fin 4) :
    ((mult_avx_128 a b).1.get i).toNat * 2^64 + ((mult_avx_128 a b).2.get i).toNat =
      (a.get i).toNat * (b.get i).toNat := by
  rw [(mult128_get a b i).1, (mult128_get a b i).2]; exact mul128_spec _ _

/-- reduce_avx_128_64: any 128-bit value (c_h, c_l) reduced mod p -/
theorem C02_reduce_avx_128_64 (c_h c_l : V4) (i : Fin 4) :
    ((reduce_avx_128_64 c_h c_l).get i).toNat % P = ((c_h.get i).toNat * 2^64 + (c_l.get i).toNat) % P := by
  rw [reduce128_get]; exact reduce128_spec _ _

/-- mult_avx: general-purpose product -/
theorem C02_mult_avx (a b : V4) (i : Fin 4) :
    ((mult_avx a b).get i).toNat % P = ((a.get i).toNat * (b.get i).toNat) % P := mult_spec a b i

/-- mult_avx_72: exact product with a multiplier below 2^32 (c_h below 2^32) -/
theorem C02_mult_avx_72 (a b : V4) (i : Fin 4) (h : (b.get i).toNat < 2^32) :
    ((mult_avx_72 a b).1.get i).toNat * 2^64 + ((mult_avx_72 a b).2.get i).toNat =
      (a.get i).toNat * (b.get i).toNat ∧ ((mult_avx_72 a b).1.get i).toNat < 2^32 := by
  rw [(mult72_get a b i).1, (mult72_get a b i).2]
  have := mul72_spec (a.get i) (b.get i)
  have e : (b.get i).toNat % 4294967296 = (b.get i).toNat := Nat.mod_eq_of_lt h
  rw [e] at this
  exact this

/-- reduce_avx_96_64: a 96-bit value (c_h below 2^32) reduced mod p -/
theorem C02_reduce_avx_96_64 (c_h c_l : V4) (i : Fin 4) (h : (c_h.get i).toNat < 2^32) :
    ((reduce_avx_96_64 c_h c_l).get i).toNat % P = ((c_h.get i).toNat * 2^64 + (c_l.get i).toNat) % P := by
  have := reduce96_spec c_h c_l i
  have e : (c_h.get i).toNat % 4294967296 = (c_h.get i).toNat := Nat.mod_eq_of_lt h
  rw [e] at this
  exact this

/-- mult_avx_8: documented for multipliers below 2^8; proved for every multiplier below 2^32 -/
theorem C02_mult_avx_8 (a b : V4) (i : Fin 4) (h : (b.get i).toNat < 2^8) :
    ((mult_avx_8 a b).get i).toNat % P = ((a.get i).toNat * (b.get i).toNat) % P :=
  mult8_spec a b i (by have : (2:Nat)^8 < 4294967296 := by decide
                       omega)

/-- square_avx_128: exact 128-bit square -/
theorem C02_square_avx_128 (a : V4) (i : Fin 4) :
    ((square_avx_128 a).1.get i).toNat * 2^64 + ((square_avx_128 a).2.get i).toNat =
      (a.get i).toNat * (a.get i).toNat := by
  rw [(square128_get a i).1, (square128_get a i).2]; exact sq128_spec _

/-- square_avx -/
theorem C02_square_avx (a : V4) (i : Fin 4) :
    ((square_avx a).get i).toNat % P = ((a.get i).toNat * (a.get i).toNat) % P := square_spec a i

/-- every general-purpose lane kernel yields the field element the scalar operation yields on that lane -/
theorem C02_agrees_with_scalar (a b : V4) (i : Fin 4) :
    ((add_avx__vVV a b).get i).toNat % P = C01.rd (Gen.Scalar.add__eEE (a.get i) (b.get i)) ∧
    ((sub_avx__vVV a b).get i).toNat % P = C01.rd (Gen.Scalar.sub__eEE (a.get i) (b.get i)) ∧
    ((mult_avx a b).get i).toNat % P = C01.rd (Gen.Scalar.mul__eEE (a.get i) (b.get i)) ∧
    ((square_avx a).get i).toNat % P = C01.rd (Gen.Scalar.square__rE (a.get i)) ∧
    ((toCanonical_avx a).get i) = Gen.Scalar.toU64__rE (a.get i) := by
  refine ⟨?_, ?_, ?_, ?_, ?_⟩
  · rw [C02_add_avx, (C01.C01_add _ _).1]
  · have h1 := C02_sub_avx a b i
    have h2 := (C01.C01_sub (a.get i) (b.get i)).1
    rw [C01.rd_eq] at h2 ⊢
    rw [Nat.mod_add_mod] at h2
    generalize ((sub_avx__vVV a b).get i).toNat = r1 at *
    generalize (Gen.Scalar.sub__eEE (a.get i) (b.get i)).toNat = r2 at *
    have c1 := mod_eq_cert _ _ (h1.trans h2.symm)
    apply mod_cert r1 r2 ((r2 + (b.get i).toNat) / P) ((r1 + (b.get i).toNat) / P)
    omega
  · rw [C02_mult_avx, (C01.C01_mul _ _).1]
  · rw [C02_square_avx, (C01.C01_square _).1]
  · apply BitVec.eq_of_toNat_eq
    rw [C02_toCanonical_avx]
    exact (C01.rd_eq _).symm

/-- non-vacuity of the operand assumptions -/
example : ∃ b : V4, ∀ i, (b.get i).toNat ≤ 0xFFFFFFFF00000000 ∧ 0 < (b.get i).toNat :=
  ⟨V4.splat 0xFFFFFFFF00000000#64, fun i => by simp⟩
example : ∃ a : V4, ∀ i, unsh (a.get i).toNat < P ∧ (a.get i) ≠ 0 :=
  ⟨V4.splat 0x8000000000000005#64, fun i => by simp [unsh, P]⟩

end GoldilocksVerif.C02
