/-
  C01 — Scalar field ops are exact mod p on every 64-bit representation.

  All statements are about `Gen.Scalar.*`, the definitions regenerated on every run from the
  inline-asm blocks and C++ wrappers of `/repo/src/goldilocks_base_field_scalar.hpp`.
  `toU64__rE` is the library's own read-back (`Goldilocks::toU64`), also generated.
  Only property theorems live here; helper lemmas are in `Lemmas/ScalarNat.lean`.
-/
import GoldilocksVerif.Lemmas.ScalarNat

namespace GoldilocksVerif.C01
open Gen.Scalar GoldilocksVerif

/-- the value read back from a result with the library's `toU64` -/
abbrev rd (x : BitVec 64) : Nat := (toU64__rE x).toNat

theorem rd_eq (x : BitVec 64) : rd x = x.toNat % P := by
  show (toU64__rE x).toNat = _
  unfold toU64__rE; exact toU64_toNat x

/-- the read-back value is canonical -/
theorem C01_readback_canonical (x : BitVec 64) : rd x < P := by
  rw [rd_eq]; exact Nat.mod_lt _ (by decide)

/-- add: exact for every pair of 64-bit representations (both overloads) -/
theorem C01_add (a b : BitVec 64) :
    rd (add__eEE a b) = (a.toNat + b.toNat) % P ∧ rd (add__rEE a b) = (a.toNat + b.toNat) % P := by
  have h : add__rEE a b = add__eEE a b := rfl
  rw [h, rd_eq, add_mod]; exact ⟨rfl, rfl⟩

/-- sub: the result plus the subtrahend is the minuend, mod p; equivalently a + (p - b mod p) -/
theorem C01_sub (a b : BitVec 64) :
    (rd (sub__eEE a b) + b.toNat) % P = a.toNat % P ∧
    rd (sub__eEE a b) = (a.toNat % P + (P - b.toNat % P)) % P ∧
    sub__rEE a b = sub__eEE a b := by
  have h := sub_mod a b
  have hr := rd_eq (sub__eEE a b)
  refine ⟨?_, ?_, rfl⟩
  · rw [hr, Nat.mod_add_mod]; exact h
  · rw [hr]
    generalize (sub__eEE a b).toNat = r at h
    have hb : b.toNat % P < P := Nat.mod_lt _ (by decide)
    have h1 : (r + b.toNat % P) % P = a.toNat % P := by rw [Nat.add_mod_mod]; exact h
    generalize b.toNat % P = bm at *
    -- r ≡ a - bm
    rw [← h1, Nat.mod_add_mod]
    have : r + bm + (P - bm) = r + P := by omega
    rw [this, Nat.add_mod_right]

/-- mul -/
theorem C01_mul (a b : BitVec 64) :
    rd (mul__eEE a b) = (a.toNat * b.toNat) % P ∧ mul__rEE a b = mul__eEE a b := by
  rw [rd_eq, mul_mod]; exact ⟨rfl, rfl⟩

/-- square = mul a a -/
theorem C01_square (a : BitVec 64) :
    rd (square__rE a) = (a.toNat * a.toNat) % P ∧ square__eE a = square__rE a := by
  have h : square__rE a = mul__eEE a a := rfl
  rw [h]; exact ⟨(C01_mul a a).1, rfl⟩

/-- neg -/
theorem C01_neg (a : BitVec 64) :
    rd (neg__rE a) = (P - a.toNat % P) % P ∧ neg__eE a = neg__rE a := by
  have h : neg__rE a = sub__eEE 0#64 a := rfl
  rw [h]
  refine ⟨?_, rfl⟩
  have := (C01_sub 0#64 a).2.1
  rw [this]; simp

/-- mulScalar: multiplication by a raw 64-bit scalar -/
theorem C01_mulScalar (a s : BitVec 64) :
    rd (mulScalar__eEE a s) = (a.toNat * s.toNat) % P ∧ mulScalar__rEE a s = mulScalar__eEE a s := by
  have h : mulScalar__eEE a s = mul__eEE a s := rfl
  rw [h]; exact ⟨(C01_mul a s).1, rfl⟩

/-- inc -/
theorem C01_inc (a : BitVec 64) : rd (inc a) = (a.toNat + 1) % P := by
  rw [rd_eq]; exact inc_mod a

/-- dec -/
theorem C01_dec (a : BitVec 64) : rd (dec a) = (a.toNat % P + (P - 1)) % P := by
  rw [rd_eq]; exact dec_mod a

/-- results depend only on the residue classes of the operands -/
theorem C01_residue_independent (a a' b b' : BitVec 64)
    (ha : a.toNat % P = a'.toNat % P) (hb : b.toNat % P = b'.toNat % P) :
    rd (add__eEE a b) = rd (add__eEE a' b') ∧
    rd (sub__eEE a b) = rd (sub__eEE a' b') ∧
    rd (mul__eEE a b) = rd (mul__eEE a' b') ∧
    rd (square__rE a) = rd (square__rE a') ∧
    rd (neg__rE a) = rd (neg__rE a') ∧
    rd (inc a) = rd (inc a') ∧
    rd (dec a) = rd (dec a') ∧
    rd (mulScalar__eEE a b) = rd (mulScalar__eEE a' b') := by
  refine ⟨?_, ?_, ?_, ?_, ?_, ?_, ?_, ?_⟩
  · rw [(C01_add a b).1, (C01_add a' b').1, Nat.add_mod, ha, hb, ← Nat.add_mod]
  · rw [(C01_sub a b).2.1, (C01_sub a' b').2.1, ha, hb]
  · rw [(C01_mul a b).1, (C01_mul a' b').1, Nat.mul_mod, ha, hb, ← Nat.mul_mod]
  · rw [(C01_square a).1, (C01_square a').1, Nat.mul_mod, ha, ← Nat.mul_mod]
  · rw [(C01_neg a).1, (C01_neg a').1, ha]
  · rw [C01_inc, C01_inc, Nat.add_mod, ha, ← Nat.add_mod]
  · rw [C01_dec, C01_dec, ha]
  · rw [(C01_mulScalar a b).1, (C01_mulScalar a' b').1, Nat.mul_mod, ha, hb, ← Nat.mul_mod]

/-- non-vacuity: the hypotheses of `C01_residue_independent` are met by distinct representations -/
example : (0#64).toNat % P = (18446744069414584321#64).toNat % P ∧ (0#64) ≠ 18446744069414584321#64 := by
  refine ⟨by simp [P], by simp⟩

end GoldilocksVerif.C01
