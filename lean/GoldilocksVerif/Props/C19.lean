/-
  C19 — "For every sequence of forward, inverse and extension calls with differing sizes, column counts and phase/block
  settings issued on one transform object (each size within its maximum domain), every call returns exactly what a freshly
  constructed object returns for the same arguments. Earlier calls never change later results."

  Statement about the hand model `Model/Ntt.lean` (tied to the code by the correspondence campaign of `./check C19`):
  `runCalls o cs` threads ONE object through the history `cs`; `Call.run o c` is call `c` on the object `o`.
  The theorems hold for EVERY history, every argument (also out-of-range ones: aborts are results too).
-/
import GoldilocksVerif.Lemmas.NttObj

namespace GoldilocksVerif.C19
open GoldilocksVerif.Model.Ntt

/-- a freshly constructed object has no shift-power cache -/
theorem C19_constructed_without_cache (maxDomainSize extension : Nat) (o : Obj)
    (h : mkObj maxDomainSize extension = some o) : o.rcache = none :=
  mkObj_fresh _ _ o h

/-- C19: on a freshly constructed object, the k-th result of ANY history of NTT / INTT / extendPol calls is exactly the
    result of the same call issued on the fresh object. -/
theorem C19_history_eq_fresh (maxDomainSize extension : Nat) (o : Obj) (h : mkObj maxDomainSize extension = some o)
    (cs : List Call) : runCalls o cs = cs.map (fun c => (c.run o).2) := by
  have hf := mkObj_fresh _ _ o h
  have := runCalls_base cs o (wf_of_fresh o hf)
  rw [base_of_fresh o hf] at this
  exact this

/-- the same from any reachable object state (any prefix history already executed): later results are those of the fresh
    object `o.base` (= `o` with the cache dropped) -/
theorem C19_history_after_prefix (maxDomainSize extension : Nat) (o : Obj) (h : mkObj maxDomainSize extension = some o)
    (pre cs : List Call) : (runCalls o (pre ++ cs)).drop pre.length = cs.map (fun c => (c.run o).2) := by
  rw [C19_history_eq_fresh _ _ o h]
  simp

/-- NTT and INTT never modify the object -/
theorem C19_ntt_intt_leave_object (o : Obj) (mode : DstMode) (dstB srcB : Buf) (size ncols nphase nblock : Nat) :
    ((Call.ntt mode dstB srcB size ncols nphase nblock).run o).1 = o ∧
    ((Call.intt mode dstB srcB size ncols nphase nblock).run o).1 = o := ⟨rfl, rfl⟩

/-- the only state a call can change is the cache, and the cache keeps its invariant -/
theorem C19_only_cache_changes (o : Obj) (h : o.wf) (c : Call) : (c.run o).1.base = o.base ∧ (c.run o).1.wf :=
  ⟨(Call.run_base o h c).2.2, (Call.run_base o h c).2.1⟩

/-- NTT / INTT results do not depend on the cache content at all -/
theorem C19_ntt_ignores_cache (o : Obj) (cache : Option (Nat × Array W × Array W)) (mode : DstMode) (dstB srcB : Buf)
    (size ncols nphase nblock : Nat) (inverse : Bool) :
    ntt (setCache o cache) mode dstB srcB size ncols nphase nblock inverse false
      = ntt o mode dstB srcB size ncols nphase nblock inverse false :=
  ntt_setCache o cache mode dstB srcB size ncols nphase nblock inverse

/-- extendPol returns the same buffer (and leaves the same object) whatever cache an earlier extendPol call left -/
theorem C19_extendPol_ignores_cache (o : Obj) (h : o.wf) (same : Bool) (outB inB : Buf) (nExt n ncols nphase nblock : Nat) :
    extendPol o same outB inB nExt n ncols nphase nblock = extendPol o.base same outB inB nExt n ncols nphase nblock :=
  extendPol_base o h same outB inB nExt n ncols nphase nblock

/-- non-vacuity: objects exist, extendPol does change the cache, and a second extendPol with another N replaces it -/
example : (mkObj 8 1).isSome = true := by decide +kernel
example : ∃ o, mkObj 8 1 = some o ∧
    (((Call.extendPol false (Array.replicate 4 0#64) #[1#64, 2#64] 4 2 1 3 1).run o).1.rcache.map (·.1)) = some 2 ∧
    (((Call.extendPol false (Array.replicate 8 0#64) #[1#64, 2#64, 3#64, 4#64] 8 4 1 3 1).run
        ((Call.extendPol false (Array.replicate 4 0#64) #[1#64, 2#64] 4 2 1 3 1).run o).1).1.rcache.map (·.1)) = some 4 := by
  refine ⟨(mkObj 8 1).get (by decide +kernel), by simp, ?_, ?_⟩ <;> decide +kernel

end GoldilocksVerif.C19
