/-
  C19 — "For every sequence of forward, inverse and extension calls with differing sizes, column counts and phase/block
  settings issued on one transform object (each size within its maximum domain), every call returns exactly what a freshly
  constructed object returns for the same arguments. Earlier calls never change later results."

  Statement about the hand model `Model/Ntt.lean` (tied to the code by the correspondence campaign of `./check C19`):
  `runCalls o cs` threads ONE object through the history `cs`; `Call.run o c` is call `c` on the object `o`.
  The theorems hold for EVERY history, every argument (also out-of-range ones: aborts are results too).
-/
import GoldilocksVerif.Lemmas.NttObj
import GoldilocksVerif.Lemmas.BridgeNttExtend
import GoldilocksVerif.Lemmas.BridgeNttHist
import GoldilocksVerif.Lemmas.BridgeNttHistBuf
import GoldilocksVerif.Lemmas.BridgeNttDtor

namespace GoldilocksVerif.C19
open GoldilocksVerif.Model.Ntt

/-- a freshly constructed object has no shift-power cache -/
theorem C19_constructed_without_cache (maxDomainSize extension : Nat) (o : Obj)
    (h : mkObj maxDomainSize extension = some o) : o.rcache = none :=
  mkObj_fresh _ _ o h

/-- C19: on a freshly constructed object, the k-th result of ANY history of NTT / INTT / extendPol calls is exactly the
    result of the same call issued on the fresh object. -/
theorem C19_history_eq_fresh (maxDomainSize extension : Nat) (o : Obj) (h : mkObj maxDomainSize extension = some o)
    (cs : List Call) : runCalls o cs = cs.map (fun c => (c.run o).2) := by
  have hf := mkObj_fresh _ _ o h
  have := runCalls_base cs o (wf_of_fresh o hf)
  rw [base_of_fresh o hf] at this
  exact this

/-- the same from any reachable object state (any prefix history already executed): later results are those of the fresh
    object `o.base` (= `o` with the cache dropped) -/
theorem C19_history_after_prefix (maxDomainSize extension : Nat) (o : Obj) (h : mkObj maxDomainSize extension = some o)
    (pre cs : List Call) : (runCalls o (pre ++ cs)).drop pre.length = cs.map (fun c => (c.run o).2) := by
  rw [C19_history_eq_fresh _ _ o h]
  simp

/-- NTT and INTT never modify the object -/
theorem C19_ntt_intt_leave_object (o : Obj) (mode : DstMode) (dstB srcB : Buf) (size ncols nphase nblock : Nat) :
    ((Call.ntt mode dstB srcB size ncols nphase nblock).run o).1 = o ∧
    ((Call.intt mode dstB srcB size ncols nphase nblock).run o).1 = o := ⟨rfl, rfl⟩

/-- the only state a call can change is the cache, and the cache keeps its invariant -/
theorem C19_only_cache_changes (o : Obj) (h : o.wf) (c : Call) : (c.run o).1.base = o.base ∧ (c.run o).1.wf :=
  ⟨(Call.run_base o h c).2.2, (Call.run_base o h c).2.1⟩

/-- NTT / INTT results do not depend on the cache content at all -/
theorem C19_ntt_ignores_cache (o : Obj) (cache : Option (Nat × Array W × Array W)) (mode : DstMode) (dstB srcB : Buf)
    (size ncols nphase nblock : Nat) (inverse : Bool) :
    ntt (setCache o cache) mode dstB srcB size ncols nphase nblock inverse false
      = ntt o mode dstB srcB size ncols nphase nblock inverse false :=
  ntt_setCache o cache mode dstB srcB size ncols nphase nblock inverse

/-- extendPol returns the same buffer (and leaves the same object) whatever cache an earlier extendPol call left -/
theorem C19_extendPol_ignores_cache (o : Obj) (h : o.wf) (same : Bool) (outB inB : Buf) (nExt n ncols nphase nblock : Nat) :
    extendPol o same outB inB nExt n ncols nphase nblock = extendPol o.base same outB inB nExt n ncols nphase nblock :=
  extendPol_base o h same outB inB nExt n ncols nphase nblock

/-- non-vacuity: objects exist, extendPol does change the cache, and a second extendPol with another N replaces it -/
example : (mkObj 8 1).isSome = true := by decide +kernel
example : ∃ o, mkObj 8 1 = some o ∧
    (((Call.extendPol false (Array.replicate 4 0#64) #[1#64, 2#64] 4 2 1 3 1).run o).1.rcache.map (·.1)) = some 2 ∧
    (((Call.extendPol false (Array.replicate 8 0#64) #[1#64, 2#64, 3#64, 4#64] 8 4 1 3 1).run
        ((Call.extendPol false (Array.replicate 4 0#64) #[1#64, 2#64] 4 2 1 3 1).run o).1).1.rcache.map (·.1)) = some 4 := by
  refine ⟨(mkObj 8 1).get (by decide +kernel), by simp, ?_, ?_⟩ <;> decide +kernel

/-! ### the model GENERATED from ntt_goldilocks.cpp / .hpp (see Props/C03.lean, DESIGN.NTTGEN.md) -/
section generated
open GoldilocksVerif.BridgeNtt Gen.NttGen GoldilocksVerif.NttSpec

/-- object reuse on the generated functions: two states of one object that differ only in the cache an earlier `extendPol`
    left behind (absent, built for this N, built for another N — each on its own heap, the input and output blocks holding the
    same data) make the TRANSLATED `extendPol` deliver the same output block, field element for field element.  The
    translated code frees and rebuilds a stale table (`r_N != N`), reuses a valid one, builds a missing one. -/
theorem C19_generated_extendPol_ignores_cache (maxDomainSize extension : Nat) (o1 o2 : Obj)
    (hb1 : mkObj maxDomainSize extension = some o1.base) (hb2 : o2.base = o1.base) (hwf1 : o1.wf) (hwf2 : o2.wf)
    (hext : extension ≤ 1) (dn de : Nat) (hdn1 : 1 ≤ dn) (hn : 2 ^ dn ≤ maxDomainSize) (hne : dn ≤ de) (hde : de ≤ 30)
    (fuel : Nat) (hf : 64 ≤ fuel)
    (hp1 hp2 : Heap) (s1 s2 : NTT_Goldilocks) (hr1 : ObjRep hp1 s1 o1) (hr2 : ObjRep hp2 s2 o2)
    (hi1 : ObjIn hp1 s1) (hi2 : ObjIn hp2 s2) (hd1 : ObjDisj s1) (hd2 : ObjDisj s2)
    (Out In : Nat) (hO1 : Out < hp1.size) (hO2 : Out < hp2.size) (hI1 : In < hp1.size) (hI2 : In < hp2.size) (hOut0 : Out ≠ 0)
    (hfO1 : ObjFrame s1 Out) (hfO2 : ObjFrame s2 Out) (hfI1 : ObjFrame s1 In) (hfI2 : ObjFrame s2 In)
    (hsameIn : hp1.block In = hp2.block In)
    (ncols : Nat) (nphase nblock : BitVec 64) (hnc : 1 ≤ ncols) (hbound : 2 ^ de * ncols * 8 < 2 ^ 64)
    (hnb : clampBlock nblock.toNat ncols = 1)
    (ho1 : 2 ^ de * ncols ≤ (hp1.block Out).size) (ho2 : 2 ^ de * ncols ≤ (hp2.block Out).size) :
    ∃ h1 t1 h2 t2,
      NTT_extendPol fuel hp1 s1 ⟨Out, 0⟩ ⟨In, 0⟩ (bv (2 ^ de)) (bv (2 ^ dn)) (bv ncols) Ptr.null nphase nblock = some (h1, t1) ∧
      NTT_extendPol fuel hp2 s2 ⟨Out, 0⟩ ⟨In, 0⟩ (bv (2 ^ de)) (bv (2 ^ dn)) (bv ncols) Ptr.null nphase nblock = some (h2, t2) ∧
      ∀ k c, k < 2 ^ de → c < ncols →
        den ((h1.block Out).getD (k * ncols + c) 0#64) = den ((h2.block Out).getD (k * ncols + c) 0#64) := by
  have hm : maxDomainSize ≠ 0 := by have := Nat.two_pow_pos dn; omega
  have hO0 := mkObj_ok maxDomainSize extension o1.base hm hext hb1
  have e1 : setCache o1.base o1.rcache = o1 := by cases o1; rfl
  have e2 : setCache o1.base o2.rcache = o2 := by rw [← hb2]; cases o2; rfl
  have hOk1 : ObjOk o1 (log2 maxDomainSize) := by
    have := hO0.setCache o1.rcache (by rw [e1]; exact hwf1); rw [e1] at this; exact this
  have hOk2 : ObjOk o2 (log2 maxDomainSize) := by
    have := hO0.setCache o2.rcache (by rw [e2]; exact hwf2); rw [e2] at this; exact this
  obtain ⟨hs1, hs2, _⟩ := BridgeNtt.mkObj_s_val maxDomainSize extension o1.base hm hb1
  have hsb1 : o1.base.s = o1.s := rfl
  have hsb2 : o2.s = o1.base.s := by rw [← hb2]; rfl
  have hd : dn ≤ log2 maxDomainSize := (Nat.le_log2 hm).mpr hn
  obtain ⟨h1, t1, out1, g1, b1, _, _, c1⟩ := extendPol_gen fuel hf hp1 s1 o1 _ hr1 hi1 hd1 hOk1 (by rw [← hsb1]; exact hs2) Out In
    hO1 hI1 hOut0 hfO1 hfI1 dn de ncols hdn1 hne hde hd (by rw [← hsb1]; omega) hnc hbound nphase nblock hnb ho1
  obtain ⟨h2, t2, out2, g2, b2, _, _, c2⟩ := extendPol_gen fuel hf hp2 s2 o2 _ hr2 hi2 hd2 hOk2 (by rw [hsb2]; exact hs2) Out In
    hO2 hI2 hOut0 hfO2 hfI2 dn de ncols hdn1 hne hde hd (by rw [hsb2]; omega) hnc hbound nphase nblock hnb ho2
  refine ⟨h1, t1, h2, t2, g1, g2, ?_⟩
  intro k c hk hc
  have a1 := c1 k c hk hc
  have a2 := c2 k c hk hc
  rw [← hsameIn] at a2
  rw [b1, b2]
  exact a1.trans a2.symm

end generated

/-! ### HISTORIES on the generated model (Lemmas/BridgeNttHist.lean)
  `GCall` is one call of the TRANSLATED `NTT` / `INTT` / `extendPol` (block numbers of the caller's buffers, log2 of the sizes,
  column count, phase / block settings; no caller scratch buffer), `GCall.run fuel (hp, self)` runs it on the heap and the object
  state, `runG` threads a list of calls, `GCall.toCall hp` is the hand model's `Call` with the same arguments and the CURRENT
  contents of the blocks as buffers.  `GInv o0 n0 U sz (hp, self)` — "(hp, self) represents a hand-model object whose tables are
  those of the constructed object `o0` and whose cache is absent or valid; the object's blocks exist and are distinct; the caller's
  blocks `U` (below the original heap size `n0`, not the NULL block) are not the object's and have the sizes `sz`".
  `GCall.ok`: the shapes covered (sizes within the object's domain and ≤ 2^30, ≥ 1 column, destination large enough, every
  `nphase`, every `nblock`; fuel ≥ 64, and > ncols for size 1). -/
section generated_history
open GoldilocksVerif.BridgeNtt Gen.NttGen GoldilocksVerif.NttSpec Finset

/-- the invariant holds right after the TRANSLATED constructor, the caller's blocks being all blocks that existed before -/
theorem C19_generated_constructed_state (fuel : Nat) (hf : 64 ≤ fuel) (hp : Heap) (hpos : 0 < hp.size) (self0 : NTT_Goldilocks)
    (m : BitVec 64) (thr : BitVec 32) (e : Nat) (hm0 : m ≠ 0#64) (o0 : Obj) (hobj : mkObj m.toNat e = some o0) :
    ∃ st, NTT_ctor fuel hp self0 m thr (e : Int) = some st ∧
      GInv o0 hp.size (fun c => 0 < c ∧ c < hp.size) (fun c => (hp.block c).size) st ∧
      ∀ c, c < hp.size → st.1.block c = hp.block c :=
  ctor_inv fuel hf hp hpos self0 m thr e hm0 o0 hobj

/-- **one call after ANY history** (any state satisfying the invariant): the translated call returns; its destination block
    holds EXACTLY (bit for bit) what the hand model returns for the same arguments and buffer contents on the FRESHLY constructed
    object `o0`; the caller's other blocks are unchanged; the invariant holds again (tables unchanged, cache absent or valid) -/
theorem C19_generated_call_after_history (m e : Nat) (o0 : Obj) (hobj : mkObj m e = some o0) (he : e ≤ 1)
    (fuel : Nat) (hf : 64 ≤ fuel) (n0 : Nat) (U : Nat → Prop) (sz : Nat → Nat)
    (st : Heap × NTT_Goldilocks) (hinv : GInv o0 n0 U sz st) (c : GCall) (hok : c.ok m fuel U sz) :
    ∃ st' out src, c.run fuel st = some st' ∧ ((c.toCall st.1).run o0).2 = .ok (out, src) ∧ st'.1.block c.dst = out ∧
      (∀ b, U b → b ≠ c.dst → st'.1.block b = st.1.block b) ∧ GInv o0 n0 U sz st' :=
  gcall_step m e o0 hobj he fuel hf n0 U sz st hinv c hok

/-- **C19 on the generated model**: every history of valid calls returns and ends in a state satisfying the invariant — so
    (`C19_generated_call_after_history`) the k-th call of every history delivers what the fresh object delivers -/
theorem C19_generated_history (m e : Nat) (o0 : Obj) (hobj : mkObj m e = some o0) (he : e ≤ 1)
    (fuel : Nat) (hf : 64 ≤ fuel) (n0 : Nat) (U : Nat → Prop) (sz : Nat → Nat) (cs : List GCall)
    (st : Heap × NTT_Goldilocks) (hinv : GInv o0 n0 U sz st) (hok : ∀ c, c ∈ cs → c.ok m fuel U sz) :
    ∃ st', runG fuel st cs = some st' ∧ GInv o0 n0 U sz st' :=
  runG_inv m e o0 hobj he fuel hf n0 U sz cs st hinv hok

/-- end to end: the translated constructor on any heap, then ANY history of valid calls on the caller's blocks, then one more
    call: everything returns and the last call's destination block holds the fresh-object result of the hand model -/
theorem C19_generated_history_from_constructor (fuel : Nat) (hf : 64 ≤ fuel) (hp : Heap) (hpos : 0 < hp.size)
    (self0 : NTT_Goldilocks) (m : BitVec 64) (thr : BitVec 32) (e : Nat) (he : e ≤ 1) (hm0 : m ≠ 0#64) (o0 : Obj)
    (hobj : mkObj m.toNat e = some o0) (cs : List GCall) (c : GCall)
    (hok : ∀ c', c' ∈ c :: cs → c'.ok m.toNat fuel (fun b => 0 < b ∧ b < hp.size) (fun b => (hp.block b).size)) :
    ∃ st0 st st' out src, NTT_ctor fuel hp self0 m thr (e : Int) = some st0 ∧ runG fuel st0 cs = some st ∧
      c.run fuel st = some st' ∧ ((c.toCall st.1).run o0).2 = .ok (out, src) ∧ st'.1.block c.dst = out := by
  obtain ⟨st0, hc, hinv0, _⟩ := ctor_inv fuel hf hp hpos self0 m thr e hm0 o0 hobj
  obtain ⟨st, hr, hinv⟩ := runG_inv m.toNat e o0 hobj he fuel hf hp.size _ _ cs st0 hinv0
    (fun c' hc' => hok c' (List.mem_cons_of_mem _ hc'))
  obtain ⟨st', out, src, h1, h2, h3, _, _⟩ := gcall_step m.toNat e o0 hobj he fuel hf hp.size _ _ st hinv c
    (hok c List.mem_cons_self)
  exact ⟨st0, st, st', out, src, hc, hr, h1, h2, h3⟩

/-- **the property after any history**: after ANY history of valid calls, a translated forward transform delivers the DFT of every
    column of the block that is its source at that moment (each call's result is the property-level result, whatever was called
    before) -/
theorem C19_generated_transform_after_history (m e : Nat) (o0 : Obj) (hobj : mkObj m e = some o0) (he : e ≤ 1)
    (fuel : Nat) (hf : 64 ≤ fuel) (n0 : Nat) (U : Nat → Prop) (sz : Nat → Nat) (cs : List GCall)
    (st0 : Heap × NTT_Goldilocks) (hinv : GInv o0 n0 U sz st0) (hcs : ∀ c, c ∈ cs → c.ok m fuel U sz)
    (D Sx d nc : Nat) (nphase nblock : BitVec 64) (hok : (GCall.ntt D Sx d nc nphase nblock).ok m fuel U sz)
    (hsD : sz D = 2 ^ d * nc) (hsS : sz Sx = 2 ^ d * nc) :
    ∃ st st', runG fuel st0 cs = some st ∧ (GCall.ntt D Sx d nc nphase nblock).run fuel st = some st' ∧
      ∀ k c, k < 2 ^ d → c < nc →
        den ((st'.1.block D).getD (k * nc + c) 0#64)
          = ∑ j ∈ range (2 ^ d), den ((st.1.block Sx).getD (j * nc + c) 0#64) * omega d ^ (j * k) := by
  obtain ⟨st, hr, hinv'⟩ := runG_inv m e o0 hobj he fuel hf n0 U sz cs st0 hinv hcs
  obtain ⟨st', out, src, h1, h2, h3, _, _⟩ := gcall_step m e o0 hobj he fuel hf n0 U sz st hinv' _ hok
  obtain ⟨uD, uS, hd30, hdm, hnc, hbound, hszD, hf1⟩ := hok
  obtain ⟨_, _, _, zD⟩ := hinv'.user D uD
  obtain ⟨_, _, _, zS⟩ := hinv'.user Sx uS
  have hm : m ≠ 0 := by have := Nat.two_pow_pos d; omega
  have hO := mkObj_ok m e o0 hm he hobj
  have hdl : d ≤ log2 m := (Nat.le_log2 hm).mpr hdm
  obtain ⟨out', eo, _, hdft⟩ := ntt_forward o0 _ hO (if D = Sx then DstMode.same else DstMode.other) (st.1.block D) (st.1.block Sx)
    d nc nphase.toNat nblock.toNat hdl hnc (by
      by_cases h : D = Sx
      · subst h; simp; omega
      · simp [h]; omega)
  simp only [GCall.toCall, Call.run] at h2
  rw [eo] at h2
  injection h2 with h2
  injection h2 with h2 _
  refine ⟨st, st', hr, h1, ?_⟩
  intro k c hk hc
  have := hdft k c hk hc
  simp only [GCall.dst] at h3
  rw [h3, ← h2]
  exact this

end generated_history

/-! ### HISTORIES with caller scratch buffers and `dst == NULL`, and histories that END WITH THE DESTRUCTOR
  (Lemmas/BridgeNttHistBuf.lean, Lemmas/BridgeNttDtor.lean)
  `GCallB` is the second history type: the destination of `NTT` / `INTT` is an `Option Nat` (`none`: the caller passes `dst == NULL`,
  the transform is in place), every call has an optional caller scratch buffer (`none`: `buffer == NULL`).  `GCall.toB` embeds the
  first type; the invariant is the same `GInv`.  `GCallB.ok`: as `GCall.ok`, plus (`BufArg`) the buffer is one of the caller's
  blocks, another one than the destination's and the source's, of at least size·ncols (N_ext·ncols for `extendPol`) words.
  The hand model has no caller buffer: `GCallB.toCall` forgets it.
  `HeapSafe.Owned self b`: b is not the NULL block and is the block of `roots` / `powTwoInv` (when `s != 0`) or of `r` / `r_` (when
  not NULL) — the pointers the destructor releases. -/
section generated_history_buffers
open GoldilocksVerif.BridgeNtt Gen.NttGen GoldilocksVerif.NttSpec Finset

/-- **one call after ANY history, caller buffer and `dst == NULL` included**: the translated call returns; its destination block
    holds EXACTLY (bit for bit) what the hand model returns for the same arguments on the FRESHLY constructed object `o0` —
    whatever the scratch buffer held; the caller's blocks other than the destination and the scratch buffer are unchanged; the
    invariant holds again (the scratch buffer keeps its size) -/
theorem C19_generated_call_after_history_buffers (m e : Nat) (o0 : Obj) (hobj : mkObj m e = some o0) (he : e ≤ 1)
    (fuel : Nat) (hf : 64 ≤ fuel) (n0 : Nat) (U : Nat → Prop) (sz : Nat → Nat)
    (st : Heap × NTT_Goldilocks) (hinv : GInv o0 n0 U sz st) (c : GCallB) (hok : c.ok m fuel U sz) :
    ∃ st' out src, c.run fuel st = some st' ∧ ((c.toCall st.1).run o0).2 = .ok (out, src) ∧ st'.1.block c.dst = out ∧
      (∀ b, U b → b ≠ c.dst → c.buf ≠ some b → st'.1.block b = st.1.block b) ∧ GInv o0 n0 U sz st' :=
  gcallB_step m e o0 hobj he fuel hf n0 U sz st hinv c hok

/-- **C19 on the generated model, histories with caller buffers and in-place (`dst == NULL`) calls**: every history of valid calls
    returns and ends in a state satisfying the invariant — so (`C19_generated_call_after_history_buffers`) the k-th call of every
    history delivers what the fresh object delivers -/
theorem C19_generated_history_buffers (m e : Nat) (o0 : Obj) (hobj : mkObj m e = some o0) (he : e ≤ 1)
    (fuel : Nat) (hf : 64 ≤ fuel) (n0 : Nat) (U : Nat → Prop) (sz : Nat → Nat) (cs : List GCallB)
    (st : Heap × NTT_Goldilocks) (hinv : GInv o0 n0 U sz st) (hok : ∀ c, c ∈ cs → c.ok m fuel U sz) :
    ∃ st', runGB fuel st cs = some st' ∧ GInv o0 n0 U sz st' :=
  runGB_inv m e o0 hobj he fuel hf n0 U sz cs st hinv hok

/-- the second history type contains the first: same runs, valid calls stay valid -/
theorem C19_generated_history_buffers_extends (m fuel : Nat) (U : Nat → Prop) (sz : Nat → Nat) (cs : List GCall)
    (st : Heap × NTT_Goldilocks) :
    runGB fuel st (cs.map GCall.toB) = runG fuel st cs ∧
    ((∀ c, c ∈ cs → c.ok m fuel U sz) → ∀ c, c ∈ cs.map GCall.toB → c.ok m fuel U sz) := by
  refine ⟨runG_toB fuel cs st, fun h c hc => ?_⟩
  rw [List.mem_map] at hc
  obtain ⟨c0, hc0, rfl⟩ := hc
  exact GCall.toB_ok m fuel U sz c0 (h c0 hc0)

/-- **the property after any history, in place with a caller buffer**: after ANY history of valid calls (with or without buffers), a
    translated forward transform called with `dst == NULL` and a caller scratch buffer of ANY content delivers, in its source
    block, the DFT of every column of what that block held -/
theorem C19_generated_transform_after_history_buffers (m e : Nat) (o0 : Obj) (hobj : mkObj m e = some o0) (he : e ≤ 1)
    (fuel : Nat) (hf : 64 ≤ fuel) (n0 : Nat) (U : Nat → Prop) (sz : Nat → Nat) (cs : List GCallB)
    (st0 : Heap × NTT_Goldilocks) (hinv : GInv o0 n0 U sz st0) (hcs : ∀ c, c ∈ cs → c.ok m fuel U sz)
    (Sx d nc B : Nat) (nphase nblock : BitVec 64) (hok : (GCallB.ntt none Sx d nc (some B) nphase nblock).ok m fuel U sz) :
    ∃ st st', runGB fuel st0 cs = some st ∧ (GCallB.ntt none Sx d nc (some B) nphase nblock).run fuel st = some st' ∧
      ∀ k c, k < 2 ^ d → c < nc →
        den ((st'.1.block Sx).getD (k * nc + c) 0#64)
          = ∑ j ∈ range (2 ^ d), den ((st.1.block Sx).getD (j * nc + c) 0#64) * omega d ^ (j * k) := by
  obtain ⟨st, hr, hinv'⟩ := runGB_inv m e o0 hobj he fuel hf n0 U sz cs st0 hinv hcs
  obtain ⟨st', out, src, h1, h2, h3, _, _⟩ := gcallB_step m e o0 hobj he fuel hf n0 U sz st hinv' _ hok
  obtain ⟨uD, uS, hd30, hdm, hnc, hbound, hszD, hf1, _⟩ := hok
  obtain ⟨_, _, _, zS⟩ := hinv'.user Sx uS
  have hm : m ≠ 0 := by have := Nat.two_pow_pos d; omega
  have hO := mkObj_ok m e o0 hm he hobj
  have hdl : d ≤ log2 m := (Nat.le_log2 hm).mpr hdm
  have hszS : 2 ^ d * nc ≤ sz Sx := hszD
  obtain ⟨out', eo, _, hdft⟩ := ntt_forward o0 _ hO DstMode.null (st.1.block Sx) (st.1.block Sx) d nc nphase.toNat nblock.toNat hdl hnc
    (by rw [if_neg (by decide)]; omega)
  have h2' : ntt o0 DstMode.null (st.1.block Sx) (st.1.block Sx) (2 ^ d) nc nphase.toNat nblock.toNat false false = .ok (out, src) := h2
  rw [eo] at h2'
  injection h2' with h2'
  injection h2' with h2' _
  have h3' : st'.1.block Sx = out := h3
  refine ⟨st, st', hr, h1, ?_⟩
  intro k c hk hc
  rw [h3', ← h2']
  exact hdft k c hk hc

/-- the caller may ALLOCATE new buffers between two calls (a block with any content, as the driver of the generated model does for
    the data of every call): the invariant holds again, re-based to the larger heap, the new block being one more caller block —
    so `C19_generated_call_after_history_buffers` / `C19_generated_history_buffers` apply to the calls that follow -/
theorem C19_generated_caller_alloc_keeps_invariant (o0 : Obj) (n0 : Nat) (U : Nat → Prop) (sz : Nat → Nat) (hp : Heap)
    (self : NTT_Goldilocks) (hinv : GInv o0 n0 U sz (hp, self)) (a : Block) :
    GInv o0 (hp.size + 1) (fun c => U c ∨ c = hp.size) (fun c => if c = hp.size then a.size else sz c)
      ((hp.allocWith a).1, self) :=
  hinv.callerAlloc a

/-- **the destructor, standalone**: the translated destructor releases every block the object owns (extent 0 afterwards) and leaves
    the content of every other block -/
theorem C19_generated_destructor (hp : Heap) (hpos : 0 < hp.size) (self : NTT_Goldilocks) :
    (∀ b, HeapSafe.Owned self b → (NTT_dtor hp self).ext b = 0) ∧
    (∀ b, ¬ HeapSafe.Owned self b → (NTT_dtor hp self).block b = hp.block b) :=
  ⟨fun b hb => dtor_ext_owned hp hpos self b hb, fun b hb => dtor_block_unowned hp self b hb⟩

/-- **a history that ENDS with the destructor**: from any state satisfying the invariant, any history of valid calls (buffers,
    `dst == NULL`) returns — each call with the fresh-object result in its destination block — and the translated destructor then
    releases every block the object owns, leaves the content of every block it does not own, in particular every caller block
    keeps what the history gave it (and its size) -/
theorem C19_generated_history_then_dtor (m e : Nat) (o0 : Obj) (hobj : mkObj m e = some o0) (he : e ≤ 1)
    (fuel : Nat) (hf : 64 ≤ fuel) (n0 : Nat) (U : Nat → Prop) (sz : Nat → Nat) (cs : List GCallB)
    (st : Heap × NTT_Goldilocks) (hinv : GInv o0 n0 U sz st) (hok : ∀ c, c ∈ cs → c.ok m fuel U sz) :
    ∃ st', runGB fuel st cs = some st' ∧ GInv o0 n0 U sz st' ∧
      (∀ b, HeapSafe.Owned st'.2 b → (NTT_dtor st'.1 st'.2).ext b = 0) ∧
      (∀ b, ¬ HeapSafe.Owned st'.2 b → (NTT_dtor st'.1 st'.2).block b = st'.1.block b) ∧
      (∀ b, U b → (NTT_dtor st'.1 st'.2).block b = st'.1.block b ∧ ((NTT_dtor st'.1 st'.2).block b).size = sz b) :=
  runGB_then_dtor m e o0 hobj he fuel hf n0 U sz cs st hinv hok

/-- **constructor → any history → destructor** on any heap: everything returns (`HeapSafe.life` is the composition of the
    allocation-balance theorem `C18_generated_alloc_balance`); every block that existed before the constructor keeps, through the
    destructor, the content the history gave it; afterwards EVERY extent is what it was before the constructor ran: the object's
    blocks (all with numbers ≥ the original heap size) are released, nothing else is -/
theorem C19_generated_life_then_dtor (fuel : Nat) (hf : 64 ≤ fuel) (hp : Heap) (hpos : 0 < hp.size) (m : BitVec 64) (thr : BitVec 32)
    (e : Nat) (he : e ≤ 1) (hm0 : m ≠ 0#64) (o0 : Obj) (hobj : mkObj m.toNat e = some o0) (cs : List GCallB)
    (hok : ∀ c, c ∈ cs → c.ok m.toNat fuel (fun b => 0 < b ∧ b < hp.size) (fun b => (hp.block b).size)) :
    ∃ st0 st, NTT_ctor fuel hp NTT_Goldilocks.init m thr (e : Int) = some st0 ∧ runGB fuel st0 cs = some st ∧
      HeapSafe.life fuel hp m thr (e : Int) (cs.map GCallB.toRaw) = some (NTT_dtor st.1 st.2) ∧
      GInv o0 hp.size (fun b => 0 < b ∧ b < hp.size) (fun b => (hp.block b).size) st ∧
      (∀ b, b < hp.size → (NTT_dtor st.1 st.2).block b = st.1.block b) ∧
      (∀ b, (NTT_dtor st.1 st.2).ext b = hp.ext b) ∧
      (∀ b, hp.size ≤ b → (NTT_dtor st.1 st.2).ext b = 0) :=
  life_then_dtor fuel hf hp hpos m thr e he hm0 o0 hobj cs hok

/-- non-vacuity: a concrete history with documented arguments on a heap with three caller blocks (8, 16, 16 words), an object for 8
    points: `extendPol` 4 → 8 with the third block as scratch, two column blocks; an in-place (`dst == NULL`) `NTT` of size 4 with the
    scratch block; an `INTT` into another block without buffer; a size-1 in-place `NTT` of 8 columns with the scratch block; an
    in-place `extendPol` without buffer.  The whole life returns and gives back every block -/
example : ∃ st0 st,
    NTT_ctor 64 ⟨#[#[], Array.replicate 8 5#64, Array.replicate 16 0#64, Array.replicate 16 9#64]⟩ NTT_Goldilocks.init 8#64 1#32
      ((1 : Nat) : Int) = some st0 ∧
    runGB 64 st0 [GCallB.extendPol 2 1 3 2 2 (some 3) 3#64 2#64, GCallB.ntt none 1 2 2 (some 3) 3#64 1#64,
      GCallB.intt (some 2) 1 2 2 none 0#64 5#64, GCallB.ntt none 1 0 8 (some 3) 3#64 1#64,
      GCallB.extendPol 2 2 3 2 2 none 3#64 1#64] = some st ∧
    ∀ b, (NTT_dtor st.1 st.2).ext b =
      Heap.ext ⟨#[#[], Array.replicate 8 5#64, Array.replicate 16 0#64, Array.replicate 16 9#64]⟩ b := by
  obtain ⟨o0, ho0⟩ := mkObj_some (8#64 : BitVec 64).toNat 1 (by decide)
  obtain ⟨st0, st, h1, h2, _, _, _, h3, _⟩ := C19_generated_life_then_dtor 64 (by omega)
    ⟨#[#[], Array.replicate 8 5#64, Array.replicate 16 0#64, Array.replicate 16 9#64]⟩ (by decide) 8#64 1#32 1 (by omega) (by decide)
    o0 ho0 [GCallB.extendPol 2 1 3 2 2 (some 3) 3#64 2#64, GCallB.ntt none 1 2 2 (some 3) 3#64 1#64,
      GCallB.intt (some 2) 1 2 2 none 0#64 5#64, GCallB.ntt none 1 0 8 (some 3) 3#64 1#64,
      GCallB.extendPol 2 2 3 2 2 none 3#64 1#64] (by
    intro c hc
    simp only [List.mem_cons, List.not_mem_nil, or_false] at hc
    rcases hc with rfl | rfl | rfl | rfl | rfl
    · exact ⟨by decide, by decide, by decide, by decide, by decide, by decide, by decide, by decide, by decide,
        fun B hB => by cases hB; decide⟩
    · exact ⟨by decide, by decide, by decide, by decide, by decide, by decide, by decide, by decide,
        fun B hB => by cases hB; decide⟩
    · exact ⟨by decide, by decide, by decide, by decide, by decide, by decide, by decide, by decide, fun B hB => by cases hB⟩
    · exact ⟨by decide, by decide, by decide, by decide, by decide, by decide, by decide, by decide,
        fun B hB => by cases hB; decide⟩
    · exact ⟨by decide, by decide, by decide, by decide, by decide, by decide, by decide, by decide, by decide,
        fun B hB => by cases hB⟩)
  exact ⟨st0, st, h1, h2, h3⟩

end generated_history_buffers

end GoldilocksVerif.C19
