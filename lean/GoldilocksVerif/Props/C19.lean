import GoldilocksVerif.Model.Ntt
namespace GoldilocksVerif.C19
end GoldilocksVerif.C19
