/-
  C16 — every batched / AVX2 / AVX512 cubic-extension variant equals the scalar operation.

  Three layers (the layering of C17):
  (1) Props/C16Gen*.lean (GENERATED from the C++ signatures on every run, bodies translated from the current source):
      one theorem per overload of the add / sub / mul families (156) and of the planar<->interleaved copies (3).
      The statement is derived from the routine NAME (operation, operand shape 13 / 31 / 33, `c` = broadcast constant,
      family) and the parameter TYPES and NAMES only (tools/extspec.py), never from the body:
        array output      `Scatter3 W pos val c res`   res is c after, for k = 0..W-1 in order, three writes at
                                                        pos k 0, pos k 1, pos k 2 of words that denote (in ZMod p)
                                                        the coefficients of `val k`;
        Element_avx       `PlanarV4 val c_ res`        registers 0,1,2: lane k of register i denotes coefficient i of
                                                        `val k`; the other registers of the array are untouched;
        three registers   `Planar4 val c0 c1 c2`       the same for register references;
      with `val k = K3.add / K3.sub / K3.mul (a-operand k) (b-operand k)` in K3 = F_p[x]/(x^3 - x - 1) and the operands
      read at exactly the positions the stride parameters designate (`posD`, `posS`, `posA`, `posC`, 64-bit index
      arithmetic).  The three "challenge" products take the sums b0+b1, b0+b2, b1+b2 as an extra operand; they are
      stated under the hypothesis `ChalSums` that the extra operand holds those sums (as field elements).
  (2) This file: what such a statement means — frame (nothing but the designated positions is written), the value of
      every designated position for EVERY stride / index array (colliding positions included, order-agnostic and
      exact forms), the interleaved layout in closed form, and the link to the scalar `Goldilocks3` routines of C09:
      `val k` IS what `Gen.Ext.G3_add / G3_sub / G3_mul` (all operand forms) return on the k-th designated operands.
  (3) Fully spelled-out instances and the copies.

  What is NOT a theorem here: "reads only the positions its strides designate".  The generated models are total
  functions of the region contents, so a stray READ is not observable in Lean; the theorems show that the written
  field elements are functions of the designated words only, and the read footprint itself is established by the
  correspondence runs (arrays sized exactly to the designated extent, mapped against a PROT_NONE page).
  Only property theorems here; helpers are in Lemmas/ExtWrapL.lean, Lemmas/ExtWrapTac.lean.
-/
import GoldilocksVerif.Props.C16Gen
import GoldilocksVerif.Props.C09

namespace GoldilocksVerif.C16
open GoldilocksVerif

/-! ### (2) meaning of the generated statements -/

/-- frame: a position that no (element, coefficient) pair designates keeps its content -/
theorem C16_frame {W : Nat} {pos : Nat → Nat → Nat} {val : Nat → K3} {c res : Region}
    (h : Scatter3 W pos val c res) (j : Nat) (hj : ∀ k, k < W → ∀ i, i < 3 → j ≠ pos k i) : res j = c j := by
  refine WrittenBy.frame h j (fun m hm => hj (m / 3) ?_ (m % 3) (Nat.mod_lt _ (by decide)))
  omega

/-- order-agnostic value: every designated position holds a word that denotes the coefficient of SOME
    (element, coefficient) pair designated for it — for every stride, including 0 and overlapping elements -/
theorem C16_any {W : Nat} {pos : Nat → Nat → Nat} {val : Nat → K3} {c res : Region}
    (h : Scatter3 W pos val c res) (k i : Nat) (hk : k < W) (hi : i < 3) :
    ∃ k' i', k' < W ∧ i' < 3 ∧ pos k' i' = pos k i ∧ den (res (pos k i)) = (val k').coef i' := by
  have e1 : (3 * k + i) / 3 = k := by omega
  have e2 : (3 * k + i) % 3 = i := by omega
  obtain ⟨m', h1, h2, h3⟩ := WrittenBy.mem h (3 * k + i) (by omega)
  simp only [e1, e2] at h2 h3
  exact ⟨m' / 3, m' % 3, by omega, Nat.mod_lt _ (by decide), h2, h3⟩

/-- exact value: when no LATER write (element-major, coefficient-minor order, as the code stands) hits the position -/
theorem C16_exact {W : Nat} {pos : Nat → Nat → Nat} {val : Nat → K3} {c res : Region}
    (h : Scatter3 W pos val c res) (k i : Nat) (hk : k < W) (hi : i < 3)
    (hl : ∀ k' i', k' < W → i' < 3 → 3 * k + i < 3 * k' + i' → pos k' i' ≠ pos k i) :
    den (res (pos k i)) = (val k).coef i := by
  have e1 : (3 * k + i) / 3 = k := by omega
  have e2 : (3 * k + i) % 3 = i := by omega
  have := WrittenBy.last h (3 * k + i) (by omega) (fun m' h1 h2 => by
    simp only [e1, e2]
    exact hl (m' / 3) (m' % 3) (by omega) (Nat.mod_lt _ (by decide)) (by omega))
  simpa only [e1, e2] using this

/-- interleaved output (`result`, no output stride): element k occupies words 3k, 3k+1, 3k+2; closed form -/
theorem C16_interleaved {W : Nat} {val : Nat → K3} {c res : Region} (h : Scatter3 W (posD 3) val c res) :
    (∀ k, k < W → (⟨den (res (3 * k)), den (res (3 * k + 1)), den (res (3 * k + 2))⟩ : K3) = val k) ∧
    (∀ j, 3 * W ≤ j → res j = c j) := by
  constructor
  · intro k hk
    have ex : ∀ i, i < 3 → den (res (posD 3 k i)) = (val k).coef i := fun i hi =>
      C16_exact h k i hk hi (fun k' i' _ _ hlt => by unfold posD; omega)
    have h0 := ex 0 (by decide)
    have h1 := ex 1 (by decide)
    have h2 := ex 2 (by decide)
    simp only [posD, Nat.add_zero, K3.coef_zero, K3.coef_one, K3.coef_two] at h0 h1 h2
    exact K3.ext' _ _ h0 h1 h2
  · intro j hj
    exact C16_frame h j (fun k hk i hi => by unfold posD; omega)

/-- strided output without wrap-around and with stride ≥ 3: elements do not overlap, every element exact -/
theorem C16_strided {W : Nat} {val : Nat → K3} {c res : Region} (s : BitVec 64) (h : Scatter3 W (posS s) val c res)
    (hs : 3 ≤ s.toNat) (hw : W * s.toNat + 3 ≤ 2 ^ 64) (k : Nat) (hk : k < W) :
    (⟨den (res (k * s.toNat)), den (res (k * s.toNat + 1)), den (res (k * s.toNat + 2))⟩ : K3) = val k := by
  have hpos : ∀ k' i', k' < W → i' < 3 → posS s k' i' = k' * s.toNat + i' := by
    intro k' i' hk' hi'
    have hkk : k' * s.toNat + s.toNat ≤ W * s.toNat := by
      have : (k' + 1) * s.toNat ≤ W * s.toNat := Nat.mul_le_mul_right _ hk'
      rw [Nat.add_mul, Nat.one_mul] at this
      exact this
    have hk64 : k' < 2 ^ 64 := by
      have : k' * 3 ≤ k' * s.toNat := Nat.mul_le_mul_left _ hs
      omega
    have hm : (BitVec.ofNat 64 k' * s).toNat = k' * s.toNat := by
      rw [BitVec.toNat_mul, BitVec.toNat_ofNat, Nat.mod_eq_of_lt hk64, Nat.mod_eq_of_lt (by omega)]
    match i', hi' with
    | 0, _ => simp only [posS_0, hm, Nat.add_zero]
    | 1, _ =>
      rw [posS_1, BitVec.toNat_add, hm]
      exact Nat.mod_eq_of_lt (by simp only [BitVec.toNat_ofNat]; omega)
    | 2, _ =>
      rw [posS_2, BitVec.toNat_add, hm]
      exact Nat.mod_eq_of_lt (by simp only [BitVec.toNat_ofNat]; omega)
  have ex : ∀ i, i < 3 → den (res (posS s k i)) = (val k).coef i := fun i hi =>
    C16_exact h k i hk hi (fun k' i' hk' hi' hlt => by
      rw [hpos k' i' hk' hi', hpos k i hk hi]
      intro he
      rcases Nat.lt_or_ge k k' with hlt' | hge
      · have : k * s.toNat + s.toNat ≤ k' * s.toNat := by
          have : (k + 1) * s.toNat ≤ k' * s.toNat := Nat.mul_le_mul_right _ hlt'
          rw [Nat.add_mul, Nat.one_mul] at this
          exact this
        omega
      · have hkk : k' = k := by omega
        subst hkk
        omega)
  have h0 := ex 0 (by decide)
  have h1 := ex 1 (by decide)
  have h2 := ex 2 (by decide)
  rw [hpos k _ hk (by decide)] at h0 h1 h2
  simp only [Nat.add_zero, K3.coef_zero, K3.coef_one, K3.coef_two] at h0 h1 h2
  exact K3.ext' _ _ h0 h1 h2

/-- register outputs, spelled out: lane k of register i denotes coefficient i of `val k` -/
theorem C16_planar4 {val : Nat → K3} {c0 c1 c2 : V4} (h : Planar4 val c0 c1 c2) (k : Nat) (hk : k < 4) :
    den (c0.getN k) = (val k).c0 ∧ den (c1.getN k) = (val k).c1 ∧ den (c2.getN k) = (val k).c2 := by
  have := h k hk
  rw [← this]
  exact ⟨rfl, rfl, rfl⟩

theorem C16_planar8 {val : Nat → K3} {c0 c1 c2 : V8} (h : Planar8 val c0 c1 c2) (k : Nat) (hk : k < 8) :
    den (c0.getN k) = (val k).c0 ∧ den (c1.getN k) = (val k).c1 ∧ den (c2.getN k) = (val k).c2 := by
  have := h k hk
  rw [← this]
  exact ⟨rfl, rfl, rfl⟩

/-! ### link to the scalar operation (C09) -/

/-- `val k` of the generated statements IS the result of the scalar `Goldilocks3` routine on the k-th operands:
    for operand words a0 a1 a2 / b0 b1 b2 (any representation) and a base word s, the K3 expressions used in
    Props/C16Gen are what `Goldilocks3::add / sub / mul` (ext·ext, ext·base, base·ext forms) return, in ZMod p. -/
theorem C16_scalar (r : Region) (a0 a1 a2 b0 b1 b2 s : BitVec 64) :
    let A : Region := Region.ofList [a0, a1, a2]
    let B : Region := Region.ofList [b0, b1, b2]
    let x : K3 := ⟨den a0, den a1, den a2⟩
    let y : K3 := ⟨den b0, den b1, den b2⟩
    K3.add x y = den3 (Gen.Ext.G3_add__a3A3A3 r A B) ∧
    K3.sub x y = den3 (Gen.Ext.G3_sub__a3a3a3 r A B) ∧
    K3.mul x y = den3 (Gen.Ext.G3_mul__a3a3a3 r A B) ∧
    K3.add (K3.ofBase (den s)) y = den3 (Gen.Ext.G3_add__a3EA3 r s B) ∧
    K3.add x (K3.ofBase (den s)) = den3 (Gen.Ext.G3_add__a3A3E r A s) ∧
    K3.sub (K3.ofBase (den s)) y = den3 (Gen.Ext.G3_sub__a3Ea3 r s B) ∧
    K3.sub x (K3.ofBase (den s)) = den3 (Gen.Ext.G3_sub__a3a3E r A s) ∧
    K3.mul (K3.ofBase (den s)) y = den3 (Gen.Ext.G3_mul__a3Ea3 r s B) ∧
    K3.mul x (K3.ofBase (den s)) = den3 (Gen.Ext.G3_mul__a3a3E r A s) := by
  intro A B x y
  have hA : den3 A = x := rfl
  have hB : den3 B = y := rfl
  obtain ⟨ha1, ha2, ha3, _⟩ := C09.C09_add r A B s
  obtain ⟨hs1, hs2, hs3, _, _⟩ := C09.C09_sub r A B s
  obtain ⟨hm1, _, _, hm4, hm5, _⟩ := C09.C09_mul r A B s
  rw [ha1, ha2, ha3, hs1, hs2, hs3, hm1, hm4, hm5, hA, hB]
  exact ⟨rfl, rfl, rfl, rfl, rfl, rfl, rfl, rfl, rfl⟩

/-! ### (3) spelled-out instances -/

/-- `mul_batch(result, a, b)`: element k of the result is the scalar product `Goldilocks3::mul` of element k of `a`
    and element k of `b`; nothing beyond the 12 words is written -/
theorem C16_mul_batch (result a b r : Region) :
    let res := Gen.ExtWrap.G3_mul_batch__ppp result a b
    (∀ k, k < 4 → den3 (Region.shift res (3 * k)) =
        den3 (Gen.Ext.G3_mul__a3a3a3 r (Region.shift a (3 * k)) (Region.shift b (3 * k)))) ∧
    (∀ j, 12 ≤ j → res j = result j) := by
  intro res
  obtain ⟨hv, hf⟩ := C16_interleaved (C16Gen.G3_mul_batch__ppp_spec result a b)
  refine ⟨fun k hk => ?_, hf⟩
  rw [(C09.C09_mul r _ _ 0#64).1]
  have := hv k hk
  simp only [den3, Region.shift_apply, Nat.add_zero, ext3, posD] at this ⊢
  exact this

/-- `mul_avx512(Element *c, uint64_t stride_c[8], Element_avx512 &a_, Element_avx512 &b_)`: index-array output with
    possibly colliding positions — frame, and every designated word denotes a coefficient of the product of the planar
    operands of an element designated for that position -/
theorem C16_mul_avx512_indexed (c stride_c : Region) (a_ b_ : VRegion8) :
    let res := Gen.ExtWrap.G3_mul_avx512__ppnn c stride_c a_ b_
    (∀ j, (∀ k, k < 8 → ∀ i, i < 3 → j ≠ posA stride_c k i) → res j = c j) ∧
    (∀ k i, k < 8 → i < 3 → ∃ k' i', k' < 8 ∧ i' < 3 ∧ posA stride_c k' i' = posA stride_c k i ∧
      den (res (posA stride_c k i)) = (K3.mul (vreg8 a_ k') (vreg8 b_ k')).coef i') := by
  intro res
  have h := C16Gen.G3_mul_avx512__ppnn_spec c stride_c a_ b_
  exact ⟨fun j hj => C16_frame h j hj, fun k i hk hi => C16_any h k i hk hi⟩

/-- `mul_avx(Element_avx &c_, Element *a, Element_avx &b_, uint64_t stride_a)`: planar result, strided array operand -/
theorem C16_mul_avx_planar (c_ : VRegion4) (a : Region) (b_ : VRegion4) (stride_a : BitVec 64) :
    let res := Gen.ExtWrap.G3_mul_avx__mpmE c_ a b_ stride_a
    (∀ k, k < 4 → (⟨den ((res 0).getN k), den ((res 1).getN k), den ((res 2).getN k)⟩ : K3) =
        K3.mul ⟨den (a (posS stride_a k 0)), den (a (posS stride_a k 1)), den (a (posS stride_a k 2))⟩
               ⟨den ((b_ 0).getN k), den ((b_ 1).getN k), den ((b_ 2).getN k)⟩) ∧
    (∀ j, 3 ≤ j → res j = c_ j) := by
  intro res
  exact C16Gen.G3_mul_avx__mpmE_spec c_ a b_ stride_a

/-- the challenge product `mul_avx(c0_,c1_,c2_, a0_,a1_,a2_, b0_,b1_,b2_, aux0_,aux1_,aux2_)`: the full product,
    GIVEN that lane k of aux0_/aux1_/aux2_ holds b0+b1 / b0+b2 / b1+b2 of lane k (as field elements) -/
theorem C16_mul_avx_challenge (a0_ a1_ a2_ b0_ b1_ b2_ aux0_ aux1_ aux2_ : V4)
    (h : ∀ k, k < 4 → den (aux0_.getN k) = den (b0_.getN k) + den (b1_.getN k) ∧
                     den (aux1_.getN k) = den (b0_.getN k) + den (b2_.getN k) ∧
                     den (aux2_.getN k) = den (b1_.getN k) + den (b2_.getN k)) :
    let res := Gen.ExtWrap.G3_mul_avx__vvvVVVVVVVVV a0_ a1_ a2_ b0_ b1_ b2_ aux0_ aux1_ aux2_
    ∀ k, k < 4 → (⟨den (res.1.getN k), den (res.2.1.getN k), den (res.2.2.getN k)⟩ : K3) =
      K3.mul ⟨den (a0_.getN k), den (a1_.getN k), den (a2_.getN k)⟩ ⟨den (b0_.getN k), den (b1_.getN k), den (b2_.getN k)⟩ := by
  intro res
  exact C16Gen.G3_mul_avx__vvvVVVVVVVVV_spec a0_ a1_ a2_ b0_ b1_ b2_ aux0_ aux1_ aux2_ (fun k hk => h k hk)

/-! ### the planar <-> interleaved copies -/

/-- closed form of an exact interleaved copy -/
theorem C16_copy_meaning {W : Nat} {word : Nat → Nat → BitVec 64} {c res : Region}
    (h : ScatterExact W (posD 3) word c res) :
    (∀ k i, k < W → i < 3 → res (3 * k + i) = word k i) ∧ (∀ j, 3 * W ≤ j → res j = c j) := by
  constructor
  · intro k i hk hi
    have e1 : (3 * k + i) / 3 = k := by omega
    have e2 : (3 * k + i) % 3 = i := by omega
    have := WrittenBy.last h (3 * k + i) (by omega) (fun m' h1 h2 => by
      simp only [posD]
      have := Nat.div_add_mod m' 3
      omega)
    simpa only [e1, e2, posD] using this
  · intro j hj
    refine WrittenBy.frame h j (fun m hm => ?_)
    simp only [posD]
    have := Nat.div_add_mod m 3
    omega

/-- `copy_batch`, `copy_avx`, `copy_avx512`: the words themselves (no reduction), interleaved, nothing else written -/
theorem C16_copies (dst src : Region) (a0_ a1_ a2_ : V4) (w0_ w1_ w2_ : V8) :
    (∀ j, j < 12 → (Gen.ExtWrap.G3_copy_batch dst src) j = src j) ∧
    (∀ j, 12 ≤ j → (Gen.ExtWrap.G3_copy_batch dst src) j = dst j) ∧
    (∀ k, k < 4 → (Gen.ExtWrap.G3_copy_avx dst a0_ a1_ a2_) (3 * k) = a0_.getN k ∧
                  (Gen.ExtWrap.G3_copy_avx dst a0_ a1_ a2_) (3 * k + 1) = a1_.getN k ∧
                  (Gen.ExtWrap.G3_copy_avx dst a0_ a1_ a2_) (3 * k + 2) = a2_.getN k) ∧
    (∀ j, 12 ≤ j → (Gen.ExtWrap.G3_copy_avx dst a0_ a1_ a2_) j = dst j) ∧
    (∀ k, k < 8 → (Gen.ExtWrap.G3_copy_avx512 dst w0_ w1_ w2_) (3 * k) = w0_.getN k ∧
                  (Gen.ExtWrap.G3_copy_avx512 dst w0_ w1_ w2_) (3 * k + 1) = w1_.getN k ∧
                  (Gen.ExtWrap.G3_copy_avx512 dst w0_ w1_ w2_) (3 * k + 2) = w2_.getN k) ∧
    (∀ j, 24 ≤ j → (Gen.ExtWrap.G3_copy_avx512 dst w0_ w1_ w2_) j = dst j) := by
  obtain ⟨hb, hbf⟩ := C16_copy_meaning (C16Gen.G3_copy_batch_spec dst src)
  obtain ⟨ha, haf⟩ := C16_copy_meaning (C16Gen.G3_copy_avx_spec dst a0_ a1_ a2_)
  obtain ⟨hw, hwf⟩ := C16_copy_meaning (C16Gen.G3_copy_avx512_spec dst w0_ w1_ w2_)
  refine ⟨fun j hj => ?_, hbf, fun k hk => ⟨?_, ?_, ?_⟩, haf, fun k hk => ⟨?_, ?_, ?_⟩, hwf⟩
  · have := hb (j / 3) (j % 3) (by omega) (Nat.mod_lt _ (by decide))
    have e : 3 * (j / 3) + j % 3 = j := Nat.div_add_mod j 3
    simpa only [posD, e] using this
  · have := ha k 0 hk (by decide)
    rw [Nat.add_zero] at this
    exact this
  · exact ha k 1 hk (by decide)
  · exact ha k 2 hk (by decide)
  · have := hw k 0 hk (by decide)
    rw [Nat.add_zero] at this
    exact this
  · exact hw k 1 hk (by decide)
  · exact hw k 2 hk (by decide)

-- premises are satisfiable / the vocabulary is not degenerate
example : posS 3#64 2 1 = 7 ∧ posD 3 2 1 = 7 ∧ posA (Region.ofList [5#64, 9#64]) 1 2 = 11 ∧ posC 3 2 = 2 := by decide
example : ChalSums ⟨1, 2, 3⟩ 3 4 5 := ⟨by decide, by decide, by decide⟩

end GoldilocksVerif.C16
