/-
  C10 — Base-field inverse, division and power are exact and total on non-zero.

  About the hand models `Model.inv / Model.div / Model.exp` (Model/Inv.lean), written loop for loop over the
  generated scalar operations and tied to `Goldilocks::inv/div/exp` by the correspondence run of the C10 check.
  `Model.inv a = none` models "the process is ended with a diagnostic" (`exit(-1)`).
  Termination of `inv` is part of the model's definition: Lean accepts the Euclid loop only with the proof that the
  remainder computed through field operations strictly decreases (`stepVal_rem`); `exp` runs at most 64 iterations.
-/
import GoldilocksVerif.Lemmas.InvF
import GoldilocksVerif.Lemmas.BridgeInv

namespace GoldilocksVerif.C10
open GoldilocksVerif Model

/-- inversion refuses exactly the operands congruent to zero (both representations 0 and p) -/
theorem C10_inv_refuses_zero (a : BitVec 64) : Model.inv a = none ↔ den a = 0 := (inv_spec a).1

/-- for every operand not congruent to zero, in any representation, inv returns a canonical value whose
    product with the operand is one -/
theorem C10_inv (a : BitVec 64) (h : den a ≠ 0) :
    ∃ r, Model.inv a = some r ∧ den r * den a = 1 ∧ r.toNat < P := by
  cases hi : Model.inv a with
  | none => exact absurd ((inv_spec a).1.mp hi) h
  | some r => exact ⟨r, rfl, (inv_spec a).2 r hi⟩

/-- div(a,b) · b = a for every dividend and every divisor not congruent to zero -/
theorem C10_div (a b : BitVec 64) (h : den b ≠ 0) :
    ∃ r, Model.div a b = some r ∧ den r * den b = den a := by
  obtain ⟨i, hi, hmul, _⟩ := C10_inv b h
  refine ⟨Gen.Scalar.mul__rEE a i, ?_, ?_⟩
  · unfold Model.div; rw [hi]
  · rw [den_mul_r, mul_assoc, hmul, mul_one]

/-- exp(b,e) = b^e for every 64-bit exponent, including zero -/
theorem C10_exp (b e : BitVec 64) : den (Model.exp b e) = den b ^ e.toNat := exp_spec b e

/-- the results depend only on the residue classes of the operands -/
theorem C10_residue_independent (a a' b b' : BitVec 64) (ha : den a = den a') (hb : den b = den b') (hb0 : den b ≠ 0) :
    (∀ r r', Model.inv b = some r → Model.inv b' = some r' → r = r') ∧
    (∀ r r', Model.div a b = some r → Model.div a' b' = some r' → den r = den r') ∧
    (∀ e, den (Model.exp a e) = den (Model.exp a' e)) := by
  have hP : Fact (Nat.Prime P) := inferInstance
  refine ⟨?_, ?_, ?_⟩
  · intro r r' h1 h2
    obtain ⟨m1, c1⟩ := (inv_spec b).2 r h1
    obtain ⟨m2, c2⟩ := (inv_spec b').2 r' h2
    rw [← hb] at m2
    have hd : den r = den r' := by
      have : den r * den b = den r' * den b := by rw [m1, m2]
      exact mul_right_cancel₀ hb0 this
    have := (den_eq_iff r r').mp hd
    rw [Nat.mod_eq_of_lt c1, Nat.mod_eq_of_lt c2] at this
    exact BitVec.eq_of_toNat_eq this
  · intro r r' h1 h2
    obtain ⟨q, hq, hm⟩ := C10_div a b hb0
    obtain ⟨q', hq', hm'⟩ := C10_div a' b' (by rw [← hb]; exact hb0)
    rw [h1] at hq; rw [h2] at hq'
    cases hq; cases hq'
    rw [← hb, ← ha] at hm'
    exact mul_right_cancel₀ hb0 (hm.trans hm'.symm)
  · intro e; rw [C10_exp, C10_exp, ha]

/-! ## The same statements about the TRANSLATED functions

  `Gen.InvGen.inv___rE / inv___eE / div__rEE / div__eEE / exp___rEE / exp___eEE` are regenerated from the C++ text of
  `Goldilocks::inv / div / exp` on every run (extended mode of tools/tr_cxx.py: the Euclid `while` loop and the `for(;;)`
  of `exp` become fuel-bounded folds over lifted loop bodies, `exit(-1)` becomes `none`).  `fuel` bounds the iterations of
  each loop; the statements hold for EVERY fuel ≥ `invFuel` = 129 (inv, div) resp. ≥ `expFuel` = 64 (exp), and from
  that fuel on `none` can only mean "the process was ended by the code".  Proofs: Lemmas/BridgeInv.lean. -/

/-- the translated functions equal the hand models (so the hand models are no longer part of the trusted base of C10) -/
theorem C10_generated_eq_model (fuel : Nat) (a b : BitVec 64) :
    (invFuel ≤ fuel → Gen.InvGen.inv___rE fuel a = Model.inv a ∧ Gen.InvGen.inv___eE fuel a = Model.inv a ∧
      Gen.InvGen.div__rEE fuel a b = Model.div a b ∧ Gen.InvGen.div__eEE fuel a b = Model.div a b) ∧
    (expFuel ≤ fuel → Gen.InvGen.exp___rEE fuel a b = some (Model.exp a b) ∧
      Gen.InvGen.exp___eEE fuel a b = some (Model.exp a b)) :=
  ⟨fun hf => ⟨inv_r_gen_eq fuel hf a, inv_e_gen_eq fuel hf a, div_r_gen_eq fuel hf a b, div_e_gen_eq fuel hf a b⟩,
   fun hf => ⟨exp_r_gen_eq fuel hf a b, exp_e_gen_eq fuel hf a b⟩⟩

/-- translated inv: ends the process exactly on the zero class (for every fuel ≥ 129 it never runs out of fuel) -/
theorem C10_generated_inv_refuses_zero (fuel : Nat) (hf : invFuel ≤ fuel) (a : BitVec 64) :
    (Gen.InvGen.inv___rE fuel a = none ↔ den a = 0) ∧ (Gen.InvGen.inv___eE fuel a = none ↔ den a = 0) := by
  rw [inv_r_gen_eq fuel hf, inv_e_gen_eq fuel hf]
  exact ⟨C10_inv_refuses_zero a, C10_inv_refuses_zero a⟩

/-- translated inv: canonical inverse of every operand not congruent to zero, in any representation -/
theorem C10_generated_inv (fuel : Nat) (hf : invFuel ≤ fuel) (a : BitVec 64) (h : den a ≠ 0) :
    ∃ r, Gen.InvGen.inv___rE fuel a = some r ∧ Gen.InvGen.inv___eE fuel a = some r ∧ den r * den a = 1 ∧ r.toNat < P := by
  obtain ⟨r, hr, h1, h2⟩ := C10_inv a h
  exact ⟨r, by rw [inv_r_gen_eq fuel hf, hr], by rw [inv_e_gen_eq fuel hf, hr], h1, h2⟩

/-- translated div: div(a,b) · b = a for every divisor not congruent to zero -/
theorem C10_generated_div (fuel : Nat) (hf : invFuel ≤ fuel) (a b : BitVec 64) (h : den b ≠ 0) :
    ∃ r, Gen.InvGen.div__rEE fuel a b = some r ∧ Gen.InvGen.div__eEE fuel a b = some r ∧ den r * den b = den a := by
  obtain ⟨r, hr, h1⟩ := C10_div a b h
  exact ⟨r, by rw [div_r_gen_eq fuel hf, hr], by rw [div_e_gen_eq fuel hf, hr], h1⟩

/-- translated exp: returns for every base and 64-bit exponent (fuel ≥ 64), and the result is b^e -/
theorem C10_generated_exp (fuel : Nat) (hf : expFuel ≤ fuel) (b e : BitVec 64) :
    ∃ r, Gen.InvGen.exp___rEE fuel b e = some r ∧ Gen.InvGen.exp___eEE fuel b e = some r ∧ den r = den b ^ e.toNat :=
  ⟨Model.exp b e, exp_r_gen_eq fuel hf b e, exp_e_gen_eq fuel hf b e, C10_exp b e⟩

/-- more fuel never changes a result: a result obtained with ANY fuel is the hand model's result -/
theorem C10_generated_inv_any_fuel (fuel : Nat) (a r : BitVec 64) (h : Gen.InvGen.inv___eE fuel a = some r) :
    Model.inv a = some r := by
  rw [← inv_e_gen_eq (max fuel invFuel) (Nat.le_max_right _ _) a]
  exact inv_e_gen_mono fuel (max fuel invFuel) (Nat.le_max_left _ _) a r h

/-- non-vacuity: non-canonical operands are covered (p + 3 denotes 3 ≠ 0) -/
example : den 18446744069414584324#64 ≠ 0 := by
  have h : den 18446744069414584324#64 = ((3 : Nat) : F) := den_of_mod _ 3 (by decide)
  rw [h]
  intro h0
  have := (ZMod.natCast_eq_natCast_iff' 3 0 P).mp (by simpa using h0)
  revert this; decide

end GoldilocksVerif.C10
