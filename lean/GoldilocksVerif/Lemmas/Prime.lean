/-
  P = 2^64 - 2^32 + 1 is prime (Lucas test with witness 7, P - 1 = 2^32·3·5·17·257·65537).
  Modular powers are evaluated in the kernel through a square-and-multiply function (`decide +kernel`, no axioms).
-/
import Mathlib.NumberTheory.LucasPrimality
import Mathlib.Tactic.NormNum.Prime
import GoldilocksVerif.Lemmas.Field

namespace GoldilocksVerif

/-- square-and-multiply on `Nat`, structurally recursive on the fuel -/
def powModAux (m : Nat) : Nat → Nat → Nat → Nat → Nat
  | 0, _, _, acc => acc
  | fuel + 1, b, e, acc =>
    if e = 0 then acc
    else powModAux m fuel (b * b % m) (e / 2) (if e % 2 = 1 then acc * b % m else acc)

def powMod (b e m : Nat) : Nat := powModAux m 128 (b % m) e (1 % m)

theorem powModAux_spec (m : Nat) : ∀ (fuel b e acc : Nat), e < 2 ^ fuel →
    powModAux m fuel b e acc % m = acc * b ^ e % m := by
  intro fuel
  induction fuel with
  | zero =>
    intro b e acc h
    have : e = 0 := by omega
    subst this
    simp [powModAux]
  | succ n ih =>
    intro b e acc h
    unfold powModAux
    by_cases he : e = 0
    · subst he; simp
    · simp only [he, if_false]
      have h2 : e / 2 < 2 ^ n := by
        rw [Nat.pow_succ] at h; omega
      rw [ih _ _ _ h2]
      have hdecomp : e = 2 * (e / 2) + e % 2 := by omega
      have hpow : b ^ e = (b * b) ^ (e / 2) * b ^ (e % 2) := by
        conv => lhs; rw [hdecomp]
        rw [Nat.pow_add, Nat.pow_mul, Nat.pow_two]
      rw [hpow]
      by_cases hodd : e % 2 = 1
      · simp only [hodd, if_true, Nat.pow_one]
        have e1 : acc * b % m * (b * b % m) ^ (e / 2) % m = acc * b * (b * b) ^ (e / 2) % m := by
          rw [Nat.mod_mul_mod, Nat.mul_mod, Nat.pow_mod, Nat.mod_mod, ← Nat.pow_mod, ← Nat.mul_mod]
        rw [e1]
        congr 1; ring
      · have h0 : e % 2 = 0 := by omega
        simp only [h0, Nat.zero_ne_one, if_false, Nat.pow_zero, Nat.mul_one]
        rw [Nat.mul_mod, Nat.pow_mod, Nat.mod_mod, ← Nat.pow_mod, ← Nat.mul_mod]

theorem powMod_spec (b e m : Nat) (he : e < 2 ^ 128) : powMod b e m % m = b ^ e % m := by
  unfold powMod
  rw [powModAux_spec m 128 _ _ _ he, Nat.mul_mod, Nat.mod_mod, Nat.pow_mod, Nat.mod_mod, ← Nat.pow_mod, ← Nat.mul_mod,
    Nat.one_mul]

/-- transfer to `ZMod P` -/
theorem zpow_eq_powMod (b e : Nat) (he : e < 2 ^ 128) : ((b : F) ^ e) = ((powMod b e P : Nat) : F) := by
  have h := powMod_spec b e P he
  have : ((powMod b e P : Nat) : F) = ((b ^ e : Nat) : F) := natCast_eq_of_mod _ _ h
  rw [this]; push_cast; rfl

theorem P_sub_one_factors : P - 1 = 2 ^ 32 * 3 * 5 * 17 * 257 * 65537 := by decide

theorem P_prime : Nat.Prime P := by
  apply lucas_primality P (7 : F)
  · have : ((7 : Nat) : F) ^ (P - 1) = 1 := by
      rw [zpow_eq_powMod 7 (P - 1) (by decide)]
      have : powMod 7 (P - 1) P = 1 := by decide +kernel
      rw [this]; simp
    exact_mod_cast this
  · intro q hq hdvd
    rw [P_sub_one_factors] at hdvd
    have hq' : q = 2 ∨ q = 3 ∨ q = 5 ∨ q = 17 ∨ q = 257 ∨ q = 65537 := by
      have p3 : Nat.Prime 3 := by norm_num
      have p5 : Nat.Prime 5 := by norm_num
      have p17 : Nat.Prime 17 := by norm_num
      have p257 : Nat.Prime 257 := by norm_num
      have p65537 : Nat.Prime 65537 := by norm_num
      rcases (Nat.Prime.dvd_mul hq).mp hdvd with h | h
      · rcases (Nat.Prime.dvd_mul hq).mp h with h | h
        · rcases (Nat.Prime.dvd_mul hq).mp h with h | h
          · rcases (Nat.Prime.dvd_mul hq).mp h with h | h
            · rcases (Nat.Prime.dvd_mul hq).mp h with h | h
              · left; exact (Nat.prime_dvd_prime_iff_eq hq Nat.prime_two).mp (hq.dvd_of_dvd_pow h)
              · right; left; exact (Nat.prime_dvd_prime_iff_eq hq p3).mp h
            · right; right; left; exact (Nat.prime_dvd_prime_iff_eq hq p5).mp h
          · right; right; right; left; exact (Nat.prime_dvd_prime_iff_eq hq p17).mp h
        · right; right; right; right; left; exact (Nat.prime_dvd_prime_iff_eq hq p257).mp h
      · right; right; right; right; right; exact (Nat.prime_dvd_prime_iff_eq hq p65537).mp h
    have key : ∀ e : Nat, e < 2 ^ 128 → powMod 7 e P ≠ 1 → powMod 7 e P < P → ((7 : F) ^ e) ≠ 1 := by
      intro e he hne hlt h1
      have : ((7 : Nat) : F) ^ e = 1 := by exact_mod_cast h1
      rw [zpow_eq_powMod 7 e he] at this
      have h2 : ((powMod 7 e P : Nat) : F) = ((1 : Nat) : F) := by rw [this]; simp
      have h3 := (ZMod.natCast_eq_natCast_iff' _ _ _).mp h2
      rw [Nat.mod_eq_of_lt hlt] at h3
      have h4 : (1 : Nat) % P = 1 := by decide
      rw [h4] at h3
      exact hne h3
    rcases hq' with h | h | h | h | h | h <;> subst h
    · exact key _ (by decide) (by decide +kernel) (by decide +kernel)
    · exact key _ (by decide) (by decide +kernel) (by decide +kernel)
    · exact key _ (by decide) (by decide +kernel) (by decide +kernel)
    · exact key _ (by decide) (by decide +kernel) (by decide +kernel)
    · exact key _ (by decide) (by decide +kernel) (by decide +kernel)
    · exact key _ (by decide) (by decide +kernel) (by decide +kernel)

instance : Fact (Nat.Prime P) := ⟨P_prime⟩

end GoldilocksVerif
