/-
  The TRANSLATED `NTT_Goldilocks::extendPol` (Gen/NttGen.lean): the refresh of the `r` / `r_` cache against the hand model's
  `refreshCache`, and the whole function (local transform object constructed and destroyed, scratch allocated and freed,
  scaled inverse transform, forward transform of the zero-extended result — both through the caller-buffer form of
  `NTT` / `INTT` with the dirty scratch block) against the low-degree-extension specification.
-/
import GoldilocksVerif.Lemmas.BridgeNttBuf
import GoldilocksVerif.Lemmas.BridgeNttCtor
import GoldilocksVerif.Lemmas.NttObj

namespace GoldilocksVerif.BridgeNtt
open GoldilocksVerif Gen.NttGen

/-- the object's four blocks are pairwise distinct where it matters for replacing the cache -/
def ObjDisj (obj : NTT_Goldilocks) : Prop :=
  obj.roots.blk ≠ obj.r.blk ∧ obj.roots.blk ≠ obj.r_.blk ∧ obj.powTwoInv.blk ≠ obj.r.blk ∧ obj.powTwoInv.blk ≠ obj.r_.blk

theorem ofU64_bv' (v : Nat) (h : v < 2 ^ 31) : I32.ofU64 (bv v) = (v : Int) := ofU64_bv v h

/-- `computeR` overwrites `r`, `r_` before it reads them: their values at the call do not matter (the source may or may not
    reset them to NULL after `delete[]`) -/
theorem computeR_irrel (fuel : Nat) (X : Heap) (self : NTT_Goldilocks) (a b : Ptr) (N : Int) :
    NTT_computeR fuel X { self with r := a, r_ := b } N = NTT_computeR fuel X self N := by
  unfold NTT_computeR
  rfl

/-- `refresh_rw href (X3, self') : self, n`: the cache refresh of the translated `extendPol` — the first `Option.bind` argument
    of the goal, HOWEVER the source writes it (one nested `if`, two sequential `if`s with the pointers reset, …) — is replaced
    by the value `href` states for the canonical text of `refresh_gen`.  Both texts are evaluated in the four cases
    `r == NULL` × `r_N == n`, where they coincide. -/
macro "refresh_rw " href:ident v:term " : " self:term ", " n:term : tactic => `(tactic| (
  name_bind_arg G with hG
  have hGv : G = some $v := by
    rw [← hG]
    cases hr0 : (($self).r == Ptr.null) <;> cases hn0 : (($self).r_N == $n) <;>
      simp only [hr0, hn0, bne, Bool.not_true, Bool.not_false, Bool.true_or, Bool.false_or, Bool.or_true, Bool.or_false,
        Bool.true_and, Bool.false_and, Bool.and_true, Bool.and_false, if_true, if_false, Bool.false_eq_true, computeR_irrel,
        beq_self_eq_true] at $href:ident ⊢ <;>
      exact $href
  rw [hGv]
  clear hGv hG))

/-- **cache refresh** `if (r == NULL || r_N != N) { if (r != NULL) { delete[] r; delete[] r_; } computeR(N); }` = the model's
    `refreshCache`; blocks other than the old tables are unchanged, the new tables are new blocks -/
theorem refresh_gen (fuel : Nat) (hf : 64 ≤ fuel) (X : Heap) (self : NTT_Goldilocks) (o : Model.Ntt.Obj)
    (hrep : ObjRep X self o) (hin : ObjIn X self) (hdisj : ObjDisj self)
    (hlast : o.rcache ≠ none → self.r.blk + 1 < X.size ∧ self.r_.blk + 1 < X.size)
    (N : Nat) (hN1 : 1 ≤ N) (hN31 : N < 2 ^ 31) :
    ∃ X' self',
      (if (self.r == Ptr.null || self.r_N != bv N) = true then
          (NTT_computeR fuel (if (self.r != Ptr.null) = true then (X.free self.r).free self.r_ else X) self
            (I32.ofU64 (bv N))).bind fun rt_3 => some (rt_3.1, rt_3.2)
        else some (X, self)) = some (X', self') ∧
      ObjRep X' self' (Model.Ntt.refreshCache o N) ∧ ObjIn X' self' ∧ X.size ≤ X'.size ∧
      (∀ c, c < X.size → c ≠ self.r.blk → c ≠ self.r_.blk → X'.block c = X.block c) ∧
      (∀ A, A < X.size → ObjFrame self A → ObjFrame self' A) ∧
      (Model.Ntt.refreshCache o N).rcache ≠ none := by
  obtain ⟨i1, i2, i3, i4⟩ := hin
  obtain ⟨d1, d2, d3, d4⟩ := hdisj
  have hc := hrep.cache
  rw [ofU64_bv N hN31]
  -- the situation in which the tables are (re)built, from a heap X1 that agrees with X outside the old tables
  have build : ∀ X1 : Heap, X1.size = X.size → (∀ c, c ≠ self.r.blk → c ≠ self.r_.blk → X1.block c = X.block c) →
      (o.rcache = none ∨ (self.r.blk ≠ 0)) →
      Model.Ntt.refreshCache o N = { o with rcache := some (Model.Ntt.computeR o N) } →
      ∃ X' self', (NTT_computeR fuel X1 self (N : Int)).bind (fun rt_3 => some (rt_3.1, rt_3.2)) = some (X', self') ∧
        ObjRep X' self' (Model.Ntt.refreshCache o N) ∧ ObjIn X' self' ∧ X.size ≤ X'.size ∧
        (∀ c, c < X.size → c ≠ self.r.blk → c ≠ self.r_.blk → X'.block c = X.block c) ∧
        (∀ A, A < X.size → ObjFrame self A → ObjFrame self' A) ∧
        (Model.Ntt.refreshCache o N).rcache ≠ none := by
    intro X1 hs1 hb1 _ href
    have hcr := computeR_gen fuel (by unfold log2Fuel; omega) X1 self o N hN1 hN31
      (by rw [hb1 _ d3 d4]; exact hrep.pti) hrep.pti_off (by omega)
    rw [hcr]
    simp only [Option.bind_some]
    refine ⟨_, _, rfl, ?_, ?_, ?_, ?_, ?_, ?_⟩
    · rw [href]
      have hlt : ∀ c, c < X.size → ((X1.push (Model.Ntt.computeR o N).2.1).push (Model.Ntt.computeR o N).2.2).block c
          = X1.block c := by
        intro c hc'
        rw [Heap.block_push_lt _ _ _ (by simp; omega), Heap.block_push_lt _ _ _ (by omega)]
      refine ⟨hrep.hs, ?_, hrep.roots_off, ?_, hrep.pti_off, hrep.ext, ?_⟩
      · show ((X1.push _).push _).block self.roots.blk = o.roots
        rw [hlt _ i1, hb1 _ d1 d2]; exact hrep.roots
      · show ((X1.push _).push _).block self.powTwoInv.blk = o.powTwoInv
        rw [hlt _ i2, hb1 _ d3 d4]; exact hrep.pti
      · show (⟨X1.size, 0⟩ : Ptr) ≠ Ptr.null ∧ (BitVec.ofNat 64 N).toNat = (Model.Ntt.computeR o N).1 ∧
          ((X1.push _).push _).block X1.size = (Model.Ntt.computeR o N).2.1 ∧ (0 : Nat) = 0 ∧
          ((X1.push _).push _).block (X1.size + 1) = (Model.Ntt.computeR o N).2.2 ∧ (0 : Nat) = 0
        refine ⟨?_, ?_, ?_, rfl, ?_, rfl⟩
        · intro e; injection e with e _; omega
        · rw [BitVec.toNat_ofNat, Nat.mod_eq_of_lt (by omega)]; rfl
        · rw [Heap.block_push_lt _ _ _ (by simp), Heap.block_push_last _ _ _ rfl]
        · rw [Heap.block_push_last _ _ _ (by simp)]
    · refine ⟨?_, ?_, ?_, ?_⟩ <;> simp <;> omega
    · simp; omega
    · intro c hc1 hc2 hc3
      rw [Heap.block_push_lt _ _ _ (by simp; omega), Heap.block_push_lt _ _ _ (by omega), hb1 _ hc2 hc3]
    · intro A hA ⟨f1, f2, f3, f4⟩
      refine ⟨f1, f2, ?_, ?_⟩
      · show A ≠ X1.size; omega
      · show A ≠ X1.size + 1; omega
    · rw [href]; simp
  cases hrc : o.rcache with
  | none =>
    rw [hrc] at hc
    have hnull : (self.r == Ptr.null) = true := by rw [hc]; simp
    have hnn : (self.r != Ptr.null) = false := by rw [hc]; simp
    rw [hnull, Bool.true_or, if_pos rfl, hnn]
    simp only [Bool.false_eq_true, if_false]
    exact build X rfl (fun _ _ _ => rfl) (Or.inl hrc) (by unfold Model.Ntt.refreshCache; rw [hrc])
  | some v =>
    obtain ⟨n0, r, r_⟩ := v
    rw [hrc] at hc
    obtain ⟨c1, c2, c3, c4, c5, c6⟩ := hc
    have hnull : (self.r == Ptr.null) = false := by simpa using c1
    have hnn : (self.r != Ptr.null) = true := by simpa using c1
    have hrN : (self.r_N != bv N) = decide (n0 ≠ N) := by
      rw [Bool.eq_iff_iff]
      simp only [bne_iff_ne, ne_eq, decide_eq_true_eq]
      constructor
      · intro h e; apply h; apply BitVec.eq_of_toNat_eq; rw [c2, e, bv_toNat _ (by omega)]
      · intro h e; apply h; rw [← c2, e, bv_toNat _ (by omega)]
    rw [hnull, Bool.false_or, hrN, hnn]
    by_cases hn : n0 = N
    · -- the cache is valid: nothing happens
      have : decide (n0 ≠ N) = false := by simp [hn]
      rw [this]
      simp only [Bool.false_eq_true, if_false]
      have href : Model.Ntt.refreshCache o N = o := by
        unfold Model.Ntt.refreshCache; rw [hrc]; simp [hn]
      rw [href]
      exact ⟨X, self, rfl, hrep, ⟨i1, i2, i3, i4⟩, Nat.le_refl _, fun _ _ _ _ => rfl, fun _ _ h => h, by rw [hrc]; simp⟩
    · have : decide (n0 ≠ N) = true := by simp [hn]
      rw [this, if_pos rfl, if_pos rfl]
      obtain ⟨l1, l2⟩ := hlast (by rw [hrc]; simp)
      have hr0 : self.r.blk ≠ 0 := by
        intro e; apply c1
        have : self.r = ⟨self.r.blk, self.r.off⟩ := rfl
        rw [this, e, c4]; rfl
      have hs1 : (X.free self.r).size = X.size := Heap.size_free_mid _ _ (by omega)
      have hs2 : ((X.free self.r).free self.r_).size = X.size := by
        rw [Heap.size_free_mid _ _ (by rw [hs1]; omega), hs1]
      exact build _ hs2 (fun c h1 h2 => by rw [Heap.block_free_other _ _ _ h2, Heap.block_free_other _ _ _ h1])
        (Or.inr hr0) (by unfold Model.Ntt.refreshCache; rw [hrc]; simp [hn])

theorem ObjIn.push {hp : Heap} {obj : NTT_Goldilocks} (h : ObjIn hp obj) (Z : Block) : ObjIn (hp.push Z) obj := by
  obtain ⟨a, b, c, d⟩ := h
  refine ⟨?_, ?_, ?_, ?_⟩ <;> simp <;> omega

theorem ObjIn.frame_ge {hp : Heap} {obj : NTT_Goldilocks} (h : ObjIn hp obj) (A : Nat) (hA : hp.size ≤ A) : ObjFrame obj A := by
  obtain ⟨a, b, c, d⟩ := h
  exact ⟨by omega, by omega, by omega, by omega⟩

theorem refreshCache_fields (o : Model.Ntt.Obj) (n : Nat) :
    (Model.Ntt.refreshCache o n).s = o.s ∧ (Model.Ntt.refreshCache o n).extension = o.extension ∧
    (Model.Ntt.refreshCache o n).roots = o.roots ∧ (Model.Ntt.refreshCache o n).powTwoInv = o.powTwoInv := by
  unfold Model.Ntt.refreshCache
  cases hc : o.rcache with
  | none => exact ⟨rfl, rfl, rfl, rfl⟩
  | some v =>
    obtain ⟨n0, r, r_⟩ := v
    simp only
    by_cases h : n0 = n
    · rw [if_pos h]; exact ⟨rfl, rfl, rfl, rfl⟩
    · rw [if_neg h]; exact ⟨rfl, rfl, rfl, rfl⟩

/-- the destructor only touches the object's own blocks -/
theorem dtor_block (hp : Heap) (obj : NTT_Goldilocks) (c : Nat) (hc : ObjFrame obj c) :
    (NTT_dtor hp obj).block c = hp.block c := by
  obtain ⟨c1, c2, c3, c4⟩ := hc
  unfold NTT_dtor
  dsimp only
  by_cases h1 : (obj.s != 0#32) = true <;> by_cases h2 : (obj.r != Ptr.null) = true <;>
    by_cases h3 : (obj.r_ != Ptr.null) = true <;>
    simp only [h1, h2, h3, if_true, if_false, Bool.false_eq_true] <;>
    simp only [Heap.block_free_other _ _ _ c1, Heap.block_free_other _ _ _ c2, Heap.block_free_other _ _ _ c3,
      Heap.block_free_other _ _ _ c4]

/-- for an object without cache only the table blocks matter -/
theorem ObjRep.frame_fresh {X0 X : Heap} {obj : NTT_Goldilocks} {o : Model.Ntt.Obj} (h : ObjRep X0 obj o) (hc : o.rcache = none)
    (h1 : X.block obj.roots.blk = X0.block obj.roots.blk) (h2 : X.block obj.powTwoInv.blk = X0.block obj.powTwoInv.blk) :
    ObjRep X obj o := by
  refine ⟨h.hs, ?_, h.roots_off, ?_, h.pti_off, h.ext, ?_⟩
  · rw [h1]; exact h.roots
  · rw [h2]; exact h.pti
  · have := h.cache
    rw [hc] at this ⊢
    exact this

/-- the destructor of an object without cache tables frees its two table blocks only -/
theorem dtor_block_fresh (hp : Heap) (obj : NTT_Goldilocks) (c : Nat) (hr : obj.r = Ptr.null) (hr_ : obj.r_ = Ptr.null)
    (c1 : c ≠ obj.roots.blk) (c2 : c ≠ obj.powTwoInv.blk) : (NTT_dtor hp obj).block c = hp.block c := by
  unfold NTT_dtor
  dsimp only
  have h2 : (obj.r != Ptr.null) = false := by rw [hr]; simp
  have h3 : (obj.r_ != Ptr.null) = false := by rw [hr_]; simp
  by_cases h1 : (obj.s != 0#32) = true <;>
    simp only [h1, h2, h3, if_true, if_false, Bool.false_eq_true] <;>
    simp only [Heap.block_free_other _ _ _ c1, Heap.block_free_other _ _ _ c2]

section extend
open GoldilocksVerif.Model.Ntt GoldilocksVerif.NttSpec

/-- **extendPol** on the generated function (no caller buffer, one column block, 1 ≤ dn ≤ de ≤ 30): it returns; the output block
    holds, for every column, the evaluations on the coset 7·ω_de^k of the interpolant of the input column; the returned
    object state represents the model's object with the refreshed cache -/
theorem extendPol_gen (fuel : Nat) (hf : 64 ≤ fuel) (hp : Heap) (self : NTT_Goldilocks) (o : Obj) (Dm : Nat)
    (hrep : ObjRep hp self o) (hin : ObjIn hp self) (hdisj : ObjDisj self) (hO : ObjOk o Dm) (hos : o.s ≤ 32)
    (Out In : Nat) (hOut : Out < hp.size) (hIn : In < hp.size) (hOut0 : Out ≠ 0)
    (hfrOut : ObjFrame self Out) (hfrIn : ObjFrame self In)
    (dn de nc : Nat) (hdn1 : 1 ≤ dn) (hde : dn ≤ de) (hde30 : de ≤ 30) (hdnD : dn ≤ Dm) (hdns : dn ≤ o.s) (hnc : 1 ≤ nc)
    (hbound : 2 ^ de * nc * 8 < 2 ^ 64) (nphase nblock : BitVec 64) (hnb : clampBlock nblock.toNat nc = 1)
    (hout : 2 ^ de * nc ≤ (hp.block Out).size) :
    ∃ hp' self' out, NTT_extendPol fuel hp self ⟨Out, 0⟩ ⟨In, 0⟩ (bv (2 ^ de)) (bv (2 ^ dn)) (bv nc) Ptr.null nphase nblock =
        some (hp', self') ∧ hp'.block Out = out ∧ out.size = (hp.block Out).size ∧
      (∃ X', ObjRep X' self' (refreshCache o (2 ^ dn))) ∧
      ∀ k c, k < 2 ^ de → c < nc →
        cell out nc k c = lde 7 (omega dn) (omega de) (2 ^ dn) (fun j => cell (hp.block In) nc j c) k := by
  have hpos : 0 < hp.size := by omega
  have h2de : 2 ^ de ≤ 2 ^ 30 := Nat.pow_le_pow_right (by omega) hde30
  have h2dn : 2 ^ dn ≤ 2 ^ de := Nat.pow_le_pow_right (by omega) hde
  have h2dn1 : 2 ≤ 2 ^ dn := by
    calc 2 = 2 ^ 1 := rfl
      _ ≤ 2 ^ dn := Nat.pow_le_pow_right (by omega) hdn1
  have hE : 2 ^ de / 2 ^ dn = 2 ^ (de - dn) := Nat.pow_div hde (by omega)
  have hE31 : 2 ^ (de - dn) < 2 ^ 31 := Nat.pow_lt_pow_right (by omega) (by omega)
  have hlogE : log2 (2 ^ de) = de := Nat.log2_two_pow
  -- the local transform object
  obtain ⟨oext, hoext⟩ := mkObj_some (2 ^ de) (2 ^ (de - dn)) (by rw [hlogE]; omega)
  have hne : (2 : Nat) ^ de ≠ 0 := Nat.ne_of_gt (Nat.two_pow_pos de)
  obtain ⟨_, x2, _, x4, _⟩ := mkObj_spec (2 ^ de) (2 ^ (de - dn)) oext hne hoext
  rw [hlogE] at x4
  obtain ⟨hs1E, hs2E, hs3E⟩ := mkObj_s_val (2 ^ de) (2 ^ (de - dn)) oext hne hoext
  rw [hlogE] at hs1E
  have hbvE : (bv (2 ^ de)).toNat = 2 ^ de := bv_toNat _ (by omega)
  have hbvEne : bv (2 ^ de) ≠ 0#64 := by
    intro e; have h2 := congrArg BitVec.toNat e; rw [hbvE] at h2
    have h3 : (0#64 : BitVec 64).toNat = 0 := rfl
    omega
  obtain ⟨selfE, hcE, hrepE, hinE, fE1, fE2, fE3, fE4⟩ := ctor_rep fuel hf hp hpos NTT_Goldilocks.init (bv (2 ^ de)) self.nThreads
    (2 ^ (de - dn)) hbvEne oext (by rw [hbvE]; exact hoext)
  have hdivE : I32.ofU64 (bv (2 ^ de) / bv (2 ^ dn)) = ((2 ^ (de - dn) : Nat) : Int) := by
    rw [bv_div _ _ (by omega) (by omega), hE, ofU64_bv _ hE31]
  have hcnt : (bv (2 ^ de) * bv nc * 8#64).toNat / 8 = 2 ^ de * nc := by
    rw [bv_mul]; exact words_bv _ hbound
  -- the heap with the object's tables and the scratch block
  generalize hhp1 : (hp.push oext.roots).push oext.powTwoInv = hp1 at hcE hrepE hinE
  have hs1 : hp1.size = hp.size + 2 := by rw [← hhp1]; simp
  have hb1 : ∀ c, c < hp.size → hp1.block c = hp.block c := by
    intro c hc; rw [← hhp1, Heap.block_push_lt _ _ _ (by simp; omega), Heap.block_push_lt _ _ _ hc]
  have hrep1 : ObjRep hp1 self o := by rw [← hhp1]; exact (hrep.push hin _).push (hin.push _) _
  have hin1 : ObjIn hp1 self := by rw [← hhp1]; exact (hin.push _).push _
  let Z : Block := Array.replicate (2 ^ de * nc) 0#64
  have hs2 : (hp1.push Z).size = hp.size + 3 := by simp [hs1]
  have hb2 : ∀ c, c < hp.size + 2 → (hp1.push Z).block c = hp1.block c := by
    intro c hc; exact Heap.block_push_lt _ _ _ (by omega)
  have hrep2 : ObjRep (hp1.push Z) self o := hrep1.push hin1 _
  have hin2 : ObjIn (hp1.push Z) self := hin1.push _
  have hrepE2 : ObjRep (hp1.push Z) selfE oext := hrepE.push hinE _
  obtain ⟨i1, i2, i3, i4⟩ := hin
  -- the cache refresh
  obtain ⟨X3, self', href, hrep3, hin3, hsz3, hfr3, hfrm3, hcache3⟩ := refresh_gen fuel hf (hp1.push Z) self o hrep2 hin2 hdisj
    (fun _ => ⟨by rw [hs2]; omega, by rw [hs2]; omega⟩) (2 ^ dn) (by omega) (by omega)
  obtain ⟨rf1, rf2, rf3, rf4⟩ := refreshCache_fields o (2 ^ dn)
  generalize ho' : refreshCache o (2 ^ dn) = o' at hrep3 hcache3 rf1 rf2 rf3 rf4
  have hT2 : hp.size + 2 < (hp1.push Z).size := by rw [hs2]; omega
  have hT3 : hp.size + 2 < X3.size := by omega
  -- what the heap holds after the refresh
  have bOld : ∀ c, c < hp.size → ObjFrame self c → X3.block c = hp.block c := by
    intro c hc ⟨_, _, f3, f4⟩
    rw [hfr3 c (by rw [hs2]; omega) f3 f4, hb2 c (by omega), hb1 c hc]
  have bNew : ∀ c, hp.size ≤ c → c < hp.size + 3 → X3.block c = (hp1.push Z).block c := by
    intro c h1 h2
    exact hfr3 c (by rw [hs2]; exact h2) (by omega) (by omega)
  have bT : X3.block (hp.size + 2) = Z := by
    rw [bNew _ (by omega) (by omega), Heap.block_push_last _ _ _ hs1.symm]
  have hfr'Out : ObjFrame self' Out := hfrm3 Out (by rw [hs2]; omega) hfrOut
  have hfr'T : ObjFrame self' (hp.size + 2) :=
    hfrm3 _ hT2 (ObjIn.frame_ge ⟨i1, i2, i3, i4⟩ _ (by omega))
  have hptrOut : (if ((⟨Out, 0⟩ : Ptr) == Ptr.null) = true then (⟨In, 0⟩ : Ptr) else ⟨Out, 0⟩) = ⟨Out, 0⟩ := by
    have : ((⟨Out, 0⟩ : Ptr) == Ptr.null) = false := by
      have h1 : ((⟨Out, 0⟩ : Ptr) != ⟨0, 0⟩) = true := by rw [ptr_ne]; simp [hOut0]
      show ((⟨Out, 0⟩ : Ptr) == ⟨0, 0⟩) = false
      simpa [bne] using h1
    rw [this]; rfl
  have hle : 2 ^ dn * nc ≤ 2 ^ de * nc := Nat.mul_le_mul_right _ h2dn
  have hOn := hO.mono hdnD
  have hext' : o'.extension ≤ 1 := by rw [rf2]; exact hO.ext
  have hR' : RootsOk o' dn := by
    intro dp idx h1 h2 h3
    have : root o' dp idx = root o dp idx := by unfold root; rw [rf3, rf1]
    rw [this]; exact hOn.roots dp idx h1 h2 h3
  -- step 1: the scaled inverse transform (scratch = the zero block)
  obtain ⟨out1, e1, s1, c1⟩ := nttIters_spec' o' (hp.block Out) (hp.block In) Z (decide (Out = In)) dn 0 nc nc nphase.toNat
    true true hOn.dle hR'
    (by
      by_cases h : Out = In
      · simp only [h, decide_true, if_true]; rw [← h]; omega
      · simp only [h, decide_false, Bool.false_eq_true, if_false]; omega)
    (by show 2 ^ dn * nc ≤ (Array.replicate (2 ^ de * nc) (0#64 : BitVec 64)).size; rw [Array.size_replicate]; exact hle)
    (by omega) (fun _ => ⟨rfl, rfl⟩)
  have hI := INTT_gen_buf fuel hf X3 self' o' hrep3 Out In (hp.size + 2) (by omega) hT3 hOut0 (by omega) (by omega) (by omega)
    hfr'Out hfr'T ⟨Out, 0⟩ hptrOut dn (2 ^ dn) nc nphase nblock true hdn1 (by omega) rfl (by rw [rf1]; exact hdns)
    (by rw [rf1]; exact hos) hnc (by
      have : 2 ^ dn * nc * 8 ≤ 2 ^ de * nc * 8 := Nat.mul_le_mul_right _ hle
      omega) (by omega) (fun _ => hcache3) hnb
  rw [bOld Out hOut hfrOut, bOld In hIn hfrIn, bT, e1] at hI
  obtain ⟨X1', hI1, hI2⟩ := hI
  have hs1sz : out1.size = (hp.block Out).size := by
    rw [s1]
    by_cases h : Out = In
    · simp only [h, decide_true, if_true]
    · simp only [h, decide_false, Bool.false_eq_true, if_false]
  -- step 2: the forward transform of the zero-extended result with the local object (scratch = what step 1 left)
  generalize hX4 : (X3.setBlock Out out1).setBlock (hp.size + 2) X1' = X4 at hI1
  have hs4 : X4.size = X3.size := by rw [← hX4]; simp
  have b4Out : X4.block Out = out1 := by
    rw [← hX4, Heap.block_setBlock_other _ _ _ _ (by omega), Heap.block_setBlock_same _ _ _ (by omega)]
  have b4T : X4.block (hp.size + 2) = X1' := by
    rw [← hX4, Heap.block_setBlock_same _ _ _ (by simp; omega)]
  have b4other : ∀ c, c ≠ Out → c ≠ hp.size + 2 → X4.block c = X3.block c := by
    intro c h1 h2
    rw [← hX4, Heap.block_setBlock_other _ _ _ _ h2, Heap.block_setBlock_other _ _ _ _ h1]
  have hcE0 : oext.rcache = none := Model.Ntt.mkObj_fresh _ _ _ hoext
  have hrepE4 : ObjRep X4 selfE oext := by
    apply hrepE2.frame_fresh hcE0
    · rw [fE1]; show X4.block hp.size = _
      rw [b4other _ (by omega) (by omega), bNew _ (by omega) (by omega)]
    · rw [fE2]; show X4.block (hp.size + 1) = _
      rw [b4other _ (by omega) (by omega), bNew _ (by omega) (by omega)]
  have hfrEOut : ObjFrame selfE Out := by
    refine ⟨?_, ?_, ?_, ?_⟩
    · rw [fE1]; show Out ≠ hp.size; omega
    · rw [fE2]; show Out ≠ hp.size + 1; omega
    · rw [fE3]; exact hOut0
    · rw [fE4]; exact hOut0
  have hfrET : ObjFrame selfE (hp.size + 2) := by
    refine ⟨?_, ?_, ?_, ?_⟩
    · rw [fE1]; show hp.size + 2 ≠ hp.size; omega
    · rw [fE2]; show hp.size + 2 ≠ hp.size + 1; omega
    · rw [fE3]; show hp.size + 2 ≠ 0; omega
    · rw [fE4]; show hp.size + 2 ≠ 0; omega
  have hX1sz : X1'.size = 2 ^ de * nc := by
    rw [hI2]; show (Array.replicate (2 ^ de * nc) (0#64 : BitVec 64)).size = _; rw [Array.size_replicate]
  obtain ⟨out2, e2, s2, c2⟩ := nttIters_spec' oext out1 out1 X1' true de 0 nc nc nphase.toNat false false (by omega) x4
    (by simp only [if_true]; rw [hs1sz]; exact hout) (by rw [hX1sz]) (by omega) (fun _ => ⟨rfl, rfl⟩)
  simp only [if_true] at e2 s2
  have hptrOut2 : (if ((⟨Out, 0⟩ : Ptr) == Ptr.null) = true then (⟨Out, 0⟩ : Ptr) else ⟨Out, 0⟩) = ⟨Out, 0⟩ := by
    split <;> rfl
  have hNt := NTT_gen_buf fuel hf X4 selfE oext hrepE4 Out Out (hp.size + 2) (by omega) (by omega) hOut0 (by omega) (by omega)
    (by omega) hfrEOut hfrET ⟨Out, 0⟩ hptrOut2 de (2 ^ de) nc nphase nblock false false (by omega) hde30 rfl hs1E hs2E hnc hbound
    (by rw [hs3E]; exact hE31) (by intro h; cases h) hnb
  have hdec : decide (Out = Out) = true := by simp
  rw [b4Out, b4T, hdec, e2] at hNt
  obtain ⟨X2', hN1, _⟩ := hNt
  -- the generated function
  unfold NTT_extendPol
  dsimp only
  have hnull : ((Ptr.null : Ptr) == Ptr.null) = true := by decide
  rw [hdivE, hcE]
  simp only [Option.bind_some, hnull, if_true, hcnt, Heap.alloc_fst, Heap.alloc_snd]
  refresh_rw href (X3, self') : self, bv (2 ^ dn)
  simp only [Option.bind_some, hs1]
  rw [hI1]
  simp only [Option.bind_some]
  rw [hN1]
  simp only [Option.bind_some]
  have hfin : (NTT_dtor (((X4.setBlock Out out2).setBlock (hp.size + 2) X2').free ⟨hp.size + 2, 0⟩) selfE).block Out = out2 := by
    rw [dtor_block_fresh _ _ _ fE3 fE4 (by rw [fE1]; show Out ≠ hp.size; omega) (by rw [fE2]; show Out ≠ hp.size + 1; omega),
      Heap.block_free_other _ _ _ (by show Out ≠ hp.size + 2; omega),
      Heap.block_setBlock_other _ _ _ _ (by omega), Heap.block_setBlock_same _ _ _ (by omega)]
  refine ⟨_, self', out2, rfl, hfin, by rw [s2, hs1sz], ⟨X3, by first | exact hrep3 | (rw [← ho'] at hrep3; exact hrep3)⟩, ?_⟩
  -- the low-degree extension (as in `extendPol_spec` of the hand model)
  intro k c hk hc
  rw [c2 k c hk hc, outSpec_fwd _ _ _ _ _ hk]
  unfold lde
  rw [← dft_zero_ext (omega de) 7 (2 ^ dn) (2 ^ de) (Nat.pow_le_pow_right (by omega) hde)]
  apply dft_congr
  intro j hj
  rw [xin_cell, x2, Nat.zero_add]
  have hcond : (2 ^ (de - dn) ≤ 1 ∨ j < 2 ^ de / 2 ^ (de - dn)) ↔ j < 2 ^ dn := by
    have h2 : 2 ^ de / 2 ^ (de - dn) = 2 ^ dn := by
      rw [Nat.pow_div (by omega) (by omega)]; congr 1; omega
    rw [h2]
    constructor
    · rintro (h | h)
      · have : de - dn = 0 := by
          rcases Nat.eq_zero_or_pos (de - dn) with h0 | h0
          · exact h0
          · have := Nat.one_lt_two_pow (n := de - dn) (by omega); omega
        have : de = dn := by omega
        rw [this] at hj; exact hj
      · exact h
    · intro h; exact Or.inr h
  have hrc : o' = setCache o.base (some (computeR o.base (2 ^ dn))) := by
    rw [← ho']; exact refreshCache_of_wf o hO.wf (2 ^ dn)
  by_cases hjn : j < 2 ^ dn
  · rw [if_pos (hcond.mpr hjn), if_pos hjn, c1 j c hjn hc]
    have hx : ∀ i, i < 2 ^ dn → xin o' (hp.block In) (2 ^ dn) nc 0 c i = cell (hp.block In) nc i c := by
      intro i _; rw [xin_cell, if_pos (Or.inl hext'), Nat.zero_add]
    rw [outSpec_congr o' dn true true _ _ j hx]
    unfold outSpec
    have hd0 : ¬ dn = 0 := by omega
    rw [if_neg hd0]
    simp only [if_true]
    have hsf : den (scaleFactor o' true dn j) = 7 ^ j * den (o.powTwoInv.getD dn 0#64) := by
      unfold scaleFactor
      simp only [if_true]
      rw [hrc]
      simp only [setCache]
      obtain ⟨_, _, r3⟩ := computeR_spec o.base (2 ^ dn) (Nat.two_pow_pos dn)
      have := r3 j hjn
      have hlogn : log2 (2 ^ dn) = dn := Nat.log2_two_pow
      rw [hlogn] at this
      exact this
    rw [hsf]
    have hs := hOn.pti dn (Nat.le_refl _)
    rw [← idft_scaled (omega dn) (2 ^ dn) _ j (den (o.powTwoInv.getD dn 0#64)) (by push_cast; exact hs)]
    ring
  · rw [if_neg (fun h => hjn (hcond.mp h)), if_neg hjn]

end extend

end GoldilocksVerif.BridgeNtt
