/-
  Bridge theorems: the TRANSLATED `NTT_Goldilocks::NTT` / `INTT` (Gen/NttGen.lean) with COLUMN BLOCKS — `nblock` clamped to
  `1 … ncols`, `ncols_block`, `ncols_res`, `ncols_alloc`, `malloc` of the scratch `aux` and (for more than one block) of the
  temporary destination `dst_`, the block loop (`NTT_iters` of columns `[offset_cols, offset_cols + aux_ncols)` into `dst_`,
  the scatter loop `memcpy(&dst[ie * ncols + offset_cols], &dst_[ie * aux_ncols], aux_ncols)`, `offset_cols += aux_ncols`), the two
  `free`s — against the hand model's `ntt` / `intt` (Model/Ntt.lean: `nttBlocks`, `nttBlock`, `scatterBlock`), for EVERY
  `nblock` and every size `1 ≤ 2^K ≤ 2^30` (size 1 through `parcpy`, Lemmas/BridgeNttSize1.lean).

  The generated code reuses ONE scratch block and ONE temporary destination for all blocks (dirty after the first block); the
  hand model takes zero-filled ones for every block: `Model.Ntt.nttIters_indep` (Lemmas/NttIndep.lean) — the result of
  `nttIters` does not depend on the initial content of these two buffers, bit for bit.
-/
import GoldilocksVerif.Lemmas.BridgeNttSize1
import GoldilocksVerif.Lemmas.BridgeNttTop
import GoldilocksVerif.Lemmas.NttIndep
import GoldilocksVerif.Lemmas.NttTop

namespace GoldilocksVerif.BridgeNtt
open GoldilocksVerif Gen.NttGen

/-! ### three blocks of a base heap replaced (destination, scratch, temporary destination) -/

def R3 (H : Heap) (D A T : Nat) (x y z : Block) : Heap := ((H.setBlock D x).setBlock A y).setBlock T z

section r3
variable (H : Heap) (D A T : Nat) (hD : D < H.size) (hA : A < H.size) (hT : T < H.size)
  (hDA : D ≠ A) (hDT : D ≠ T) (hAT : A ≠ T) (x y z : Block)

@[simp] theorem size_R3 : (R3 H D A T x y z).size = H.size := by unfold R3; simp

include hD hDA hDT in
theorem R3_block_D : (R3 H D A T x y z).block D = x := by
  unfold R3
  rw [Heap.block_setBlock_other _ _ _ _ hDT, Heap.block_setBlock_other _ _ _ _ hDA, Heap.block_setBlock_same _ _ _ hD]

include hA hAT in
theorem R3_block_A : (R3 H D A T x y z).block A = y := by
  unfold R3
  rw [Heap.block_setBlock_other _ _ _ _ hAT, Heap.block_setBlock_same _ _ _ (by simp; exact hA)]

include hT in
theorem R3_block_T : (R3 H D A T x y z).block T = z := by
  unfold R3
  rw [Heap.block_setBlock_same _ _ _ (by simp; exact hT)]

theorem R3_block_other (c : Nat) (h1 : c ≠ D) (h2 : c ≠ A) (h3 : c ≠ T) : (R3 H D A T x y z).block c = H.block c := by
  unfold R3
  rw [Heap.block_setBlock_other _ _ _ _ h3, Heap.block_setBlock_other _ _ _ _ h2, Heap.block_setBlock_other _ _ _ _ h1]

include hDA hDT in
theorem R3_setBlock_D (x' : Block) : (R3 H D A T x y z).setBlock D x' = R3 H D A T x' y z := by
  unfold R3
  rw [Heap.setBlock_comm _ T D _ _ (Ne.symm hDT), Heap.setBlock_comm _ A D _ _ (Ne.symm hDA), Heap.setBlock_setBlock]

include hAT in
theorem R3_setBlock_A (y' : Block) : (R3 H D A T x y z).setBlock A y' = R3 H D A T x y' z := by
  unfold R3
  rw [Heap.setBlock_comm _ T A _ _ (Ne.symm hAT), Heap.setBlock_setBlock]

theorem R3_setBlock_T (z' : Block) : (R3 H D A T x y z).setBlock T z' = R3 H D A T x y z' := by
  unfold R3
  rw [Heap.setBlock_setBlock]

theorem R3_self : R3 H D A T (H.block D) (H.block A) (H.block T) = H := by
  unfold R3
  rw [Heap.setBlock_block]
  have h1 : (H.setBlock A (H.block A)) = H := Heap.setBlock_block H A
  rw [h1]
  exact Heap.setBlock_block H T

end r3

/-- the last iteration of a counted loop -/
theorem rangeMAux_last {σ : Type} (f : Nat → σ → Option σ) : ∀ (n i : Nat) (s : σ),
    Loop.rangeMAux 1 f (n + 1) i s = (Loop.rangeMAux 1 f n i s).bind (f (i + n)) := by
  intro n
  induction n with
  | zero =>
    intro i s
    rw [Loop.rangeMAux_succ, Loop.rangeMAux_zero]
    show (f i s).bind (fun s' => some s') = f i s
    cases f i s <;> rfl
  | succ n ih =>
    intro i s
    rw [Loop.rangeMAux_succ, Loop.rangeMAux_succ (n := n)]
    cases h : f i s with
    | none => rfl
    | some s' =>
      simp only [Option.bind_some]
      rw [ih (i + 1) s']
      have : i + 1 + n = i + (n + 1) := by omega
      rw [this]

theorem rangeM_last {σ : Type} (f : Nat → σ → Option σ) (n : Nat) (s : σ) :
    Loop.rangeM 0 (n + 1) 1 s f = (Loop.rangeM 0 n 1 s f).bind (f n) := by
  unfold Loop.rangeM
  have e1 : (n + 1 - 0 + 1 - 1) / 1 = n + 1 := by simp
  have e2 : (n - 0 + 1 - 1) / 1 = n := by simp
  rw [e1, e2, rangeMAux_last, Nat.zero_add]

theorem rangeM_zero {σ : Type} (f : Nat → σ → Option σ) (s : σ) : Loop.rangeM 0 0 1 s f = some s := rfl

theorem itersFuel_mono (self : NTT_Goldilocks) (K w NC : Nat) (h : w ≤ NC) : itersFuel self K w ≤ itersFuel self K NC := by
  unfold itersFuel parFuel
  split
  · have : min w (ParCopy.threads (I32.ofU32 self.nThreads)) ≤ min NC (ParCopy.threads (I32.ofU32 self.nThreads)) := by
      rw [Nat.le_min]
      exact ⟨Nat.le_trans (Nat.min_le_left _ _) h, Nat.min_le_right _ _⟩
    omega
  · exact Nat.le_refl _

/-- the clamp of `nblock` -/
theorem clampBlock_gen (nblock : BitVec 64) (NC : Nat) (hNC : NC < 2 ^ 64) (hNC1 : 1 ≤ NC) :
    (if decide ((if decide (nblock < 1#64) = true then 1#64 else nblock) > bv NC) = true then bv NC
      else (if decide (nblock < 1#64) = true then 1#64 else nblock)) = bv (Model.Ntt.clampBlock nblock.toNat NC) := by
  unfold Model.Ntt.clampBlock
  have h1 : decide (nblock < 1#64) = decide (nblock.toNat < 1) := by
    rw [decide_eq_decide, BitVec.lt_def]; rfl
  rw [h1]
  by_cases c1 : nblock.toNat < 1
  · simp only [c1, decide_true, if_true]
    have : ¬ ((1#64 : BitVec 64) > bv NC) := by
      show ¬ (bv NC < bv 1); rw [lt_bv _ _ hNC (by omega)]; omega
    simp only [this, decide_false, Bool.false_eq_true, if_false]
  · simp only [c1, decide_false, Bool.false_eq_true, if_false]
    have h2 : decide (nblock > bv NC) = decide (nblock.toNat > NC) := by
      rw [decide_eq_decide]; show bv NC < nblock ↔ _; rw [BitVec.lt_def, bv_toNat _ hNC]
    rw [h2]
    by_cases c2 : nblock.toNat > NC
    · simp only [c2, decide_true, if_true]
    · simp only [c2, decide_false, Bool.false_eq_true, if_false]
      exact bv_self nblock

/-! ### the scatter loop -/

/-- `for (ie = 0; ie < size; ++ie) memcpy(&dst[ie * ncols + offset_cols], &dst_[ie * aux_ncols], aux_ncols)` = `scatterBlock` -/
theorem scatter_gen (Y : Heap) (D T : Nat) (hD : D < Y.size) (hDT : D ≠ T) (N NC off w : Nat)
    (hb : N * NC + off < 2 ^ 64) (hNw : N * w < 2 ^ 64) (hw8 : w * 8 < 2 ^ 64) (hN64 : N < 2 ^ 64) :
    Loop.rangeM 0 (bv N).toNat 1 Y (NTT_NTT_loop1 ⟨D, 0⟩ (bv NC) (bv off) ⟨T, 0⟩ (bv w)) =
      some (Y.setBlock D (Model.Ntt.scatterBlock (Y.block D) (Y.block T) N NC off w)) := by
  rw [bv_toNat N hN64]
  rw [Heap.rangeM_block Y D hD (fun ie B => Model.Ntt.copyRow B (ie * NC + off) (Y.block T) (ie * w) w) _ 0 N
    (fun ie X _ hie hs hfr => by
      have h1 := mul_le_of_lt ie N NC hie
      have h2 := mul_le_of_lt ie N w hie
      unfold NTT_NTT_loop1
      simp only [Heap.copy_eq, Ptr.add_blk, Ptr.add_off, Nat.zero_add]
      have e1 : (BitVec.ofNat 64 ie * bv NC + bv off).toNat = ie * NC + off := by
        show (bv ie * bv NC + bv off).toNat = _
        rw [bv_mul, bv_add, bv_toNat _ (by omega)]
      have e2 : (BitVec.ofNat 64 ie * bv w).toNat = ie * w := by
        show (bv ie * bv w).toNat = _
        rw [bv_mul, bv_toNat _ (by omega)]
      rw [e1, e2, words_bv w hw8, hfr T (Ne.symm hDT), copyRow_eq])]
  rfl

/-! ### the block loop -/

section blocks
variable (fuel : Nat) (H : Heap) (self : NTT_Goldilocks) (o : Model.Ntt.Obj) (hrep : ObjRep H self o)
variable (D Sx A T : Nat) (hD : D < H.size) (hA : A < H.size) (hT : T < H.size) (hT0 : T ≠ 0)
  (hDA : D ≠ A) (hDT : D ≠ T) (hAT : A ≠ T) (hSA : Sx ≠ A) (hST : Sx ≠ T)
  (hfrD : ObjFrame self D) (hfrA : ObjFrame self A) (hfrT : ObjFrame self T)
variable (K NC q res alloc nb : Nat) (nphase : BitVec 64) (inverse extend : Bool)
  (hK : K ≤ 30) (hKs : K ≤ o.s) (hos : o.s ≤ 32) (hNNC8 : 2 ^ K * NC * 8 < 2 ^ 64)
  (hext31 : o.extension < 2 ^ 31) (hcache : extend = true → o.rcache ≠ none)
  (hnb2 : 2 ≤ nb) (hnbNC : nb ≤ NC) (hq : q = NC / nb) (hres : res = NC % nb) (halloc : alloc = q + if res > 0 then 1 else 0)
  (hf : itersFuel self K NC ≤ fuel)

include hq hres hnb2 in
theorem blk_bounds (ib : Nat) (hib : ib < nb) :
    Model.Ntt.blkOff q res ib + Model.Ntt.blkW q res ib ≤ NC ∧ Model.Ntt.blkW q res ib ≤ NC := by
  have htot : Model.Ntt.blkOff q res nb = NC := by rw [hq, hres]; exact Model.Ntt.blkOff_total NC nb (by omega)
  have h1 : Model.Ntt.blkOff q res ib + Model.Ntt.blkW q res ib ≤ NC := by
    rw [← Model.Ntt.blkOff_succ, ← htot]; exact Model.Ntt.blkOff_mono q res _ _ hib
  exact ⟨h1, by omega⟩

include hrep hD hA hT hT0 hDA hDT hAT hSA hST hfrD hfrA hfrT hK hKs hos hNNC8 hext31 hcache hnb2 hnbNC hq hres halloc hf in
/-- one iteration of the block loop = the hand model's `nttBlock` (which takes a zero-filled scratch buffer and a zero-filled
    temporary destination; the generated code has the ones the previous block left) -/
theorem block_body (ib : Nat) (hib : ib < nb) (dst XA XT : Block) (hXA : 2 ^ K * alloc ≤ XA.size) (hXT : 2 ^ K * alloc ≤ XT.size) :
    (∃ dst' XA' XT',
      Model.Ntt.nttBlock o (Array.replicate (2 ^ K * alloc) 0#64) (decide (D = Sx)) (2 ^ K) NC nphase.toNat q res alloc inverse
          extend ib (.ok (dst, if decide (D = Sx) = true then dst else H.block Sx, Model.Ntt.blkOff q res ib)) =
        .ok (dst', if decide (D = Sx) = true then dst' else H.block Sx, Model.Ntt.blkOff q res (ib + 1)) ∧
      NTT_NTT_loop2 fuel ⟨D, 0⟩ ⟨Sx, 0⟩ (bv (2 ^ K)) (bv NC) nphase (bv nb) inverse extend self (bv q) (bv res) ⟨T, 0⟩ ⟨A, 0⟩ ib
          (R3 H D A T dst XA XT, bv (Model.Ntt.blkOff q res ib)) =
        some (R3 H D A T dst' XA' XT', bv (Model.Ntt.blkOff q res (ib + 1))) ∧
      XA'.size = XA.size ∧ XT'.size = XT.size) ∨
    (∃ e,
      Model.Ntt.nttBlock o (Array.replicate (2 ^ K * alloc) 0#64) (decide (D = Sx)) (2 ^ K) NC nphase.toNat q res alloc inverse
          extend ib (.ok (dst, if decide (D = Sx) = true then dst else H.block Sx, Model.Ntt.blkOff q res ib)) = .error e ∧
      NTT_NTT_loop2 fuel ⟨D, 0⟩ ⟨Sx, 0⟩ (bv (2 ^ K)) (bv NC) nphase (bv nb) inverse extend self (bv q) (bv res) ⟨T, 0⟩ ⟨A, 0⟩ ib
          (R3 H D A T dst XA XT, bv (Model.Ntt.blkOff q res ib)) = none) := by
  obtain ⟨hbo, hbw⟩ := blk_bounds NC q res nb hnb2 hq hres ib hib
  generalize hoff : Model.Ntt.blkOff q res ib = off at hbo
  have hoffs : Model.Ntt.blkOff q res (ib + 1) = off + Model.Ntt.blkW q res ib := by rw [Model.Ntt.blkOff_succ, hoff]
  generalize hw : Model.Ntt.blkW q res ib = w at hbo hbw hoffs
  have hN30 : 2 ^ K ≤ 2 ^ 30 := Nat.pow_le_pow_right (by omega) hK
  have hNpos : 0 < 2 ^ K := Nat.two_pow_pos K
  have hNCle : NC ≤ 2 ^ K * NC := Nat.le_mul_of_pos_left NC hNpos
  have hresnb : res < nb := by rw [hres]; exact Nat.mod_lt _ (by omega)
  have hqNC : q ≤ NC := by rw [hq]; exact Nat.div_le_self _ _
  have hwle : w ≤ alloc := by
    rw [← hw, halloc]; unfold Model.Ntt.blkW
    by_cases h : ib < res
    · rw [if_pos h, if_pos (by omega)]
    · rw [if_neg h]; omega
  have hNw : 2 ^ K * w ≤ 2 ^ K * NC := Nat.mul_le_mul_left _ hbw
  have hNwa : 2 ^ K * w ≤ 2 ^ K * alloc := Nat.mul_le_mul_left _ hwle
  -- the heap of this iteration
  generalize hX : R3 H D A T dst XA XT = X
  have hXs : X.size = H.size := by rw [← hX]; simp
  have hXT' : X.block T = XT := by rw [← hX]; exact R3_block_T H D A T hT _ _ _
  have hXA' : X.block A = XA := by rw [← hX]; exact R3_block_A H D A T hA hAT _ _ _
  have hXD' : X.block D = dst := by rw [← hX]; exact R3_block_D H D A T hD hDA hDT _ _ _
  have hXS' : X.block Sx = (if decide (D = Sx) = true then dst else H.block Sx) := by
    by_cases h : D = Sx
    · simp only [h, decide_true, if_true]; rw [← h]; exact hXD'
    · simp only [h, decide_false, Bool.false_eq_true, if_false]
      rw [← hX]; exact R3_block_other H D A T _ _ _ Sx (Ne.symm h) hSA hST
  generalize hsrc : (if decide (D = Sx) = true then dst else H.block Sx) = srcCur at hXS'
  have hrepX : ObjRep X self o := by
    apply hrep.frame
    obtain ⟨a1, a2, a3, a4⟩ := hfrA
    obtain ⟨t1, t2, t3, t4⟩ := hfrT
    obtain ⟨d1, d2, d3, d4⟩ := hfrD
    rintro c (rfl | rfl | rfl | rfl) <;> rw [← hX] <;> apply R3_block_other <;> first | exact Ne.symm ‹_›
  have hptr : (if ((⟨T, 0⟩ : Ptr) != Ptr.null) = true then (⟨T, 0⟩ : Ptr) else (⟨Sx, 0⟩ : Ptr)) = ⟨T, 0⟩ := by
    have : ((⟨T, 0⟩ : Ptr) != Ptr.null) = true := by
      show ((⟨T, 0⟩ : Ptr) != ⟨0, 0⟩) = true
      rw [ptr_ne]; simp [hT0]
    rw [if_pos this]
  have hit := nttIters_gen_all fuel X self o hrepX T Sx A (by omega) (by omega) (Ne.symm hAT) hSA hfrT hfrA ⟨T, 0⟩ hptr
    K (2 ^ K) off w NC nphase inverse extend hK rfl hKs hos (by omega) (by omega) (by omega) hext31 hcache
    (Nat.le_trans (itersFuel_mono self K w NC hbw) hf)
  have hdecT : decide (T = Sx) = false := by simp [Ne.symm hST]
  rw [hXT', hXS', hXA', hdecT] at hit
  -- the hand model's call, with zero-filled buffers
  have hZs : (Array.replicate (2 ^ K * alloc) (0#64 : BitVec 64)).size = 2 ^ K * alloc := Array.size_replicate
  have hind := Model.Ntt.nttIters_indep o XT (Array.replicate (2 ^ K * alloc) 0#64) srcCur XA
    (Array.replicate (2 ^ K * alloc) 0#64) false K off w NC nphase.toNat inverse extend (fun _ => False)
    ⟨by simp only [Bool.false_eq_true, if_false]; omega, by simp only [Bool.false_eq_true, if_false]; rw [hZs]; omega,
      fun i hi => absurd hi id⟩ (by omega) (by rw [hZs]; omega)
  -- the schedule of the generated loop body
  have hauxn : (if decide (BitVec.ofNat 64 ib < bv res) = true then bv q + 1#64 else bv q) = bv w := by
    have : decide (BitVec.ofNat 64 ib < bv res) = decide (ib < res) := by
      rw [decide_eq_decide]; show bv ib < bv res ↔ _; rw [lt_bv _ _ (by omega) (by omega)]
    rw [this, ← hw]
    unfold Model.Ntt.blkW
    by_cases h : ib < res
    · simp only [h, decide_true, if_true]; rw [bv_one, bv_add]
    · simp only [h, decide_false, Bool.false_eq_true, if_false]; rfl
  have hgt : decide (bv nb > 1#64) = true := by
    rw [decide_eq_true_eq]; show bv 1 < bv nb; rw [lt_bv _ _ (by omega) (by omega)]; omega
  unfold Model.Ntt.nttBlock NTT_NTT_loop2
  dsimp only
  have hw' : q + (if ib < res then 1 else 0) = w := hw
  rw [hw', hoffs]
  have hauxn' : (if decide (BitVec.ofNat 64 ib < bv res) = true then (let aux_ncols := bv q + 1#64; aux_ncols) else bv q) =
      bv w := hauxn
  rw [hauxn']
  rcases hind with ⟨r, r', e, e', hag⟩ | ⟨er, e, e'⟩
  · simp only [Bool.false_eq_true, if_false] at e e'
    rw [e] at hit
    obtain ⟨XA', hgen, hXAs⟩ := hit
    left
    rw [e', hgen]
    have hsc : Model.Ntt.scatterBlock dst r' (2 ^ K) NC off w = Model.Ntt.scatterBlock dst r (2 ^ K) NC off w :=
      (Model.Ntt.scatterBlock_congr dst r r' (2 ^ K) NC off w _ hag (fun i hi => Or.inr hi)).symm
    have hrs : r.size = XT.size := by
      have h1 := Model.Ntt.nttIters_size o XT srcCur XA false K off w NC nphase.toNat inverse extend r _ e
      simpa using h1
    have hY : (X.setBlock T r).setBlock A XA' = R3 H D A T dst XA' r := by
      rw [← hX, R3_setBlock_T, R3_setBlock_A H D A T hAT]
    have hsg := scatter_gen (R3 H D A T dst XA' r) D T (by simp; exact hD) hDT (2 ^ K) NC off w (by omega) (by omega) (by omega)
      (by omega)
    rw [R3_block_D H D A T hD hDA hDT, R3_block_T H D A T hT, R3_setBlock_D H D A T hDA hDT] at hsg
    refine ⟨Model.Ntt.scatterBlock dst r (2 ^ K) NC off w, XA', r, ?_, ?_, hXAs, hrs⟩
    · simp only []
      rw [hsc, ← hsrc]
      by_cases h : D = Sx <;> simp [h]
    · simp only [Option.bind_some, hgt, if_true, hY, hsg, bv_add]
  · rw [e] at hit
    right
    refine ⟨er, ?_, ?_⟩
    · rw [e']
    · rw [hit]; rfl

include hrep hD hA hT hT0 hDA hDT hAT hSA hST hfrD hfrA hfrT hK hKs hos hNNC8 hext31 hcache hnb2 hnbNC hq hres halloc hf in
/-- the first `ib` iterations of the block loop = the hand model's fold of `nttBlock` -/
theorem blocks_loop (hAs : 2 ^ K * alloc ≤ (H.block A).size) (hTs : 2 ^ K * alloc ≤ (H.block T).size) : ∀ ib, ib ≤ nb →
    (∃ dst XA XT,
      Model.Ntt.iter ib (Except.ok (H.block D, H.block Sx, 0))
          (Model.Ntt.nttBlock o (Array.replicate (2 ^ K * alloc) 0#64) (decide (D = Sx)) (2 ^ K) NC nphase.toNat q res alloc
            inverse extend) =
        .ok (dst, if decide (D = Sx) = true then dst else H.block Sx, Model.Ntt.blkOff q res ib) ∧
      Loop.rangeM 0 ib 1 (H, bv 0) (NTT_NTT_loop2 fuel ⟨D, 0⟩ ⟨Sx, 0⟩ (bv (2 ^ K)) (bv NC) nphase (bv nb) inverse extend self
          (bv q) (bv res) ⟨T, 0⟩ ⟨A, 0⟩) =
        some (R3 H D A T dst XA XT, bv (Model.Ntt.blkOff q res ib)) ∧
      XA.size = (H.block A).size ∧ XT.size = (H.block T).size) ∨
    (∃ e,
      Model.Ntt.iter ib (Except.ok (H.block D, H.block Sx, 0))
          (Model.Ntt.nttBlock o (Array.replicate (2 ^ K * alloc) 0#64) (decide (D = Sx)) (2 ^ K) NC nphase.toNat q res alloc
            inverse extend) = .error e ∧
      Loop.rangeM 0 ib 1 (H, bv 0) (NTT_NTT_loop2 fuel ⟨D, 0⟩ ⟨Sx, 0⟩ (bv (2 ^ K)) (bv NC) nphase (bv nb) inverse extend self
          (bv q) (bv res) ⟨T, 0⟩ ⟨A, 0⟩) = none) := by
  intro ib
  induction ib with
  | zero =>
    intro _
    left
    refine ⟨H.block D, H.block A, H.block T, ?_, ?_, rfl, rfl⟩
    · rw [Model.Ntt.iter_zero]
      have e0 : Model.Ntt.blkOff q res 0 = 0 := by simp [Model.Ntt.blkOff]
      rw [e0]
      by_cases h : D = Sx
      · simp [h]
      · simp [h]
    · have e0 : Model.Ntt.blkOff q res 0 = 0 := by simp [Model.Ntt.blkOff]
      rw [rangeM_zero, R3_self, e0]
  | succ ib ih =>
    intro hib
    rw [Model.Ntt.iter_succ, rangeM_last]
    rcases ih (by omega) with ⟨dst, XA, XT, e1, e2, s1, s2⟩ | ⟨e, e1, e2⟩
    · rw [e1, e2]
      simp only [Option.bind_some]
      rcases block_body fuel H self o hrep D Sx A T hD hA hT hT0 hDA hDT hAT hSA hST hfrD hfrA hfrT K NC q res alloc nb nphase
        inverse extend hK hKs hos hNNC8 hext31 hcache hnb2 hnbNC hq hres halloc hf ib (by omega) dst XA XT (by omega) (by omega)
        with ⟨dst', XA', XT', b1, b2, b3, b4⟩ | ⟨e, b1, b2⟩
      · left
        exact ⟨dst', XA', XT', b1, b2, by omega, by omega⟩
      · right
        exact ⟨e, b1, b2⟩
    · right
      rw [e1, e2]
      exact ⟨e, rfl, rfl⟩

end blocks

/-! ### `NTT` -/

theorem ObjIn.frame_ge' {hp : Heap} {obj : NTT_Goldilocks} (h : ObjIn hp obj) (A : Nat) (hA : hp.size ≤ A) : ObjFrame obj A := by
  obtain ⟨a, b, c, d⟩ := h
  exact ⟨by omega, by omega, by omega, by omega⟩

theorem ObjIn.push' {hp : Heap} {obj : NTT_Goldilocks} (h : ObjIn hp obj) (Z : Block) : ObjIn (hp.push Z) obj := by
  obtain ⟨a, b, c, d⟩ := h
  refine ⟨?_, ?_, ?_, ?_⟩ <;> simp <;> omega

/-- **NTT with more than one column block** (no caller scratch buffer) = the hand model's `ntt` -/
theorem NTT_gen_blocks (fuel : Nat) (hp : Heap) (self : NTT_Goldilocks) (o : Model.Ntt.Obj)
    (hrep : ObjRep hp self o) (hin : ObjIn hp self) (D Sx : Nat) (hD : D < hp.size) (hSx : Sx < hp.size)
    (hfrD : ObjFrame self D) (mode : Model.Ntt.DstMode) (hmode : mode = .other ↔ D ≠ Sx)
    (dst : Ptr) (hdst : (if (dst == Ptr.null) = true then (⟨Sx, 0⟩ : Ptr) else dst) = ⟨D, 0⟩)
    (K N NC : Nat) (nphase nblock : BitVec 64) (inverse extend : Bool)
    (hK : K ≤ 30) (hN : N = 2 ^ K) (hKs : K ≤ o.s) (hos : o.s ≤ 32) (hNC1 : 1 ≤ NC)
    (hNNC8 : N * NC * 8 < 2 ^ 64) (hext31 : o.extension < 2 ^ 31) (hcache : extend = true → o.rcache ≠ none)
    (hnb : 2 ≤ Model.Ntt.clampBlock nblock.toNat NC) (hf : itersFuel self K NC ≤ fuel) :
    match Model.Ntt.ntt o mode (hp.block D) (hp.block Sx) N NC nphase.toNat nblock.toNat inverse extend with
    | .ok (d, _) => NTT_NTT fuel hp self dst ⟨Sx, 0⟩ (bv N) (bv NC) Ptr.null nphase nblock inverse extend =
        some (hp.setBlock D d)
    | .error _ => NTT_NTT fuel hp self dst ⟨Sx, 0⟩ (bv N) (bv NC) Ptr.null nphase nblock inverse extend = none := by
  subst hN
  have hNpos : 0 < 2 ^ K := Nat.two_pow_pos K
  have hN30 : 2 ^ K ≤ 2 ^ 30 := Nat.pow_le_pow_right (by omega) hK
  have hNCle : NC ≤ 2 ^ K * NC := Nat.le_mul_of_pos_left NC hNpos
  have hNC64 : NC < 2 ^ 64 := by omega
  have hc0 : (bv NC == 0#64) = false := by
    show (bv NC == bv 0) = false
    rw [beq_bv _ _ hNC64 (by omega)]; simp; omega
  have hs0 : (bv (2 ^ K) == 0#64) = false := by
    show (bv (2 ^ K) == bv 0) = false
    rw [beq_bv _ _ (by omega) (by omega)]; simp
  have hclamp := clampBlock_gen nblock NC hNC64 hNC1
  obtain ⟨_, hnbNC⟩ := Model.Ntt.clampBlock_range nblock.toNat NC hNC1
  generalize hnbe : Model.Ntt.clampBlock nblock.toNat NC = nb at hclamp hnb hnbNC
  have hgt1 : decide (bv nb > 1#64) = true := by
    rw [decide_eq_true_eq]; show bv 1 < bv nb; rw [lt_bv _ _ (by omega) (by omega)]; omega
  have hdiv : bv NC / bv nb = bv (NC / nb) := bv_div _ _ hNC64 (by omega)
  have hmod : bv NC % bv nb = bv (NC % nb) := bv_mod _ _ hNC64 (by omega)
  generalize hq : NC / nb = q at hdiv
  generalize hres : NC % nb = res at hmod
  have hresnb : res < nb := by rw [← hres]; exact Nat.mod_lt _ (by omega)
  have hqNC : q ≤ NC := by rw [← hq]; exact Nat.div_le_self _ _
  have hq1 : 1 ≤ q := by rw [← hq]; exact Nat.div_pos hnbNC (by omega)
  have hresd : decide (bv res > 0#64) = decide (res > 0) := by
    rw [decide_eq_decide]; show bv 0 < bv res ↔ _; rw [lt_bv _ _ (by omega) (by omega)]
  have hallocg : (if decide (res > 0) = true then bv q + 1#64 else bv q) = bv (q + if res > 0 then 1 else 0) := by
    by_cases h : res > 0
    · simp only [h, decide_true, if_true]; rw [bv_one, bv_add]
    · simp only [h, decide_false, Bool.false_eq_true, if_false]; rfl
  generalize halloc : (q + if res > 0 then 1 else 0) = alloc at hallocg
  have hallocNC : alloc ≤ NC := by
    rw [← halloc]
    by_cases h : res > 0
    · rw [if_pos h]
      -- q * nb + res = NC with nb ≥ 2, q ≥ 1
      have h1 := Nat.div_add_mod NC nb
      rw [hq, hres] at h1
      have h2 : nb * q ≥ 2 * q := Nat.mul_le_mul_right q hnb
      omega
    · rw [if_neg h]; omega
  have hNa : 2 ^ K * alloc ≤ 2 ^ K * NC := Nat.mul_le_mul_left _ hallocNC
  have hcnt : (8#64 * bv (2 ^ K) * bv alloc).toNat / 8 = 2 ^ K * alloc := by
    have h8 : (8#64 : BitVec 64) = bv 8 := rfl
    have e8 : 8 * 2 ^ K * alloc = 2 ^ K * alloc * 8 := by rw [Nat.mul_assoc, Nat.mul_comm]
    rw [h8, bv_mul, bv_mul, e8, bv_toNat _ (by omega)]
    omega
  -- the hand model
  have hdis : decide (mode ≠ Model.Ntt.DstMode.other) = decide (D = Sx) := by
    rw [decide_eq_decide]
    constructor
    · intro h; by_contra h2; exact h (hmode.mpr h2)
    · intro h h2; exact (hmode.mp h2) h
  have hdst0 : (if decide (D = Sx) = true then hp.block Sx else hp.block D) = hp.block D := by
    by_cases h : D = Sx
    · subst h; simp
    · simp [h]
  have hm : Model.Ntt.ntt o mode (hp.block D) (hp.block Sx) (2 ^ K) NC nphase.toNat nblock.toNat inverse extend =
      match Model.Ntt.iter nb (Except.ok (hp.block D, hp.block Sx, 0))
          (Model.Ntt.nttBlock o (Array.replicate (2 ^ K * alloc) 0#64) (decide (D = Sx)) (2 ^ K) NC nphase.toNat q res alloc
            inverse extend) with
      | .error e => .error e
      | .ok (dst, src, _) => .ok (dst, src) := by
    unfold Model.Ntt.ntt
    rw [if_neg (by omega), hnbe]
    unfold Model.Ntt.nttBlocks
    simp only [hq, hres, halloc, hdis, hdst0]
    rw [if_neg (by omega)]
    cases Model.Ntt.iter nb (Except.ok (hp.block D, hp.block Sx, 0))
          (Model.Ntt.nttBlock o (Array.replicate (2 ^ K * alloc) 0#64) (decide (D = Sx)) (2 ^ K) NC nphase.toNat q res alloc
            inverse extend) <;> rfl
  rw [hm]
  -- the heap with the scratch block and the temporary destination
  let Z : Block := Array.replicate (2 ^ K * alloc) 0#64
  have hZs : Z.size = 2 ^ K * alloc := Array.size_replicate
  generalize hH : (hp.push Z).push Z = H
  have hHs : H.size = hp.size + 2 := by rw [← hH]; simp
  have hHb : ∀ c, c < hp.size → H.block c = hp.block c := by
    intro c hc; rw [← hH, Heap.block_push_lt _ _ _ (by simp; omega), Heap.block_push_lt _ _ _ hc]
  have hHA : H.block hp.size = Z := by
    rw [← hH, Heap.block_push_lt _ _ _ (by simp), Heap.block_push_last _ _ _ rfl]
  have hHT : H.block (hp.size + 1) = Z := by rw [← hH, Heap.block_push_last _ _ _ (by simp)]
  have hrepH : ObjRep H self o := by rw [← hH]; exact (hrep.push hin _).push (ObjIn.push' hin _) _
  have hloop := blocks_loop fuel H self o hrepH D Sx hp.size (hp.size + 1) (by omega) (by omega) (by omega) (by omega) (by omega)
    (by omega) (by omega) (by omega) (by omega) hfrD (ObjIn.frame_ge' hin _ (by omega)) (ObjIn.frame_ge' hin _ (by omega))
    K NC q res alloc nb nphase inverse extend hK hKs hos hNNC8 hext31 hcache hnb hnbNC hq.symm hres.symm halloc.symm hf
    (by rw [hHA, hZs]) (by rw [hHT, hZs]) nb (Nat.le_refl _)
  rw [hHb D hD, hHb Sx hSx] at hloop
  -- the generated function
  have hnull : ((Ptr.null : Ptr) == Ptr.null) = true := by decide
  have hnbt : (bv nb).toNat = nb := bv_toNat _ (by omega)
  unfold NTT_NTT
  rw [hc0, hs0]
  simp only [Bool.or_false, Bool.false_eq_true, if_false, hclamp, hgt1, hdiv, hmod, hresd, hallocg, hnull, if_true, hdst, add_toU64_ite, toU64_int_zero, BitVec.add_zero, hcnt,
    Heap.alloc_fst, Heap.alloc_snd, Heap.size_push, hnbt]
  have hZ' : (Array.replicate (2 ^ K * alloc) (0#64 : BitVec 64)) = Z := rfl
  have hz0 : (0#64 : BitVec 64) = bv 0 := rfl
  rw [hZ', hH, hz0]
  rcases hloop with ⟨dstF, XA, XT, e1, e2, s1, s2⟩ | ⟨e, e1, e2⟩
  · rw [e1, e2]
    simp only [Option.bind_some]
    have hR : R3 H D hp.size (hp.size + 1) dstF XA XT = ((hp.setBlock D dstF).push XA).push XT := by
      unfold R3
      rw [← hH, Heap.setBlock_push_lt _ _ _ _ (by simp; omega), Heap.setBlock_push_lt _ _ _ _ hD]
      rw [Heap.setBlock_push_lt _ _ _ _ (by simp), Heap.setBlock_push_last' _ _ _ _ (by simp),
        Heap.setBlock_push_last' _ _ _ _ (by simp)]
    rw [hR, Heap.free_push' _ _ _ (by simp) (by simp), Heap.free_push' _ _ _ (by simp) (by simp; omega)]
  · rw [e1, e2]
    rfl

/-- **NTT with one column block, every size 1 ≤ 2^K ≤ 2^30** (`NTT_gen` of Lemmas/BridgeNttTop.lean with size 1 added) -/
theorem NTT_gen_one (fuel : Nat) (hp : Heap) (self : NTT_Goldilocks) (o : Model.Ntt.Obj)
    (hrep : ObjRep hp self o) (hin : ObjIn hp self) (D Sx : Nat) (hD : D < hp.size) (hSx : Sx < hp.size) (hD0 : D ≠ 0)
    (hfrD : ObjFrame self D) (mode : Model.Ntt.DstMode) (hmode : mode = .other ↔ D ≠ Sx)
    (dst : Ptr) (hdst : (if (dst == Ptr.null) = true then (⟨Sx, 0⟩ : Ptr) else dst) = ⟨D, 0⟩)
    (K N NC : Nat) (nphase nblock : BitVec 64) (inverse extend : Bool)
    (hK : K ≤ 30) (hN : N = 2 ^ K) (hKs : K ≤ o.s) (hos : o.s ≤ 32) (hNC1 : 1 ≤ NC)
    (hNNC8 : N * NC * 8 < 2 ^ 64) (hext31 : o.extension < 2 ^ 31) (hcache : extend = true → o.rcache ≠ none)
    (hnb : Model.Ntt.clampBlock nblock.toNat NC = 1) (hf : itersFuel self K NC ≤ fuel) :
    match Model.Ntt.ntt o mode (hp.block D) (hp.block Sx) N NC nphase.toNat nblock.toNat inverse extend with
    | .ok (d, _) => NTT_NTT fuel hp self dst ⟨Sx, 0⟩ (bv N) (bv NC) Ptr.null nphase nblock inverse extend =
        some (hp.setBlock D d)
    | .error _ => NTT_NTT fuel hp self dst ⟨Sx, 0⟩ (bv N) (bv NC) Ptr.null nphase nblock inverse extend = none := by
  have hNpos : 0 < N := by rw [hN]; exact Nat.two_pow_pos K
  have hN30 : N ≤ 2 ^ 30 := by rw [hN]; exact Nat.pow_le_pow_right (by omega) hK
  have hNCle : NC ≤ N * NC := Nat.le_mul_of_pos_left NC hNpos
  have hNC64 : NC < 2 ^ 64 := by omega
  have hc0 : (bv NC == 0#64) = false := by
    show (bv NC == bv 0) = false
    rw [beq_bv _ _ hNC64 (by omega)]; simp; omega
  have hs0 : (bv N == 0#64) = false := by
    show (bv N == bv 0) = false
    rw [beq_bv _ _ (by omega) (by omega)]; simp; omega
  have hclamp := clampBlock_gen nblock NC hNC64 hNC1
  rw [hnb] at hclamp
  have hgt1 : decide ((bv 1 : BitVec 64) > 1#64) = false := by decide
  have hdiv : bv NC / bv 1 = bv NC := by rw [bv_div _ _ hNC64 (by omega), Nat.div_one]
  have hmod : bv NC % bv 1 = bv 0 := by rw [bv_mod _ _ hNC64 (by omega), Nat.mod_one]
  have hres : decide (bv 0 > 0#64) = false := by decide
  have hlt0 : decide (BitVec.ofNat 64 0 < bv 0) = false := by decide
  have hcnt : (8#64 * bv N * bv NC).toNat / 8 = N * NC := by
    have h8 : (8#64 : BitVec 64) = bv 8 := rfl
    have e8 : 8 * N * NC = N * NC * 8 := by rw [Nat.mul_assoc, Nat.mul_comm]
    rw [h8, bv_mul, bv_mul, e8, bv_toNat _ hNNC8]
    omega
  have hm : Model.Ntt.ntt o mode (hp.block D) (hp.block Sx) N NC nphase.toNat nblock.toNat inverse extend =
      Model.Ntt.nttIters o (hp.block D) (hp.block Sx) (Array.replicate (N * NC) 0#64) (decide (D = Sx)) N 0 NC NC
        nphase.toNat inverse extend := by
    unfold Model.Ntt.ntt
    rw [if_neg (by omega), hnb]
    unfold Model.Ntt.nttBlocks
    have e1 : NC / 1 + (if NC % 1 > 0 then 1 else 0) = NC := by
      rw [Nat.div_one, Nat.mod_one]; rfl
    have e2 : decide (mode ≠ Model.Ntt.DstMode.other) = decide (D = Sx) := by
      rw [decide_eq_decide]
      constructor
      · intro h; by_contra h2; exact h (hmode.mpr h2)
      · intro h h2; exact (hmode.mp h2) h
    simp only [e1, e2, Nat.le_refl, if_true]
  rw [hm]
  have hAx : hp.size < (hp.push (Array.replicate (N * NC) 0#64)).size := by simp
  have hit := nttIters_gen_all fuel (hp.push (Array.replicate (N * NC) 0#64)) self o (hrep.push hin _) D Sx hp.size
    (by simp; omega) hAx (by omega) (by omega) hfrD hin.frame_last ⟨D, 0⟩
    (by
      have : ((⟨D, 0⟩ : Ptr) != Ptr.null) = true := by
        show ((⟨D, 0⟩ : Ptr) != ⟨0, 0⟩) = true
        rw [ptr_ne]; simp [hD0]
      rw [if_pos this])
    K N 0 NC NC nphase inverse extend hK hN hKs hos (by omega) (by omega) (by omega) hext31 hcache hf
  rw [Heap.block_push_lt _ _ _ hD, Heap.block_push_lt _ _ _ hSx, Heap.block_push_last _ _ _ rfl] at hit
  unfold NTT_NTT
  rw [hc0, hs0]
  simp only [Bool.or_false, Bool.false_eq_true, if_false, hclamp, hgt1, hdiv, hmod, hres, beq_self_eq_true, if_true, hdst,
    add_toU64_ite, toU64_int_zero, BitVec.add_zero, hcnt, Heap.alloc_fst, Heap.alloc_snd]
  have h1n : (bv 1).toNat = 1 := rfl
  rw [h1n, rangeM_one]
  unfold NTT_NTT_loop2
  simp only [hlt0, Bool.false_eq_true, if_false, hgt1]
  have hz : (0#64 : BitVec 64) = bv 0 := rfl
  rw [hz]
  cases hr : Model.Ntt.nttIters o (hp.block D) (hp.block Sx) (Array.replicate (N * NC) 0#64) (decide (D = Sx)) N 0 NC NC
      nphase.toNat inverse extend with
  | error e =>
    rw [hr] at hit
    simp only [] at hit
    rw [hit]
    rfl
  | ok v =>
    obtain ⟨d, s'⟩ := v
    rw [hr] at hit
    obtain ⟨X', hX, hXs⟩ := hit
    rw [hX]
    simp only [Option.bind_some]
    rw [Heap.setBlock_push_lt _ _ _ _ hD, Heap.setBlock_push_last' _ _ _ _ (by simp),
      Heap.free_push' _ _ _ (by simp) (by simp; omega)]

/-- **NTT = the hand model's `ntt`, every `nblock`, every size 1 ≤ 2^K ≤ 2^30, ncols ≥ 1, no caller scratch buffer**: the
    generated function returns iff the hand model does; the heap ends with the destination block holding the hand model's result
    and NOTHING else changed (scratch and temporary destination allocated and freed) -/
theorem NTT_gen_all (fuel : Nat) (hp : Heap) (self : NTT_Goldilocks) (o : Model.Ntt.Obj)
    (hrep : ObjRep hp self o) (hin : ObjIn hp self) (D Sx : Nat) (hD : D < hp.size) (hSx : Sx < hp.size) (hD0 : D ≠ 0)
    (hfrD : ObjFrame self D) (mode : Model.Ntt.DstMode) (hmode : mode = .other ↔ D ≠ Sx)
    (dst : Ptr) (hdst : (if (dst == Ptr.null) = true then (⟨Sx, 0⟩ : Ptr) else dst) = ⟨D, 0⟩)
    (K N NC : Nat) (nphase nblock : BitVec 64) (inverse extend : Bool)
    (hK : K ≤ 30) (hN : N = 2 ^ K) (hKs : K ≤ o.s) (hos : o.s ≤ 32) (hNC1 : 1 ≤ NC)
    (hNNC8 : N * NC * 8 < 2 ^ 64) (hext31 : o.extension < 2 ^ 31) (hcache : extend = true → o.rcache ≠ none)
    (hf : itersFuel self K NC ≤ fuel) :
    match Model.Ntt.ntt o mode (hp.block D) (hp.block Sx) N NC nphase.toNat nblock.toNat inverse extend with
    | .ok (d, _) => NTT_NTT fuel hp self dst ⟨Sx, 0⟩ (bv N) (bv NC) Ptr.null nphase nblock inverse extend =
        some (hp.setBlock D d)
    | .error _ => NTT_NTT fuel hp self dst ⟨Sx, 0⟩ (bv N) (bv NC) Ptr.null nphase nblock inverse extend = none := by
  obtain ⟨h1, _⟩ := Model.Ntt.clampBlock_range nblock.toNat NC hNC1
  by_cases hnb : Model.Ntt.clampBlock nblock.toNat NC = 1
  · exact NTT_gen_one fuel hp self o hrep hin D Sx hD hSx hD0 hfrD mode hmode dst hdst K N NC nphase nblock inverse extend hK hN hKs
      hos hNC1 hNNC8 hext31 hcache hnb hf
  · exact NTT_gen_blocks fuel hp self o hrep hin D Sx hD hSx hfrD mode hmode dst hdst K N NC nphase nblock inverse extend hK hN hKs
      hos hNC1 hNNC8 hext31 hcache (by omega) hf

/-- **INTT = the hand model's `intt`**, same scope -/
theorem INTT_gen_all (fuel : Nat) (hp : Heap) (self : NTT_Goldilocks) (o : Model.Ntt.Obj)
    (hrep : ObjRep hp self o) (hin : ObjIn hp self) (D Sx : Nat) (hD : D < hp.size) (hSx : Sx < hp.size) (hD0 : D ≠ 0)
    (hfrD : ObjFrame self D) (mode : Model.Ntt.DstMode) (hmode : mode = .other ↔ D ≠ Sx)
    (dst : Ptr) (hdst : (if (dst == Ptr.null) = true then (⟨Sx, 0⟩ : Ptr) else dst) = ⟨D, 0⟩)
    (K N NC : Nat) (nphase nblock : BitVec 64) (extend : Bool)
    (hK : K ≤ 30) (hN : N = 2 ^ K) (hKs : K ≤ o.s) (hos : o.s ≤ 32) (hNC1 : 1 ≤ NC)
    (hNNC8 : N * NC * 8 < 2 ^ 64) (hext31 : o.extension < 2 ^ 31) (hcache : extend = true → o.rcache ≠ none)
    (hf : itersFuel self K NC ≤ fuel) :
    match Model.Ntt.intt o mode (hp.block D) (hp.block Sx) N NC nphase.toNat nblock.toNat extend with
    | .ok (d, _) => NTT_INTT fuel hp self dst ⟨Sx, 0⟩ (bv N) (bv NC) Ptr.null nphase nblock extend = some (hp.setBlock D d)
    | .error _ => NTT_INTT fuel hp self dst ⟨Sx, 0⟩ (bv N) (bv NC) Ptr.null nphase nblock extend = none := by
  have hNpos : 0 < N := by rw [hN]; exact Nat.two_pow_pos K
  have hN30 : N ≤ 2 ^ 30 := by rw [hN]; exact Nat.pow_le_pow_right (by omega) hK
  have hNCle : NC ≤ N * NC := Nat.le_mul_of_pos_left NC hNpos
  have hc0 : (bv NC == 0#64) = false := by
    show (bv NC == bv 0) = false
    rw [beq_bv _ _ (by omega) (by omega)]; simp; omega
  have hs0 : (bv N == 0#64) = false := by
    show (bv N == bv 0) = false
    rw [beq_bv _ _ (by omega) (by omega)]; simp; omega
  have hmode' : (if mode = .null then Model.Ntt.DstMode.same else mode) = .other ↔ D ≠ Sx := by
    rw [← hmode]
    cases mode <;> simp
  have h := NTT_gen_all fuel hp self o hrep hin D Sx hD hSx hD0 hfrD _ hmode' ⟨D, 0⟩
    (by
      have : ((⟨D, 0⟩ : Ptr) == Ptr.null) = false := by
        have h1 : ((⟨D, 0⟩ : Ptr) != ⟨0, 0⟩) = true := by rw [ptr_ne]; simp [hD0]
        show ((⟨D, 0⟩ : Ptr) == ⟨0, 0⟩) = false
        simpa [bne] using h1
      rw [this]; rfl)
    K N NC nphase nblock true extend hK hN hKs hos hNC1 hNNC8 hext31 hcache hf
  have hm : Model.Ntt.intt o mode (hp.block D) (hp.block Sx) N NC nphase.toNat nblock.toNat extend =
      Model.Ntt.ntt o (if mode = .null then .same else mode) (hp.block D) (hp.block Sx) N NC nphase.toNat nblock.toNat
        true extend := by
    unfold Model.Ntt.intt
    rw [if_neg (by omega)]
  rw [hm]
  unfold NTT_INTT
  rw [hc0, hs0]
  simp only [Bool.or_false, Bool.false_eq_true, if_false, bind_some_id]
  -- the destination selection, however it is written (if / else on a local, `?:` on `dst != NULL`, …)
  ptr_norm at hdst ⊢
  simp only [hdst]
  exact h

end GoldilocksVerif.BridgeNtt
