/-
  `NTT_iters` of the model with every parallel loop executed in a prescribed order (`nttItersIn`): the text of
  `nttIters` (Model/Ntt.lean) with the bit-reversal loop and the batch loops replaced by folds over given lists.
  `nttItersWith` is the common text, parametrised by the reversal and the pass; `nttIters_eq_with` shows that the model's
  `nttIters` is this text with the model's own `reversePermutation` and `pass`.  Helper of Props/C12.lean.
-/
import GoldilocksVerif.Lemmas.NttParBatch
import GoldilocksVerif.Lemmas.NttParRev

namespace GoldilocksVerif.Model.Ntt

/-- the text of `nttIters`, parametrised by the bit reversal `rev dst src inPlace` and the pass `ps` -/
def nttItersWith (rev : Buf → Buf → Bool → Except String Buf) (ps : Buf × Buf × Bool → Nat × Nat → Buf × Buf × Bool)
    (dstB srcB auxB : Buf) (dstIsSrc : Bool) (size ncols nphase : Nat) : Except String (Buf × Buf) :=
  let domainPow := log2 size
  if 2 ^ domainPow ≠ size then .error "assert((1 << domainPow) == size)" else
  let nphase := clampPhase nphase domainPow
  let isOdd : Bool := nphase % 2 = 1
  let a0 := if dstIsSrc then srcB else dstB
  let st0 : Except String (Buf × Buf × Bool) :=
    if isOdd then
      match rev auxB srcB false with
      | .error e => .error e
      | .ok t => .ok (t, a0, false)
    else
      match rev a0 srcB dstIsSrc with
      | .error e => .error e
      | .ok t => .ok (t, auxB, true)
  match st0 with
  | .error e => .error e
  | .ok st0 =>
    let st := (schedule domainPow nphase).foldl ps st0
    let a := st.1
    let a2 := st.2.1
    let aIsDst := st.2.2
    if !aIsDst then
      if size > 1 then .error "assert(0) // should never need this copy" else
      let d := copyRow a2 0 a 0 (size * ncols)
      if dstIsSrc then .ok (d, d) else .ok (d, srcB)
    else
      if dstIsSrc then .ok (a, a) else .ok (a, srcB)

theorem nttIters_eq_with (o : Obj) (dstB srcB auxB : Buf) (dstIsSrc : Bool) (size oc nc nca nphase : Nat)
    (inverse extend : Bool) :
    nttIters o dstB srcB auxB dstIsSrc size oc nc nca nphase inverse extend
      = nttItersWith (fun dst src ip => reversePermutation o dst src ip size oc nc nca)
          (pass o size (log2 size) nc inverse extend) dstB srcB auxB dstIsSrc size nc nphase := rfl

/-- the bit reversal with its row loop executed in the order `ord` -/
def reversePermutationIn (ord : List Nat) (o : Obj) (dst src : Buf) (inPlace : Bool) (size oc nc nca : Nat) :
    Except String Buf :=
  if !inPlace then .ok (ord.foldl (fun d i => revOutBody o size oc nc nca i src d) dst)
  else if !(oc = 0 ∧ nc = nca) then .error "assert(offset_cols == 0 && ncols == ncols_all)"
  else .ok (ord.foldl (fun a i => revInBody o size nc i a) src)

/-- a pass with its batch loop executed in the order `ord` -/
def passIn (ord : List Nat) (o : Obj) (size domainPow ncols : Nat) (inverse extend : Bool) (st : Buf × Buf × Bool)
    (p : Nat × Nat) : Buf × Buf × Bool :=
  let r := ord.foldl (fun st b => passBatch o size domainPow ncols p.1 p.2 (!(p.1 + p.2 ≤ domainPow) && inverse) extend b st)
    (st.1, st.2.1)
  (r.2, r.1, !st.2.2)

/-- `NTT_iters` with the rows of the bit reversal in the order `ordR` and the batches of pass `p = (s, sInc)` in the order
    `ordB p` -/
def nttItersIn (ordR : List Nat) (ordB : Nat × Nat → List Nat) (o : Obj) (dstB srcB auxB : Buf) (dstIsSrc : Bool)
    (size oc nc nca nphase : Nat) (inverse extend : Bool) : Except String (Buf × Buf) :=
  nttItersWith (fun dst src ip => reversePermutationIn ordR o dst src ip size oc nc nca)
    (fun st p => passIn (ordB p) o size (log2 size) nc inverse extend st p) dstB srcB auxB dstIsSrc size nc nphase

/-- the common text gives the same result for reversals that agree when `size` is a power of two and passes that agree -/
theorem nttItersWith_congr (rev rev' : Buf → Buf → Bool → Except String Buf)
    (ps ps' : Buf × Buf × Bool → Nat × Nat → Buf × Buf × Bool) (dstB srcB auxB : Buf) (dstIsSrc : Bool)
    (size ncols nphase : Nat) (hrev : 2 ^ log2 size = size → ∀ dst src ip, rev dst src ip = rev' dst src ip)
    (hps : ∀ st p, ps st p = ps' st p) :
    nttItersWith rev ps dstB srcB auxB dstIsSrc size ncols nphase
      = nttItersWith rev' ps' dstB srcB auxB dstIsSrc size ncols nphase := by
  have e : ps = ps' := by funext st p; exact hps st p
  subst e
  unfold nttItersWith
  by_cases h : 2 ^ log2 size ≠ size
  · simp only [if_pos h]
  · have hr : rev = rev' := by
      funext dst src ip; exact hrev (by simpa using h) dst src ip
    subst hr
    rfl

end GoldilocksVerif.Model.Ntt

/-! ### the column-block loop and the whole transform with prescribed orders -/

namespace GoldilocksVerif.Model.Ntt

/-- `nttBlock` with the loops of its `NTT_iters` call in the orders `ordR`, `ordB` and its scatter loop in the order `ordS` -/
def nttBlockIn (ordR : List Nat) (ordB : Nat × Nat → List Nat) (ordS : List Nat) (o : Obj) (aux : Buf) (dstIsSrc : Bool)
    (size ncols nphase ncols_block ncols_res ncols_alloc : Nat) (inverse extend : Bool) (ib : Nat)
    (st : Except String (Buf × Buf × Nat)) : Except String (Buf × Buf × Nat) :=
  match st with
  | .error e => .error e
  | .ok (dst, src, offset_cols) =>
    let aux_ncols := ncols_block + (if ib < ncols_res then 1 else 0)
    let tmpDst : Buf := Array.replicate (size * ncols_alloc) 0#64
    match nttItersIn ordR ordB o tmpDst src aux false size offset_cols aux_ncols ncols nphase inverse extend with
    | .error e => .error e
    | .ok (d, _) =>
      let dst := ordS.foldl (fun dst ie => copyRow dst (ie * ncols + offset_cols) d (ie * aux_ncols) aux_ncols) dst
      .ok (dst, if dstIsSrc then dst else src, offset_cols + aux_ncols)

/-- the orders of all the parallel loops of one `NTT` call on `size` rows: for column block `ib`, the rows of the bit
    reversal, the batches of every pass, the rows of the scatter -/
structure Orders (size : Nat) where
  rev : Nat → List Nat
  batch : Nat → Nat × Nat → List Nat
  scat : Nat → List Nat
  rev_perm : ∀ ib, (rev ib).Perm (List.range size)
  batch_perm : ∀ ib p, (batch ib p).Perm (List.range (size / 2 ^ p.2))
  scat_perm : ∀ ib, (scat ib).Perm (List.range size)

/-- the sequential orders -/
def Orders.seq (size : Nat) : Orders size :=
  ⟨fun _ => List.range size, fun _ p => List.range (size / 2 ^ p.2), fun _ => List.range size,
   fun _ => List.Perm.refl _, fun _ _ => List.Perm.refl _, fun _ => List.Perm.refl _⟩

def nttBlocksIn {size : Nat} (ord : Orders size) (o : Obj) (dstIsSrc : Bool) (dstB srcB : Buf) (ncols nphase nblock : Nat)
    (inverse extend : Bool) : Except String (Buf × Buf) :=
  let ncols_block := ncols / nblock
  let ncols_res := ncols % nblock
  let ncols_alloc := ncols_block + (if ncols_res > 0 then 1 else 0)
  let aux : Buf := Array.replicate (size * ncols_alloc) 0#64
  if nblock ≤ 1 then
    nttItersIn (ord.rev 0) (ord.batch 0) o dstB srcB aux dstIsSrc size 0 ncols ncols nphase inverse extend
  else
    let dst0 := if dstIsSrc then srcB else dstB
    match iter nblock (.ok (dst0, srcB, 0))
        (fun ib st => nttBlockIn (ord.rev ib) (ord.batch ib) (ord.scat ib) o aux dstIsSrc size ncols nphase ncols_block
          ncols_res ncols_alloc inverse extend ib st) with
    | .error e => .error e
    | .ok (dst, src, _) => .ok (dst, src)

/-- `NTT` with all its parallel loops in the orders `ord` -/
def nttIn {size : Nat} (ord : Orders size) (o : Obj) (mode : DstMode) (dstB srcB : Buf) (ncols nphase nblock : Nat)
    (inverse extend : Bool) : Except String (Buf × Buf) :=
  if ncols = 0 ∨ size = 0 then
    .ok (if mode = .other then dstB else srcB, srcB)
  else
    nttBlocksIn ord o (mode ≠ .other) dstB srcB ncols nphase (clampBlock nblock ncols) inverse extend

/-- `INTT` with all its parallel loops in the orders `ord` -/
def inttIn {size : Nat} (ord : Orders size) (o : Obj) (mode : DstMode) (dstB srcB : Buf) (ncols nphase nblock : Nat)
    (extend : Bool) : Except String (Buf × Buf) :=
  if ncols = 0 ∨ size = 0 then .ok (if mode = .other then dstB else srcB, srcB)
  else nttIn ord o (if mode = .null then .same else mode) dstB srcB ncols nphase nblock true extend

/-- `extendPol` with the loops of its `INTT` in the orders `ordI` and those of its `NTT` in the orders `ordN` -/
def extendPolIn {n nExt : Nat} (ordI : Orders n) (ordN : Orders nExt) (o : Obj) (same : Bool) (outB inB : Buf)
    (ncols nphase nblock : Nat) : Except String (Obj × Buf) :=
  match mkObj nExt (nExt / n) with
  | none => .error "range_error"
  | some oext =>
    let o := refreshCache o n
    match inttIn ordI o (if same then .same else .other) outB inB ncols nphase nblock true with
    | .error e => .error e
    | .ok (out1, _) =>
      match nttIn ordN oext .same #[] out1 ncols nphase nblock false false with
      | .error e => .error e
      | .ok (out2, _) => .ok (o, out2)

end GoldilocksVerif.Model.Ntt
