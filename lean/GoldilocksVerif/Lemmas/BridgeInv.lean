/-
  Bridge: the TRANSLATED `Goldilocks::inv / div / exp` (Gen/InvGen.lean, regenerated from goldilocks_base_field.cpp /
  goldilocks_base_field_scalar.hpp on every run by the extended mode of tools/tr_cxx.py) equal the hand models of
  Model/Inv.lean once the fuel covers the loops:

    inv, div : fuel ≥ 129   (Euclid on (p, a mod p): the product r·newr < 2^128 at least halves in every iteration,
                             so at most 128 iterations + one final evaluation of the loop condition)
    exp      : fuel ≥ 64    (one iteration per bit of the 64-bit exponent)

  Hence every C10 theorem about the hand models holds for the generated functions (Props/C10.lean, `C10_generated_*`).
  If the C++ changes, Gen/InvGen.lean changes and these proofs are re-checked against the new text.

  The proofs do not follow the generated text (see Lemmas/BridgeInvCore.lean): the state tuple of a generated loop is
  never written down; which component plays which role is found by search (`pick_proj`) and validated by the
  semantic one-step facts `EuclidSim` / `ExpSim`, proved from the unfolded step function by `simp` sets over
  `Nat` / `F` that are closed under commutativity.  What still has to hold textually: the names of the generated
  functions (`inv___eE`, `inv___eE_loop1`, …, i.e. the C++ signatures and "first loop of the function"), the zero
  test in front of the loop, and that the quotient is formed as `r / newr` on machine words.
-/
import GoldilocksVerif.Gen.InvGen
import GoldilocksVerif.Lemmas.BridgeInvCore
set_option linter.unusedTactic false
set_option linter.unreachableTactic false

namespace GoldilocksVerif
open Gen.Scalar Gen.InvGen Model

/-! ### tactics that validate one observation against the unfolded step function -/

/-- `∀ s, Option.map Prod.fst (step s) = some (decide …)`: the flag of the step, whatever the form of the test -/
macro "step_flag " f:ident " with " "[" ls:term,* "]" : tactic => `(tactic| (
  intro s
  simp only [$f:ident, apply_ite (Option.map Prod.fst), Option.map_some]
  split <;> simp_all [zero_eq_bv, $[$ls:term],*]))

/-- `∀ s … s', step s = some (_, s') → Q s s'`: invert the step (s' becomes the tuple of next values) -/
macro "step_inv " f:ident : tactic => `(tactic| (
  intro h
  simp only [$f:ident] at h
  (repeat' split at h) <;>
    simp only [Option.some.injEq, Prod.mk.injEq, Bool.false_eq_true, Bool.true_eq_false, false_and, true_and] at h <;>
    (first | (obtain ⟨hb, hs⟩ := h; subst hb; subst hs) | subst h) <;> (try simp -proj only [fst_mk', snd_mk']) <;> gen_dealias))

/-- field value of a word computed with the scalar operations -/
macro "den_eval" : tactic => `(tactic| (
  simp only [sub_r_eq, mul_r_eq, add_r_eq, square_r_eq, square_e_eq, fromU64_eq, fromU64_e_eq, toU64_e_eq,
    den_toU64, den_sub, den_mul, den_add] <;> ring))

/-- the word is the result of `toU64` (either overload).  The overload is normalised by rewriting and the lemma applied up to
    reducible unfolding only: unifying `toU64__rE ?x` with `toU64__eE (sub__eEE …)` by unfolding runs through the asm blocks
    into the recursion limit (an error `first` cannot catch). -/
macro "canon_word" : tactic => `(tactic| ((try simp only [toU64_e_eq]); with_reducible exact toU64_r_lt _))

macro "nat_word" : tactic => `(tactic|
  simp only [fromU64_eq, fromU64_e_eq, toU64_e_eq, Model.toU64_r_toNat])

/-- a component of the literal start tuple / of the loop result is the expected value -/
macro "tuple_rfl" : tactic => `(tactic| first | (simp -proj only [fst_mk', snd_mk']; done) | rfl)

/-! ### Euclid loop -/

/-- generated `Goldilocks::inv(result, in1)` = hand model, for every fuel ≥ 129 -/
theorem inv_e_gen_eq (fuel : Nat) (hf : invFuel ≤ fuel) (a : BitVec 64) : inv___eE fuel a = Model.inv a := by
  unfold inv___eE Model.inv
  by_cases hz : isZero a = true
  · simp only [hz, if_true]
  · simp only [hz, Bool.false_eq_true, if_false]
    refine euclid_bind (step := inv___eE_loop1) (pt := ?pt) (pnt := ?pnt) (pr := ?pr) (pnr := ?pnr)
      ⟨?cond, ?stop, ?hr, ?hnr, ?ht, ?hnt⟩ _ a _ ?i_t ?i_r ?i_nt ?i_nr ?hk fuel hf
    pick_proj pt =>
      case i_t => tuple_rfl
      case hk => intro s; rfl
      pick_proj pnr =>
        case i_nr => tuple_rfl
        case cond => step_flag inv___eE_loop1 with []
        pick_proj pr =>
          case i_r => tuple_rfl
          case hr => intro s s'; step_inv inv___eE_loop1; nat_word
          case hnr => intro s s'; step_inv inv___eE_loop1; exact ⟨by canon_word, by den_eval⟩
          pick_proj pnt =>
            case i_nt => tuple_rfl
            case ht => intro s s'; step_inv inv___eE_loop1; nat_word
            case hnt => intro s s'; step_inv inv___eE_loop1; exact ⟨by canon_word, by den_eval⟩
            case stop => intro s s'; step_inv inv___eE_loop1

theorem inv_r_gen_eq (fuel : Nat) (hf : invFuel ≤ fuel) (a : BitVec 64) : inv___rE fuel a = Model.inv a := by
  unfold inv___rE
  rw [inv_e_gen_eq fuel hf]
  cases Model.inv a <;> rfl

/-- a result obtained with ANY fuel is the result obtained with more fuel (used by `C10_generated_inv_any_fuel`) -/
theorem inv_e_gen_mono (f g : Nat) (hfg : f ≤ g) (a r : BitVec 64) (h : inv___eE f a = some r) :
    inv___eE g a = some r := by
  unfold inv___eE at h ⊢
  by_cases hz : isZero a = true
  · simp only [hz, if_true] at h; cases h
  · simp only [hz, Bool.false_eq_true, if_false] at h ⊢
    exact Loop.whileM_bind_mono _ _ f g _ r h hfg

/-- an overload of `div` that forms `mul(in1, inv(in2))` itself, through either overload of `inv` -/
macro "div_via_inv " f:ident " with " hr:term ", " he:term : tactic => `(tactic| (
  intro a b
  unfold $f:ident Model.div
  simp only [$hr:term, $he:term]
  cases Model.inv b with
  | none => rfl
  | some i => exact congrArg some (by mul_form)))

/-- an overload of `div` that forwards to the other one (`h`: that one is the hand model) -/
macro "div_wrap " f:ident " with " h:term : tactic => `(tactic| (
  intro a b
  unfold $f:ident
  simp only [$h:term]
  cases Model.div a b <;> rfl))

/-- generated `Goldilocks::div` (both overloads) = hand model.  Each overload may form the product itself or be a wrapper of the
    other one, in either direction (the library writes its value-returning overloads both ways). -/
theorem div_gen_eq (fuel : Nat) (hf : invFuel ≤ fuel) :
    (∀ a b : BitVec 64, div__eEE fuel a b = Model.div a b) ∧ (∀ a b : BitVec 64, div__rEE fuel a b = Model.div a b) := by
  have hr := inv_r_gen_eq fuel hf
  have he := inv_e_gen_eq fuel hf
  first
    | (have h1 : ∀ a b : BitVec 64, div__eEE fuel a b = Model.div a b := by div_via_inv div__eEE with hr, he
       refine ⟨h1, ?_⟩
       first | div_via_inv div__rEE with hr, he | div_wrap div__rEE with h1)
    | (have h2 : ∀ a b : BitVec 64, div__rEE fuel a b = Model.div a b := by div_via_inv div__rEE with hr, he
       refine ⟨?_, h2⟩
       div_wrap div__eEE with h2)

theorem div_r_gen_eq (fuel : Nat) (hf : invFuel ≤ fuel) (a b : BitVec 64) : div__rEE fuel a b = Model.div a b :=
  (div_gen_eq fuel hf).2 a b

theorem div_e_gen_eq (fuel : Nat) (hf : invFuel ≤ fuel) (a b : BitVec 64) : div__eEE fuel a b = Model.div a b :=
  (div_gen_eq fuel hf).1 a b

/-! ### exp: square and multiply -/

/-- the new accumulator, per branch of the generated text: the consistent branches are products in one of the
    accepted forms or the old value, the inconsistent ones contradict the parity of the exponent -/
macro "exp_acc" : tactic => `(tactic| (
  split <;> first
    | mul_form
    | with_reducible rfl
    | (exfalso
       simp only [bne_iff_ne, ne_eq, beq_iff_eq, Bool.not_eq_true, Bool.not_eq_true', beq_eq_false_iff_ne,
         bne_eq_false_iff_eq, not_not, and_one_eq_zero, and_one_eq_one] at *
       omega)))

/-- generated `Goldilocks::exp` (both overloads) = hand model, for every fuel ≥ 64: it always returns -/
theorem exp_e_gen_eq (fuel : Nat) (hf : expFuel ≤ fuel) (b e : BitVec 64) : exp___eEE fuel b e = some (Model.exp b e) := by
  unfold exp___eEE
  dsimp only
  refine exp_bind (step := exp___eEE_loop1) (pres := ?pres) (pe := ?pe) (pbase := ?pbase)
    ⟨?cond, ?he, ?hres, ?hbase⟩ _ b e _ ?i_res ?i_e ?i_base ?hk fuel hf
  pick_proj pres =>
    case i_res => tuple_rfl
    case hk => intro s; rfl
    pick_proj pe =>
      case i_e => tuple_rfl
      case cond => step_flag exp___eEE_loop1 with [ushiftRight_one_eq_zero, udiv_two_eq_zero]
      case he => intro s b' s'; step_inv exp___eEE_loop1 <;> first | exact ushiftRight_one_toNat _ | exact udiv_two_toNat _
      pick_proj pbase =>
        case i_base => tuple_rfl
        case hbase => intro s s'; step_inv exp___eEE_loop1 <;> mul_form
        case hres =>
          intro s b' s'; step_inv exp___eEE_loop1 <;> exp_acc

theorem exp_r_gen_eq (fuel : Nat) (hf : expFuel ≤ fuel) (b e : BitVec 64) : exp___rEE fuel b e = some (Model.exp b e) := by
  unfold exp___rEE
  rw [exp_e_gen_eq fuel hf]
  rfl

end GoldilocksVerif
