/-
  Bridge: the TRANSLATED `Goldilocks::inv / div / exp` (Gen/InvGen.lean, regenerated from goldilocks_base_field.cpp /
  goldilocks_base_field_scalar.hpp on every run by the extended mode of tools/tr_cxx.py) equal the hand models of
  Model/Inv.lean once the fuel covers the loops:

    inv, div : fuel ≥ 129   (Euclid on (p, a mod p): the product r·newr < 2^128 at least halves in every iteration,
                             so at most 128 iterations + one final evaluation of the loop condition)
    exp      : fuel ≥ 64    (one iteration per bit of the 64-bit exponent)

  Hence every C10 theorem about the hand models holds for the generated functions (Props/C10.lean, `C10_generated_*`).
  If the C++ changes, Gen/InvGen.lean changes and these proofs are re-checked against the new text.
-/
import GoldilocksVerif.Gen.InvGen
import GoldilocksVerif.Lemmas.InvF

namespace GoldilocksVerif
open Gen.Scalar Gen.InvGen Model

/-- fuel from which the generated `inv` / `div` (and everything calling them) cannot run out of fuel -/
def invFuel : Nat := 129
/-- fuel from which the generated `exp` cannot run out of fuel -/
def expFuel : Nat := 64

/-! ### Euclid loop -/

theorem inv_step_stop (q a1 a2 t newt r : BitVec 64) :
    inv___eE_loop1 (q, a1, a2, t, newt, r, 0#64) = some (false, (q, a1, a2, t, newt, r, 0#64)) := rfl

theorem inv_step_next (q a1 a2 t newt r newr : BitVec 64) (h : newr ≠ 0#64) :
    inv___eE_loop1 (q, a1, a2, t, newt, r, newr) =
      some (true, (fromU64__rE (r / newr), fromU64__rE r, fromU64__rE newr, toU64__rE (fromU64__rE newt),
                   stepVal t newt (fromU64__rE (r / newr)), toU64__rE (fromU64__rE newr),
                   stepVal r newr (fromU64__rE (r / newr)))) := by
  have hb : (newr != 0#64) = true := by simpa using h
  unfold inv___eE_loop1
  simp only [hb, if_true]
  rfl

theorem euclid_halves (a b : Nat) (hb : 0 < b) (h : b ≤ a) : 2 * (b * (a % b)) ≤ a * b := by
  have hm := Nat.mod_lt a hb
  have hd := Nat.div_add_mod a b
  have hq : 1 ≤ a / b := Nat.div_pos h hb
  have hbq : b ≤ b * (a / b) := Nat.le_mul_of_pos_right b hq
  have h2 : 2 * (a % b) ≤ a := by omega
  calc 2 * (b * (a % b)) = (2 * (a % b)) * b := by ring
    _ ≤ a * b := Nat.mul_le_mul_right b h2

/-- the generated Euclid loop returns whenever `r·newr < 2^fuel`, and its `t` component is the hand model's result -/
theorem inv_loop_bridge : ∀ (fuel : Nat) (q a1 a2 t newt r newr : BitVec 64) (hn : newr.toNat < P),
    newr.toNat ≤ r.toNat → r.toNat * newr.toNat < 2 ^ fuel →
    ∃ q' a1' a2' newt' r' newr', Loop.whileM inv___eE_loop1 (fuel + 1) (q, a1, a2, t, newt, r, newr) =
      some (q', a1', a2', invLoop t r newt newr hn, newt', r', newr') := by
  intro fuel
  induction fuel with
  | zero =>
    intro q a1 a2 t newt r newr hn hle hf
    have h0 : newr = 0#64 := by
      apply BitVec.eq_of_toNat_eq
      have : r.toNat * newr.toNat = 0 := by omega
      rcases Nat.mul_eq_zero.mp this with h | h
      · show newr.toNat = 0; omega
      · exact h
    subst h0
    exact ⟨q, a1, a2, newt, r, 0#64, by rw [Loop.whileM_stop _ _ _ _ (inv_step_stop ..), invLoop_zero]⟩
  | succ f ih =>
    intro q a1 a2 t newt r newr hn hle hf
    by_cases h0 : newr = 0#64
    · subst h0
      exact ⟨q, a1, a2, newt, r, 0#64, by rw [Loop.whileM_stop _ _ _ _ (inv_step_stop ..), invLoop_zero]⟩
    · have hpos : 0 < newr.toNat := by
        have : newr.toNat ≠ 0 := fun h => h0 (BitVec.eq_of_toNat_eq (by simpa using h))
        omega
      have e_r' : (toU64__rE (fromU64__rE newr)).toNat = newr.toNat := by
        rw [Model.toU64_r_toNat]; exact Nat.mod_eq_of_lt hn
      have e_newr' : (stepVal r newr (fromU64__rE (r / newr))).toNat = r.toNat % newr.toNat :=
        stepVal_rem r newr hpos hn
      have hle' : (stepVal r newr (fromU64__rE (r / newr))).toNat ≤ (toU64__rE (fromU64__rE newr)).toNat := by
        rw [e_r', e_newr']; exact Nat.le_of_lt (Nat.mod_lt _ hpos)
      have hf' : (toU64__rE (fromU64__rE newr)).toNat * (stepVal r newr (fromU64__rE (r / newr))).toNat < 2 ^ f := by
        rw [e_r', e_newr']
        have := euclid_halves r.toNat newr.toNat hpos hle
        rw [Nat.pow_succ] at hf
        omega
      obtain ⟨q', a1', a2', newt', r', newr', hw⟩ :=
        ih (fromU64__rE (r / newr)) (fromU64__rE r) (fromU64__rE newr) (toU64__rE (fromU64__rE newt))
          (stepVal t newt (fromU64__rE (r / newr))) (toU64__rE (fromU64__rE newr))
          (stepVal r newr (fromU64__rE (r / newr))) (stepVal_lt r newr h0 hn) hle' hf'
      refine ⟨q', a1', a2', newt', r', newr', ?_⟩
      rw [Loop.whileM_next _ _ _ _ (inv_step_next q a1 a2 t newt r newr h0), hw, invLoop_succ t r newt newr hn h0]

/-- generated `Goldilocks::inv(result, in1)` = hand model, for every fuel ≥ 129 -/
theorem inv_e_gen_eq (fuel : Nat) (hf : invFuel ≤ fuel) (a : BitVec 64) : inv___eE fuel a = Model.inv a := by
  unfold inv___eE Model.inv
  by_cases hz : isZero a = true
  · simp only [hz, if_true]
  · simp only [hz, Bool.false_eq_true, if_false]
    have hn : (toU64__rE a).toNat < P := by rw [Model.toU64_r_toNat]; exact Nat.mod_lt _ (by decide)
    have hP : (18446744069414584321#64 : BitVec 64).toNat = P := by decide
    have hle : (toU64__rE a).toNat ≤ (18446744069414584321#64 : BitVec 64).toNat := by rw [hP]; omega
    have hprod : (18446744069414584321#64 : BitVec 64).toNat * (toU64__rE a).toNat < 2 ^ 128 := by
      rw [hP]
      have h1 : P * (toU64__rE a).toNat < P * P := Nat.mul_lt_mul_of_pos_left hn (by decide)
      have h2 : P * P < 2 ^ 128 := by decide
      omega
    obtain ⟨q', a1', a2', newt', r', newr', hw⟩ :=
      inv_loop_bridge 128 0#64 0#64 0#64 0#64 1#64 18446744069414584321#64 (toU64__rE a) hn hle hprod
    have hw' := Loop.whileM_mono inv___eE_loop1 129 _ _ fuel hw hf
    rw [hw']
    rfl

theorem inv_r_gen_eq (fuel : Nat) (hf : invFuel ≤ fuel) (a : BitVec 64) : inv___rE fuel a = Model.inv a := by
  unfold inv___rE
  rw [inv_e_gen_eq fuel hf]
  cases Model.inv a <;> rfl

/-- generated `Goldilocks::div` (both overloads) = hand model -/
theorem div_r_gen_eq (fuel : Nat) (hf : invFuel ≤ fuel) (a b : BitVec 64) : div__rEE fuel a b = Model.div a b := by
  unfold div__rEE Model.div
  rw [inv_r_gen_eq fuel hf]
  cases Model.inv b <;> rfl

theorem div_e_gen_eq (fuel : Nat) (hf : invFuel ≤ fuel) (a b : BitVec 64) : div__eEE fuel a b = Model.div a b := by
  unfold div__eEE Model.div
  rw [inv_r_gen_eq fuel hf]
  cases Model.inv b <;> rfl

/-! ### exp: square and multiply -/

/-- the aliased call patterns `mul(result, result, base)` / `mul(base, base, base)` are the same asm text with the
    operands bound to one variable -/
theorem mul_al1 (x y : BitVec 64) : mul__eEE_al_result_in1 x y = mul__eEE x y := rfl
theorem mul_al2 (x : BitVec 64) : mul__eEE_al_result_in1_al_result_in2 x = mul__eEE x x := rfl

theorem exp_step (result e base : BitVec 64) :
    exp___eEE_loop1 (result, e, base) =
      let result' := if e &&& 1#64 != 0#64 then mul__eEE result base else result
      if (e >>> 1) == 0#64 then some (false, (result', e >>> 1, base))
      else some (true, (result', e >>> 1, mul__eEE base base)) := by
  unfold exp___eEE_loop1
  simp only [mul_al1, mul_al2]
  by_cases hz : (e >>> 1) = 0#64
  · simp [hz]
  · have h1 : ((e >>> 1) != 0#64) = true := by simpa using hz
    have h2 : ((e >>> 1) == 0#64) = false := by simpa using hz
    simp only [h1, h2, Bool.not_true, Bool.false_eq_true, if_false]

/-- the generated loop computes `expLoop n` whenever the exponent has at most n bits (n ≥ 1 iterations) -/
theorem exp_loop_bridge : ∀ (n : Nat) (result e base : BitVec 64), e.toNat < 2 ^ (n + 1) →
    ∃ e' base', Loop.whileM exp___eEE_loop1 (n + 1) (result, e, base) = some (expLoop (n + 1) result base e, e', base') := by
  intro n
  induction n with
  | zero =>
    intro result e base h
    have hsh : (e >>> 1).toNat = e.toNat / 2 := by
      rw [BitVec.toNat_ushiftRight, Nat.shiftRight_eq_div_pow]
    have hz : (e >>> 1) = 0#64 := by
      apply BitVec.eq_of_toNat_eq; rw [hsh]; show e.toNat / 2 = 0; omega
    have hs : exp___eEE_loop1 (result, e, base) =
        some (false, (if e &&& 1#64 != 0#64 then mul__eEE result base else result, e >>> 1, base)) := by
      rw [exp_step]; simp [hz]
    refine ⟨e >>> 1, base, ?_⟩
    rw [Loop.whileM_stop _ _ _ _ hs]
    unfold expLoop
    simp [hz]
  | succ n ih =>
    intro result e base h
    have hsh : (e >>> 1).toNat = e.toNat / 2 := by
      rw [BitVec.toNat_ushiftRight, Nat.shiftRight_eq_div_pow]
    by_cases hz : (e >>> 1) = 0#64
    · have hs : exp___eEE_loop1 (result, e, base) =
          some (false, (if e &&& 1#64 != 0#64 then mul__eEE result base else result, e >>> 1, base)) := by
        rw [exp_step]; simp [hz]
      refine ⟨e >>> 1, base, ?_⟩
      rw [Loop.whileM_stop _ _ _ _ hs]
      conv => rhs; unfold expLoop
      simp [hz]
    · have h2 : ((e >>> 1) == 0#64) = false := by simpa using hz
      have hs : exp___eEE_loop1 (result, e, base) =
          some (true, (if e &&& 1#64 != 0#64 then mul__eEE result base else result, e >>> 1, mul__eEE base base)) := by
        rw [exp_step]; simp only [h2, Bool.false_eq_true, if_false]
      have hlt : (e >>> 1).toNat < 2 ^ (n + 1) := by
        rw [hsh]; rw [Nat.pow_succ] at h; omega
      obtain ⟨e', base', hw⟩ := ih (if e &&& 1#64 != 0#64 then mul__eEE result base else result) (e >>> 1)
        (mul__eEE base base) hlt
      refine ⟨e', base', ?_⟩
      rw [Loop.whileM_next _ _ _ _ hs, hw]
      conv => rhs; unfold expLoop
      simp only [h2, Bool.false_eq_true, if_false]

/-- generated `Goldilocks::exp` (both overloads) = hand model, for every fuel ≥ 64: it always returns -/
theorem exp_e_gen_eq (fuel : Nat) (hf : expFuel ≤ fuel) (b e : BitVec 64) : exp___eEE fuel b e = some (Model.exp b e) := by
  unfold exp___eEE Model.exp
  obtain ⟨e', base', hw⟩ := exp_loop_bridge 63 one__r e b e.isLt
  have hw' := Loop.whileM_mono exp___eEE_loop1 64 _ _ fuel hw (by unfold expFuel at hf; omega)
  dsimp only
  rw [hw']
  rfl

theorem exp_r_gen_eq (fuel : Nat) (hf : expFuel ≤ fuel) (b e : BitVec 64) : exp___rEE fuel b e = some (Model.exp b e) := by
  unfold exp___rEE
  rw [exp_e_gen_eq fuel hf]
  rfl

end GoldilocksVerif
