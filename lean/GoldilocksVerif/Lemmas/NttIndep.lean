/-
  The result of the hand model's `nttIters` (Model/Ntt.lean) does not depend on what the scratch buffer `aux` (and, when the
  destination is another buffer than the source, the destination buffer) held before the call — BIT FOR BIT, not only as field
  elements: every word of the first `size * ncols` words of both ping-pong buffers is written before it is read.

  Relational proof: two runs on buffers that agree on a set `P` of positions (`Ag n P x y`: both buffers have at least `n`
  words and hold the same word at every position of `P`).  The bit reversal (not in place) writes every row of its
  destination; the butterflies of a pass read and write positions `< n` of `a`; the transposing / reflecting copy of a pass
  writes every row of `a2` from rows of `a`.

  Used by Lemmas/BridgeNttBlocks.lean (the generated column-block loop reuses a dirty scratch block and a dirty temporary
  destination; the hand model takes zero-filled ones) and Lemmas/BridgeNttBufEq.lean (caller scratch buffer, `extendPol`).
  Core + the model only; no statement about the generated code here.
-/
import GoldilocksVerif.Lemmas.BridgeNttSizes
import GoldilocksVerif.Lemmas.NttSched
import GoldilocksVerif.Lemmas.NttIters

namespace GoldilocksVerif.Model.Ntt

/-- both buffers have at least `n` words and hold the same word at every position of `P` -/
structure Ag (n : Nat) (P : Nat → Prop) (x y : Buf) : Prop where
  sx : n ≤ x.size
  sy : n ≤ y.size
  eq : ∀ i, P i → x.getD i 0#64 = y.getD i 0#64

theorem Ag.mono {n : Nat} {P Q : Nat → Prop} {x y : Buf} (h : Ag n P x y) (hq : ∀ i, Q i → P i) : Ag n Q x y :=
  ⟨h.sx, h.sy, fun i hi => h.eq i (hq i hi)⟩

theorem Ag.refl (n : Nat) (P : Nat → Prop) (x : Buf) (h : n ≤ x.size) : Ag n P x x := ⟨h, h, fun _ _ => rfl⟩

/-- agreement everywhere + equal sizes = equality -/
theorem Ag.eq_of_all {n : Nat} {P : Nat → Prop} {x y : Buf} (h : Ag n P x y) (hP : ∀ i, P i) (hs : x.size = y.size) : x = y :=
  buf_ext x y hs (fun j _ => h.eq j (hP j))

/-- the same word written at the same position `< n` of both buffers -/
theorem Ag.set {n : Nat} {P : Nat → Prop} {x y : Buf} (h : Ag n P x y) (j : Nat) (v : W) (hj : j < n) :
    Ag n (fun i => P i ∨ i = j) (x.setIfInBounds j v) (y.setIfInBounds j v) := by
  refine ⟨by rw [Array.size_setIfInBounds]; exact h.sx, by rw [Array.size_setIfInBounds]; exact h.sy, ?_⟩
  intro i hi
  rw [getD_set, getD_set]
  have h1 := h.sx
  have h2 := h.sy
  by_cases hij : i = j
  · rw [if_pos ⟨hij, by omega⟩, if_pos ⟨hij, by omega⟩]
  · rw [if_neg (fun c => hij c.1), if_neg (fun c => hij c.1)]
    rcases hi with hi | hi
    · exact h.eq i hi
    · exact absurd hi hij

/-- two loops whose bodies keep a relation keep it -/
theorem iter_rel {σ : Type} (R : Nat → σ → σ → Prop) (m : Nat) (s s' : σ) (f g : Nat → σ → σ) (h0 : R 0 s s')
    (hs : ∀ k, k < m → ∀ t t', R k t t' → R (k + 1) (f k t) (g k t')) : R m (iter m s f) (iter m s' g) := by
  induction m with
  | zero => exact h0
  | succ m ih =>
    rw [iter_succ, iter_succ]
    exact hs m (by omega) _ _ (ih (fun k hk => hs k (by omega)))

/-- `memcpy` of `m` words that agree into both buffers: the destination range is added to the agreement set -/
theorem Ag.copyRow {n : Nat} {P : Nat → Prop} {d d' : Buf} (h : Ag n P d d') (d0 : Nat) (s s' : Buf) (s0 m : Nat)
    (hsrc : ∀ k, k < m → s.getD (s0 + k) 0#64 = s'.getD (s0 + k) 0#64) (hfit : d0 + m ≤ n) :
    Ag n (fun i => P i ∨ (d0 ≤ i ∧ i < d0 + m)) (copyRow d d0 s s0 m) (copyRow d' d0 s' s0 m) := by
  refine ⟨by rw [copyRow_size]; exact h.sx, by rw [copyRow_size]; exact h.sy, ?_⟩
  intro i hi
  rw [copyRow_getD, copyRow_getD]
  have h1 := h.sx
  have h2 := h.sy
  by_cases hr : d0 ≤ i ∧ i < d0 + m
  · rw [if_pos ⟨hr.1, hr.2, by omega⟩, if_pos ⟨hr.1, hr.2, by omega⟩]
    exact hsrc (i - d0) (by omega)
  · rw [if_neg (fun c => hr ⟨c.1, c.2.1⟩), if_neg (fun c => hr ⟨c.1, c.2.1⟩)]
    rcases hi with hi | hi
    · exact h.eq i hi
    · exact absurd hi hr

theorem Ag.zeroRow {n : Nat} {P : Nat → Prop} {d d' : Buf} (h : Ag n P d d') (d0 m : Nat) (hfit : d0 + m ≤ n) :
    Ag n (fun i => P i ∨ (d0 ≤ i ∧ i < d0 + m)) (zeroRow d d0 m) (zeroRow d' d0 m) := by
  refine ⟨by rw [zeroRow_size]; exact h.sx, by rw [zeroRow_size]; exact h.sy, ?_⟩
  intro i hi
  rw [zeroRow_getD, zeroRow_getD]
  have h1 := h.sx
  have h2 := h.sy
  by_cases hr : d0 ≤ i ∧ i < d0 + m
  · rw [if_pos ⟨hr.1, hr.2, by omega⟩, if_pos ⟨hr.1, hr.2, by omega⟩]
  · rw [if_neg (fun c => hr ⟨c.1, c.2.1⟩), if_neg (fun c => hr ⟨c.1, c.2.1⟩)]
    rcases hi with hi | hi
    · exact h.eq i hi
    · exact absurd hi hr

theorem Ag.scaleRow {n : Nat} {P : Nat → Prop} {d d' : Buf} (h : Ag n P d d') (d0 : Nat) (s s' : Buf) (s0 m : Nat) (f : W)
    (hsrc : ∀ k, k < m → s.getD (s0 + k) 0#64 = s'.getD (s0 + k) 0#64) (hfit : d0 + m ≤ n) :
    Ag n (fun i => P i ∨ (d0 ≤ i ∧ i < d0 + m)) (scaleRow d s d0 s0 m f) (scaleRow d' s' d0 s0 m f) := by
  refine ⟨by rw [scaleRow_size]; exact h.sx, by rw [scaleRow_size]; exact h.sy, ?_⟩
  intro i hi
  rw [scaleRow_getD, scaleRow_getD]
  have h1 := h.sx
  have h2 := h.sy
  by_cases hr : d0 ≤ i ∧ i < d0 + m
  · rw [if_pos ⟨hr.1, hr.2, by omega⟩, if_pos ⟨hr.1, hr.2, by omega⟩, hsrc (i - d0) (by omega)]
  · rw [if_neg (fun c => hr ⟨c.1, c.2.1⟩), if_neg (fun c => hr ⟨c.1, c.2.1⟩)]
    rcases hi with hi | hi
    · exact h.eq i hi
    · exact absurd hi hr

/-! ### the butterflies: positions `< n` of `a` are read and written -/

theorem Ag.bflyStep {n : Nat} {P : Nat → Prop} {a a' : Buf} (h : Ag n P a a') (hP : ∀ i, i < n → P i) (w : W) (o1 o2 k : Nat)
    (h1 : o1 + k < n) (h2 : o2 + k < n) : Ag n P (bflyStep w o1 o2 k a) (bflyStep w o1 o2 k a') := by
  unfold Model.Ntt.bflyStep
  rw [h.eq _ (hP _ h1), h.eq _ (hP _ h2)]
  exact ((h.set (o2 + k) _ h2).set (o1 + k) _ h1).mono (fun i hi => Or.inl (Or.inl hi))

theorem Ag.bfly {n : Nat} {P : Nat → Prop} {a a' : Buf} (h : Ag n P a a') (hP : ∀ i, i < n → P i) (w : W) (o1 o2 nc : Nat)
    (h1 : o1 + nc ≤ n) (h2 : o2 + nc ≤ n) : Ag n P (bfly a w o1 o2 nc) (bfly a' w o1 o2 nc) := by
  unfold Model.Ntt.bfly
  exact iter_rel (fun _ x y => Ag n P x y) nc a a' _ _ h
    (fun k hk t t' ht => ht.bflyStep hP w o1 o2 k (by omega) (by omega))

theorem pow_half (c u : Nat) (h : u < c) : 2 ^ c = 2 ^ (c - u - 1) * (2 ^ u * 2) := by
  rw [← Nat.pow_succ, ← Nat.pow_add]; congr 1; omega

theorem Ag.batchStages {n : Nat} {P : Nat → Prop} {a a' : Buf} (h : Ag n P a a') (hP : ∀ i, i < n → P i) (o : Obj)
    (s sInc b nB nc rs re rb rm : Nat) (hb : b < nB) (hn : n = 2 ^ sInc * nB * nc) :
    Ag n P (batchStages o a s sInc b (2 ^ sInc) nc rs re rb rm) (batchStages o a' s sInc b (2 ^ sInc) nc rs re rb rm) := by
  unfold Model.Ntt.batchStages
  apply iter_rel (fun _ x y => Ag n P x y) sInc a a' _ _ h
  intro si hsi t t' ht
  unfold Model.Ntt.stage
  dsimp only
  apply iter_rel (fun _ x y => Ag n P x y) (2 ^ sInc / 2) t t' _ _ ht
  intro i hi u u' hu
  rw [stageStep_eq, stageStep_eq]
  have hB := pow_half sInc si hsi
  have hU : 0 < 2 ^ si := Nat.two_pow_pos si
  have hi' : i < 2 ^ (sInc - si - 1) * 2 ^ si := by
    have : 2 ^ sInc / 2 = 2 ^ (sInc - si - 1) * 2 ^ si := by
      rw [hB, ← Nat.mul_assoc, Nat.mul_div_cancel _ (by omega)]
    omega
  have hrow := hiR_lt (2 ^ si) (2 ^ (sInc - si - 1)) i hU hi'
  rw [← hB] at hrow
  -- the upper row of the pair is inside batch b, hence inside the first `2^sInc * nB` rows
  have hN : b * 2 ^ sInc + loR (2 ^ si) i + 2 ^ si < 2 ^ sInc * nB := by
    have : (b + 1) * 2 ^ sInc ≤ nB * 2 ^ sInc := Nat.mul_le_mul_right _ (by omega)
    rw [Nat.add_mul, Nat.one_mul, Nat.mul_comm nB] at this
    omega
  have hfit1 := rowcol_lt nc (2 ^ sInc * nB) _ 0 hN
  have e1 : (b * 2 ^ sInc + loR (2 ^ si) i + 2 ^ si) * nc + nc ≤ n := by
    have : (b * 2 ^ sInc + loR (2 ^ si) i + 2 ^ si + 1) * nc ≤ 2 ^ sInc * nB * nc := Nat.mul_le_mul_right _ (by omega)
    rw [Nat.add_mul _ 1, Nat.one_mul] at this
    omega
  have e2 : (b * 2 ^ sInc + loR (2 ^ si) i) * nc + nc ≤ n := by
    have : (b * 2 ^ sInc + loR (2 ^ si) i + 1) * nc ≤ 2 ^ sInc * nB * nc := Nat.mul_le_mul_right _ (by omega)
    rw [Nat.add_mul _ 1, Nat.one_mul] at this
    omega
  exact hu.bfly hP _ _ _ nc e1 e2

/-! ### the copies of a pass: every row of `a2` is written from a row of `a` -/

/-- position `i` lies in the row `ρ (x * nB + b)` for some `x < B` -/
def RowSet (ρ : Nat → Nat) (B nB nc b : Nat) (i : Nat) : Prop :=
  ∃ x, x < B ∧ ρ (x * nB + b) * nc ≤ i ∧ i < ρ (x * nB + b) * nc + nc

theorem row_fit (nc N r : Nat) (hr : r < N) : r * nc + nc ≤ N * nc := by
  have : (r + 1) * nc ≤ N * nc := Nat.mul_le_mul_right _ (by omega)
  rw [Nat.add_mul, Nat.one_mul] at this
  exact this

theorem Ag.transposeCopy {n : Nat} {P Q : Nat → Prop} {a a' a2 a2' : Buf} (ha : Ag n P a a') (h2 : Ag n Q a2 a2')
    (hP : ∀ i, i < n → P i) (b B nB nc : Nat) (hb : b < nB) (hn : n = B * nB * nc) :
    Ag n (fun i => Q i ∨ RowSet id B nB nc b i) (transposeCopy a2 a b B nB nc) (transposeCopy a2' a' b B nB nc) := by
  unfold Model.Ntt.transposeCopy
  have key := iter_rel (fun k x y => Ag n (fun i => Q i ∨ ∃ x, x < k ∧ (x * nB + b) * nc ≤ i ∧ i < (x * nB + b) * nc + nc) x y)
    B a2 a2' (fun x a2 => Model.Ntt.copyRow a2 ((x * nB + b) * nc) a ((b * B + x) * nc) nc)
    (fun x a2 => Model.Ntt.copyRow a2 ((x * nB + b) * nc) a' ((b * B + x) * nc) nc)
    (h2.mono (fun i hi => by
      rcases hi with hi | ⟨x, hx, _⟩
      · exact hi
      · omega))
    (fun k hk t t' ht => by
      have hrow : k * nB + b < B * nB := mr_lt k b nB B hk hb
      have hsrcrow : b * B + k < B * nB := by rw [Nat.mul_comm B nB]; exact mr_lt b k B nB hb hk
      have := ht.copyRow ((k * nB + b) * nc) a a' ((b * B + k) * nc) nc
        (fun j hj => ha.eq _ (hP _ (by rw [hn]; exact rowcol_lt nc (B * nB) _ j hsrcrow hj)))
        (by rw [hn]; exact row_fit nc (B * nB) _ hrow)
      apply this.mono
      intro i hi
      rcases hi with hi | ⟨x, hx, h1, h2⟩
      · exact Or.inl (Or.inl hi)
      · by_cases hxk : x = k
        · subst hxk; exact Or.inr ⟨h1, h2⟩
        · exact Or.inl (Or.inr ⟨x, by omega, h1, h2⟩))
  exact key

theorem inttIdx_lt' (i N : Nat) (hi : i < N) : inttIdx i N < N := by
  unfold inttIdx
  by_cases h : N - i = N
  · rw [if_pos h]; omega
  · rw [if_neg h]; omega

theorem inttIdx_invol (i N : Nat) (hi : i < N) : inttIdx (inttIdx i N) N = i := by
  unfold inttIdx
  by_cases h : N - i = N
  · rw [if_pos h]
    have : N - 0 = N := by omega
    rw [if_pos this]; omega
  · rw [if_neg h]
    have : ¬ (N - (N - i) = N) := by omega
    rw [if_neg this]; omega

theorem Ag.inverseCopy {n : Nat} {P Q : Nat → Prop} {a a' a2 a2' : Buf} (ha : Ag n P a a') (h2 : Ag n Q a2 a2')
    (hP : ∀ i, i < n → P i) (o : Obj) (b B nB nc dp : Nat) (extend : Bool) (hb : b < nB) (hn : n = B * nB * nc) :
    Ag n (fun i => Q i ∨ RowSet (fun r => inttIdx r (B * nB)) B nB nc b i)
      (inverseCopy o a2 a b B nB nc (B * nB) dp extend) (inverseCopy o a2' a' b B nB nc (B * nB) dp extend) := by
  unfold Model.Ntt.inverseCopy
  have key := iter_rel (fun k x y => Ag n (fun i => Q i ∨ ∃ x, x < k ∧ inttIdx (x * nB + b) (B * nB) * nc ≤ i ∧
      i < inttIdx (x * nB + b) (B * nB) * nc + nc) x y)
    B a2 a2'
    (fun x a2 => Model.Ntt.scaleRow a2 a (inttIdx (x * nB + b) (B * nB) * nc) ((b * B + x) * nc) nc
      (scaleFactor o extend dp (inttIdx (x * nB + b) (B * nB))))
    (fun x a2 => Model.Ntt.scaleRow a2 a' (inttIdx (x * nB + b) (B * nB) * nc) ((b * B + x) * nc) nc
      (scaleFactor o extend dp (inttIdx (x * nB + b) (B * nB))))
    (h2.mono (fun i hi => by
      rcases hi with hi | ⟨x, hx, _⟩
      · exact hi
      · omega))
    (fun k hk t t' ht => by
      have hrow : k * nB + b < B * nB := mr_lt k b nB B hk hb
      have hrow' := inttIdx_lt' _ _ hrow
      have hsrcrow : b * B + k < B * nB := by rw [Nat.mul_comm B nB]; exact mr_lt b k B nB hb hk
      have := ht.scaleRow (inttIdx (k * nB + b) (B * nB) * nc) a a' ((b * B + k) * nc) nc
        (scaleFactor o extend dp (inttIdx (k * nB + b) (B * nB)))
        (fun j hj => ha.eq _ (hP _ (by rw [hn]; exact rowcol_lt nc (B * nB) _ j hsrcrow hj)))
        (by rw [hn]; exact row_fit nc (B * nB) _ hrow')
      apply this.mono
      intro i hi
      rcases hi with hi | ⟨x, hx, h1, h2⟩
      · exact Or.inl (Or.inl hi)
      · by_cases hxk : x = k
        · subst hxk; exact Or.inr ⟨h1, h2⟩
        · exact Or.inl (Or.inr ⟨x, by omega, h1, h2⟩))
  exact key

/-- the rows written by the copies of all batches of a pass are all rows -/
theorem rows_cover (ρ : Nat → Nat) (hρ : ∀ r, r < B * nB → ∃ r', r' < B * nB ∧ ρ r' = r) (nc i : Nat) (hi : i < B * nB * nc) :
    ∃ b, b < nB ∧ RowSet ρ B nB nc b i := by
  have hnc : 0 < nc := by
    rcases Nat.eq_zero_or_pos nc with h | h
    · subst h; simp at hi
    · exact h
  have hnB : 0 < nB := by
    rcases Nat.eq_zero_or_pos nB with h | h
    · subst h; simp at hi
    · exact h
  have hr : i / nc < B * nB := Nat.div_lt_of_lt_mul (by rw [Nat.mul_comm]; exact hi)
  obtain ⟨r', hr', e⟩ := hρ _ hr
  refine ⟨r' % nB, Nat.mod_lt _ hnB, r' / nB, Nat.div_lt_of_lt_mul (by rw [Nat.mul_comm]; exact hr'), ?_⟩
  have e2 : r' / nB * nB + r' % nB = r' := by rw [Nat.mul_comm]; exact Nat.div_add_mod r' nB
  rw [e2, e]
  have := Nat.div_add_mod i nc
  have := Nat.mod_lt i hnc
  rw [Nat.mul_comm]
  omega

/-! ### one pass -/

theorem Ag.pass {n : Nat} {P Q : Nat → Prop} {a a' a2 a2' : Buf} (ha : Ag n P a a') (h2 : Ag n Q a2 a2')
    (hP : ∀ i, i < n → P i) (o : Obj) (d nc : Nat) (inverse extend flag : Bool) (s c : Nat) (hc : c ≤ d) (hn : n = 2 ^ d * nc) :
    Ag n (fun i => Q i ∨ i < n) (pass o (2 ^ d) d nc inverse extend (a, a2, flag) (s, c)).1
        (pass o (2 ^ d) d nc inverse extend (a', a2', flag) (s, c)).1 ∧
    Ag n P (pass o (2 ^ d) d nc inverse extend (a, a2, flag) (s, c)).2.1
        (pass o (2 ^ d) d nc inverse extend (a', a2', flag) (s, c)).2.1 ∧
    (pass o (2 ^ d) d nc inverse extend (a, a2, flag) (s, c)).2.2 = !flag ∧
    (pass o (2 ^ d) d nc inverse extend (a', a2', flag) (s, c)).2.2 = !flag := by
  have hdiv : 2 ^ d / 2 ^ c = 2 ^ (d - c) := Nat.pow_div hc (by omega)
  have hN : 2 ^ c * 2 ^ (d - c) = 2 ^ d := by rw [← Nat.pow_add]; congr 1; omega
  unfold Model.Ntt.pass
  dsimp only
  rw [hdiv]
  generalize hli : (!decide (s + c ≤ d) && inverse) = li
  -- the set of rows written after `k` batches
  let RS : Nat → Nat → Prop := fun k i =>
    ∃ b, b < k ∧ RowSet (if li = true then (fun r => inttIdx r (2 ^ d)) else id) (2 ^ c) (2 ^ (d - c)) nc b i
  have key := iter_rel (fun k (x y : Buf × Buf) => Ag n P x.1 y.1 ∧ Ag n (fun i => Q i ∨ RS k i) x.2 y.2)
    (2 ^ (d - c)) (a, a2) (a', a2') (passBatch o (2 ^ d) d nc s c li extend) (passBatch o (2 ^ d) d nc s c li extend)
    ⟨ha, h2.mono (fun i hi => by
      rcases hi with hi | ⟨b, hb, _⟩
      · exact hi
      · omega)⟩
    (fun k hk t t' ht => by
      obtain ⟨t1, t2⟩ := ht
      unfold Model.Ntt.passBatch
      dsimp only
      rw [hdiv]
      have hst := t1.batchStages hP o s c k (2 ^ (d - c)) nc (s - 1) (d - 1) (2 ^ (s - 1)) (2 ^ (d - 1 - (s - 1)) - 1) hk
        (by rw [hN]; exact hn)
      refine ⟨hst, ?_⟩
      cases li with
      | true =>
        simp only [if_true]
        have := hst.inverseCopy t2 hP o k (2 ^ c) (2 ^ (d - c)) nc d extend hk (by rw [hN]; exact hn)
        rw [hN] at this
        apply this.mono
        intro i hi
        rcases hi with hi | ⟨b, hb, hr⟩
        · exact Or.inl (Or.inl hi)
        · by_cases hbk : b = k
          · subst hbk; exact Or.inr hr
          · exact Or.inl (Or.inr ⟨b, by omega, hr⟩)
      | false =>
        simp only [Bool.false_eq_true, if_false]
        have := hst.transposeCopy t2 hP k (2 ^ c) (2 ^ (d - c)) nc hk (by rw [hN]; exact hn)
        apply this.mono
        intro i hi
        rcases hi with hi | ⟨b, hb, hr⟩
        · exact Or.inl (Or.inl hi)
        · by_cases hbk : b = k
          · subst hbk; exact Or.inr hr
          · exact Or.inl (Or.inr ⟨b, by omega, hr⟩))
  obtain ⟨k1, k2⟩ := key
  refine ⟨?_, k1, rfl, rfl⟩
  apply k2.mono
  intro i hi
  rcases hi with hi | hi
  · exact Or.inl hi
  · right
    rw [hn, ← hN] at hi
    cases li with
    | true =>
      obtain ⟨b, hb, hr⟩ := rows_cover (B := 2 ^ c) (nB := 2 ^ (d - c)) (fun r => inttIdx r (2 ^ d))
        (fun r hr => ⟨inttIdx r (2 ^ d), by rw [hN] at hr ⊢; exact inttIdx_lt' _ _ hr,
          by rw [hN] at hr; exact inttIdx_invol _ _ hr⟩) nc i hi
      exact ⟨b, hb, hr⟩
    | false =>
      obtain ⟨b, hb, hr⟩ := rows_cover (B := 2 ^ c) (nB := 2 ^ (d - c)) id (fun r hr => ⟨r, hr, rfl⟩) nc i hi
      exact ⟨b, hb, hr⟩

/-! ### the bit reversal (destination distinct from the source) writes every row -/

theorem rp_indep (o : Obj) {n : Nat} {Q : Nat → Prop} {x x' : Buf} (h : Ag n Q x x') (src : Buf) (size oc nc nca : Nat)
    (hn : n = size * nc) :
    ∃ t t', reversePermutation o x src false size oc nc nca = .ok t ∧
      reversePermutation o x' src false size oc nc nca = .ok t' ∧ Ag n (fun i => Q i ∨ i < n) t t' := by
  subst hn
  unfold reversePermutation
  dsimp only
  simp only [Bool.not_false, if_true]
  have hfin : ∀ t t', Ag (size * nc) (fun i => Q i ∨ i < size * nc) t t' → Ag (size * nc) (fun i => Q i ∨ i < size * nc) t t' :=
    fun _ _ ht => ht
  have h0 : Ag (size * nc) (fun i => Q i ∨ i < 0 * nc) x x' := h.mono (fun i hi => by
    rcases hi with hi | hi
    · exact hi
    · omega)
  have hgrow : ∀ k i, (Q i ∨ i < (k + 1) * nc) → (Q i ∨ i < k * nc) ∨ (k * nc ≤ i ∧ i < k * nc + nc) := by
    intro k i hi
    rw [Nat.add_mul, Nat.one_mul] at hi
    rcases hi with hi | hi
    · exact Or.inl (Or.inl hi)
    · by_cases hlt : i < k * nc
      · exact Or.inl (Or.inr hlt)
      · exact Or.inr ⟨by omega, hi⟩
  by_cases he : o.extension ≤ 1
  · rw [if_pos he, if_pos he]
    refine ⟨_, _, rfl, rfl, hfin _ _ ?_⟩
    apply iter_rel (fun k u u' => Ag (size * nc) (fun i => Q i ∨ i < k * nc) u u') size x x' _ _ h0
    intro k hk t t' ht
    exact (ht.copyRow (k * nc) src src _ nc (fun _ _ => rfl) (row_fit nc size k hk)).mono (hgrow k)
  · rw [if_neg he, if_neg he]
    refine ⟨_, _, rfl, rfl, hfin _ _ ?_⟩
    apply iter_rel (fun k u u' => Ag (size * nc) (fun i => Q i ∨ i < k * nc) u u') size x x' _ _ h0
    intro k hk t t' ht
    by_cases hlt : br k (log2 size) * nca + oc < size / o.extension * nca
    · rw [if_pos hlt, if_pos hlt]
      exact (ht.copyRow (k * nc) src src _ nc (fun _ _ => rfl) (row_fit nc size k hk)).mono (hgrow k)
    · rw [if_neg hlt, if_neg hlt]
      exact (ht.zeroRow (k * nc) nc (row_fit nc size k hk)).mono (hgrow k)

/-! ### the pass loop -/

/-- the invariant of the pass loop for two runs: the buffer that designates the destination agrees on `DP` (and on the first
    `n` words once it holds the data), the other one on the first `n` words when it holds the data -/
@[reducible] def PInv (n : Nat) (DP : Nat → Prop) (st st' : Buf × Buf × Bool) : Prop :=
  st.2.2 = st'.2.2 ∧
  (st.2.2 = true → Ag n (fun i => DP i ∨ i < n) st.1 st'.1 ∧ Ag n (fun _ => False) st.2.1 st'.2.1) ∧
  (st.2.2 = false → Ag n (fun i => i < n) st.1 st'.1 ∧ Ag n DP st.2.1 st'.2.1)

theorem foldl_indep (o : Obj) (d nc : Nat) (inverse extend : Bool) (n : Nat) (hn : n = 2 ^ d * nc) (DP : Nat → Prop) :
    ∀ (L : List (Nat × Nat)) (s0 : Nat), 1 ≤ s0 → SchedOk d s0 L → ∀ st st', PInv n DP st st' →
      PInv n DP (L.foldl (pass o (2 ^ d) d nc inverse extend) st) (L.foldl (pass o (2 ^ d) d nc inverse extend) st') := by
  intro L
  induction L with
  | nil => intro _ _ _ st st' h; exact h
  | cons p L ih =>
    intro s0 hs0 hok st st' h
    obtain ⟨s, c⟩ := p
    obtain ⟨e, hc1, hsc, hrest⟩ := hok
    rw [List.foldl_cons, List.foldl_cons]
    apply ih (s + c) (by omega) hrest
    obtain ⟨a, a2, flag⟩ := st
    obtain ⟨a', a2', flag'⟩ := st'
    obtain ⟨hf, ht, hff⟩ := h
    simp only at hf ht hff
    subst hf
    cases flag with
    | true =>
      obtain ⟨h1, h2⟩ := ht rfl
      obtain ⟨p1, p2, p3, p4⟩ := h1.pass h2 (fun i hi => Or.inr hi) o d nc inverse extend true s c (by omega) hn
      refine ⟨by rw [p3, p4], fun hh => ?_, fun _ => ⟨p1.mono (fun i hi => Or.inr hi), p2.mono (fun i hi => Or.inl hi)⟩⟩
      rw [p3] at hh; cases hh
    | false =>
      obtain ⟨h1, h2⟩ := hff rfl
      obtain ⟨p1, p2, p3, p4⟩ := h1.pass h2 (fun i hi => hi) o d nc inverse extend false s c (by omega) hn
      refine ⟨by rw [p3, p4], fun _ => ⟨p1, p2.mono (fun i hi => absurd hi id)⟩, fun hh => ?_⟩
      rw [p3] at hh; cases hh

theorem itersTail_indep (o : Obj) (srcB : Buf) (dis : Bool) (d nc np : Nat) (inverse extend : Bool) (DP : Nat → Prop)
    (hnp1 : 1 ≤ np) (hnp2 : 1 ≤ d → np ≤ d) (hnp3 : d = 0 → np = 1) (st st' : Buf × Buf × Bool)
    (hinv : PInv (2 ^ d * nc) DP st st') :
    (∃ r r', itersTail o srcB dis d nc np inverse extend st = .ok (r, if dis then r else srcB) ∧
        itersTail o srcB dis d nc np inverse extend st' = .ok (r', if dis then r' else srcB) ∧
        Ag (2 ^ d * nc) (fun i => DP i ∨ i < 2 ^ d * nc) r r') ∨
    (∃ e, itersTail o srcB dis d nc np inverse extend st = .error e ∧
        itersTail o srcB dis d nc np inverse extend st' = .error e) := by
  have hfold : PInv (2 ^ d * nc) DP ((schedule d np).foldl (pass o (2 ^ d) d nc inverse extend) st)
      ((schedule d np).foldl (pass o (2 ^ d) d nc inverse extend) st') := by
    rcases Nat.eq_zero_or_pos d with hd0 | hd1
    · subst hd0
      rw [hnp3 rfl, schedule_zero]
      exact hinv
    · exact foldl_indep o d nc inverse extend _ rfl DP _ 1 (Nat.le_refl _) (schedule_ok d np hnp1 (hnp2 hd1)).1 st st' hinv
  unfold itersTail
  generalize List.foldl (pass o (2 ^ d) d nc inverse extend) st (schedule d np) = F at hfold
  generalize List.foldl (pass o (2 ^ d) d nc inverse extend) st' (schedule d np) = F' at hfold
  obtain ⟨a, a2, flag⟩ := F
  obtain ⟨a', a2', flag'⟩ := F'
  obtain ⟨hf, ht, hff⟩ := hfold
  simp only at hf ht hff
  subst hf
  cases flag with
  | true =>
    obtain ⟨h1, _⟩ := ht rfl
    simp only [Bool.not_true, Bool.false_eq_true, if_false]
    left
    cases dis
    · exact ⟨a, a', rfl, rfl, h1⟩
    · exact ⟨a, a', rfl, rfl, h1⟩
  | false =>
    obtain ⟨h1, h2⟩ := hff rfl
    simp only [Bool.not_false, if_true]
    by_cases hgt : 2 ^ d > 1
    · rw [if_pos hgt, if_pos hgt]
      exact Or.inr ⟨_, rfl, rfl⟩
    · rw [if_neg hgt, if_neg hgt]
      left
      have hc := (h2.copyRow 0 a a' 0 (2 ^ d * nc) (fun k hk => by rw [Nat.zero_add]; exact h1.eq k hk) (by omega)).mono
        (Q := fun i => DP i ∨ i < 2 ^ d * nc) (fun i hi => by
          rcases hi with hi | hi
          · exact Or.inl hi
          · exact Or.inr ⟨by omega, by omega⟩)
      cases dis
      · exact ⟨_, _, rfl, rfl, hc⟩
      · exact ⟨_, _, rfl, rfl, hc⟩

/-- **`nttIters` does not depend on the initial content of the scratch buffer**, nor — on the first `size * ncols` words — on
    the initial content of a destination buffer that is distinct from the source: two runs whose destination buffers agree on
    `DP` return both an error, or both a result, and the results agree on `DP` and on the first `size * ncols` words -/
theorem nttIters_indep (o : Obj) (dstB dstB' srcB auxB auxB' : Buf) (dis : Bool) (d oc nc nca nphase : Nat)
    (inverse extend : Bool) (DP : Nat → Prop)
    (hdst : Ag (2 ^ d * nc) DP (if dis then srcB else dstB) (if dis then srcB else dstB'))
    (haux : 2 ^ d * nc ≤ auxB.size) (haux' : 2 ^ d * nc ≤ auxB'.size) :
    (∃ r r', nttIters o dstB srcB auxB dis (2 ^ d) oc nc nca nphase inverse extend = .ok (r, if dis then r else srcB) ∧
        nttIters o dstB' srcB auxB' dis (2 ^ d) oc nc nca nphase inverse extend = .ok (r', if dis then r' else srcB) ∧
        Ag (2 ^ d * nc) (fun i => DP i ∨ i < 2 ^ d * nc) r r') ∨
    (∃ e, nttIters o dstB srcB auxB dis (2 ^ d) oc nc nca nphase inverse extend = .error e ∧
        nttIters o dstB' srcB auxB' dis (2 ^ d) oc nc nca nphase inverse extend = .error e) := by
  have hlog : log2 (2 ^ d) = d := Nat.log2_two_pow
  obtain ⟨cp1, cp2, cp3⟩ := clampPhase_range nphase d
  have tail := fun st st' => itersTail_indep o srcB dis d nc (clampPhase nphase d) inverse extend DP cp1 cp2 cp3 st st'
  have hne : ¬ ((2 : Nat) ^ d ≠ 2 ^ d) := by simp
  unfold nttIters
  simp only [hlog]
  rw [if_neg hne, if_neg hne]
  generalize ha0 : (if dis then srcB else dstB) = a0 at hdst
  generalize ha0' : (if dis then srcB else dstB') = a0' at hdst
  by_cases hodd : clampPhase nphase d % 2 = 1
  · have hdec : (decide (clampPhase nphase d % 2 = 1) : Bool) = true := by simp [hodd]
    rw [hdec, if_pos rfl, if_pos rfl]
    obtain ⟨t, t', e, e', hag⟩ := rp_indep o (Ag.mk haux haux' (fun i (hi : False) => absurd hi id) :
      Ag (2 ^ d * nc) (fun _ => False) auxB auxB') srcB (2 ^ d) oc nc nca rfl
    rw [e, e']
    exact tail (t, a0, false) (t', a0', false)
      ⟨rfl, (fun hh => by cases hh), fun _ => ⟨hag.mono (fun i hi => Or.inr hi), hdst⟩⟩
  · have hdec : (decide (clampPhase nphase d % 2 = 1) : Bool) = false := by simp [hodd]
    rw [hdec, if_neg Bool.false_ne_true, if_neg Bool.false_ne_true]
    have hauxAg : Ag (2 ^ d * nc) (fun _ => False) auxB auxB' := ⟨haux, haux', fun i hi => absurd hi id⟩
    cases dis with
    | false =>
      simp only [Bool.false_eq_true, if_false] at ha0 ha0'
      subst ha0; subst ha0'
      obtain ⟨t, t', e, e', hag⟩ := rp_indep o hdst srcB (2 ^ d) oc nc nca rfl
      rw [e, e']
      exact tail (t, auxB, true) (t', auxB', true) ⟨rfl, fun _ => ⟨hag, hauxAg⟩, (fun hh => by cases hh)⟩
    | true =>
      simp only [if_true] at ha0 ha0'
      subst ha0; subst ha0'
      cases hr : reversePermutation o srcB srcB true (2 ^ d) oc nc nca with
      | error e => exact Or.inr ⟨e, rfl, rfl⟩
      | ok t =>
        have hts := reversePermutation_size o _ _ true _ _ _ _ t hr
        simp only [if_true] at hts
        exact tail (t, auxB, true) (t, auxB', true)
          ⟨rfl, fun _ => ⟨Ag.refl _ _ t (by rw [hts]; exact hdst.sx), hauxAg⟩, (fun hh => by cases hh)⟩

/-! ### the result has the size of the destination buffer -/

theorem itersTail_size (o : Obj) (srcB : Buf) (dis : Bool) (d nc np : Nat) (inverse extend : Bool) (st : Buf × Buf × Bool)
    (r s : Buf) (h : itersTail o srcB dis d nc np inverse extend st = .ok (r, s)) :
    r.size = (if st.2.2 then st.1 else st.2.1).size := by
  have hsz := foldl_pass_size o (2 ^ d) d nc inverse extend (schedule d np) st
  unfold itersTail at h
  generalize List.foldl (pass o (2 ^ d) d nc inverse extend) st (schedule d np) = F at h hsz
  obtain ⟨a, a2, flag⟩ := F
  obtain ⟨a0, a20, flag0⟩ := st
  simp only at h hsz ⊢
  have hr : r.size = (if flag then a else a2).size := by
    cases flag with
    | true =>
      simp only [Bool.not_true, Bool.false_eq_true, if_false] at h
      cases dis
      · simp only [Bool.false_eq_true, if_false] at h; injection h with h; injection h with h _; rw [← h]; rfl
      · simp only [if_true] at h; injection h with h; injection h with h _; rw [← h]; rfl
    | false =>
      simp only [Bool.not_false, if_true] at h
      by_cases hgt : 2 ^ d > 1
      · rw [if_pos hgt] at h; cases h
      · rw [if_neg hgt] at h
        cases dis
        · simp only [Bool.false_eq_true, if_false] at h; injection h with h; injection h with h _
          rw [← h, copyRow_size]; rfl
        · simp only [if_true] at h; injection h with h; injection h with h _
          rw [← h, copyRow_size]; rfl
  rw [hr]
  cases flag <;> cases flag0
  · simp only [Bool.false_eq_true, if_false]; exact (hsz.1 rfl).2
  · simp only [Bool.false_eq_true, if_false, if_true]; exact (hsz.2 rfl).2
  · simp only [Bool.false_eq_true, if_false, if_true]; exact (hsz.2 rfl).1
  · simp only [if_true]; exact (hsz.1 rfl).1

/-- the destination content `nttIters` returns has the size of the destination buffer -/
theorem nttIters_size (o : Obj) (dstB srcB auxB : Buf) (dis : Bool) (d oc nc nca nphase : Nat) (inverse extend : Bool)
    (r s : Buf) (h : nttIters o dstB srcB auxB dis (2 ^ d) oc nc nca nphase inverse extend = .ok (r, s)) :
    r.size = (if dis then srcB else dstB).size := by
  have hlog : log2 (2 ^ d) = d := Nat.log2_two_pow
  have hne : ¬ ((2 : Nat) ^ d ≠ 2 ^ d) := by simp
  unfold nttIters at h
  simp only [hlog] at h
  rw [if_neg hne] at h
  by_cases hodd : clampPhase nphase d % 2 = 1
  · have hdec : (decide (clampPhase nphase d % 2 = 1) : Bool) = true := by simp [hodd]
    rw [hdec, if_pos rfl] at h
    cases hr : reversePermutation o auxB srcB false (2 ^ d) oc nc nca with
    | error e => rw [hr] at h; cases h
    | ok t =>
      rw [hr] at h
      exact itersTail_size o srcB dis d nc (clampPhase nphase d) inverse extend (t, _, false) r s h
  · have hdec : (decide (clampPhase nphase d % 2 = 1) : Bool) = false := by simp [hodd]
    rw [hdec, if_neg Bool.false_ne_true] at h
    cases hr : reversePermutation o (if dis then srcB else dstB) srcB dis (2 ^ d) oc nc nca with
    | error e => rw [hr] at h; cases h
    | ok t =>
      rw [hr] at h
      have h1 := itersTail_size o srcB dis d nc (clampPhase nphase d) inverse extend (t, auxB, true) r s h
      have h2 := reversePermutation_size o _ _ dis _ _ _ _ t hr
      simp only [if_true] at h1
      rw [h1, h2]
      cases dis <;> rfl

/-- **the result of `nttIters` does not depend on the content of the scratch buffer** (bit for bit; both scratch buffers of at
    least size·ncols words, as the destination) -/
theorem nttIters_aux_irrelevant (o : Obj) (dstB srcB auxB auxB' : Buf) (dis : Bool) (d oc nc nca nphase : Nat)
    (inverse extend : Bool) (hdst : 2 ^ d * nc ≤ (if dis then srcB else dstB).size)
    (haux : 2 ^ d * nc ≤ auxB.size) (haux' : 2 ^ d * nc ≤ auxB'.size) :
    nttIters o dstB srcB auxB dis (2 ^ d) oc nc nca nphase inverse extend =
      nttIters o dstB srcB auxB' dis (2 ^ d) oc nc nca nphase inverse extend := by
  rcases nttIters_indep o dstB dstB srcB auxB auxB' dis d oc nc nca nphase inverse extend (fun _ => True)
    (Ag.refl _ _ _ hdst) haux haux' with ⟨r, r', e, e', hag⟩ | ⟨er, e, e'⟩
  · have h1 := nttIters_size o dstB srcB auxB dis d oc nc nca nphase inverse extend r _ e
    have h2 := nttIters_size o dstB srcB auxB' dis d oc nc nca nphase inverse extend r' _ e'
    have : r = r' := hag.eq_of_all (fun _ => Or.inl trivial) (by rw [h1, h2])
    rw [e, e', this]
  · rw [e, e']

theorem scatterBlock_size (dst d : Buf) (size ncols oc w : Nat) : (scatterBlock dst d size ncols oc w).size = dst.size := by
  unfold scatterBlock
  apply iter_size
  intro i b
  exact copyRow_size _ _ _ _ _

/-- `ntt` returns a destination content of the size of the destination buffer (every argument; size a power of two) -/
theorem ntt_size (o : Obj) (mode : DstMode) (dstB srcB : Buf) (d ncols nphase nblock : Nat) (inverse extend : Bool) (r s : Buf)
    (h : ntt o mode dstB srcB (2 ^ d) ncols nphase nblock inverse extend = .ok (r, s)) :
    r.size = (if mode = .other then dstB else srcB).size := by
  unfold ntt at h
  by_cases h0 : ncols = 0 ∨ 2 ^ d = 0
  · rw [if_pos h0] at h
    injection h with h; injection h with h _; rw [← h]
  · rw [if_neg h0] at h
    have hm : (if (decide (mode ≠ DstMode.other) : Bool) = true then srcB else dstB) = (if mode = .other then dstB else srcB) := by
      cases mode <;> rfl
    rw [← hm]
    generalize decide (mode ≠ DstMode.other) = dis at h ⊢
    unfold nttBlocks at h
    dsimp only at h
    by_cases hb : clampBlock nblock ncols ≤ 1
    · rw [if_pos hb] at h
      exact nttIters_size o _ _ _ dis d _ _ _ _ inverse extend r s h
    · rw [if_neg hb] at h
      -- every iteration of the block loop keeps the size of the destination
      have key : ∀ ib st, Model.Ntt.iter ib (Except.ok ((if dis = true then srcB else dstB), srcB, 0))
          (nttBlock o (Array.replicate (2 ^ d * (ncols / clampBlock nblock ncols + if ncols % clampBlock nblock ncols > 0 then 1 else 0)) 0#64)
            dis (2 ^ d) ncols nphase (ncols / clampBlock nblock ncols) (ncols % clampBlock nblock ncols)
            (ncols / clampBlock nblock ncols + if ncols % clampBlock nblock ncols > 0 then 1 else 0) inverse extend) = .ok st →
          st.1.size = (if dis = true then srcB else dstB).size := by
        intro ib
        induction ib with
        | zero => intro st hst; rw [iter_zero] at hst; injection hst with hst; rw [← hst]
        | succ ib ih =>
          intro st hst
          rw [iter_succ] at hst
          cases hprev : Model.Ntt.iter ib (Except.ok ((if dis = true then srcB else dstB), srcB, 0))
            (nttBlock o (Array.replicate (2 ^ d * (ncols / clampBlock nblock ncols + if ncols % clampBlock nblock ncols > 0 then 1 else 0)) 0#64)
              dis (2 ^ d) ncols nphase (ncols / clampBlock nblock ncols) (ncols % clampBlock nblock ncols)
              (ncols / clampBlock nblock ncols + if ncols % clampBlock nblock ncols > 0 then 1 else 0) inverse extend) with
          | error e => rw [hprev] at hst; unfold nttBlock at hst; cases hst
          | ok p =>
            obtain ⟨dst, src, off⟩ := p
            have hp := ih _ hprev
            rw [hprev] at hst
            unfold nttBlock at hst
            dsimp only at hst
            cases hit : nttIters o (Array.replicate (2 ^ d * (ncols / clampBlock nblock ncols + if ncols % clampBlock nblock ncols > 0 then 1 else 0)) 0#64)
              src (Array.replicate (2 ^ d * (ncols / clampBlock nblock ncols + if ncols % clampBlock nblock ncols > 0 then 1 else 0)) 0#64)
              false (2 ^ d) off (ncols / clampBlock nblock ncols + if ib < ncols % clampBlock nblock ncols then 1 else 0) ncols nphase inverse extend with
            | error e => rw [hit] at hst; cases hst
            | ok q =>
              obtain ⟨dd, _⟩ := q
              rw [hit] at hst
              injection hst with hst
              rw [← hst]
              simp only
              rw [scatterBlock_size]
              exact hp
      cases hfin : Model.Ntt.iter (clampBlock nblock ncols) (Except.ok ((if dis = true then srcB else dstB), srcB, 0))
          (nttBlock o (Array.replicate (2 ^ d * (ncols / clampBlock nblock ncols + if ncols % clampBlock nblock ncols > 0 then 1 else 0)) 0#64)
            dis (2 ^ d) ncols nphase (ncols / clampBlock nblock ncols) (ncols % clampBlock nblock ncols)
            (ncols / clampBlock nblock ncols + if ncols % clampBlock nblock ncols > 0 then 1 else 0) inverse extend) with
      | error e => rw [hfin] at h; cases h
      | ok p =>
        obtain ⟨dst, src, off⟩ := p
        rw [hfin] at h
        injection h with h; injection h with h _
        rw [← h]
        exact key _ _ hfin

theorem intt_size (o : Obj) (mode : DstMode) (dstB srcB : Buf) (d ncols nphase nblock : Nat) (extend : Bool) (r s : Buf)
    (h : intt o mode dstB srcB (2 ^ d) ncols nphase nblock extend = .ok (r, s)) :
    r.size = (if mode = .other then dstB else srcB).size := by
  unfold intt at h
  by_cases h0 : ncols = 0 ∨ 2 ^ d = 0
  · rw [if_pos h0] at h
    injection h with h; injection h with h _; rw [← h]
  · rw [if_neg h0] at h
    have := ntt_size o _ dstB srcB d ncols nphase nblock true extend r s h
    rw [this]
    cases mode <;> rfl

/-! ### what reads only a prefix of a buffer -/

theorem copyRow_congr_src (dst : Buf) (d0 : Nat) (s s' : Buf) (s0 m : Nat)
    (h : ∀ k, k < m → s.getD (s0 + k) 0#64 = s'.getD (s0 + k) 0#64) : copyRow dst d0 s s0 m = copyRow dst d0 s' s0 m := by
  unfold copyRow
  apply iter_congr
  intro k hk t
  rw [h k hk]

/-- the scatter of a column block reads the first `size * w` words of the temporary destination only -/
theorem scatterBlock_congr (dst d d' : Buf) (size ncols oc w : Nat) (P : Nat → Prop) (h : Ag (size * w) P d d')
    (hP : ∀ i, i < size * w → P i) : scatterBlock dst d size ncols oc w = scatterBlock dst d' size ncols oc w := by
  unfold scatterBlock
  apply iter_congr
  intro ie hie t
  apply copyRow_congr_src
  intro k hk
  exact h.eq _ (hP _ (rowcol_lt w size ie k hie hk))

end GoldilocksVerif.Model.Ntt
