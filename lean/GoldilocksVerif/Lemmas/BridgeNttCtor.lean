/-
  Bridge theorem: the TRANSLATED constructor `NTT_Goldilocks::NTT_Goldilocks(maxDomainSize, nThreads, extension)`
  (Gen/NttGen.lean; the GMP calls by their results, Model/TrHeap.lean `Gmp`) builds, in two new heap blocks, exactly the
  tables `roots`, `powTwoInv` of the hand model's `mkObj` (Model/Ntt.lean) and sets `s` as the model does; the constructor
  throws iff the model returns `none`; the assert `roots[nRoots-1] * roots[1] == 1` holds.
-/
import GoldilocksVerif.Lemmas.BridgeNttComputeR
import GoldilocksVerif.Lemmas.BridgeNttTop
import GoldilocksVerif.Lemmas.BridgeNttComm
import GoldilocksVerif.Lemmas.NttTop
import GoldilocksVerif.Model.Inv

namespace GoldilocksVerif.BridgeNtt
open GoldilocksVerif Gen.NttGen Gen.Scalar

/-- (p − 1) / 2 and p as GMP integers of the constructor -/
def Q2 : Nat := 9223372034707292160
def Pn : Nat := 18446744069414584321

theorem gmp_negone : (18446744069414584320#64 : BitVec 64).toNat = 18446744069414584320 := by decide
theorem gmp_q : 18446744069414584320 + 1 = Pn := by decide
theorem gmp_q2 : Gmp.fdiv_q_2exp 18446744069414584320 1 = Q2 := by decide +kernel
/-- the search of the quadratic non-residue: 2 … 6 are residues, 7 is not -/
theorem gmp_nqr : Loop.whileM (NTT_ctor_loop1 Q2 Pn) 6 (2, Gmp.powm 2 Q2 Pn) = some (7, Gmp.powm 7 Q2 Pn) := by
  decide +kernel
theorem gmp_half : Gen.Scalar.fromU64__rE (Gmp.get_ui (Gmp.invert 2 Pn)) = 9223372034707292161#64 := by decide +kernel
theorem q2_bits : ∀ j : Fin 31, Nat.testBit Q2 j.val = false := by decide +kernel

theorem q2_bit (j : Nat) (hj : j < 31) : Gmp.tstbit (Gmp.fdiv_q_2exp Q2 j) 0 = 0 := by
  unfold Gmp.tstbit Gmp.fdiv_q_2exp
  have : (Q2 / 2 ^ j).testBit 0 = Q2.testBit j := by
    rw [Nat.testBit_div_two_pow]; simp
  rw [this, q2_bits ⟨j, hj⟩]
  rfl

theorem q2_shift (j : Nat) : Gmp.fdiv_q_2exp (Gmp.fdiv_q_2exp Q2 j) 1 = Gmp.fdiv_q_2exp Q2 (j + 1) := by
  unfold Gmp.fdiv_q_2exp
  rw [Nat.div_div_eq_div_mul, ← Nat.pow_succ]

def mkS (D : Nat) : Nat := if D ≤ 1 then 1 else min D 32

theorem q2_bit31 : Gmp.tstbit (Gmp.fdiv_q_2exp Q2 31) 0 = 1 := by decide +kernel

/-- the loop that counts `s` up to min(domainPow, 32) (at least 1): from `s = 1 + j` -/
theorem sloop (D : Nat) (hD : D < 64) (dp : BitVec 32) (hdp : dp.toNat = D) :
    ∀ (n j : Nat) (self : NTT_Goldilocks) (fuel : Nat), 1 + j + n = mkS D → n < fuel → self.s.toNat = 1 + j →
    Loop.whileM (NTT_ctor_loop2 dp) fuel (Gmp.fdiv_q_2exp Q2 j, self) =
      some (Gmp.fdiv_q_2exp Q2 (j + n), { self with s := BitVec.ofNat 32 (mkS D) }) := by
  have hS32 : mkS D ≤ 32 := by
    unfold mkS; by_cases h : D ≤ 1
    · rw [if_pos h]; omega
    · rw [if_neg h]; omega
  have hSD : 2 ≤ mkS D → mkS D ≤ D := by
    unfold mkS; by_cases h : D ≤ 1
    · rw [if_pos h]; omega
    · rw [if_neg h]; omega
  intro n
  induction n with
  | zero =>
    intro j self fuel h1 h2 hs
    obtain ⟨f, rfl⟩ : ∃ f, fuel = f + 1 := ⟨fuel - 1, by omega⟩
    have hstep : NTT_ctor_loop2 dp (Gmp.fdiv_q_2exp Q2 j, self) = some (false, (Gmp.fdiv_q_2exp Q2 j, self)) := by
      unfold NTT_ctor_loop2
      by_cases hDS : D ≤ mkS D
      · have hlt : decide (self.s < dp) = false := by
          rw [decide_eq_false_iff_not, BitVec.lt_def, hs, hdp]; omega
        simp only [hlt, Bool.and_false, Bool.false_eq_true, if_false]
      · -- domainPow > 32: the loop stops at the first set bit of (p − 1) / 2, s = 32
        have h32 : mkS D = 32 := by
          unfold mkS at hDS ⊢; by_cases h : D ≤ 1
          · rw [if_pos h] at hDS; omega
          · rw [if_neg h] at hDS ⊢; omega
        have hj : j = 31 := by omega
        subst hj
        simp only [q2_bit31]
        rfl
    rw [Loop.whileM_stop _ _ _ _ hstep]
    have : self = { self with s := BitVec.ofNat 32 (mkS D) } := by
      have e : self.s = BitVec.ofNat 32 (mkS D) := by
        apply BitVec.eq_of_toNat_eq
        rw [hs, BitVec.toNat_ofNat, Nat.mod_eq_of_lt (by omega)]; omega
      cases self; simp at e ⊢; exact e
    rw [← this]; rfl
  | succ n ih =>
    intro j self fuel h1 h2 hs
    obtain ⟨f, rfl⟩ : ∃ f, fuel = f + 1 := ⟨fuel - 1, by omega⟩
    have hj : j < 31 := by omega
    have hlt : decide (self.s < dp) = true := by
      rw [decide_eq_true_eq, BitVec.lt_def, hs, hdp]
      have := hSD (by omega); omega
    have hs1 : (self.s + 1#32).toNat = 1 + (j + 1) := by
      rw [BitVec.toNat_add, hs]
      have : (1#32 : BitVec 32).toNat = 1 := rfl
      rw [this]; exact Nat.mod_eq_of_lt (by omega)
    have hstep : NTT_ctor_loop2 dp (Gmp.fdiv_q_2exp Q2 j, self) =
        some (true, (Gmp.fdiv_q_2exp Q2 (j + 1), { self with s := self.s + 1#32 })) := by
      unfold NTT_ctor_loop2
      simp only [q2_bit j hj, hlt, q2_shift]
      rfl
    rw [Loop.whileM_next _ _ _ _ hstep, ih (j + 1) { self with s := self.s + 1#32 } f (by omega) (by omega) hs1]
    have : j + 1 + n = j + (n + 1) := by omega
    rw [this]

/-! ### the two power tables: `T[i] = T[i-1] * T[1]` in a pre-allocated block = the model's `push` loop -/

def tabStep (i : Nat) (A : Block) : Block := A.setIfInBounds i (mul__rEE (A.getD (i - 1) 0#64) (A.getD 1 0#64))
def tabHand (r1 : BitVec 64) (i : Nat) (a : Array (BitVec 64)) : Array (BitVec 64) := a.push (mul__rEE (a.getD (i + 1) 0#64) r1)

theorem tab_aux (r1 : BitVec 64) (N : Nat) : ∀ (n i : Nat) (H : Array (BitVec 64)), H.size = i + 2 → H.getD 1 0#64 = r1 →
    i + 2 + n ≤ N →
    Loop.rangeAux 1 tabStep n (i + 2) (pad H N) = pad (Loop.rangeAux 1 (tabHand r1) n i H) N ∧
    (Loop.rangeAux 1 (tabHand r1) n i H).size = i + 2 + n := by
  intro n
  induction n with
  | zero => intro i H h1 _ _; exact ⟨rfl, h1⟩
  | succ n ih =>
    intro i H h1 h2 hN
    have hstep : tabStep (i + 2) (pad H N) = pad (tabHand r1 i H) N := by
      unfold tabStep tabHand
      rw [pad_getD, pad_getD, h2]
      have : i + 2 - 1 = i + 1 := by omega
      rw [this, ← h1]
      exact pad_set _ _ _ (by omega)
    have h1' : (tabHand r1 i H).size = (i + 1) + 2 := by unfold tabHand; rw [Array.size_push, h1]
    have h2' : (tabHand r1 i H).getD 1 0#64 = r1 := by
      unfold tabHand
      rw [Array.getD_eq_getD_getElem?, Array.getElem?_push, if_neg (by omega), ← Array.getD_eq_getD_getElem?]
      exact h2
    obtain ⟨a, b⟩ := ih (i + 1) (tabHand r1 i H) h1' h2' (by omega)
    constructor
    · show Loop.rangeAux 1 tabStep n (i + 2 + 1) (tabStep (i + 2) (pad H N)) = _
      rw [hstep]
      exact a
    · show (Loop.rangeAux 1 (tabHand r1) n (i + 1) (tabHand r1 i H)).size = _
      rw [b]; omega

/-- the table of N words built in place from `[t0, r1, 0, …]` = the model's table -/
theorem tab_full (t0 r1 : BitVec 64) (N : Nat) (hN : 2 ≤ N) :
    Loop.rangeAux 1 tabStep (N - 2) 2 (((Array.replicate N 0#64).setIfInBounds 0 t0).setIfInBounds 1 r1) =
      Loop.rangeAux 1 (tabHand r1) (N - 2) 0 #[t0, r1] := by
  have e0 : ((Array.replicate N 0#64).setIfInBounds 0 t0).setIfInBounds 1 r1 = pad #[t0, r1] N := by
    rw [← pad_empty]
    have h1 := pad_set #[] N t0 (by show 0 < N; omega)
    have h2 := pad_set #[t0] N r1 (by show 1 < N; omega)
    have e1 : (pad #[] N).setIfInBounds 0 t0 = pad #[t0] N := by simpa using h1
    have e2 : (pad #[t0] N).setIfInBounds 1 r1 = pad #[t0, r1] N := by simpa using h2
    rw [e1, e2]
  rw [e0]
  obtain ⟨a, b⟩ := tab_aux r1 N (N - 2) 0 #[t0, r1] rfl rfl (by omega)
  rw [a, pad_full _ _ (by rw [b]; omega)]

theorem tab_body (b : Nat) (ptr : Ptr) (hptr : ptr = ⟨b, 0⟩) (body : Nat → Heap → Option Heap)
    (hbody : ∀ i X, body i X = some (Heap.set X ptr i (mul__rEE (Heap.get X ptr (i - 1)) (Heap.get X ptr 1))))
    (i : Nat) (X : Heap) : body i X = some (X.setBlock b (tabStep i (X.block b))) := by
  rw [hbody, hptr]
  simp only [Heap.set_eq, Heap.get_def, Nat.zero_add]
  rfl

theorem tabStep_one (i : Nat) (hi : 2 ≤ i) (A : Block) : (tabStep i A).getD 1 0#64 = A.getD 1 0#64 := by
  unfold tabStep
  rw [Array.getD_eq_getD_getElem?, Array.getElem?_setIfInBounds_ne (by omega), ← Array.getD_eq_getD_getElem?]

theorem setBlock_absent (X : Heap) (b : Nat) (hbX : ¬ b < X.size) (Y : Block) : X.setBlock b Y = X := by
  apply Heap.ext_blocks
  simp only [Heap.setBlock, Heap.size] at hbX ⊢
  apply Array.ext_getElem?
  intro j
  rw [Array.getElem?_setIfInBounds]
  by_cases hj : b = j
  · subst hj; simp [hbX]
  · simp [hj]

/-- the `for (i = 2; i <= s; i++)` loop of `powTwoInv`, for an ARBITRARY step function: it makes one `tabStep` while
    `i ≤ s` (hypothesis `hnext`; the step may rely on entry 1 of the table, 2^-1, being what it was before the loop — the
    loop writes entries ≥ 2 only — so reading it once into a local is as good as reading it in every iteration) and
    stops at `i = s + 1` (`hstop`) -/
theorem ptiloop_g (b S : Nat) (hS32 : S ≤ 32) (h1 : BitVec 64)
    (step : Heap × BitVec 64 → Option (Bool × (Heap × BitVec 64)))
    (hnext : ∀ (i : Nat) (X : Heap), 2 ≤ i → i ≤ S → (X.block b).getD 1 0#64 = h1 →
      step (X, bv i) = some (true, (X.setBlock b (tabStep i (X.block b)), bv (i + 1))))
    (hstop : ∀ (X : Heap), step (X, bv (S + 1)) = some (false, (X, bv (S + 1)))) :
    ∀ (n i : Nat) (X : Heap) (fuel : Nat), i + n = S + 1 → 2 ≤ i → n < fuel → (X.block b).getD 1 0#64 = h1 →
    Loop.whileM step fuel (X, bv i) =
      some (X.setBlock b (Loop.rangeAux 1 tabStep n i (X.block b)), bv (S + 1)) := by
  intro n
  induction n with
  | zero =>
    intro i X fuel h1' h2 h3 _
    obtain ⟨f, rfl⟩ : ∃ f, fuel = f + 1 := ⟨fuel - 1, by omega⟩
    have : i = S + 1 := by omega
    subst this
    rw [Loop.whileM_stop _ _ _ _ (hstop X)]
    show some (X, bv (S + 1)) = some (X.setBlock b (X.block b), bv (S + 1))
    rw [Heap.setBlock_block]
  | succ n ih =>
    intro i X fuel h1' h2 h3 hinv
    obtain ⟨f, rfl⟩ : ∃ f, fuel = f + 1 := ⟨fuel - 1, by omega⟩
    by_cases hbX : b < X.size
    · rw [Loop.whileM_next _ _ _ _ (hnext i X h2 (by omega) hinv),
        ih (i + 1) _ f (by omega) (by omega) (by omega)
          (by rw [Heap.block_setBlock_same _ _ _ hbX, tabStep_one i h2]; exact hinv)]
      rw [Heap.block_setBlock_same _ _ _ hbX, Heap.setBlock_setBlock]
      rfl
    · -- the block does not exist: nothing is written
      have e : ∀ Y, X.setBlock b Y = X := setBlock_absent X b hbX
      rw [Loop.whileM_next _ _ _ _ (hnext i X h2 (by omega) hinv), e,
        ih (i + 1) X f (by omega) (by omega) (by omega) hinv, e, e]

/-! ### the hand model's constructor, unfolded -/

def mkRoots (D : Nat) : Array (BitVec 64) :=
  Loop.rangeAux 1 (tabHand (w__rE (BitVec.ofNat 64 D))) (2 ^ mkS D - 2) 0 #[one__r, w__rE (BitVec.ofNat 64 D)]
def mkPti (D : Nat) : Array (BitVec 64) :=
  Loop.rangeAux 1 (tabHand 9223372034707292161#64) (mkS D - 1) 0 #[one__r, 9223372034707292161#64]

theorem mkObj_unfold (m e : Nat) (o : Model.Ntt.Obj) (hm : m ≠ 0) (h : Model.Ntt.mkObj m e = some o) :
    ¬ (mkS (Model.Ntt.log2 m) < Model.Ntt.log2 m) ∧
    o = ⟨mkS (Model.Ntt.log2 m), mkRoots (Model.Ntt.log2 m), mkPti (Model.Ntt.log2 m), e, none⟩ := by
  unfold Model.Ntt.mkObj at h
  rw [if_neg hm] at h
  dsimp only at h
  generalize Model.Ntt.log2 m = D at h ⊢
  by_cases h1 : (if D ≤ 1 then 1 else min D 32) < D
  · rw [if_pos h1] at h; cases h
  · rw [if_neg h1] at h
    have ho := Option.some.inj h
    refine ⟨h1, ?_⟩
    rw [← ho]
    unfold mkS mkRoots mkPti Model.Ntt.iter Loop.range mkS
    simp only [Nat.sub_zero, Nat.add_sub_cancel, Nat.div_one]
    rfl

theorem mkObj_none_iff (m e : Nat) (hm : m ≠ 0) :
    Model.Ntt.mkObj m e = none ↔ mkS (Model.Ntt.log2 m) < Model.Ntt.log2 m := by
  unfold Model.Ntt.mkObj
  rw [if_neg hm]
  dsimp only
  unfold mkS
  by_cases h1 : (if Model.Ntt.log2 m ≤ 1 then 1 else min (Model.Ntt.log2 m) 32) < Model.Ntt.log2 m
  · rw [if_pos h1]; simp [h1]
  · rw [if_neg h1]; simp [h1]

/-- the constructor's `assert(Goldilocks::toU64(roots[nRoots - 1] * roots[1]) == 1)` holds for the model's table -/
theorem assert_ok (m e : Nat) (o : Model.Ntt.Obj) (hm : m ≠ 0) (h : Model.Ntt.mkObj m e = some o) :
    toU64__rE (mul__rEE (o.roots.getD (2 ^ o.s - 1) 0#64) (o.roots.getD 1 0#64)) = 1#64 := by
  open GoldilocksVerif.NttSpec in
  have key : den (mul__rEE (o.roots.getD (2 ^ o.s - 1) 0#64) (o.roots.getD 1 0#64)) = 1 := by
    obtain ⟨hns, ho⟩ := mkObj_unfold m e o hm h
    obtain ⟨hD32, _, _, h4, _⟩ := Model.Ntt.mkObj_spec m e o hm h
    generalize Model.Ntt.log2 m = D at *
    rw [den_mul_r]
    by_cases hD : 1 ≤ D
    · have hs : o.s = D := by
        rw [ho]; show mkS D = D
        unfold mkS at hns ⊢
        by_cases h1 : D ≤ 1
        · rw [if_pos h1] at hns ⊢; omega
        · rw [if_neg h1] at hns ⊢; omega
      have hr : ∀ idx, idx < 2 ^ D → den (o.roots.getD idx 0#64) = omega D ^ idx := by
        intro idx hidx
        have := h4 D idx hD (Nat.le_refl _) hidx
        unfold Model.Ntt.root at this
        rw [hs, Nat.sub_self, Nat.pow_zero, Nat.mul_one] at this
        exact this
      have h2 : 2 ≤ 2 ^ D := by
        calc 2 = 2 ^ 1 := rfl
          _ ≤ 2 ^ D := Nat.pow_le_pow_right (by omega) hD
      rw [hs, hr _ (by omega), hr 1 (by omega), ← pow_add]
      have : 2 ^ D - 1 + 1 = 2 ^ D := by omega
      rw [this]
      exact (omega_prim D hD32).pow_n
    · have hD0 : D = 0 := by omega
      subst hD0
      rw [ho]
      show den ((mkRoots 0).getD (2 ^ mkS 0 - 1) 0#64) * den ((mkRoots 0).getD 1 0#64) = 1
      have e1 : mkS 0 = 1 := rfl
      have e2 : mkRoots 0 = #[one__r, w__rE (BitVec.ofNat 64 0)] := rfl
      rw [e1, e2]
      show den (w__rE (BitVec.ofNat 64 0)) * den (w__rE (BitVec.ofNat 64 0)) = 1
      rw [Model.Ntt.mkObj_aux_den_w 0 (by omega), omega_zero, one_mul]
  apply BitVec.eq_of_toNat_eq
  rw [Model.toU64_r_toNat]
  have h1 : den (1#64 : BitVec 64) = 1 := by simp [den]
  rw [← h1, den_eq_iff] at key
  rw [key]
  rfl

theorem roots_range (S D : Nat) (hS : mkS D = S) (h2S2 : 2 ≤ 2 ^ S) :
    Loop.range 2 (2 ^ S) 1 (((Array.replicate (2 ^ S) 0#64).setIfInBounds 0 one__r).setIfInBounds 1
      (w__rE (BitVec.ofNat 64 D))) tabStep = mkRoots D := by
  unfold Loop.range mkRoots
  have : (2 ^ S - 2 + 1 - 1) / 1 = 2 ^ S - 2 := by
    rw [Nat.div_one, Nat.add_sub_cancel]
  rw [this, tab_full _ _ _ h2S2, hS]

theorem pti_range (S D : Nat) (hS : mkS D = S) (hS1 : 1 ≤ S) :
    Loop.rangeAux 1 tabStep (S - 1) 2 (((Array.replicate (S + 1) 0#64).setIfInBounds 0 one__r).setIfInBounds 1
      9223372034707292161#64) = mkPti D := by
  have := tab_full one__r 9223372034707292161#64 (S + 1) (by omega)
  have e : S + 1 - 2 = S - 1 := by omega
  rw [e] at this
  rw [this]
  unfold mkPti
  rw [hS]

/-- **constructor**: for `maxDomainSize ≠ 0`; `none` iff the model's constructor throws ("Domain size too big") -/
theorem ctor_gen (fuel : Nat) (hf : 64 ≤ fuel) (hp : Heap) (hpos : 0 < hp.size) (self0 : NTT_Goldilocks)
    (m : BitVec 64) (thr : BitVec 32) (e : Nat) (hm0 : m ≠ 0#64) :
    match Model.Ntt.mkObj m.toNat e with
    | none => NTT_ctor fuel hp self0 m thr (e : Int) = none
    | some o => ∃ self', NTT_ctor fuel hp self0 m thr (e : Int) = some ((hp.push o.roots).push o.powTwoInv, self') ∧
        self'.s.toNat = o.s ∧ self'.roots = ⟨hp.size, 0⟩ ∧ self'.powTwoInv = ⟨hp.size + 1, 0⟩ ∧ self'.r = Ptr.null ∧
        self'.r_ = Ptr.null ∧ self'.extension = (e : Int) ∧ self'.r_N = self0.r_N := by
  have hmn : m.toNat ≠ 0 := fun h => hm0 (BitVec.eq_of_toNat_eq (by simpa using h))
  have hlog := log2_gen_eq fuel (by unfold log2Fuel; omega) m hm0
  generalize hD : Model.Ntt.log2 m.toNat = D at hlog
  have hD64 : D < 64 := by
    rw [← hD]; simp only [Model.Ntt.log2]; rw [Nat.log2_lt hmn]; exact m.isLt
  have hm0' : (m == 0#64) = false := by simp [hm0]
  have hdpn : (BitVec.ofNat 32 D).toNat = D := by rw [BitVec.toNat_ofNat]; exact Nat.mod_eq_of_lt (by omega)
  have hnqr := Loop.whileM_mono (NTT_ctor_loop1 Q2 Pn) 6 _ _ fuel gmp_nqr (by omega)
  have hS32 : mkS D ≤ 32 := by
    unfold mkS; by_cases h : D ≤ 1
    · rw [if_pos h]; omega
    · rw [if_neg h]; omega
  have hS1 : 1 ≤ mkS D := by
    unfold mkS; by_cases h : D ≤ 1
    · rw [if_pos h]
    · rw [if_neg h]; omega
  have hQ0 : Q2 = Gmp.fdiv_q_2exp Q2 0 := by simp [Gmp.fdiv_q_2exp]
  have hsl := sloop D hD64 (BitVec.ofNat 32 D) hdpn (mkS D - 1) 0
    ({ s := 1#32, nThreads := (if (thr == 0#32) = true then I32.toU32 Omp.maxThreads else thr), nqr := self0.nqr, roots := self0.roots, powTwoInv := self0.powTwoInv, r := Ptr.null, r_ := Ptr.null, r_N := self0.r_N, extension := (e : Int) } : NTT_Goldilocks)
    fuel (by omega) (by omega) rfl
  rw [← hQ0] at hsl
  unfold NTT_ctor
  simp only [hm0', Bool.false_eq_true, if_false, hlog, Option.bind_some, gmp_negone, gmp_q, gmp_q2, hnqr]
  rw [hsl]
  simp only [Option.bind_some]
  generalize hS : mkS D = S at hS32 hS1
  have hSn : (BitVec.ofNat 32 S).toNat = S := by rw [BitVec.toNat_ofNat]; exact Nat.mod_eq_of_lt (by omega)
  have hlt : decide (BitVec.ofNat 32 S < BitVec.ofNat 32 D) = decide (S < D) := by
    rw [decide_eq_decide, BitVec.lt_def, hSn, hdpn]
  rw [hlt]
  by_cases hSD : S < D
  · -- the constructor throws
    have hn : Model.Ntt.mkObj m.toNat e = none := by
      rw [mkObj_none_iff _ _ hmn, hD, hS]; exact hSD
    rw [hn]
    simp only [hSD, decide_true, if_true]
  · cases hobj : Model.Ntt.mkObj m.toNat e with
    | none =>
      rw [mkObj_none_iff _ _ hmn, hD, hS] at hobj
      exact absurd hobj hSD
    | some o =>
      obtain ⟨_, ho⟩ := mkObj_unfold m.toNat e o hmn hobj
      rw [hD, hS] at ho
      have hassert := assert_ok m.toNat e o hmn hobj
      have hos : o.s = S := by rw [ho]
      have hor : o.roots = mkRoots D := by rw [ho]
      have hop : o.powTwoInv = mkPti D := by rw [ho]
      rw [hos, hor] at hassert
      simp only [hSD, decide_false, Bool.false_eq_true, if_false, hSn]
      have h2S : 2 ^ S < 2 ^ 33 := Nat.pow_lt_pow_right (by omega) (by omega)
      have h2S2 : 2 ≤ 2 ^ S := by
        calc 2 = 2 ^ 1 := rfl
          _ ≤ 2 ^ S := Nat.pow_le_pow_right (by omega) hS1
      have e1 : (1#64 : BitVec 64) <<< S = bv (2 ^ S) := one_shl S (by omega)
      have e2 : (bv (2 ^ S) * 8#64).toNat / 8 = 2 ^ S := words_bv _ (by omega)
      have e3 : BitVec.setWidth 64 (BitVec.ofNat 32 S + 1#32) = bv (S + 1) := by
        apply BitVec.eq_of_toNat_eq
        rw [BitVec.toNat_setWidth, BitVec.toNat_add, hSn, bv_toNat _ (by omega)]
        have : (1#32 : BitVec 32).toNat = 1 := rfl
        rw [this, Nat.mod_eq_of_lt (a := S + 1) (by omega), Nat.mod_eq_of_lt (by omega)]
      have e4 : (bv (S + 1) * 8#64).toNat / 8 = S + 1 := words_bv _ (by omega)
      have e5 : decide (bv (2 ^ S) > 1#64) = true := by
        rw [decide_eq_true_eq]; show bv 1 < bv (2 ^ S); rw [lt_bv _ _ (by omega) (by omega)]; omega
      have e6 : (bv (2 ^ S)).toNat = 2 ^ S := bv_toNat _ (by omega)
      have e7 : (bv (2 ^ S) - 1#64).toNat = 2 ^ S - 1 := by
        rw [bv_one, bv_sub _ _ (by omega) (by omega), bv_toNat _ (by omega)]
      have e8 : BitVec.setWidth 64 (BitVec.ofNat 32 D) = BitVec.ofNat 64 D := setWidth_ofNat32 D (by omega)
      simp only [e1, e2, e3, e4, e5, e6, e7, e8, if_true, gmp_half, Heap.alloc_fst, Heap.alloc_snd, Heap.size_push]
      -- the heap with the two table blocks, in representation form
      rw [Heap.push_push_R2]
      have hHs : ((hp.push #[]).push #[]).size = hp.size + 2 := by simp
      generalize hH : (hp.push #[]).push #[] = H at hHs ⊢
      generalize hb : hp.size = b at hHs ⊢
      have hbc : b ≠ b + 1 := by omega
      simp only [Heap.set_eq, Heap.get_def, Nat.zero_add]
      rw [Heap.R2_block_fst _ _ _ _ hbc (by omega), Heap.R2_setBlock_fst _ _ _ _ _ hbc,
        Heap.R2_block_snd _ _ _ _ (by omega), Heap.R2_setBlock_snd,
        Heap.R2_block_fst _ _ _ _ hbc (by omega), Heap.R2_setBlock_fst _ _ _ _ _ hbc,
        Heap.R2_block_snd _ _ _ _ (by omega), Heap.R2_setBlock_snd]
      dsimp only
      -- the roots loop
      rw [Loop.rangeM_rep (R := fun A => Heap.R2 H b (b + 1) (A, _)) (f := tabStep) _ 2 (2 ^ S)
        (fun i A _ _ => by
          unfold_loops
          simp only [Heap.set_eq, Heap.get_def, Nat.zero_add]
          rw [Heap.R2_block_fst _ _ _ _ hbc (by omega), Heap.R2_setBlock_fst _ _ _ _ _ hbc]
          rfl)]
      rw [Option.bind_some, roots_range S D hS h2S2, Heap.R2_block_fst _ _ _ _ hbc (by omega), hassert, beq_self_eq_true,
        if_pos rfl]
      -- the powTwoInv loop: its step function, whatever its parameter list (2^-1 read in every iteration or once before)
      have h1pti : (((Array.replicate (S + 1) 0#64).setIfInBounds 0 one__r).setIfInBounds 1 9223372034707292161#64).getD 1 0#64 =
          9223372034707292161#64 := by
        rw [Array.getD_eq_getD_getElem?, Array.getElem?_setIfInBounds_self_of_lt (by simp; omega)]
        rfl
      try simp only [Heap.get_def, Nat.zero_add, Heap.R2_block_snd _ _ _ _ (show b + 1 < H.size by omega), h1pti]
      name_while step with hstepdef
      have hsw : BitVec.setWidth 64 (BitVec.ofNat 32 S) = bv S := setWidth_ofNat32 S (by omega)
      have hnext : ∀ (i : Nat) (X : Heap), 2 ≤ i → i ≤ S → (X.block (b + 1)).getD 1 0#64 = 9223372034707292161#64 →
          step (X, bv i) = some (true, (X.setBlock (b + 1) (tabStep i (X.block (b + 1))), bv (i + 1))) := by
        intro i X h2i hiS hinv
        subst hstepdef
        have hc : decide (bv i ≤ bv S) = true := by
          rw [decide_eq_true_eq, le_bv _ _ (by omega) (by omega)]; exact hiS
        unfold_loops
        unfold tabStep
        simp only [hsw, hc, if_true, Heap.set_eq, Heap.get_def, Nat.zero_add, bv_one]
        simp (disch := bv_side) only [bv_sub, bv_add, bv_toNat, hinv]
        close_shape
      have hstop : ∀ (X : Heap), step (X, bv (S + 1)) = some (false, (X, bv (S + 1))) := by
        intro X
        subst hstepdef
        have hc : decide (bv (S + 1) ≤ bv S) = false := by
          rw [decide_eq_false_iff_not, le_bv _ _ (by omega) (by omega)]; omega
        unfold_loops
        simp only [hsw, hc, Bool.false_eq_true, if_false]
      clear hstepdef
      have hpl := ptiloop_g (b + 1) S hS32 9223372034707292161#64 step hnext hstop (S - 1) 2
        (Heap.R2 H b (b + 1) (mkRoots D, ((Array.replicate (S + 1) 0#64).setIfInBounds 0 one__r).setIfInBounds 1
          9223372034707292161#64)) fuel (by omega) (by omega) (by omega)
        (by rw [Heap.R2_block_snd _ _ _ _ (by omega)]; exact h1pti)
      have h2 : (2#64 : BitVec 64) = bv 2 := rfl
      rw [h2, hpl]
      simp only [Option.bind_some]
      rw [Heap.R2_block_snd _ _ _ _ (by omega), Heap.R2_setBlock_snd]
      dsimp only
      rw [pti_range S D hS hS1, ← hH, ← hb, ← Heap.push_push_R2, hor, hop]
      exact ⟨_, rfl, by rw [hos]; exact hSn, rfl, rfl, rfl, rfl, rfl, rfl⟩

/-- the constructed state represents the model's object (and owns two existing blocks) -/
theorem ctor_rep (fuel : Nat) (hf : 64 ≤ fuel) (hp : Heap) (hpos : 0 < hp.size) (self0 : NTT_Goldilocks)
    (m : BitVec 64) (thr : BitVec 32) (e : Nat) (hm0 : m ≠ 0#64) (o : Model.Ntt.Obj)
    (hobj : Model.Ntt.mkObj m.toNat e = some o) :
    ∃ self', NTT_ctor fuel hp self0 m thr (e : Int) = some ((hp.push o.roots).push o.powTwoInv, self') ∧
      ObjRep ((hp.push o.roots).push o.powTwoInv) self' o ∧ ObjIn ((hp.push o.roots).push o.powTwoInv) self' ∧
      self'.roots = ⟨hp.size, 0⟩ ∧ self'.powTwoInv = ⟨hp.size + 1, 0⟩ ∧ self'.r = Ptr.null ∧ self'.r_ = Ptr.null := by
  have h := ctor_gen fuel hf hp hpos self0 m thr e hm0
  rw [hobj] at h
  obtain ⟨self', h1, h2, h3, h4, h5, h6, h7, _⟩ := h
  have hmn : m.toNat ≠ 0 := fun h => hm0 (BitVec.eq_of_toNat_eq (by simpa using h))
  obtain ⟨_, ho⟩ := mkObj_unfold m.toNat e o hmn hobj
  have hext : o.extension = e := by rw [ho]
  have hrc : o.rcache = none := by rw [ho]
  refine ⟨self', h1, ⟨h2, ?_, ?_, ?_, ?_, ?_, ?_⟩, ?_, h3, h4, h5, h6⟩
  · rw [h3]
    show ((hp.push o.roots).push o.powTwoInv).block hp.size = o.roots
    rw [Heap.block_push_lt _ _ _ (by simp), Heap.block_push_last _ _ _ rfl]
  · rw [h3]
  · rw [h4]
    show ((hp.push o.roots).push o.powTwoInv).block (hp.size + 1) = o.powTwoInv
    rw [Heap.block_push_last _ _ _ (by simp)]
  · rw [h4]
  · rw [h7, hext]
  · rw [hrc]; exact h5
  · refine ⟨?_, ?_, ?_, ?_⟩
    · rw [h3]; simp
    · rw [h4]; simp
    · rw [h5]; show 0 < _; simp
    · rw [h6]; show 0 < _; simp

end GoldilocksVerif.BridgeNtt
