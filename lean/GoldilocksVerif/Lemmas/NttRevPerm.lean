/-
  `reversePermutation` (all four branches: destination distinct / in place  ×  extension ≤ 1 / > 1) computes the
  (zero-extending) bit-reversal row permutation.
-/
import GoldilocksVerif.Lemmas.NttBr

namespace GoldilocksVerif.Model.Ntt

/-! ### arithmetic of rows -/

/-- position `p * nc + k` lies in row `i` iff `p = i` -/
theorem row_mem (nc i p k : Nat) (hk : k < nc) : (i * nc ≤ p * nc + k ∧ p * nc + k < i * nc + nc) ↔ p = i := by
  constructor
  · intro ⟨h1, h2⟩
    by_cases ha : p < i
    · have := rowcol_lt nc i p k ha hk; omega
    · by_cases hb : i < p
      · have := Nat.mul_le_mul_right nc (show i + 1 ≤ p by omega)
        rw [Nat.add_mul, Nat.one_mul] at this
        omega
      · omega
  · intro h; subst h; omega

theorem rowoff_lt_iff (a b n o : Nat) (ho : o < n) : a * n + o < b * n ↔ a < b := by
  constructor
  · intro h
    by_cases hab : a < b
    · exact hab
    · have : b * n ≤ a * n := Nat.mul_le_mul_right n (by omega)
      omega
  · intro h; exact rowcol_lt n b a o h ho

/-! ### destination distinct from the source -/

theorem opLoop (c : Nat → Prop) [DecidablePred c] (so : Nat → Nat) (dst src : Buf) (size nc : Nat)
    (hbuf : size * nc ≤ dst.size) :
    (iter size dst (fun i d => if c i then copyRow d (i * nc) src (so i) nc else zeroRow d (i * nc) nc)).size = dst.size ∧
    ∀ i k, i < size → k < nc →
      (iter size dst (fun i d => if c i then copyRow d (i * nc) src (so i) nc else zeroRow d (i * nc) nc)).getD (i * nc + k) 0#64
        = if c i then src.getD (so i + k) 0#64 else 0#64 := by
  have key := iter_ind
    (fun n (s : Buf) => s.size = dst.size ∧ ∀ i k, i < n → k < nc →
      s.getD (i * nc + k) 0#64 = if c i then src.getD (so i + k) 0#64 else 0#64)
    size dst (fun i d => if c i then copyRow d (i * nc) src (so i) nc else zeroRow d (i * nc) nc)
    ⟨rfl, fun i k hi _ => absurd hi (Nat.not_lt_zero i)⟩
    (by
      intro i hi s ⟨hs, hinv⟩
      have hsz : (if c i then copyRow s (i * nc) src (so i) nc else zeroRow s (i * nc) nc).size = dst.size := by
        by_cases hc : c i
        · rw [if_pos hc, copyRow_size, hs]
        · rw [if_neg hc, zeroRow_size, hs]
      refine ⟨hsz, ?_⟩
      intro p k hp hk
      have hin : i * nc + k < s.size := by
        have := rowcol_lt nc size i k hi hk; omega
      by_cases hpi : p = i
      · subst hpi
        have hcond : p * nc ≤ p * nc + k ∧ p * nc + k < p * nc + nc ∧ p * nc + k < s.size := by omega
        have e : so p + (p * nc + k - p * nc) = so p + k := by omega
        by_cases hc : c p
        · rw [if_pos hc, if_pos hc, copyRow_getD, if_pos hcond, e]
        · rw [if_neg hc, if_neg hc, zeroRow_getD, if_pos hcond]
      · have hcond : ¬ (i * nc ≤ p * nc + k ∧ p * nc + k < i * nc + nc ∧ p * nc + k < s.size) := by
          intro ⟨h1, h2, _⟩
          exact hpi ((row_mem nc i p k hk).1 ⟨h1, h2⟩)
        have hold := hinv p k (by omega) hk
        by_cases hc : c i
        · rw [if_pos hc, copyRow_getD, if_neg hcond, hold]
        · rw [if_neg hc, zeroRow_getD, if_neg hcond, hold])
  exact ⟨key.1, fun i k hi hk => key.2 i k hi hk⟩

/-! ### in place -/

/-- virtual read of row `q`: rows `≥ nIn` read as zero -/
def vrow (nIn : Nat) (a : Buf) (nc q k : Nat) : W := if q < nIn then a.getD (q * nc + k) 0#64 else 0#64

/-- the swap of rows `r` and `i` through a temporary row, with virtual reads -/
def swapStep (nIn nc : Nat) (d : Buf) (r i : Nat) : Buf :=
  let tmp := if r < nIn then copyRow (Array.replicate nc 0#64) 0 d (r * nc) nc else Array.replicate nc 0#64
  let d1 := if i < nIn then copyRow d (r * nc) d (i * nc) nc else zeroRow d (r * nc) nc
  copyRow d1 (i * nc) tmp 0 nc

theorem swapStep_size (nIn nc : Nat) (d : Buf) (r i : Nat) : (swapStep nIn nc d r i).size = d.size := by
  unfold swapStep
  simp only []
  rw [copyRow_size]
  by_cases h : i < nIn
  · rw [if_pos h, copyRow_size]
  · rw [if_neg h, zeroRow_size]

theorem swapStep_getD (nIn nc size : Nat) (d : Buf) (r i p k : Nat) (hi : i < size)
    (hbuf : size * nc ≤ d.size) (hp : p < size) (hk : k < nc) :
    (swapStep nIn nc d r i).getD (p * nc + k) 0#64
      = if p = i then vrow nIn d nc r k else if p = r then vrow nIn d nc i k else d.getD (p * nc + k) 0#64 := by
  have hd1 : (if i < nIn then copyRow d (r * nc) d (i * nc) nc else zeroRow d (r * nc) nc).size = d.size := by
    by_cases h : i < nIn
    · rw [if_pos h, copyRow_size]
    · rw [if_neg h, zeroRow_size]
  have hpin : p * nc + k < d.size := by
    have := rowcol_lt nc size p k hp hk; omega
  unfold swapStep
  simp only []
  rw [copyRow_getD, hd1]
  by_cases hpi : p = i
  · subst hpi
    rw [if_pos (by omega), if_pos rfl]
    have e : 0 + (p * nc + k - p * nc) = k := by omega
    rw [e]
    unfold vrow
    by_cases hr : r < nIn
    · rw [if_pos hr, if_pos hr, copyRow_getD, if_pos (by rw [Array.size_replicate]; omega)]
      have e2 : r * nc + (k - 0) = r * nc + k := by omega
      rw [e2]
    · rw [if_neg hr, if_neg hr, getD_replicate]
      by_cases h : k < nc <;> simp [h]
  · have hc : ¬ (i * nc ≤ p * nc + k ∧ p * nc + k < i * nc + nc ∧ p * nc + k < d.size) := by
      intro ⟨h1, h2, _⟩
      exact hpi ((row_mem nc i p k hk).1 ⟨h1, h2⟩)
    rw [if_neg hc, if_neg hpi]
    by_cases hpr : p = r
    · subst hpr
      rw [if_pos rfl]
      unfold vrow
      have hc2 : p * nc ≤ p * nc + k ∧ p * nc + k < p * nc + nc ∧ p * nc + k < d.size := by omega
      have e : i * nc + (p * nc + k - p * nc) = i * nc + k := by omega
      by_cases h : i < nIn
      · rw [if_pos h, if_pos h, copyRow_getD, if_pos hc2, e]
      · rw [if_neg h, if_neg h, zeroRow_getD, if_pos hc2]
    · have hc2 : ¬ (r * nc ≤ p * nc + k ∧ p * nc + k < r * nc + nc ∧ p * nc + k < d.size) := by
        intro ⟨h1, h2, _⟩
        exact hpr ((row_mem nc r p k hk).1 ⟨h1, h2⟩)
      rw [if_neg hpr]
      by_cases h : i < nIn
      · rw [if_pos h, copyRow_getD, if_neg hc2]
      · rw [if_neg h, zeroRow_getD, if_neg hc2]

/-- the generic body of the in-place loops -/
def ipBody (nIn nc d : Nat) (i : Nat) (s : Buf) : Buf :=
  if br i d < i then swapStep nIn nc s (br i d) i
  else if br i d = i ∧ nIn ≤ i then zeroRow s (i * nc) nc
  else s

theorem ipLoop (nIn nc d size : Nat) (src : Buf) (hd : d ≤ 32) (hsize : size = 2 ^ d) (hbuf : size * nc ≤ src.size) :
    (iter size src (ipBody nIn nc d)).size = src.size ∧
    ∀ p k, p < size → k < nc →
      (iter size src (ipBody nIn nc d)).getD (p * nc + k) 0#64 = vrow nIn src nc (bitrev d p) k := by
  have hlt : ∀ p, bitrev d p < size := fun p => hsize ▸ bitrev_lt d p
  have hinv : ∀ p, p < size → bitrev d (bitrev d p) = p := fun p hp => bitrev_bitrev d p (hsize ▸ hp)
  have key := iter_ind
    (fun n (s : Buf) => s.size = src.size ∧ ∀ p k, p < size → k < nc →
      s.getD (p * nc + k) 0#64
        = if p < n ∧ bitrev d p < n then vrow nIn src nc (bitrev d p) k else src.getD (p * nc + k) 0#64)
    size src (ipBody nIn nc d)
    ⟨rfl, fun p k _ _ => by rw [if_neg (by omega)]⟩
    (by
      intro i hi s ⟨hs, hI⟩
      have hbr : br i d = bitrev d i := br_eq_bitrev d i hd (hsize ▸ hi)
      have hri : bitrev d (bitrev d i) = i := hinv i hi
      have hr := hlt i
      unfold ipBody
      rw [hbr]
      generalize hrdef : bitrev d i = r at hri hr
      -- facts on other rows
      have hother : ∀ p, p < size → p ≠ i → p ≠ r → bitrev d p ≠ i := by
        intro p hp _ h2 h3
        have := hinv p hp
        rw [h3, hrdef] at this
        exact h2 this.symm
      by_cases h1 : r < i
      · rw [if_pos h1]
        refine ⟨by rw [swapStep_size, hs], ?_⟩
        intro p k hp hk
        rw [swapStep_getD nIn nc size s r i p k hi (by omega) hp hk]
        by_cases hpi : p = i
        · subst hpi
          rw [if_pos rfl, hrdef, if_pos (by omega)]
          unfold vrow
          by_cases hc : r < nIn
          · rw [if_pos hc, if_pos hc, hI r k hr hk, if_neg (by omega)]
          · rw [if_neg hc, if_neg hc]
        · rw [if_neg hpi]
          by_cases hpr : p = r
          · subst hpr
            rw [if_pos rfl, hri, if_pos (by omega)]
            unfold vrow
            by_cases hc : i < nIn
            · rw [if_pos hc, if_pos hc, hI i k hi hk, if_neg (by omega)]
            · rw [if_neg hc, if_neg hc]
          · rw [if_neg hpr, hI p k hp hk]
            have := hother p hp hpi hpr
            by_cases hc : p < i ∧ bitrev d p < i
            · rw [if_pos hc, if_pos (by omega)]
            · rw [if_neg hc, if_neg (by omega)]
      · rw [if_neg h1]
        by_cases h2 : r = i ∧ nIn ≤ i
        · rw [if_pos h2]
          refine ⟨by rw [zeroRow_size, hs], ?_⟩
          intro p k hp hk
          rw [zeroRow_getD]
          by_cases hpi : p = i
          · subst hpi
            have hin : p * nc + k < s.size := by
              have := rowcol_lt nc size p k hp hk; omega
            rw [if_pos (by omega), hrdef, if_pos (by omega)]
            unfold vrow
            rw [if_neg (by omega)]
          · have hc : ¬ (i * nc ≤ p * nc + k ∧ p * nc + k < i * nc + nc ∧ p * nc + k < s.size) := by
              intro ⟨h1, h2, _⟩
              exact hpi ((row_mem nc i p k hk).1 ⟨h1, h2⟩)
            rw [if_neg hc, hI p k hp hk]
            have := hother p hp hpi (by omega)
            by_cases hc : p < i ∧ bitrev d p < i
            · rw [if_pos hc, if_pos (by omega)]
            · rw [if_neg hc, if_neg (by omega)]
        · rw [if_neg h2]
          refine ⟨hs, ?_⟩
          intro p k hp hk
          rw [hI p k hp hk]
          by_cases hpi : p = i
          · subst hpi
            rw [if_neg (by omega), hrdef]
            by_cases hc : p < p + 1 ∧ r < p + 1
            · rw [if_pos hc]
              unfold vrow
              have : r = p := by omega
              rw [this, if_pos (by omega)]
            · rw [if_neg hc]
          · by_cases hpr : p = r
            · subst hpr
              rw [hri, if_neg (by omega), if_neg (by omega)]
            · have := hother p hp hpi hpr
              by_cases hc : p < i ∧ bitrev d p < i
              · rw [if_pos hc, if_pos (by omega)]
              · rw [if_neg hc, if_neg (by omega)])
  refine ⟨key.1, ?_⟩
  intro p k hp hk
  rw [key.2 p k hp hk, if_pos ⟨hp, hlt p⟩]

/-! ### the statement -/

theorem reversePermutation_spec (o : Obj) (dst src : Buf) (inPlace : Bool) (d size oc nc nca : Nat)
    (hd : d ≤ 32) (hsize : size = 2 ^ d)
    (hbuf : size * nc ≤ (if inPlace then src else dst).size)
    (hoc : oc + nc ≤ nca)
    (hip : inPlace = true → oc = 0 ∧ nc = nca) :
    ∃ res, reversePermutation o dst src inPlace size oc nc nca = .ok res ∧
      res.size = (if inPlace then src else dst).size ∧
      ∀ i k, i < size → k < nc →
        res.getD (i * nc + k) 0#64 =
          if o.extension ≤ 1 ∨ bitrev d i < size / o.extension then src.getD (bitrev d i * nca + oc + k) 0#64 else 0#64 := by
  have hlog : log2 size = d := by rw [hsize]; exact Nat.log2_two_pow
  have hbr : ∀ i, i < size → br i d = bitrev d i := fun i hi => br_eq_bitrev d i hd (hsize ▸ hi)
  have hlt : ∀ p, bitrev d p < size := fun p => hsize ▸ bitrev_lt d p
  unfold reversePermutation
  rw [hlog]
  cases inPlace with
  | false =>
    simp only [Bool.not_false, if_true, Bool.false_eq_true, if_false] at hbuf ⊢
    by_cases hext : o.extension ≤ 1
    · rw [if_pos hext]
      have e := iter_congr size dst
        (fun i d_1 => copyRow d_1 (i * nc) src (br i d * nca + oc) nc)
        (fun i d_1 => if (fun _ => True) i then copyRow d_1 (i * nc) src ((fun i => br i d * nca + oc) i) nc
          else zeroRow d_1 (i * nc) nc)
        (fun i _ s => (if_pos trivial).symm)
      have key := opLoop (fun _ => True) (fun i => br i d * nca + oc) dst src size nc hbuf
      refine ⟨_, rfl, ?_, ?_⟩
      · rw [e]; exact key.1
      · intro i k hi hk
        rw [e, key.2 i k hi hk, if_pos trivial, if_pos (Or.inl hext), hbr i hi]
    · rw [if_neg hext]
      have key := opLoop (fun i => br i d * nca + oc < size / o.extension * nca) (fun i => br i d * nca + oc)
        dst src size nc hbuf
      refine ⟨_, rfl, key.1, ?_⟩
      intro i k hi hk
      have h1 := key.2 i k hi hk
      rw [h1, hbr i hi]
      have hiff := rowoff_lt_iff (bitrev d i) (size / o.extension) nca oc (by omega)
      by_cases hc : bitrev d i < size / o.extension
      · rw [if_pos (hiff.2 hc), if_pos (Or.inr hc)]
      · rw [if_neg (fun h => hc (hiff.1 h)), if_neg (fun h => h.elim hext hc)]
  | true =>
    obtain ⟨hoc0, hnc⟩ := hip rfl
    subst hoc0
    subst hnc
    simp only [Bool.not_true, Bool.false_eq_true, if_false, if_true, and_self] at hbuf ⊢
    by_cases hext : o.extension ≤ 1
    · rw [if_pos hext]
      have e := iter_congr size src
        (fun i d_1 =>
          if br i d < i then
            copyRow (copyRow d_1 (br i d * nc) d_1 (i * nc) nc) (i * nc)
              (copyRow (Array.replicate nc 0#64) 0 d_1 (br i d * nc) nc) 0 nc
          else d_1)
        (ipBody size nc d)
        (by
          intro i hi s
          have hr : br i d < size := by rw [hbr i hi]; exact hlt i
          unfold ipBody swapStep
          simp only []
          rw [if_pos hr, if_pos hi]
          by_cases h1 : br i d < i
          · rw [if_pos h1, if_pos h1]
          · rw [if_neg h1, if_neg h1, if_neg (by omega)])
      have key := ipLoop size nc d size src hd hsize hbuf
      refine ⟨_, rfl, ?_, ?_⟩
      · exact e ▸ key.1
      · intro i k hi hk
        have h1 := key.2 i k hi hk
        rw [← e] at h1
        rw [h1, if_pos (Or.inl hext)]
        unfold vrow
        rw [if_pos (hlt i), Nat.add_zero]
    · rw [if_neg hext]
      have key := ipLoop (size / o.extension) nc d size src hd hsize hbuf
      refine ⟨_, rfl, key.1, ?_⟩
      intro i k hi hk
      have h1 := key.2 i k hi hk
      refine Eq.trans h1 ?_
      unfold vrow
      rw [Nat.add_zero]
      by_cases hc : bitrev d i < size / o.extension
      · rw [if_pos hc, if_pos (Or.inr hc)]
      · rw [if_neg hc, if_neg (fun h => h.elim hext hc)]

end GoldilocksVerif.Model.Ntt
