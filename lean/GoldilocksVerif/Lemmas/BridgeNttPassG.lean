/-
  Bridge theorems, NTT_iters part 2 (shared lemmas + the scaling copy for an ARBITRARY loop body): index arithmetic of the
  copy loops of one pass, `intt_idx` on 64-bit words, the object representation under the two-buffer representation
  `Heap.R2`.  The loop bodies themselves are characterised where they are called (Lemmas/BridgeNttItersTop.lean); the
  by-name forms of the first round (`transpose_gen`, `inverseCopy_gen`, `passBatch_gen`: C12) are in Lemmas/BridgeNttPass.lean.
-/
import GoldilocksVerif.Lemmas.BridgeNttStageG

namespace GoldilocksVerif.BridgeNtt
open GoldilocksVerif Gen.NttGen

theorem ofU64_bv (v : Nat) (h : v < 2 ^ 31) : I32.ofU64 (bv v) = (v : Int) := by
  unfold I32.ofU64
  rw [BitVec.toInt_eq_toNat_cond, BitVec.toNat_setWidth, bv_toNat v (by omega), Nat.mod_eq_of_lt (by omega)]
  rw [if_pos (by omega)]

theorem toU64_nat (n : Nat) : I32.toU64 (n : Int) = bv n := by
  simp only [I32.toU64, BitVec.ofInt_natCast, bv]

/-- `(u_int64_t)(c ? 1 : 0)`: the two values -/
theorem toU64_int_zero : I32.toU64 (0 : Int) = 0#64 := rfl
theorem toU64_int_one : I32.toU64 (1 : Int) = 1#64 := rfl
/-- `x + (c ? 1 : 0)` is `if (c) x += 1` -/
theorem add_toU64_ite (x : BitVec 64) (c : Prop) [Decidable c] :
    x + I32.toU64 (if c then (1 : Int) else (0 : Int)) = if c then x + 1#64 else x := by
  by_cases h : c
  · rw [if_pos h, if_pos h]; rfl
  · rw [if_neg h, if_neg h, toU64_int_zero, BitVec.add_zero]

theorem words_bv (NC : Nat) (h : NC * 8 < 2 ^ 64) : (bv NC * 8#64).toNat / 8 = NC := by
  have := words_toNat (bv NC) (by rw [bv_toNat NC (by omega)]; exact h)
  rw [this, bv_toNat NC (by omega)]

theorem mr_lt' (x b B nB : Nat) (hx : x < B) (hb : b < nB) : x * nB + b < B * nB := by
  have := mul_le_of_lt x B nB hx
  omega

theorem inttIdx_lt (i N : Nat) (hi : i < N) : Model.Ntt.inttIdx i N < N := by
  unfold Model.Ntt.inttIdx
  by_cases h : N - i = N
  · rw [if_pos h]; omega
  · rw [if_neg h]; omega

/-- the destination row of the reflecting copy -/
theorem dsty_eq (x nB b B N : Nat) (hx : x < B) (hb : b < nB) (hN : B * nB = N) (hN30 : N ≤ 2 ^ 30) :
    I32.toU64 (NTT_intt_idx (I32.ofU64 (BitVec.ofNat 64 x * bv nB + BitVec.ofNat 64 b)) (I32.ofU64 (bv N))) =
      bv (Model.Ntt.inttIdx (x * nB + b) N) := by
  have h1 : x * nB + b < N := by rw [← hN]; exact mr_lt' x b B nB hx hb
  show I32.toU64 (NTT_intt_idx (I32.ofU64 (bv x * bv nB + bv b)) (I32.ofU64 (bv N))) = _
  rw [bv_mul, bv_add, ofU64_bv _ (by omega), ofU64_bv _ (by omega), intt_idx_gen _ _ (by omega), toU64_nat]

theorem ObjRep.R2 {H : Heap} {obj : NTT_Goldilocks} {o : Model.Ntt.Obj} {A A2 : Nat} (h : ObjRep H obj o)
    (hfr : ObjFrame obj A) (hfr2 : ObjFrame obj A2) (s : Block × Block) : ObjRep (Heap.R2 H A A2 s) obj o := by
  obtain ⟨a1, a2, a3, a4⟩ := hfr
  obtain ⟨b1, b2, b3, b4⟩ := hfr2
  apply h.frame
  rintro c (rfl | rfl | rfl | rfl)
  · exact Heap.R2_block_other _ _ _ _ _ (fun e => a1 e.symm) (fun e => b1 e.symm)
  · exact Heap.R2_block_other _ _ _ _ _ (fun e => a2 e.symm) (fun e => b2 e.symm)
  · exact Heap.R2_block_other _ _ _ _ _ (fun e => a3 e.symm) (fun e => b3 e.symm)
  · exact Heap.R2_block_other _ _ _ _ _ (fun e => a4 e.symm) (fun e => b4 e.symm)

theorem le_bv (a b : Nat) (ha : a < 2 ^ 64) (hb : b < 2 ^ 64) : (bv a ≤ bv b) ↔ a ≤ b := by
  rw [BitVec.le_def, bv_toNat a ha, bv_toNat b hb]


/-- a scaled row = the hand model's `scaleRow`, for any loop body that multiplies one element by the factor `f`
    (however the body obtains `f`: read through a pointer in every iteration, or hoisted into a local) -/
theorem scaleRow_g (H : Heap) (A A2 : Nat) (f : BitVec 64) (dY sO NC : Nat) (s : Block × Block)
    (body : Nat → Heap → Option Heap)
    (hbody : ∀ k (P2 : Block), k < NC → body k (Heap.R2 H A A2 (s.1, P2)) =
      some (Heap.R2 H A A2 (s.1, P2.setIfInBounds (dY + k) (Gen.Scalar.mul__eEE (s.1.getD (sO + k) 0#64) f)))) :
    Loop.rangeM 0 NC 1 (Heap.R2 H A A2 s) body =
      some (Heap.R2 H A A2 (s.1, Model.Ntt.scaleRow s.2 s.1 dY sO NC f)) :=
  Loop.rangeM_rep (R := fun P2 => Heap.R2 H A A2 (s.1, P2))
    (f := fun k P2 => P2.setIfInBounds (dY + k) (Gen.Scalar.mul__eEE (s.1.getD (sO + k) 0#64) f)) body 0 NC
    (fun k P2 _ hk => hbody k P2 hk) s.2

/-- a loop over the rows of a batch that writes the second buffer only: any body that maps the second buffer by `g x` -/
theorem snd_loop_g (H : Heap) (A A2 : Nat) (n : Nat) (g : Nat → Block → Block) (s : Block × Block)
    (body : Nat → Heap → Option Heap)
    (hbody : ∀ x (P2 : Block), x < n → body x (Heap.R2 H A A2 (s.1, P2)) = some (Heap.R2 H A A2 (s.1, g x P2))) :
    Loop.rangeM 0 n 1 (Heap.R2 H A A2 s) body = some (Heap.R2 H A A2 (s.1, Model.Ntt.iter n s.2 g)) :=
  Loop.rangeM_rep (R := fun P2 => Heap.R2 H A A2 (s.1, P2)) (f := g) body 0 n (fun x P2 _ hx => hbody x P2 hx) s.2

end GoldilocksVerif.BridgeNtt
