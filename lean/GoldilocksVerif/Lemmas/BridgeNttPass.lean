/-
  Bridge theorems, NTT_iters part 2, BY-NAME forms (first round; used by Lemmas/ParGenNtt.lean and Props/C12.lean): the copy
  loops of one pass and the body of the batch loop of the TRANSLATED `NTT_iters`, stated about the lifted loop bodies with
  their parameter lists, equal the hand model's `transposeCopy`, `scaleRow`, `inverseCopy`, `passBatch` (Model/Ntt.lean).
  The bridge theorems of C03 / C04 / C05 / C19 do not go through this file (Lemmas/BridgeNttPassG.lean, BridgeNttItersTop.lean).
-/
import GoldilocksVerif.Lemmas.BridgeNttStage
import GoldilocksVerif.Lemmas.BridgeNttRevPerm
import GoldilocksVerif.Lemmas.BridgeNttPassG

namespace GoldilocksVerif.BridgeNtt
open GoldilocksVerif Gen.NttGen

section copies
variable (H : Heap) (A A2 : Nat) (hne : A ≠ A2) (hA : A < H.size) (hA2 : A2 < H.size)

by_name_form include hne hA hA2 in
/-- one row of the transposing copy -/
theorem transpose_body (NC B nB b x N : Nat) (hx : x < B) (hb : b < nB) (hN : B * nB = N) (hNNC : N * NC < 2 ^ 64)
    (hNC8 : NC * 8 < 2 ^ 64) (s : Block × Block) :
    NTT_NTT_iters_loop4 (bv NC) ⟨A, 0⟩ ⟨A2, 0⟩ (bv B) (bv nB) b x (Heap.R2 H A A2 s) =
      some (Heap.R2 H A A2 (s.1, Model.Ntt.copyRow s.2 ((x * nB + b) * NC) s.1 ((b * B + x) * NC) NC)) := by
  have h1 : x * nB + b < N := by rw [← hN]; exact mr_lt' x b B nB hx hb
  have h2 : b * B + x < N := by rw [← hN, Nat.mul_comm B nB]; exact mr_lt' b x nB B hb hx
  have h3 := mul_le_of_lt _ _ NC h1
  have h4 := mul_le_of_lt _ _ NC h2
  unfold NTT_NTT_iters_loop4
  simp only [Heap.copy_eq, Ptr.add_blk, Ptr.add_off, Nat.zero_add]
  have e1 : ((BitVec.ofNat 64 x * bv nB + BitVec.ofNat 64 b) * bv NC).toNat = (x * nB + b) * NC := by
    show ((bv x * bv nB + bv b) * bv NC).toNat = _
    rw [bv_mul, bv_add, bv_mul, bv_toNat _ (by omega)]
  have e2 : ((BitVec.ofNat 64 b * bv B + BitVec.ofNat 64 x) * bv NC).toNat = (b * B + x) * NC := by
    show ((bv b * bv B + bv x) * bv NC).toNat = _
    rw [bv_mul, bv_add, bv_mul, bv_toNat _ (by omega)]
  rw [e1, e2, words_bv NC hNC8, Heap.R2_block_snd _ _ _ _ hA2, Heap.R2_block_fst _ _ _ _ hne hA, Heap.R2_setBlock_snd,
    copyRow_eq]

by_name_form include hne hA hA2 in
/-- the transposing copy of one batch = the hand model's `transposeCopy` -/
theorem transpose_gen (NC B nB b N : Nat) (hb : b < nB) (hN : B * nB = N) (hNNC : N * NC < 2 ^ 64)
    (hNC8 : NC * 8 < 2 ^ 64) (hN64 : N < 2 ^ 64) (s : Block × Block) :
    Loop.rangeM 0 (bv B).toNat 1 (Heap.R2 H A A2 s) (NTT_NTT_iters_loop4 (bv NC) ⟨A, 0⟩ ⟨A2, 0⟩ (bv B) (bv nB) b) =
      some (Heap.R2 H A A2 (s.1, Model.Ntt.transposeCopy s.2 s.1 b B nB NC)) := by
  have hB : B < 2 ^ 64 := by
    have : B ≤ B * nB := Nat.le_mul_of_pos_right B (by omega)
    omega
  rw [bv_toNat B hB]
  have := Loop.rangeM_rep (R := fun P2 => Heap.R2 H A A2 (s.1, P2))
    (f := fun x P2 => Model.Ntt.copyRow P2 ((x * nB + b) * NC) s.1 ((b * B + x) * NC) NC)
    (NTT_NTT_iters_loop4 (bv NC) ⟨A, 0⟩ ⟨A2, 0⟩ (bv B) (bv nB) b) 0 B
    (fun x P2 _ hx => transpose_body H A A2 hne hA hA2 NC B nB b x N hx hb hN hNNC hNC8 (s.1, P2)) s.2
  exact this

by_name_form include hne hA hA2 in
/-- one element of a scaled row (`body` = the generated loop body, reading the factor through the pointer `a1`) -/
theorem scale_body (a1 : Ptr) (j : Nat) (f : BitVec 64) (dY sO NC k : Nat) (hk : k < NC) (h1 : dY + NC < 2 ^ 64)
    (h2 : sO + NC < 2 ^ 64) (body : Nat → Heap → Option Heap)
    (hbody : ∀ X : Heap, body k X = some (Heap.set X ⟨A2, 0⟩ (bv dY + BitVec.ofNat 64 k).toNat
      (Gen.Scalar.mul__eEE (Heap.get X ⟨A, 0⟩ (bv sO + BitVec.ofNat 64 k).toNat) (Heap.get X a1 j))))
    (ha1 : a1.blk ≠ A ∧ a1.blk ≠ A2) (hf : (H.block a1.blk).getD (a1.off + j) 0#64 = f) (s : Block × Block) :
    body k (Heap.R2 H A A2 s) =
      some (Heap.R2 H A A2 (s.1, s.2.setIfInBounds (dY + k) (Gen.Scalar.mul__eEE (s.1.getD (sO + k) 0#64) f))) := by
  rw [hbody]
  have e1 : (bv dY + BitVec.ofNat 64 k).toNat = dY + k := by
    show (bv dY + bv k).toNat = _
    rw [bv_add, bv_toNat _ (by omega)]
  have e2 : (bv sO + BitVec.ofNat 64 k).toNat = sO + k := by
    show (bv sO + bv k).toNat = _
    rw [bv_add, bv_toNat _ (by omega)]
  simp only [Heap.set_eq, Heap.get_def, Nat.zero_add, e1, e2]
  rw [Heap.R2_block_snd _ _ _ _ hA2, Heap.R2_block_fst _ _ _ _ hne hA, Heap.R2_block_other _ _ _ _ _ ha1.1 ha1.2,
    Heap.R2_setBlock_snd, hf]

by_name_form include hne hA hA2 in
/-- a scaled row = the hand model's `scaleRow` -/
theorem scaleRow_gen (a1 : Ptr) (j : Nat) (f : BitVec 64) (dY sO NC : Nat) (h1 : dY + NC < 2 ^ 64) (h2 : sO + NC < 2 ^ 64)
    (body : Nat → Heap → Option Heap)
    (hbody : ∀ k (X : Heap), body k X = some (Heap.set X ⟨A2, 0⟩ (bv dY + BitVec.ofNat 64 k).toNat
      (Gen.Scalar.mul__eEE (Heap.get X ⟨A, 0⟩ (bv sO + BitVec.ofNat 64 k).toNat) (Heap.get X a1 j))))
    (ha1 : a1.blk ≠ A ∧ a1.blk ≠ A2) (hf : (H.block a1.blk).getD (a1.off + j) 0#64 = f) (s : Block × Block) :
    Loop.rangeM 0 (bv NC).toNat 1 (Heap.R2 H A A2 s) body =
      some (Heap.R2 H A A2 (s.1, Model.Ntt.scaleRow s.2 s.1 dY sO NC f)) := by
  rw [bv_toNat NC (by omega)]
  exact Loop.rangeM_rep (R := fun P2 => Heap.R2 H A A2 (s.1, P2))
    (f := fun k P2 => P2.setIfInBounds (dY + k) (Gen.Scalar.mul__eEE (s.1.getD (sO + k) 0#64) f)) body 0 NC
    (fun k P2 _ hk => scale_body H A A2 hne hA hA2 a1 j f dY sO NC k hk h1 h2 body (hbody k) ha1 hf (s.1, P2)) s.2

by_name_form include hne hA hA2 in
/-- the reflecting, scaling copy of one batch, factor `powTwoInv[domainPow]` = the hand model's `inverseCopy` (not extend) -/
theorem inverseCopy_gen (self : NTT_Goldilocks) (o : Model.Ntt.Obj) (hrep : ObjRep H self o)
    (hfr : ObjFrame self A) (hfr2 : ObjFrame self A2)
    (NC B nB b N DP : Nat) (hb : b < nB) (hN : B * nB = N) (hNNC : N * NC < 2 ^ 64) (hN30 : N ≤ 2 ^ 30)
    (hDP : DP < 2 ^ 64) (s : Block × Block) :
    Loop.rangeM 0 (bv B).toNat 1 (Heap.R2 H A A2 s)
        (NTT_NTT_iters_loop8 (bv N) (bv NC) self ⟨A, 0⟩ ⟨A2, 0⟩ (bv DP) (bv B) (bv nB) b) =
      some (Heap.R2 H A A2 (s.1, Model.Ntt.inverseCopy o s.2 s.1 b B nB NC N DP false)) := by
  have hB : B < 2 ^ 64 := by
    have : B ≤ B * nB := Nat.le_mul_of_pos_right B (by omega)
    omega
  rw [bv_toNat B hB]
  exact Loop.rangeM_rep (R := fun P2 => Heap.R2 H A A2 (s.1, P2))
    (f := fun x P2 => Model.Ntt.scaleRow P2 s.1 (Model.Ntt.inttIdx (x * nB + b) N * NC) ((b * B + x) * NC) NC
      (Model.Ntt.scaleFactor o false DP (Model.Ntt.inttIdx (x * nB + b) N)))
    _ 0 B
    (fun x P2 _ hx => by
      have h1 : x * nB + b < N := by rw [← hN]; exact mr_lt' x b B nB hx hb
      have h2 : b * B + x < N := by rw [← hN, Nat.mul_comm B nB]; exact mr_lt' b x nB B hb hx
      have h3 := mul_le_of_lt _ _ NC (inttIdx_lt _ _ h1)
      have h4 := mul_le_of_lt _ _ NC h2
      unfold NTT_NTT_iters_loop8
      simp only [dsty_eq x nB b B N hx hb hN hN30, bind_some_id]
      have e2 : ((BitVec.ofNat 64 b * bv B + BitVec.ofNat 64 x) * bv NC) = bv ((b * B + x) * NC) := by
        show ((bv b * bv B + bv x) * bv NC) = _
        rw [bv_mul, bv_add, bv_mul]
      rw [e2, bv_mul]
      exact scaleRow_gen H A A2 hne hA hA2 self.powTwoInv (bv DP).toNat _ _ _ NC (by omega) (by omega) _
        (fun k X => rfl) ⟨fun e => hfr.2.1 e.symm, fun e => hfr2.2.1 e.symm⟩
        (by
          rw [hrep.pti, hrep.pti_off, bv_toNat DP hDP, Nat.zero_add]
          rfl) (s.1, P2)) s.2

by_name_form include hne hA hA2 in
/-- the same with the factors `r_[dsty]` of `extendPol` (the cache must hold the table) -/
theorem inverseCopy_gen_ext (self : NTT_Goldilocks) (o : Model.Ntt.Obj) (hrep : ObjRep H self o)
    (hfr : ObjFrame self A) (hfr2 : ObjFrame self A2) (hcache : o.rcache ≠ none)
    (NC B nB b N DP : Nat) (hb : b < nB) (hN : B * nB = N) (hNNC : N * NC < 2 ^ 64) (hN30 : N ≤ 2 ^ 30)
    (s : Block × Block) :
    Loop.rangeM 0 (bv B).toNat 1 (Heap.R2 H A A2 s)
        (NTT_NTT_iters_loop6 (bv N) (bv NC) self ⟨A, 0⟩ ⟨A2, 0⟩ (bv B) (bv nB) b) =
      some (Heap.R2 H A A2 (s.1, Model.Ntt.inverseCopy o s.2 s.1 b B nB NC N DP true)) := by
  have hB : B < 2 ^ 64 := by
    have : B ≤ B * nB := Nat.le_mul_of_pos_right B (by omega)
    omega
  rw [bv_toNat B hB]
  exact Loop.rangeM_rep (R := fun P2 => Heap.R2 H A A2 (s.1, P2))
    (f := fun x P2 => Model.Ntt.scaleRow P2 s.1 (Model.Ntt.inttIdx (x * nB + b) N * NC) ((b * B + x) * NC) NC
      (Model.Ntt.scaleFactor o true DP (Model.Ntt.inttIdx (x * nB + b) N)))
    _ 0 B
    (fun x P2 _ hx => by
      have h1 : x * nB + b < N := by rw [← hN]; exact mr_lt' x b B nB hx hb
      have h2 : b * B + x < N := by rw [← hN, Nat.mul_comm B nB]; exact mr_lt' b x nB B hb hx
      have h3 := mul_le_of_lt _ _ NC (inttIdx_lt _ _ h1)
      have h4 := mul_le_of_lt _ _ NC h2
      unfold NTT_NTT_iters_loop6
      simp only [dsty_eq x nB b B N hx hb hN hN30, bind_some_id]
      have e2 : ((BitVec.ofNat 64 b * bv B + BitVec.ofNat 64 x) * bv NC) = bv ((b * B + x) * NC) := by
        show ((bv b * bv B + bv x) * bv NC) = _
        rw [bv_mul, bv_add, bv_mul]
      rw [e2, bv_mul]
      exact scaleRow_gen H A A2 hne hA hA2 self.r_ (bv (Model.Ntt.inttIdx (x * nB + b) N)).toNat _ _ _ NC (by omega)
        (by omega) _ (fun k X => rfl) ⟨fun e => hfr.2.2.2 e.symm, fun e => hfr2.2.2.2 e.symm⟩
        (by
          have hc := hrep.cache
          cases hrc : o.rcache with
          | none => exact absurd hrc hcache
          | some v =>
            obtain ⟨n, r, r_⟩ := v
            rw [hrc] at hc
            obtain ⟨_, _, _, _, c5, c6⟩ := hc
            rw [c5, c6, bv_toNat _ (by have := inttIdx_lt _ _ h1; omega), Nat.zero_add]
            simp only [Model.Ntt.scaleFactor, hrc, if_true]) (s.1, P2)) s.2

by_name_form include hne hA hA2 in
/-- body of the batch loop of one pass = the hand model's `passBatch` -/
theorem passBatch_gen (self : NTT_Goldilocks) (o : Model.Ntt.Obj) (hrep : ObjRep H self o)
    (hfr : ObjFrame self A) (hfr2 : ObjFrame self A2)
    (N NC K MBP S sInc nB b : Nat) (inverse extend : Bool)
    (hK : K ≤ 30) (hN : N = 2 ^ K) (hS1 : 1 ≤ S) (hSleK : S ≤ K) (hSK : S + sInc ≤ K + 1) (hKs : K ≤ o.s) (hos : o.s ≤ 32)
    (hnB : nB = N / 2 ^ sInc) (hb : b < nB) (hNNC : N * NC < 2 ^ 64) (hNC8 : NC * 8 < 2 ^ 64) (hMBP : MBP < 2 ^ 63)
    (hcache : extend = true → o.rcache ≠ none) (s : Block × Block) :
    NTT_NTT_iters_loop9 (bv N) (bv NC) inverse extend self ⟨A, 0⟩ ⟨A2, 0⟩ (bv K) (bv MBP) (bv S) (bv sInc) (bv (S - 1))
        (bv (K - 1)) (bv (2 ^ (S - 1))) (bv (2 ^ (K - S) - 1)) (bv (2 ^ sInc)) (bv nB) b (Heap.R2 H A A2 s) =
      some (Heap.R2 H A A2
        (Model.Ntt.passBatch o N K NC S sInc (!(decide (S + MBP ≤ K) || !inverse)) extend b s)) := by
  have hN30 : N ≤ 2 ^ 30 := by rw [hN]; exact Nat.pow_le_pow_right (by omega) hK
  have hsK : sInc ≤ K := by omega
  have hBN : 2 ^ sInc * nB = N := by
    rw [hnB, hN]
    have : 2 ^ K = 2 ^ sInc * 2 ^ (K - sInc) := by rw [← Nat.pow_add]; congr 1; omega
    rw [this, Nat.mul_div_cancel_left _ (Nat.pow_pos (by omega))]
  have hbB : b * 2 ^ sInc + 2 ^ sInc ≤ N := by
    have := mul_le_of_lt b nB (2 ^ sInc) hb
    rw [Nat.mul_comm nB] at this
    omega
  have hX := ObjRep.R2 hrep hfr hfr2 s
  have hKS : K - 1 - (S - 1) = K - S := by omega
  unfold NTT_NTT_iters_loop9
  have hst := batchStages_gen (Heap.R2 H A A2 s) self o A (by simpa using hA) hX hfr S sInc b NC (S - 1) (K - 1)
    (2 ^ (S - 1)) N (2 ^ (K - 1 - (S - 1)) - 1) hN30 hbB hNNC (Nat.pow_le_pow_right (by omega) (by omega)) (by omega) (by omega)
    hS1 (by omega) hos (by omega)
  rw [hKS] at hst
  dsimp only
  rw [hst]
  simp only [Option.bind_some, bind_some_id]
  rw [Heap.R2_block_fst _ _ _ _ hne hA, Heap.R2_setBlock_fst _ _ _ _ _ hne]
  have hc : decide (bv S + bv MBP ≤ bv K) = decide (S + MBP ≤ K) := by
    rw [bv_add, decide_eq_decide, le_bv _ _ (by omega) (by omega)]
  rw [hc]
  unfold Model.Ntt.passBatch
  by_cases hcond : (decide (S + MBP ≤ K) || !inverse) = true
  · rw [if_pos hcond]
    simp only [hcond, Bool.not_true, Bool.false_eq_true, if_false, ← hnB, hKS]
    rw [transpose_gen H A A2 hne hA hA2 NC (2 ^ sInc) nB b N hb hBN hNNC hNC8 (by omega)]
  · rw [if_neg hcond]
    have hcf : (decide (S + MBP ≤ K) || !inverse) = false := by simpa using hcond
    simp only [hcf, Bool.not_false, if_true, ← hnB, hKS]
    cases extend with
    | true =>
      simp only [if_true]
      rw [inverseCopy_gen_ext H A A2 hne hA hA2 self o hrep hfr hfr2 (hcache rfl) NC (2 ^ sInc) nB b N K hb hBN hNNC hN30]
    | false =>
      simp only [Bool.false_eq_true, if_false]
      rw [inverseCopy_gen H A A2 hne hA hA2 self o hrep hfr hfr2 NC (2 ^ sInc) nB b N K hb hBN hNNC hN30 (by omega)]

end copies

end GoldilocksVerif.BridgeNtt
