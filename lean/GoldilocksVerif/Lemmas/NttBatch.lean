/-
  L2, part 2: all the stages of one pass on one batch (`batchStages`) advance the partial transforms
  `S t lo hi` (abstract here: any family satisfying the butterfly recursion) from level `t` to level `t + c`,
  in the layout of the multi-pass algorithm:
    before the pass, row `b*B + x` of batch `b = hi*2^(d-t-c) + mid` holds `S t (mid*2^c + x) hi`,
    after its `c` stages it holds `S (t+c) mid (x*2^t + hi)`.
-/
import GoldilocksVerif.Lemmas.NttStage

namespace GoldilocksVerif.Model.Ntt
open GoldilocksVerif.NttSpec

theorem pow_split (a b n : Nat) (h : n = a + b) : 2 ^ n = 2 ^ a * 2 ^ b := by
  subst h; exact Nat.pow_add 2 a b

/-- the twiddle index of the model is the `hi` index of the level reached so far -/
theorem twIdx_eq (d t c u hi mid xh xl : Nat) (htc : t + c ≤ d) (huc : u < c) (hhi : hi < 2 ^ t)
    (hmid : mid < 2 ^ (d - t - c)) (hxh : xh < 2 ^ (c - 1 - u)) (hxl : xl < 2 ^ u) :
    twIdx (t + 1) u (hi * 2 ^ (d - t - c) + mid) (2 ^ c) t (d - 1) (2 ^ t) (xh * 2 ^ u + xl) = xl * 2 ^ t + hi := by
  unfold twIdx
  dsimp only
  have e1 : 2 ^ c = 2 ^ (c - 1 - u) * 2 ^ u * 2 := by
    rw [pow_split (c - 1 - u + u) 1 c (by omega), pow_split (c - 1 - u) u _ rfl, Nat.pow_one]
  have e2 : 2 ^ (d - 1 - t) = 2 ^ (d - t - c) * (2 ^ (c - 1 - u) * 2 ^ u) := by
    rw [pow_split (d - t - c) (c - 1 - u + u) (d - 1 - t) (by omega), pow_split (c - 1 - u) u _ rfl]
  have e3 : 2 ^ (t + 1 + u) / 2 = 2 ^ t * 2 ^ u := by
    rw [pow_split (t + u) 1 (t + 1 + u) (by omega), pow_split t u _ rfl, Nat.pow_one]
    exact Nat.mul_div_cancel _ (by omega)
  rw [e1, e2, e3]
  generalize 2 ^ (d - t - c) = G at *
  generalize 2 ^ (c - 1 - u) = M at *
  generalize 2 ^ u = U at *
  generalize 2 ^ t = T at *
  have h1 : (hi * G + mid) * (M * U * 2) / 2 = (hi * G + mid) * (M * U) := by
    rw [← Nat.mul_assoc]; exact Nat.mul_div_cancel _ (by omega)
  rw [h1]
  have hL : mid * (M * U) + (xh * U + xl) < G * (M * U) := mr_lt _ _ _ _ hmid (mr_lt _ _ _ _ hxh hxl)
  have h2 : (hi * G + mid) * (M * U) + (xh * U + xl) = hi * (G * (M * U)) + (mid * (M * U) + (xh * U + xl)) := by ring
  rw [h2, mr_mod _ _ _ hL, mr_div _ _ _ hL]
  have h3 : (mid * (M * U) + (xh * U + xl)) * T + hi = (mid * M + xh) * (T * U) + (xl * T + hi) := by ring
  have h4 : xl * T + hi < T * U := by rw [Nat.mul_comm T U]; exact mr_lt _ _ _ _ hxl hhi
  rw [h3, mr_mod _ _ _ h4]

/-- what the main proof needs to know about the twiddle table of the object -/
def RootsOk (o : Obj) (d : Nat) : Prop :=
  ∀ dp idx, 1 ≤ dp → dp ≤ d → idx < 2 ^ dp → den (root o dp idx) = omega dp ^ idx

/-- a family of partial transforms closed under the butterfly recursion up to level `d` -/
def SRec (d : Nat) (S : Nat → Nat → Nat → Nat → F) : Prop :=
  ∀ t lo h k, t < d →
    S (t + 1) lo h k = S t (2 * lo) h k + omega (t + 1) ^ h * S t (2 * lo + 1) h k ∧
    S (t + 1) lo (2 ^ t + h) k = S t (2 * lo) h k - omega (t + 1) ^ h * S t (2 * lo + 1) h k

theorem batchStages_spec (o : Obj) (S : Nat → Nat → Nat → Nat → F) (d t c hi mid nc rm : Nat) (a : Buf)
    (hR : RootsOk o d) (hS : SRec d S) (htc : t + c ≤ d) (hhi : hi < 2 ^ t) (hmid : mid < 2 ^ (d - t - c))
    (hsz : (hi * 2 ^ (d - t - c) + mid + 1) * 2 ^ c * nc ≤ a.size)
    (hin : ∀ x k, x < 2 ^ c → k < nc →
      cell a nc ((hi * 2 ^ (d - t - c) + mid) * 2 ^ c + x) k = S t (mid * 2 ^ c + x) hi k) :
    (batchStages o a (t + 1) c (hi * 2 ^ (d - t - c) + mid) (2 ^ c) nc t (d - 1) (2 ^ t) rm).size = a.size ∧
    (∀ x k, x < 2 ^ c → k < nc →
      cell (batchStages o a (t + 1) c (hi * 2 ^ (d - t - c) + mid) (2 ^ c) nc t (d - 1) (2 ^ t) rm) nc
        ((hi * 2 ^ (d - t - c) + mid) * 2 ^ c + x) k = S (t + c) mid (x * 2 ^ t + hi) k) ∧
    (∀ r k, k < nc → (r < (hi * 2 ^ (d - t - c) + mid) * 2 ^ c ∨ (hi * 2 ^ (d - t - c) + mid + 1) * 2 ^ c ≤ r) →
      cell (batchStages o a (t + 1) c (hi * 2 ^ (d - t - c) + mid) (2 ^ c) nc t (d - 1) (2 ^ t) rm) nc r k
        = cell a nc r k) := by
  generalize hb : hi * 2 ^ (d - t - c) + mid = b at *
  -- invariant after `u` stages
  have key : ∀ u, u ≤ c →
      (iter u a (fun si a => stage o a (t + 1) si b (2 ^ c) nc t (d - 1) (2 ^ t) rm)).size = a.size ∧
      (∀ xh xl k, xh < 2 ^ (c - u) → xl < 2 ^ u → k < nc →
        cell (iter u a (fun si a => stage o a (t + 1) si b (2 ^ c) nc t (d - 1) (2 ^ t) rm)) nc
          (b * 2 ^ c + (xh * 2 ^ u + xl)) k = S (t + u) (mid * 2 ^ (c - u) + xh) (xl * 2 ^ t + hi) k) ∧
      (∀ r k, k < nc → (r < b * 2 ^ c ∨ (b + 1) * 2 ^ c ≤ r) →
        cell (iter u a (fun si a => stage o a (t + 1) si b (2 ^ c) nc t (d - 1) (2 ^ t) rm)) nc r k = cell a nc r k) := by
    intro u
    induction u with
    | zero =>
      intro _
      refine ⟨rfl, ?_, fun r k _ _ => rfl⟩
      intro xh xl k hxh hxl hk
      have : xl = 0 := by simpa using hxl
      subst this
      rw [iter_zero]
      have := hin xh k (by simpa using hxh) hk
      simpa using this
    | succ u ih =>
      intro hu
      obtain ⟨ihs, ih2, ih3⟩ := ih (by omega)
      rw [iter_succ]
      generalize iter u a (fun si a => stage o a (t + 1) si b (2 ^ c) nc t (d - 1) (2 ^ t) rm) = A at ihs ih2 ih3
      have eB : 2 ^ c = 2 ^ (c - 1 - u) * (2 ^ u * 2) := by
        rw [pow_split (c - 1 - u + u) 1 c (by omega), pow_split (c - 1 - u) u _ rfl, Nat.mul_assoc, Nat.pow_one]
      obtain ⟨s1, s2, s3⟩ := stage_spec o A (t + 1) u b (2 ^ c) nc t (d - 1) (2 ^ t) rm (2 ^ (c - 1 - u)) eB
        (by rw [ihs]; exact hsz)
      refine ⟨by rw [s1, ihs], ?_, ?_⟩
      · intro xh xl k hxh hxl hk
        -- split the new low part into its top bit `e` and the old low part
        have hU0 : 0 < 2 ^ u := Nat.two_pow_pos u
        have e_lt : xl / 2 ^ u < 2 := by
          apply Nat.div_lt_of_lt_mul; rw [← Nat.pow_succ]; exact hxl
        have hxl' : xl % 2 ^ u < 2 ^ u := Nat.mod_lt _ hU0
        have hdm := Nat.div_add_mod xl (2 ^ u)
        have hxh' : xh < 2 ^ (c - 1 - u) := by
          have : c - (u + 1) = c - 1 - u := by omega
          rw [this] at hxh; exact hxh
        have hi_lt : xh * 2 ^ u + xl % 2 ^ u < 2 ^ (c - 1 - u) * 2 ^ u := mr_lt _ _ _ _ hxh' hxl'
        obtain ⟨p1, p2⟩ := s2 (xh * 2 ^ u + xl % 2 ^ u) k hi_lt hk
        have hlo : loR (2 ^ u) (xh * 2 ^ u + xl % 2 ^ u) = xh * (2 ^ u * 2) + xl % 2 ^ u := by
          unfold loR; rw [mr_div _ _ _ hxl', mr_mod _ _ _ hxl']
        rw [hlo] at p1 p2
        -- the old values of the two rows
        have c2 : 2 ^ (c - u) = 2 * 2 ^ (c - (u + 1)) := by
          rw [pow_split 1 (c - (u + 1)) (c - u) (by omega), Nat.pow_one]
        have q1 := ih2 (2 * xh) (xl % 2 ^ u) k (by rw [c2]; omega) hxl' hk
        have q2 := ih2 (2 * xh + 1) (xl % 2 ^ u) k (by rw [c2]; omega) hxl' hk
        have r1 : b * 2 ^ c + (2 * xh * 2 ^ u + xl % 2 ^ u) = b * 2 ^ c + (xh * (2 ^ u * 2) + xl % 2 ^ u) := by ring
        have r2 : b * 2 ^ c + ((2 * xh + 1) * 2 ^ u + xl % 2 ^ u)
            = b * 2 ^ c + (xh * (2 ^ u * 2) + xl % 2 ^ u) + 2 ^ u := by ring
        rw [r1] at q1
        rw [r2] at q2
        have l1 : mid * 2 ^ (c - u) + 2 * xh = 2 * (mid * 2 ^ (c - (u + 1)) + xh) := by rw [c2]; ring
        have l2 : mid * 2 ^ (c - u) + (2 * xh + 1) = 2 * (mid * 2 ^ (c - (u + 1)) + xh) + 1 := by rw [c2]; ring
        rw [l1] at q1
        rw [l2] at q2
        -- the twiddle
        have htw := twIdx_eq d t c u hi mid xh (xl % 2 ^ u) htc (by omega) hhi hmid hxh' hxl'
        rw [hb] at htw
        have hroot : den (root o (t + 1 + u) (xl % 2 ^ u * 2 ^ t + hi)) = omega (t + 1 + u) ^ (xl % 2 ^ u * 2 ^ t + hi) := by
          apply hR _ _ (by omega) (by omega)
          have : xl % 2 ^ u * 2 ^ t + hi < 2 ^ u * 2 ^ t := mr_lt _ _ _ _ hxl' hhi
          have e : 2 ^ (t + 1 + u) = 2 ^ u * 2 ^ t * 2 := by
            rw [pow_split (u + t) 1 (t + 1 + u) (by omega), pow_split u t _ rfl, Nat.pow_one]
          rw [e]; omega
        rw [htw, hroot, q1, q2] at p1 p2
        obtain ⟨g1, g2⟩ := hS (t + u) (mid * 2 ^ (c - (u + 1)) + xh) (xl % 2 ^ u * 2 ^ t + hi) k (by omega)
        have et : t + 1 + u = t + u + 1 := by omega
        rw [et] at p1 p2
        have et2 : t + (u + 1) = t + u + 1 := by omega
        rw [et2]
        rcases Nat.lt_succ_iff.mp e_lt with he
        rcases Nat.eq_zero_or_pos (xl / 2 ^ u) with he0 | he1
        · -- top bit 0: the lower row
          rw [he0] at hdm
          have ex : xl = xl % 2 ^ u := by omega
          have row : b * 2 ^ c + (xh * 2 ^ (u + 1) + xl) = b * 2 ^ c + (xh * (2 ^ u * 2) + xl % 2 ^ u) := by
            rw [Nat.pow_succ]; omega
          have hx : xl * 2 ^ t + hi = xl % 2 ^ u * 2 ^ t + hi := by rw [← ex]
          rw [row, p1, hx, g1]
          ring
        · -- top bit 1: the upper row
          have he2 : xl / 2 ^ u = 1 := by omega
          rw [he2] at hdm
          have ex : xl = 2 ^ u + xl % 2 ^ u := by omega
          have row : b * 2 ^ c + (xh * 2 ^ (u + 1) + xl) = b * 2 ^ c + (xh * (2 ^ u * 2) + xl % 2 ^ u) + 2 ^ u := by
            rw [Nat.pow_succ]; omega
          have hx : xl * 2 ^ t + hi = 2 ^ (t + u) + (xl % 2 ^ u * 2 ^ t + hi) := by
            rw [pow_split t u _ rfl]
            generalize xl % 2 ^ u = y at ex
            rw [ex]; ring
          rw [row, p2, hx, g2]
      · intro r k hk hr
        rw [s3 r k hk hr]
        exact ih3 r k hk hr
  unfold batchStages
  obtain ⟨k1, k2, k3⟩ := key c (Nat.le_refl _)
  refine ⟨k1, ?_, k3⟩
  intro x k hx hk
  have := k2 0 x k (by simp) hx hk
  simpa using this

end GoldilocksVerif.Model.Ntt
