/-
  Bit reversal on `Nat` (specification side of `BR`), core-only facts.
-/
import GoldilocksVerif.Lemmas.NttArr

namespace GoldilocksVerif.Model.Ntt

/-- reversal of the low `d` bits of `i` -/
def bitrev : Nat → Nat → Nat
  | 0, _ => 0
  | d + 1, i => (i % 2) * 2 ^ d + bitrev d (i / 2)

theorem bitrev_zero (i : Nat) : bitrev 0 i = 0 := rfl
theorem bitrev_succ (d i : Nat) : bitrev (d + 1) i = (i % 2) * 2 ^ d + bitrev d (i / 2) := rfl

theorem bitrev_lt (d : Nat) : ∀ i, bitrev d i < 2 ^ d := by
  induction d with
  | zero => intro i; simp [bitrev]
  | succ d ih =>
    intro i
    rw [bitrev_succ, Nat.pow_succ]
    have := ih (i / 2)
    rcases Nat.mod_two_eq_zero_or_one i with h0 | h0 <;> rw [h0] <;> omega

theorem bitrev_even (d i : Nat) : bitrev (d + 1) (2 * i) = bitrev d i := by
  rw [bitrev_succ]
  have h1 : 2 * i % 2 = 0 := by omega
  have h2 : 2 * i / 2 = i := by omega
  rw [h1, h2]; omega

theorem bitrev_odd (d i : Nat) : bitrev (d + 1) (2 * i + 1) = 2 ^ d + bitrev d i := by
  rw [bitrev_succ]
  have h1 : (2 * i + 1) % 2 = 1 := by omega
  have h2 : (2 * i + 1) / 2 = i := by omega
  rw [h1, h2]; omega

end GoldilocksVerif.Model.Ntt
