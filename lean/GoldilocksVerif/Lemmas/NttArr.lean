/-
  Loop and array lemmas for the transform model (Model/Ntt.lean): the `iter` fold, `copyRow`, `zeroRow`, pointwise
  characterisations through `getD`.
-/
import GoldilocksVerif.Model.Ntt

namespace GoldilocksVerif.Model.Ntt

theorem rangeAux_succ {σ : Type} (f : Nat → σ → σ) : ∀ (n i : Nat) (s : σ),
    Loop.rangeAux 1 f (n + 1) i s = f (i + n) (Loop.rangeAux 1 f n i s) := by
  intro n
  induction n with
  | zero => intro i s; rfl
  | succ n ih =>
    intro i s
    show Loop.rangeAux 1 f (n + 1) (i + 1) (f i s) = _
    rw [ih (i + 1) (f i s)]
    have : i + 1 + n = i + (n + 1) := by omega
    rw [this]
    rfl

theorem iter_zero {σ : Type} (s : σ) (f : Nat → σ → σ) : iter 0 s f = s := rfl

theorem iter_succ {σ : Type} (n : Nat) (s : σ) (f : Nat → σ → σ) : iter (n + 1) s f = f n (iter n s f) := by
  unfold iter Loop.range
  have e1 : (n + 1 - 0 + 1 - 1) / 1 = n + 1 := by simp
  have e2 : (n - 0 + 1 - 1) / 1 = n := by simp
  rw [e1, e2, rangeAux_succ, Nat.zero_add]

/-- loop invariant rule -/
theorem iter_ind {σ : Type} (P : Nat → σ → Prop) (n : Nat) (s : σ) (f : Nat → σ → σ)
    (h0 : P 0 s) (hs : ∀ i, i < n → ∀ s, P i s → P (i + 1) (f i s)) : P n (iter n s f) := by
  induction n with
  | zero => exact h0
  | succ n ih =>
    rw [iter_succ]
    exact hs n (by omega) _ (ih (fun i hi => hs i (by omega)))

theorem iter_congr {σ : Type} (n : Nat) (s : σ) (f g : Nat → σ → σ) (h : ∀ i, i < n → ∀ s, f i s = g i s) :
    iter n s f = iter n s g := by
  induction n with
  | zero => rfl
  | succ n ih => rw [iter_succ, iter_succ, ih (fun i hi => h i (by omega)), h n (by omega)]

/-! ### arrays through `getD` -/

theorem getD_set (a : Buf) (i j : Nat) (v : W) :
    (a.setIfInBounds i v).getD j 0#64 = if j = i ∧ i < a.size then v else a.getD j 0#64 := by
  rw [Array.getD_eq_getD_getElem?, Array.getD_eq_getD_getElem?, Array.getElem?_setIfInBounds]
  by_cases h : i = j
  · subst h
    by_cases h2 : i < a.size
    · simp [h2]
    · simp [h2]
  · have h' : ¬ j = i := fun e => h e.symm
    simp [h, h']

theorem getD_set_ne (a : Buf) (i j : Nat) (v : W) (h : j ≠ i) : (a.setIfInBounds i v).getD j 0#64 = a.getD j 0#64 := by
  rw [getD_set, if_neg (fun c => h c.1)]

theorem getD_set_eq (a : Buf) (i : Nat) (v : W) (h : i < a.size) : (a.setIfInBounds i v).getD i 0#64 = v := by
  rw [getD_set, if_pos ⟨rfl, h⟩]

theorem getD_ge (a : Buf) (j : Nat) (h : a.size ≤ j) : a.getD j 0#64 = 0#64 := by
  rw [Array.getD_eq_getD_getElem?]
  have : a[j]? = none := by simp; omega
  rw [this]; rfl

theorem getD_replicate (n j : Nat) (v : W) : (Array.replicate n v).getD j 0#64 = if j < n then v else 0#64 := by
  rw [Array.getD_eq_getD_getElem?, Array.getElem?_replicate]
  by_cases h : j < n <;> simp [h]

/-- buffers agree through `getD` and in size iff equal -/
theorem buf_ext (a b : Buf) (hs : a.size = b.size) (h : ∀ j, j < a.size → a.getD j 0#64 = b.getD j 0#64) : a = b := by
  apply Array.ext hs
  intro i h1 h2
  have := h i h1
  rw [Array.getD_eq_getD_getElem?, Array.getD_eq_getD_getElem?] at this
  simpa [h1, h2] using this

theorem copyRow_size (dst : Buf) (d0 : Nat) (src : Buf) (so n : Nat) : (copyRow dst d0 src so n).size = dst.size := by
  unfold copyRow
  induction n with
  | zero => rfl
  | succ n ih => rw [iter_succ, Array.size_setIfInBounds, ih]

theorem copyRow_getD (dst : Buf) (d0 : Nat) (src : Buf) (so n j : Nat) :
    (copyRow dst d0 src so n).getD j 0#64
      = if d0 ≤ j ∧ j < d0 + n ∧ j < dst.size then src.getD (so + (j - d0)) 0#64 else dst.getD j 0#64 := by
  induction n with
  | zero =>
    have : ¬ (d0 ≤ j ∧ j < d0 + 0 ∧ j < dst.size) := by omega
    rw [if_neg this]; rfl
  | succ n ih =>
    have e : copyRow dst d0 src so (n + 1)
        = (copyRow dst d0 src so n).setIfInBounds (d0 + n) (src.getD (so + n) 0#64) := by
      unfold copyRow; rw [iter_succ]
    rw [e, getD_set, copyRow_size, ih]
    by_cases h1 : j = d0 + n ∧ d0 + n < dst.size
    · rw [if_pos h1, if_pos (by omega)]
      have : so + (j - d0) = so + n := by omega
      rw [this]
    · rw [if_neg h1]
      by_cases h2 : d0 ≤ j ∧ j < d0 + n ∧ j < dst.size
      · rw [if_pos h2, if_pos (by omega)]
      · rw [if_neg h2, if_neg (by omega)]

theorem zeroRow_size (dst : Buf) (d0 n : Nat) : (zeroRow dst d0 n).size = dst.size := by
  unfold zeroRow
  induction n with
  | zero => rfl
  | succ n ih => rw [iter_succ, Array.size_setIfInBounds, ih]

theorem zeroRow_getD (dst : Buf) (d0 n j : Nat) :
    (zeroRow dst d0 n).getD j 0#64 = if d0 ≤ j ∧ j < d0 + n ∧ j < dst.size then 0#64 else dst.getD j 0#64 := by
  induction n with
  | zero =>
    have : ¬ (d0 ≤ j ∧ j < d0 + 0 ∧ j < dst.size) := by omega
    rw [if_neg this]; rfl
  | succ n ih =>
    have e : zeroRow dst d0 (n + 1) = (zeroRow dst d0 n).setIfInBounds (d0 + n) 0#64 := by
      unfold zeroRow; rw [iter_succ]
    rw [e, getD_set, zeroRow_size, ih]
    by_cases h1 : j = d0 + n ∧ d0 + n < dst.size
    · rw [if_pos h1, if_pos (by omega)]
    · rw [if_neg h1]
      by_cases h2 : d0 ≤ j ∧ j < d0 + n ∧ j < dst.size
      · rw [if_pos h2, if_pos (by omega)]
      · rw [if_neg h2, if_neg (by omega)]

theorem scaleRow_size (a2 a : Buf) (d0 s0 n : Nat) (f : W) : (scaleRow a2 a d0 s0 n f).size = a2.size := by
  unfold scaleRow
  induction n with
  | zero => rfl
  | succ n ih => rw [iter_succ, Array.size_setIfInBounds, ih]

theorem scaleRow_getD (a2 a : Buf) (d0 s0 n : Nat) (f : W) (j : Nat) :
    (scaleRow a2 a d0 s0 n f).getD j 0#64
      = if d0 ≤ j ∧ j < d0 + n ∧ j < a2.size then Gen.Scalar.mul__eEE (a.getD (s0 + (j - d0)) 0#64) f else a2.getD j 0#64 := by
  induction n with
  | zero =>
    have : ¬ (d0 ≤ j ∧ j < d0 + 0 ∧ j < a2.size) := by omega
    rw [if_neg this]; rfl
  | succ n ih =>
    have e : scaleRow a2 a d0 s0 (n + 1) f
        = (scaleRow a2 a d0 s0 n f).setIfInBounds (d0 + n) (Gen.Scalar.mul__eEE (a.getD (s0 + n) 0#64) f) := by
      unfold scaleRow; rw [iter_succ]
    rw [e, getD_set, scaleRow_size, ih]
    by_cases h1 : j = d0 + n ∧ d0 + n < a2.size
    · rw [if_pos h1, if_pos (by omega)]
      have : s0 + (j - d0) = s0 + n := by omega
      rw [this]
    · rw [if_neg h1]
      by_cases h2 : d0 ≤ j ∧ j < d0 + n ∧ j < a2.size
      · rw [if_pos h2, if_pos (by omega)]
      · rw [if_neg h2, if_neg (by omega)]

/-! ### rows and columns -/

/-- `(r, k) ↦ r * nc + k` is injective on `k < nc` -/
theorem rowcol_inj (nc r k r' k' : Nat) (hk : k < nc) (hk' : k' < nc) (h : r * nc + k = r' * nc + k') : r = r' ∧ k = k' := by
  have h1 : (r * nc + k) / nc = r := by
    rw [Nat.mul_comm, Nat.mul_add_div (by omega), Nat.div_eq_of_lt hk, Nat.add_zero]
  have h2 : (r' * nc + k') / nc = r' := by
    rw [Nat.mul_comm, Nat.mul_add_div (by omega), Nat.div_eq_of_lt hk', Nat.add_zero]
  have h3 : r = r' := by rw [← h1, ← h2, h]
  subst h3
  exact ⟨rfl, by omega⟩

/-- row `r`, column `k` lies inside a buffer of at least `n` rows -/
theorem rowcol_lt (nc n r k : Nat) (hr : r < n) (hk : k < nc) : r * nc + k < n * nc := by
  have : (r + 1) * nc ≤ n * nc := Nat.mul_le_mul_right nc (by omega)
  rw [Nat.add_mul, Nat.one_mul] at this
  omega

end GoldilocksVerif.Model.Ntt
