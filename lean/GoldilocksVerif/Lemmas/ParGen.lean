/-
  Order independence for the GENERATED (translated) parallel loops, generic part.  Helper of Props/C12.lean.

  The translator renders `#pragma omp parallel for  for (i = 0; i < n; i++) body` as
  `Loop.rangeM 0 n 1 s (body …)`, where `body … : Nat → σ → Option σ` is the lifted loop body (`none` = the body ended
  the process or an inner loop ran out of fuel).  Here:
  * `inOrder body l s`   : the lifted body executed over the index list `l`, in that order (= `List.foldlM` in `Option`);
  * `rangeM_eq_inOrder`  : the generated loop IS `inOrder body (List.range n)` — no hypothesis;
  * `inOrder_rep`        : a body that keeps to a representation `R : τ → σ` on the indices of `l` (what the per-iteration
                           bridge lemmas of Lemmas/Bridge*.lean state) runs, in the order `l`, as the fold of the
                           represented body;
  * `inOrder_any_order`  : hence, if the represented bodies can be folded in any order, so can the generated ones.
-/
import GoldilocksVerif.Lemmas.HeapL
import Mathlib.Data.List.Perm.Basic

namespace GoldilocksVerif.ParGen

/-- the lifted loop body `body` executed for the indices of `l`, in the order of `l` -/
def inOrder {σ : Type} (body : Nat → σ → Option σ) (l : List Nat) (s : σ) : Option σ :=
  l.foldlM (fun s i => body i s) s

theorem inOrder_nil {σ : Type} (body : Nat → σ → Option σ) (s : σ) : inOrder body [] s = some s := rfl

theorem inOrder_cons {σ : Type} (body : Nat → σ → Option σ) (i : Nat) (l : List Nat) (s : σ) :
    inOrder body (i :: l) s = (body i s).bind (inOrder body l) := by
  unfold inOrder
  rw [List.foldlM_cons]
  rfl

theorem inOrder_append {σ : Type} (body : Nat → σ → Option σ) (l l' : List Nat) (s : σ) :
    inOrder body (l ++ l') s = (inOrder body l s).bind (inOrder body l') := by
  induction l generalizing s with
  | nil => rfl
  | cons i l ih =>
    rw [List.cons_append, inOrder_cons, inOrder_cons]
    cases body i s with
    | none => rfl
    | some s' => exact ih s'

theorem rangeMAux_eq_inOrder {σ : Type} (body : Nat → σ → Option σ) :
    ∀ (n i : Nat) (s : σ), Loop.rangeMAux 1 body n i s = inOrder body (List.range' i n) s := by
  intro n
  induction n with
  | zero => intro i s; rfl
  | succ n ih =>
    intro i s
    rw [Loop.rangeMAux_succ, List.range'_succ, inOrder_cons]
    congr 1
    funext s'
    exact ih (i + 1) s'

/-- **the generated counted loop is the lifted body run over `0, 1, …, n-1`** -/
theorem rangeM_eq_inOrder {σ : Type} (body : Nat → σ → Option σ) (n : Nat) (s : σ) :
    Loop.rangeM 0 n 1 s body = inOrder body (List.range n) s := by
  unfold Loop.rangeM
  have hn : (n - 0 + 1 - 1) / 1 = n := by simp
  rw [hn, rangeMAux_eq_inOrder, List.range_eq_range']

/-- a body that keeps to the representation `R` on the indices of `l` -/
theorem inOrder_rep {σ τ : Type} (R : τ → σ) (f : Nat → τ → τ) (body : Nat → σ → Option σ) (l : List Nat)
    (hbody : ∀ i ∈ l, ∀ t, body i (R t) = some (R (f i t))) (t : τ) :
    inOrder body l (R t) = some (R (l.foldl (fun t i => f i t) t)) := by
  induction l generalizing t with
  | nil => rfl
  | cons i l ih =>
    rw [inOrder_cons, hbody i List.mem_cons_self t]
    exact ih (fun j hj => hbody j (List.mem_cons_of_mem _ hj)) (f i t)

/-- **transfer of order independence**: the generated body keeps to `R` and runs the represented body `f` on the
    indices `< n`; if `f` can be folded over any permutation of `0 … n-1` with the same result, then the generated body run
    over any permutation of the indices gives the result of the generated loop — and that loop returns -/
theorem inOrder_any_order {σ τ : Type} (R : τ → σ) (f : Nat → τ → τ) (body : Nat → σ → Option σ) (n : Nat)
    (hbody : ∀ i, i < n → ∀ t, body i (R t) = some (R (f i t)))
    (hord : ∀ (l : List Nat), l.Perm (List.range n) → ∀ t, l.foldl (fun t i => f i t) t = (List.range n).foldl (fun t i => f i t) t)
    (l : List Nat) (hp : l.Perm (List.range n)) (t : τ) :
    inOrder body l (R t) = Loop.rangeM 0 n 1 (R t) body ∧ ∃ r, Loop.rangeM 0 n 1 (R t) body = some r := by
  rw [rangeM_eq_inOrder,
    inOrder_rep R f body l (fun i hi => hbody i (List.mem_range.1 ((hp.mem_iff).1 hi))) t,
    inOrder_rep R f body (List.range n) (fun i hi => hbody i (List.mem_range.1 hi)) t, hord l hp t]
  exact ⟨rfl, _, rfl⟩

end GoldilocksVerif.ParGen
