/-
  Field-level facts about the hand models of inv / div / exp (Model/Inv.lean).  Helper lemmas for C10.
-/
import GoldilocksVerif.Model.Inv
import GoldilocksVerif.Lemmas.Prime
set_option linter.unusedSimpArgs false
set_option linter.unusedTactic false
set_option linter.unreachableTactic false
namespace GoldilocksVerif
open Gen.Scalar Model

theorem den_toU64 (x : BitVec 64) : den (toU64__rE x) = den x := by
  apply den_of_mod; rw [Model.toU64_r_toNat, Nat.mod_mod]
theorem fromU64_eq (x : BitVec 64) : fromU64__rE x = x := rfl
theorem den_fromU64 (x : BitVec 64) : den (fromU64__rE x) = den x := by rw [fromU64_eq]

theorem den_stepVal (x y q : BitVec 64) : den (stepVal x y q) = den x - den q * den y := by
  unfold stepVal
  rw [den_toU64, den_sub_r, den_mul_r, den_fromU64, den_fromU64]

theorem den_P : den 18446744069414584321#64 = 0 := by
  have : den 18446744069414584321#64 = ((0 : Nat) : F) := den_of_mod _ 0 (by decide)
  simpa using this

theorem den_one : den 1#64 = 1 := by
  have : den 1#64 = ((1 : Nat) : F) := den_of_mod _ 1 (by decide)
  simpa using this
theorem den_zero : den 0#64 = 0 := by
  have : den 0#64 = ((0 : Nat) : F) := den_of_mod _ 0 (by decide)
  simpa using this

theorem invLoop_of_zero (t r newt newr : BitVec 64) (hn : newr.toNat < P) (hz : newr = 0#64) :
    invLoop t r newt newr hn = t := by
  subst hz; exact invLoop_zero _ _ _ _

/-- loop invariant of the extended Euclid: t·a = r, newt·a = newr in the field; gcd(r, newr) = 1 on integers.
    The result is an inverse of `a`; it is canonical whenever at least one iteration runs. -/
theorem invLoop_spec (a : F) : ∀ (k : Nat) (t r newt newr : BitVec 64) (hn : newr.toNat < P), newr.toNat = k →
    den t * a = den r → den newt * a = den newr → Nat.gcd r.toNat newr.toNat = 1 →
    den (invLoop t r newt newr hn) * a = 1 ∧ (newr ≠ 0#64 → (invLoop t r newt newr hn).toNat < P) := by
  intro k
  induction k using Nat.strong_induction_on with
  | _ k ih =>
    intro t r newt newr hn hk h1 h2 hg
    by_cases h0 : newr = 0#64
    · subst h0
      rw [invLoop_zero]
      refine ⟨?_, fun h => absurd rfl h⟩
      have hr1 : r.toNat = 1 := by simpa using hg
      rw [h1]
      have : den r = ((1 : Nat) : F) := den_of_mod _ 1 (by rw [hr1])
      simpa using this
    · rw [invLoop_succ t r newt newr hn h0]
      have hpos : 0 < newr.toNat := by
        have : newr.toNat ≠ 0 := fun h => h0 (BitVec.eq_of_toNat_eq (by simpa using h))
        omega
      have e_r' : (toU64__rE (fromU64__rE newr)).toNat = newr.toNat := by
        rw [Model.toU64_r_toNat]; exact Nat.mod_eq_of_lt hn
      have e_newr' : (stepVal r newr (fromU64__rE (r / newr))).toNat = r.toNat % newr.toNat :=
        stepVal_rem r newr hpos hn
      have i1 : den (toU64__rE (fromU64__rE newt)) * a = den (toU64__rE (fromU64__rE newr)) := by
        rw [den_toU64, den_toU64, den_fromU64, den_fromU64]; exact h2
      have i2 : den (stepVal t newt (fromU64__rE (r / newr))) * a = den (stepVal r newr (fromU64__rE (r / newr))) := by
        rw [den_stepVal, den_stepVal, sub_mul, h1, mul_assoc, h2]
      have ig : Nat.gcd (toU64__rE (fromU64__rE newr)).toNat (stepVal r newr (fromU64__rE (r / newr))).toNat = 1 := by
        rw [e_r', e_newr', Nat.gcd_comm, ← Nat.gcd_rec, Nat.gcd_comm]; exact hg
      have hlt : (stepVal r newr (fromU64__rE (r / newr))).toNat < k := by
        rw [e_newr', ← hk]; exact Nat.mod_lt _ hpos
      have key := ih _ hlt (toU64__rE (fromU64__rE newt)) (toU64__rE (fromU64__rE newr))
        (stepVal t newt (fromU64__rE (r / newr))) (stepVal r newr (fromU64__rE (r / newr)))
        (stepVal_lt r newr h0 hn) rfl i1 i2 ig
      refine ⟨key.1, fun _ => ?_⟩
      by_cases hz : stepVal r newr (fromU64__rE (r / newr)) = 0#64
      · -- the loop stops right after this iteration: the result is the canonicalised newt
        have e := invLoop_of_zero (toU64__rE (fromU64__rE newt)) (toU64__rE (fromU64__rE newr))
            (stepVal t newt (fromU64__rE (r / newr))) (stepVal r newr (fromU64__rE (r / newr)))
            (stepVal_lt r newr h0 hn) hz
        rw [e, Model.toU64_r_toNat]
        exact Nat.mod_lt _ (by decide)
      · exact key.2 hz

/-- the out-parameter overload of `toU64` (same text as the value-returning one) -/
theorem toU64_e_toNat (x : BitVec 64) : (toU64__eE x).toNat = x.toNat % P := Model.toU64_r_toNat x

/-- `Goldilocks::equal` compares the canonical representatives.  Independent of how the generated text names / orders the two
    canonical values and of the orientation of the `==`: both sides are moved to `Nat` and compared up to symmetry. -/
theorem equal_iff_mod (a b : BitVec 64) : equal a b = true ↔ a.toNat % P = b.toNat % P := by
  unfold equal
  -- (`simp` closes the goal itself when the two sides come out in the same orientation)
  simp only [beq_iff_eq, ← BitVec.toNat_inj, Model.toU64_r_toNat, toU64_e_toNat] <;> first | exact Iff.rfl | exact eq_comm

theorem isZero_iff (a : BitVec 64) : isZero a = true ↔ a.toNat % P = 0 := by
  unfold isZero
  rw [equal_iff_mod]
  have : (zero__r).toNat % P = 0 := by decide
  rw [this]

/-- inv: refusal exactly on the zero class; otherwise a canonical inverse -/
theorem inv_spec (a : BitVec 64) :
    (Model.inv a = none ↔ den a = 0) ∧
    (∀ r, Model.inv a = some r → den r * den a = 1 ∧ r.toNat < P) := by
  have hz : den a = 0 ↔ a.toNat % P = 0 := by
    constructor
    · intro h
      have : den a = ((0 : Nat) : F) := by simpa using h
      have := (ZMod.natCast_eq_natCast_iff' _ _ _).mp this
      simpa using this
    · intro h
      have : den a = ((0 : Nat) : F) := den_of_mod _ 0 (by simpa using h)
      simpa using this
  constructor
  · unfold Model.inv
    by_cases h : isZero a = true
    · simp only [h, if_true, true_iff]; exact hz.mpr ((isZero_iff a).mp h)
    · simp only [h, Bool.false_eq_true, if_false]
      constructor
      · intro hh; cases hh
      · intro hd; exact absurd ((isZero_iff a).mpr (hz.mp hd)) h
  · intro r hr
    unfold Model.inv at hr
    by_cases h : isZero a = true
    · simp [h] at hr
    · simp only [h, Bool.false_eq_true, if_false, Option.some.injEq] at hr
      have hnz : a.toNat % P ≠ 0 := fun hh => h ((isZero_iff a).mpr hh)
      have hlt : a.toNat % P < P := Nat.mod_lt _ (by decide)
      have hcop : Nat.gcd (18446744069414584321#64 : BitVec 64).toNat (toU64__rE a).toNat = 1 := by
        rw [Model.toU64_r_toNat]
        have hP : (18446744069414584321#64 : BitVec 64).toNat = P := by decide
        rw [hP]
        have : Nat.Coprime P (a.toNat % P) := by
          rw [Nat.Prime.coprime_iff_not_dvd P_prime]
          intro hd
          have := Nat.le_of_dvd (by omega) hd
          omega
        exact this
      have hne : toU64__rE a ≠ 0#64 := by
        intro hh
        have := congrArg BitVec.toNat hh
        rw [Model.toU64_r_toNat] at this
        exact hnz (by simpa using this)
      have key := invLoop_spec (den a) _ 0#64 18446744069414584321#64 1#64 (toU64__rE a)
        (by rw [Model.toU64_r_toNat]; exact hlt) rfl
        (by rw [den_zero, den_P]; ring) (by rw [den_one, den_toU64]; ring) hcop
      rw [← hr]
      exact ⟨by rw [den_fromU64]; exact key.1, key.2 hne⟩

/-! exp -/

theorem and_one_ne_zero (e : BitVec 64) : (e &&& 1#64 != 0#64) = decide (e.toNat % 2 = 1) := by
  have h : (e &&& 1#64).toNat = e.toNat % 2 := by
    rw [BitVec.toNat_and]
    show e.toNat &&& (2 ^ 1 - 1) = _
    rw [Nat.and_two_pow_sub_one_eq_mod]
  by_cases hb : e.toNat % 2 = 1
  · simp only [hb, decide_true, bne_iff_ne, ne_eq]
    intro hh
    have := congrArg BitVec.toNat hh
    rw [h, hb] at this
    simp at this
  · simp only [hb, decide_false, bne_eq_false_iff_eq]
    apply BitVec.eq_of_toNat_eq
    rw [h]
    have : e.toNat % 2 = 0 := by omega
    rw [this]; rfl

theorem expLoop_spec : ∀ (n : Nat) (result base e : BitVec 64), e.toNat < 2 ^ n →
    den (expLoop n result base e) = den result * den base ^ e.toNat := by
  intro n
  induction n with
  | zero =>
    intro result base e h
    have : e.toNat = 0 := by omega
    simp [expLoop, this]
  | succ n ih =>
    intro result base e h
    unfold expLoop
    simp only [and_one_ne_zero]
    have hsh : (e >>> 1).toNat = e.toNat / 2 := by
      rw [BitVec.toNat_ushiftRight, Nat.shiftRight_eq_div_pow]
    have hdec : e.toNat = 2 * (e.toNat / 2) + e.toNat % 2 := by omega
    by_cases hz : (e >>> 1) = 0#64
    · have hz' : ((e >>> 1) == 0#64) = true := by simpa using hz
      simp only [hz', if_true]
      have h0 : e.toNat / 2 = 0 := by rw [← hsh, hz]; rfl
      by_cases hb : e.toNat % 2 = 1
      · simp only [hb, decide_true, if_true]
        have : e.toNat = 1 := by omega
        rw [den_mul, this, pow_one]
      · simp only [hb, decide_false, Bool.false_eq_true, if_false]
        have : e.toNat = 0 := by omega
        rw [this, pow_zero, mul_one]
    · have hz' : ((e >>> 1) == 0#64) = false := by simpa using hz
      simp only [hz', Bool.false_eq_true, if_false]
      have hlt : (e >>> 1).toNat < 2 ^ n := by
        rw [hsh]; rw [Nat.pow_succ] at h; omega
      rw [ih _ _ _ hlt, den_mul, hsh]
      by_cases hb : e.toNat % 2 = 1
      · simp only [hb, decide_true, if_true]
        rw [den_mul]
        conv => rhs; rw [hdec, hb]
        rw [pow_add, pow_mul, pow_one]; ring
      · simp only [hb, decide_false, Bool.false_eq_true, if_false]
        have hb0 : e.toNat % 2 = 0 := by omega
        conv => rhs; rw [hdec, hb0]
        rw [Nat.add_zero, pow_mul]; ring

theorem exp_spec (b e : BitVec 64) : den (Model.exp b e) = den b ^ e.toNat := by
  unfold Model.exp
  rw [expLoop_spec 64 _ _ _ e.isLt]
  have : den one__r = 1 := den_one
  rw [this, one_mul]

end GoldilocksVerif
