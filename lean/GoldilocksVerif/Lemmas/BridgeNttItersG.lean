/-
  Bridge theorems, NTT_iters part 3 (shared lemmas + the pass loop for an ARBITRARY step function): comparisons of 64-bit
  words, the schedule arithmetic of the hand model (`stepMbp`, `stepInc`), and `passes_g`: a `while` loop whose step
  function makes one step of the hand model's `schedule.go` followed by `pass` (hypothesis `hstep`) and stops when
  `s > domainPow` (hypothesis `hstop`) is the fold of `pass` over the rest of the schedule.  The two hypotheses are proved
  for the translated step function where it is called (Lemmas/BridgeNttItersTop.lean).  By-name forms of the first round
  (`pass_step`, `pass_stop`, `passes_gen`: C12) are in Lemmas/BridgeNttIters.lean.
-/
import GoldilocksVerif.Lemmas.BridgeNttPassG
import GoldilocksVerif.Lemmas.NttSched

namespace GoldilocksVerif.BridgeNtt
open GoldilocksVerif Gen.NttGen

theorem lt_bv (a b : Nat) (ha : a < 2 ^ 64) (hb : b < 2 ^ 64) : (bv a < bv b) ↔ a < b := by
  rw [BitVec.lt_def, bv_toNat a ha, bv_toNat b hb]

theorem beq_bv (a b : Nat) (ha : a < 2 ^ 64) (hb : b < 2 ^ 64) : (bv a == bv b) = decide (a = b) := by
  rw [Bool.eq_iff_iff]
  simp only [beq_iff_eq, decide_eq_true_eq]
  constructor
  · intro h
    have := congrArg BitVec.toNat h
    rwa [bv_toNat a ha, bv_toNat b hb] at this
  · intro h; rw [h]

theorem shl_one_sub (t : Nat) (ht : t ≤ 30) : I32.toU64 (I32.shl (1 : Int) t - (1 : Int)) = bv (2 ^ t - 1) := by
  have h : (2 : Nat) ^ t ≤ 2 ^ 30 := Nat.pow_le_pow_right (by omega) ht
  have hp : 0 < 2 ^ t := Nat.pow_pos (by omega)
  have hw : I32.shl (1 : Int) t = ((2 ^ t : Nat) : Int) := by
    have := shl_one t ht
    -- recover the integer from the proof of `shl_one`
    have e : ((2 : Int) ^ t) = (((2 : Nat) ^ t : Nat) : Int) := by norm_cast
    unfold I32.shl I32.wrap
    rw [Int.one_mul, e]
    generalize (2 : Nat) ^ t = n at h ⊢
    have hn : n ≤ 1073741824 := h
    unfold Int.bmod
    have hm : ((n : Int) % ((4294967296 : Nat) : Int)) = (n : Int) := by
      apply Int.emod_eq_of_lt <;> omega
    rw [hm]
    have hlt : (n : Int) < (((4294967296 : Nat) : Int) + 1) / 2 := by omega
    rw [if_pos hlt]
  rw [hw]
  have : ((2 ^ t : Nat) : Int) - 1 = ((2 ^ t - 1 : Nat) : Int) := by omega
  rw [this, toU64_nat]

/-- the width of the pass that starts at stage `s` -/
def stepMbp (res count mbp : Nat) : Nat := if res > 0 ∧ count = res + 1 ∧ mbp > 1 then mbp - 1 else mbp
def stepInc (K s mbp' : Nat) : Nat := if s + mbp' ≤ K then mbp' else K - s + 1

theorem go_acc (d r : Nat) : ∀ (fuel s c m : Nat) (acc : List (Nat × Nat)),
    Model.Ntt.schedule.go d r fuel s c m acc = acc.reverse ++ Model.Ntt.schedule.go d r fuel s c m [] := by
  intro fuel
  induction fuel with
  | zero =>
    intro s c m acc
    rw [Model.Ntt.schedule.go, Model.Ntt.schedule.go]; simp
  | succ f ih =>
    intro s c m acc
    rw [Model.Ntt.sched_go_succ, Model.Ntt.sched_go_succ]
    by_cases h1 : s > d
    · rw [if_pos h1, if_pos h1]; simp
    · rw [if_neg h1, if_neg h1]
      dsimp only
      by_cases h2 : (if r > 0 ∧ c = r + 1 ∧ m > 1 then m - 1 else m) = 0
      · rw [if_pos h2, if_pos h2]; simp
      · rw [if_neg h2, if_neg h2, ih _ _ _ (_ :: acc), ih _ _ _ [_]]
        simp

theorem R2_swap (H : Heap) (A A2 : Nat) (hne : A ≠ A2) (x y : Block) : Heap.R2 H A A2 (x, y) = Heap.R2 H A2 A (y, x) := by
  unfold Heap.R2
  exact Heap.setBlock_comm _ _ _ _ _ hne

theorem lastInv_eq (s mbp' K : Nat) (inverse : Bool) (hsK : s ≤ K) :
    (!decide (s + stepInc K s mbp' ≤ K) && inverse) = !(decide (s + mbp' ≤ K) || !inverse) := by
  unfold stepInc
  by_cases h : s + mbp' ≤ K
  · rw [if_pos h]; simp [h]
  · rw [if_neg h]
    have : ¬ (s + (K - s + 1) ≤ K) := by omega
    simp [h, this]


/-- the schedule arithmetic of one iteration of the pass loop on 64-bit words (used by `nttIters_gen` and by the in-bounds proof of the pass loop) -/
theorem sched_arith (N K res mbp s count : Nat) (hK : K ≤ 30) (hN : N = 2 ^ K) (hs1 : 1 ≤ s) (hsK : s ≤ K) (hm1 : 1 ≤ mbp)
    (hm : mbp ≤ 64) (hres : res ≤ 64) (hcount : count ≤ 128) :
    (if ((decide (bv res > 0#64) && (bv count == bv res + 1#64)) && decide (bv mbp > 1#64)) = true
      then bv mbp - 1#64 else bv mbp) = bv (stepMbp res count mbp) ∧
    (if decide (bv s + bv (stepMbp res count mbp) ≤ bv K) = true then bv (stepMbp res count mbp) else bv K - bv s + 1#64) =
      bv (stepInc K s (stepMbp res count mbp)) ∧
    bv s - 1#64 = bv (s - 1) ∧ bv K - 1#64 = bv (K - 1) ∧
    I32.toU64 (I32.shl (1 : Int) (bv (s - 1)).toNat) = bv (2 ^ (s - 1)) ∧
    I32.toU64 (I32.shl (1 : Int) (bv (K - 1) - bv (s - 1)).toNat - (1 : Int)) = bv (2 ^ (K - s) - 1) ∧
    I32.toU64 (I32.shl (1 : Int) (bv (stepInc K s (stepMbp res count mbp))).toNat) = bv (2 ^ stepInc K s (stepMbp res count mbp)) ∧
    bv N / bv (2 ^ stepInc K s (stepMbp res count mbp)) = bv (N / 2 ^ stepInc K s (stepMbp res count mbp)) ∧
    (bv (N / 2 ^ stepInc K s (stepMbp res count mbp))).toNat = N / 2 ^ stepInc K s (stepMbp res count mbp) ∧
    decide (bv s ≤ bv K) = true ∧
    (1 ≤ stepMbp res count mbp ∧ stepMbp res count mbp ≤ 64) ∧
    (s + stepInc K s (stepMbp res count mbp) ≤ K + 1 ∧ stepInc K s (stepMbp res count mbp) ≤ K) := by
  have hN30 : N ≤ 2 ^ 30 := by rw [hN]; exact Nat.pow_le_pow_right (by omega) hK
  have hmbp' : (if ((decide (bv res > 0#64) && (bv count == bv res + 1#64)) && decide (bv mbp > 1#64)) = true
      then bv mbp - 1#64 else bv mbp) = bv (stepMbp res count mbp) := by
    have c1 : decide (bv res > 0#64) = decide (res > 0) := by
      rw [decide_eq_decide]; show bv 0 < bv res ↔ _; rw [lt_bv _ _ (by omega) (by omega)]
    have c2 : (bv count == bv res + 1#64) = decide (count = res + 1) := by
      rw [bv_one, bv_add, beq_bv _ _ (by omega) (by omega)]
    have c3 : decide (bv mbp > 1#64) = decide (mbp > 1) := by
      rw [decide_eq_decide]; show bv 1 < bv mbp ↔ _; rw [lt_bv _ _ (by omega) (by omega)]
    rw [c1, c2, c3]
    unfold stepMbp
    by_cases h : res > 0 ∧ count = res + 1 ∧ mbp > 1
    · rw [if_pos h]
      obtain ⟨h1, h2, h3⟩ := h
      simp only [h1, h2, h3, decide_true, Bool.and_self, if_true]
      rw [bv_one, bv_sub _ _ (by omega) (by omega)]
    · rw [if_neg h]
      have : ((decide (res > 0) && decide (count = res + 1)) && decide (mbp > 1)) = false := by
        rw [Bool.and_eq_false_iff, Bool.and_eq_false_iff]
        by_cases h1 : res > 0
        · by_cases h2 : count = res + 1
          · right; simp; exact Nat.le_of_not_lt (fun h3 => h ⟨h1, h2, h3⟩)
          · left; right; simp [h2]
        · left; left; simp [h1]
      rw [this]; simp
  have hm'1 : 1 ≤ stepMbp res count mbp ∧ stepMbp res count mbp ≤ 64 := by
    unfold stepMbp
    by_cases h : res > 0 ∧ count = res + 1 ∧ mbp > 1
    · rw [if_pos h]; omega
    · rw [if_neg h]; omega
  refine ⟨hmbp', ?_⟩
  generalize stepMbp res count mbp = mbp' at hm'1 ⊢
  have hcs : decide (bv s + bv mbp' ≤ bv K) = decide (s + mbp' ≤ K) := by
    rw [bv_add, decide_eq_decide, le_bv _ _ (by omega) (by omega)]
  have hsInc : (if decide (bv s + bv mbp' ≤ bv K) = true then bv mbp' else bv K - bv s + 1#64) = bv (stepInc K s mbp') := by
    rw [hcs]
    unfold stepInc
    by_cases h : s + mbp' ≤ K
    · simp only [h, decide_true, if_true]
    · simp only [h, decide_false, if_false, Bool.false_eq_true]
      rw [bv_sub _ _ hsK (by omega), bv_one, bv_add]
  have hsInc1 : s + stepInc K s mbp' ≤ K + 1 ∧ stepInc K s mbp' ≤ K := by
    unfold stepInc
    by_cases h : s + mbp' ≤ K
    · rw [if_pos h]; omega
    · rw [if_neg h]; omega
  refine ⟨hsInc, ?_⟩
  generalize stepInc K s mbp' = sInc at hsInc1 ⊢
  have hrs : bv s - 1#64 = bv (s - 1) := by rw [bv_one, bv_sub _ _ hs1 (by omega)]
  have hre : bv K - 1#64 = bv (K - 1) := by rw [bv_one, bv_sub _ _ (by omega) (by omega)]
  have hrb : I32.toU64 (I32.shl (1 : Int) (bv (s - 1)).toNat) = bv (2 ^ (s - 1)) := by
    rw [bv_toNat _ (by omega), shl_one _ (by omega)]
  have hrm : I32.toU64 (I32.shl (1 : Int) (bv (K - 1) - bv (s - 1)).toNat - (1 : Int)) = bv (2 ^ (K - s) - 1) := by
    rw [bv_sub _ _ (by omega) (by omega), bv_toNat _ (by omega)]
    have : K - 1 - (s - 1) = K - s := by omega
    rw [this, shl_one_sub _ (by omega)]
  have hbs : I32.toU64 (I32.shl (1 : Int) (bv sInc).toNat) = bv (2 ^ sInc) := by
    rw [bv_toNat _ (by omega), shl_one _ (by omega)]
  have h2s : 2 ^ sInc ≤ N := by rw [hN]; exact Nat.pow_le_pow_right (by omega) hsInc1.2
  have hnb : bv N / bv (2 ^ sInc) = bv (N / 2 ^ sInc) := bv_div _ _ (by omega) (by omega)
  have hnbN : (bv (N / 2 ^ sInc)).toNat = N / 2 ^ sInc :=
    bv_toNat _ (Nat.lt_of_le_of_lt (Nat.div_le_self _ _) (by omega))
  have hle : decide (bv s ≤ bv K) = true := by
    rw [decide_eq_true_eq, le_bv _ _ (by omega) (by omega)]; exact hsK
  exact ⟨hrs, hre, hrb, hrm, hbs, hnb, hnbN, hle, hm'1, hsInc1⟩

/-- the state of the translated pass loop: (maxBatchPow, heap, tmp, a2, a, s, count) -/
abbrev PassSt := BitVec 64 × Heap × Ptr × Ptr × Ptr × BitVec 64 × BitVec 64

section passes
variable (H : Heap) (self : NTT_Goldilocks) (o : Model.Ntt.Obj)
variable (N NC K res : Nat) (inverse extend : Bool) (hK : K ≤ 30)
variable (step : PassSt → Option (Bool × PassSt))
variable (hstep : ∀ (A A2 : Nat), A ≠ A2 → A < H.size → A2 < H.size → ObjFrame self A → ObjFrame self A2 →
    ∀ (mbp s count : Nat), 1 ≤ s → s ≤ K → 1 ≤ mbp → mbp ≤ 64 → count ≤ 128 → ∀ (tmp : Ptr) (st : Block × Block),
    step (bv mbp, Heap.R2 H A A2 st, tmp, ⟨A2, 0⟩, ⟨A, 0⟩, bv s, bv count) =
      some (true, (bv (stepMbp res count mbp),
        Heap.R2 H A A2 (Model.Ntt.iter (N / 2 ^ stepInc K s (stepMbp res count mbp)) st
          (Model.Ntt.passBatch o N K NC s (stepInc K s (stepMbp res count mbp))
            (!(decide (s + stepMbp res count mbp ≤ K) || !inverse)) extend)),
        ⟨A2, 0⟩, ⟨A, 0⟩, ⟨A2, 0⟩, bv (s + stepMbp res count mbp), bv (count + 1))))
variable (hstop : ∀ (mbp s count : Nat), K < s → s < 2 ^ 64 → ∀ (hp : Heap) (tmp a2 a : Ptr),
    step (bv mbp, hp, tmp, a2, a, bv s, bv count) = some (false, (bv mbp, hp, tmp, a2, a, bv s, bv count)))

include hK hstep hstop in
/-- **the pass loop** = the fold of the hand model's `pass` over the rest of the schedule; the pointers `a`, `a2` end up
    swapped iff the flag of the model is flipped -/
theorem passes_g (hres : res ≤ 64) : ∀ (gf : Nat) (A A2 : Nat), A ≠ A2 → A < H.size → A2 < H.size → ObjFrame self A →
    ObjFrame self A2 → ∀ (mbp s count : Nat) (flag : Bool) (tmp : Ptr) (st : Block × Block) (F : Nat),
    K + 1 - s ≤ gf → gf < F → 1 ≤ s → s ≤ K + 65 → 1 ≤ mbp → mbp ≤ 64 → count + gf ≤ 128 →
    ∃ (A' A2' : Nat) (tmp' : Ptr) (m' s' c' : Nat),
      Loop.whileM step F
          (bv mbp, Heap.R2 H A A2 st, tmp, ⟨A2, 0⟩, ⟨A, 0⟩, bv s, bv count) =
        some (bv m', Heap.R2 H A' A2'
          (((Model.Ntt.schedule.go K res gf s count mbp []).foldl (Model.Ntt.pass o N K NC inverse extend) (st.1, st.2, flag)).1,
           ((Model.Ntt.schedule.go K res gf s count mbp []).foldl (Model.Ntt.pass o N K NC inverse extend) (st.1, st.2, flag)).2.1),
          tmp', ⟨A2', 0⟩, ⟨A', 0⟩, bv s', bv c') ∧
      ((((Model.Ntt.schedule.go K res gf s count mbp []).foldl (Model.Ntt.pass o N K NC inverse extend) (st.1, st.2, flag)).2.2 = flag
          ∧ A' = A ∧ A2' = A2) ∨
       (((Model.Ntt.schedule.go K res gf s count mbp []).foldl (Model.Ntt.pass o N K NC inverse extend) (st.1, st.2, flag)).2.2 = !flag
          ∧ A' = A2 ∧ A2' = A)) := by
  intro gf
  induction gf with
  | zero =>
    intro A A2 hne hA hA2 hfr hfr2 mbp s count flag tmp st F h1 h2 hs1 hs65 hm1 hm hc
    obtain ⟨F', rfl⟩ : ∃ F', F = F' + 1 := ⟨F - 1, by omega⟩
    refine ⟨A, A2, tmp, mbp, s, count, ?_, Or.inl ⟨?_, rfl, rfl⟩⟩
    · rw [Loop.whileM_stop _ _ _ _ (hstop mbp s count (by omega) (by omega) _ _ _ _)]
      rw [Model.Ntt.schedule.go]
      rfl
    · rw [Model.Ntt.schedule.go]; rfl
  | succ gf ih =>
    intro A A2 hne hA hA2 hfr hfr2 mbp s count flag tmp st F h1 h2 hs1 hs65 hm1 hm hc
    obtain ⟨F', rfl⟩ : ∃ F', F = F' + 1 := ⟨F - 1, by omega⟩
    by_cases hsK : K < s
    · refine ⟨A, A2, tmp, mbp, s, count, ?_, Or.inl ⟨?_, rfl, rfl⟩⟩
      · rw [Loop.whileM_stop _ _ _ _ (hstop mbp s count hsK (by omega) _ _ _ _)]
        rw [Model.Ntt.sched_go_done _ _ _ _ _ _ _ hsK]
        rfl
      · rw [Model.Ntt.sched_go_done _ _ _ _ _ _ _ hsK]; rfl
    · have hsK' : s ≤ K := by omega
      have hstep := hstep A A2 hne hA hA2 hfr hfr2 mbp s count hs1 hsK' hm1 hm (by omega) tmp st
      have hmb : 1 ≤ stepMbp res count mbp ∧ stepMbp res count mbp ≤ 64 := by
        unfold stepMbp
        by_cases h : res > 0 ∧ count = res + 1 ∧ mbp > 1
        · rw [if_pos h]; omega
        · rw [if_neg h]; omega
      -- the hand model's schedule makes the same step
      have hgo : Model.Ntt.schedule.go K res (gf + 1) s count mbp [] =
          (s, stepInc K s (stepMbp res count mbp)) ::
            Model.Ntt.schedule.go K res gf (s + stepMbp res count mbp) (count + 1) (stepMbp res count mbp) [] := by
        rw [Model.Ntt.sched_go_succ, if_neg (by omega)]
        dsimp only
        have e1 : (if res > 0 ∧ count = res + 1 ∧ mbp > 1 then mbp - 1 else mbp) = stepMbp res count mbp := rfl
        rw [e1, if_neg (by omega), go_acc]
        rfl
      rw [hgo, List.foldl_cons]
      have hpass : Model.Ntt.pass o N K NC inverse extend (st.1, st.2, flag) (s, stepInc K s (stepMbp res count mbp)) =
          ((Model.Ntt.iter (N / 2 ^ stepInc K s (stepMbp res count mbp)) st
            (Model.Ntt.passBatch o N K NC s (stepInc K s (stepMbp res count mbp))
              (!(decide (s + stepMbp res count mbp ≤ K) || !inverse)) extend)).2,
           (Model.Ntt.iter (N / 2 ^ stepInc K s (stepMbp res count mbp)) st
            (Model.Ntt.passBatch o N K NC s (stepInc K s (stepMbp res count mbp))
              (!(decide (s + stepMbp res count mbp ≤ K) || !inverse)) extend)).1, !flag) := by
        unfold Model.Ntt.pass
        dsimp only
        rw [lastInv_eq s _ K inverse hsK']
      rw [hpass]
      generalize Model.Ntt.iter (N / 2 ^ stepInc K s (stepMbp res count mbp)) st
            (Model.Ntt.passBatch o N K NC s (stepInc K s (stepMbp res count mbp))
              (!(decide (s + stepMbp res count mbp ≤ K) || !inverse)) extend) = r at hstep ⊢
      obtain ⟨A', A2', tmp', m', s', c', hw, hd⟩ := ih A2 A (fun e => hne e.symm) hA2 hA hfr2 hfr (stepMbp res count mbp)
        (s + stepMbp res count mbp) (count + 1) (!flag) ⟨A2, 0⟩ (r.2, r.1) F' (by omega) (by omega) (by omega) (by omega)
        hmb.1 hmb.2 (by omega)
      refine ⟨A', A2', tmp', m', s', c', ?_, ?_⟩
      · rw [Loop.whileM_next _ _ _ _ hstep]
        have : Heap.R2 H A A2 r = Heap.R2 H A2 A (r.2, r.1) := R2_swap H A A2 hne r.1 r.2
        rw [this]
        exact hw
      · rcases hd with ⟨e, ea, eb⟩ | ⟨e, ea, eb⟩
        · exact Or.inr ⟨e, ea, eb⟩
        · exact Or.inl ⟨by rw [e]; simp, ea, eb⟩

end passes

end GoldilocksVerif.BridgeNtt
