/-
  Bridge theorems, part 1: the small functions TRANSLATED from ntt_goldilocks.hpp / .cpp (Gen/NttGen.lean, heap mode) equal
  the corresponding pieces of the hand model Model/Ntt.lean:  log2, intt_idx, BR, root.
  Re-checked against the regenerated Gen/NttGen.lean on every run.
-/
import GoldilocksVerif.Gen.NttGen
import GoldilocksVerif.Model.Ntt
import GoldilocksVerif.Lemmas.HeapL

namespace GoldilocksVerif.BridgeNtt
open GoldilocksVerif Gen.NttGen

/-! ### `NTT_Goldilocks::log2` -/

/-- fuel from which the `while (size != 1)` loop of `log2` cannot run out: 63 halvings + the last test -/
def log2Fuel : Nat := 64

theorem log2_loop (fuel : Nat) : ∀ (size : BitVec 64) (res : BitVec 32), size ≠ 0#64 → Nat.log2 size.toNat < fuel →
    res.toNat + Nat.log2 size.toNat < 2 ^ 32 →
    ∃ r : BitVec 32, Loop.whileM NTT_log2_loop1 fuel (size, res) = some (1#64, r) ∧
      r.toNat = res.toNat + Nat.log2 size.toNat := by
  induction fuel with
  | zero => intro size res _ h; omega
  | succ f ih =>
    intro size res hne hf hb
    by_cases h1 : size = 1#64
    · subst h1
      refine ⟨res, ?_, ?_⟩
      · rw [Loop.whileM_succ]; simp [NTT_log2_loop1]
      · have : Nat.log2 (1#64 : BitVec 64).toNat = 0 := by decide
        rw [this]; omega
    · have hn0 : size.toNat ≠ 0 := fun e => hne (BitVec.eq_of_toNat_eq (by simpa using e))
      have hn1 : size.toNat ≠ 1 := fun e => h1 (BitVec.eq_of_toNat_eq (by simpa using e))
      have h2 : 2 ≤ size.toNat := by omega
      have hl : Nat.log2 size.toNat = Nat.log2 (size.toNat / 2) + 1 := by
        rw [Nat.log2_def size.toNat]; simp [h2]
      have hsh : (size >>> 1).toNat = size.toNat / 2 := by
        rw [BitVec.toNat_ushiftRight, Nat.shiftRight_eq_div_pow]
      have hne' : size >>> 1 ≠ 0#64 := by
        intro e
        have := congrArg BitVec.toNat e
        rw [hsh] at this
        simp at this
        omega
      have hr : (res + 1#32).toNat = res.toNat + 1 := by
        rw [BitVec.toNat_add]
        have : (1#32 : BitVec 32).toNat = 1 := by decide
        rw [this]
        apply Nat.mod_eq_of_lt
        omega
      obtain ⟨r, hw, hrv⟩ := ih (size >>> 1) (res + 1#32) hne' (by rw [hsh]; omega) (by rw [hsh, hr]; omega)
      refine ⟨r, ?_, ?_⟩
      · rw [Loop.whileM_succ]
        have hstep : NTT_log2_loop1 (size, res) = some (true, (size >>> 1, res + 1#32)) := by
          simp [NTT_log2_loop1, h1]
        rw [hstep]
        exact hw
      · rw [hrv, hsh, hr, hl]; omega

/-- generated `log2` = `Nat.log2` (the hand model's `log2`); `size = 0` is the failed `assert(size != 0)` -/
theorem log2_gen (fuel : Nat) (hf : log2Fuel ≤ fuel) (size : BitVec 64) (h : size ≠ 0#64) :
    ∃ r : BitVec 32, NTT_log2 fuel size = some r ∧ r.toNat = Model.Ntt.log2 size.toNat := by
  have hlt : Nat.log2 size.toNat < 64 := by
    have hn0 : size.toNat ≠ 0 := fun e => h (BitVec.eq_of_toNat_eq (by simpa using e))
    rw [Nat.log2_lt hn0]
    exact size.isLt
  obtain ⟨r, hw, hr⟩ := log2_loop fuel size 0#32 h (by unfold log2Fuel at hf; omega) (by simp; omega)
  refine ⟨r, ?_, ?_⟩
  · unfold NTT_log2
    have hb : (size != 0#64) = true := by simp [h]
    rw [if_pos hb]
    simp only []
    rw [hw]
    rfl
  · rw [hr]; simp [Model.Ntt.log2]

theorem log2_gen_zero (fuel : Nat) : NTT_log2 fuel 0#64 = none := by
  unfold NTT_log2
  simp

/-- the value, as a 32-bit word -/
theorem log2_gen_eq (fuel : Nat) (hf : log2Fuel ≤ fuel) (size : BitVec 64) (h : size ≠ 0#64) :
    NTT_log2 fuel size = some (BitVec.ofNat 32 (Model.Ntt.log2 size.toNat)) := by
  obtain ⟨r, hr, hv⟩ := log2_gen fuel hf size h
  rw [hr]
  congr 1
  apply BitVec.eq_of_toNat_eq
  rw [hv, BitVec.toNat_ofNat]
  symm
  apply Nat.mod_eq_of_lt
  have hn0 : size.toNat ≠ 0 := fun e => h (BitVec.eq_of_toNat_eq (by simpa using e))
  have : Nat.log2 size.toNat < 64 := by rw [Nat.log2_lt hn0]; exact size.isLt
  simp only [Model.Ntt.log2]
  omega

/-! ### `intt_idx` -/

/-- generated `intt_idx` on `int` = the hand model's `inttIdx` on Nat, for 0 ≤ i ≤ N -/
theorem intt_idx_gen (i N : Nat) (h : i ≤ N) : NTT_intt_idx (i : Int) (N : Int) = ((Model.Ntt.inttIdx i N : Nat) : Int) := by
  unfold NTT_intt_idx Model.Ntt.inttIdx
  by_cases h0 : i = 0
  · subst h0; simp
  · have h1 : ¬ ((N : Int) - (i : Int) = (N : Int)) := by omega
    have h2 : ¬ (N - i = N) := by omega
    simp [h1, h2]
    omega

/-! ### `BR` -/

/-- generated `BR` = the hand model's `br` (the same five mask-and-shift lines), for domainPow ≤ 32 -/
theorem BR_gen (x dp : BitVec 64) (h : dp.toNat ≤ 32) : (BR x dp).toNat = Model.Ntt.br x.toNat dp.toNat := by
  have hs : (32#64 - dp).toNat = 32 - dp.toNat := by
    rw [BitVec.toNat_sub]
    have : (32#64 : BitVec 64).toNat = 32 := by decide
    rw [this]
    omega
  unfold BR Model.Ntt.br
  simp only [hs, BitVec.ofNat_toNat, BitVec.setWidth_eq]

/-! ### `root` -/

/-- generated `root` reads the hand model's `root` when the block of `roots` holds the model's table -/
theorem root_gen (hp : Heap) (self : NTT_Goldilocks) (o : Model.Ntt.Obj) (dp : BitVec 32) (idx : BitVec 64)
    (hroots : hp.block self.roots.blk = o.roots) (hoff : self.roots.off = 0) (hs : self.s.toNat = o.s)
    (hdp : dp.toNat ≤ o.s) (hidx : idx.toNat * 2 ^ (o.s - dp.toNat) < 2 ^ 64) :
    NTT_root hp self dp idx = Model.Ntt.root o dp.toNat idx.toNat := by
  unfold NTT_root Model.Ntt.root
  rw [Heap.get_def, hroots, hoff]
  have h1 : (self.s - dp).toNat = o.s - dp.toNat := by
    rw [BitVec.toNat_sub, hs]
    have := dp.isLt
    have := self.s.isLt
    omega
  have h2 : (idx <<< (o.s - dp.toNat)).toNat = idx.toNat * 2 ^ (o.s - dp.toNat) := by
    rw [BitVec.toNat_shiftLeft, Nat.shiftLeft_eq]
    exact Nat.mod_eq_of_lt hidx
  rw [h1, h2, Nat.zero_add]

end GoldilocksVerif.BridgeNtt
