/-
  Bridge theorems, NTT_iters part 1 (shared definitions + loop lemmas that do not name a lifted loop body):
  `ObjRep` (generated object state + heap represent the hand model's `Obj`), `ObjFrame`, the `bv n = BitVec.ofNat 64 n`
  arithmetic (sums and products commute with `ofNat` unconditionally; quotients / remainders / masks / shifts and the
  final `.toNat` need the small bounds), and the butterfly / stage loops for an ARBITRARY body with a semantic hypothesis.
  The hypotheses are discharged where the loops are called (Lemmas/BridgeNttItersTop.lean), after unfolding, so that no
  statement depends on the parameter list the translator gives a lifted loop body.  The by-name forms of the first round
  (`bfly_loop`, `stageStep_gen`, `stage_gen`, `batchStages_gen`: used for C12) are in Lemmas/BridgeNttStage.lean.
-/
import GoldilocksVerif.Lemmas.BridgeNttRevPermG

namespace GoldilocksVerif.BridgeNtt
open GoldilocksVerif Gen.NttGen

/-! ### the object: generated state + heap represent the hand model's `Obj` -/

/-- the generated object state `self` with the heap `hp` represents the hand model's object `o` -/
structure ObjRep (hp : Heap) (obj : NTT_Goldilocks) (o : Model.Ntt.Obj) : Prop where
  hs : obj.s.toNat = o.s
  roots : hp.block obj.roots.blk = o.roots
  roots_off : obj.roots.off = 0
  pti : hp.block obj.powTwoInv.blk = o.powTwoInv
  pti_off : obj.powTwoInv.off = 0
  ext : obj.extension = (o.extension : Int)
  cache : match o.rcache with
    | none => obj.r = Ptr.null
    | some (n, r, r_) => obj.r ≠ Ptr.null ∧ obj.r_N.toNat = n ∧ hp.block obj.r.blk = r ∧ obj.r.off = 0 ∧
        hp.block obj.r_.blk = r_ ∧ obj.r_.off = 0

theorem bind_some_id {α : Type} (x : Option α) : (x.bind fun a => some a) = x := by cases x <;> rfl

/-! ### `ofNat` arithmetic -/

abbrev bv (n : Nat) : BitVec 64 := BitVec.ofNat 64 n

theorem bv_self (x : BitVec 64) : x = bv x.toNat := by simp [bv]
theorem bv_toNat (n : Nat) (h : n < 2 ^ 64) : (bv n).toNat = n := ofNat_toNat_lt n h
theorem bv_add (a b : Nat) : bv a + bv b = bv (a + b) := (BitVec.ofNat_add a b).symm
theorem bv_mul (a b : Nat) : bv a * bv b = bv (a * b) := (BitVec.ofNat_mul a b).symm
theorem bv_div (a b : Nat) (ha : a < 2 ^ 64) (hb : b < 2 ^ 64) : bv a / bv b = bv (a / b) := by
  apply BitVec.eq_of_toNat_eq
  rw [BitVec.toNat_udiv, bv_toNat a ha, bv_toNat b hb, bv_toNat _ (Nat.lt_of_le_of_lt (Nat.div_le_self a b) ha)]
theorem bv_mod (a b : Nat) (ha : a < 2 ^ 64) (hb : b < 2 ^ 64) : bv a % bv b = bv (a % b) := by
  apply BitVec.eq_of_toNat_eq
  rw [BitVec.toNat_umod, bv_toNat a ha, bv_toNat b hb, bv_toNat _ (Nat.lt_of_le_of_lt (Nat.mod_le a b) ha)]
theorem bv_mask (j t : Nat) (hj : j < 2 ^ 64) (ht : t < 64) : bv j &&& bv (2 ^ t - 1) = bv (j % 2 ^ t) := by
  have h2 : 2 ^ t < 2 ^ 64 := Nat.pow_lt_pow_right (by omega) ht
  apply BitVec.eq_of_toNat_eq
  rw [BitVec.toNat_and, bv_toNat j hj, bv_toNat _ (by omega), Nat.and_two_pow_sub_one_eq_mod,
    bv_toNat _ (Nat.lt_of_le_of_lt (Nat.mod_le _ _) hj)]
theorem bv_shr (j t : Nat) (hj : j < 2 ^ 64) : bv j >>> t = bv (j / 2 ^ t) := by
  apply BitVec.eq_of_toNat_eq
  rw [BitVec.toNat_ushiftRight, bv_toNat j hj, Nat.shiftRight_eq_div_pow,
    bv_toNat _ (Nat.lt_of_le_of_lt (Nat.div_le_self _ _) hj)]
theorem bv_one : (1#64 : BitVec 64) = bv 1 := rfl
theorem bv_two : (2#64 : BitVec 64) = bv 2 := rfl

/-- `(u_int64_t)(1 << t)` computed on `int`, t ≤ 30 -/
theorem shl_one (t : Nat) (ht : t ≤ 30) : I32.toU64 (I32.shl (1 : Int) t) = bv (2 ^ t) := by
  have h : (2 : Nat) ^ t ≤ 2 ^ 30 := Nat.pow_le_pow_right (by omega) ht
  have hw : I32.shl (1 : Int) t = ((2 ^ t : Nat) : Int) := by
    have e : ((2 : Int) ^ t) = (((2 : Nat) ^ t : Nat) : Int) := by norm_cast
    unfold I32.shl I32.wrap
    rw [Int.one_mul, e]
    generalize (2 : Nat) ^ t = n at h ⊢
    have hn : n ≤ 1073741824 := h
    unfold Int.bmod
    have hm : ((n : Int) % ((4294967296 : Nat) : Int)) = (n : Int) := by
      apply Int.emod_eq_of_lt <;> omega
    rw [hm]
    have hlt : (n : Int) < (((4294967296 : Nat) : Int) + 1) / 2 := by omega
    rw [if_pos hlt]
  rw [hw]
  simp only [I32.toU64, BitVec.ofInt_natCast, bv]

theorem bv_sub (a b : Nat) (h : b ≤ a) (ha : a < 2 ^ 64) : bv a - bv b = bv (a - b) := by
  apply BitVec.eq_of_toNat_eq
  rw [BitVec.toNat_sub, bv_toNat a ha, bv_toNat b (by omega), bv_toNat _ (by omega)]
  omega

/-- the blocks the object owns are other blocks than `A` -/
def ObjFrame (obj : NTT_Goldilocks) (A : Nat) : Prop :=
  A ≠ obj.roots.blk ∧ A ≠ obj.powTwoInv.blk ∧ A ≠ obj.r.blk ∧ A ≠ obj.r_.blk

/-- a heap that differs from `X0` in blocks the object does not own still represents the object -/
theorem ObjRep.frame {X0 X : Heap} {obj : NTT_Goldilocks} {o : Model.Ntt.Obj} (h : ObjRep X0 obj o)
    (hfr : ∀ c, c = obj.roots.blk ∨ c = obj.powTwoInv.blk ∨ c = obj.r.blk ∨ c = obj.r_.blk → X.block c = X0.block c) :
    ObjRep X obj o := by
  refine ⟨h.hs, ?_, h.roots_off, ?_, h.pti_off, h.ext, ?_⟩
  · rw [hfr _ (Or.inl rfl)]; exact h.roots
  · rw [hfr _ (Or.inr (Or.inl rfl))]; exact h.pti
  · have hc := h.cache
    cases hrc : o.rcache with
    | none => rw [hrc] at hc; exact hc
    | some v =>
      obtain ⟨n, r, r_⟩ := v
      rw [hrc] at hc
      obtain ⟨c1, c2, c3, c4, c5, c6⟩ := hc
      refine ⟨c1, c2, ?_, c4, ?_, c6⟩
      · rw [hfr _ (Or.inr (Or.inr (Or.inl rfl)))]; exact c3
      · rw [hfr _ (Or.inr (Or.inr (Or.inr rfl)))]; exact c5

theorem ObjRep.frame1 {X0 X : Heap} {obj : NTT_Goldilocks} {o : Model.Ntt.Obj} {A : Nat} (h : ObjRep X0 obj o)
    (hA : ObjFrame obj A) (hfr : ∀ c, c ≠ A → X.block c = X0.block c) : ObjRep X obj o := by
  obtain ⟨a1, a2, a3, a4⟩ := hA
  apply h.frame
  rintro c (rfl | rfl | rfl | rfl)
  · exact hfr _ (fun e => a1 e.symm)
  · exact hfr _ (fun e => a2 e.symm)
  · exact hfr _ (fun e => a3 e.symm)
  · exact hfr _ (fun e => a4 e.symm)

theorem row_lt (U M i : Nat) (hU : 0 < U) (hi : i < M * U) : i / U * (U * 2) + i % U + U < M * (U * 2) := by
  have hq : i / U < M := Nat.div_lt_of_lt_mul (by rw [Nat.mul_comm]; exact hi)
  have hr : i % U < U := Nat.mod_lt i hU
  have := mul_le_of_lt _ _ (U * 2) hq
  omega

theorem pow_stage (sInc si : Nat) (h : si < sInc) : 2 ^ sInc = 2 ^ (sInc - si - 1) * (2 ^ si * 2) := by
  rw [← Nat.pow_succ, ← Nat.pow_add]; congr 1; omega


/-! ### loops over one block, for an arbitrary body -/

/-- the column loop of one butterfly: any body that performs the hand model's `bflyStep` on block `A` -/
theorem bfly_loop_g (A o1 o2 nc : Nat) (w : BitVec 64) (X : Heap) (hA : A < X.size)
    (body : Nat → Heap → Option Heap)
    (hbody : ∀ k (Y : Heap), k < nc → A < Y.size →
      body k Y = some (Y.setBlock A (Model.Ntt.bflyStep w o1 o2 k (Y.block A)))) :
    Loop.rangeM 0 nc 1 X body = some (X.setBlock A (Model.Ntt.bfly (X.block A) w o1 o2 nc)) := by
  rw [Heap.rangeM_block X A hA (Model.Ntt.bflyStep w o1 o2) _ 0 nc
    (fun k Y _ hk hs _ => hbody k Y hk (by omega))]
  rfl

/-- a counted loop that changes block `A` only, as the function `f` of its content, and may read the object's tables:
    every state it reaches still represents the object -/
theorem block_loop_g (X : Heap) (self : NTT_Goldilocks) (o : Model.Ntt.Obj) (A : Nat) (hA : A < X.size)
    (hrep : ObjRep X self o) (hfr : ObjFrame self A) (n : Nat) (f : Nat → Block → Block)
    (body : Nat → Heap → Option Heap)
    (hbody : ∀ i (Y : Heap), i < n → A < Y.size → ObjRep Y self o → body i Y = some (Y.setBlock A (f i (Y.block A)))) :
    Loop.rangeM 0 n 1 X body = some (X.setBlock A (Model.Ntt.iter n (X.block A) f)) := by
  rw [Heap.rangeM_block X A hA f _ 0 n
    (fun i Y _ hi hs hY => hbody i Y hi (by omega) (hrep.frame1 hfr hY))]
  rfl

/-- the generated `root` on 64-bit words = the hand model's `root` -/
theorem root_bv (X : Heap) (self : NTT_Goldilocks) (o : Model.Ntt.Obj) (hrep : ObjRep X self o) (dp j : Nat)
    (hdp : dp ≤ o.s) (hos : o.s ≤ 32) (hj : j < 2 ^ dp) :
    NTT_root X self (BitVec.setWidth 32 (bv dp)) (bv j) = Model.Ntt.root o dp j := by
  have hp : 2 ^ dp ≤ 2 ^ 32 := Nat.pow_le_pow_right (by omega) (by omega)
  have edp : (BitVec.setWidth 32 (bv dp)).toNat = dp := by
    rw [BitVec.toNat_setWidth, bv_toNat _ (by omega)]
    exact Nat.mod_eq_of_lt (by omega)
  have hJ64 : j < 2 ^ 64 := by omega
  rw [root_gen X self o _ _ hrep.roots hrep.roots_off hrep.hs (by rw [edp]; exact hdp)
    (by
      rw [edp, bv_toNat _ hJ64]
      have h2 : 2 ^ dp * 2 ^ (o.s - dp) = 2 ^ o.s := by
        rw [← Nat.pow_add]; congr 1; omega
      have h3 : 2 ^ o.s ≤ 2 ^ 32 := Nat.pow_le_pow_right (by omega) hos
      have h4 : j * 2 ^ (o.s - dp) ≤ 2 ^ dp * 2 ^ (o.s - dp) := Nat.mul_le_mul_right _ (by omega)
      omega),
    edp, bv_toNat _ hJ64]

/-- the twiddle index stays below half the stage size -/
theorem twIdx_lt (S si b B RS RE RB i : Nat) (hS : 1 ≤ S) : Model.Ntt.twIdx S si b B RS RE RB i < 2 ^ (S + si) / 2 := by
  show _ % (2 ^ (S + si) / 2) < _
  apply Nat.mod_lt
  have : 2 ^ (S + si) = 2 ^ (S + si - 1) * 2 := by
    rw [← Nat.pow_succ]; congr 1; omega
  rw [this, Nat.mul_div_cancel _ (by omega)]
  exact Nat.pow_pos (by omega)

end GoldilocksVerif.BridgeNtt
