/-
  Bridge: the TRANSLATED `Goldilocks3::inv` (both overloads) and `Goldilocks3::div` (Gen/ExtInvGen.lean, regenerated from
  goldilocks_cubic_extension.hpp on every run) in terms of the hand models of Model/Ext.lean, for every fuel ≥ `invFuel`
  (= 129: the only loop is the Euclid loop of the base-field inversion they call).

  `G3_inv_gen_unfold` is proved by `rfl`: the generated body IS "t, one base-field inversion, three cofactors written to
  result[0..2]".  A change of the C++ (an extra branch, another formula) changes Gen/ExtInvGen.lean and this proof is
  re-checked against the new text.
-/
import GoldilocksVerif.Gen.ExtInvGen
import GoldilocksVerif.Lemmas.BridgeInv
import GoldilocksVerif.Lemmas.ExtF
import GoldilocksVerif.Lemmas.ExtIrred
import GoldilocksVerif.Lemmas.ExtBatch

namespace GoldilocksVerif
open Gen.Scalar Gen.Ext Gen.InvGen Gen.ExtInvGen Model

/-- write an extension element to words 0,1,2 of a region (what every extension routine does with its result) -/
def put3 (result : Region) (e : E3) : Region :=
  Region.set (Region.set (Region.set result 0 e.c0) 1 e.c1) 2 e.c2

theorem den3_put3 (result : Region) (e : E3) : den3 (put3 result e) = denE e := den3_set3 _ _ _ _
theorem put3_frame (result : Region) (e : E3) (k : Nat) (hk : 3 ≤ k) : (put3 result e) k = result k :=
  (set3 result e.c0 e.c1 e.c2).2.2.2 k hk

/-- the generated body, read off the generated text (unfolding of definitions and `let`s only: after that the two
    sides are syntactically equal) -/
theorem G3_inv_gen_unfold (fuel : Nat) (result a : Region) :
    G3_inv___a3a3 fuel result a =
      (inv___rE fuel (g3t (E3.ofRegion a))).bind (fun ti => some (put3 result (g3cof (E3.ofRegion a) ti))) := by
  unfold G3_inv___a3a3 g3t g3cof put3 E3.ofRegion
  dsimp only

/-- generated `Goldilocks3::inv(result, a)` = hand model `g3inv` written to result[0..2] -/
theorem G3_inv_gen_eq (fuel : Nat) (hf : invFuel ≤ fuel) (result a : Region) :
    G3_inv___a3a3 fuel result a = (g3inv (E3.ofRegion a)).map (put3 result) := by
  rw [G3_inv_gen_unfold, inv_r_gen_eq fuel hf]
  unfold g3inv
  cases Model.inv (g3t (E3.ofRegion a)) <;> rfl

theorem G3_inv_pp_gen_eq (fuel : Nat) (hf : invFuel ≤ fuel) (result a : Region) :
    G3_inv___pp fuel result a = (g3inv (E3.ofRegion a)).map (put3 result) := by
  unfold G3_inv___pp
  rw [G3_inv_gen_eq fuel hf]
  cases g3inv (E3.ofRegion a) <;> rfl

/-- generated `Goldilocks3::div(result, a, b)`: one base-field inversion, then the (translated) product by a base element -/
theorem G3_div_gen_eq (fuel : Nat) (hf : invFuel ≤ fuel) (result a : Region) (b : BitVec 64) :
    G3_div fuel result a b = (Model.inv b).map (fun bi => G3_mul__a3a3e result a bi) := by
  unfold G3_div
  rw [inv_r_gen_eq fuel hf]
  cases Model.inv b <;> rfl

/-- field view of the generated inversion -/
theorem G3_inv_gen_spec (fuel : Nat) (hf : invFuel ≤ fuel) (result a : Region) :
    (G3_inv___a3a3 fuel result a = none ↔ den3 a = K3.zero) ∧
    (∀ r, G3_inv___a3a3 fuel result a = some r →
      K3.mul (den3 r) (den3 a) = K3.one ∧ ∀ k, 3 ≤ k → r k = result k) := by
  rw [G3_inv_gen_eq fuel hf]
  constructor
  · rw [← denE_ofRegion, ← g3inv_none_iff]
    cases g3inv (E3.ofRegion a) <;> simp
  · intro r hr
    cases hi : g3inv (E3.ofRegion a) with
    | none => rw [hi] at hr; cases hr
    | some e =>
      rw [hi] at hr
      simp only [Option.map_some, Option.some.injEq] at hr
      subst hr
      exact ⟨by rw [den3_put3, ← denE_ofRegion]; exact (g3inv_den _).2 e hi, fun k hk => put3_frame _ _ k hk⟩

/-- field view of the generated division by a base element -/
theorem G3_div_gen_spec (fuel : Nat) (hf : invFuel ≤ fuel) (result a : Region) (b : BitVec 64) :
    (G3_div fuel result a b = none ↔ den b = 0) ∧
    (∀ r, G3_div fuel result a b = some r → K3.mul (den3 r) (K3.ofBase (den b)) = den3 a) := by
  rw [G3_div_gen_eq fuel hf]
  have hinv := inv_spec b
  constructor
  · rw [← hinv.1]; cases Model.inv b <;> simp
  · intro r hr
    cases hbi : Model.inv b with
    | none => rw [hbi] at hr; cases hr
    | some bi =>
      rw [hbi] at hr
      simp only [Option.map_some, Option.some.injEq] at hr
      have hm := (hinv.2 bi hbi).1
      rw [← hr, mul_base_den]
      simp only [K3.mul, K3.ofBase, den3]
      ext <;> simp only
      · linear_combination (den (a 0)) * hm
      · linear_combination (den (a 1)) * hm
      · linear_combination (den (a 2)) * hm

end GoldilocksVerif
