/-
  From the generated CONSTRUCTOR to the in-bounds statement of a transform: the tables the generated constructor leaves
  have the extents `NTT_iters` relies on (through the bridge theorem `ctor_gen`: the constructor appends the hand model's
  tables; their sizes are 2^s and s + 1), hence  constructor + NTT on buffers of the documented extents  is in bounds
  without any hypothesis about the object.
-/
import GoldilocksVerif.Lemmas.HeapSafeNtt
import GoldilocksVerif.Lemmas.BridgeNttCtor
import GoldilocksVerif.Lemmas.BridgeNttTop
open GoldilocksVerif Gen.NttGen GoldilocksVerif.BridgeNtt
namespace GoldilocksVerif.HeapSafe

theorem tabHand_size (r1 : BitVec 64) : ∀ (n i : Nat) (a : Array (BitVec 64)),
    (Loop.rangeAux 1 (tabHand r1) n i a).size = a.size + n := by
  intro n
  induction n with
  | zero => intro i a; rfl
  | succ n ih =>
    intro i a
    show (Loop.rangeAux 1 (tabHand r1) n (i + 1) (tabHand r1 i a)).size = _
    rw [ih]
    unfold tabHand
    rw [Array.size_push]; omega

theorem mkS_pos (D : Nat) : 1 ≤ mkS D ∧ mkS D ≤ 32 := by
  unfold mkS
  by_cases h : D ≤ 1
  · rw [if_pos h]; omega
  · rw [if_neg h]; omega

theorem mkRoots_size (D : Nat) : (mkRoots D).size = 2 ^ mkS D := by
  unfold mkRoots
  rw [tabHand_size]
  have h1 := (mkS_pos D).1
  have : 2 ^ 1 ≤ 2 ^ mkS D := Nat.pow_le_pow_right (by omega) h1
  show 2 + (2 ^ mkS D - 2) = _
  omega

theorem mkPti_size (D : Nat) : (mkPti D).size = mkS D + 1 := by
  unfold mkPti
  rw [tabHand_size]
  have h1 := (mkS_pos D).1
  show 2 + (mkS D - 1) = _
  omega

/-- the generated constructor leaves the tables with the extents the transforms rely on: `roots` has 2^s words,
    `powTwoInv` has s + 1 words, log2(maxDomainSize) ≤ s ≤ 32; the blocks that existed keep their extents -/
theorem ctor_tables (fuel : Nat) (hf : 64 ≤ fuel) (hp hp' : Heap) (hpos : 0 < hp.size) (self0 self' : NTT_Goldilocks)
    (m : BitVec 64) (thr : BitVec 32) (e : Nat) (hm0 : m ≠ 0#64)
    (h : NTT_ctor fuel hp self0 m thr (e : Int) = some (hp', self')) :
    Model.Ntt.log2 m.toNat ≤ self'.s.toNat ∧ self'.s.toNat ≤ 32 ∧ self'.roots = ⟨hp.size, 0⟩ ∧ self'.powTwoInv = ⟨hp.size + 1, 0⟩ ∧
    hp'.ext hp.size = 2 ^ self'.s.toNat ∧ hp'.ext (hp.size + 1) = self'.s.toNat + 1 ∧ hp'.size = hp.size + 2 ∧
    (∀ b, b < hp.size → hp'.ext b = hp.ext b) ∧ self'.extension = (e : Int) := by
  have hg := ctor_gen fuel hf hp hpos self0 m thr e hm0
  have hmn : m.toNat ≠ 0 := fun x => hm0 (BitVec.eq_of_toNat_eq (by simpa using x))
  cases hobj : Model.Ntt.mkObj m.toNat e with
  | none => rw [hobj] at hg; rw [hg] at h; cases h
  | some o =>
    rw [hobj] at hg
    obtain ⟨s2, h1, h2, h3, h4, _, _, h7, _⟩ := hg
    rw [h1] at h
    injection h with h
    injection h with ha hb
    subst hb
    obtain ⟨hv1, hv2, _⟩ := mkObj_s_val m.toNat e o hmn hobj
    obtain ⟨_, ho⟩ := mkObj_unfold m.toNat e o hmn hobj
    have hr : o.roots.size = 2 ^ o.s := by rw [ho]; exact mkRoots_size _
    have hq : o.powTwoInv.size = o.s + 1 := by rw [ho]; exact mkPti_size _
    refine ⟨by rw [h2]; exact hv1, by rw [h2]; exact hv2, h3, h4, ?_, ?_, ?_, ?_, h7⟩
    · rw [← ha, h2, ← hr]
      unfold Heap.ext
      rw [Heap.block_push_lt _ _ _ (by simp), Heap.block_push_last _ _ _ rfl]
    · rw [← ha, h2, ← hq]
      unfold Heap.ext
      rw [Heap.block_push_last _ _ _ (by simp)]
    · rw [← ha]; simp
    · intro b hb
      rw [← ha]
      unfold Heap.ext
      rw [Heap.block_push_lt _ _ _ (by simp; omega), Heap.block_push_lt _ _ _ hb]

/-- what the caller provides for `NTT(dst, src, size, ncols, buffer, …)` on a heap `hp` (before the object exists) -/
structure CallerShape (hp : Heap) (ext : Int) (dst src buffer : Ptr) (N NC K : Nat) : Prop where
  hK1 : 1 ≤ K
  hK : K ≤ 30
  hN : N = 2 ^ K
  hNC : 0 < NC
  hbytes : N * NC * 8 < 2 ^ 64
  hD : (if (dst == Ptr.null) = true then src else dst).off + N * NC ≤ hp.ext (if (dst == Ptr.null) = true then src else dst).blk
  hsrc : src.off + (if ext ≤ 1 then N else (bv N / I32.toU64 ext).toNat) * NC ≤ hp.ext src.blk
  hsrcl : src.blk < hp.size
  hds : (if (dst == Ptr.null) = true then src else dst) ≠ src → (if (dst == Ptr.null) = true then src else dst).blk ≠ src.blk
  hbuf : buffer ≠ Ptr.null → buffer.off + N * NC ≤ hp.ext buffer.blk ∧
    buffer.blk ≠ (if (dst == Ptr.null) = true then src else dst).blk ∧ buffer.blk ≠ src.blk

/-- **constructor, then a transform**: no hypothesis about the object — the generated constructor on any heap, then the
    generated `NTT` of a size up to `maxDomainSize` on buffers of the documented extents: every access is in bounds -/
theorem construct_transform_safe (fuel : Nat) (hf : 64 ≤ fuel) (hp hp' : Heap) (hpos : 0 < hp.size) (self' : NTT_Goldilocks)
    (m : BitVec 64) (thr : BitVec 32) (e : Nat) (hm0 : m ≠ 0#64)
    (hctor : NTT_ctor fuel hp NTT_Goldilocks.init m thr (e : Int) = some (hp', self'))
    (dst src buffer : Ptr) (N NC K : Nat) (nphase nblock : BitVec 64) (inverse : Bool)
    (hKm : K ≤ Model.Ntt.log2 m.toNat) (sh : CallerShape hp (e : Int) dst src buffer N NC K) :
    NTT_NTT.Safe fuel hp' self' dst src (bv N) (bv NC) buffer nphase nblock inverse false := by
  obtain ⟨t1, t2, t3, t4, t5, t6, t7, t8, t9⟩ := ctor_tables fuel hf hp hp' hpos _ self' m thr e hm0 hctor
  obtain ⟨hK1, hK, hN, hNC, hbytes, hD, hsrc, hsrcl, hds, hbuf⟩ := sh
  have hN0 : 0 < N := by rw [hN]; exact Nat.pow_pos (by omega)
  have hNNC : 0 < N * NC := Nat.mul_pos hN0 hNC
  have hN64 : N < 2 ^ 64 := by
    have : N ≤ 2 ^ 30 := by rw [hN]; exact Nat.pow_le_pow_right (by omega) hK
    omega
  refine NTT_safe fuel hf hp' self' dst src buffer N NC K nphase nblock inverse false
    ⟨hK1, hK, hN, hNC, hbytes, by omega, ?_, ?_, by omega, hds, ?_, by omega, t2, ?_, ?_, fun x => by cases x⟩
  · rw [t8 _ (Heap.lt_size_of_live hp _ (by omega))]; exact hD
  · rw [t8 _ hsrcl]
    unfold srcRows
    rw [t9, bv_toNat N hN64]
    exact hsrc
  · intro hb
    obtain ⟨b1, b2, b3⟩ := hbuf hb
    exact ⟨by rw [t8 _ (Heap.lt_size_of_live hp _ (by omega))]; exact b1, b2, b3⟩
  · rw [t3]; show 0 + 2 ^ self'.s.toNat ≤ hp'.ext hp.size; rw [t5]; omega
  · rw [t4]; show 0 + self'.s.toNat + 1 ≤ hp'.ext (hp.size + 1); rw [t6]; omega

end GoldilocksVerif.HeapSafe
