/-
  Simp sets used by the proofs about the translated SIMD kernels (core-only).

  `lane_get` : a register-level kernel read at one lane becomes an expression over the 64-bit lane functions of
               `Isa/Vec.lean` (every intrinsic of `Isa/Avx2.lean`, the `V4.get_*` lemmas, the register constants;
               `Lemmas/Avx512Nat.lean` adds the lane-wise intrinsics of `Isa/Avx512.lean`, the `V8.get_*` lemmas and
               the masked add / subtract under every unsigned compare predicate, folded to `Lane.ultSel` / `eqSel`).
               Being one closed set, a kernel that starts using another (modelled) intrinsic, renames locals or
               reorders independent statements is still normalised by the same call.
  `lane_nat` : `BitVec.toNat` of a lane expression becomes arithmetic on `Nat` (`+ - * / %`, `if`), with both
               operand orders of the commutative operations and the equivalent idioms (`srli 32` / `movehdup` as
               seen by `mul_epu32`, `slli 32` / `moveldup` as seen by the 0xAA blend, `or` / `add` of disjoint
               bit ranges) mapped to forms `omega` identifies.
-/
import Lean
register_simp_attr lane_get
register_simp_attr lane_nat
