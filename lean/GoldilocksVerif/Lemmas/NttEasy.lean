/-
  Structural facts of the transform model that need no DFT reasoning (for all shapes, all inputs):
  size 0 / zero columns are no-ops, a null destination of INTT means in place, the source is returned unchanged
  when the destination is another buffer.
-/
import GoldilocksVerif.Lemmas.NttArr

namespace GoldilocksVerif.Model.Ntt

theorem ntt_noop (o : Obj) (mode : DstMode) (dstB srcB : Buf) (size ncols nphase nblock : Nat) (inverse extend : Bool)
    (h : ncols = 0 ∨ size = 0) :
    ntt o mode dstB srcB size ncols nphase nblock inverse extend = .ok (if mode = .other then dstB else srcB, srcB) := by
  unfold ntt
  rw [if_pos h]

theorem intt_noop (o : Obj) (mode : DstMode) (dstB srcB : Buf) (size ncols nphase nblock : Nat) (extend : Bool)
    (h : ncols = 0 ∨ size = 0) :
    intt o mode dstB srcB size ncols nphase nblock extend = .ok (if mode = .other then dstB else srcB, srcB) := by
  unfold intt
  rw [if_pos h]

theorem intt_eq_ntt (o : Obj) (mode : DstMode) (dstB srcB : Buf) (size ncols nphase nblock : Nat) (extend : Bool) :
    intt o mode dstB srcB size ncols nphase nblock extend
      = ntt o (if mode = .null then .same else mode) dstB srcB size ncols nphase nblock true extend := by
  unfold intt
  by_cases h : ncols = 0 ∨ size = 0
  · rw [if_pos h, ntt_noop _ _ _ _ _ _ _ _ _ _ h]
    cases mode <;> rfl
  · rw [if_neg h]

theorem intt_null (o : Obj) (dstB srcB : Buf) (size ncols nphase nblock : Nat) (extend : Bool) :
    intt o .null dstB srcB size ncols nphase nblock extend = intt o .same dstB srcB size ncols nphase nblock extend := by
  rw [intt_eq_ntt, intt_eq_ntt]; rfl

theorem nttIters_src (o : Obj) (dstB srcB auxB : Buf) (size oc nc nca np : Nat) (inv ext : Bool) (d s' : Buf)
    (h : nttIters o dstB srcB auxB false size oc nc nca np inv ext = .ok (d, s')) : s' = srcB := by
  unfold nttIters at h
  dsimp only at h
  split at h
  · cases h
  · split at h
    · cases h
    · split at h
      · split at h
        · cases h
        · simp only [Bool.false_eq_true, if_false] at h
          cases h; rfl
      · simp only [Bool.false_eq_true, if_false] at h
        cases h; rfl

theorem nttBlock_src (o : Obj) (aux : Buf) (size nc np ncb ncr nca : Nat) (inv ext : Bool) (srcB : Buf) (ib : Nat)
    (st : Except String (Buf × Buf × Nat)) (h : ∀ d s off, st = .ok (d, s, off) → s = srcB) :
    ∀ d s off, nttBlock o aux false size nc np ncb ncr nca inv ext ib st = .ok (d, s, off) → s = srcB := by
  intro d s off e
  unfold nttBlock at e
  cases st with
  | error err => cases e
  | ok r =>
    obtain ⟨dst, src, oc⟩ := r
    have hs := h dst src oc rfl
    dsimp only at e
    split at e
    · cases e
    · simp only [Bool.false_eq_true, if_false] at e
      cases e
      exact hs

theorem nttBlocks_src (o : Obj) (dstB srcB : Buf) (size ncols nphase nblock : Nat) (inverse extend : Bool) (d s' : Buf)
    (h : nttBlocks o false dstB srcB size ncols nphase nblock inverse extend = .ok (d, s')) : s' = srcB := by
  unfold nttBlocks at h
  dsimp only at h
  by_cases hb : nblock ≤ 1
  · rw [if_pos hb] at h
    exact nttIters_src _ _ _ _ _ _ _ _ _ _ _ _ _ h
  · rw [if_neg hb] at h
    simp only [Bool.false_eq_true, if_false] at h
    generalize hA : Array.replicate (size * (ncols / nblock + if ncols % nblock > 0 then 1 else 0)) (0#64 : W) = aux at h
    generalize hca : (ncols / nblock + if ncols % nblock > 0 then 1 else 0) = nca at h
    have key : ∀ n, ∀ d s off, iter n (Except.ok (dstB, srcB, 0))
        (nttBlock o aux false size ncols nphase (ncols / nblock) (ncols % nblock) nca inverse extend)
        = .ok (d, s, off) → s = srcB := by
      intro n
      induction n with
      | zero => intro d s off e; rw [iter_zero] at e; cases e; rfl
      | succ n ih =>
        intro d s off e
        rw [iter_succ] at e
        exact nttBlock_src _ _ _ _ _ _ _ _ _ _ srcB _ _ ih d s off e
    split at h
    · cases h
    · rename_i dst src off heq
      cases h
      exact key _ _ _ _ heq

/-- C03/C04: when the destination is another buffer the source is returned unchanged (all shapes, all inputs) -/
theorem ntt_other_src (o : Obj) (dstB srcB : Buf) (size ncols nphase nblock : Nat) (inverse extend : Bool) (d s' : Buf)
    (h : ntt o .other dstB srcB size ncols nphase nblock inverse extend = .ok (d, s')) : s' = srcB := by
  unfold ntt at h
  split at h
  · cases h; rfl
  · have hm : (decide (DstMode.other ≠ DstMode.other)) = false := by decide
    rw [hm] at h
    exact nttBlocks_src _ _ _ _ _ _ _ _ _ _ _ h

theorem intt_other_src (o : Obj) (dstB srcB : Buf) (size ncols nphase nblock : Nat) (extend : Bool) (d s' : Buf)
    (h : intt o .other dstB srcB size ncols nphase nblock extend = .ok (d, s')) : s' = srcB := by
  rw [intt_eq_ntt] at h
  exact ntt_other_src _ _ _ _ _ _ _ _ _ _ _ h

end GoldilocksVerif.Model.Ntt
