/-
  The scalar field operations of `goldilocks_base_field_scalar.hpp` (as translated into
  `Gen/Scalar.lean` from the current source) computed on `Nat`.  Core-only, no Mathlib.
  Helper lemmas only; the property statements are in `Props/C01.lean`.
-/
import GoldilocksVerif.Gen.Scalar
import GoldilocksVerif.Lemmas.X86Nat

namespace GoldilocksVerif
open Gen.Scalar X86

/-- the Goldilocks prime 2^64 - 2^32 + 1 -/
def P : Nat := 18446744069414584321

theorem P_eq : P = 2^64 - 2^32 + 1 := by decide

/-- the canonical value a 64-bit representation denotes -/
def canon (x : BitVec 64) : Nat := x.toNat % P

theorem canon_lt (x : BitVec 64) : canon x < P := Nat.mod_lt _ (by decide)

theorem mod_cert (a b k1 k2 : Nat) (h : a + P * k1 = b + P * k2) : a % P = b % P := by
  have h1 : (a + P * k1) % P = a % P := Nat.add_mul_mod_self_left a P k1
  have h2 : (b + P * k2) % P = b % P := Nat.add_mul_mod_self_left b P k2
  rw [← h1, ← h2, h]

theorem mod_eq_cert (a b : Nat) (h : a % P = b % P) : a + P * (b / P) = b + P * (a / P) := by
  have h1 := Nat.div_add_mod a P
  have h2 := Nat.div_add_mod b P
  omega

/-! ### add -/

theorem add_mod (a b : BitVec 64) : (add__eEE a b).toNat % P = (a.toNat + b.toNat) % P := by
  unfold add__eEE
  simp only [toNat_ite, add64_snd, add64_fst, cmovc_toNat, c_CQ, BitVec.toNat_ofNat, Nat.reducePow,
    Nat.reduceMod, Bool.not_eq_true', decide_eq_false_iff_not, decide_eq_true_eq, Nat.not_le]
  have ha := a.isLt
  have hb := b.isLt
  unfold P
  split <;> split <;> omega

/-! ### sub -/

theorem sub_mod (a b : BitVec 64) : ((sub__eEE a b).toNat + b.toNat) % P = a.toNat % P := by
  unfold sub__eEE
  simp only [toNat_ite, sub64_snd, sub64_fst, cmovc_toNat, c_CQ, BitVec.toNat_ofNat, Nat.reducePow,
    Nat.reduceMod, Bool.not_eq_true', decide_eq_false_iff_not, decide_eq_true_eq, Nat.not_lt]
  have ha := a.isLt
  have hb := b.isLt
  unfold P
  split <;> split <;> omega

/-! ### mul -/

/-- the `mul` asm block as arithmetic on the halves `(hi, lo)` of the 128-bit product -/
def mulN (hi lo : Nat) : Nat :=
  let hl := hi % 4294967296
  let rbx := (18446744073709551616 - 4294967296 + hl) % 18446744073709551616
  let rdx0 := hl * 4294967296 + hi / 4294967296
  let rcx := rdx0 % 4294967296
  let rdx1 := (18446744073709551616 - rcx + rdx0) % 18446744073709551616
  let rcx1 := (rcx + 4294967296) % 18446744073709551616
  let rdx2 := (18446744073709551616 - rbx + rdx1) % 18446744073709551616
  let rax1 := (lo + rdx2) % 18446744073709551616
  let rbx1 := if 18446744073709551616 ≤ lo + rdx2 then 4294967295 else 0
  let rax2 := (rax1 + rbx1) % 18446744073709551616
  let rax3 := (18446744073709551616 - rcx1 + rax2) % 18446744073709551616
  if rcx1 ≤ rax2 then rax3 else (18446744073709551616 - 4294967295 + rax3) % 18446744073709551616

/-- tie between the generated definition and `mulN` (breaks when the asm block changes meaning) -/
theorem mul_toNat (a b : BitVec 64) :
    (mul__eEE a b).toNat = mulN (a.toNat * b.toNat / 2^64) (a.toNat * b.toNat % 2^64) := by
  unfold mul__eEE mulN
  simp only [toNat_ite, add64_snd, add64_fst, sub64_fst, sub64_snd, cmovc_toNat, c_CQ, c_TWO32, mul64_hi,
    mul64_lo, rol64_32_fst, mov32_toNat, BitVec.toNat_ofNat, Nat.reducePow, Nat.reduceMod,
    Bool.not_eq_true', decide_eq_false_iff_not, decide_eq_true_eq, Nat.not_lt]

theorem mul_core (hh hl lo rax2 rax3 r : Nat) (hhh : hh < 4294967296) (hhl : hl < 4294967296)
    (hlo : lo < 18446744073709551616)
    (h2 : rax2 = ((lo + (hl * 4294967295 + 4294967296)) % 18446744073709551616 +
            (if 18446744073709551616 ≤ lo + (hl * 4294967295 + 4294967296) then 4294967295 else 0)) % 18446744073709551616)
    (h3 : rax3 = (18446744073709551616 - (hh + 4294967296) + rax2) % 18446744073709551616)
    (hr : r = if hh + 4294967296 ≤ rax2 then rax3 else (18446744073709551616 - 4294967295 + rax3) % 18446744073709551616) :
    ∃ e1 e2, r + hh + 18446744069414584321 * e1 = lo + hl * 4294967295 + 18446744069414584321 * e2 := by
  by_cases c1 : 18446744073709551616 ≤ lo + (hl * 4294967295 + 4294967296)
  · rw [if_pos c1] at h2
    have h2' : rax2 + 18446744069414584321 = lo + (hl * 4294967295 + 4294967296) := by omega
    clear h2
    by_cases c2 : hh + 4294967296 ≤ rax2
    · rw [if_pos c2] at hr
      exact ⟨1, 0, by omega⟩
    · rw [if_neg c2] at hr
      exact ⟨1, 1, by omega⟩
  · rw [if_neg c1] at h2
    have h2' : rax2 = lo + (hl * 4294967295 + 4294967296) := by omega
    clear h2
    by_cases c2 : hh + 4294967296 ≤ rax2
    · rw [if_pos c2] at hr
      exact ⟨0, 0, by omega⟩
    · rw [if_neg c2] at hr
      exact ⟨0, 1, by omega⟩

theorem mulN_mod (hi lo : Nat) (hhi : hi < 2^64) (hlo : lo < 2^64) :
    mulN hi lo % P = (hi * 2^64 + lo) % P := by
  have e_hl : hi % 4294967296 < 4294967296 := Nat.mod_lt _ (by decide)
  have e_hh : hi / 4294967296 < 4294967296 := by omega
  have e_hi : hi = (hi / 4294967296) * 4294967296 + hi % 4294967296 := by omega
  obtain ⟨e1, e2, h⟩ := mul_core (hi / 4294967296) (hi % 4294967296) lo _ _ (mulN hi lo) e_hh e_hl hlo rfl rfl (by
    unfold mulN
    extract_lets hl rbx rdx0 rcx rdx1 rcx1 rdx2 rax1 rbx1 rax2 rax3
    have e_rbx : rbx = 18446744073709551616 - 4294967296 + hl := by omega
    have e_rcx : rcx = hi / 4294967296 := by omega
    have e_rdx1 : rdx1 = hl * 4294967296 := by omega
    have e_rcx1 : rcx1 = hi / 4294967296 + 4294967296 := by omega
    have e_rdx2 : rdx2 = hl * 4294967295 + 4294967296 := by omega
    simp only [rax3, rax2, rax1, rbx1, e_rcx1, e_rdx2, hl])
  generalize mulN hi lo = r at h
  generalize hi / 4294967296 = hh at *
  generalize hi % 4294967296 = hl at *
  subst e_hi
  apply mod_cert r _ (e1 + (hh * 4294967297 + hl)) e2
  unfold P
  omega

theorem mul_mod (a b : BitVec 64) : (mul__eEE a b).toNat % P = (a.toNat * b.toNat) % P := by
  rw [mul_toNat]
  have hp : a.toNat * b.toNat < 2^64 * 2^64 := Nat.mul_lt_mul'' a.isLt b.isLt
  have hhi : a.toNat * b.toNat / 2^64 < 2^64 := Nat.div_lt_of_lt_mul hp
  have hlo : a.toNat * b.toNat % 2^64 < 2^64 := Nat.mod_lt _ (by decide)
  rw [mulN_mod _ _ hhi hlo]
  congr 1
  have := Nat.div_add_mod (a.toNat * b.toNat) (2^64)
  rw [Nat.mul_comm] at this
  exact this

/-! ### outward conversion -/

theorem toU64_toNat (a : BitVec 64) : (toU64__eE a).toNat = a.toNat % P := by
  unfold toU64__eE
  simp only [toNat_ite, BitVec.toNat_sub, BitVec.toNat_ofNat, decide_eq_true_eq, ge_iff_le, BitVec.le_def,
    Nat.reducePow, Nat.reduceMod]
  have ha := a.isLt
  unfold P
  split <;> omega

/-! ### inc / dec (plain C++ branches: proved per branch on `Nat`, independent of the order and form of the tests) -/

/-- conditions and word arithmetic of branching 64-bit C++ code moved to `Nat` (after the `if`s were split) -/
macro "word_nat" : tactic => `(tactic| (
  simp only [decide_eq_true_eq, decide_eq_false_iff_not, beq_iff_eq, bne_iff_ne, ne_eq, Bool.not_eq_true,
    beq_eq_false_iff_ne, gt_iff_lt, ge_iff_le, BitVec.lt_def, BitVec.le_def, BitVec.toNat_eq,
    BitVec.toNat_add, BitVec.toNat_sub, BitVec.toNat_ofNat, Nat.reducePow, Nat.reduceMod, P] at * <;> omega))

theorem inc_mod (a : BitVec 64) : (inc a).toNat % P = (a.toNat + 1) % P := by
  have h4 : (add__rEE a 1#64).toNat % P = (a.toNat + 1) % P := by
    have h : add__rEE a 1#64 = add__eEE a 1#64 := rfl
    rw [h, add_mod]; rfl
  have h5 : (add__rEE 1#64 a).toNat % P = (a.toNat + 1) % P := by
    have h : add__rEE 1#64 a = add__eEE 1#64 a := rfl
    rw [h, add_mod, Nat.add_comm]; rfl
  have ha := a.isLt
  unfold inc
  try simp only [one__r, c_ONE]
  repeat' split
  all_goals first
    | exact h4
    | exact h5
    | word_nat

theorem dec_mod (a : BitVec 64) : (dec a).toNat % P = (a.toNat % P + (P - 1)) % P := by
  have ha := a.isLt
  unfold dec
  try simp only []
  repeat' split
  all_goals word_nat

end GoldilocksVerif
