/-
  Simp set of the pointwise region comparison of Lemmas/BridgeEquiv.lean (`region_leaf`; an attribute has to be registered in
  a file of its own).
  `region_pt` : word j of a region expression (`memcpy` / `memset` / pointer-offset steps) as nested case distinctions on j.
-/
import Lean
register_simp_attr region_pt
