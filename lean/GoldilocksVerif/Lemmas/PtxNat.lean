/-
  Helper lemmas for C20 (GPU field type `gl64_t`, translated into `Gen/Ptx.lean`).

  1. characterising lemmas: every instruction of `Isa/Ptx.lean` as arithmetic on `Nat`
     (carries and borrows as quotients, so that the Nat mirrors contain no `if`);
  2. `ptx_simp`, the symbolic execution of a generated let-chain (every `let` inlined, every instruction a `toNat` fact),
     and `ptx_nat` = `ptx_simp` + equality up to associativity/commutativity of `+` and `*`;
  3. per 32-bit-limb function (`reduce(uint32_t[4])`, `mul`, `mul(uint32_t)`) a "Nat mirror" and a tie theorem
     `(Gen.Ptx.f ..).toNat = fN ..` by `unfold; ptx_nat` (`mul`: one of four mirrors, `MulMirror`); the mirrors of the
     64-bit functions (`addN`, `subN`, `cnegN`, `finalN`) are only the fallback route of `Lemmas/PtxArith.lean`, which
     proves their specifications directly on the `ptx_simp` form
  (the pure-Nat lemmas about the mirrors are in `Lemmas/PtxArith.lean`).
  Independent of: register / temporary names, grouping of instructions into asm statements, order of independent
  instructions (all erased by inlining the `let`s), operand order of commutative instructions (AC).

  Core only.  The property statements are in `Props/C20.lean`.
-/
import GoldilocksVerif.Gen.Ptx
import GoldilocksVerif.Gen.PtxTables
import GoldilocksVerif.Lemmas.ScalarNat

/-! ## 1. characterising lemmas -/

namespace Ptx
variable {w : Nat}

theorem carry_div (m x : Nat) (_hm : 0 < m) (hx : x < 2 * m) : (decide (m ≤ x)).toNat = x / m := by
  by_cases h : m ≤ x
  · have : x / m = 1 := Nat.div_eq_of_lt_le (by omega) (by omega)
    simp [h, this]
  · have : x / m = 0 := Nat.div_eq_of_lt (by omega)
    simp [h, this]

theorem borrow_div (m a s : Nat) (ha : a < m) (hs : s ≤ m) :
    (decide (a < s)).toNat = (s + (m - 1 - a)) / m := by
  by_cases h : a < s
  · have : (s + (m - 1 - a)) / m = 1 := Nat.div_eq_of_lt_le (by omega) (by omega)
    simp [h, this]
  · have : (s + (m - 1 - a)) / m = 0 := Nat.div_eq_of_lt (by omega)
    simp [h, this]

theorem bool_toNat_le (c : Bool) : c.toNat ≤ 1 := by cases c <;> decide

theorem two_pow_pos' : 0 < 2 ^ w := Nat.pos_of_ne_zero (by simp)

theorem bool_lt_pow (c : Bool) : c.toNat ≤ 2 ^ w := by
  have := bool_toNat_le c
  have := @two_pow_pos' w
  omega

/-! add family -/
theorem add_toNat (a b : BitVec w) : (add a b).toNat = (a.toNat + b.toNat) % 2 ^ w := by
  simp [add, BitVec.toNat_add]

theorem add_cc_fst (a b : BitVec w) : (add_cc a b).1.toNat = (a.toNat + b.toNat) % 2 ^ w := by
  simp [add_cc, BitVec.toNat_add]

theorem add_cc_snd (a b : BitVec w) : (add_cc a b).2.toNat = (a.toNat + b.toNat) / 2 ^ w := by
  have ha := a.isLt
  have hb := b.isLt
  exact carry_div _ _ two_pow_pos' (by omega)

theorem addc_toNat (a b : BitVec w) (cf : Bool) :
    (addc a b cf).toNat = (a.toNat + b.toNat + cf.toNat) % 2 ^ w := by
  simp [addc, BitVec.toNat_add]

theorem addc_cc_fst (a b : BitVec w) (cf : Bool) :
    (addc_cc a b cf).1.toNat = (a.toNat + b.toNat + cf.toNat) % 2 ^ w := by
  simp [addc_cc, BitVec.toNat_add]

theorem addc_cc_snd (a b : BitVec w) (cf : Bool) :
    (addc_cc a b cf).2.toNat = (a.toNat + b.toNat + cf.toNat) / 2 ^ w := by
  have ha := a.isLt
  have hb := b.isLt
  have hc := bool_toNat_le cf
  exact carry_div _ _ two_pow_pos' (by omega)

/-! sub family -/
theorem sub_toNat (a b : BitVec w) : (sub a b).toNat = (a.toNat + (2 ^ w - b.toNat)) % 2 ^ w := by
  simp [sub, BitVec.toNat_sub, Nat.add_comm]

theorem sub_cc_fst (a b : BitVec w) : (sub_cc a b).1.toNat = (a.toNat + (2 ^ w - b.toNat)) % 2 ^ w := by
  simp [sub_cc, BitVec.toNat_sub, Nat.add_comm]

theorem sub_cc_snd (a b : BitVec w) :
    (sub_cc a b).2.toNat = (b.toNat + (2 ^ w - 1 - a.toNat)) / 2 ^ w := by
  have ha := a.isLt
  have hb := b.isLt
  exact borrow_div _ _ _ ha (by omega)

theorem subc_aux (m a b c : Nat) (hm : 0 < m) (hb : b < m) (hc : c ≤ 1) :
    ((m - b + a) % m + (m - c % m)) % m = (a + (m - b) + (m - c)) % m := by
  by_cases h1 : m = 1
  · subst h1; simp [Nat.mod_one]
  · have : c % m = c := Nat.mod_eq_of_lt (by omega)
    rw [this, Nat.mod_add_mod, Nat.add_comm (m - b) a]

theorem subc_toNat (a b : BitVec w) (cf : Bool) :
    (subc a b cf).toNat = (a.toNat + (2 ^ w - b.toNat) + (2 ^ w - cf.toNat)) % 2 ^ w := by
  simp only [subc, BitVec.toNat_sub, BitVec.toNat_ofNat]
  rw [Nat.add_comm (2 ^ w - cf.toNat % 2 ^ w)]
  exact subc_aux _ _ _ _ two_pow_pos' b.isLt (bool_toNat_le cf)

theorem subc_cc_fst (a b : BitVec w) (cf : Bool) :
    (subc_cc a b cf).1.toNat = (a.toNat + (2 ^ w - b.toNat) + (2 ^ w - cf.toNat)) % 2 ^ w :=
  subc_toNat a b cf

theorem subc_cc_snd (a b : BitVec w) (cf : Bool) :
    (subc_cc a b cf).2.toNat = (b.toNat + cf.toNat + (2 ^ w - 1 - a.toNat)) / 2 ^ w := by
  have ha := a.isLt
  have hb := b.isLt
  have hc := bool_toNat_le cf
  exact borrow_div _ _ _ ha (by omega)

/-! products -/
theorem mul_lo_toNat (a b : BitVec w) : (mul_lo a b).toNat = a.toNat * b.toNat % 2 ^ w := by
  simp [mul_lo]

theorem mul_hi_toNat (a b : BitVec w) : (mul_hi a b).toNat = a.toNat * b.toNat / 2 ^ w := by
  simp only [mul_hi, BitVec.toNat_ofNat]
  apply Nat.mod_eq_of_lt
  apply Nat.div_lt_of_lt_mul
  exact Nat.mul_lt_mul'' a.isLt b.isLt

theorem mad_lo_cc_eq (a b c : BitVec w) : mad_lo_cc a b c = add_cc (mul_lo a b) c := rfl
theorem mad_hi_cc_eq (a b c : BitVec w) : mad_hi_cc a b c = add_cc (mul_hi a b) c := rfl
theorem mad_lo_eq (a b c : BitVec w) : mad_lo a b c = add (mul_lo a b) c := rfl
theorem mad_hi_eq (a b c : BitVec w) : mad_hi a b c = add (mul_hi a b) c := rfl
theorem madc_lo_eq (a b c : BitVec w) (cf : Bool) : madc_lo a b c cf = addc (mul_lo a b) c cf := rfl
theorem madc_hi_eq (a b c : BitVec w) (cf : Bool) : madc_hi a b c cf = addc (mul_hi a b) c cf := rfl
theorem madc_lo_cc_eq (a b c : BitVec w) (cf : Bool) : madc_lo_cc a b c cf = addc_cc (mul_lo a b) c cf := rfl
theorem madc_hi_cc_eq (a b c : BitVec w) (cf : Bool) : madc_hi_cc a b c cf = addc_cc (mul_hi a b) c cf := rfl

/-! predicates, selection, packing -/
theorem setp_eq_iff (a b : BitVec w) : (setp_eq a b = true) ↔ a.toNat = b.toNat := by simp [setp_eq]
theorem setp_ne_iff (a b : BitVec w) : (setp_ne a b = true) ↔ a.toNat ≠ b.toNat := by simp [setp_ne]

theorem setp_eq_false_iff (a b : BitVec w) : (setp_eq a b = false) ↔ a.toNat ≠ b.toNat := by simp [setp_eq]
theorem setp_ne_false_iff (a b : BitVec w) : (setp_ne a b = false) ↔ a.toNat = b.toNat := by simp [setp_ne]

theorem guard_toNat (p : Bool) (x y : BitVec w) :
    (guard p x y).toNat = if p = true then x.toNat else y.toNat := by
  cases p <;> rfl

theorem guard_pred (p q : Bool) : guard p q p = (p && q) := by cases p <;> cases q <;> rfl

theorem selp_toNat (x y : BitVec w) (p : Bool) :
    (selp x y p).toNat = if p = true then x.toNat else y.toNat := by
  cases p <;> rfl

theorem pack64_toNat (lo hi : BitVec 32) : (pack64 lo hi).toNat = lo.toNat + hi.toNat * 2 ^ 32 := by
  simp only [pack64, BitVec.toNat_ofNat]
  have h1 := lo.isLt
  have h2 := hi.isLt
  omega

end Ptx

namespace Cpp

theorem trunc32_toNat (x : BitVec 64) : (trunc32 x).toNat = x.toNat % 2 ^ 32 := by
  simp [trunc32]

theorem shr64_toNat (x : BitVec 64) (n : Nat) : (shr64 x n).toNat = x.toNat / 2 ^ n := by
  simp only [shr64, BitVec.toNat_ofNat]
  apply Nat.mod_eq_of_lt
  exact Nat.lt_of_le_of_lt (Nat.div_le_self _ _) x.isLt

theorem neg_toNat {w : Nat} (x : BitVec w) : (neg x).toNat = (2 ^ w - x.toNat) % 2 ^ w := by
  simp [neg]

theorem sub_toNat {w : Nat} (a b : BitVec w) : (sub a b).toNat = (a.toNat + (2 ^ w - b.toNat)) % 2 ^ w := by
  simp [sub, BitVec.toNat_sub, Nat.add_comm]

theorem ofBool32_toNat (b : Bool) : (ofBool32 b).toNat = b.toNat := by
  cases b <;> rfl

theorem eq_def {w : Nat} (a b : BitVec w) : eq a b = decide (a.toNat = b.toNat) := rfl
theorem ne_def {w : Nat} (a b : BitVec w) : ne a b = decide (a.toNat ≠ b.toNat) := rfl

end Cpp

/-! ## 2. Nat mirrors of the asm-carrying functions, and the tie theorems -/

namespace GoldilocksVerif.PtxN
open Gen.Ptx Ptx

set_option linter.unusedSimpArgs false

local notation "M32" => 4294967296
local notation "M64" => 18446744073709551616
local notation "W32" => 4294967295

/-- the one simp set that moves a generated let-chain to `Nat`: every instruction becomes arithmetic on the
    `toNat` of its operands (carries/borrows as quotients); `let`s are inlined, so register and temporary names, the
    grouping of instructions into asm statements and the order of independent instructions leave no trace -/
syntax "ptx_simp" : tactic
macro_rules
  | `(tactic| ptx_simp) => `(tactic| simp only [
      add_toNat, add_cc_fst, add_cc_snd, addc_toNat, addc_cc_fst, addc_cc_snd,
      Ptx.sub_toNat, sub_cc_fst, sub_cc_snd, subc_toNat, subc_cc_fst, subc_cc_snd,
      mul_lo_toNat, mul_hi_toNat, mad_lo_cc_eq, mad_hi_cc_eq, mad_lo_eq, mad_hi_eq,
      madc_lo_eq, madc_hi_eq, madc_lo_cc_eq, madc_hi_cc_eq,
      guard_toNat, guard_pred, selp_toNat, setp_eq_iff, setp_ne_iff, setp_eq_false_iff, setp_ne_false_iff,
      Bool.not_eq_true', Bool.not_not, pack64_toNat,
      Cpp.trunc32_toNat, Cpp.shr64_toNat, Cpp.neg_toNat, Cpp.sub_toNat, Cpp.ofBool32_toNat, Cpp.eq_def, Cpp.ne_def, decide_eq_true_eq,
      Bool.and_eq_true, c_MOD, c_W, lo, hi, from_,
      BitVec.toNat_ofNat, Nat.reducePow, Nat.reduceMod, Nat.reduceSub, Nat.zero_add])

/-- tie to a Nat mirror: `ptx_simp`, then equality up to associativity/commutativity of `+` and `*`
    (operand order of `add*`, `mul.lo/hi`, `mad*` multiplicands) -/
macro "ptx_nat" : tactic => `(tactic| (ptx_simp; first | done | (ac_nf0; with_reducible rfl)))

/-- `operator+=` -/
def addN (a b : Nat) : Nat :=
  let s := (a + b) % M64
  let c := (a + b) / M64 % M32
  let bw := (18446744069414584321 + (18446744073709551615 - s)) / M64
  let c2 := (c + M32 + (M32 - bw)) % M32
  if c2 = 0 then (s + W32) % M64 else s


/-- `operator-=` -/
def subN (a b : Nat) : Nat :=
  let d := (a + (M64 - b)) % M64
  let bw := (b + (18446744073709551615 - a)) / M64
  let br := (M32 + (M32 - bw)) % M32
  if br ≠ 0 then (d + 18446744069414584321) % M64 else d


/-- `cneg` -/
def cnegN (a : Nat) (flag : Bool) : Nat :=
  if flag.toNat ≠ 0 ∧ (decide (a = 0)).toNat = 0 then (18446744069414584321 + (M64 - a)) % M64 else a


/-- the final reduction `reduce()` (= `to()` in this configuration) -/
def finalN (a : Nat) : Nat :=
  let c := (a + W32) / M64 % M32
  if c ≠ 0 then (a + W32) % M64 else a



/-- last fold, `__CUDA_ARCH__ >= 700`: `+= e * W` by mad.lo.cc / madc.hi -/
def foldN_sm70 (v0 v1 e : Nat) : Nat :=
  let x0 := (e * W32 % M32 + v0) % M32
  let c4 := (e * W32 % M32 + v0) / M32
  let x1 := (e * W32 / M32 + v1 + c4) % M32
  x0 + x1 * M32

/-- last fold, `__CUDA_ARCH__ < 700`: `+= (0 : -e)` by add.cc / addc -/
def foldN_pre70 (v0 v1 e : Nat) : Nat :=
  let x0 := (v0 + (M32 - e) % M32) % M32
  let c3 := (v0 + (M32 - e) % M32) / M32
  let x1 := (v1 + 0 + c3) % M32
  x0 + x1 * M32

/-- `reduce(uint32_t temp[4])`, `__CUDA_ARCH__ >= 700` -/
def reduce4N_sm70 (t0 t1 t2 t3 : Nat) : Nat :=
  -- sub.cc / subc.cc / subc : (t1:t0) - (t3:t2), `cr` = 0 or 2^32-1
  let u0 := (t0 + (M32 - t2)) % M32
  let bw1 := (t2 + (W32 - t0)) / M32
  let u1 := (t1 + (M32 - t3) + (M32 - bw1)) % M32
  let bw2 := (t3 + bw1 + (W32 - t1)) / M32
  let cr := (M32 + (M32 - bw2)) % M32
  -- add.cc / addc : (cr:u1) += (t3:t2)
  let v1 := (u1 + t2) % M32
  let c1 := (u1 + t2) / M32
  let cr2 := (cr + t3 + c1) % M32
  -- mad.lo.cc / madc.hi.cc / addc : (v1:u0) += cr2 * W
  let w0 := (cr2 * W32 % M32 + u0) % M32
  let c2 := (cr2 * W32 % M32 + u0) / M32
  let w1 := (cr2 * W32 / M32 + v1 + c2) % M32
  let c3 := (cr2 * W32 / M32 + v1 + c2) / M32
  let e := c3 % M32
  -- mad.lo.cc / madc.hi : += e * W
  foldN_sm70 w0 w1 e

theorem reduce4_sm70_toNat (v : BitVec 64) (t0 t1 t2 t3 : BitVec 32) :
    (reduce4_sm70 v t0 t1 t2 t3).toNat = reduce4N_sm70 t0.toNat t1.toNat t2.toNat t3.toNat := by
  unfold reduce4_sm70 reduce4N_sm70 foldN_sm70
  ptx_nat

/-- `reduce(uint32_t temp[4])`, `__CUDA_ARCH__ < 700` -/
def reduce4N_pre70 (t0 t1 t2 t3 : Nat) : Nat :=
  -- add.cc / addc : (b1:b0) = t2 + t3
  let b0 := (t2 + t3) % M32
  let b1 := (t2 + t3) / M32 % M32
  -- sub.cc / subc.cc / subc : (t1:t0) - (b1:b0)
  let u0 := (t0 + (M32 - b0)) % M32
  let bw1 := (b0 + (W32 - t0)) / M32
  let u1 := (t1 + (M32 - b1) + (M32 - bw1)) % M32
  let bw2 := (b1 + bw1 + (W32 - t1)) / M32
  let cr := (M32 + (M32 - bw2)) % M32
  -- add.cc / addc : += (cr : -cr)
  let v0 := (u0 + (M32 - cr) % M32) % M32
  let c1 := (u0 + (M32 - cr) % M32) / M32
  let v1 := (u1 + cr + c1) % M32
  -- add.cc / addc : temp[1] += temp[2], temp[2] = carry
  let w1 := (v1 + t2) % M32
  let e := (v1 + t2) / M32 % M32
  -- add.cc / addc : += (0 : -e)
  foldN_pre70 v0 w1 e

theorem reduce4_pre70_toNat (v : BitVec 64) (t0 t1 t2 t3 : BitVec 32) :
    (reduce4_pre70 v t0 t1 t2 t3).toNat = reduce4N_pre70 t0.toNat t1.toNat t2.toNat t3.toNat := by
  unfold reduce4_pre70 reduce4N_pre70 foldN_pre70
  ptx_nat

/-- the 32-bit mad chains of `mul(const gl64_t&)`: the four words handed to `reduce` (continuation `k`) -/
def mulTN (a b : Nat) (k : Nat → Nat → Nat → Nat → Nat) : Nat :=
  let a0 := a % M32
  let b0 := b % M32
  let a1 := a / M32 % M32
  let b1 := b / M32 % M32
  let t0 := a0 * b0 % M32
  let t1 := a0 * b0 / M32
  let t2 := a1 * b1 % M32
  let t3 := a1 * b1 / M32
  let u1 := (a0 * b1 % M32 + t1) % M32
  let c1 := (a0 * b1 % M32 + t1) / M32
  let u2 := (a0 * b1 / M32 + t2 + c1) % M32
  let c2 := (a0 * b1 / M32 + t2 + c1) / M32
  let cr := c2 % M32
  let v1 := (a1 * b0 % M32 + u1) % M32
  let c3 := (a1 * b0 % M32 + u1) / M32
  let v2 := (a1 * b0 / M32 + u2 + c3) % M32
  let c4 := (a1 * b0 / M32 + u2 + c3) / M32
  let v3 := (t3 + cr + c4) % M32
  k t0 v1 v2 v3

/-- the mad chains of `mul(const gl64_t&)` in the header's alternative form (`# else` of the `# if 1`): the carry of
    the first chain is added into `temp[3]` at once instead of being isolated -/
def mulTN2 (a b : Nat) (k : Nat → Nat → Nat → Nat → Nat) : Nat :=
  let a0 := a % M32
  let b0 := b % M32
  let a1 := a / M32 % M32
  let b1 := b / M32 % M32
  let t0 := a0 * b0 % M32
  let t1 := a0 * b0 / M32
  let t2 := a1 * b1 % M32
  let t3 := a1 * b1 / M32
  let u1 := (a0 * b1 % M32 + t1) % M32
  let c1 := (a0 * b1 % M32 + t1) / M32
  let u2 := (a0 * b1 / M32 + t2 + c1) % M32
  let c2 := (a0 * b1 / M32 + t2 + c1) / M32
  let u3 := (t3 + 0 + c2) % M32
  let v1 := (a1 * b0 % M32 + u1) % M32
  let c3 := (a1 * b0 % M32 + u1) / M32
  let v2 := (a1 * b0 / M32 + u2 + c3) % M32
  let c4 := (a1 * b0 / M32 + u2 + c3) / M32
  let v3 := (u3 + 0 + c4) % M32
  k t0 v1 v2 v3

/-- what the tie of `mul` establishes: the result is one of the known mirrors of the mad chains, with the two factors in
    either role (`mulTN b a` is `mulTN a b` with the two cross-term chains issued in the other order and every product
    commuted); each mirror is proved to hand `k` the four words of the exact product in `Lemmas/PtxArith.lean` -/
def MulMirror (r x y : Nat) (k : Nat → Nat → Nat → Nat → Nat) : Prop :=
  r = mulTN x y k ∨ r = mulTN y x k ∨ r = mulTN2 x y k ∨ r = mulTN2 y x k

theorem mul_raw_sm70_toNat (a b : BitVec 64) :
    MulMirror (mul_raw_sm70 a b).toNat a.toNat b.toNat reduce4N_sm70 := by
  unfold MulMirror
  first
  | (refine Or.inl ?_; unfold mul_raw_sm70 mulTN; simp only [reduce4_sm70_toNat]; ptx_nat)
  | (refine Or.inr (Or.inl ?_); unfold mul_raw_sm70 mulTN; simp only [reduce4_sm70_toNat]; ptx_nat)
  | (refine Or.inr (Or.inr (Or.inl ?_)); unfold mul_raw_sm70 mulTN2; simp only [reduce4_sm70_toNat]; ptx_nat)
  | (refine Or.inr (Or.inr (Or.inr ?_)); unfold mul_raw_sm70 mulTN2; simp only [reduce4_sm70_toNat]; ptx_nat)

theorem mul_raw_pre70_toNat (a b : BitVec 64) :
    MulMirror (mul_raw_pre70 a b).toNat a.toNat b.toNat reduce4N_pre70 := by
  unfold MulMirror
  first
  | (refine Or.inl ?_; unfold mul_raw_pre70 mulTN; simp only [reduce4_pre70_toNat]; ptx_nat)
  | (refine Or.inr (Or.inl ?_); unfold mul_raw_pre70 mulTN; simp only [reduce4_pre70_toNat]; ptx_nat)
  | (refine Or.inr (Or.inr (Or.inl ?_)); unfold mul_raw_pre70 mulTN2; simp only [reduce4_pre70_toNat]; ptx_nat)
  | (refine Or.inr (Or.inr (Or.inr ?_)); unfold mul_raw_pre70 mulTN2; simp only [reduce4_pre70_toNat]; ptx_nat)

/-- `mul(uint32_t)`: common part, the words `(v0, v1)` and the carry `e` handed to the last fold (continuation `k`) -/
def mulU32TN (a b : Nat) (k : Nat → Nat → Nat → Nat) : Nat :=
  let a0 := a % M32
  let a1 := a / M32 % M32
  let t0 := a0 * b % M32
  let t1 := a0 * b / M32
  let u1 := (a1 * b % M32 + t1) % M32
  let c1 := (a1 * b % M32 + t1) / M32
  let u2 := (a1 * b / M32 + 0 + c1) % M32
  -- sub.cc / subc : (n1:n0) = u2 * (2^32 - 1)
  let n0 := (M32 - u2) % M32
  let bw := (u2 + W32) / M32
  let n1 := (u2 + M32 + (M32 - bw)) % M32
  let v0 := (t0 + n0) % M32
  let c2 := (t0 + n0) / M32
  let v1 := (u1 + n1 + c2) % M32
  let c3 := (u1 + n1 + c2) / M32
  let e := c3 % M32
  k v0 v1 e

theorem mul_u32_raw_sm70_toNat (a : BitVec 64) (b : BitVec 32) :
    (mul_u32_raw_sm70 a b).toNat = mulU32TN a.toNat b.toNat foldN_sm70 := by
  unfold mul_u32_raw_sm70 mulU32TN foldN_sm70
  ptx_nat

theorem mul_u32_raw_pre70_toNat (a : BitVec 64) (b : BitVec 32) :
    (mul_u32_raw_pre70 a b).toNat = mulU32TN a.toNat b.toNat foldN_pre70 := by
  unfold mul_u32_raw_pre70 mulU32TN foldN_pre70
  ptx_nat

end GoldilocksVerif.PtxN
