/-
  The TRANSLATED destructor `NTT_Goldilocks::~NTT_Goldilocks` (Gen/NttGen.lean: `NTT_dtor`) as a standalone statement, and
  histories that END with it.

  `HeapSafe.Owned self b` (Lemmas/HeapSafeOwn.lean) = "b is not the NULL block and is the block of `roots` / `powTwoInv` (when
  `s != 0`) or of `r` / `r_` (when not NULL)": exactly the pointers the destructor passes to `free` / `delete[]`.
    * `dtor_ext_owned`     : every block the object owns is RELEASED (extent 0 afterwards);
    * `dtor_block_unowned` : every other block keeps its CONTENT (hence its extent: `dtor_ext_unowned`).
  `runGB_then_dtor`: any state satisfying the history invariant `GInv`, any history of valid calls (buffers, `dst == NULL`:
  Lemmas/BridgeNttHistBuf.lean), then the destructor: the history returns, the destructor releases the object's blocks and
  leaves every caller block with the content the history gave it (= the fresh-object results of the hand model, `gcallB_step`).
  `life_then_dtor`: constructor → history → destructor from any heap; with the allocation-balance theorem `HeapSafe.life_balance`:
  afterwards EVERY extent is what it was before the constructor ran.
-/
import GoldilocksVerif.Lemmas.BridgeNttHistBuf
import GoldilocksVerif.Lemmas.HeapSafeOwn

namespace GoldilocksVerif.BridgeNtt
open GoldilocksVerif Gen.NttGen GoldilocksVerif.Model.Ntt GoldilocksVerif.HeapSafe

/-- `free(p)` leaves the content of every block other than p's; `free(NULL)` (and of any pointer into the NULL block) does nothing -/
theorem block_free_or (h : Heap) (p : Ptr) (c : Nat) (hc : c ≠ p.blk ∨ p.blk = 0) : (h.free p).block c = h.block c := by
  rcases hc with hc | hc
  · exact Heap.block_free_other _ _ _ hc
  · unfold Heap.free; rw [if_pos hc]

theorem block_free_if (h : Heap) (cond : Prop) [Decidable cond] (p : Ptr) (c : Nat) (hc : cond → c ≠ p.blk ∨ p.blk = 0) :
    (if cond then h.free p else h).block c = h.block c := by
  by_cases hcond : cond
  · rw [if_pos hcond]; exact block_free_or _ _ _ (hc hcond)
  · rw [if_neg hcond]

theorem ne_or_null (c : Nat) (p : Ptr) (h : c ≠ 0 → c = p.blk → False) : c ≠ p.blk ∨ p.blk = 0 := by
  by_cases e : c = p.blk
  · by_cases z : c = 0
    · right; rw [← e]; exact z
    · exact absurd e (h z)
  · exact Or.inl e

/-- **the destructor leaves the content of every block the object does not own** -/
theorem dtor_block_unowned (hp : Heap) (self : NTT_Goldilocks) (c : Nat) (hc : ¬ Owned self c) :
    (NTT_dtor hp self).block c = hp.block c := by
  have t1 : (self.s != 0#32) = true → c ≠ self.roots.blk ∨ self.roots.blk = 0 := fun hs =>
    ne_or_null _ _ (fun z e => hc (Or.inl ⟨z, (bne_true _ _).1 hs, Or.inl e⟩))
  have t2 : (self.s != 0#32) = true → c ≠ self.powTwoInv.blk ∨ self.powTwoInv.blk = 0 := fun hs =>
    ne_or_null _ _ (fun z e => hc (Or.inl ⟨z, (bne_true _ _).1 hs, Or.inr e⟩))
  have t3 : (self.r != Ptr.null) = true → c ≠ self.r.blk ∨ self.r.blk = 0 := fun hr =>
    ne_or_null _ _ (fun z e => hc (Or.inr ⟨z, Or.inl ⟨(bne_true _ _).1 hr, e⟩⟩))
  have t4 : (self.r_ != Ptr.null) = true → c ≠ self.r_.blk ∨ self.r_.blk = 0 := fun hr =>
    ne_or_null _ _ (fun z e => hc (Or.inr ⟨z, Or.inr ⟨(bne_true _ _).1 hr, e⟩⟩))
  have e1 : (if (self.s != 0#32) = true then (hp.free self.roots).free self.powTwoInv else hp).block c = hp.block c := by
    by_cases hs : (self.s != 0#32) = true
    · rw [if_pos hs, block_free_or _ _ _ (t2 hs), block_free_or _ _ _ (t1 hs)]
    · rw [if_neg hs]
  have e2 := block_free_if (if (self.s != 0#32) = true then (hp.free self.roots).free self.powTwoInv else hp)
    ((self.r != Ptr.null) = true) self.r c t3
  have e3 := block_free_if
    (if (self.r != Ptr.null) = true then
      (if (self.s != 0#32) = true then (hp.free self.roots).free self.powTwoInv else hp).free self.r
     else (if (self.s != 0#32) = true then (hp.free self.roots).free self.powTwoInv else hp))
    ((self.r_ != Ptr.null) = true) self.r_ c t4
  unfold NTT_dtor
  exact e3.trans (e2.trans e1)

/-- … hence its extent -/
theorem dtor_ext_unowned (hp : Heap) (self : NTT_Goldilocks) (c : Nat) (hc : ¬ Owned self c) :
    (NTT_dtor hp self).ext c = hp.ext c := by
  unfold Heap.ext; rw [dtor_block_unowned hp self c hc]

/-- **the destructor releases every block the object owns** -/
theorem dtor_ext_owned (hp : Heap) (hpos : 0 < hp.size) (self : NTT_Goldilocks) (c : Nat) (hc : Owned self c) :
    (NTT_dtor hp self).ext c = 0 := by
  classical
  have fr : Fr (fun b => if Owned self b then 0 else hp.ext b) (Owned self) hp :=
    ⟨hpos, fun b hb => if_pos hb, fun b hb => (if_neg hb).symm⟩
  have fd := dtor_own self fr (fun b hb => if_pos hb)
  have := fd.frame c (fun x => x.2 x.1)
  rw [this]
  exact if_pos hc

/-- a block that is none of the four the object state points to is not owned -/
theorem not_owned_of_frame (self : NTT_Goldilocks) (c : Nat) (h : ObjFrame self c) : ¬ Owned self c := by
  obtain ⟨f1, f2, f3, f4⟩ := h
  rintro (⟨_, _, e | e⟩ | ⟨_, ⟨_, e⟩ | ⟨_, e⟩⟩)
  exacts [f1 e, f2 e, f3 e, f4 e]

section history
variable (m e : Nat) (o0 : Obj) (hobj : mkObj m e = some o0) (he : e ≤ 1)
variable (fuel : Nat) (hf : 64 ≤ fuel) (n0 : Nat) (U : Nat → Prop) (sz : Nat → Nat)

include hobj he hf in
/-- **a history that ends with the destructor**: from any state satisfying the invariant, any history of valid calls returns (in a
    state satisfying the invariant: every call delivered the fresh-object result, `gcallB_step`); the destructor then releases
    every block the object owns and leaves the content of every other block — in particular of all the caller's blocks -/
theorem runGB_then_dtor (cs : List GCallB) (st : Heap × NTT_Goldilocks) (hinv : GInv o0 n0 U sz st)
    (hok : ∀ c, c ∈ cs → c.ok m fuel U sz) :
    ∃ st', runGB fuel st cs = some st' ∧ GInv o0 n0 U sz st' ∧
      (∀ b, Owned st'.2 b → (NTT_dtor st'.1 st'.2).ext b = 0) ∧
      (∀ b, ¬ Owned st'.2 b → (NTT_dtor st'.1 st'.2).block b = st'.1.block b) ∧
      (∀ b, U b → (NTT_dtor st'.1 st'.2).block b = st'.1.block b ∧ ((NTT_dtor st'.1 st'.2).block b).size = sz b) := by
  obtain ⟨st', hr, hinv'⟩ := runGB_inv m e o0 hobj he fuel hf n0 U sz cs st hinv hok
  have hpos : 0 < st'.1.size := by
    have := hinv'.oin.1; omega
  refine ⟨st', hr, hinv', fun b hb => dtor_ext_owned _ hpos _ _ hb, fun b hb => dtor_block_unowned _ _ _ hb, fun b ub => ?_⟩
  obtain ⟨_, _, hfr, hsz⟩ := hinv'.user b ub
  have := dtor_block_unowned st'.1 st'.2 b (not_owned_of_frame _ _ hfr)
  exact ⟨this, by rw [this]; exact hsz⟩

end history

/-- **the whole life of an object on the generated model**: the translated constructor on any heap (default-initialised
    members), ANY history of valid calls on the caller's blocks (buffers, `dst == NULL`), the translated destructor.  Everything
    returns (`HeapSafe.life` = the composition the allocation-balance theorem is about); every block that existed before keeps
    through the destructor the content the history gave it; every extent is afterwards what it was before the constructor ran:
    the object's blocks — all of them numbers ≥ the original heap size — are released, no other block is -/
theorem life_then_dtor (fuel : Nat) (hf : 64 ≤ fuel) (hp : Heap) (hpos : 0 < hp.size) (m : BitVec 64) (thr : BitVec 32) (e : Nat)
    (he : e ≤ 1) (hm0 : m ≠ 0#64) (o0 : Obj) (hobj : mkObj m.toNat e = some o0) (cs : List GCallB)
    (hok : ∀ c, c ∈ cs → c.ok m.toNat fuel (fun b => 0 < b ∧ b < hp.size) (fun b => (hp.block b).size)) :
    ∃ st0 st, NTT_ctor fuel hp NTT_Goldilocks.init m thr (e : Int) = some st0 ∧ runGB fuel st0 cs = some st ∧
      HeapSafe.life fuel hp m thr (e : Int) (cs.map GCallB.toRaw) = some (NTT_dtor st.1 st.2) ∧
      GInv o0 hp.size (fun b => 0 < b ∧ b < hp.size) (fun b => (hp.block b).size) st ∧
      (∀ b, b < hp.size → (NTT_dtor st.1 st.2).block b = st.1.block b) ∧
      (∀ b, (NTT_dtor st.1 st.2).ext b = hp.ext b) ∧
      (∀ b, hp.size ≤ b → (NTT_dtor st.1 st.2).ext b = 0) := by
  obtain ⟨st0, hc, hinv0, _⟩ := ctor_inv fuel hf hp hpos NTT_Goldilocks.init m thr e hm0 o0 hobj
  obtain ⟨st, hr, hinv, _, hun, huser⟩ := runGB_then_dtor m.toNat e o0 hobj he fuel hf hp.size _ _ cs st0 hinv0 hok
  have hlife : HeapSafe.life fuel hp m thr (e : Int) (cs.map GCallB.toRaw) = some (NTT_dtor st.1 st.2) := by
    unfold HeapSafe.life
    rw [hc]
    simp only [Option.bind_some]
    rw [runGB_toRaw, hr]
    rfl
  have hbal := life_balance fuel hp m thr (e : Int) (cs.map GCallB.toRaw) hpos _ hlife
  refine ⟨st0, st, hc, hr, hlife, hinv, fun b hb => ?_, hbal, fun b hb => by rw [hbal b]; exact Heap.ext_ge_size hp b hb⟩
  by_cases h0 : b = 0
  · exact hun b (by rw [h0]; rintro (⟨z, _⟩ | ⟨z, _⟩) <;> exact z rfl)
  · exact (huser b ⟨by omega, hb⟩).1

end GoldilocksVerif.BridgeNtt
