/-
  L2, part 5: `NTT` (column blocks), `INTT`, `extendPol` of the model against the specification.
-/
import GoldilocksVerif.Lemmas.NttIters
import GoldilocksVerif.Lemmas.NttMkObj
import GoldilocksVerif.Lemmas.NttEasy
import GoldilocksVerif.Lemmas.NttObj

namespace GoldilocksVerif.Model.Ntt
open GoldilocksVerif.NttSpec

/-- what a forward / inverse transform of the column `x` delivers in row `k'` (size 1: nothing is computed) -/
def outSpec (o : Obj) (d : Nat) (inverse extend : Bool) (x : Nat → F) (k' : Nat) : F :=
  if d = 0 then x 0
  else if inverse then dft (omega d)⁻¹ (2 ^ d) x k' * den (scaleFactor o extend d k')
  else dft (omega d) (2 ^ d) x k'

theorem nttIters_spec' (o : Obj) (dstB srcB auxB : Buf) (dstIsSrc : Bool) (d oc nc nca nphase : Nat) (inverse extend : Bool)
    (hd : d ≤ 32) (hR : RootsOk o d)
    (hdst : 2 ^ d * nc ≤ (if dstIsSrc then srcB else dstB).size) (haux : 2 ^ d * nc ≤ auxB.size)
    (hoc : oc + nc ≤ nca) (hip : dstIsSrc = true → oc = 0 ∧ nc = nca) :
    ∃ out, nttIters o dstB srcB auxB dstIsSrc (2 ^ d) oc nc nca nphase inverse extend
        = .ok (out, if dstIsSrc then out else srcB) ∧
      out.size = (if dstIsSrc then srcB else dstB).size ∧
      ∀ k' k, k' < 2 ^ d → k < nc →
        cell out nc k' k = outSpec o d inverse extend (xin o srcB (2 ^ d) nca oc k) k' := by
  obtain ⟨out, e, s, h0, h1, h2⟩ := nttIters_spec o dstB srcB auxB dstIsSrc d oc nc nca nphase inverse extend hd hR hdst haux hoc hip
  refine ⟨out, e, s, ?_⟩
  intro k' k hk' hk
  unfold outSpec
  by_cases hd0 : d = 0
  · rw [if_pos hd0]
    have : k' = 0 := by subst hd0; simpa using hk'
    subst this
    exact h0 hd0 k hk
  · rw [if_neg hd0]
    cases inverse
    · simp only [Bool.false_eq_true, if_false]
      exact h1 (by omega) rfl k' k hk' hk
    · simp only [if_true]
      exact h2 (by omega) rfl k' k hk' hk

/-! ### column blocks -/

theorem scatterBlock_spec (dst d : Buf) (n ncols off w : Nat) (how : off + w ≤ ncols) (hsz : n * ncols ≤ dst.size) :
    (scatterBlock dst d n ncols off w).size = dst.size ∧
    ∀ r c, c < ncols →
      cell (scatterBlock dst d n ncols off w) ncols r c
        = if r < n ∧ off ≤ c ∧ c < off + w then cell d w r (c - off) else cell dst ncols r c := by
  have key : ∀ m, m ≤ n →
      (iter m dst (fun ie dst => copyRow dst (ie * ncols + off) d (ie * w) w)).size = dst.size ∧
      ∀ r c, c < ncols →
        cell (iter m dst (fun ie dst => copyRow dst (ie * ncols + off) d (ie * w) w)) ncols r c
          = if r < m ∧ off ≤ c ∧ c < off + w then cell d w r (c - off) else cell dst ncols r c := by
    intro m
    induction m with
    | zero =>
      intro _
      refine ⟨rfl, fun r c _ => ?_⟩
      rw [if_neg (by omega)]; rfl
    | succ m ih =>
      intro hm
      obtain ⟨i1, i2⟩ := ih (by omega)
      rw [iter_succ]
      generalize iter m dst (fun ie dst => copyRow dst (ie * ncols + off) d (ie * w) w) = D at i1 i2
      refine ⟨by rw [copyRow_size, i1], ?_⟩
      intro r c hc
      have hfit := row_fits ncols n m dst.size (by omega) hsz
      rw [Nat.add_mul, Nat.one_mul] at hfit
      unfold cell
      rw [copyRow_getD]
      by_cases hin : r = m ∧ off ≤ c ∧ c < off + w
      · obtain ⟨h1, h2, h3⟩ := hin
        subst h1
        rw [if_pos (by rw [i1]; omega), if_pos (by omega)]
        have : r * w + (r * ncols + c - (r * ncols + off)) = r * w + (c - off) := by omega
        rw [this]
      · have hn : ¬ (m * ncols + off ≤ r * ncols + c ∧ r * ncols + c < m * ncols + off + w ∧ r * ncols + c < D.size) := by
          intro ⟨c1, c2, _⟩
          apply hin
          have e : r * ncols + c = m * ncols + (off + (r * ncols + c - (m * ncols + off))) := by omega
          obtain ⟨e1, e2⟩ := rowcol_inj ncols r c m _ hc (by omega) e
          exact ⟨e1, by omega, by omega⟩
        rw [if_neg hn]
        have := i2 r c hc
        unfold cell at this
        rw [this]
        by_cases hlt : r < m ∧ off ≤ c ∧ c < off + w
        · rw [if_pos hlt, if_pos (by omega)]
        · rw [if_neg hlt, if_neg (by omega)]
  unfold scatterBlock
  exact key n (Nat.le_refl _)

/-- width and offset of column block `ib` (`q = ncols / nblock`, `res = ncols % nblock`) -/
def blkW (q res ib : Nat) : Nat := q + (if ib < res then 1 else 0)
def blkOff (q res ib : Nat) : Nat := ib * q + min ib res

theorem blkOff_succ (q res ib : Nat) : blkOff q res (ib + 1) = blkOff q res ib + blkW q res ib := by
  unfold blkOff blkW
  rw [Nat.add_mul, Nat.one_mul]
  by_cases h : ib < res
  · rw [if_pos h, Nat.min_eq_left (by omega), Nat.min_eq_left (by omega)]; omega
  · rw [if_neg h, Nat.min_eq_right (by omega), Nat.min_eq_right (by omega)]; omega

theorem blkOff_mono (q res : Nat) : ∀ i j, i ≤ j → blkOff q res i ≤ blkOff q res j := by
  intro i j hij
  induction j with
  | zero => have : i = 0 := by omega
            subst this; exact Nat.le_refl _
  | succ j ih =>
    by_cases h : i = j + 1
    · subst h; exact Nat.le_refl _
    · have := ih (by omega)
      rw [blkOff_succ]; omega

theorem blkOff_total (ncols nblock : Nat) (h : 0 < nblock) :
    blkOff (ncols / nblock) (ncols % nblock) nblock = ncols := by
  unfold blkOff
  rw [Nat.min_eq_right (Nat.le_of_lt (Nat.mod_lt _ h))]
  exact Nat.div_add_mod ncols nblock

theorem outSpec_congr (o : Obj) (d : Nat) (inverse extend : Bool) (x y : Nat → F) (k' : Nat)
    (h : ∀ j, j < 2 ^ d → x j = y j) : outSpec o d inverse extend x k' = outSpec o d inverse extend y k' := by
  unfold outSpec
  rw [h 0 (Nat.two_pow_pos d), dft_congr _ _ x y k' h, dft_congr _ _ x y k' h]

theorem xin_cell (o : Obj) (srcB : Buf) (size nca oc k j : Nat) :
    xin o srcB size nca oc k j = if o.extension ≤ 1 ∨ j < size / o.extension then cell srcB nca j (oc + k) else 0 := by
  unfold xin cell
  rw [Nat.add_assoc]

theorem nttBlocks_spec (o : Obj) (dstIsSrc : Bool) (dstB srcB : Buf) (d ncols nphase nblock : Nat) (inverse extend : Bool)
    (hd : d ≤ 32) (hR : RootsOk o d) (hnb1 : 1 ≤ nblock) (hnb2 : nblock ≤ ncols)
    (hdst : 2 ^ d * ncols ≤ (if dstIsSrc then srcB else dstB).size) :
    ∃ out, nttBlocks o dstIsSrc dstB srcB (2 ^ d) ncols nphase nblock inverse extend
        = .ok (out, if dstIsSrc then out else srcB) ∧
      out.size = (if dstIsSrc then srcB else dstB).size ∧
      ∀ k' c, k' < 2 ^ d → c < ncols →
        cell out ncols k' c = outSpec o d inverse extend (xin o srcB (2 ^ d) ncols 0 c) k' := by
  unfold nttBlocks
  dsimp only
  by_cases hb : nblock ≤ 1
  · rw [if_pos hb]
    have h1 : nblock = 1 := by omega
    subst h1
    apply nttIters_spec' o dstB srcB _ dstIsSrc d 0 ncols ncols nphase inverse extend hd hR hdst
    · rw [Array.size_replicate, Nat.div_one]
      exact Nat.mul_le_mul_left _ (by omega)
    · omega
    · intro _; exact ⟨rfl, rfl⟩
  · rw [if_neg hb]
    generalize hq : ncols / nblock = q
    generalize hres : ncols % nblock = res
    generalize halloc : (q + if res > 0 then 1 else 0) = alloc
    generalize haux : Array.replicate (2 ^ d * alloc) (0#64 : W) = aux
    generalize hdst0 : (if dstIsSrc = true then srcB else dstB) = dst0 at hdst
    have hauxs : aux.size = 2 ^ d * alloc := by rw [← haux, Array.size_replicate]
    have hwle : ∀ ib, blkW q res ib ≤ alloc := by
      intro ib; unfold blkW; rw [← halloc]
      by_cases h : ib < res
      · rw [if_pos h, if_pos (by omega)]
      · rw [if_neg h]; omega
    have htot : blkOff q res nblock = ncols := by rw [← hq, ← hres]; exact blkOff_total ncols nblock (by omega)
    have key : ∀ ib, ib ≤ nblock → ∃ dst,
        iter ib (Except.ok (dst0, srcB, 0)) (nttBlock o aux dstIsSrc (2 ^ d) ncols nphase q res alloc inverse extend)
          = .ok (dst, if dstIsSrc then dst else srcB, blkOff q res ib) ∧
        dst.size = dst0.size ∧
        (∀ k' c, k' < 2 ^ d → c < blkOff q res ib →
          cell dst ncols k' c = outSpec o d inverse extend (xin o srcB (2 ^ d) ncols 0 c) k') ∧
        (∀ k' c, k' < 2 ^ d → blkOff q res ib ≤ c → c < ncols → cell dst ncols k' c = cell dst0 ncols k' c) := by
      intro ib
      induction ib with
      | zero =>
        intro _
        refine ⟨dst0, ?_, rfl, ?_, fun _ _ _ _ _ => rfl⟩
        · rw [iter_zero]
          have e1 : (if dstIsSrc = true then dst0 else srcB) = srcB := by
            cases dstIsSrc
            · rfl
            · simp at hdst0; simp; exact hdst0.symm
          have e2 : blkOff q res 0 = 0 := by simp [blkOff]
          rw [e1, e2]
        · intro k' c _ hc
          have e2 : blkOff q res 0 = 0 := by simp [blkOff]
          rw [e2] at hc; omega
      | succ ib ih =>
        intro hib
        obtain ⟨dst, e, i1, i2, i3⟩ := ih (by omega)
        rw [iter_succ, e]
        unfold nttBlock
        simp only
        have hoff : blkOff q res ib + blkW q res ib ≤ ncols := by
          rw [← blkOff_succ, ← htot]; exact blkOff_mono q res _ _ hib
        have hw : (q + if ib < res then 1 else 0) = blkW q res ib := rfl
        rw [hw]
        generalize hsrc : (if dstIsSrc = true then dst else srcB) = src
        obtain ⟨dd, e2, s2, c2⟩ := nttIters_spec' o (Array.replicate (2 ^ d * alloc) (0#64 : W)) src aux false d
          (blkOff q res ib) (blkW q res ib) ncols nphase inverse extend hd hR
          (by simp only [Bool.false_eq_true, if_false, Array.size_replicate]; exact Nat.mul_le_mul_left _ (hwle ib))
          (by rw [hauxs]; exact Nat.mul_le_mul_left _ (hwle ib)) hoff (by simp)
        rw [e2]
        simp only [Bool.false_eq_true, if_false]
        obtain ⟨t1, t2⟩ := scatterBlock_spec dst dd (2 ^ d) ncols (blkOff q res ib) (blkW q res ib) hoff (by rw [i1]; exact hdst)
        refine ⟨scatterBlock dst dd (2 ^ d) ncols (blkOff q res ib) (blkW q res ib), ?_, by rw [t1, i1], ?_, ?_⟩
        · rw [blkOff_succ, ← hsrc]
          cases dstIsSrc <;> rfl
        · intro k' c hk' hc
          rw [blkOff_succ] at hc
          have hcn : c < ncols := by omega
          rw [t2 k' c hcn]
          by_cases hin : k' < 2 ^ d ∧ blkOff q res ib ≤ c ∧ c < blkOff q res ib + blkW q res ib
          · rw [if_pos hin, c2 k' (c - blkOff q res ib) hk' (by omega)]
            apply outSpec_congr
            intro j hj
            rw [xin_cell, xin_cell]
            have ec : blkOff q res ib + (c - blkOff q res ib) = 0 + c := by omega
            rw [ec]
            have : cell src ncols j (0 + c) = cell srcB ncols j (0 + c) := by
              rw [← hsrc]
              cases dstIsSrc
              · rfl
              · simp only [if_true]
                rw [Nat.zero_add, i3 j c hj (by omega) hcn]
                simp at hdst0; rw [hdst0]
            rw [this]
          · rw [if_neg hin]
            exact i2 k' c hk' (by omega)
        · intro k' c hk' hc hcn
          rw [blkOff_succ] at hc
          rw [t2 k' c hcn, if_neg (by omega)]
          exact i3 k' c hk' (by omega) hcn
    obtain ⟨dst, e, i1, i2, _⟩ := key nblock (Nat.le_refl _)
    rw [e]
    simp only
    exact ⟨dst, rfl, i1, fun k' c hk' hc => i2 k' c hk' (by rw [htot]; exact hc)⟩

/-! ### the public functions -/

/-- what the proofs need to know about a transform object usable up to size `2^D` -/
structure ObjOk (o : Obj) (D : Nat) : Prop where
  dle : D ≤ 32
  roots : RootsOk o D
  pti : ∀ k, k ≤ D → den (o.powTwoInv.getD k 0#64) * (2 : F) ^ k = 1
  ext : o.extension ≤ 1
  wf : o.wf

theorem ObjOk.mono {o : Obj} {D D' : Nat} (h : ObjOk o D) (hD : D' ≤ D) : ObjOk o D' :=
  ⟨by have := h.dle; omega, fun dp idx h1 h2 h3 => h.roots dp idx h1 (by omega) h3, fun k hk => h.pti k (by omega), h.ext, h.wf⟩

/-- a constructed object (extension 0 or 1) is usable up to its maximum domain size -/
theorem mkObj_ok (m e : Nat) (o : Obj) (hm : m ≠ 0) (he : e ≤ 1) (h : mkObj m e = some o) : ObjOk o (log2 m) := by
  obtain ⟨h1, h2, h3, h4, h5⟩ := mkObj_spec m e o hm h
  exact ⟨h1, h4, h5, by rw [h2]; exact he, wf_of_fresh o h3⟩

theorem ObjOk.setCache {o : Obj} {D : Nat} (h : ObjOk o D) (c) (hc : (setCache o c).wf) : ObjOk (setCache o c) D :=
  ⟨h.dle, h.roots, h.pti, h.ext, hc⟩

theorem clampBlock_range (nblock ncols : Nat) (h : 1 ≤ ncols) : 1 ≤ clampBlock nblock ncols ∧ clampBlock nblock ncols ≤ ncols := by
  unfold clampBlock
  split
  · omega
  · split <;> omega

theorem outSpec_fwd (o : Obj) (d : Nat) (extend : Bool) (x : Nat → F) (k' : Nat) (hk : k' < 2 ^ d) :
    outSpec o d false extend x k' = dft (omega d) (2 ^ d) x k' := by
  unfold outSpec
  by_cases hd : d = 0
  · subst hd
    have : k' = 0 := by simpa using hk
    subst this
    rw [if_pos rfl]
    unfold dft
    simp
  · rw [if_neg hd]; simp

/-- the transform of the model, all shapes: never aborts, destination size unchanged, every output cell as specified -/
theorem ntt_spec (o : Obj) (mode : DstMode) (dstB srcB : Buf) (d ncols nphase nblock : Nat) (inverse extend : Bool)
    (hd : d ≤ 32) (hR : RootsOk o d) (hnc : 1 ≤ ncols)
    (hdst : 2 ^ d * ncols ≤ (if mode = .other then dstB else srcB).size) :
    ∃ out, ntt o mode dstB srcB (2 ^ d) ncols nphase nblock inverse extend
        = .ok (out, if mode = .other then srcB else out) ∧
      out.size = (if mode = .other then dstB else srcB).size ∧
      ∀ k' c, k' < 2 ^ d → c < ncols →
        cell out ncols k' c = outSpec o d inverse extend (xin o srcB (2 ^ d) ncols 0 c) k' := by
  unfold ntt
  have h0 : ¬ (ncols = 0 ∨ 2 ^ d = 0) := by
    have := Nat.two_pow_pos d; omega
  rw [if_neg h0]
  obtain ⟨b1, b2⟩ := clampBlock_range nblock ncols hnc
  have hmode : (if (decide (mode ≠ DstMode.other) : Bool) = true then srcB else dstB) = (if mode = .other then dstB else srcB) := by
    cases mode <;> rfl
  obtain ⟨out, e, s, c⟩ := nttBlocks_spec o (decide (mode ≠ DstMode.other)) dstB srcB d ncols nphase (clampBlock nblock ncols) inverse extend
    hd hR b1 b2 (by rw [hmode]; exact hdst)
  refine ⟨out, ?_, by rw [s, hmode], c⟩
  rw [e]
  cases mode <;> rfl

/-- C03 in the model: the forward transform computes the DFT of every column -/
theorem ntt_forward (o : Obj) (D : Nat) (hO : ObjOk o D) (mode : DstMode) (dstB srcB : Buf) (d ncols nphase nblock : Nat)
    (hd : d ≤ D) (hnc : 1 ≤ ncols)
    (hdst : 2 ^ d * ncols ≤ (if mode = .other then dstB else srcB).size) :
    ∃ out, ntt o mode dstB srcB (2 ^ d) ncols nphase nblock false false = .ok (out, if mode = .other then srcB else out) ∧
      out.size = (if mode = .other then dstB else srcB).size ∧
      ∀ k c, k < 2 ^ d → c < ncols →
        cell out ncols k c = dft (omega d) (2 ^ d) (fun j => cell srcB ncols j c) k := by
  have hO' := hO.mono hd
  obtain ⟨out, e, s, c⟩ := ntt_spec o mode dstB srcB d ncols nphase nblock false false hO'.dle hO'.roots hnc hdst
  refine ⟨out, e, s, ?_⟩
  intro k c' hk hc
  rw [c k c' hk hc, outSpec_fwd _ _ _ _ _ hk]
  apply dft_congr
  intro j _
  rw [xin_cell, if_pos (Or.inl hO.ext), Nat.zero_add]

/-- C04 in the model: the inverse transform computes the inverse DFT of every column -/
theorem intt_inverse (o : Obj) (D : Nat) (hO : ObjOk o D) (mode : DstMode) (dstB srcB : Buf) (d ncols nphase nblock : Nat)
    (hd : d ≤ D) (hnc : 1 ≤ ncols)
    (hdst : 2 ^ d * ncols ≤ (if mode = .other then dstB else srcB).size) :
    ∃ out, intt o mode dstB srcB (2 ^ d) ncols nphase nblock false = .ok (out, if mode = .other then srcB else out) ∧
      out.size = (if mode = .other then dstB else srcB).size ∧
      ∀ k c, k < 2 ^ d → c < ncols →
        cell out ncols k c = idft (omega d) (2 ^ d) (fun j => cell srcB ncols j c) k := by
  have hO' := hO.mono hd
  rw [intt_eq_ntt]
  have hm : ∀ {α : Type} (x y : α), (if (if mode = DstMode.null then DstMode.same else mode) = DstMode.other then x else y)
      = (if mode = DstMode.other then x else y) := by
    intro α x y; cases mode <;> rfl
  obtain ⟨out, e, s, c⟩ := ntt_spec o (if mode = .null then .same else mode) dstB srcB d ncols nphase nblock true false
    hO'.dle hO'.roots hnc (by rw [hm]; exact hdst)
  rw [hm] at e s
  refine ⟨out, e, s, ?_⟩
  intro k c' hk hc
  rw [c k c' hk hc]
  have hx : ∀ j, j < 2 ^ d → xin o srcB (2 ^ d) ncols 0 c' j = cell srcB ncols j c' := by
    intro j _; rw [xin_cell, if_pos (Or.inl hO.ext), Nat.zero_add]
  rw [outSpec_congr o d true false _ _ k hx]
  unfold outSpec
  by_cases hd0 : d = 0
  · subst hd0
    have : k = 0 := by simpa using hk
    subst this
    rw [if_pos rfl]
    unfold idft
    simp
  · rw [if_neg hd0]
    simp only [if_true]
    rw [mul_comm]
    apply idft_scaled
    have := hO'.pti d (Nat.le_refl _)
    unfold scaleFactor
    simp only [Bool.false_eq_true, if_false]
    push_cast
    exact this

theorem intt_spec (o : Obj) (mode : DstMode) (dstB srcB : Buf) (d ncols nphase nblock : Nat) (extend : Bool)
    (hd : d ≤ 32) (hR : RootsOk o d) (hnc : 1 ≤ ncols)
    (hdst : 2 ^ d * ncols ≤ (if mode = .other then dstB else srcB).size) :
    ∃ out, intt o mode dstB srcB (2 ^ d) ncols nphase nblock extend
        = .ok (out, if mode = .other then srcB else out) ∧
      out.size = (if mode = .other then dstB else srcB).size ∧
      ∀ k' c, k' < 2 ^ d → c < ncols →
        cell out ncols k' c = outSpec o d true extend (xin o srcB (2 ^ d) ncols 0 c) k' := by
  rw [intt_eq_ntt]
  have hm : ∀ {α : Type} (x y : α), (if (if mode = DstMode.null then DstMode.same else mode) = DstMode.other then x else y)
      = (if mode = DstMode.other then x else y) := by
    intro α x y; cases mode <;> rfl
  obtain ⟨out, e, s, c⟩ := ntt_spec o (if mode = .null then .same else mode) dstB srcB d ncols nphase nblock true extend
    hd hR hnc (by rw [hm]; exact hdst)
  rw [hm] at e s
  exact ⟨out, e, s, c⟩

/-- C05 in the model: `extendPol` evaluates the interpolant of every column on the coset `7·ω_ext^k` -/
theorem extendPol_spec (o : Obj) (D : Nat) (hO : ObjOk o D) (same : Bool) (outB inB : Buf) (dn de ncols nphase nblock : Nat)
    (hdn : dn ≤ D) (hde : dn ≤ de) (hde32 : de ≤ 32) (hnc : 1 ≤ ncols)
    (hout : 2 ^ de * ncols ≤ (if same then inB else outB).size) :
    ∃ o' out, extendPol o same outB inB (2 ^ de) (2 ^ dn) ncols nphase nblock = .ok (o', out) ∧
      out.size = (if same then inB else outB).size ∧ o'.wf ∧ o'.base = o.base ∧
      ∀ k c, k < 2 ^ de → c < ncols →
        cell out ncols k c = lde 7 (omega dn) (omega de) (2 ^ dn) (fun j => cell inB ncols j c) k := by
  have hOn := hO.mono hdn
  have hlog : log2 (2 ^ de) = de := Nat.log2_two_pow
  have hE : 2 ^ de / 2 ^ dn = 2 ^ (de - dn) := Nat.pow_div hde (by omega)
  have hne : 2 ^ de ≠ 0 := Nat.ne_of_gt (Nat.two_pow_pos de)
  obtain ⟨oext, hoext⟩ := mkObj_some (2 ^ de) (2 ^ de / 2 ^ dn) (by rw [hlog]; exact hde32)
  obtain ⟨_, x2, _, x4, _⟩ := mkObj_spec (2 ^ de) (2 ^ de / 2 ^ dn) oext hne hoext
  rw [hlog] at x4
  have hRext : RootsOk oext de := x4
  -- the object after the cache refresh
  have hrc := refreshCache_of_wf o hO.wf (2 ^ dn)
  have hwf' := refreshCache_wf o hO.wf (2 ^ dn)
  have hbase' := refreshCache_base o hO.wf (2 ^ dn)
  generalize ho' : refreshCache o (2 ^ dn) = o' at hrc hwf' hbase'
  have hR' : RootsOk o' dn := by
    intro dp idx h1 h2 h3
    rw [hrc]
    exact hOn.roots dp idx h1 h2 h3
  have hext' : o'.extension ≤ 1 := by rw [hrc]; exact hO.ext
  have hle : 2 ^ dn * ncols ≤ 2 ^ de * ncols := Nat.mul_le_mul_right _ (Nat.pow_le_pow_right (by omega) hde)
  -- step 1: the scaled inverse transform
  have hm1 : ∀ {α : Type} (x y : α), (if (if same = true then DstMode.same else DstMode.other) = DstMode.other then x else y)
      = (if same = true then y else x) := by
    intro α x y; cases same <;> rfl
  obtain ⟨out1, e1, s1, c1⟩ := intt_spec o' (if same then .same else .other) outB inB dn ncols nphase nblock true
    hOn.dle hR' hnc (by rw [hm1]; exact Nat.le_trans hle hout)
  rw [hm1] at e1 s1
  -- step 2: the forward transform of the zero-extended result
  obtain ⟨out2, e2, s2, c2⟩ := ntt_spec oext .same #[] out1 de ncols nphase nblock false false hde32 hRext hnc
    (by simp only [reduceCtorEq, if_false]; rw [s1]; exact hout)
  simp only [reduceCtorEq, if_false] at e2 s2
  unfold extendPol
  rw [hoext]
  simp only
  rw [ho', e1]
  simp only
  rw [e2]
  simp only
  refine ⟨o', out2, rfl, by rw [s2, s1], hwf', hbase', ?_⟩
  intro k c hk hc
  rw [c2 k c hk hc, outSpec_fwd _ _ _ _ _ hk]
  unfold lde
  rw [← dft_zero_ext (omega de) 7 (2 ^ dn) (2 ^ de) (Nat.pow_le_pow_right (by omega) hde)]
  apply dft_congr
  intro j hj
  rw [xin_cell, x2, hE, Nat.zero_add]
  -- the zero-extension condition
  have hcond : (2 ^ (de - dn) ≤ 1 ∨ j < 2 ^ de / 2 ^ (de - dn)) ↔ j < 2 ^ dn := by
    have h2 : 2 ^ de / 2 ^ (de - dn) = 2 ^ dn := by
      rw [Nat.pow_div (by omega) (by omega)]; congr 1; omega
    rw [h2]
    constructor
    · rintro (h | h)
      · have : de - dn = 0 := by
          rcases Nat.eq_zero_or_pos (de - dn) with h0 | h0
          · exact h0
          · have := Nat.one_lt_two_pow (n := de - dn) (by omega); omega
        have : de = dn := by omega
        rw [this] at hj; exact hj
      · exact h
    · intro h; exact Or.inr h
  by_cases hjn : j < 2 ^ dn
  · rw [if_pos (hcond.mpr hjn), if_pos hjn, c1 j c hjn hc]
    have hx : ∀ i, i < 2 ^ dn → xin o' inB (2 ^ dn) ncols 0 c i = cell inB ncols i c := by
      intro i _; rw [xin_cell, if_pos (Or.inl hext'), Nat.zero_add]
    rw [outSpec_congr o' dn true true _ _ j hx]
    unfold outSpec
    by_cases hd0 : dn = 0
    · subst hd0
      have : j = 0 := by simpa using hjn
      subst this
      rw [if_pos rfl]
      unfold idft
      simp
    · rw [if_neg hd0]
      simp only [if_true]
      have hsf : den (scaleFactor o' true dn j) = 7 ^ j * den (o.powTwoInv.getD dn 0#64) := by
        unfold scaleFactor
        simp only [if_true]
        rw [hrc]
        simp only [setCache]
        obtain ⟨_, _, r3⟩ := computeR_spec o.base (2 ^ dn) (Nat.two_pow_pos dn)
        have := r3 j hjn
        have hlogn : log2 (2 ^ dn) = dn := Nat.log2_two_pow
        rw [hlogn] at this
        exact this
      rw [hsf]
      have hs := hOn.pti dn (Nat.le_refl _)
      rw [← idft_scaled (omega dn) (2 ^ dn) _ j (den (o.powTwoInv.getD dn 0#64)) (by push_cast; exact hs)]
      ring
  · rw [if_neg (fun h => hjn (hcond.mp h)), if_neg hjn]

end GoldilocksVerif.Model.Ntt
