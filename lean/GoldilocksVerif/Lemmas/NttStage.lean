/-
  L2, part 1: the butterfly loops of the model (`bfly`, `stage`, `batchStages`) in the field view.
  `cell a nc r k` is the field element in row `r`, column `k` of a row-major buffer with `nc` columns.
-/
import GoldilocksVerif.Lemmas.NttSpec
import GoldilocksVerif.Lemmas.NttArr

namespace GoldilocksVerif.Model.Ntt
open GoldilocksVerif.NttSpec

/-- the field element in row `r`, column `k` -/
def cell (a : Buf) (nc r k : Nat) : F := den (a.getD (r * nc + k) 0#64)

/-! ### mixed-radix arithmetic -/

theorem mr_div (a r U : Nat) (hr : r < U) : (a * U + r) / U = a := by
  rw [Nat.add_comm, Nat.add_mul_div_right _ _ (by omega), Nat.div_eq_of_lt hr, Nat.zero_add]

theorem mr_mod (a r U : Nat) (hr : r < U) : (a * U + r) % U = r := by
  rw [Nat.add_comm, Nat.add_mul_mod_self_right, Nat.mod_eq_of_lt hr]

theorem mr_lt (a r U M : Nat) (ha : a < M) (hr : r < U) : a * U + r < M * U := by
  have : (a + 1) * U ≤ M * U := Nat.mul_le_mul_right U (by omega)
  rw [Nat.add_mul, Nat.one_mul] at this
  omega

/-! ### one butterfly (a pair of rows) -/

theorem bflyStep_size (w : W) (o1 o2 k : Nat) (a : Buf) : (bflyStep w o1 o2 k a).size = a.size := by
  unfold bflyStep
  simp only [Array.size_setIfInBounds]

theorem bfly_size (a : Buf) (w : W) (o1 o2 nc : Nat) : (bfly a w o1 o2 nc).size = a.size := by
  unfold bfly
  induction nc with
  | zero => rfl
  | succ n ih => rw [iter_succ, bflyStep_size, ih]

/-- the first `m` columns of the two rows are updated, everything else is untouched -/
theorem bfly_getD (a : Buf) (w : W) (o1 o2 nc : Nat) (hd : o1 + nc ≤ o2 ∨ o2 + nc ≤ o1)
    (h1 : o1 + nc ≤ a.size) (h2 : o2 + nc ≤ a.size) : ∀ m, m ≤ nc → ∀ j,
    (iter m a (bflyStep w o1 o2)).getD j 0#64 =
      if o2 ≤ j ∧ j < o2 + m then Gen.Scalar.add__eEE (Gen.Scalar.mul__rEE w (a.getD (o1 + (j - o2)) 0#64)) (a.getD j 0#64)
      else if o1 ≤ j ∧ j < o1 + m then Gen.Scalar.sub__eEE (a.getD (o2 + (j - o1)) 0#64) (Gen.Scalar.mul__rEE w (a.getD j 0#64))
      else a.getD j 0#64 := by
  intro m
  induction m with
  | zero =>
    intro _ j
    rw [iter_zero, if_neg (by omega), if_neg (by omega)]
  | succ m ih =>
    intro hm j
    have ih' := ih (by omega)
    have hs : (iter m a (bflyStep w o1 o2)).size = a.size := by
      have := bfly_size a w o1 o2 m
      unfold bfly at this
      exact this
    rw [iter_succ]
    generalize hA : iter m a (bflyStep w o1 o2) = A at ih' hs
    unfold bflyStep
    simp only
    have e1 : A.getD (o1 + m) 0#64 = a.getD (o1 + m) 0#64 := by
      rw [ih' (o1 + m), if_neg (by omega), if_neg (by omega)]
    have e2 : A.getD (o2 + m) 0#64 = a.getD (o2 + m) 0#64 := by
      rw [ih' (o2 + m), if_neg (by omega), if_neg (by omega)]
    rw [e1, e2, getD_set, getD_set, Array.size_setIfInBounds, hs, ih' j]
    by_cases c1 : j = o1 + m
    · subst c1
      rw [if_pos ⟨rfl, by omega⟩, if_neg (by omega), if_pos (by omega)]
      have : o2 + (o1 + m - o1) = o2 + m := by omega
      rw [this]
    · rw [if_neg (fun c => c1 c.1)]
      by_cases c2 : j = o2 + m
      · subst c2
        rw [if_pos ⟨rfl, by omega⟩, if_pos (by omega)]
        have : o1 + (o2 + m - o2) = o1 + m := by omega
        rw [this]
      · rw [if_neg (fun c => c2 c.1)]
        by_cases c3 : o2 ≤ j ∧ j < o2 + m
        · have p3 : o2 ≤ j ∧ j < o2 + (m + 1) := by omega
          rw [if_pos c3, if_pos p3]
        · have n3 : ¬ (o2 ≤ j ∧ j < o2 + (m + 1)) := by omega
          rw [if_neg c3, if_neg n3]
          by_cases c4 : o1 ≤ j ∧ j < o1 + m
          · have p4 : o1 ≤ j ∧ j < o1 + (m + 1) := by omega
            rw [if_pos c4, if_pos p4]
          · have n4 : ¬ (o1 ≤ j ∧ j < o1 + (m + 1)) := by omega
            rw [if_neg c4, if_neg n4]

/-- a butterfly on the rows `r1` (multiplied by the twiddle) and `r2`, in the field view -/
theorem bfly_cell (a : Buf) (w : W) (nc r1 r2 : Nat) (hne : r1 ≠ r2) (h1 : (r1 + 1) * nc ≤ a.size)
    (h2 : (r2 + 1) * nc ≤ a.size) (r k : Nat) (hk : k < nc) :
    cell (bfly a w (r1 * nc) (r2 * nc) nc) nc r k =
      if r = r2 then den w * cell a nc r1 k + cell a nc r2 k
      else if r = r1 then cell a nc r2 k - den w * cell a nc r1 k
      else cell a nc r k := by
  have hd : r1 * nc + nc ≤ r2 * nc ∨ r2 * nc + nc ≤ r1 * nc := by
    rcases Nat.lt_or_gt_of_ne hne with h | h
    · left
      have := Nat.mul_le_mul_right nc (show r1 + 1 ≤ r2 by omega)
      rw [Nat.add_mul, Nat.one_mul] at this; exact this
    · right
      have := Nat.mul_le_mul_right nc (show r2 + 1 ≤ r1 by omega)
      rw [Nat.add_mul, Nat.one_mul] at this; exact this
  rw [Nat.add_mul, Nat.one_mul] at h1 h2
  unfold cell bfly
  rw [bfly_getD a w (r1 * nc) (r2 * nc) nc hd h1 h2 nc (Nat.le_refl _)]
  by_cases c1 : r = r2
  · subst c1
    rw [if_pos rfl, if_pos (by omega), den_add, den_mul_r]
    have : r1 * nc + (r * nc + k - r * nc) = r1 * nc + k := by omega
    rw [this]
  · rw [if_neg c1]
    have n2 : ¬ (r2 * nc ≤ r * nc + k ∧ r * nc + k < r2 * nc + nc) := by
      intro c
      apply c1
      have e : r * nc + k = r2 * nc + (r * nc + k - r2 * nc) := by omega
      exact (rowcol_inj nc r k r2 _ hk (by omega) e).1
    rw [if_neg n2]
    by_cases c2 : r = r1
    · subst c2
      rw [if_pos rfl, if_pos (by omega), den_sub, den_mul_r]
      have : r2 * nc + (r * nc + k - r * nc) = r2 * nc + k := by omega
      rw [this]
    · rw [if_neg c2]
      have n1 : ¬ (r1 * nc ≤ r * nc + k ∧ r * nc + k < r1 * nc + nc) := by
        intro c
        apply c2
        have e : r * nc + k = r1 * nc + (r * nc + k - r1 * nc) := by omega
        exact (rowcol_inj nc r k r1 _ hk (by omega) e).1
      rw [if_neg n1]

/-! ### one stage of one batch -/

/-- the lower row (relative to the batch) of butterfly `i` when the half-distance is `U` -/
def loR (U i : Nat) : Nat := (i / U) * (U * 2) + i % U

theorem loR_div (U i : Nat) (hU : 0 < U) : loR U i / (U * 2) = i / U :=
  mr_div _ _ _ (by have := Nat.mod_lt i hU; omega)
theorem loR_mod (U i : Nat) (hU : 0 < U) : loR U i % (U * 2) = i % U :=
  mr_mod _ _ _ (by have := Nat.mod_lt i hU; omega)
theorem hiR_div (U i : Nat) (hU : 0 < U) : (loR U i + U) / (U * 2) = i / U := by
  unfold loR; rw [Nat.add_assoc]
  exact mr_div _ _ _ (by have := Nat.mod_lt i hU; omega)
theorem hiR_mod (U i : Nat) (hU : 0 < U) : (loR U i + U) % (U * 2) = i % U + U := by
  unfold loR; rw [Nat.add_assoc]
  exact mr_mod _ _ _ (by have := Nat.mod_lt i hU; omega)

theorem loR_inj (U i j : Nat) (hU : 0 < U) (h : loR U i = loR U j) : i = j := by
  have h1 := loR_div U i hU
  have h2 := loR_mod U i hU
  rw [h, loR_div U j hU] at h1
  rw [h, loR_mod U j hU] at h2
  rw [← Nat.div_add_mod i U, ← Nat.div_add_mod j U, h1, h2]

theorem loR_ne_hiR (U i j : Nat) (hU : 0 < U) : loR U i ≠ loR U j + U := by
  intro h
  have h2 := loR_mod U i hU
  rw [h, hiR_mod U j hU] at h2
  have := Nat.mod_lt i hU
  omega

theorem hiR_lt (U M i : Nat) (hU : 0 < U) (hi : i < M * U) : loR U i + U < M * (U * 2) := by
  unfold loR
  rw [Nat.add_assoc]
  apply mr_lt
  · exact Nat.div_lt_of_lt_mul (by rw [Nat.mul_comm]; exact hi)
  · have := Nat.mod_lt i hU; omega

theorem stageStep_eq (o : Obj) (s si b B nc rs re rb i : Nat) (a : Buf) :
    stageStep o s si b B nc rs re rb i a
      = bfly a (root o (s + si) (twIdx s si b B rs re rb i)) ((b * B + loR (2 ^ si) i + 2 ^ si) * nc)
          ((b * B + loR (2 ^ si) i) * nc) nc := by
  unfold stageStep loR
  simp only [Nat.add_assoc]

theorem stage_spec (o : Obj) (a : Buf) (s si b B nc rs re rb rm M : Nat) (hB : B = M * (2 ^ si * 2))
    (hsz : (b + 1) * B * nc ≤ a.size) :
    (stage o a s si b B nc rs re rb rm).size = a.size ∧
    (∀ i k, i < M * 2 ^ si → k < nc →
      cell (stage o a s si b B nc rs re rb rm) nc (b * B + loR (2 ^ si) i) k
        = den (root o (s + si) (twIdx s si b B rs re rb i)) * cell a nc (b * B + loR (2 ^ si) i + 2 ^ si) k
          + cell a nc (b * B + loR (2 ^ si) i) k ∧
      cell (stage o a s si b B nc rs re rb rm) nc (b * B + loR (2 ^ si) i + 2 ^ si) k
        = cell a nc (b * B + loR (2 ^ si) i) k
          - den (root o (s + si) (twIdx s si b B rs re rb i)) * cell a nc (b * B + loR (2 ^ si) i + 2 ^ si) k) ∧
    (∀ r k, k < nc → (r < b * B ∨ (b + 1) * B ≤ r) →
      cell (stage o a s si b B nc rs re rb rm) nc r k = cell a nc r k) := by
  generalize hU : 2 ^ si = U at *
  have hU0 : 0 < U := by rw [← hU]; exact Nat.two_pow_pos si
  have hhalf : B / 2 = M * U := by rw [hB, ← Nat.mul_assoc]; exact Nat.mul_div_cancel _ (by omega)
  -- the loop invariant
  have key : ∀ m, m ≤ M * U →
      (iter m a (stageStep o s si b B nc rs re rb)).size = a.size ∧
      (∀ i k, i < m → k < nc →
        cell (iter m a (stageStep o s si b B nc rs re rb)) nc (b * B + loR U i) k
          = den (root o (s + si) (twIdx s si b B rs re rb i)) * cell a nc (b * B + loR U i + U) k
            + cell a nc (b * B + loR U i) k ∧
        cell (iter m a (stageStep o s si b B nc rs re rb)) nc (b * B + loR U i + U) k
          = cell a nc (b * B + loR U i) k
            - den (root o (s + si) (twIdx s si b B rs re rb i)) * cell a nc (b * B + loR U i + U) k) ∧
      (∀ r k, k < nc → (∀ i, i < m → r ≠ b * B + loR U i ∧ r ≠ b * B + loR U i + U) →
        cell (iter m a (stageStep o s si b B nc rs re rb)) nc r k = cell a nc r k) := by
    intro m
    induction m with
    | zero =>
      intro _
      exact ⟨rfl, fun i k hi => absurd hi (by omega), fun r k _ _ => rfl⟩
    | succ m ih =>
      intro hm
      obtain ⟨ihs, ih2, ih3⟩ := ih (by omega)
      rw [iter_succ]
      generalize iter m a (stageStep o s si b B nc rs re rb) = A at ihs ih2 ih3
      rw [stageStep_eq, hU]
      have hw : ∃ w, w = root o (s + si) (twIdx s si b B rs re rb m) := ⟨_, rfl⟩
      obtain ⟨w, hw⟩ := hw
      rw [← hw]
      have hlt : loR U m + U < B := by rw [hB]; exact hiR_lt U M m hU0 (by omega)
      have hrow : ∀ r, r < (b + 1) * B → (r + 1) * nc ≤ A.size := by
        intro r hr
        have := Nat.mul_le_mul_right nc (show r + 1 ≤ (b + 1) * B by omega)
        omega
      have hbB : (b + 1) * B = b * B + B := by rw [Nat.add_mul, Nat.one_mul]
      have hne : b * B + loR U m + U ≠ b * B + loR U m := by omega
      have hc := bfly_cell A w nc (b * B + loR U m + U) (b * B + loR U m) hne
        (hrow _ (by omega)) (hrow _ (by omega))
      refine ⟨by rw [bfly_size, ihs], ?_, ?_⟩
      · intro i k hi hk
        by_cases him : i = m
        · subst him
          have e1 := ih3 (b * B + loR U i) k hk (fun j hj => by
            have q1 := loR_ne_hiR U i j hU0
            have q2 : loR U i ≠ loR U j := fun h => (show i ≠ j by omega) (loR_inj U i j hU0 h)
            omega)
          have e2 := ih3 (b * B + loR U i + U) k hk (fun j hj => by
            have q1 := loR_ne_hiR U j i hU0
            have q2 : loR U i ≠ loR U j := fun h => (show i ≠ j by omega) (loR_inj U i j hU0 h)
            omega)
          rw [hc _ k hk, hc _ k hk, if_pos rfl, if_neg hne, if_pos rfl, e1, e2, hw]
          exact ⟨rfl, rfl⟩
        · have hi' : i < m := by omega
          have q0 : loR U i ≠ loR U m := fun h => him (loR_inj U i m hU0 h)
          have n1 : b * B + loR U i ≠ b * B + loR U m := by omega
          have n2 : b * B + loR U i ≠ b * B + loR U m + U := by
            have := loR_ne_hiR U i m hU0; omega
          have n3 : b * B + loR U i + U ≠ b * B + loR U m := by
            have := loR_ne_hiR U m i hU0; omega
          have n4 : b * B + loR U i + U ≠ b * B + loR U m + U := by omega
          rw [hc _ k hk, hc _ k hk, if_neg n1, if_neg n2, if_neg n3, if_neg n4]
          exact ih2 i k hi' hk
      · intro r k hk hr
        have h1 := hr m (by omega)
        rw [hc _ k hk, if_neg h1.1, if_neg h1.2]
        exact ih3 r k hk (fun i hi => hr i (by omega))
  unfold stage
  rw [hhalf]
  obtain ⟨k1, k2, k3⟩ := key (M * U) (Nat.le_refl _)
  refine ⟨k1, k2, ?_⟩
  intro r k hk hr
  apply k3 r k hk
  intro i hi
  have hlt : loR U i + U < B := by rw [hB]; exact hiR_lt U M i hU0 hi
  have hbB : (b + 1) * B = b * B + B := by rw [Nat.add_mul, Nat.one_mul]
  omega

end GoldilocksVerif.Model.Ntt
