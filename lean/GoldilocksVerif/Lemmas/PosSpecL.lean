/-
  Poseidon (C06), part 1: normal forms of the specification (Model/PoseidonSpec.lean) used by the three backends' proofs,
  the abstraction `stF` of a memory region as a 12-element state, the loop induction principle.  Helper lemmas only.
-/
import Mathlib.Tactic.IntervalCases
import Mathlib.Tactic.Ring
import GoldilocksVerif.Model.PoseidonSpec
import GoldilocksVerif.Model.Region

namespace GoldilocksVerif
open PoseidonSpec

/-- the 12-element state held by the first twelve words of a region, in the field view -/
def stF (r : Region) : State := fun i => den (r i.val)

theorem stF_apply (r : Region) (i : Fin 12) : stF r i = den (r i.val) := rfl

theorem forall_lt_12 (p : Nat → Prop) (h0 : p 0) (h1 : p 1) (h2 : p 2) (h3 : p 3) (h4 : p 4) (h5 : p 5) (h6 : p 6)
    (h7 : p 7) (h8 : p 8) (h9 : p 9) (h10 : p 10) (h11 : p 11) : ∀ i, i < 12 → p i := by
  intro i hi
  interval_cases i <;> assumption

theorem forall_lt_12' (p : ∀ i, i < 12 → Prop) (h0 : p 0 (by omega)) (h1 : p 1 (by omega)) (h2 : p 2 (by omega))
    (h3 : p 3 (by omega)) (h4 : p 4 (by omega)) (h5 : p 5 (by omega)) (h6 : p 6 (by omega)) (h7 : p 7 (by omega))
    (h8 : p 8 (by omega)) (h9 : p 9 (by omega)) (h10 : p 10 (by omega)) (h11 : p 11 (by omega)) : ∀ i hi, p i hi := by
  intro i hi
  interval_cases i <;> assumption

theorem fin12_val :
    ((0 : Fin 12).val = 0 ∧ (1 : Fin 12).val = 1 ∧ (2 : Fin 12).val = 2 ∧ (3 : Fin 12).val = 3) ∧
    ((4 : Fin 12).val = 4 ∧ (5 : Fin 12).val = 5 ∧ (6 : Fin 12).val = 6 ∧ (7 : Fin 12).val = 7) ∧
    ((8 : Fin 12).val = 8 ∧ (9 : Fin 12).val = 9 ∧ (10 : Fin 12).val = 10 ∧ (11 : Fin 12).val = 11) :=
  ⟨⟨rfl, rfl, rfl, rfl⟩, ⟨rfl, rfl, rfl, rfl⟩, ⟨rfl, rfl, rfl, rfl⟩⟩

theorem sum_fin12 (f : Fin 12 → F) :
    ∑ j, f j = f 0 + f 1 + f 2 + f 3 + f 4 + f 5 + f 6 + f 7 + f 8 + f 9 + f 10 + f 11 := by
  simp only [Fin.sum_univ_succ, Fin.sum_univ_zero]
  simp only [Fin.succ_zero_eq_one, Fin.succ_one_eq_two]
  ring_nf
  rfl

/-- a state function is determined by its values at the twelve Nat indices -/
theorem state_ext (s t : State) (h : ∀ i (hi : i < 12), s ⟨i, hi⟩ = t ⟨i, hi⟩) : s = t := by
  funext i; exact h i.val i.isLt


/-! ### normal forms of the specification's steps -/

theorem mulMat_apply (mat : Fin 12 → Fin 12 → F) (t : State) (i : Fin 12) :
    mulMat mat t i = mat 0 i * t 0 + mat 1 i * t 1 + mat 2 i * t 2 + mat 3 i * t 3 + mat 4 i * t 4 + mat 5 i * t 5 +
      mat 6 i * t 6 + mat 7 i * t 7 + mat 8 i * t 8 + mat 9 i * t 9 + mat 10 i * t 10 + mat 11 i * t 11 := by
  simp only [mulMat, sum_fin12]

theorem partialRound_zero (r : Nat) (t : State) :
    partialRound r t 0 = (t 0 ^ 7 + C (60 + r)) * S (23 * r) + t 1 * S (23 * r + 1) + t 2 * S (23 * r + 2) +
      t 3 * S (23 * r + 3) + t 4 * S (23 * r + 4) + t 5 * S (23 * r + 5) + t 6 * S (23 * r + 6) + t 7 * S (23 * r + 7) +
      t 8 * S (23 * r + 8) + t 9 * S (23 * r + 9) + t 10 * S (23 * r + 10) + t 11 * S (23 * r + 11) := by
  obtain ⟨⟨v0, v1, v2, v3⟩, ⟨v4, v5, v6, v7⟩, ⟨v8, v9, v10, v11⟩⟩ := fin12_val
  simp only [partialRound, Function.update_self, sum_fin12, v0, v1, v2, v3, v4, v5, v6, v7, v8, v9, v10, v11, Nat.add_zero]
  simp

theorem partialRound_succ (r : Nat) (t : State) (i : Fin 12) (hi : i ≠ 0) :
    partialRound r t i = t i + (t 0 ^ 7 + C (60 + r)) * S (23 * r + 11 + i.val) := by
  simp only [partialRound, Function.update_self, Function.update_of_ne hi]

/-! ### the loop combinator -/

theorem Loop.rangeAux_inv {σ : Type} (Inv : Nat → σ → Prop) (f : Nat → σ → σ) (hi : Nat)
    (hstep : ∀ r s, r < hi → Inv r s → Inv (r + 1) (f r s)) :
    ∀ (n lo : Nat) (s : σ), lo + n = hi → Inv lo s → Inv hi (Loop.rangeAux 1 f n lo s) := by
  intro n
  induction n with
  | zero => intro lo s h hs; simp only [Loop.rangeAux]; have : lo = hi := by omega
            subst this; exact hs
  | succ n ih =>
    intro lo s h hs
    simp only [Loop.rangeAux]
    exact ih (lo + 1) (f lo s) (by omega) (hstep lo s (by omega) hs)

/-- induction principle for `for (r = 0; r < n; r++)` -/
theorem Loop.range_inv {σ : Type} (Inv : Nat → σ → Prop) (f : Nat → σ → σ) (n : Nat) (s : σ) (h0 : Inv 0 s)
    (hstep : ∀ r s, r < n → Inv r s → Inv (r + 1) (f r s)) : Inv n (Loop.range 0 n 1 s f) := by
  unfold Loop.range
  have e : (n - 0 + 1 - 1) / 1 = n := by simp
  rw [e]
  exact Loop.rangeAux_inv Inv f n hstep n 0 s (by omega) h0

end GoldilocksVerif
