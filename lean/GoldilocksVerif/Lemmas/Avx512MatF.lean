/-
  AVX512 12-wide kernels on two interleaved states (Gen/Avx512Mat.lean) in the field view.
-/
import GoldilocksVerif.Gen.Avx512Mat
import GoldilocksVerif.Lemmas.Avx512Nat
import GoldilocksVerif.Lemmas.Avx2MatF
set_option linter.unusedSimpArgs false
set_option linter.unusedTactic false
set_option linter.unreachableTactic false
namespace GoldilocksVerif
open Gen.Avx512 Gen.Avx512Mat Gen.VecConsts Lane

/-- the two interleaved 4-lane halves of an 8-lane register -/
def V8.lo (a : V8) : V4 := ⟨a.l0, a.l1, a.l2, a.l3⟩
def V8.hi (a : V8) : V4 := ⟨a.l4, a.l5, a.l6, a.l7⟩

theorem den_add_avx512 (a b : V8) (i : Fin 8) : den ((add_avx512__wWW a b).get i) = den (a.get i) + den (b.get i) := by
  apply den_add_of; exact add512_spec a b i
theorem den_mult_avx512 (a b : V8) (i : Fin 8) : den ((mult_avx512 a b).get i) = den (a.get i) * den (b.get i) := by
  apply den_mul_of; exact mult512_spec a b i

theorem lo_get (a : V8) : (a.lo.get 0 = a.get 0 ∧ a.lo.get 1 = a.get 1 ∧ a.lo.get 2 = a.get 2 ∧ a.lo.get 3 = a.get 3) ∧
    (a.hi.get 0 = a.get 4 ∧ a.hi.get 1 = a.get 5 ∧ a.hi.get 2 = a.get 6 ∧ a.hi.get 3 = a.get 7) :=
  ⟨⟨rfl, rfl, rfl, rfl⟩, ⟨rfl, rfl, rfl, rfl⟩⟩

/-! #### coefficient registers

  The sparse kernels fill three registers with `b[4j .. 4j+3]` in both halves (one half per interleaved state).
  However they are filled (`_mm512_set4_epi64` of the four elements, `_mm512_broadcast_i64x4` of an unaligned
  256-bit load, …), unfolding the fill intrinsics gives the same register of reads, named `coef8 b (4j)` here;
  the proofs below only use what that register holds at a lane (`coef8_get`). -/

/-- the register holding `b[off .. off+3]` in both halves -/
def coef8 (b : Region) (off : Nat) : V8 :=
  ⟨b off, b (off + 1), b (off + 2), b (off + 3), b off, b (off + 1), b (off + 2), b (off + 3)⟩

theorem coef8_get (b : Region) (off : Nat) (i : Fin 8) : (coef8 b off).get i = b (off + i.val % 4) := by
  match i with
  | 0 => rfl | 1 => rfl | 2 => rfl | 3 => rfl | 4 => rfl | 5 => rfl | 6 => rfl | 7 => rfl

theorem coef8_0 (b : Region) : (⟨b 0, b 1, b 2, b 3, b 0, b 1, b 2, b 3⟩ : V8) = coef8 b 0 := rfl
theorem coef8_4 (b : Region) : (⟨b 4, b 5, b 6, b 7, b 4, b 5, b 6, b 7⟩ : V8) = coef8 b 4 := rfl
theorem coef8_8 (b : Region) : (⟨b 8, b 9, b 10, b 11, b 8, b 9, b 10, b 11⟩ : V8) = coef8 b 8 := rfl

/-- bring the three coefficient registers of a sparse kernel (already unfolded in the goal) to `coef8 b (4j)`:
  every modelled way of filling a register from memory / from elements is unfolded to the register of reads -/
macro "coef_norm" : tactic => `(tactic| (
  simp only [Avx512.set4_epi64, Avx512.set_epi64, Avx512.broadcast_i64x4, Avx512.load, Avx2.load, Avx2.set_epi64x,
    Region.shift_apply, Nat.reduceAdd]
  simp only [coef8_0, coef8_4, coef8_8]))

/-- spmv_avx512_4x12 on one lane: the coefficient index is the lane index modulo 4 -/
theorem spmv512_lane (a0 a1 a2 : V8) (b : Region) (i : Fin 8) :
    den ((spmv_avx512_4x12 a0 a1 a2 b).get i) =
      den (a0.get i) * den (b (i.val % 4)) + den (a1.get i) * den (b (4 + i.val % 4)) +
        den (a2.get i) * den (b (8 + i.val % 4)) := by
  simp only [spmv_avx512_4x12]
  coef_norm
  simp only [den_add_avx512, den_mult_avx512, coef8_get, Nat.zero_add]
  try ring

/-- spmv_avx512_4x12 per interleaved state = the AVX2 statement on each half -/
theorem spmv512_den (a0 a1 a2 : V8) (b : Region) (i : Fin 4) :
    den ((spmv_avx512_4x12 a0 a1 a2 b).lo.get i) =
      den (a0.lo.get i) * den (b i.val) + den (a1.lo.get i) * den (b (4 + i.val)) + den (a2.lo.get i) * den (b (8 + i.val)) ∧
    den ((spmv_avx512_4x12 a0 a1 a2 b).hi.get i) =
      den (a0.hi.get i) * den (b i.val) + den (a1.hi.get i) * den (b (4 + i.val)) + den (a2.hi.get i) * den (b (8 + i.val)) := by
  have e3 : ((3 : Fin 4).val) = 3 := rfl
  match i with
  | 0 => exact ⟨spmv512_lane a0 a1 a2 b 0, spmv512_lane a0 a1 a2 b 4⟩
  | 1 => exact ⟨spmv512_lane a0 a1 a2 b 1, spmv512_lane a0 a1 a2 b 5⟩
  | 2 => exact ⟨spmv512_lane a0 a1 a2 b 2, spmv512_lane a0 a1 a2 b 6⟩
  | 3 => exact ⟨spmv512_lane a0 a1 a2 b 3, spmv512_lane a0 a1 a2 b 7⟩


/-! #### dot_avx512 -/

theorem store512_get (r : Region) (v : V8) :
    (Avx512.store r v) 0 = v.l0 ∧ (Avx512.store r v) 1 = v.l1 ∧ (Avx512.store r v) 2 = v.l2 ∧ (Avx512.store r v) 3 = v.l3 ∧
    (Avx512.store r v) 4 = v.l4 ∧ (Avx512.store r v) 5 = v.l5 ∧ (Avx512.store r v) 6 = v.l6 ∧ (Avx512.store r v) 7 = v.l7 := by
  refine ⟨rfl, rfl, rfl, rfl, rfl, rfl, rfl, rfl⟩

theorem row_sum_eq (a0 a1 a2 : V4) (b : Region) (r : V4)
    (h : ∀ i : Fin 4, den (r.get i) =
      den (a0.get i) * den (b i.val) + den (a1.get i) * den (b (4 + i.val)) + den (a2.get i) * den (b (8 + i.val))) :
    den r.l0 + den r.l1 + (den r.l2 + den r.l3) = dot12 a0 a1 a2 b 0 := by
  have h0 := h 0
  have h1 := h 1
  have h2 := h 2
  have h3 := h 3
  have e3 : ((3 : Fin 4).val) = 3 := rfl
  simp only [V4.get, Fin.val_zero, Fin.val_one, Fin.val_two, e3, Nat.add_zero] at h0 h1 h2 h3
  rw [h0, h1, h2, h3]
  simp only [dot12, Nat.zero_add]
  ring

theorem set2_get (c : Region) (x y : BitVec 64) :
    (Region.set (Region.set c 0 x) 1 y) 0 = x ∧ (Region.set (Region.set c 0 x) 1 y) 1 = y ∧
    ∀ k, 2 ≤ k → (Region.set (Region.set c 0 x) 1 y) k = c k := by
  refine ⟨by simp [Region.set], by simp [Region.set], ?_⟩
  intro k hk
  have h0 : k ≠ 0 := by omega
  have h1 : k ≠ 1 := by omega
  simp [Region.set, h0, h1]

theorem store512_at (r : Region) (v : V8) :
    ((Avx512.store r v) 0 = v.l0 ∧ (Avx512.store r v) 1 = v.l1 ∧ (Avx512.store r v) 2 = v.l2 ∧ (Avx512.store r v) 3 = v.l3) ∧
    ((Avx512.store r v) 4 = v.l4 ∧ (Avx512.store r v) 5 = v.l5 ∧ (Avx512.store r v) 6 = v.l6 ∧ (Avx512.store r v) 7 = v.l7) :=
  ⟨⟨rfl, rfl, rfl, rfl⟩, ⟨rfl, rfl, rfl, rfl⟩⟩

/-- dot_avx512: the stored lanes of the sparse product are summed per half with scalar additions (any association /
  order of the four addends of a half) and written to c[0], c[1] -/
theorem dot512_den (c : Region) (a0 a1 a2 : V8) (b : Region) :
    den ((dot_avx512 c a0 a1 a2 b) 0) = dot12 a0.lo a1.lo a2.lo b 0 ∧
    den ((dot_avx512 c a0 a1 a2 b) 1) = dot12 a0.hi a1.hi a2.hi b 0 ∧
    ∀ k, 2 ≤ k → (dot_avx512 c a0 a1 a2 b) k = c k := by
  have hl : den (spmv_avx512_4x12 a0 a1 a2 b).l0 + den (spmv_avx512_4x12 a0 a1 a2 b).l1 +
      (den (spmv_avx512_4x12 a0 a1 a2 b).l2 + den (spmv_avx512_4x12 a0 a1 a2 b).l3) = dot12 a0.lo a1.lo a2.lo b 0 :=
    row_sum_eq a0.lo a1.lo a2.lo b (spmv_avx512_4x12 a0 a1 a2 b).lo (fun i => (spmv512_den a0 a1 a2 b i).1)
  have hh : den (spmv_avx512_4x12 a0 a1 a2 b).l4 + den (spmv_avx512_4x12 a0 a1 a2 b).l5 +
      (den (spmv_avx512_4x12 a0 a1 a2 b).l6 + den (spmv_avx512_4x12 a0 a1 a2 b).l7) = dot12 a0.hi a1.hi a2.hi b 0 :=
    row_sum_eq a0.hi a1.hi a2.hi b (spmv_avx512_4x12 a0 a1 a2 b).hi (fun i => (spmv512_den a0 a1 a2 b i).2)
  have n01 : (0 : Nat) ≠ 1 := by decide
  refine ⟨?_, ?_, ?_⟩
  · simp only [dot_avx512, store_avx512, Region.set_apply, n01, if_true, if_false, den_add_r,
      (store512_at _ _).1.1, (store512_at _ _).1.2.1, (store512_at _ _).1.2.2.1, (store512_at _ _).1.2.2.2]
    first | exact hl | (rw [← hl]; ring)
  · simp only [dot_avx512, store_avx512, Region.set_apply, if_true, den_add_r,
      (store512_at _ _).2.1, (store512_at _ _).2.2.1, (store512_at _ _).2.2.2.1, (store512_at _ _).2.2.2.2]
    first | exact hh | (rw [← hh]; ring)
  · intro k hk
    have h0 : k ≠ 0 := by omega
    have h1 : k ≠ 1 := by omega
    simp only [dot_avx512, Region.set_apply, h0, h1, if_false]

/-! #### the permutex2var / unpack network is the 4x4 transpose in both halves -/

theorem transpose8 (r0 r1 r2 r3 : V8) :
    Avx512.unpacklo_pd (Avx512.permutex2var_epi64 r0 (Avx512.set_epi64 13#64 12#64 5#64 4#64 9#64 8#64 1#64 0#64) r2)
        (Avx512.permutex2var_epi64 r1 (Avx512.set_epi64 13#64 12#64 5#64 4#64 9#64 8#64 1#64 0#64) r3) =
      ⟨r0.l0, r1.l0, r2.l0, r3.l0, r0.l4, r1.l4, r2.l4, r3.l4⟩ ∧
    Avx512.unpackhi_pd (Avx512.permutex2var_epi64 r0 (Avx512.set_epi64 13#64 12#64 5#64 4#64 9#64 8#64 1#64 0#64) r2)
        (Avx512.permutex2var_epi64 r1 (Avx512.set_epi64 13#64 12#64 5#64 4#64 9#64 8#64 1#64 0#64) r3) =
      ⟨r0.l1, r1.l1, r2.l1, r3.l1, r0.l5, r1.l5, r2.l5, r3.l5⟩ ∧
    Avx512.unpacklo_pd (Avx512.permutex2var_epi64 r0 (Avx512.set_epi64 15#64 14#64 7#64 6#64 11#64 10#64 3#64 2#64) r2)
        (Avx512.permutex2var_epi64 r1 (Avx512.set_epi64 15#64 14#64 7#64 6#64 11#64 10#64 3#64 2#64) r3) =
      ⟨r0.l2, r1.l2, r2.l2, r3.l2, r0.l6, r1.l6, r2.l6, r3.l6⟩ ∧
    Avx512.unpackhi_pd (Avx512.permutex2var_epi64 r0 (Avx512.set_epi64 15#64 14#64 7#64 6#64 11#64 10#64 3#64 2#64) r2)
        (Avx512.permutex2var_epi64 r1 (Avx512.set_epi64 15#64 14#64 7#64 6#64 11#64 10#64 3#64 2#64) r3) =
      ⟨r0.l3, r1.l3, r2.l3, r3.l3, r0.l7, r1.l7, r2.l7, r3.l7⟩ := by
  refine ⟨rfl, rfl, rfl, rfl⟩

/-- generic: four row registers whose lanes are the spmv terms, transposed and summed (the result register `R` is
    only known through the field value of each lane: any association / order of the three additions), give the 4 row
    dot products in each half -/
theorem rows_sum (a0 a1 a2 : V8) (M : Region) (r0 r1 r2 r3 : V8)
    (h0 : ∀ i : Fin 4,
      den (r0.lo.get i) = den (a0.lo.get i) * den (M i.val) + den (a1.lo.get i) * den (M (4 + i.val)) + den (a2.lo.get i) * den (M (8 + i.val)) ∧
      den (r0.hi.get i) = den (a0.hi.get i) * den (M i.val) + den (a1.hi.get i) * den (M (4 + i.val)) + den (a2.hi.get i) * den (M (8 + i.val)))
    (h1 : ∀ i : Fin 4,
      den (r1.lo.get i) = den (a0.lo.get i) * den (M (12 + i.val)) + den (a1.lo.get i) * den (M (12 + (4 + i.val))) + den (a2.lo.get i) * den (M (12 + (8 + i.val))) ∧
      den (r1.hi.get i) = den (a0.hi.get i) * den (M (12 + i.val)) + den (a1.hi.get i) * den (M (12 + (4 + i.val))) + den (a2.hi.get i) * den (M (12 + (8 + i.val))))
    (h2 : ∀ i : Fin 4,
      den (r2.lo.get i) = den (a0.lo.get i) * den (M (24 + i.val)) + den (a1.lo.get i) * den (M (24 + (4 + i.val))) + den (a2.lo.get i) * den (M (24 + (8 + i.val))) ∧
      den (r2.hi.get i) = den (a0.hi.get i) * den (M (24 + i.val)) + den (a1.hi.get i) * den (M (24 + (4 + i.val))) + den (a2.hi.get i) * den (M (24 + (8 + i.val))))
    (h3 : ∀ i : Fin 4,
      den (r3.lo.get i) = den (a0.lo.get i) * den (M (36 + i.val)) + den (a1.lo.get i) * den (M (36 + (4 + i.val))) + den (a2.lo.get i) * den (M (36 + (8 + i.val))) ∧
      den (r3.hi.get i) = den (a0.hi.get i) * den (M (36 + i.val)) + den (a1.hi.get i) * den (M (36 + (4 + i.val))) + den (a2.hi.get i) * den (M (36 + (8 + i.val))))
    (R : V8)
    (hR : ∀ j : Fin 8, den (R.get j) =
      den ((⟨r0.l0, r1.l0, r2.l0, r3.l0, r0.l4, r1.l4, r2.l4, r3.l4⟩ : V8).get j) +
      den ((⟨r0.l1, r1.l1, r2.l1, r3.l1, r0.l5, r1.l5, r2.l5, r3.l5⟩ : V8).get j) +
      (den ((⟨r0.l2, r1.l2, r2.l2, r3.l2, r0.l6, r1.l6, r2.l6, r3.l6⟩ : V8).get j) +
       den ((⟨r0.l3, r1.l3, r2.l3, r3.l3, r0.l7, r1.l7, r2.l7, r3.l7⟩ : V8).get j)))
    (i : Fin 4) :
    den (R.lo.get i) = dot12 a0.lo a1.lo a2.lo M (12 * i.val) ∧
    den (R.hi.get i) = dot12 a0.hi a1.hi a2.hi M (12 * i.val) := by
  have e3 : ((3 : Fin 4).val) = 3 := rfl
  have a00 := (h0 0).1; have a01 := (h0 1).1; have a02 := (h0 2).1; have a03 := (h0 3).1
  have a10 := (h1 0).1; have a11 := (h1 1).1; have a12 := (h1 2).1; have a13 := (h1 3).1
  have a20 := (h2 0).1; have a21 := (h2 1).1; have a22 := (h2 2).1; have a23 := (h2 3).1
  have a30 := (h3 0).1; have a31 := (h3 1).1; have a32 := (h3 2).1; have a33 := (h3 3).1
  have b00 := (h0 0).2; have b01 := (h0 1).2; have b02 := (h0 2).2; have b03 := (h0 3).2
  have b10 := (h1 0).2; have b11 := (h1 1).2; have b12 := (h1 2).2; have b13 := (h1 3).2
  have b20 := (h2 0).2; have b21 := (h2 1).2; have b22 := (h2 2).2; have b23 := (h2 3).2
  have b30 := (h3 0).2; have b31 := (h3 1).2; have b32 := (h3 2).2; have b33 := (h3 3).2
  simp only [V8.lo, V8.hi, V4.get, Fin.val_zero, Fin.val_one, Fin.val_two, e3, Nat.add_zero, Nat.reduceAdd] at a00 a01 a02 a03 a10 a11 a12 a13 a20 a21 a22 a23 a30 a31 a32 a33 b00 b01 b02 b03 b10 b11 b12 b13 b20 b21 b22 b23 b30 b31 b32 b33
  match i with
  | 0 =>
    have l := hR
    have l0 := l 0; have l4 := l 4
    refine ⟨?_, ?_⟩
    · show den (V8.get R 0) = _
      rw [l0]; simp only [V8.get]; rw [a00, a01, a02, a03]; simp only [dot12, V8.lo, Fin.val_zero, Nat.mul_zero, Nat.zero_add, Nat.reduceAdd, Nat.reduceMul]; ring
    · show den (V8.get R 4) = _
      rw [l4]; simp only [V8.get]; rw [b00, b01, b02, b03]; simp only [dot12, V8.hi, Fin.val_zero, Nat.mul_zero, Nat.zero_add, Nat.reduceAdd, Nat.reduceMul]; ring
  | 1 =>
    have l := hR
    have l0 := l 1; have l4 := l 5
    refine ⟨?_, ?_⟩
    · show den (V8.get R 1) = _
      rw [l0]; simp only [V8.get]; rw [a10, a11, a12, a13]; simp only [dot12, V8.lo, Fin.val_one, Nat.mul_one, Nat.reduceAdd, Nat.reduceMul]; ring
    · show den (V8.get R 5) = _
      rw [l4]; simp only [V8.get]; rw [b10, b11, b12, b13]; simp only [dot12, V8.hi, Fin.val_one, Nat.mul_one, Nat.reduceAdd, Nat.reduceMul]; ring
  | 2 =>
    have l := hR
    have l0 := l 2; have l4 := l 6
    refine ⟨?_, ?_⟩
    · show den (V8.get R 2) = _
      rw [l0]; simp only [V8.get]; rw [a20, a21, a22, a23]; simp only [dot12, V8.lo, Fin.val_two, Nat.reduceAdd, Nat.reduceMul]; ring
    · show den (V8.get R 6) = _
      rw [l4]; simp only [V8.get]; rw [b20, b21, b22, b23]; simp only [dot12, V8.hi, Fin.val_two, Nat.reduceAdd, Nat.reduceMul]; ring
  | 3 =>
    have l := hR
    have l0 := l 3; have l4 := l 7
    refine ⟨?_, ?_⟩
    · show den (V8.get R 3) = _
      rw [l0]; simp only [V8.get]; rw [a30, a31, a32, a33]; simp only [dot12, V8.lo, e3, Nat.reduceAdd, Nat.reduceMul]; ring
    · show den (V8.get R 7) = _
      rw [l4]; simp only [V8.get]; rw [b30, b31, b32, b33]; simp only [dot12, V8.hi, e3, Nat.reduceAdd, Nat.reduceMul]; ring


theorem spmv512_shift_den (a0 a1 a2 : V8) (M : Region) (off : Nat) (i : Fin 4) :
    den ((spmv_avx512_4x12 a0 a1 a2 (Region.shift M off)).lo.get i) =
      den (a0.lo.get i) * den (M (off + i.val)) + den (a1.lo.get i) * den (M (off + (4 + i.val))) +
        den (a2.lo.get i) * den (M (off + (8 + i.val))) ∧
    den ((spmv_avx512_4x12 a0 a1 a2 (Region.shift M off)).hi.get i) =
      den (a0.hi.get i) * den (M (off + i.val)) + den (a1.hi.get i) * den (M (off + (4 + i.val))) +
        den (a2.hi.get i) * den (M (off + (8 + i.val))) := by
  have := spmv512_den a0 a1 a2 (Region.shift M off) i
  simp only [Region.shift_apply] at this
  exact this

theorem mmult512_4x12_den (a0 a1 a2 : V8) (M : Region) (i : Fin 4) :
    den ((mmult_avx512_4x12 a0 a1 a2 M).lo.get i) = dot12 a0.lo a1.lo a2.lo M (12 * i.val) ∧
    den ((mmult_avx512_4x12 a0 a1 a2 M).hi.get i) = dot12 a0.hi a1.hi a2.hi M (12 * i.val) := by
  refine rows_sum a0 a1 a2 M (spmv_avx512_4x12 a0 a1 a2 M) (spmv_avx512_4x12 a0 a1 a2 (Region.shift M 12))
    (spmv_avx512_4x12 a0 a1 a2 (Region.shift M 24)) (spmv_avx512_4x12 a0 a1 a2 (Region.shift M 36))
    (fun k => spmv512_den a0 a1 a2 M k) (fun k => spmv512_shift_den a0 a1 a2 M 12 k)
    (fun k => spmv512_shift_den a0 a1 a2 M 24 k) (fun k => spmv512_shift_den a0 a1 a2 M 36 k) _ ?_ i
  intro j
  simp only [mmult_avx512_4x12, (transpose8 _ _ _ _).1, (transpose8 _ _ _ _).2.1, (transpose8 _ _ _ _).2.2.1,
    (transpose8 _ _ _ _).2.2.2, den_add_avx512]
  try ring

theorem mmult512_den (a0 a1 a2 : V8) (M : Region) (i : Fin 4) :
    (den ((mmult_avx512 a0 a1 a2 M).1.lo.get i) = dot12 a0.lo a1.lo a2.lo M (12 * i.val) ∧
     den ((mmult_avx512 a0 a1 a2 M).1.hi.get i) = dot12 a0.hi a1.hi a2.hi M (12 * i.val)) ∧
    (den ((mmult_avx512 a0 a1 a2 M).2.1.lo.get i) = dot12 a0.lo a1.lo a2.lo M (48 + 12 * i.val) ∧
     den ((mmult_avx512 a0 a1 a2 M).2.1.hi.get i) = dot12 a0.hi a1.hi a2.hi M (48 + 12 * i.val)) ∧
    (den ((mmult_avx512 a0 a1 a2 M).2.2.lo.get i) = dot12 a0.lo a1.lo a2.lo M (96 + 12 * i.val) ∧
     den ((mmult_avx512 a0 a1 a2 M).2.2.hi.get i) = dot12 a0.hi a1.hi a2.hi M (96 + 12 * i.val)) := by
  have h1 := mmult512_4x12_den a0 a1 a2 M i
  have h2 := mmult512_4x12_den a0 a1 a2 (Region.shift M 48) i
  have h3 := mmult512_4x12_den a0 a1 a2 (Region.shift M 96) i
  simp only [dot12, Region.shift_apply, ← Nat.add_assoc] at h2 h3
  simp only [mmult_avx512]
  refine ⟨h1, ⟨?_, ?_⟩, ⟨?_, ?_⟩⟩
  · rw [h2.1]; simp only [dot12, ← Nat.add_assoc]
  · rw [h2.2]; simp only [dot12, ← Nat.add_assoc]
  · rw [h3.1]; simp only [dot12, ← Nat.add_assoc]
  · rw [h3.2]; simp only [dot12, ← Nat.add_assoc]


/-! #### 8-bit variants -/

theorem den_mult512_72 (a b : V8) (i : Fin 8) (hb : (b.get i).toNat < 256) :
    den ((mult_avx512_72 a b).2.get i) + ((((mult_avx512_72 a b).1.get i).toNat : Nat) : F) * (18446744073709551616 : F) =
      den (a.get i) * den (b.get i) ∧ ((mult_avx512_72 a b).1.get i).toNat < 256 := by
  rw [(mult512_72_get a b i).1, (mult512_72_get a b i).2]
  obtain ⟨s1, _⟩ := m72_spec (a.get i) (b.get i)
  have e : (b.get i).toNat % 4294967296 = (b.get i).toNat := Nat.mod_eq_of_lt (by omega)
  rw [e] at s1
  constructor
  · unfold den
    have := congrArg (fun n : Nat => (n : F)) s1
    simp only [Nat.cast_add, Nat.cast_mul] at this
    rw [← this]; push_cast; ring
  · have ha := (a.get i).isLt
    have hp : (a.get i).toNat * (b.get i).toNat < 18446744073709551616 * 256 :=
      Nat.mul_lt_mul'' ha hb
    omega

/-- reduce_avx512_96_64 in the field view, for a high word known as a natural number below 2^32 (the caller supplies
  the number; how the register holding it was computed is left to unification) -/
theorem den_reduce512_96_sum (h l : V8) (i : Fin 8) (t : Nat) (ht : (h.get i).toNat = t) (hlt : t < 4294967296) :
    den ((reduce_avx512_96_64 h l).get i) = (t : F) * (18446744073709551616 : F) + den (l.get i) := by
  have red := reduce512_96_spec h l i
  rw [ht, Nat.mod_eq_of_lt hlt] at red
  rw [den_of_mod _ _ red]
  unfold den
  push_cast
  rfl

/-- one lane of spmv_avx512_4x12_8, for coefficients below 2^8 -/
theorem spmv512_8_lane' (a0 a1 a2 : V8) (b : Region) (i : Fin 8) (hb : ∀ k, k < 12 → (b k).toNat < 256) :
    den ((spmv_avx512_4x12_8 a0 a1 a2 b).get i) =
      den (a0.get i) * den (b (i.val % 4)) + den (a1.get i) * den (b (4 + i.val % 4)) +
        den (a2.get i) * den (b (8 + i.val % 4)) := by
  have hi : i.val % 4 < 4 := Nat.mod_lt _ (by decide)
  have g0 : ((coef8 b 0).get i).toNat < 256 := by rw [coef8_get]; exact hb _ (by omega)
  have g1 : ((coef8 b 4).get i).toNat < 256 := by rw [coef8_get]; exact hb _ (by omega)
  have g2 : ((coef8 b 8).get i).toNat < 256 := by rw [coef8_get]; exact hb _ (by omega)
  obtain ⟨m0, n0⟩ := den_mult512_72 a0 (coef8 b 0) i g0
  obtain ⟨m1, n1⟩ := den_mult512_72 a1 (coef8 b 4) i g1
  obtain ⟨m2, n2⟩ := den_mult512_72 a2 (coef8 b 8) i g2
  simp only [coef8_get, Nat.zero_add] at m0 m1 m2
  clear g0 g1 g2 hb hi
  -- the three 72-bit products: low parts added mod p (in any association), high parts (< 2^8 each) added as
  -- 64-bit integers (in any association and order), then one 96-bit reduction
  simp only [spmv_avx512_4x12_8]
  coef_norm
  rw [den_reduce512_96_sum _ _ i
    (((mult_avx512_72 a0 (coef8 b 0)).1.get i).toNat + ((mult_avx512_72 a1 (coef8 b 4)).1.get i).toNat +
      ((mult_avx512_72 a2 (coef8 b 8)).1.get i).toNat)
    (by simp only [lane_get, toNat_add64]; omega) (by omega)]
  simp only [den_add_avx512]
  push_cast
  rw [← m0, ← m1, ← m2]
  ring

theorem spmv512_8_den (a0 a1 a2 : V8) (b : Region) (i : Fin 4) (hb : ∀ k, k < 12 → (b k).toNat < 256) :
    den ((spmv_avx512_4x12_8 a0 a1 a2 b).lo.get i) =
      den (a0.lo.get i) * den (b i.val) + den (a1.lo.get i) * den (b (4 + i.val)) + den (a2.lo.get i) * den (b (8 + i.val)) ∧
    den ((spmv_avx512_4x12_8 a0 a1 a2 b).hi.get i) =
      den (a0.hi.get i) * den (b i.val) + den (a1.hi.get i) * den (b (4 + i.val)) + den (a2.hi.get i) * den (b (8 + i.val)) := by
  match i with
  | 0 => exact ⟨spmv512_8_lane' a0 a1 a2 b 0 hb, spmv512_8_lane' a0 a1 a2 b 4 hb⟩
  | 1 => exact ⟨spmv512_8_lane' a0 a1 a2 b 1 hb, spmv512_8_lane' a0 a1 a2 b 5 hb⟩
  | 2 => exact ⟨spmv512_8_lane' a0 a1 a2 b 2 hb, spmv512_8_lane' a0 a1 a2 b 6 hb⟩
  | 3 => exact ⟨spmv512_8_lane' a0 a1 a2 b 3 hb, spmv512_8_lane' a0 a1 a2 b 7 hb⟩

theorem spmv512_8_shift_den (a0 a1 a2 : V8) (M : Region) (off : Nat) (i : Fin 4)
    (hb : ∀ k, k < 12 → (M (off + k)).toNat < 256) :
    den ((spmv_avx512_4x12_8 a0 a1 a2 (Region.shift M off)).lo.get i) =
      den (a0.lo.get i) * den (M (off + i.val)) + den (a1.lo.get i) * den (M (off + (4 + i.val))) +
        den (a2.lo.get i) * den (M (off + (8 + i.val))) ∧
    den ((spmv_avx512_4x12_8 a0 a1 a2 (Region.shift M off)).hi.get i) =
      den (a0.hi.get i) * den (M (off + i.val)) + den (a1.hi.get i) * den (M (off + (4 + i.val))) +
        den (a2.hi.get i) * den (M (off + (8 + i.val))) := by
  have := spmv512_8_den a0 a1 a2 (Region.shift M off) i (fun k hk => by rw [Region.shift_apply]; exact hb k hk)
  simp only [Region.shift_apply] at this
  exact this

theorem mmult512_4x12_8_den (a0 a1 a2 : V8) (M : Region) (i : Fin 4) (hb : ∀ k, k < 48 → (M k).toNat < 256) :
    den ((mmult_avx512_4x12_8 a0 a1 a2 M).lo.get i) = dot12 a0.lo a1.lo a2.lo M (12 * i.val) ∧
    den ((mmult_avx512_4x12_8 a0 a1 a2 M).hi.get i) = dot12 a0.hi a1.hi a2.hi M (12 * i.val) := by
  refine rows_sum a0 a1 a2 M (spmv_avx512_4x12_8 a0 a1 a2 M) (spmv_avx512_4x12_8 a0 a1 a2 (Region.shift M 12))
    (spmv_avx512_4x12_8 a0 a1 a2 (Region.shift M 24)) (spmv_avx512_4x12_8 a0 a1 a2 (Region.shift M 36))
    (fun k => spmv512_8_den a0 a1 a2 M k (fun j hj => hb j (by omega)))
    (fun k => spmv512_8_shift_den a0 a1 a2 M 12 k (fun j hj => hb _ (by omega)))
    (fun k => spmv512_8_shift_den a0 a1 a2 M 24 k (fun j hj => hb _ (by omega)))
    (fun k => spmv512_8_shift_den a0 a1 a2 M 36 k (fun j hj => hb _ (by omega))) _ ?_ i
  intro j
  simp only [mmult_avx512_4x12_8, (transpose8 _ _ _ _).1, (transpose8 _ _ _ _).2.1, (transpose8 _ _ _ _).2.2.1,
    (transpose8 _ _ _ _).2.2.2, den_add_avx512]
  try ring

theorem mmult512_8_den (a0 a1 a2 : V8) (M : Region) (i : Fin 4) (hb : ∀ k, k < 144 → (M k).toNat < 256) :
    (den ((mmult_avx512_8 a0 a1 a2 M).1.lo.get i) = dot12 a0.lo a1.lo a2.lo M (12 * i.val) ∧
     den ((mmult_avx512_8 a0 a1 a2 M).1.hi.get i) = dot12 a0.hi a1.hi a2.hi M (12 * i.val)) ∧
    (den ((mmult_avx512_8 a0 a1 a2 M).2.1.lo.get i) = dot12 a0.lo a1.lo a2.lo M (48 + 12 * i.val) ∧
     den ((mmult_avx512_8 a0 a1 a2 M).2.1.hi.get i) = dot12 a0.hi a1.hi a2.hi M (48 + 12 * i.val)) ∧
    (den ((mmult_avx512_8 a0 a1 a2 M).2.2.lo.get i) = dot12 a0.lo a1.lo a2.lo M (96 + 12 * i.val) ∧
     den ((mmult_avx512_8 a0 a1 a2 M).2.2.hi.get i) = dot12 a0.hi a1.hi a2.hi M (96 + 12 * i.val)) := by
  have h1 := mmult512_4x12_8_den a0 a1 a2 M i (fun k hk => hb _ (by omega))
  have h2 := mmult512_4x12_8_den a0 a1 a2 (Region.shift M 48) i (fun k hk => by
    rw [Region.shift_apply]; exact hb _ (by omega))
  have h3 := mmult512_4x12_8_den a0 a1 a2 (Region.shift M 96) i (fun k hk => by
    rw [Region.shift_apply]; exact hb _ (by omega))
  simp only [dot12, Region.shift_apply, ← Nat.add_assoc] at h2 h3
  simp only [mmult_avx512_8]
  refine ⟨h1, ⟨?_, ?_⟩, ⟨?_, ?_⟩⟩
  · rw [h2.1]; simp only [dot12, ← Nat.add_assoc]
  · rw [h2.2]; simp only [dot12, ← Nat.add_assoc]
  · rw [h3.1]; simp only [dot12, ← Nat.add_assoc]
  · rw [h3.2]; simp only [dot12, ← Nat.add_assoc]

end GoldilocksVerif
