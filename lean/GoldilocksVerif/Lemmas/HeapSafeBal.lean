/-
  Allocation balance of the GENERATED NTT model (Gen/NttGen.lean, translated from ntt_goldilocks.cpp/.hpp on every run),
  part 1: the functions that give back a heap of the SAME SHAPE (`Heap.Same`: same number of blocks, same extent of every
  block) — `reversePermutation` (the run-time sized row temporary is allocated and released in every iteration),
  `parcpy`, `NTT_iters`, `NTT` and `INTT` (scratch `aux` and block destination `dst_` allocated with malloc and freed,
  with or without a caller buffer, any block count), for EVERY argument value and every fuel, whenever they return.
  The only hypothesis is that the heap has its NULL block (`0 < hp.size`; otherwise `Heap.alloc` would hand out NULL).
-/
import GoldilocksVerif.Lemmas.HeapSafeTac
import GoldilocksVerif.Lemmas.BridgeNttTac
import GoldilocksVerif.Gen.NttGen

namespace GoldilocksVerif.HeapSafe
open GoldilocksVerif Gen.NttGen GoldilocksVerif.BridgeNtt

/-- `OInv (Heap.Same s) (<lifted loop body> … s)`: the body of a counted loop gives back a heap of the same shape.  Proved
    by unfolding whatever the body is (no statement names a lifted loop body or its parameter list: a hoisted
    sub-expression or a reordered local changes that list) -/
macro "loop_same" : tactic => `(tactic| (intros; unfold_loops; (repeat heap_step); done))

-- lowest priority alternative of `same_lemmas`: a lifted loop body is unfolded in place
macro_rules | `(tactic| same_lemmas) => `(tactic| loop_same)

/-! ### reversePermutation -/

theorem reversePermutation_same (fuel : Nat) (hp : Heap) (self : NTT_Goldilocks) (dst src : Ptr) (size oc nc nca : BitVec 64)
    (hs : 0 < hp.size) : OInv (Heap.Same hp) (NTT_reversePermutation fuel hp self dst src size oc nc nca) := by
  unfold NTT_reversePermutation
  repeat heap_step
macro_rules | `(tactic| same_lemmas) => `(tactic| (apply reversePermutation_same; heap_pos))

/-! ### parcpy -/

theorem parcpy_same (fuel : Nat) (hp : Heap) (dst src : Ptr) (size : BitVec 64) (nt : Int) :
    OInv (Heap.Same hp) (parcpy fuel hp dst src size nt) := by
  unfold parcpy
  repeat heap_step
  oinv_bind (fun (y : Heap × BitVec 64) => Heap.Same hp y.1)
  · heap_step
    · exact Heap.Same.refl _
    · intro s hs
      unfold_loops
      repeat heap_step
  · repeat heap_step
macro_rules | `(tactic| same_lemmas) => `(tactic| apply parcpy_same)

/-! ### NTT_iters -/

theorem NTT_iters_same (fuel : Nat) (hp : Heap) (self : NTT_Goldilocks) (dst src : Ptr) (size oc nc nca nphase : BitVec 64) (aux : Ptr)
    (inverse extend : Bool) (hs : 0 < hp.size) :
    OInv (Heap.Same hp) (NTT_NTT_iters fuel hp self dst src size oc nc nca nphase aux inverse extend) := by
  unfold NTT_NTT_iters
  repeat heap_step
  oinv_bind (fun (y : BitVec 64 × Heap × Ptr × Ptr × Ptr × BitVec 64 × BitVec 64) => Heap.Same hp y.2.1)
  · heap_step
    · assumption
    · intro s hs
      unfold_loops
      repeat heap_step
      · oinv_bind_same hp
        · repeat heap_step
        · repeat heap_step
      · repeat heap_step
  all_goals repeat heap_step
macro_rules | `(tactic| same_lemmas) => `(tactic| (apply NTT_iters_same; heap_pos))

/-! ### NTT, INTT -/

/-- the body of the block loop of `NTT` keeps the shape of `h0` (first component of its state) -/
macro "ntt_block_same " h0:term : tactic => `(tactic| (
  unfold_loops
  repeat heap_step
  oinv_bind_same $h0
  · repeat heap_step
  · repeat heap_step
    oinv_bind_same $h0
    · repeat heap_step
    · repeat heap_step))

/-- by-name form for the block loop body of `NTT` (used by the in-bounds proofs of `NTT`) -/
theorem NTT_loop2_same (fuel : Nat) (dst src : Ptr) (size ncols nphase nblock : BitVec 64) (inverse extend : Bool) (self : NTT_Goldilocks)
    (ncb ncr : BitVec 64) (dst_ aux : Ptr) (ib : Nat) (h0 : Heap) (st : Heap × BitVec 64) (hs : 0 < h0.size) (h : Heap.Same h0 st.1) :
    OInv (fun r => Heap.Same h0 r.1) (NTT_NTT_loop2 fuel dst src size ncols nphase nblock inverse extend self ncb ncr dst_ aux ib st) := by
  ntt_block_same h0

/-- the same with the parameters of the lifted body left to unification -/
theorem NTT_loop2_same' {fuel : Nat} {dst src : Ptr} {size ncols nphase nblock : BitVec 64} {inverse extend : Bool}
    {self : NTT_Goldilocks} {ncb ncr : BitVec 64} {dst_ aux : Ptr} {ib : Nat} {h0 : Heap} (st : Heap × BitVec 64)
    (hs : 0 < h0.size) (h : Heap.Same h0 st.1) :
    OInv (fun r => Heap.Same h0 r.1) (NTT_NTT_loop2 fuel dst src size ncols nphase nblock inverse extend self ncb ncr dst_ aux ib st) :=
  NTT_loop2_same fuel dst src size ncols nphase nblock inverse extend self ncb ncr dst_ aux ib h0 st hs h

/-- the block loop of `NTT`, started on `(h0, offset)`: every state has a heap of the shape of `h0` -/
theorem block_loop_same (body : Nat → Heap × BitVec 64 → Option (Heap × BitVec 64)) (h0 : Heap) (oc : BitVec 64) (lo hi : Nat)
    (hbody : ∀ i (st : Heap × BitVec 64), Heap.Same h0 st.1 → OInv (fun r => Heap.Same h0 r.1) (body i st)) :
    OInv (fun y => Heap.Same h0 y.1) (Loop.rangeM lo hi 1 (h0, oc) body) :=
  OInv.rangeM (P := fun y => Heap.Same h0 y.1) lo hi 1 (h0, oc) body (Heap.Same.refl _) hbody

theorem NTT_same (fuel : Nat) (hp : Heap) (self : NTT_Goldilocks) (dst src : Ptr) (size ncols : BitVec 64) (buffer : Ptr)
    (nphase nblock : BitVec 64) (inverse extend : Bool) (hs : 0 < hp.size) :
    OInv (Heap.Same hp) (NTT_NTT fuel hp self dst src size ncols buffer nphase nblock inverse extend) := by
  unfold NTT_NTT
  repeat heap_step
  -- the two allocations (scratch `aux` when no buffer is given, `dst_` for more than one block) are case-split on their
  -- conditions as they stand in the goal: no local of the function is named here
  by_cases hb : (buffer == Ptr.null) = true
  · simp only [if_pos hb]
    split
    all_goals (
      refine OInv.bind (fun (y : Heap × BitVec 64) => Heap.Same _ y.1) _ _ (block_loop_same _ _ _ _ _ ?_) (fun _ _ => ?_)
      · intro i s hs'
        exact NTT_loop2_same' s (by heap_pos) hs'
      · repeat heap_step)
  · simp only [if_neg hb]
    split
    all_goals (
      refine OInv.bind (fun (y : Heap × BitVec 64) => Heap.Same _ y.1) _ _ (block_loop_same _ _ _ _ _ ?_) (fun _ _ => ?_)
      · intro i s hs'
        exact NTT_loop2_same' s (by heap_pos) hs'
      · repeat heap_step)
macro_rules | `(tactic| same_lemmas) => `(tactic| (apply NTT_same; heap_pos))

theorem INTT_same (fuel : Nat) (hp : Heap) (self : NTT_Goldilocks) (dst src : Ptr) (size ncols : BitVec 64) (buffer : Ptr)
    (nphase nblock : BitVec 64) (extend : Bool) (hs : 0 < hp.size) :
    OInv (Heap.Same hp) (NTT_INTT fuel hp self dst src size ncols buffer nphase nblock extend) := by
  unfold NTT_INTT
  repeat heap_step
macro_rules | `(tactic| same_lemmas) => `(tactic| (apply INTT_same; heap_pos))

end GoldilocksVerif.HeapSafe
