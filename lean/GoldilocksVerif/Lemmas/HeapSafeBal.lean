/-
  Allocation balance of the GENERATED NTT model (Gen/NttGen.lean, translated from ntt_goldilocks.cpp/.hpp on every run),
  part 1: the functions that give back a heap of the SAME SHAPE (`Heap.Same`: same number of blocks, same extent of every
  block) — `reversePermutation` (the run-time sized row temporary is allocated and released in every iteration),
  `parcpy`, `NTT_iters`, `NTT` and `INTT` (scratch `aux` and block destination `dst_` allocated with malloc and freed,
  with or without a caller buffer, any block count), for EVERY argument value and every fuel, whenever they return.
  The only hypothesis is that the heap has its NULL block (`0 < hp.size`; otherwise `Heap.alloc` would hand out NULL).
-/
import GoldilocksVerif.Lemmas.HeapSafeTac
import GoldilocksVerif.Gen.NttGen

namespace GoldilocksVerif.HeapSafe
open GoldilocksVerif Gen.NttGen

/-! ### reversePermutation -/

theorem rp_loop1_same (dst src : Ptr) (oc nc nca : BitVec 64) (ds : BitVec 32) (i : Nat) (hp : Heap) :
    OInv (Heap.Same hp) (NTT_reversePermutation_loop1 dst src oc nc nca ds i hp) := by
  unfold NTT_reversePermutation_loop1
  repeat heap_step
macro_rules | `(tactic| same_lemmas) => `(tactic| apply rp_loop1_same)

theorem rp_loop2_same (dst src : Ptr) (oc nc nca : BitVec 64) (ds : BitVec 32) (e : BitVec 64) (i : Nat) (hp : Heap) :
    OInv (Heap.Same hp) (NTT_reversePermutation_loop2 dst src oc nc nca ds e i hp) := by
  unfold NTT_reversePermutation_loop2
  repeat heap_step
macro_rules | `(tactic| same_lemmas) => `(tactic| apply rp_loop2_same)

theorem rp_loop3_same (dst src : Ptr) (nc : BitVec 64) (ds : BitVec 32) (i : Nat) (hp : Heap) (hs : 0 < hp.size) :
    OInv (Heap.Same hp) (NTT_reversePermutation_loop3 dst src nc ds i hp) := by
  unfold NTT_reversePermutation_loop3
  repeat heap_step
macro_rules | `(tactic| same_lemmas) => `(tactic| (apply rp_loop3_same; heap_pos))

theorem rp_loop4_same (dst src : Ptr) (nc : BitVec 64) (ds : BitVec 32) (nr : BitVec 64) (i : Nat) (hp : Heap) (hs : 0 < hp.size) :
    OInv (Heap.Same hp) (NTT_reversePermutation_loop4 dst src nc ds nr i hp) := by
  unfold NTT_reversePermutation_loop4
  repeat heap_step
macro_rules | `(tactic| same_lemmas) => `(tactic| (apply rp_loop4_same; heap_pos))

theorem reversePermutation_same (fuel : Nat) (hp : Heap) (self : NTT_Goldilocks) (dst src : Ptr) (size oc nc nca : BitVec 64)
    (hs : 0 < hp.size) : OInv (Heap.Same hp) (NTT_reversePermutation fuel hp self dst src size oc nc nca) := by
  unfold NTT_reversePermutation
  repeat heap_step
macro_rules | `(tactic| same_lemmas) => `(tactic| (apply reversePermutation_same; heap_pos))

/-! ### parcpy -/

theorem parcpy_loop1_same (dst src : Ptr) (size ct : BitVec 64) (h0 : Heap) (st : Heap × BitVec 64) (h : Heap.Same h0 st.1) :
    OInv (fun bs => Heap.Same h0 bs.2.1) (parcpy_loop1 dst src size ct st) := by
  unfold parcpy_loop1
  repeat heap_step

theorem parcpy_same (fuel : Nat) (hp : Heap) (dst src : Ptr) (size : BitVec 64) (nt : Int) :
    OInv (Heap.Same hp) (parcpy fuel hp dst src size nt) := by
  unfold parcpy
  repeat heap_step
  oinv_bind (fun (y : Heap × BitVec 64) => Heap.Same hp y.1)
  · heap_step
    · exact Heap.Same.refl _
    · intro s hs; exact parcpy_loop1_same _ _ _ _ hp s hs
  · repeat heap_step
macro_rules | `(tactic| same_lemmas) => `(tactic| apply parcpy_same)

/-! ### NTT_iters -/

theorem iters_loop1_same (a : Ptr) (o1 o2 w : BitVec 64) (k : Nat) (hp : Heap) :
    OInv (Heap.Same hp) (NTT_NTT_iters_loop1 a o1 o2 w k hp) := by
  unfold NTT_NTT_iters_loop1
  repeat heap_step
macro_rules | `(tactic| same_lemmas) => `(tactic| apply iters_loop1_same)

theorem iters_loop2_same (ncols : BitVec 64) (self : NTT_Goldilocks) (a : Ptr) (s rs re rb rm bS : BitVec 64) (b si : Nat)
    (mdiv2 mdiv2i mi : BitVec 64) (i : Nat) (hp : Heap) :
    OInv (Heap.Same hp) (NTT_NTT_iters_loop2 ncols self a s rs re rb rm bS b si mdiv2 mdiv2i mi i hp) := by
  unfold NTT_NTT_iters_loop2
  repeat heap_step
macro_rules | `(tactic| same_lemmas) => `(tactic| apply iters_loop2_same)

theorem iters_loop3_same (ncols : BitVec 64) (self : NTT_Goldilocks) (a : Ptr) (s rs re rb rm bS : BitVec 64) (b si : Nat) (hp : Heap) :
    OInv (Heap.Same hp) (NTT_NTT_iters_loop3 ncols self a s rs re rb rm bS b si hp) := by
  unfold NTT_NTT_iters_loop3
  repeat heap_step
macro_rules | `(tactic| same_lemmas) => `(tactic| apply iters_loop3_same)

theorem iters_loop4_same (ncols : BitVec 64) (a a2 : Ptr) (bS nB : BitVec 64) (b x : Nat) (hp : Heap) :
    OInv (Heap.Same hp) (NTT_NTT_iters_loop4 ncols a a2 bS nB b x hp) := by
  unfold NTT_NTT_iters_loop4
  repeat heap_step
macro_rules | `(tactic| same_lemmas) => `(tactic| apply iters_loop4_same)

theorem iters_loop5_same (self : NTT_Goldilocks) (a a2 : Ptr) (dsty od os : BitVec 64) (k : Nat) (hp : Heap) :
    OInv (Heap.Same hp) (NTT_NTT_iters_loop5 self a a2 dsty od os k hp) := by
  unfold NTT_NTT_iters_loop5
  repeat heap_step
macro_rules | `(tactic| same_lemmas) => `(tactic| apply iters_loop5_same)

theorem iters_loop6_same (size ncols : BitVec 64) (self : NTT_Goldilocks) (a a2 : Ptr) (bS nB : BitVec 64) (b x : Nat) (hp : Heap) :
    OInv (Heap.Same hp) (NTT_NTT_iters_loop6 size ncols self a a2 bS nB b x hp) := by
  unfold NTT_NTT_iters_loop6
  repeat heap_step
macro_rules | `(tactic| same_lemmas) => `(tactic| apply iters_loop6_same)

theorem iters_loop7_same (self : NTT_Goldilocks) (a a2 : Ptr) (dp od os : BitVec 64) (k : Nat) (hp : Heap) :
    OInv (Heap.Same hp) (NTT_NTT_iters_loop7 self a a2 dp od os k hp) := by
  unfold NTT_NTT_iters_loop7
  repeat heap_step
macro_rules | `(tactic| same_lemmas) => `(tactic| apply iters_loop7_same)

theorem iters_loop8_same (size ncols : BitVec 64) (self : NTT_Goldilocks) (a a2 : Ptr) (dp bS nB : BitVec 64) (b x : Nat) (hp : Heap) :
    OInv (Heap.Same hp) (NTT_NTT_iters_loop8 size ncols self a a2 dp bS nB b x hp) := by
  unfold NTT_NTT_iters_loop8
  repeat heap_step
macro_rules | `(tactic| same_lemmas) => `(tactic| apply iters_loop8_same)

theorem iters_loop9_same (size ncols : BitVec 64) (inverse extend : Bool) (self : NTT_Goldilocks) (a a2 : Ptr)
    (dp mbp s sInc rs re rb rm bS nB : BitVec 64) (b : Nat) (hp : Heap) :
    OInv (Heap.Same hp) (NTT_NTT_iters_loop9 size ncols inverse extend self a a2 dp mbp s sInc rs re rb rm bS nB b hp) := by
  unfold NTT_NTT_iters_loop9
  repeat heap_step
macro_rules | `(tactic| same_lemmas) => `(tactic| apply iters_loop9_same)

theorem iters_loop10_same (size ncols : BitVec 64) (inverse extend : Bool) (self : NTT_Goldilocks) (dp res : BitVec 64) (h0 : Heap)
    (st : BitVec 64 × Heap × Ptr × Ptr × Ptr × BitVec 64 × BitVec 64) (h : Heap.Same h0 st.2.1) :
    OInv (fun bs => Heap.Same h0 bs.2.2.1) (NTT_NTT_iters_loop10 size ncols inverse extend self dp res st) := by
  unfold NTT_NTT_iters_loop10
  repeat heap_step
  · oinv_bind_same h0
    · repeat heap_step
    · repeat heap_step
  · repeat heap_step

theorem NTT_iters_same (fuel : Nat) (hp : Heap) (self : NTT_Goldilocks) (dst src : Ptr) (size oc nc nca nphase : BitVec 64) (aux : Ptr)
    (inverse extend : Bool) (hs : 0 < hp.size) :
    OInv (Heap.Same hp) (NTT_NTT_iters fuel hp self dst src size oc nc nca nphase aux inverse extend) := by
  unfold NTT_NTT_iters
  repeat heap_step
  oinv_bind (fun (y : BitVec 64 × Heap × Ptr × Ptr × Ptr × BitVec 64 × BitVec 64) => Heap.Same hp y.2.1)
  · heap_step
    · assumption
    · intro s hs; exact iters_loop10_same _ _ _ _ _ _ _ hp s hs
  all_goals repeat heap_step
macro_rules | `(tactic| same_lemmas) => `(tactic| (apply NTT_iters_same; heap_pos))

/-! ### NTT, INTT -/

theorem NTT_loop1_same (dst : Ptr) (ncols oc : BitVec 64) (dst_ : Ptr) (an : BitVec 64) (ie : Nat) (hp : Heap) :
    OInv (Heap.Same hp) (NTT_NTT_loop1 dst ncols oc dst_ an ie hp) := by
  unfold NTT_NTT_loop1
  repeat heap_step
macro_rules | `(tactic| same_lemmas) => `(tactic| apply NTT_loop1_same)

theorem NTT_loop2_same (fuel : Nat) (dst src : Ptr) (size ncols nphase nblock : BitVec 64) (inverse extend : Bool) (self : NTT_Goldilocks)
    (ncb ncr : BitVec 64) (dst_ aux : Ptr) (ib : Nat) (h0 : Heap) (st : Heap × BitVec 64) (hs : 0 < h0.size) (h : Heap.Same h0 st.1) :
    OInv (fun r => Heap.Same h0 r.1) (NTT_NTT_loop2 fuel dst src size ncols nphase nblock inverse extend self ncb ncr dst_ aux ib st) := by
  unfold NTT_NTT_loop2
  repeat heap_step
  oinv_bind_same h0
  · repeat heap_step
  · repeat heap_step
    oinv_bind_same h0
    · repeat heap_step
    · repeat heap_step

theorem NTT_same (fuel : Nat) (hp : Heap) (self : NTT_Goldilocks) (dst src : Ptr) (size ncols : BitVec 64) (buffer : Ptr)
    (nphase nblock : BitVec 64) (inverse extend : Bool) (hs : 0 < hp.size) :
    OInv (Heap.Same hp) (NTT_NTT fuel hp self dst src size ncols buffer nphase nblock inverse extend) := by
  unfold NTT_NTT
  repeat heap_step
  rename_i nb1 nb oc0 ncb ncr nca1 nca
  by_cases hb : (buffer == Ptr.null) = true <;> by_cases hn : decide (nb > 1#64) = true
  · simp only [if_pos hb, if_pos hn]
    oinv_bind (fun (y : Heap × BitVec 64) => Heap.Same ((hp.alloc ((8#64 * size * nca).toNat / 8)).fst.alloc ((8#64 * size * nca).toNat / 8)).fst y.1)
    · heap_step
      · exact Heap.Same.refl _
      · intro i s hs'; exact NTT_loop2_same _ _ _ _ _ _ _ _ _ _ _ _ _ _ _ _ s (by heap_pos) hs'
    · repeat heap_step
  · simp only [if_pos hb, if_neg hn]
    oinv_bind (fun (y : Heap × BitVec 64) => Heap.Same (hp.alloc ((8#64 * size * nca).toNat / 8)).fst y.1)
    · heap_step
      · exact Heap.Same.refl _
      · intro i s hs'; exact NTT_loop2_same _ _ _ _ _ _ _ _ _ _ _ _ _ _ _ _ s (by heap_pos) hs'
    · repeat heap_step
  · simp only [if_neg hb, if_pos hn]
    oinv_bind (fun (y : Heap × BitVec 64) => Heap.Same (hp.alloc ((8#64 * size * nca).toNat / 8)).fst y.1)
    · heap_step
      · exact Heap.Same.refl _
      · intro i s hs'; exact NTT_loop2_same _ _ _ _ _ _ _ _ _ _ _ _ _ _ _ _ s (by heap_pos) hs'
    · repeat heap_step
  · simp only [if_neg hb, if_neg hn]
    oinv_bind (fun (y : Heap × BitVec 64) => Heap.Same hp y.1)
    · heap_step
      · exact Heap.Same.refl _
      · intro i s hs'; exact NTT_loop2_same _ _ _ _ _ _ _ _ _ _ _ _ _ _ _ _ s (by heap_pos) hs'
    · repeat heap_step
  all_goals repeat heap_step
macro_rules | `(tactic| same_lemmas) => `(tactic| (apply NTT_same; heap_pos))

theorem INTT_same (fuel : Nat) (hp : Heap) (self : NTT_Goldilocks) (dst src : Ptr) (size ncols : BitVec 64) (buffer : Ptr)
    (nphase nblock : BitVec 64) (extend : Bool) (hs : 0 < hp.size) :
    OInv (Heap.Same hp) (NTT_INTT fuel hp self dst src size ncols buffer nphase nblock extend) := by
  unfold NTT_INTT
  repeat heap_step
macro_rules | `(tactic| same_lemmas) => `(tactic| (apply INTT_same; heap_pos))

end GoldilocksVerif.HeapSafe
