/-
  Bridge theorems, NTT_iters part 1, BY-NAME forms (first round; used by Lemmas/BridgeNttPass.lean → Lemmas/ParGenNtt.lean for
  C12): the butterfly loops of the TRANSLATED `NTT_Goldilocks::NTT_iters` stated about the lifted loop bodies with their
  parameter lists.  The bridge theorems of C03 / C04 / C05 / C19 do not go through this file (Lemmas/BridgeNttStageG.lean,
  Lemmas/BridgeNttItersTop.lean).
-/
import GoldilocksVerif.Lemmas.BridgeNttStageG

namespace GoldilocksVerif.BridgeNtt
open GoldilocksVerif Gen.NttGen

/-! ### one butterfly: the loop over the columns -/

by_name_form theorem bfly_body (A : Nat) (o1 o2 nc : Nat) (w : BitVec 64) (h1 : o1 + nc < 2 ^ 64) (h2 : o2 + nc < 2 ^ 64)
    (k : Nat) (hk : k < nc) (X : Heap) (hA : A < X.size) :
    NTT_NTT_iters_loop1 ⟨A, 0⟩ (bv o1) (bv o2) w k X =
      some (X.setBlock A (Model.Ntt.bflyStep w o1 o2 k (X.block A))) := by
  unfold NTT_NTT_iters_loop1 Model.Ntt.bflyStep
  simp only [Heap.set_eq, Heap.get_def, Nat.zero_add]
  have e1 : (bv o1 + BitVec.ofNat 64 k).toNat = o1 + k := by
    show (bv o1 + bv k).toNat = _
    rw [bv_add, bv_toNat _ (by omega)]
  have e2 : (bv o2 + BitVec.ofNat 64 k).toNat = o2 + k := by
    show (bv o2 + bv k).toNat = _
    rw [bv_add, bv_toNat _ (by omega)]
  rw [e1, e2, Heap.block_setBlock_same _ _ _ hA, Heap.setBlock_setBlock]

by_name_form theorem bfly_loop (A : Nat) (o1 o2 nc : Nat) (w : BitVec 64) (h1 : o1 + nc < 2 ^ 64) (h2 : o2 + nc < 2 ^ 64)
    (X : Heap) (hA : A < X.size) :
    Loop.rangeM 0 (bv nc).toNat 1 X (NTT_NTT_iters_loop1 ⟨A, 0⟩ (bv o1) (bv o2) w) =
      some (X.setBlock A (Model.Ntt.bfly (X.block A) w o1 o2 nc)) := by
  rw [bv_toNat nc (by omega)]
  rw [Heap.rangeM_block X A hA (Model.Ntt.bflyStep w o1 o2) _ 0 nc
    (fun k Y _ hk hs _ => bfly_body A o1 o2 nc w h1 h2 k hk Y (by omega))]
  rfl

/-! ### one butterfly of one stage: offsets, twiddle index, root -/

by_name_form theorem stageStep_body (X : Heap) (self : NTT_Goldilocks) (o : Model.Ntt.Obj) (A : Nat) (hA : A < X.size)
    (hrep : ObjRep X self o)
    (S si b B NC RS RE RB N i : Nat)
    (hN30 : N ≤ 2 ^ 30) (hbB : b * B ≤ N) (hiN : i ≤ N) (hNNC : N * NC < 2 ^ 64)
    (hrow : b * B + i / 2 ^ si * (2 ^ si * 2) + i % 2 ^ si + 2 ^ si < N)
    (hRB : RB ≤ 2 ^ 30) (hRS : RS ≤ RE) (hRE : RE ≤ 30) (hS1 : 1 ≤ S) (hSs : S + si ≤ o.s) (hos : o.s ≤ 32) :
    NTT_NTT_iters_loop2 (bv NC) self ⟨A, 0⟩ (bv S) (bv RS) (bv RE) (bv RB) (bv (2 ^ (RE - RS) - 1)) (bv B) b si
        (bv (2 ^ (S + si) / 2)) (bv (2 ^ si)) (bv (2 ^ si * 2)) i X =
      (Loop.rangeM 0 (bv NC).toNat 1 X
        (NTT_NTT_iters_loop1 ⟨A, 0⟩
          (bv ((b * B + i / 2 ^ si * (2 ^ si * 2) + i % 2 ^ si + 2 ^ si) * NC))
          (bv ((b * B + i / 2 ^ si * (2 ^ si * 2) + i % 2 ^ si) * NC))
          (Model.Ntt.root o (S + si) (Model.Ntt.twIdx S si b B RS RE RB i)))) := by
  have hsi : si < 64 := by omega
  have h2si : 2 ^ si < 2 ^ 64 := Nat.pow_lt_pow_right (by omega) hsi
  have h2si' : 2 ^ si ≤ N := by omega
  have hi64 : i < 2 ^ 64 := by omega
  have hbB64 : b * B < 2 ^ 64 := by omega
  have ht : RE - RS < 64 := by omega
  -- the twiddle index
  let j0 := b * B / 2 + i
  have hj0 : j0 ≤ 2 ^ 31 := by
    have : b * B / 2 ≤ N := Nat.le_trans (Nat.div_le_self _ _) hbB
    show b * B / 2 + i ≤ 2 ^ 31
    omega
  let j1 := j0 % 2 ^ (RE - RS) * RB + j0 / 2 ^ (RE - RS)
  have hj1 : j1 < 2 ^ 62 := by
    have h1 : j0 % 2 ^ (RE - RS) ≤ 2 ^ 31 := Nat.le_trans (Nat.mod_le _ _) hj0
    have h2 : j0 / 2 ^ (RE - RS) ≤ 2 ^ 31 := Nat.le_trans (Nat.div_le_self _ _) hj0
    have h3 : j0 % 2 ^ (RE - RS) * RB ≤ 2 ^ 31 * 2 ^ 30 := Nat.mul_le_mul h1 hRB
    show j0 % 2 ^ (RE - RS) * RB + j0 / 2 ^ (RE - RS) < 2 ^ 62
    omega
  have hM : 2 ^ (S + si) / 2 < 2 ^ 64 := by
    have : 2 ^ (S + si) < 2 ^ 64 := Nat.pow_lt_pow_right (by omega) (by omega)
    omega
  have hJ : Model.Ntt.twIdx S si b B RS RE RB i = j1 % (2 ^ (S + si) / 2) := rfl
  have hJlt : Model.Ntt.twIdx S si b B RS RE RB i < 2 ^ (S + si) / 2 := by
    rw [hJ]
    apply Nat.mod_lt
    have : 2 ^ (S + si) = 2 ^ (S + si - 1) * 2 := by
      rw [← Nat.pow_succ]; congr 1; omega
    rw [this, Nat.mul_div_cancel _ (by omega)]
    exact Nat.pow_pos (by omega)
  have ej : (((BitVec.ofNat 64 b * bv B / 2#64 + BitVec.ofNat 64 i) &&& bv (2 ^ (RE - RS) - 1)) * bv RB +
      ((BitVec.ofNat 64 b * bv B / 2#64 + BitVec.ofNat 64 i) >>> (bv RE - bv RS).toNat)) % bv (2 ^ (S + si) / 2) =
      bv (Model.Ntt.twIdx S si b B RS RE RB i) := by
    show (((bv b * bv B / 2#64 + bv i) &&& bv (2 ^ (RE - RS) - 1)) * bv RB +
      ((bv b * bv B / 2#64 + bv i) >>> (bv RE - bv RS).toNat)) % bv (2 ^ (S + si) / 2) = _
    rw [bv_two, bv_mul, bv_div _ _ hbB64 (by omega), bv_add, bv_sub RE RS hRS (by omega), bv_toNat _ (by omega),
      bv_mask _ _ (by show j0 < 2 ^ 64; omega) ht, bv_shr _ _ (by show j0 < 2 ^ 64; omega), bv_mul, bv_add,
      bv_mod _ _ (by show j1 < 2 ^ 64; omega) hM]
    rfl
  have edp : (BitVec.setWidth 32 (bv (S + si))).toNat = S + si := by
    rw [BitVec.toNat_setWidth, bv_toNat _ (by omega)]
    exact Nat.mod_eq_of_lt (by omega)
  have eroot : NTT_root X self (BitVec.setWidth 32 (bv (S + si))) (bv (Model.Ntt.twIdx S si b B RS RE RB i)) =
      Model.Ntt.root o (S + si) (Model.Ntt.twIdx S si b B RS RE RB i) := by
    have hJ64 : Model.Ntt.twIdx S si b B RS RE RB i < 2 ^ 64 := by omega
    rw [root_gen X self o _ _ hrep.roots hrep.roots_off hrep.hs (by rw [edp]; exact hSs)
      (by
        rw [edp, bv_toNat _ hJ64]
        have h1 : 2 ^ (S + si) / 2 ≤ 2 ^ (S + si) := Nat.div_le_self _ _
        have h2 : 2 ^ (S + si) * 2 ^ (o.s - (S + si)) = 2 ^ o.s := by
          rw [← Nat.pow_add]; congr 1; omega
        have h3 : 2 ^ o.s ≤ 2 ^ 32 := Nat.pow_le_pow_right (by omega) hos
        have h4 : Model.Ntt.twIdx S si b B RS RE RB i * 2 ^ (o.s - (S + si)) ≤ 2 ^ (S + si) * 2 ^ (o.s - (S + si)) :=
          Nat.mul_le_mul_right _ (by omega)
        omega),
      edp, bv_toNat _ hJ64]
  have eki : BitVec.ofNat 64 b * bv B + BitVec.ofNat 64 i / bv (2 ^ si) * bv (2 ^ si * 2) =
      bv (b * B + i / 2 ^ si * (2 ^ si * 2)) := by
    show bv b * bv B + bv i / bv (2 ^ si) * bv (2 ^ si * 2) = _
    rw [bv_mul, bv_div _ _ hi64 h2si, bv_mul, bv_add]
  have eji : BitVec.ofNat 64 i % bv (2 ^ si) = bv (i % 2 ^ si) := bv_mod _ _ hi64 h2si
  unfold NTT_NTT_iters_loop2
  simp only [eki, eji, ej]
  simp only [bv_add, bv_mul, bind_some_id]
  rw [eroot]

by_name_form
/-- one butterfly of one stage = the hand model's `stageStep` -/
theorem stageStep_gen (X : Heap) (self : NTT_Goldilocks) (o : Model.Ntt.Obj) (A : Nat) (hA : A < X.size)
    (hrep : ObjRep X self o)
    (S si b B NC RS RE RB N i : Nat)
    (hN30 : N ≤ 2 ^ 30) (hbB : b * B ≤ N) (hiN : i ≤ N) (hNNC : N * NC < 2 ^ 64)
    (hrow : b * B + i / 2 ^ si * (2 ^ si * 2) + i % 2 ^ si + 2 ^ si < N)
    (hRB : RB ≤ 2 ^ 30) (hRS : RS ≤ RE) (hRE : RE ≤ 30) (hS1 : 1 ≤ S) (hSs : S + si ≤ o.s) (hos : o.s ≤ 32) :
    NTT_NTT_iters_loop2 (bv NC) self ⟨A, 0⟩ (bv S) (bv RS) (bv RE) (bv RB) (bv (2 ^ (RE - RS) - 1)) (bv B) b si
        (bv (2 ^ (S + si) / 2)) (bv (2 ^ si)) (bv (2 ^ si * 2)) i X =
      some (X.setBlock A (Model.Ntt.stageStep o S si b B NC RS RE RB i (X.block A))) := by
  rw [stageStep_body X self o A hA hrep S si b B NC RS RE RB N i hN30 hbB hiN hNNC hrow hRB hRS hRE hS1 hSs hos]
  have h1 := mul_le_of_lt _ _ NC hrow
  rw [bfly_loop A _ _ NC _ (by omega) (by
    have : (b * B + i / 2 ^ si * (2 ^ si * 2) + i % 2 ^ si) * NC ≤
        (b * B + i / 2 ^ si * (2 ^ si * 2) + i % 2 ^ si + 2 ^ si) * NC := Nat.mul_le_mul_right _ (by omega)
    omega) X hA]
  rfl

by_name_form
/-- one stage of one batch = the hand model's `stage` -/
theorem stage_gen (X : Heap) (self : NTT_Goldilocks) (o : Model.Ntt.Obj) (A : Nat) (hA : A < X.size)
    (hrep : ObjRep X self o) (hfr : ObjFrame self A)
    (S si b B M NC RS RE RB N rm : Nat)
    (hN30 : N ≤ 2 ^ 30) (hB : B = M * (2 ^ si * 2)) (hbB : b * B + B ≤ N) (hNNC : N * NC < 2 ^ 64)
    (hRB : RB ≤ 2 ^ 30) (hRS : RS ≤ RE) (hRE : RE ≤ 30) (hS1 : 1 ≤ S) (hSs : S + si ≤ o.s) (hos : o.s ≤ 32)
    (hS30 : S + si ≤ 30) :
    NTT_NTT_iters_loop3 (bv NC) self ⟨A, 0⟩ (bv S) (bv RS) (bv RE) (bv RB) (bv (2 ^ (RE - RS) - 1)) (bv B) b si X =
      some (X.setBlock A (Model.Ntt.stage o (X.block A) S si b B NC RS RE RB rm)) := by
  have hU : 0 < 2 ^ si := Nat.pow_pos (by omega)
  have hB64 : B < 2 ^ 64 := by omega
  have e1 : I32.toU64 (I32.shl (1 : Int) (bv S + BitVec.ofNat 64 si).toNat) = bv (2 ^ (S + si)) := by
    show I32.toU64 (I32.shl (1 : Int) (bv S + bv si).toNat) = _
    rw [bv_add, bv_toNat _ (by omega), shl_one _ hS30]
  have e2 : bv (2 ^ (S + si)) >>> 1 = bv (2 ^ (S + si) / 2) := by
    rw [bv_shr _ _ (Nat.pow_lt_pow_right (by omega) (by omega))]; rfl
  have e3 : I32.toU64 (I32.shl (1 : Int) si) = bv (2 ^ si) := shl_one _ (by omega)
  have e4 : (bv B >>> 1).toNat = B / 2 := by
    rw [bv_shr _ _ hB64, bv_toNat _ (by omega)]; rfl
  unfold NTT_NTT_iters_loop3
  simp only [e1, e2, e3, e4, bv_two, bv_mul]
  rw [Heap.rangeM_block X A hA (Model.Ntt.stageStep o S si b B NC RS RE RB) _ 0 (B / 2)
    (fun i Y _ hi hs hY => by
      have hiM : i < M * 2 ^ si := by
        have : B / 2 = M * 2 ^ si := by
          rw [hB, ← Nat.mul_assoc, Nat.mul_div_cancel _ (by omega)]
        omega
      have hr := row_lt (2 ^ si) M i hU hiM
      exact stageStep_gen Y self o A (by omega) (hrep.frame1 hfr hY) S si b B NC RS RE RB N i hN30 (by omega)
        (by omega) hNNC (by rw [← hB] at hr; omega) hRB hRS hRE hS1 hSs hos)]
  rfl

by_name_form
/-- all stages of one pass on one batch = the hand model's `batchStages` -/
theorem batchStages_gen (X : Heap) (self : NTT_Goldilocks) (o : Model.Ntt.Obj) (A : Nat) (hA : A < X.size)
    (hrep : ObjRep X self o) (hfr : ObjFrame self A)
    (S sInc b NC RS RE RB N rm : Nat)
    (hN30 : N ≤ 2 ^ 30) (hbB : b * 2 ^ sInc + 2 ^ sInc ≤ N) (hNNC : N * NC < 2 ^ 64)
    (hRB : RB ≤ 2 ^ 30) (hRS : RS ≤ RE) (hRE : RE ≤ 30) (hS1 : 1 ≤ S) (hSs : S + sInc ≤ o.s + 1) (hos : o.s ≤ 32)
    (hS30 : S + sInc ≤ 31) :
    Loop.rangeM 0 (bv sInc).toNat 1 X
        (NTT_NTT_iters_loop3 (bv NC) self ⟨A, 0⟩ (bv S) (bv RS) (bv RE) (bv RB) (bv (2 ^ (RE - RS) - 1)) (bv (2 ^ sInc)) b) =
      some (X.setBlock A (Model.Ntt.batchStages o (X.block A) S sInc b (2 ^ sInc) NC RS RE RB rm)) := by
  rw [bv_toNat sInc (by omega)]
  rw [Heap.rangeM_block X A hA (fun si a => Model.Ntt.stage o a S si b (2 ^ sInc) NC RS RE RB rm) _ 0 sInc
    (fun si Y _ hsi hs hY =>
      stage_gen Y self o A (by omega) (hrep.frame1 hfr hY) hfr S si b (2 ^ sInc) (2 ^ (sInc - si - 1)) NC RS RE RB N rm
        hN30 (pow_stage sInc si hsi) hbB hNNC hRB hRS hRE hS1 (by omega) hos (by omega))]
  rfl

end GoldilocksVerif.BridgeNtt
