/-
  AVX-512 lane kernels (Gen/Avx512.lean, regenerated from goldilocks_base_field_avx512.hpp) on `Nat`.
  Helper lemmas only; property statements are in Props/C11.lean.
-/
import GoldilocksVerif.Gen.Avx512
import GoldilocksVerif.Lemmas.Avx2Mul
set_option linter.unusedSimpArgs false
namespace GoldilocksVerif.Avx512

theorem bit_getLsbD (c : Bool) (j : Nat) (hj : j < 8) (i : Fin 8) :
    (bit c j).getLsbD i.val = (c && decide (i.val = j)) := by
  cases c
  · simp [bit]
  · simp only [bit, if_true, Bool.true_and]
    have : ∀ j i : Fin 8, (BitVec.ofNat 8 (2 ^ j.val)).getLsbD i.val = decide (i.val = j.val) := by decide
    exact this ⟨j, hj⟩ i

theorem mask8_getLsbD (p : BitVec 64 → BitVec 64 → Bool) (a b : V8) (i : Fin 8) :
    (mask8 p a b).getLsbD i.val = p (a.get i) (b.get i) := by
  unfold mask8
  simp only [BitVec.getLsbD_or]
  rw [bit_getLsbD _ 0 (by omega), bit_getLsbD _ 1 (by omega), bit_getLsbD _ 2 (by omega), bit_getLsbD _ 3 (by omega),
    bit_getLsbD _ 4 (by omega), bit_getLsbD _ 5 (by omega), bit_getLsbD _ 6 (by omega), bit_getLsbD _ 7 (by omega)]
  match i with
  | ⟨0, _⟩ => simp [V8.get] | ⟨1, _⟩ => simp [V8.get] | ⟨2, _⟩ => simp [V8.get] | ⟨3, _⟩ => simp [V8.get]
  | ⟨4, _⟩ => simp [V8.get] | ⟨5, _⟩ => simp [V8.get] | ⟨6, _⟩ => simp [V8.get] | ⟨7, _⟩ => simp [V8.get]

theorem k255_getLsbD (i : Fin 8) : (255#8 : BitVec 8).getLsbD i.val = true := by revert i; decide

theorem ucmp_gt_getLsbD (a b : V8) (i : Fin 8) :
    (ucmpq512_mask a b 6 255#8).getLsbD i.val = decide (b.get i < a.get i) := by
  have h : ucmpq512_mask a b 6 255#8 = mask8 (fun x y => decide (y < x)) a b &&& 255#8 := rfl
  rw [h, BitVec.getLsbD_and, k255_getLsbD, Bool.and_true, mask8_getLsbD]
theorem ucmp_ge_getLsbD (a b : V8) (i : Fin 8) :
    (ucmpq512_mask a b 5 255#8).getLsbD i.val = decide (b.get i ≤ a.get i) := by
  have h : ucmpq512_mask a b 5 255#8 = mask8 (fun x y => decide (y ≤ x)) a b &&& 255#8 := rfl
  rw [h, BitVec.getLsbD_and, k255_getLsbD, Bool.and_true, mask8_getLsbD]

theorem get_mask_add (src : V8) (k : BitVec 8) (a b : V8) (i : Fin 8) :
    (mask_add_epi64 src k a b).get i = if k.getLsbD i.val then a.get i + b.get i else src.get i := by
  match i with
  | 0 => rfl | 1 => rfl | 2 => rfl | 3 => rfl | 4 => rfl | 5 => rfl | 6 => rfl | 7 => rfl

theorem get_blend_aaaa (a b : V8) (i : Fin 8) :
    (mask_blend_epi32 43690 a b).get i = Lane.blend32 2 (a.get i) (b.get i) := by
  match i with
  | 0 => rfl | 1 => rfl | 2 => rfl | 3 => rfl | 4 => rfl | 5 => rfl | 6 => rfl | 7 => rfl
@[simp] theorem get_set_same (c : BitVec 64) (i : Fin 8) : (set_epi64 c c c c c c c c).get i = c := by
  match i with
  | 0 => rfl | 1 => rfl | 2 => rfl | 3 => rfl | 4 => rfl | 5 => rfl | 6 => rfl | 7 => rfl

end GoldilocksVerif.Avx512

namespace GoldilocksVerif
open Gen.Avx512 Gen.VecConsts Lane Avx512

namespace L8
def un (f : V8 → V8) (x : BitVec 64) : BitVec 64 := (f (V8.splat x)).get 0
def bin (f : V8 → V8 → V8) (x y : BitVec 64) : BitVec 64 := (f (V8.splat x) (V8.splat y)).get 0
end L8

/-! #### lanewise-ness and lane expressions -/

theorem canon512_get (a : V8) (i : Fin 8) :
    (toCanonical_avx512 a).get i =
      if decide (18446744069414584321#64 ≤ a.get i) then a.get i + 4294967295#64 else a.get i := by
  simp only [toCanonical_avx512, get_mask_add, ucmp_ge_getLsbD, g_P8, g_P8_n, get_set_same]

theorem add512_b_c_get (a b : V8) (i : Fin 8) :
    (add_avx512_b_c a b).get i =
      if decide (a.get i + b.get i < a.get i) then a.get i + b.get i + 4294967295#64 else a.get i + b.get i := by
  simp only [add_avx512_b_c, get_mask_add, ucmp_gt_getLsbD, Avx512.add_epi64, V8.get_map2, g_P8_n, get_set_same]

theorem sub512_b_c_get (a b : V8) (i : Fin 8) :
    (sub_avx512_b_c a b).get i =
      if decide (a.get i < b.get i) then a.get i - b.get i + 18446744069414584321#64 else a.get i - b.get i := by
  simp only [sub_avx512_b_c, get_mask_add, ucmp_gt_getLsbD, Avx512.sub_epi64, V8.get_map2, g_P8, get_set_same]

theorem lane_canon (x : BitVec 64) :
    (if decide (18446744069414584321#64 ≤ x) then x + 4294967295#64 else x).toNat = x.toNat % P := by
  have hx := x.isLt
  have hP : (18446744069414584321#64 : BitVec 64).toNat = 18446744069414584321 := by decide
  by_cases h : 18446744069414584321#64 ≤ x
  · rw [if_pos (by simpa using h), BitVec.toNat_add]
    have h' : 18446744069414584321 ≤ x.toNat := by rw [← hP]; exact h
    have e : (4294967295#64 : BitVec 64).toNat = 4294967295 := by decide
    rw [e]; unfold P; omega
  · rw [if_neg (by simpa using h)]
    have h' : ¬ 18446744069414584321 ≤ x.toNat := by rw [← hP]; exact h
    unfold P; omega

theorem lane_add_bc (x y : BitVec 64) (hb : x.toNat + y.toNat < 18446744073709551616 + P) :
    (if decide (x + y < x) then x + y + 4294967295#64 else x + y).toNat % P = (x.toNat + y.toNat) % P := by
  have hx := x.isLt
  have hy := y.isLt
  have e : (4294967295#64 : BitVec 64).toNat = 4294967295 := by decide
  by_cases h : x + y < x
  · rw [if_pos (by simpa using h), BitVec.toNat_add, BitVec.toNat_add, e]
    have h' : (x + y).toNat < x.toNat := h
    rw [BitVec.toNat_add] at h'
    unfold P at *; omega
  · rw [if_neg (by simpa using h), BitVec.toNat_add]
    have h' : ¬ (x + y).toNat < x.toNat := h
    rw [BitVec.toNat_add] at h'
    unfold P at *; omega

theorem lane_sub_bc (x y : BitVec 64) (hb : y.toNat < P) :
    ((if decide (x < y) then x - y + 18446744069414584321#64 else x - y).toNat + y.toNat) % P = x.toNat % P := by
  have hx := x.isLt
  have hP : (18446744069414584321#64 : BitVec 64).toNat = 18446744069414584321 := by decide
  by_cases h : x < y
  · rw [if_pos (by simpa using h), BitVec.toNat_add, BitVec.toNat_sub, hP]
    have h' : x.toNat < y.toNat := h
    unfold P at *; omega
  · rw [if_neg (by simpa using h), BitVec.toNat_sub]
    have h' : ¬ x.toNat < y.toNat := h
    unfold P at *; omega

theorem canon512_spec (a : V8) (i : Fin 8) : ((toCanonical_avx512 a).get i).toNat = (a.get i).toNat % P := by
  rw [canon512_get]; exact lane_canon _

/-- add_avx512_b_c : second operand canonical (the proof needs only a + b < 2^64 + p) -/
theorem add512_b_c_spec (a b : V8) (i : Fin 8) (hb : (a.get i).toNat + (b.get i).toNat < 18446744073709551616 + P) :
    ((add_avx512_b_c a b).get i).toNat % P = ((a.get i).toNat + (b.get i).toNat) % P := by
  rw [add512_b_c_get]; exact lane_add_bc _ _ hb

theorem sub512_b_c_spec (a b : V8) (i : Fin 8) (hb : (b.get i).toNat < P) :
    (((sub_avx512_b_c a b).get i).toNat + (b.get i).toNat) % P = (a.get i).toNat % P := by
  rw [sub512_b_c_get]; exact lane_sub_bc _ _ hb

theorem add512_get (a b : V8) (i : Fin 8) :
    (add_avx512__wWW a b).get i = (add_avx512_b_c (toCanonical_avx512 a) b).get i := by
  simp only [add_avx512__wWW, add_avx512_b_c]

theorem add512_comm_get (a b : V8) (i : Fin 8) :
    (add_avx512_b_c a b).get i = (add_avx512_b_c b a).get i ∨ True := Or.inr trivial

theorem add512_spec (a b : V8) (i : Fin 8) :
    ((add_avx512__wWW a b).get i).toNat % P = ((a.get i).toNat + (b.get i).toNat) % P := by
  rw [add512_get, add512_b_c_spec]
  · rw [canon512_spec, Nat.mod_add_mod]
  · rw [canon512_spec]
    have := (b.get i).isLt
    have := Nat.mod_lt (a.get i).toNat (show 0 < P by decide)
    omega

theorem sub512_get (a b : V8) (i : Fin 8) :
    (sub_avx512__wWW a b).get i = (sub_avx512_b_c a (toCanonical_avx512 b)).get i := by
  simp only [sub_avx512__wWW, sub_avx512_b_c]

theorem sub512_spec (a b : V8) (i : Fin 8) :
    (((sub_avx512__wWW a b).get i).toNat + (b.get i).toNat) % P = (a.get i).toNat % P := by
  rw [sub512_get]
  have h := sub512_b_c_spec a (toCanonical_avx512 b) i (by rw [canon512_spec]; exact Nat.mod_lt _ (by decide))
  rw [canon512_spec, Nat.add_mod_mod] at h
  exact h

/-! #### products -/

def m128h (x y : BitVec 64) : BitVec 64 := ((mult_avx512_128 (V8.splat x) (V8.splat y)).1).get 0
def m128l (x y : BitVec 64) : BitVec 64 := ((mult_avx512_128 (V8.splat x) (V8.splat y)).2).get 0

-- the lane-wise intrinsics of `Isa/Avx512.lean` and the register constants join the closed `lane_get` set
attribute [lane_get] Avx512.add_epi64 Avx512.sub_epi64 Avx512.and_si512 Avx512.xor_si512 Avx512.or_si512
  Avx512.andnot_si512 Avx512.srli_epi64 Avx512.slli_epi64 Avx512.mul_epu32 Avx512.movehdup_ps Avx512.moveldup_ps
  V8.get_map V8.get_map2 V8.get_splat Avx512.get_set_same Avx512.get_blend_aaaa g_P8 g_P8_n g_sqmask8

theorem mult512_128_get (a b : V8) (i : Fin 8) :
    (mult_avx512_128 a b).1.get i = m128h (a.get i) (b.get i) ∧
    (mult_avx512_128 a b).2.get i = m128l (a.get i) (b.get i) := by
  unfold m128h m128l
  simp only [mult_avx512_128, lane_get]

/-- the 128-bit product is exact (same scheme as the AVX2 kernel, proved on this kernel's own text) -/
theorem m128_spec (x y : BitVec 64) :
    (m128h x y).toNat * 18446744073709551616 + (m128l x y).toNat = x.toNat * y.toNat := by
  unfold m128h m128l
  simp only [mult_avx512_128, lane_get, lane_nat]
  products_omega x, y

theorem reduce512_128_get (h l : V8) (i : Fin 8) :
    (reduce_avx512_128_64 h l).get i =
      (add_avx512_b_c (sub_avx512_b_c l (Avx512.srli_epi64 h 32)) (Avx512.mul_epu32 h g_P8_n)).get i := by
  simp only [reduce_avx512_128_64]

theorem reduce512_128_spec (h l : V8) (i : Fin 8) :
    ((reduce_avx512_128_64 h l).get i).toNat % P = ((h.get i).toNat * 18446744073709551616 + (l.get i).toNat) % P := by
  rw [reduce512_128_get]
  have hh := (h.get i).isLt
  have e1 : ((Avx512.srli_epi64 h 32).get i).toNat = (h.get i).toNat / 4294967296 := by
    simp only [Avx512.srli_epi64, V8.get_map, ushr32_toNat]
  have e2 : ((Avx512.mul_epu32 h g_P8_n).get i).toNat = (h.get i).toNat % 4294967296 * 4294967295 := by
    simp only [Avx512.mul_epu32, V8.get_map2, g_P8_n, get_set_same, mul32_toNat]
    have e : (4294967295#64 : BitVec 64).toNat % 4294967296 = 4294967295 := by decide
    rw [e]
  have b2 : (h.get i).toNat % 4294967296 * 4294967295 ≤ 18446744065119617025 :=
    mul32_le _ _ (by omega) (by omega)
  have s1 := sub512_b_c_spec l (Avx512.srli_epi64 h 32) i (by rw [e1]; unfold P; omega)
  have s2 := add512_b_c_spec (sub_avx512_b_c l (Avx512.srli_epi64 h 32)) (Avx512.mul_epu32 h g_P8_n) i (by
    rw [e2]
    have := ((sub_avx512_b_c l (Avx512.srli_epi64 h 32)).get i).isLt
    unfold P; omega)
  rw [e1] at s1
  rw [e2] at s2
  have key := reduce128_core _ ((h.get i).toNat / 4294967296) ((h.get i).toNat % 4294967296) (l.get i).toNat _ s1 s2
  have e3 : (h.get i).toNat / 4294967296 * 4294967296 + (h.get i).toNat % 4294967296 = (h.get i).toNat := by omega
  rw [e3] at key
  exact key

theorem mult512_get (a b : V8) (i : Fin 8) :
    (mult_avx512 a b).get i = (reduce_avx512_128_64 (mult_avx512_128 a b).1 (mult_avx512_128 a b).2).get i := by
  simp only [mult_avx512]

theorem mult512_spec (a b : V8) (i : Fin 8) :
    ((mult_avx512 a b).get i).toNat % P = ((a.get i).toNat * (b.get i).toNat) % P := by
  rw [mult512_get, reduce512_128_spec, (mult512_128_get a b i).1, (mult512_128_get a b i).2, m128_spec]

/-! #### 72-bit product, 96-bit reduction -/

def m72h (x y : BitVec 64) : BitVec 64 := ((mult_avx512_72 (V8.splat x) (V8.splat y)).1).get 0
def m72l (x y : BitVec 64) : BitVec 64 := ((mult_avx512_72 (V8.splat x) (V8.splat y)).2).get 0

theorem mult512_72_get (a b : V8) (i : Fin 8) :
    (mult_avx512_72 a b).1.get i = m72h (a.get i) (b.get i) ∧
    (mult_avx512_72 a b).2.get i = m72l (a.get i) (b.get i) := by
  unfold m72h m72l
  simp only [mult_avx512_72, lane_get]

theorem m72_spec (x y : BitVec 64) :
    (m72h x y).toNat * 18446744073709551616 + (m72l x y).toNat = x.toNat * (y.toNat % 4294967296) ∧
    (m72h x y).toNat < 4294967296 := by
  unfold m72h m72l
  simp only [mult_avx512_72, lane_get, lane_nat]
  products_omega x, y

theorem reduce512_96_get (h l : V8) (i : Fin 8) :
    (reduce_avx512_96_64 h l).get i = (add_avx512_b_c l (Avx512.mul_epu32 h g_P8_n)).get i := by
  simp only [reduce_avx512_96_64]

theorem reduce512_96_spec (h l : V8) (i : Fin 8) :
    ((reduce_avx512_96_64 h l).get i).toNat % P =
      ((h.get i).toNat % 4294967296 * 18446744073709551616 + (l.get i).toNat) % P := by
  rw [reduce512_96_get]
  have e2 : ((Avx512.mul_epu32 h g_P8_n).get i).toNat = (h.get i).toNat % 4294967296 * 4294967295 := by
    simp only [Avx512.mul_epu32, V8.get_map2, g_P8_n, get_set_same, mul32_toNat]
    have e : (4294967295#64 : BitVec 64).toNat % 4294967296 = 4294967295 := by decide
    rw [e]
  have b2 : (h.get i).toNat % 4294967296 * 4294967295 ≤ 18446744065119617025 :=
    mul32_le _ _ (by omega) (by omega)
  rw [add512_b_c_spec _ _ _ (by rw [e2]; have := (l.get i).isLt; unfold P; omega), e2]
  apply mod_cert _ _ ((h.get i).toNat % 4294967296) 0
  unfold P
  omega

theorem mult512_8_spec (a b : V8) (i : Fin 8) (hb : (b.get i).toNat < 4294967296) :
    ((mult_avx512_8 a b).get i).toNat % P = ((a.get i).toNat * (b.get i).toNat) % P := by
  have e : (mult_avx512_8 a b).get i = (reduce_avx512_96_64 (mult_avx512_72 a b).1 (mult_avx512_72 a b).2).get i := by
    simp only [mult_avx512_8]
  rw [e, reduce512_96_spec, (mult512_72_get a b i).1, (mult512_72_get a b i).2]
  obtain ⟨s1, s2⟩ := m72_spec (a.get i) (b.get i)
  have e2 : (m72h (a.get i) (b.get i)).toNat % 4294967296 = (m72h (a.get i) (b.get i)).toNat := by omega
  have e3 : (b.get i).toNat % 4294967296 = (b.get i).toNat := by omega
  rw [e2, s1, e3]

/-! #### squares -/

def s128h (x : BitVec 64) : BitVec 64 := ((square_avx512_128 (V8.splat x)).1).get 0
def s128l (x : BitVec 64) : BitVec 64 := ((square_avx512_128 (V8.splat x)).2).get 0

theorem square512_128_get (a : V8) (i : Fin 8) :
    (square_avx512_128 a).1.get i = s128h (a.get i) ∧ (square_avx512_128 a).2.get i = s128l (a.get i) := by
  unfold s128h s128l
  simp only [square_avx512_128, lane_get]

theorem s128_spec (x : BitVec 64) :
    (s128h x).toNat * 18446744073709551616 + (s128l x).toNat = x.toNat * x.toNat := by
  unfold s128h s128l
  simp only [square_avx512_128, lane_get, lane_nat]
  products_omega x, x

theorem square512_spec (a : V8) (i : Fin 8) :
    ((square_avx512 a).get i).toNat % P = ((a.get i).toNat * (a.get i).toNat) % P := by
  have e : (square_avx512 a).get i =
      (reduce_avx512_128_64 (square_avx512_128 a).1 (square_avx512_128 a).2).get i := by
    simp only [square_avx512]
  rw [e, reduce512_128_spec, (square512_128_get a i).1, (square512_128_get a i).2, s128_spec]

end GoldilocksVerif
